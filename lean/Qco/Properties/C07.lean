/-
Claim C07 (hostile input): the arithmetic facts that make the unchecked fixed-width operations of
the decoder safe, for ARBITRARY input bits (no well-formedness of the file is assumed anywhere).

The operational model (`Qco/Op/Decomp.lean`) is a total function over `Nat`/`List Bool`: its
totality is the termination of the model. What is proved here is that, on every input,

1. offsets never exceed the range count (`k_range - offset`), values never exceed the prefix's
   upper bound (`lower + offset * gcd`), `k ≤ W` (shifts `1 << k`);
2. whatever `parse_prefixes`/`read_gcd` accept has `lower ≤ upper`, valid bounds, `1 ≤ gcd`;
3. run lengths are below `2^24`, a batch never exceeds its size, `nProcessed ≤ n`;
4. `bits_remaining` saturates, `skip_chunk_body` stays inside the data;
5. every operation moves the reader forward inside the data it was given;
6. code lengths are below 32, matched indices are inside the table, a complete tree never answers
   `corrupt`;
7. the bundle `no_arith_overflow_partial` (see its doc comment for what is NOT covered).
`W` is the width of the unsigned companion type.
-/
import Qco.Lemmas.Hostile
import Qco.Properties.C08
namespace Qco
namespace C07
open Parser Op

/-! ### 1. offsets and values -/

/-- `k_range - offset` never underflows: for every `r`, with `k = ⌊log2 (r+1)⌋`, every input -/
theorem decOffset_le (r : Nat) (s : Bits) (off : Nat) (rest : Bits)
    (h : decOffset r (Nat.log2 (r + 1)) s = .ok off rest) : off ≤ r :=
  decOffset_le_of_pow r _ (Nat.log2_self_le (Nat.succ_ne_zero _)) h

/-- the same for the counting reader of the operational model -/
theorem decOffsetC_le (r : Nat) (s : Bits) (off n : Nat) (rest : Bits)
    (h : decOffsetC r (Nat.log2 (r + 1)) s = .ok (off, n) rest) : off ≤ r :=
  decOffset_le r s off rest (decOffsetC_fst_h _ _ h)

/-- `lower + offset * gcd ≤ upper`: with `upper < 2^W` neither the multiplication nor the addition
can overflow the `W`-bit unsigned type. (`1 ≤ gcd` is not needed: for `gcd = 0` the model has
`r = 0`.) -/
theorem value_le_upper (p : Prefix) (hle : p.lower ≤ p.upper) (off : Nat) (ho : off ≤ p.info.r) :
    p.info.val off = p.lower + off * p.gcd ∧ p.info.val off ≤ p.upper := by
  refine ⟨rfl, ?_⟩
  rw [Prefix.info_val]
  have h1 : off * p.gcd ≤ (p.upper - p.lower) / p.gcd * p.gcd := Nat.mul_le_mul_right _ ho
  have h2 := Nat.div_mul_le_self (p.upper - p.lower) p.gcd
  omega

/-- the product alone is bounded by the range -/
theorem offset_mul_gcd_le (p : Prefix) (off : Nat) (ho : off ≤ p.info.r) :
    off * p.gcd ≤ p.upper - p.lower := by
  have h1 : off * p.gcd ≤ (p.upper - p.lower) / p.gcd * p.gcd := Nat.mul_le_mul_right _ ho
  have h2 := Nat.div_mul_le_self (p.upper - p.lower) p.gcd
  omega

/-- `k ≤ W`, and `k = W` only for the full range (the one case in which the code must not shift
by `k`) -/
theorem k_le_W (W : Nat) (p : Prefix) (hu : p.upper < 2 ^ W) :
    p.info.k ≤ W ∧ (p.info.k = W → p.info.r + 1 = 2 ^ W) := by
  have h1 := p.pow_k_le
  have h2 := p.r_le
  have h3 : p.info.r + 1 ≤ 2 ^ W := by omega
  refine ⟨(Nat.pow_le_pow_iff_right (by omega : 1 < 2)).1 (Nat.le_trans h1 h3), ?_⟩
  intro hk
  rw [hk] at h1
  omega

/-- below `W` the shift `1 << k` fits: `2^k ≤ 2^(W-1)` -/
theorem shift_fits (W : Nat) (p : Prefix) (hu : p.upper < 2 ^ W) (hk : p.info.k ≠ W) :
    2 ^ p.info.k < 2 ^ W :=
  Nat.pow_lt_pow_right (by omega) (by have := (k_le_W W p hu).1; omega)

theorem matchCode_index_lt (codes : List Bits) (s : Bits) (i : Nat) (r : Bits)
    (h : matchCode codes s = .ok i r) : i < codes.length := matchCode_index_lt' codes h

/-- every prefix of the table lies inside `[0, 2^W)` -/
def PrefixesOk (W : Nat) (ps : List Prefix) : Prop := ∀ p ∈ ps, p.lower ≤ p.upper ∧ p.upper < 2 ^ W

/-- the run in progress (if any) is a run of a prefix of the table -/
def IncOk (ps : List Prefix) (st : UState) : Prop := ∀ p rem, st = some (p, rem) → p < ps.length

theorem incOk_none (ps : List Prefix) : IncOk ps none := by intro p rem h; cases h

theorem incOk_some (ps : List Prefix) (p rem : Nat) (h : p < ps.length) : IncOk ps (some (p, rem)) := by
  intro p' rem' he
  simp only [Option.some.injEq, Prod.mk.injEq] at he
  omega

theorem incOk_ite (ps : List Prefix) (c : Prop) [Decidable c] (p rem : Nat) (h : p < ps.length) :
    IncOk ps (if c then none else some (p, rem)) := by
  split
  · exact incOk_none ps
  · exact incOk_some ps p rem h

/-- the value a table entry yields for an offset read off arbitrary bits -/
theorem table_val_lt (W : Nat) (ps : List Prefix) (hps : PrefixesOk W ps) (p : Nat)
    (hp : p < ps.length) (s : Bits) (off : Nat) (r : Bits)
    (h : decOffset ((tableOf ps).info p).r ((tableOf ps).info p).k s = .ok off r) :
    off ≤ ((tableOf ps).info p).r ∧ ((tableOf ps).info p).val off < 2 ^ W := by
  rw [tableOf_info ps p hp] at h ⊢
  obtain ⟨hle, hu⟩ := hps ps[p] (List.getElem_mem hp)
  have ho : off ≤ ps[p].info.r := decOffset_le _ s off r h
  exact ⟨ho, Nat.lt_of_le_of_lt (value_le_upper ps[p] hle off ho).2 hu⟩

/-- **one unit of the specification decoder, arbitrary bits**: the number is `< 2^W` and the new
state again refers to a prefix of the table -/
theorem unit_value_bounded (W : Nat) (ps : List Prefix) (hps : PrefixesOk W ps) (st : UState)
    (hst : IncOk ps st) (s : Bits) (x : Nat) (st' : UState) (r : Bits)
    (h : unit (tableOf ps) st s = .ok (x, st') r) : x < 2 ^ W ∧ IncOk ps st' := by
  cases st with
  | some pr =>
    obtain ⟨p, rem⟩ := pr
    have hp := hst p rem rfl
    unfold unit at h
    obtain ⟨off, r1, h1, h2⟩ := bind_ok_h h
    obtain ⟨he, _⟩ := pure_ok h2
    simp only [Prod.mk.injEq] at he
    obtain ⟨rfl, rfl⟩ := he
    exact ⟨(table_val_lt W ps hps p hp s off r1 h1).2, incOk_ite ps _ p _ hp⟩
  | none =>
    unfold unit at h
    obtain ⟨p, r0, h0, h1⟩ := bind_ok_h h
    have hp : p < ps.length := by
      have := matchCode_index_lt _ _ _ _ h0
      rwa [tableOf_codes_length] at this
    cases hj : ((tableOf ps).info p).jump with
    | none =>
      simp only [hj] at h1
      obtain ⟨off, r1, h2, h3⟩ := bind_ok_h h1
      obtain ⟨he, _⟩ := pure_ok h3
      simp only [Prod.mk.injEq] at he
      obtain ⟨rfl, rfl⟩ := he
      exact ⟨(table_val_lt W ps hps p hp r0 off r1 h2).2, incOk_none ps⟩
    | some j =>
      simp only [hj] at h1
      obtain ⟨m, r1, _, h3⟩ := bind_ok_h h1
      obtain ⟨off, r2, h4, h5⟩ := bind_ok_h h3
      obtain ⟨he, _⟩ := pure_ok h5
      simp only [Prod.mk.injEq] at he
      obtain ⟨rfl, rfl⟩ := he
      exact ⟨(table_val_lt W ps hps p hp r1 off r2 h4).2, incOk_ite ps _ p _ hp⟩

/-- **one unit of the operational decoder, arbitrary bits, any matcher that answers with indices
of the code list** -/
theorem unitL_value_bounded (L : Matcher) (hL : MatcherOk L) (W : Nat) (ps : List Prefix)
    (hps : PrefixesOk W ps) (st : PState) (hst : IncOk ps st.1) (s : Bits) (x : Nat) (st' : PState)
    (r : Bits) (h : unitL L (tableOf ps) st s = .ok (x, st') r) : x < 2 ^ W ∧ IncOk ps st'.1 := by
  obtain ⟨ust, pos⟩ := st
  cases ust with
  | some pr =>
    obtain ⟨p, rem⟩ := pr
    have hp := hst p rem rfl
    unfold unitL at h
    obtain ⟨⟨off, ob⟩, r1, h1, h2⟩ := bind_ok_h h
    obtain ⟨he, _⟩ := pure_ok h2
    simp only [Prod.mk.injEq] at he
    obtain ⟨rfl, rfl⟩ := he
    exact ⟨(table_val_lt W ps hps p hp s off r1 (decOffsetC_fst_h _ _ h1)).2, incOk_ite ps _ p _ hp⟩
  | none =>
    unfold unitL at h
    obtain ⟨p, r0, h0, h1⟩ := bind_ok_h h
    have hp : p < ps.length := by
      have := hL.index_lt _ _ _ _ _ h0
      rwa [tableOf_codes_length] at this
    cases hj : ((tableOf ps).info p).jump with
    | none =>
      simp only [hj] at h1
      obtain ⟨⟨off, ob⟩, r1, h2, h3⟩ := bind_ok_h h1
      obtain ⟨he, _⟩ := pure_ok h3
      simp only [Prod.mk.injEq] at he
      obtain ⟨rfl, rfl⟩ := he
      exact ⟨(table_val_lt W ps hps p hp r0 off r1 (decOffsetC_fst_h _ _ h2)).2, incOk_none ps⟩
    | some j =>
      simp only [hj] at h1
      obtain ⟨⟨m, vb⟩, r1, _, h3⟩ := bind_ok_h h1
      obtain ⟨⟨off, ob⟩, r2, h4, h5⟩ := bind_ok_h h3
      obtain ⟨he, _⟩ := pure_ok h5
      simp only [Prod.mk.injEq] at he
      obtain ⟨rfl, rfl⟩ := he
      exact ⟨(table_val_lt W ps hps p hp r1 off r2 (decOffsetC_fst_h _ _ h4)).2, incOk_ite ps _ p _ hp⟩

/-! ### 2. metadata parse -/

/-- `read_gcd` on arbitrary bits: the divisor is positive and, if not 1, at most the range -/
theorem decGcd_pos (gb : Nat → Nat) (range : Nat) (s : Bits) (g : Nat) (r : Bits)
    (h : decGcd gb range s = .ok g r) : 1 ≤ g ∧ (g = 1 ∨ g - 1 < range) := by
  unfold decGcd at h
  obtain ⟨nt, r1, _, h2⟩ := bind_ok_h h
  cases nt with
  | false =>
    obtain ⟨rfl, _⟩ := pure_ok h2
    exact ⟨Nat.le_refl 1, Or.inl rfl⟩
  | true =>
    simp only [if_true] at h2
    obtain ⟨g1, r2, _, h4⟩ := bind_ok_h h2
    split at h4
    · cases h4
    · obtain ⟨rfl, _⟩ := pure_ok h4
      exact ⟨by omega, Or.inr (by omega)⟩

theorem M_eq_two_H (d : DType) (h : 1 ≤ d.uBits) : d.M = 2 * d.H := by
  unfold DType.M DType.H
  have : d.uBits = (d.uBits - 1) + 1 := by omega
  rw [this, Nat.pow_succ]; simp; omega

/-- `to_unsigned ∘ from_bytes` on any `P`-bit field that is not rejected -/
theorem rawToU_valid (d : DType) (hW : 1 ≤ d.uBits) (hP : d.physBits ≤ d.uBits) (raw u : Nat)
    (hraw : raw < 2 ^ d.physBits) (h : d.rawToU raw = some u) : d.uValid u := by
  have hpow : 2 ^ d.physBits ≤ d.M := Nat.pow_le_pow_right (by omega) hP
  have hM := M_eq_two_H d hW
  have hHpos : 0 < d.H := Nat.two_pow_pos _
  unfold DType.rawToU at h
  unfold DType.uValid
  cases hk : d.kind <;> simp only [hk] at h ⊢
  · simp only [Option.some.injEq] at h; subst h
    simp only [DType.toU, hk]; omega
  · simp only [Option.some.injEq] at h; subst h
    simp only [DType.toU, hk]
    exact Nat.mod_lt _ (by omega)
  · simp only [Option.some.injEq] at h; subst h
    simp only [DType.toU, hk]
    split <;> omega
  · simp only [Option.some.injEq] at h; subst h
    split <;> omega
  · split at h
    · simp only [Option.some.injEq] at h; subst h
      omega
    · cases h

/-- a bound accepted by the metadata reader is the unsigned image of a valid value of the type.
(`1 ≤ W` is used for floats only, `P ≤ W` for unsigned integers only.) -/
theorem decBound_valid (d : DType) (hW : 1 ≤ d.uBits) (hP : d.physBits ≤ d.uBits) (s : Bits)
    (u : Nat) (r : Bits) (h : decBound d s = .ok u r) : d.uValid u := by
  unfold decBound at h
  obtain ⟨raw, r1, h1, h2⟩ := bind_ok_h h
  cases hr : d.rawToU raw with
  | none => rw [hr] at h2; cases h2
  | some u' =>
    rw [hr] at h2
    obtain ⟨rfl, _⟩ := pure_ok h2
    exact rawToU_valid d hW hP raw u (readNat_lt h1) hr

/-- valid unsigned images fit the unsigned type -/
theorem uValid_lt (d : DType) (hW : 1 ≤ d.uBits) (hts : d.kind = .ts96 → d.tsHalf ≤ d.H) (u : Nat)
    (h : d.uValid u) : u < 2 ^ d.uBits := by
  have hM := M_eq_two_H d hW
  have hHpos : 0 < d.H := Nat.two_pow_pos _
  show u < d.M
  unfold DType.uValid at h
  cases hk : d.kind <;> simp only [hk] at h
  · exact h
  · exact h
  · exact h
  · omega
  · have := hts hk; omega

/-- what C07 needs from a data-type descriptor -/
structure DTypeOk (d : DType) : Prop where
  bits_pos : 1 ≤ d.uBits
  phys_le : d.physBits ≤ d.uBits
  ts_half : d.kind = .ts96 → d.tsHalf ≤ d.H

instance (d : DType) : Decidable (DTypeOk d) :=
  decidable_of_iff (1 ≤ d.uBits ∧ d.physBits ≤ d.uBits ∧ (d.kind = .ts96 → d.tsHalf ≤ d.H))
    ⟨fun ⟨a, b, c⟩ => ⟨a, b, c⟩, fun ⟨a, b, c⟩ => ⟨a, b, c⟩⟩

/-- the hypotheses hold for the 15 rows of the data-type table -/
theorem dtypes_ok : ∀ d ∈ Frozen.dtypes, DTypeOk d := by decide

/-- ... and carry over to the signed companion (the type of the bounds under delta encoding) -/
theorem dtypeOk_signed (d : DType) (h : DTypeOk d) : DTypeOk d.signed := by
  unfold DType.signed
  cases hk : d.kind <;> simp only <;> first
    | exact h
    | exact ⟨h.bits_pos, Nat.le_refl _, fun hc => by cases hc⟩

theorem dtypeOk_pref (d : DType) (fl : Flags) (h : DTypeOk d) : DTypeOk (prefDType d fl) := by
  unfold prefDType
  split
  · exact h
  · exact dtypeOk_signed d h

theorem decBound_lt (d : DType) (hd : DTypeOk d) (s : Bits) (u : Nat) (r : Bits)
    (h : decBound d s = .ok u r) : u < 2 ^ d.uBits :=
  uValid_lt d hd.bits_pos hd.ts_half u (decBound_valid d hd.bits_pos hd.phys_le s u r h)

theorem codeLenBits_pow_le (fl : Flags) : 2 ^ fl.codeLenBits ≤ 32 := by
  unfold Flags.codeLenBits; split <;> decide

/-- everything `parse_prefixes` reads for one prefix, on arbitrary bits -/
structure PrefixBounds (gb : Nat → Nat) (d : DType) (fl : Flags) (n : Nat) (common : Option Nat)
    (p : Prefix) : Prop where
  le : p.lower ≤ p.upper
  count_lt : p.count < 2 ^ fl.countBits n
  lower_bound : ∃ s r, decBound d s = .ok p.lower r
  upper_bound : ∃ s r, decBound d s = .ok p.upper r
  code_lt : p.code.length < 2 ^ fl.codeLenBits
  jump_lt : ∀ j, p.jump = some j → j < 2 ^ Frozen.bitsJumpstart
  gcd_common : ∀ g, common = some g → p.gcd = g
  gcd_own : common = none → 1 ≤ p.gcd ∧ (p.gcd = 1 ∨ p.gcd - 1 < p.upper - p.lower)

theorem decPrefix_all (gb : Nat → Nat) (d : DType) (fl : Flags) (n : Nat) (common : Option Nat)
    (s : Bits) (p : Prefix) (r : Bits) (h : decPrefix gb d fl n common s = .ok p r) :
    PrefixBounds gb d fl n common p := by
  unfold decPrefix at h
  obtain ⟨count, r1, h1, h⟩ := bind_ok_h h
  obtain ⟨lower, r2, h2, h⟩ := bind_ok_h h
  obtain ⟨upper, r3, h3, h⟩ := bind_ok_h h
  split at h
  · cases h
  · rename_i hle
    obtain ⟨clen, r4, h4, h⟩ := bind_ok_h h
    obtain ⟨code, r5, h5, h⟩ := bind_ok_h h
    obtain ⟨hj, r6, _, h⟩ := bind_ok_h h
    obtain ⟨jump, r7, h7, h⟩ := bind_ok_h h
    obtain ⟨gcd, r8, h8, h⟩ := bind_ok_h h
    obtain ⟨rfl, _⟩ := pure_ok h
    refine ⟨by simp only; omega, readNat_lt h1, ⟨_, _, h2⟩, ⟨_, _, h3⟩, ?_, ?_, ?_, ?_⟩
    · simp only
      rw [readBits_length h5]
      exact readNat_lt h4
    · intro j hjj
      simp only at hjj
      subst hjj
      cases hj with
      | false => obtain ⟨he, _⟩ := pure_ok h7; cases he
      | true =>
        simp only [if_true] at h7
        obtain ⟨j', h9, he⟩ := map_ok h7
        simp only [Option.some.injEq] at he
        subst he
        exact readNat_lt h9
    · intro g hg
      subst hg
      simp only at h8 ⊢
      exact (pure_ok h8).1
    · intro hc
      subst hc
      simp only at h8 ⊢
      exact decGcd_pos gb _ _ _ _ h8

/-- `decPrefix_bounds`: bounds are ordered; a prefix's own GCD is positive and at most the range -/
theorem decPrefix_bounds (gb : Nat → Nat) (d : DType) (fl : Flags) (n : Nat) (common : Option Nat)
    (s : Bits) (p : Prefix) (r : Bits) (h : decPrefix gb d fl n common s = .ok p r) :
    p.lower ≤ p.upper ∧
    (common = none → 1 ≤ p.gcd ∧ (p.gcd - 1 < p.upper - p.lower ∨ p.gcd = 1)) := by
  have hb := decPrefix_all gb d fl n common s p r h
  exact ⟨hb.le, fun hc => ⟨(hb.gcd_own hc).1, (hb.gcd_own hc).2.symm⟩⟩

/-- `1 << max_depth`: code lengths come from a 4- or 5-bit field -/
theorem decPrefix_code_length (gb : Nat → Nat) (d : DType) (fl : Flags) (n : Nat)
    (common : Option Nat) (s : Bits) (p : Prefix) (r : Bits)
    (h : decPrefix gb d fl n common s = .ok p r) :
    p.code.length < 2 ^ fl.codeLenBits ∧ 2 ^ fl.codeLenBits ≤ 32 :=
  ⟨(decPrefix_all gb d fl n common s p r h).code_lt, codeLenBits_pow_le fl⟩

/-- what holds of every prefix of a successfully parsed chunk metadata -/
structure PrefixOk (d : DType) (p : Prefix) : Prop where
  le : p.lower ≤ p.upper
  upper_lt : p.upper < 2 ^ d.uBits
  upper_valid : d.uValid p.upper
  lower_valid : d.uValid p.lower
  gcd_pos : 1 ≤ p.gcd
  code_lt : p.code.length < 32
  jump_lt : ∀ j, p.jump = some j → j < 32

theorem decPrefixes_bounds (gb : Nat → Nat) (d : DType) (hd : DTypeOk d) (fl : Flags) (n : Nat)
    (s : Bits) (cg : Option Nat) (ps : List Prefix) (r : Bits)
    (h : decPrefixes gb d fl n s = .ok (cg, ps) r) :
    ps.length < 2 ^ 15 ∧ (∀ g, cg = some g → 1 ≤ g) ∧ ∀ p ∈ ps, PrefixOk d p := by
  unfold decPrefixes at h
  obtain ⟨nPref, r1, h1, h⟩ := bind_ok_h h
  obtain ⟨commonField, r2, h2, h⟩ := bind_ok_h h
  obtain ⟨ps', r3, h3, h⟩ := bind_ok_h h
  obtain ⟨he, _⟩ := pure_ok h
  simp only [Prod.mk.injEq] at he
  obtain ⟨rfl, rfl⟩ := he
  -- the common divisor, if any, is positive
  have hcg : ∀ g, cg = some g → 1 ≤ g := by
    intro g hg
    subst hg
    split at h2
    · obtain ⟨hc, r4, _, h5⟩ := bind_ok_h h2
      cases hc with
      | false => obtain ⟨he, _⟩ := pure_ok h5; cases he
      | true =>
        simp only [if_true] at h5
        obtain ⟨g', h6, he⟩ := map_ok h5
        simp only [Option.some.injEq] at he
        subst he
        exact (decGcd_pos gb _ _ _ _ h6).1
    · obtain ⟨he, _⟩ := pure_ok h2; cases he
  obtain ⟨hlen, hall⟩ := rep_forall (PrefixBounds gb d fl n (if fl.gcds then cg else some 1))
    (fun s a r h => decPrefix_all gb d fl n _ s a r h) nPref h3
  refine ⟨by rw [hlen]; exact readNat_lt h1, hcg, ?_⟩
  intro p hp
  have hb := hall p hp
  obtain ⟨su, ru, hu⟩ := hb.upper_bound
  obtain ⟨sl, rl, hl⟩ := hb.lower_bound
  refine ⟨hb.le, decBound_lt d hd su _ ru hu, decBound_valid d hd.bits_pos hd.phys_le su _ ru hu,
    decBound_valid d hd.bits_pos hd.phys_le sl _ rl hl, ?_,
    Nat.lt_of_lt_of_le hb.code_lt (codeLenBits_pow_le fl), hb.jump_lt⟩
  cases hg : fl.gcds with
  | false =>
    have := hb.gcd_common 1 (by simp [hg])
    omega
  | true =>
    cases hc : cg with
    | none => exact (hb.gcd_own (by simp [hg, hc])).1
    | some g =>
      have := hb.gcd_common g (by simp [hg, hc])
      have := hcg g hc
      omega

/-- **`chunk_metadata` on arbitrary bits**: whatever metadata the reader accepts has a count below
`2^24`, a body size below `2^32` bytes (so `body_size * 8 < 2^35`), as many moments as the delta
order, fewer than `2^15` prefixes, and every prefix is ordered, inside the unsigned type, with a
positive divisor, a code shorter than 32 bits and a jumpstart below 32 -/
theorem decChunkMeta_bounds (gb : Nat → Nat) (d : DType) (hd : DTypeOk d) (fl : Flags) (s : Bits)
    (m : ChunkMeta) (r : Bits) (h : decChunkMeta gb d fl s = .ok m r) :
    m.n < 2 ^ 24 ∧ m.bodyBytes * 8 < 2 ^ 35 ∧ m.moments.length = fl.order ∧
    m.prefixes.length < 2 ^ 15 ∧ (∀ g, m.commonGcd = some g → 1 ≤ g) ∧
    ∀ p ∈ m.prefixes, PrefixOk (prefDType d fl) p := by
  unfold decChunkMeta at h
  obtain ⟨r0, h⟩ := aligned_ok h
  obtain ⟨n, r1, h1, h⟩ := bind_ok_h h
  obtain ⟨bodyBytes, r2, h2, h⟩ := bind_ok_h h
  obtain ⟨moments, r3, h3, h⟩ := bind_ok_h h
  obtain ⟨⟨cg, ps⟩, r4, h4, h⟩ := bind_ok_h h
  obtain ⟨rfl, _⟩ := pure_ok h
  obtain ⟨hlen, _⟩ := rep_forall (fun _ => True) (fun _ _ _ _ => trivial) fl.order h3
  obtain ⟨k1, k2, k3⟩ := decPrefixes_bounds gb (prefDType d fl) (dtypeOk_pref d fl hd) fl n r3 cg ps r4 h4
  have hb := readNat_lt h2
  have hn := readNat_lt h1
  simp only [Frozen.bitsBodySize] at hb
  simp only [Frozen.bitsNEntries] at hn
  refine ⟨hn, ?_, hlen, k1, k2, k3⟩
  show bodyBytes * 8 < 2 ^ 35
  omega

theorem prefixesOk_of (d : DType) (ps : List Prefix) (h : ∀ p ∈ ps, PrefixOk d p) :
    PrefixesOk d.uBits ps := fun p hp => ⟨(h p hp).le, (h p hp).upper_lt⟩

/-- `1 << max_depth` fits a 64-bit word (even a 32-bit one) -/
theorem completeTree_maxLen (d : DType) (ps : List Prefix) (h : ∀ p ∈ ps, PrefixOk d p) :
    maxLen (ps.map (·.code)) ≤ 31 ∧ 2 ^ maxLen (ps.map (·.code)) < 2 ^ 32 := by
  have h1 : maxLen (ps.map (·.code)) ≤ 31 := by
    apply maxLen_le
    intro c hc
    obtain ⟨p, hp, rfl⟩ := List.mem_map.1 hc
    have := (h p hp).code_lt
    omega
  exact ⟨h1, Nat.pow_lt_pow_right (by omega) (by omega)⟩

/-! ### 3. run lengths and batch sizes -/

/-- `read_varint`: with a legal jumpstart the run length (minus one) is below `2^24` -/
theorem decVarint_lt (j : Nat) (hj : j ≤ 24) (s : Bits) (x : Nat) (r : Bits)
    (h : decVarint 24 j s = .ok x r) : x < 2 ^ 24 := by
  have := decVarint_lt_max 24 j h
  rwa [Nat.max_eq_left hj] at this

theorem decVarintC_lt (j : Nat) (hj : j ≤ 24) (s : Bits) (x n : Nat) (r : Bits)
    (h : decVarintC 24 j s = .ok (x, n) r) : x < 2 ^ 24 :=
  decVarint_lt j hj s x r (decVarintC_fst_h _ _ h)

/-- `parse_prefixes` accepts every 5-bit jumpstart (nothing rejects `25..31`): on hostile
metadata the run length is below `2^31`, not below `2^24` -/
theorem decVarint_lt_hostile (j : Nat) (hj : j < 32) (s : Bits) (x : Nat) (r : Bits)
    (h : decVarint 24 j s = .ok x r) : x < 2 ^ 31 := by
  have h1 := decVarint_lt_max 24 j h
  have h2 : 2 ^ (max 24 j) ≤ 2 ^ 31 := Nat.pow_le_pow_right (by omega) (by omega)
  omega

/-- a batch never returns more numbers than asked for: `batch_size - unsigneds.len()` never
underflows -/
theorem drainR_le {σ : Type} (u : σ → Parser (Nat × σ)) (batch : Nat) (st : σ) (s : Bits) :
    (drainR u batch st s).1.length ≤ batch := drainR_length_le u batch st s

/-- a successful batch hands out at most what is left and at most `limit`; `nProcessed ≤ n` is
kept (with `BodyInv`, the reachable-state invariant of C08, as the starting point) -/
theorem nProcessed_le (L : Matcher) (b : Body) (limit : Nat) (eoi : Bool) (rd : Rd)
    (hb : b.st.nProcessed ≤ b.n) :
    (numBatch L b limit eoi rd).2.1.nProcessed ≤ b.n ∧
    ∀ ub st' rd', numBatch L b limit eoi rd = (.ok ub, st', rd') →
      ub.us.length ≤ b.n - b.st.nProcessed ∧ ub.us.length ≤ limit ∧
      st'.nProcessed = b.st.nProcessed + ub.us.length := by
  have key : ∀ ub st' rd', numBatch L b limit eoi rd = (.ok ub, st', rd') →
      ub.us.length ≤ b.n - b.st.nProcessed ∧ ub.us.length ≤ limit ∧
      st'.nProcessed = b.st.nProcessed + ub.us.length := by
    intro ub st' rd' h
    obtain ⟨k1, k2, k3, _⟩ := numBatch_ok L b limit eoi rd ub st' rd' h
    exact ⟨k2, k3, k1⟩
  refine ⟨?_, key⟩
  generalize hr : numBatch L b limit eoi rd = res
  obtain ⟨out, st', rd'⟩ := res
  cases out with
  | ok ub =>
    obtain ⟨k1, _, k3⟩ := key ub st' rd' hr
    simp only; omega
  | err e =>
    obtain ⟨rfl, _⟩ := numBatch_err_restores L b limit eoi rd e st' rd' hr
    exact hb

/-! ### 4. skipping and sizes -/

/-- `bits_remaining` is a saturating subtraction: it never underflows, even when a hostile body
size is smaller than what was already decoded -/
theorem bitsRemaining_sat (b : Body) :
    b.bitsRemaining ≤ b.bodyBytes * 8 ∧
    (b.st.bitsProcessed ≤ b.bodyBytes * 8 → b.bitsRemaining + b.st.bitsProcessed = b.bodyBytes * 8) ∧
    (b.bodyBytes * 8 ≤ b.st.bitsProcessed → b.bitsRemaining = 0) := by
  unfold Body.bitsRemaining
  omega

/-- `skip_chunk_body` succeeds only inside the data: the reader is moved by `bits_remaining`,
which is at most what is there -/
theorem skip_in_bounds (σ : St) (h : (skipChunkBody σ).1 = .ok ()) :
    (skipChunkBody σ).2.pos - σ.pos ≤ σ.rest.length := by
  revert h
  unfold skipChunkBody
  split
  · simp
  · split
    · simp
    · simp only
      split
      · intro _; simp only; omega
      · simp

/-! ### 5. the reader position stays within the data -/

/-- the committed reader moved forward inside the data: the new unread bits are a suffix of the
old ones and the position grew by exactly the number of bits consumed -/
def Advances (σ σ' : St) : Prop := ∃ c, σ.rest = c ++ σ'.rest ∧ σ'.pos = σ.pos + c.length

theorem Advances.refl (σ : St) : Advances σ σ := ⟨[], rfl, rfl⟩

theorem Advances.trans {a b c : St} (h1 : Advances a b) (h2 : Advances b c) : Advances a c := by
  obtain ⟨c1, e1, p1⟩ := h1
  obtain ⟨c2, e2, p2⟩ := h2
  refine ⟨c1 ++ c2, by rw [e1, e2, List.append_assoc], ?_⟩
  rw [p2, p1, List.length_append]; omega

/-- the end of the data does not move and the position never passes it -/
theorem Advances.end_fixed {σ σ' : St} (h : Advances σ σ') :
    σ'.pos + σ'.rest.length = σ.pos + σ.rest.length ∧ σ.pos ≤ σ'.pos ∧
    σ'.pos ≤ σ.pos + σ.rest.length := by
  obtain ⟨c, e, p⟩ := h
  rw [e, p, List.length_append]
  omega

/-- `with_reader`: if the closure moves its reader forward inside the data and does not touch
the committed position itself, the call advances — whether it commits (success) or not (error) -/
theorem withReader_advances {α : Type} (σ : St) (f : Rd → St → Out α × St × Rd)
    (hf : ∀ out σ' rd', f ⟨σ.rest, σ.pos⟩ σ = (out, σ', rd') →
      RdAdv ⟨σ.rest, σ.pos⟩ rd' ∧ σ'.rest = σ.rest ∧ σ'.pos = σ.pos) :
    Advances σ (withReader σ f).2 := by
  refine withReader_cases σ f (fun r => Advances σ r.2) ?_ ?_
  · intro a σ' rd' h
    obtain ⟨⟨c, e, p⟩, _, _⟩ := hf _ _ _ h
    exact ⟨c, e, p⟩
  · intro e σ' rd' h
    obtain ⟨_, e1, e2⟩ := hf _ _ _ h
    exact ⟨[], by simp [e1], by simp [e2]⟩

variable (L : Matcher) (gb : Nat → Nat) (d : DType)

theorem header_advances (σ : St) : Advances σ (header d σ).2 := by
  unfold header
  split
  · exact Advances.refl σ
  · split
    · exact Advances.refl σ
    · apply withReader_advances
      intro out σ' rd' h
      split at h
      · rename_i fl rd1 hrun
        simp only [Prod.mk.injEq] at h
        obtain ⟨_, rfl, rfl⟩ := h
        exact ⟨runAligned_adv _ (suf_decHeader d) _ _ _ hrun, rfl, rfl⟩
      · simp only [Prod.mk.injEq] at h
        obtain ⟨_, rfl, rfl⟩ := h
        exact ⟨RdAdv.refl _, rfl, rfl⟩

theorem chunkMetadata_advances (σ : St) : Advances σ (chunkMetadata gb d σ).2 := by
  unfold chunkMetadata
  split
  · exact Advances.refl σ
  · split
    · exact Advances.refl σ
    · split
      · exact Advances.refl σ
      · rename_i fl hfl hb
        apply withReader_advances
        intro out σ' rd' h
        split at h
        · simp only [Prod.mk.injEq] at h
          obtain ⟨_, rfl, rfl⟩ := h
          exact ⟨RdAdv.refl _, rfl, rfl⟩
        · rename_i rd1 hrun
          simp only [Prod.mk.injEq] at h
          obtain ⟨_, rfl, rfl⟩ := h
          exact ⟨runAligned_adv _ (suf_readChunkMeta gb d fl) _ _ _ hrun, rfl, rfl⟩
        · rename_i m rd1 hrun
          have hadv := runAligned_adv _ (suf_readChunkMeta gb d fl) _ _ _ hrun
          split at h
          · simp only [Prod.mk.injEq] at h
            obtain ⟨_, rfl, rfl⟩ := h
            exact ⟨hadv, rfl, rfl⟩
          · simp only [Prod.mk.injEq] at h
            obtain ⟨_, rfl, rfl⟩ := h
            exact ⟨hadv, rfl, rfl⟩

theorem skipChunkBody_advances (σ : St) : Advances σ (skipChunkBody σ).2 := by
  unfold skipChunkBody
  split
  · exact Advances.refl σ
  · split
    · exact Advances.refl σ
    · simp only
      split
      · rename_i b _ hk
        refine ⟨σ.rest.take b.bitsRemaining, (List.take_append_drop _ _).symm, ?_⟩
        simp only [List.length_take]
        omega
      · exact Advances.refl σ

theorem chunkBody_advances (hL : MatcherOk L) (σ : St) : Advances σ (chunkBody L d σ).2 := by
  unfold chunkBody
  split
  · exact Advances.refl σ
  · apply withReader_advances
    intro out σ' rd' h
    split at h
    · simp only [Prod.mk.injEq] at h
      obtain ⟨_, rfl, rfl⟩ := h
      exact ⟨RdAdv.refl _, rfl, rfl⟩
    · rename_i b hb
      have hadv := nextBatch_adv L hL.suffix d b (b.total + b.n + 1) true ⟨σ.rest, σ.pos⟩
      split at h
      · rename_i e b' rd1 hnb
        rw [hnb] at hadv
        simp only [Prod.mk.injEq] at h
        obtain ⟨_, rfl, rfl⟩ := h
        exact ⟨hadv, rfl, rfl⟩
      · rename_i nb b' rd1 hnb
        rw [hnb] at hadv
        simp only [Prod.mk.injEq] at h
        obtain ⟨_, rfl, rfl⟩ := h
        exact ⟨hadv, rfl, rfl⟩

theorem next_advances (hL : MatcherOk L) (limit : Nat) (σ : St) :
    Advances σ (next L gb d limit σ).2 := by
  unfold next
  apply withReader_advances
  intro out σ' rd' h
  split at h
  · simp only [Prod.mk.injEq] at h
    obtain ⟨_, rfl, rfl⟩ := h
    exact ⟨RdAdv.refl _, rfl, rfl⟩
  · split at h
    · -- header
      split at h
      · rename_i fl rd1 hrun
        simp only [Prod.mk.injEq] at h
        obtain ⟨_, rfl, rfl⟩ := h
        exact ⟨runAligned_adv _ (suf_decHeader d) _ _ _ hrun, rfl, rfl⟩
      · simp only [Prod.mk.injEq] at h
        obtain ⟨_, rfl, rfl⟩ := h
        exact ⟨RdAdv.refl _, rfl, rfl⟩
      · simp only [Prod.mk.injEq] at h
        obtain ⟨_, rfl, rfl⟩ := h
        exact ⟨RdAdv.refl _, rfl, rfl⟩
    · rename_i fl hfl
      split at h
      · -- chunk metadata
        split at h
        · simp only [Prod.mk.injEq] at h
          obtain ⟨_, rfl, rfl⟩ := h
          exact ⟨RdAdv.refl _, rfl, rfl⟩
        · simp only [Prod.mk.injEq] at h
          obtain ⟨_, rfl, rfl⟩ := h
          exact ⟨RdAdv.refl _, rfl, rfl⟩
        · rename_i rd1 hrun
          simp only [Prod.mk.injEq] at h
          obtain ⟨_, rfl, rfl⟩ := h
          exact ⟨runAligned_adv _ (suf_readChunkMeta gb d fl) _ _ _ hrun, rfl, rfl⟩
        · rename_i m rd1 hrun
          have hadv := runAligned_adv _ (suf_readChunkMeta gb d fl) _ _ _ hrun
          split at h
          · simp only [Prod.mk.injEq] at h
            obtain ⟨_, rfl, rfl⟩ := h
            exact ⟨hadv, rfl, rfl⟩
          · rename_i b hnb
            split at h
            · have hadv2 := nextBatch_adv L hL.suffix d b limit false rd1
              split at h
              · rename_i e b' rd2 hb
                rw [hb] at hadv2
                simp only [Prod.mk.injEq] at h
                obtain ⟨_, rfl, rfl⟩ := h
                exact ⟨RdAdv.trans hadv hadv2, rfl, rfl⟩
              · rename_i nb b' rd2 hb
                rw [hb] at hadv2
                simp only [Prod.mk.injEq] at h
                obtain ⟨_, rfl, rfl⟩ := h
                exact ⟨RdAdv.trans hadv hadv2, rfl, rfl⟩
            · simp only [Prod.mk.injEq] at h
              obtain ⟨_, rfl, rfl⟩ := h
              exact ⟨hadv, rfl, rfl⟩
      · -- inside a body
        rename_i b hbody
        have hadv := nextBatch_adv L hL.suffix d b limit false ⟨σ.rest, σ.pos⟩
        split at h
        · rename_i e b' rd1 hb
          rw [hb] at hadv
          simp only [Prod.mk.injEq] at h
          obtain ⟨_, rfl, rfl⟩ := h
          exact ⟨hadv, rfl, rfl⟩
        · rename_i nb b' rd1 hb
          rw [hb] at hadv
          split at h
          · simp only [Prod.mk.injEq] at h
            obtain ⟨_, rfl, rfl⟩ := h
            exact ⟨hadv, rfl, rfl⟩
          · simp only [Prod.mk.injEq] at h
            obtain ⟨_, rfl, rfl⟩ := h
            exact ⟨hadv, rfl, rfl⟩

theorem simpleLoop_advances (hL : MatcherOk L) (fuel : Nat) (σ : St) (acc : List Nat) :
    Advances σ (simpleLoop L gb d fuel σ acc).2 := by
  induction fuel generalizing σ acc with
  | zero => exact Advances.refl σ
  | succ fuel ih =>
    unfold simpleLoop
    have h1 := chunkMetadata_advances gb d σ
    split
    · rename_i e σ' h; rw [h] at h1; exact h1
    · rename_i σ' h; rw [h] at h1; exact h1
    · rename_i m σ' h
      rw [h] at h1
      have h2 := chunkBody_advances L d hL σ'
      split
      · rename_i e σ'' h'; rw [h'] at h2; exact Advances.trans h1 h2
      · rename_i xs σ'' h'; rw [h'] at h2; exact Advances.trans h1 (Advances.trans h2 (ih σ'' _))

theorem simpleDecompress_advances (hL : MatcherOk L) (σ : St) :
    Advances σ (simpleDecompress L gb d σ).2 := by
  unfold simpleDecompress
  have h1 := header_advances d σ
  split
  · exact Advances.refl σ
  · rename_i fl σ1 h
    rw [h] at h1
    have h2 := simpleLoop_advances L gb d hL (σ.rest.length / 8 + 2) σ1 []
    split
    · exact Advances.refl σ
    · rename_i xs σ2 h'; rw [h'] at h2; exact Advances.trans h1 h2

/-- the iterator drained to its end: the reader only ever moves forward inside the data -/
theorem drainIter_advances (hL : MatcherOk L) (limit fuel : Nat) (σ : St) (acc : List Item) :
    Advances σ (drainIter L gb d limit fuel σ acc).2.2 := by
  induction fuel generalizing σ acc with
  | zero => exact Advances.refl σ
  | succ fuel ih =>
    unfold drainIter
    have h1 := next_advances L gb d hL limit σ
    split
    · rename_i σ' h; rw [h] at h1; exact h1
    · rename_i it σ' h; rw [h] at h1; exact Advances.trans h1 (ih σ' _)
    · rename_i e σ' h; rw [h] at h1; exact h1

/-- `write` appends behind the reader; `free` does not move it -/
theorem write_free_positions (σ : St) (bits : Bits) :
    (write σ bits).pos = σ.pos ∧ (write σ bits).rest = σ.rest ++ bits ∧
    (free σ).pos = σ.pos ∧ (free σ).rest = σ.rest := ⟨rfl, rfl, rfl, rfl⟩

/-! ### 6. prefix tree -/

/-- a tree accepted by `validate_prefix_tree` is not empty -/
theorem completeTree_ne_nil (codes : List Bits) (h : completeTree codes = true) : codes ≠ [] := by
  intro hc
  subst hc
  revert h
  decide

/-- **a complete prefix code answers every input**: on the codes of a tree accepted by
`validate_prefix_tree` the lookup is never `corrupt`: it finds a code (of an index inside the
table) or wants more bits. (Kraft's inequality, `kraft_le_h`, is proved in `Lemmas/Hostile`.) -/
theorem completeTree_never_corrupt (codes : List Bits) (h : completeTree codes = true) (s : Bits) :
    matchCode codes s = .insufficient ∨ ∃ i r, matchCode codes s = .ok i r ∧ i < codes.length := by
  cases hm : matchCode codes s with
  | ok i r => exact Or.inr ⟨i, r, rfl, matchCode_index_lt codes s i r hm⟩
  | insufficient => exact Or.inl rfl
  | corrupt => exact absurd hm (matchCode_complete_not_corrupt codes h s)
  | compat =>
    unfold matchCode at hm
    split at hm
    · cases hm
    · split at hm <;> cases hm

/-- the table of every body `ChunkBodyDecompressor::new` accepts is a complete tree, or empty for
a chunk without numbers -/
theorem newBody_tree (fl : Flags) (m : ChunkMeta) (b : Body) (h : newBody fl m = .ok b) :
    b.ps = m.prefixes ∧
    ((b.ps = [] ∧ b.n = 0) ∨ completeTree (b.ps.map (·.code)) = true) := by
  unfold newBody at h
  simp only at h
  split at h
  · cases h
  · rename_i h1
    split at h
    · cases h
    · rename_i h2
      simp only [Out.ok.injEq] at h
      subst h
      refine ⟨rfl, ?_⟩
      simp only
      cases hp : m.prefixes with
      | nil =>
        left
        refine ⟨rfl, ?_⟩
        simp only [hp, List.isEmpty_nil, Bool.true_and, decide_eq_true_eq] at h1
        omega
      | cons p ps =>
        right
        simp only [hp, List.isEmpty_cons, Bool.not_false, Bool.true_and, Bool.not_eq_true',
          Bool.not_eq_false] at h2
        rw [← hp]
        simpa [hp] using h2

/-! ### 7. one batch on arbitrary bits -/

theorem numBatchDirty_values (hL : MatcherOk L) (W : Nat) (b : Body) (hps : PrefixesOk W b.ps)
    (hinc : IncOk b.ps b.st.inc) (limit : Nat) (eoi : Bool) (rd : Rd) :
    IncOk b.ps (numBatchDirty L b limit eoi rd).2.1.inc ∧
    ∀ ub, (numBatchDirty L b limit eoi rd).1 = .ok ub → ∀ x ∈ ub.us, x < 2 ^ W := by
  unfold numBatchDirty
  simp only
  split
  · exact ⟨hinc, by intro ub h; simp only [Out.ok.injEq] at h; subst h; simp⟩
  · have hs := drainR_forall (unitL L (tableOf b.ps)) (fun st => IncOk b.ps st.1) (· < 2 ^ W)
      (fun st s x st' r hst h => unitL_value_bounded L hL W b.ps hps st hst s x st' r h)
      (min (b.n - b.st.nProcessed) limit) (b.st.inc, rd.pos) rd.bits hinc
    generalize drainR (unitL L (tableOf b.ps)) (min (b.n - b.st.nProcessed) limit)
      (b.st.inc, rd.pos) rd.bits = res at hs ⊢
    obtain ⟨us, ps', r, why⟩ := res
    simp only at hs ⊢
    obtain ⟨hv, hi⟩ := hs
    split
    · exact ⟨hi, by intro ub h; simp only [Out.ok.injEq] at h; subst h; exact hv⟩
    · split
      · exact ⟨hi, by intro ub h; cases h⟩
      · exact ⟨hi, by intro ub h; simp only [Out.ok.injEq] at h; subst h; exact hv⟩
    · exact ⟨hi, by intro ub h; cases h⟩

/-- **one batch of the operational decoder on arbitrary bits**, for a prefix table inside
`[0, 2^W)` and a run in progress that refers to the table: every number handed out is `< 2^W`;
the run in progress left behind refers to the table again (also after an error, which restores);
the reader moved forward inside its data -/
theorem numBatch_values_bounded (hL : MatcherOk L) (W : Nat) (b : Body) (hps : PrefixesOk W b.ps)
    (hinc : IncOk b.ps b.st.inc) (limit : Nat) (eoi : Bool) (rd : Rd) :
    IncOk b.ps (numBatch L b limit eoi rd).2.1.inc ∧
    RdAdv rd (numBatch L b limit eoi rd).2.2 ∧
    ∀ ub, (numBatch L b limit eoi rd).1 = .ok ub →
      (∀ x ∈ ub.us, x < 2 ^ W) ∧ ub.us.length ≤ min (b.n - b.st.nProcessed) limit := by
  refine ⟨?_, numBatch_adv L hL.suffix b limit eoi rd, ?_⟩
  · obtain ⟨hi, _⟩ := numBatchDirty_values L hL W b hps hinc limit eoi rd
    unfold numBatch
    simp only
    split
    · rename_i ub st' rd' hnd
      rw [hnd] at hi
      split
      · exact hinc
      · split
        · exact hinc
        · exact hi
    · exact hinc
  · intro ub h
    generalize hr : numBatch L b limit eoi rd = res at h
    obtain ⟨out, st', rd'⟩ := res
    simp only at h
    subst h
    obtain ⟨_, k2, k3, _⟩ := numBatch_ok L b limit eoi rd ub st' rd' hr
    refine ⟨?_, by omega⟩
    obtain ⟨_, hv⟩ := numBatchDirty_values L hL W b hps hinc limit eoi rd
    unfold numBatch at hr
    simp only at hr
    split at hr
    · rename_i ub0 st0 rd0 hnd
      rw [hnd] at hv
      split at hr
      · simp at hr
      · split at hr
        · simp at hr
        · simp only [Prod.mk.injEq, Out.ok.injEq] at hr
          obtain ⟨rfl, _, _⟩ := hr
          exact hv ub0 rfl
    · simp at hr

/-- **C07, arithmetic part, one unit / one batch.** For ARBITRARY input bits, any matcher that
answers with indices of the code list (`eagerMatcher`, `matchStride`), a prefix table inside
`[0, 2^W)` — which is what `chunk_metadata` establishes on arbitrary bits, `decChunkMeta_bounds` —
and a run in progress that refers to the table:

* a. every offset read is `≤ r` (`k_range - offset` does not underflow), `off * gcd ≤ upper - lower`
  and `lower + off * gcd ≤ upper < 2^W` (no overflow of the `W`-bit type), `k ≤ W` and `k = W` only
  for the full range (`1 << k` is skipped exactly then);
* b. every number of a unit and of a batch is `< 2^W`; the batch has at most
  `min (n - nProcessed) limit` numbers (`batch_size - unsigneds.len()` does not underflow) and the
  run left in progress refers to the table again;
* c. run lengths read with a legal jumpstart are `< 2^24`;
* d. `bits_remaining` saturates and a successful `skip_chunk_body` stays inside the data;
* e. the reader of the batch moved forward inside its data.

**NOT covered** (outside the model, which reads `List Bool`):
* the word-level bit packing: the shifts, masks and word indexing of `BitReader`/`BitWords`
  (`read_uint`, `read_usize`, `unchecked_*`, `seek`/`rewind`), including the padding words the
  unchecked reads rely on;
* the fast path's bound `guaranteed_safe_num_blocks` (that the unchecked loop has enough bits:
  here every read is a checked read of the bit list);
* memory exhaustion: `vec![false; 1 << max_depth]` in `validate_prefix_tree` (bounded by `2^31`
  entries, `completeTree_maxLen`, but not small), `Vec::with_capacity` for up to `2^24 - 1` numbers,
  `2^15 - 1` prefixes;
* `usize` narrower than 64 bits (`body_size * 8 < 2^35` needs more than 32 bits);
* the compressor, and every non-decoding entry point. -/
theorem no_arith_overflow_partial (hL : MatcherOk L) (W : Nat) (b : Body)
    (hps : PrefixesOk W b.ps) (hinc : IncOk b.ps b.st.inc) :
    -- a. offsets, values, shifts
    (∀ p ∈ b.ps, ∀ s off rest, decOffset p.info.r p.info.k s = .ok off rest →
      off ≤ p.info.r ∧ off * p.gcd ≤ p.upper - p.lower ∧
      p.info.val off = p.lower + off * p.gcd ∧ p.info.val off ≤ p.upper ∧ p.info.val off < 2 ^ W ∧
      p.info.k ≤ W ∧ (p.info.k = W → p.info.r + 1 = 2 ^ W)) ∧
    -- b. units and batches
    (∀ st s x st' r, IncOk b.ps st.1 → unitL L (tableOf b.ps) st s = .ok (x, st') r →
      x < 2 ^ W ∧ IncOk b.ps st'.1 ∧ ∃ c, s = c ++ r) ∧
    (∀ limit eoi rd,
      IncOk b.ps (numBatch L b limit eoi rd).2.1.inc ∧
      RdAdv rd (numBatch L b limit eoi rd).2.2 ∧
      (b.st.nProcessed ≤ b.n → (numBatch L b limit eoi rd).2.1.nProcessed ≤ b.n) ∧
      ∀ ub, (numBatch L b limit eoi rd).1 = .ok ub →
        (∀ x ∈ ub.us, x < 2 ^ W) ∧ ub.us.length ≤ min (b.n - b.st.nProcessed) limit) ∧
    -- c. run lengths
    (∀ j s x r, j ≤ 24 → decVarint 24 j s = .ok x r → x < 2 ^ 24) ∧
    -- d. skipping
    (b.bitsRemaining ≤ b.bodyBytes * 8 ∧
      ∀ σ, σ.body = some b → (skipChunkBody σ).1 = .ok () →
        (skipChunkBody σ).2.pos - σ.pos ≤ σ.rest.length ∧ Advances σ (skipChunkBody σ).2) := by
  refine ⟨?_, ?_, ?_, ?_, ?_⟩
  · intro p hp s off rest h
    obtain ⟨hle, hu⟩ := hps p hp
    have ho : off ≤ p.info.r := decOffset_le _ s off rest h
    obtain ⟨v1, v2⟩ := value_le_upper p hle off ho
    obtain ⟨k1, k2⟩ := k_le_W W p hu
    exact ⟨ho, offset_mul_gcd_le p off ho, v1, v2, Nat.lt_of_le_of_lt v2 hu, k1, k2⟩
  · intro st s x st' r hst h
    obtain ⟨h1, h2⟩ := unitL_value_bounded L hL W b.ps hps st hst s x st' r h
    exact ⟨h1, h2, suf_unitL L hL.suffix _ st s _ r h⟩
  · intro limit eoi rd
    obtain ⟨h1, h2, h3⟩ := numBatch_values_bounded L hL W b hps hinc limit eoi rd
    exact ⟨h1, h2, fun hb => (nProcessed_le L b limit eoi rd hb).1, h3⟩
  · intro j s x r hj h
    exact decVarint_lt j hj s x r h
  · exact ⟨(bitsRemaining_sat b).1, fun σ _ h => ⟨skip_in_bounds σ h, skipChunkBody_advances σ⟩⟩

/-! ### the hypotheses of the bundle hold in every state reachable on arbitrary bytes -/

/-- the body decompressor's table lies inside `[0, 2^W)` and its run in progress refers to it -/
def BodyOk (W : Nat) (b : Body) : Prop := PrefixesOk W b.ps ∧ IncOk b.ps b.st.inc

/-- the state invariant of C07 -/
def HInv (W : Nat) (σ : St) : Prop := ∀ b, σ.body = some b → BodyOk W b

theorem hinv_of_body_none {W : Nat} {σ : St} (h : σ.body = none) : HInv W σ := by
  intro b hb; rw [h] at hb; cases hb

theorem hinv_of_body_eq {W : Nat} {σ σ' : St} (h : σ'.body = σ.body) (hi : HInv W σ) : HInv W σ' := by
  intro b hb; exact hi b (h ▸ hb)

theorem hinv_of_body_some {W : Nat} {σ : St} {b : Body} (h : σ.body = some b) (hb : BodyOk W b) :
    HInv W σ := by
  intro b' hb'
  rw [h] at hb'
  simp only [Option.some.injEq] at hb'
  subst hb'
  exact hb

theorem signed_uBits (d : DType) : d.signed.uBits = d.uBits := by
  unfold DType.signed; cases d.kind <;> rfl

theorem prefDType_uBits (d : DType) (fl : Flags) : (prefDType d fl).uBits = d.uBits := by
  unfold prefDType
  split
  · rfl
  · exact signed_uBits d

theorem readChunkMeta_some (fl : Flags) (s : Bits) (m : ChunkMeta) (r : Bits)
    (h : readChunkMeta gb d fl s = .ok (some m) r) : ∃ s', decChunkMeta gb d fl s' = .ok m r := by
  unfold readChunkMeta at h
  obtain ⟨b, r1, _, h2⟩ := bind_ok_h h
  split at h2
  · obtain ⟨he, _⟩ := pure_ok h2; cases he
  · split at h2
    · obtain ⟨m', h3, he⟩ := map_ok h2
      simp only [Option.some.injEq] at he
      subst he
      exact ⟨r1, h3⟩
    · cases h2

/-- the body `chunk_metadata` creates from metadata read off arbitrary bits -/
theorem newBody_bodyOk (hd : DTypeOk d) (fl : Flags) (rd rd' : Rd) (m : ChunkMeta) (b : Body)
    (hrun : runAligned (readChunkMeta gb d fl) rd = .ok (some m, rd'))
    (hnb : newBody fl m = .ok b) : BodyOk d.uBits b := by
  have hm : ∃ s r, decChunkMeta gb d fl s = .ok m r := by
    unfold runAligned at hrun
    split at hrun
    · cases hrun
    · unfold runParser at hrun
      split at hrun
      · rename_i a r hp
        simp only [Out.ok.injEq, Prod.mk.injEq] at hrun
        rw [hrun.1] at hp
        obtain ⟨s', hs'⟩ := readChunkMeta_some gb d fl _ m r hp
        exact ⟨s', r, hs'⟩
      · cases hrun
  obtain ⟨s, r, hdec⟩ := hm
  obtain ⟨_, _, _, _, _, hall⟩ := decChunkMeta_bounds gb d hd fl s m r hdec
  have hps := prefixesOk_of _ _ hall
  rw [prefDType_uBits] at hps
  unfold newBody at hnb
  simp only at hnb
  split at hnb
  · cases hnb
  · split at hnb
    · cases hnb
    · simp only [Out.ok.injEq] at hnb
      subst hnb
      exact ⟨hps, incOk_none _⟩

theorem nextBatch_bodyOk (hL : MatcherOk L) (W : Nat) (b : Body) (hb : BodyOk W b) (limit : Nat)
    (eoi : Bool) (rd : Rd) : BodyOk W (nextBatch L d b limit eoi rd).2.1 := by
  have h := (numBatch_values_bounded L hL W b hb.1 hb.2 limit eoi rd).1
  unfold nextBatch
  split
  · rename_i e st' rd' hn
    rw [hn] at h
    exact ⟨hb.1, h⟩
  · rename_i ub st' rd' hn
    rw [hn] at h
    simp only
    split
    · exact ⟨hb.1, h⟩
    · exact ⟨hb.1, h⟩

theorem withReader_hinv {α : Type} (W : Nat) (σ : St) (f : Rd → St → Out α × St × Rd)
    (hf : ∀ out σ' rd', f ⟨σ.rest, σ.pos⟩ σ = (out, σ', rd') → HInv W σ') :
    HInv W (withReader σ f).2 := by
  refine withReader_cases σ f (fun r => HInv W r.2) ?_ ?_
  · intro a σ' rd' h
    have hs : HInv W σ' := hf _ _ _ h
    exact hinv_of_body_eq (σ := σ') rfl hs
  · intro e σ' rd' h
    exact hf _ _ _ h

theorem hinv_init (W : Nat) : HInv W St.init := hinv_of_body_none rfl

theorem hinv_write (W : Nat) (σ : St) (bits : Bits) (hi : HInv W σ) : HInv W (write σ bits) :=
  hinv_of_body_eq rfl hi

theorem hinv_free (W : Nat) (σ : St) (hi : HInv W σ) : HInv W (free σ) := hinv_of_body_eq rfl hi

theorem hinv_header (W : Nat) (σ : St) (hi : HInv W σ) : HInv W (header d σ).2 :=
  hinv_of_body_eq (C08.header_body d σ) hi

theorem hinv_chunkMetadata (hd : DTypeOk d) (σ : St) (hi : HInv d.uBits σ) :
    HInv d.uBits (chunkMetadata gb d σ).2 := by
  unfold chunkMetadata
  split
  · exact hi
  · split
    · exact hi
    · split
      · exact hi
      · rename_i fl hfl hb
        apply withReader_hinv
        intro out σ' rd' h
        split at h
        · simp only [Prod.mk.injEq] at h
          obtain ⟨_, rfl, _⟩ := h
          exact hi
        · simp only [Prod.mk.injEq] at h
          obtain ⟨_, rfl, _⟩ := h
          exact hi
        · rename_i m rd1 hrun
          split at h
          · simp only [Prod.mk.injEq] at h
            obtain ⟨_, rfl, _⟩ := h
            exact hi
          · rename_i b hnb
            simp only [Prod.mk.injEq] at h
            obtain ⟨_, rfl, _⟩ := h
            exact hinv_of_body_some rfl (newBody_bodyOk gb d hd fl _ _ m b hrun hnb)

theorem hinv_skipChunkBody (W : Nat) (σ : St) (hi : HInv W σ) : HInv W (skipChunkBody σ).2 := by
  rcases C08.skipChunkBody_body σ with h | h
  · exact hinv_of_body_eq h hi
  · exact hinv_of_body_none h

theorem hinv_chunkBody (W : Nat) (σ : St) (hi : HInv W σ) : HInv W (chunkBody L d σ).2 := by
  cases hr : (chunkBody L d σ).1 with
  | ok xs => exact hinv_of_body_none (C08.chunkBody_ok_body L d σ xs hr)
  | err e => rw [C08.chunkBody_err_unchanged L d σ e hr]; exact hi

theorem hinv_next (hL : MatcherOk L) (hd : DTypeOk d) (limit : Nat) (σ : St)
    (hi : HInv d.uBits σ) : HInv d.uBits (next L gb d limit σ).2 := by
  unfold next
  apply withReader_hinv
  intro out σ' rd' h
  split at h
  · simp only [Prod.mk.injEq] at h
    obtain ⟨_, rfl, _⟩ := h
    exact hi
  · split at h
    · split at h <;>
      · simp only [Prod.mk.injEq] at h
        obtain ⟨_, rfl, _⟩ := h
        exact hinv_of_body_eq rfl hi
    · rename_i fl hfl
      split at h
      · split at h
        · simp only [Prod.mk.injEq] at h
          obtain ⟨_, rfl, _⟩ := h
          exact hi
        · simp only [Prod.mk.injEq] at h
          obtain ⟨_, rfl, _⟩ := h
          exact hi
        · simp only [Prod.mk.injEq] at h
          obtain ⟨_, rfl, _⟩ := h
          exact hinv_of_body_eq rfl hi
        · rename_i m rd1 hrun
          split at h
          · simp only [Prod.mk.injEq] at h
            obtain ⟨_, rfl, _⟩ := h
            exact hi
          · rename_i b hnb
            split at h
            · split at h <;>
              · simp only [Prod.mk.injEq] at h
                obtain ⟨_, rfl, _⟩ := h
                exact hi
            · simp only [Prod.mk.injEq] at h
              obtain ⟨_, rfl, _⟩ := h
              exact hinv_of_body_some rfl (newBody_bodyOk gb d hd fl _ _ m b hrun hnb)
      · rename_i b hbody
        have hb' := nextBatch_bodyOk L d hL d.uBits b (hi b hbody) limit false ⟨σ.rest, σ.pos⟩
        split at h
        · rename_i e b' rd1 hnb
          rw [hnb] at hb'
          simp only [Prod.mk.injEq] at h
          obtain ⟨_, rfl, _⟩ := h
          exact hinv_of_body_some rfl hb'
        · rename_i nb b' rd1 hnb
          rw [hnb] at hb'
          split at h
          · simp only [Prod.mk.injEq] at h
            obtain ⟨_, rfl, _⟩ := h
            exact hinv_of_body_some rfl hb'
          · simp only [Prod.mk.injEq] at h
            obtain ⟨_, rfl, _⟩ := h
            intro b'' hb''
            simp only at hb''
            split at hb''
            · cases hb''
            · simp only [Option.some.injEq] at hb''
              subst hb''
              exact hb'

theorem hinv_simpleLoop (hd : DTypeOk d) (fuel : Nat) (σ : St) (acc : List Nat)
    (hi : HInv d.uBits σ) : HInv d.uBits (simpleLoop L gb d fuel σ acc).2 := by
  induction fuel generalizing σ acc with
  | zero => exact hi
  | succ fuel ih =>
    unfold simpleLoop
    have h1 := hinv_chunkMetadata gb d hd σ hi
    split
    · rename_i e σ' h; rw [h] at h1; exact h1
    · rename_i σ' h; rw [h] at h1; exact h1
    · rename_i m σ' h
      rw [h] at h1
      have h2 := hinv_chunkBody L d d.uBits σ' h1
      split
      · rename_i e σ'' h'; rw [h'] at h2; exact h2
      · rename_i xs σ'' h'; rw [h'] at h2; exact ih σ'' _ h2

theorem hinv_simpleDecompress (hd : DTypeOk d) (σ : St) (hi : HInv d.uBits σ) :
    HInv d.uBits (simpleDecompress L gb d σ).2 := by
  unfold simpleDecompress
  have h1 := hinv_header d d.uBits σ hi
  split
  · exact hi
  · rename_i fl σ1 h
    rw [h] at h1
    have h2 := hinv_simpleLoop L gb d hd (σ.rest.length / 8 + 2) σ1 [] h1
    split
    · exact hi
    · rename_i xs σ2 h'; rw [h'] at h2; exact h2

/-! ### 8. the hypotheses are satisfiable: concrete hostile-looking inputs -/

/-- the full 64-bit range as a single prefix with the empty code -/
def exFull : Prefix :=
  { count := 0, lower := 0, upper := 2 ^ 64 - 1, code := [], jump := none, gcd := 1 }

example : PrefixesOk 64 [exFull] := by unfold PrefixesOk; decide
example : exFull.info.r = 2 ^ 64 - 1 := by decide
/-- `k = W = 64`: the one case in which `1 << k` must not be computed -/
theorem exFull_k : exFull.info.k = 64 := by
  show Nat.log2 (2 ^ 64 - 1 + 1) = 64
  have : 2 ^ 64 - 1 + 1 = 2 ^ 64 := by decide
  rw [this]
  exact Nat.log2_two_pow
example : exFull.info.r + 1 = 2 ^ 64 := (k_le_W 64 exFull (by decide)).2 exFull_k

/-- the offset reads exactly 64 bits (bit 64 is never read: `r - low < 2^64`) and the largest
value is `upper`: no overflow -/
example : decOffset (2 ^ 64 - 1) 64 (List.replicate 64 true ++ [false, true])
    = .ok (2 ^ 64 - 1) [false, true] := by decide
example : exFull.info.val (2 ^ 64 - 1) = 2 ^ 64 - 1 := by decide

/-- a range that is not a power of two: `r = 5`, `k = 2`; the low bits `11` (3) are never followed
by a third bit, the low bits `01` (1) are, and `1 + 4 = 5 = r` is the largest offset -/
example : decOffset 5 2 [true, true, true] = .ok 3 [true] := by decide
example : decOffset 5 2 [false, true, true] = .ok 5 [] := by decide
example : Nat.log2 (5 + 1) = 2 := by
  rw [Nat.log2_eq_iff (by omega)]; omega

/-- a hostile divisor: `read_gcd` rejects `gcd - 1 ≥ range` -/
example : decGcd (fun _ => 3) 4 [true, true, false, false] = .corrupt := by decide
example : decGcd (fun _ => 3) 4 [true, false, true, true] = .ok 4 [] := by decide

/-- a hostile jumpstart (`31 > 24`) read off the 5-bit field is accepted by the metadata reader;
the run length it leads to is `< 2^31` (`decVarint_lt_hostile`), not `< 2^24` -/
example : decVarint 24 31 (List.replicate 31 true) = .ok (2 ^ 31 - 1) [] := by decide

/-- a hostile body size (F11): 0 bytes announced, 17 bits already decoded. `bits_remaining`
saturates at 0 and `skip_chunk_body` succeeds without moving -/
def exShortBody : St :=
  { rest := [true, false], pos := 100, freed := 0, flags := none, terminated := false,
    body := some { n := 10, bodyBytes := 0, ps := [exFull],
                   st := { nProcessed := 3, bitsProcessed := 17, inc := none },
                   total := 10, order := 0, moments := [], numsProcessed := 0 } }

example : (skipChunkBody exShortBody).1.isOk = true := by decide
example : (skipChunkBody exShortBody).2.pos = 100 := by decide
example : HInv 64 exShortBody := by
  intro b hb
  simp only [exShortBody, Option.some.injEq] at hb
  subst hb
  exact ⟨by unfold PrefixesOk; decide, incOk_none _⟩

/-- both matchers of the development satisfy `MatcherOk` -/
example : MatcherOk eagerMatcher := eagerMatcher_ok
example : MatcherOk matchStride := matchStride_ok

/-- the shortest complete tree, on which no input is `corrupt` -/
example : completeTree [[false], [true]] = true := by decide
example : matchCode [[false], [true]] [] = .insufficient := by decide

end C07
end Qco
