/-
C07l — the LITERAL decompressor never panics, on any bytes, in any order of calls.

`Qco.DecompLit` (`Qco/Op/DecompLit.lean`) is the statement-level model of `Decompressor<T>` over 64-bit word
buffers; every `unwrap()` on `None`, every out-of-bounds index, every `usize` overflow/underflow of the code it
follows, and every loop running out of fuel is an explicit `.panic` outcome there (and in the literal layers
below it: `BitWords`/`BitReader`, `ChunkMetadata::parse_from`, `Flags::parse_from`,
`decompress_unsigneds_limited_dirty`, `reconstruct_nums`).  The theorems below are about `DecompLit.litStep`
(one API call on the literal model: `DecompLit.write/header/chunkMetadata/skipChunkBody/chunkBody/next/free/
simpleDecompress/bitIdx`) run from `LitSt.init` = `Decompressor::default()`; the abstract decompressor `Qco.Op`
appears only in the proofs (`decompLit_history`, C08d).

Hypotheses that remain.
* `d ∈ Frozen.dtypes`: one of the 15 data types.
* `∀ x, gb x ≤ d.uBits`: a GCD field is not wider than `U` (true of `⌈log2 (x as f64)⌉`, as in C02m/C08d).
* `∀ op ∈ ops, OpOk op`: what `write` is given are bytes (`< 256`).
* `128 * histWords ops + 2^36 < USIZE`: the whole history writes fewer than about `2^57` words (`2^60` bytes);
  `histWords` counts `len / 8 + 1` words per `write(buf)`.
Modelling limits: those listed in the header of `Qco/Op/DecompLit.lean` (allocation, `Vec` capacity, the `U`-overflow
of `lower + offset * gcd` — closed separately by C07n).  Property theorems only; helper lemmas in
`Qco/Lemmas/LitCor/Base.lean`.
-/
import Qco.Lemmas.LitCor.Base
import Qco.Properties.C08d
namespace Qco
namespace C07l
open Qco.WB Qco.Op Qco.MetaIO Qco.DecompLit

/-- **the literal decompressor never panics.**  Take any list of API calls — `write` of any bytes in any
pieces, `header`, `chunk_metadata`, `chunk_body`, `skip_chunk_body`, `next` with any `numbers_limit_per_item`,
`simple_decompress`, `free_compressed_memory`, `bit_idx`, in any order, also after errors — and run it on
`Decompressor::default()`: no call of the run answers `.panic`.  (`litOuts gb d ops LitSt.init` is the list of
the answers of the calls, each computed by the literal function on the literal state the previous calls left.) -/
theorem literal_never_panics {d : DType} (hd : d ∈ Frozen.dtypes) {gb : Nat → Nat}
    (hgb : ∀ x, gb x ≤ d.uBits) (ops : List DOp) (hops : ∀ op ∈ ops, OpOk op)
    (hsize : 128 * histWords ops + 2 ^ 36 < USIZE) :
    ∀ r ∈ litOuts gb d ops LitSt.init, r ≠ .panic :=
  fun r hr => (histRel_outs ops (C08d.decompLit_history hd hgb ops hops hsize) r hr).1

/-- … and every error it answers is one of the four `ErrorKind`s the decompressor uses -/
theorem literal_errors_known {d : DType} (hd : d ∈ Frozen.dtypes) {gb : Nat → Nat}
    (hgb : ∀ x, gb x ≤ d.uBits) (ops : List DOp) (hops : ∀ op ∈ ops, OpOk op)
    (hsize : 128 * histWords ops + 2 ^ 36 < USIZE) :
    ∀ r ∈ litOuts gb d ops LitSt.init, ∀ k, r = .err k →
      k = "InsufficientData" ∨ k = "Corruption" ∨ k = "Compatibility" ∨ k = "InvalidArgument" := by
  intro r hr k hk
  have := (histRel_outs ops (C08d.decompLit_history hd hgb ops hops hsize) r hr).2 k hk
  simpa [knownKinds] using this

/-- the same for one more call after any history: the form "for every reachable state, every call" -/
theorem literal_call_never_panics {d : DType} (hd : d ∈ Frozen.dtypes) {gb : Nat → Nat}
    (hgb : ∀ x, gb x ≤ d.uBits) (ops : List DOp) (op : DOp) (hops : ∀ o ∈ ops ++ [op], OpOk o)
    (hsize : 128 * histWords (ops ++ [op]) + 2 ^ 36 < USIZE) :
    (litStep gb d op (litRun gb d ops LitSt.init)).1 ≠ .panic :=
  literal_never_panics hd hgb (ops ++ [op]) hops hsize _ (litStep_mem_litOuts gb d ops op _)

/-! ### non-vacuity -/

open C08d (i32 gbx i32_mem gbx_le deltaFile emptyFile)

/-- hostile input: the magic header, the `i32` byte, flags "delta order 1", then a chunk whose metadata
announces `2^24 - 1` numbers and a body of `2^32 - 1` bytes, and garbage -/
def hostile : List Nat := [113, 99, 111, 33, 3, 16, 44, 255, 255, 255, 255, 255, 255, 255, 0, 0, 0, 7, 255, 255, 255,
  255, 255, 1, 2, 3, 4, 5, 6, 7, 8, 9, 10, 11, 12, 13]

/-- a history mixing a good file cut into pieces, misuse of the protocol and hostile bytes -/
def exHistory : List DOp :=
  [.chunkBody, .next 3, .write (deltaFile.take 11), .simpleDecompress, .next 3, .next 3, .skipChunkBody,
   .write (deltaFile.drop 11), .free, .next 3, .header, .chunkMetadata, .next 1, .simpleDecompress,
   .write hostile, .next 5, .next 5, .chunkBody, .bitIdx, .free]

example : ∀ r ∈ litOuts gbx i32 exHistory LitSt.init, r ≠ .panic :=
  literal_never_panics i32_mem gbx_le exHistory (by decide) (by decide)

/-- hostile bytes from the start: every call is answered, none panics (by the theorem), and (by evaluation)
the answers are errors or `None` (the metadata wants more data), the first `next` yields the flags -/
def exHostile : List DOp :=
  [.write hostile, .next 4, .next 4, .chunkMetadata, .chunkBody, .skipChunkBody, .simpleDecompress, .free, .next 4]

example : ∀ r ∈ litOuts gbx i32 exHostile LitSt.init, r ≠ .panic :=
  literal_never_panics i32_mem gbx_le exHostile (by decide) (by decide)

/-- what the literal model answers (evaluation) -/
def outTag : R LOut → String
  | .ok .unit => "ok"
  | .ok (.flags _) => "flags"
  | .ok (.meta_ none) => "meta none"
  | .ok (.meta_ (some m)) => s!"meta n={m.n}"
  | .ok (.nums xs) => s!"nums {xs}"
  | .ok (.item none) => "None"
  | .ok (.item (some (.flags _))) => "item flags"
  | .ok (.item (some (.chunkMetadata m))) => s!"item meta n={m.n}"
  | .ok (.item (some (.numbers xs))) => s!"item nums {xs}"
  | .ok (.item (some .footer)) => "item footer"
  | .ok (.idx n) => s!"idx {n}"
  | .err k => s!"err {k}"
  | .panic => "PANIC"

#guard (litOuts gbx i32 exHistory LitSt.init).map outTag ==
  ["err InvalidArgument", "None", "ok", "err InsufficientData", "item flags", "None", "err InvalidArgument",
   "ok", "ok", "item meta n=6", "err InvalidArgument", "err InvalidArgument", "item nums [5]",
   "err InvalidArgument", "ok", "item nums [4, 4, 8, 9, 13]", "item footer", "err InvalidArgument", "idx 336", "ok"]

#guard ((litOuts gbx i32 exHostile LitSt.init).map outTag).all (· != "PANIC")
#guard (litOuts gbx i32 exHostile LitSt.init).map outTag ==
  ["ok", "item flags", "None", "err InsufficientData", "err InvalidArgument", "err InvalidArgument",
   "err InvalidArgument", "ok", "None"]

/-- `deltaFile` with one byte of the chunk metadata changed (the byte size of the body): the first batch is
handed out, then the end-of-body check fails; no panic (by the theorem), `Corruption` (by evaluation) -/
def exCorrupt : List DOp :=
  [.write (deltaFile.set 13 3), .next 4, .next 4, .next 4, .next 4, .chunkBody, .simpleDecompress]

example : ∀ r ∈ litOuts gbx i32 exCorrupt LitSt.init, r ≠ .panic :=
  literal_never_panics i32_mem gbx_le exCorrupt (by decide) (by decide)

#guard (litOuts gbx i32 exCorrupt LitSt.init).map outTag ==
  ["ok", "item flags", "item meta n=6", "item nums [5, 4, 4, 8]", "err Corruption", "err Corruption",
   "err InvalidArgument"]

end C07l
end Qco
