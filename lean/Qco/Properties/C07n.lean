/-
C07n — the fixed-width arithmetic of the LITERAL `NumDecompressor` on hostile bits.

`Qco/Op/NumDec.lean` (layer N) models `unsigneds` as unbounded `Nat`s: the header of that file lists
"`U`-overflow of `lower + offset * gcd` is not modelled" as a limit.  This file closes that limit by
composition: `C03n.numDec_refines` says that the literal batch decoder returns, on ANY word buffer
(no well-formedness of the file assumed), exactly the numbers of the abstract batch decoder
`numBatchDirty matchStride`; `C07.numBatchDirty_values` says that every number of the abstract
decoder on arbitrary bits is `lower + offset * gcd ≤ upper < 2^W` with `offset ≤ k_range`
(`C07.decOffsetC_le`, `C07.value_le_upper`, `C07.offset_mul_gcd_le`).  Hence every value the
literal decoder pushes — in the unchecked fast path as well as in the checked one — fits `U`, the
product `offset * gcd` fits `U`, and `k_range - offset` does not underflow: had the Rust code
overflowed (a panic under overflow checks, a wrapped value without), the number it returned would
differ from the model's, which the `numdec` correspondence stream compares.

Property theorems only.
-/
import Qco.Properties.C03n
import Qco.Properties.C07
namespace Qco
namespace C07n
open Qco.WB Qco.HT Qco.Op Qco.NumDec

/-- **Every number handed out by the literal `decompress_unsigneds_limited_dirty` fits the unsigned
type**, on arbitrary input words: for a table whose ranges lie inside `[0, 2^ub)` (what the metadata
parser guarantees, `C07.decChunkMeta_bounds`) and whose codes form a complete tree, every element of
the returned `unsigneds` is `< 2^ub`; and the call does not panic. -/
theorem numDec_values_fit (ub : Nat) (b : Body) (hps : PsOk ub b.ps)
    (hbounds : C07.PrefixesOk ub b.ps) (hn : b.n ≤ maxEntries)
    (hnp : b.st.nProcessed ≤ b.n) (hinc : IncOk b.ps b.st.inc) (w : Words) (hw : w.WF)
    (hsz : 64 * w.ws.length + 1024 < USIZE) (r : Reader) (hr : RInv w r) (limit : Nat) (eoi : Bool) :
    let lit := decompressUnsignedsLimitedDirty (mkDec ub b.n b.ps) b.st.nProcessed b.st.inc limit eoi w r
    lit.res ≠ .panic ∧ ∀ us fin, lit.res = .ok (us, fin) → ∀ x ∈ us, x < 2 ^ ub := by
  intro lit
  have href := C03n.numDec_refines ub b hps hn hnp hinc w hw hsz r hr limit eoi
  have hnopanic := C03n.numDec_no_panic ub b hps hn hnp hinc w hw hsz r hr limit eoi
  refine ⟨hnopanic, ?_⟩
  intro us fin hres x hx
  have hinc7 : C07.IncOk b.ps b.st.inc := by
    intro p rem h
    exact (hinc p rem h).1
  have hvals := (C07.numBatchDirty_values matchStride matchStride_ok ub b hbounds hinc7 limit eoi
    { bits := w.toBits.drop r.bitIdx, pos := r.bitIdx }).2
  have h1 : lit.res = outToR (numBatchDirty matchStride b limit eoi
      { bits := w.toBits.drop r.bitIdx, pos := r.bitIdx }).1 := href.1
  rw [hres] at h1
  generalize hq : (numBatchDirty matchStride b limit eoi
      { bits := w.toBits.drop r.bitIdx, pos := r.bitIdx }).1 = q at h1 hvals
  cases q with
  | ok ubatch =>
    simp only [outToR, R.ok.injEq, Prod.mk.injEq] at h1
    have := hvals ubatch rfl x
    rw [← h1.1] at this
    exact this hx
  | err e =>
    cases e <;> simp [outToR] at h1

/-- non-vacuity: the example table of `C03n` satisfies the extra hypothesis -/
example : C07.PrefixesOk 64 C03n.exPs := by
  intro p hp
  simp only [C03n.exPs, List.mem_cons, List.mem_nil_iff, or_false] at hp
  rcases hp with rfl | rfl <;> decide

end C07n
end Qco
