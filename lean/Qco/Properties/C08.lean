/-
Claim C08: atomicity and call protocol of the operational decompressor model (`Qco/Op/Decomp.lean`).

1. every failed call leaves the state unchanged;
2. the iterator answering `none` (end of the data written so far) leaves the state unchanged, on
   every state satisfying the invariant `Inv`, which holds initially and is preserved by every
   operation;
3. the call protocol: out-of-order calls are `.err .invalid`; `terminated` is set by `next`
   returning the footer and by nothing else;
4. `write` only appends, `free` only changes `freed`.
All theorems are for every matcher `L`, every `gb`, every `d`.
-/
import Qco.Lemmas.OpAtomic
namespace Qco
namespace C08
open Op

variable (L : Matcher) (gb : Nat → Nat) (d : DType)

/-! ### 1. failed calls leave the state unchanged -/

theorem header_err_unchanged (σ : St) (e : Err) :
    (header d σ).1 = .err e → (header d σ).2 = σ := by
  unfold header
  split
  · simp
  · split
    · simp
    · refine withReader_cases σ _ (fun r => r.1 = .err e → r.2 = σ) ?_ ?_
      · intro a σ' rd' h; simp
      · intro e' σ' rd' h _
        split at h <;> simp_all

theorem chunkMetadata_err_unchanged (σ : St) (e : Err) :
    (chunkMetadata gb d σ).1 = .err e → (chunkMetadata gb d σ).2 = σ := by
  unfold chunkMetadata
  split
  · simp
  · split
    · simp
    · split
      · simp
      · refine withReader_cases σ _ (fun r => r.1 = .err e → r.2 = σ) ?_ ?_
        · intro a σ' rd' h; simp
        · intro e' σ' rd' h _
          split at h
          · simp_all
          · simp_all
          · split at h <;> simp_all

theorem skipChunkBody_err_unchanged (σ : St) (e : Err) :
    (skipChunkBody σ).1 = .err e → (skipChunkBody σ).2 = σ := by
  unfold skipChunkBody
  split
  · simp
  · split
    · simp
    · simp only
      split <;> simp

theorem chunkBody_err_unchanged (σ : St) (e : Err) :
    (chunkBody L d σ).1 = .err e → (chunkBody L d σ).2 = σ := by
  unfold chunkBody
  split
  · simp
  · refine withReader_cases σ _ (fun r => r.1 = .err e → r.2 = σ) ?_ ?_
    · intro a σ' rd' h; simp
    · intro e' σ' rd' h _
      split at h
      · simp_all
      · rename_i b hb
        split at h
        · rename_i e0 b0 rd0 hn
          obtain ⟨rfl, rfl⟩ := nextBatch_err_restores _ _ _ _ _ _ _ _ _ hn
          simp only [Prod.mk.injEq] at h
          rw [← h.2.1]
          cases σ; simp_all
        · simp at h

theorem simpleDecompress_err_unchanged (σ : St) (e : Err) :
    (simpleDecompress L gb d σ).1 = .err e → (simpleDecompress L gb d σ).2 = σ := by
  unfold simpleDecompress
  split
  · simp
  · split
    · simp
    · simp

/-! ### the invariant -/

/-- The reachable-state invariant: the body decompressor of a chunk in progress is consistent
(`Op.BodyInv`): `n ≤ total`, `nProcessed ≤ n`, under delta encoding no more numbers were handed
out than decoded while the body is not exhausted, and either numbers are left to hand out or the
body is exhausted at a byte-aligned bit count (the body `chunk_metadata` creates for an empty
chunk). -/
def Inv (σ : St) : Prop := ∀ b, σ.body = some b → BodyInv b

theorem inv_of_body_none {σ : St} (h : σ.body = none) : Inv σ := by
  intro b hb; rw [h] at hb; cases hb

theorem inv_of_body_eq {σ σ' : St} (h : σ'.body = σ.body) (hi : Inv σ) : Inv σ' := by
  intro b hb; exact hi b (h ▸ hb)

theorem newBody_inv (fl : Flags) (m : ChunkMeta) (b : Body) (h : newBody fl m = .ok b) :
    BodyInv b := by
  unfold newBody at h
  simp only at h
  split at h
  · cases h
  · split at h
    · cases h
    · injection h with h
      subst h
      refine ⟨?_, ?_, ?_, ?_⟩
      · simp [bodyCount]
      · simp
      · simp
      · simp only [bodyCount, Nat.zero_mod, and_true]
        split <;> omega

/-! ### `next`: one case analysis for atomicity, end of iteration, invariant, termination flag -/

/-- everything we say about one call of `next` from `σ` with result `r` -/
def NextP (limit : Nat) (σ : St) (r : Out (Option Item) × St) : Prop :=
  (∀ e, r.1 = .err e → r.2 = σ) ∧
  (r.2.terminated = true → σ.terminated = true ∨ r.1 = .ok (some Item.footer)) ∧
  (r.1 = .ok (some Item.footer) → r.2.terminated = true) ∧
  (σ.terminated = true → r = (.ok none, σ)) ∧
  (Inv σ → Inv r.2) ∧
  (Inv σ → 1 ≤ limit → r.1 = .ok none → r.2 = σ)

theorem nextP_none (limit : Nat) (σ : St) : NextP limit σ (.ok none, σ) := by
  refine ⟨?_, ?_, ?_, ?_, ?_, ?_⟩ <;> simp_all

theorem nextP_err (limit : Nat) (σ : St) (e : Err) (ht : σ.terminated = false) :
    NextP limit σ (.err e, σ) := by
  refine ⟨?_, ?_, ?_, ?_, ?_, ?_⟩ <;> simp_all

theorem nextP_ok (limit : Nat) (σ : St) (ht : σ.terminated = false) (a : Option Item) (σ'' : St)
    (h2 : σ''.terminated = true → a = some Item.footer)
    (h3 : a = some Item.footer → σ''.terminated = true)
    (h5 : Inv σ → Inv σ'')
    (h6 : Inv σ → 1 ≤ limit → a = none → σ'' = σ) : NextP limit σ (.ok a, σ'') := by
  refine ⟨?_, ?_, ?_, ?_, h5, ?_⟩
  · simp
  · intro h; right; simp only at h; simp [h2 h]
  · intro h; simp only [Out.ok.injEq] at h; exact h3 h
  · simp [ht]
  · intro hi hl h; simp only [Out.ok.injEq] at h; exact h6 hi hl h

theorem next_spec (limit : Nat) (σ : St) : NextP limit σ (next L gb d limit σ) := by
  unfold next
  refine withReader_cases σ _ (NextP limit σ) ?_ ?_
  · intro a σ' rd' h
    split at h
    · simp only [Prod.mk.injEq, Out.ok.injEq] at h
      obtain ⟨rfl, rfl, rfl⟩ := h
      exact nextP_none limit σ
    · rename_i ht
      have ht : σ.terminated = false := by simpa using ht
      split at h
      · -- header
        split at h
        · simp only [Prod.mk.injEq, Out.ok.injEq] at h
          obtain ⟨rfl, rfl, rfl⟩ := h
          refine nextP_ok limit σ ht _ _ ?_ ?_ ?_ ?_
          · simp [ht]
          · simp
          · exact inv_of_body_eq rfl
          · simp
        · simp only [Prod.mk.injEq, Out.ok.injEq] at h
          obtain ⟨rfl, rfl, rfl⟩ := h
          exact nextP_none limit σ
        · simp at h
      · rename_i fl hfl
        split at h
        · -- chunk metadata
          rename_i hbody
          split at h
          · simp only [Prod.mk.injEq, Out.ok.injEq] at h
            obtain ⟨rfl, rfl, rfl⟩ := h
            exact nextP_none limit σ
          · simp at h
          · simp only [Prod.mk.injEq, Out.ok.injEq] at h
            obtain ⟨rfl, rfl, rfl⟩ := h
            refine nextP_ok limit σ ht _ _ ?_ ?_ ?_ ?_
            · simp
            · simp
            · exact inv_of_body_eq rfl
            · simp
          · rename_i m rd1 hrun
            split at h
            · simp at h
            · rename_i b hnb
              split at h
              · split at h
                · simp at h
                · simp only [Prod.mk.injEq, Out.ok.injEq] at h
                  obtain ⟨rfl, rfl, rfl⟩ := h
                  refine nextP_ok limit σ ht _ _ ?_ ?_ ?_ ?_
                  · simp [ht]
                  · simp
                  · exact inv_of_body_eq rfl
                  · simp
              · rename_i hmn
                simp only [Prod.mk.injEq, Out.ok.injEq] at h
                obtain ⟨rfl, rfl, rfl⟩ := h
                refine nextP_ok limit σ ht _ _ ?_ ?_ ?_ ?_
                · simp [ht]
                · simp
                · intro _ b' hb'
                  simp only [Option.some.injEq] at hb'
                  subst hb'
                  exact newBody_inv fl m b hnb
                · simp
        · -- inside a body
          rename_i b hbody
          split at h
          · simp at h
          · rename_i nb b' rd1 hnb
            split at h
            · rename_i hemp
              simp only [Prod.mk.injEq, Out.ok.injEq] at h
              obtain ⟨rfl, rfl, rfl⟩ := h
              refine nextP_ok limit σ ht _ _ ?_ ?_ ?_ ?_
              · simp [ht]
              · simp
              · intro hi b'' hb''
                simp only [Option.some.injEq] at hb''
                subst hb''
                exact nextBatch_inv _ _ _ _ _ _ _ _ _ (hi b hbody) hnb
                  (Or.inr (by simpa using hemp))
              · intro hi hl _
                obtain ⟨rfl, rfl⟩ := nextBatch_nil_unchanged _ _ _ _ _ _ _ _ _ (hi b hbody) hl hnb
                  (by simpa using hemp)
                cases σ; simp_all
            · rename_i hemp
              simp only [Prod.mk.injEq, Out.ok.injEq] at h
              obtain ⟨rfl, rfl, rfl⟩ := h
              refine nextP_ok limit σ ht _ _ ?_ ?_ ?_ ?_
              · simp [ht]
              · simp
              · intro hi b'' hb''
                simp only at hb''
                split at hb''
                · cases hb''
                · rename_i hf
                  simp only [Option.some.injEq] at hb''
                  subst hb''
                  exact nextBatch_inv _ _ _ _ _ _ _ _ _ (hi b hbody) hnb
                    (Or.inl (by simpa using hf))
              · simp
  · intro e σ' rd' h
    split at h
    · simp at h
    · rename_i ht
      have ht : σ.terminated = false := by simpa using ht
      split at h
      · split at h
        · simp at h
        · simp at h
        · simp only [Prod.mk.injEq, Out.err.injEq] at h
          obtain ⟨rfl, rfl, rfl⟩ := h
          exact nextP_err limit σ _ ht
      · rename_i fl hfl
        split at h
        · split at h
          · simp at h
          · simp only [Prod.mk.injEq, Out.err.injEq] at h
            obtain ⟨rfl, rfl, rfl⟩ := h
            exact nextP_err limit σ _ ht
          · simp at h
          · split at h
            · simp only [Prod.mk.injEq, Out.err.injEq] at h
              obtain ⟨rfl, rfl, rfl⟩ := h
              exact nextP_err limit σ _ ht
            · split at h
              · split at h
                · simp only [Prod.mk.injEq, Out.err.injEq] at h
                  obtain ⟨rfl, rfl, rfl⟩ := h
                  exact nextP_err limit σ _ ht
                · simp at h
              · simp at h
        · rename_i b hbody
          split at h
          · rename_i e0 b0 rd0 hnb
            obtain ⟨rfl, rfl⟩ := nextBatch_err_restores _ _ _ _ _ _ _ _ _ hnb
            simp only [Prod.mk.injEq, Out.err.injEq] at h
            obtain ⟨rfl, rfl, rfl⟩ := h
            have : ({ σ with body := some b0 } : St) = σ := by cases σ; simp_all
            rw [this]
            exact nextP_err limit σ _ ht
          · split at h <;> simp at h

theorem next_err_unchanged (limit : Nat) (σ : St) (e : Err) :
    (next L gb d limit σ).1 = .err e → (next L gb d limit σ).2 = σ :=
  (next_spec L gb d limit σ).1 e

/-! ### 2. end of iteration for lack of data leaves the state unchanged -/

/-- `next` answering `none` (no more data for now, or iteration over) did not touch the state -/
theorem next_none_unchanged (limit : Nat) (σ : St) (hi : Inv σ) (hl : 1 ≤ limit) :
    (next L gb d limit σ).1 = .ok none → (next L gb d limit σ).2 = σ :=
  (next_spec L gb d limit σ).2.2.2.2.2 hi hl

theorem inv_init : Inv St.init := inv_of_body_none rfl

theorem inv_write (σ : St) (bits : Bits) (hi : Inv σ) : Inv (write σ bits) :=
  inv_of_body_eq rfl hi

theorem inv_free (σ : St) (hi : Inv σ) : Inv (free σ) := inv_of_body_eq rfl hi

theorem header_body (σ : St) : (header d σ).2.body = σ.body := by
  unfold header
  split
  · rfl
  · split
    · rfl
    · refine withReader_cases σ _ (fun r => r.2.body = σ.body) ?_ ?_
      · intro a σ' rd' h
        split at h <;> simp_all
        obtain ⟨_, rfl, _⟩ := h; rfl
      · intro e σ' rd' h
        split at h <;> simp_all

theorem inv_header (σ : St) (hi : Inv σ) : Inv (header d σ).2 :=
  inv_of_body_eq (header_body d σ) hi

theorem inv_chunkMetadata (σ : St) (hi : Inv σ) : Inv (chunkMetadata gb d σ).2 := by
  unfold chunkMetadata
  split
  · exact hi
  · split
    · exact hi
    · split
      · exact hi
      · rename_i fl hfl hb
        refine withReader_cases σ _ (fun r => Inv r.2) ?_ ?_
        · intro a σ' rd' h
          split at h
          · simp at h
          · simp only [Prod.mk.injEq, Out.ok.injEq] at h
            obtain ⟨rfl, rfl, rfl⟩ := h
            exact inv_of_body_eq rfl hi
          · split at h
            · simp at h
            · rename_i b hnb
              simp only [Prod.mk.injEq, Out.ok.injEq] at h
              obtain ⟨rfl, rfl, rfl⟩ := h
              intro b' hb'
              simp only [Option.some.injEq] at hb'
              subst hb'
              exact newBody_inv fl _ b hnb
        · intro e σ' rd' h
          split at h
          · simp only [Prod.mk.injEq] at h; rw [← h.2.1]; exact hi
          · simp at h
          · split at h
            · simp only [Prod.mk.injEq] at h; rw [← h.2.1]; exact hi
            · simp at h

theorem skipChunkBody_body (σ : St) :
    (skipChunkBody σ).2.body = σ.body ∨ (skipChunkBody σ).2.body = none := by
  unfold skipChunkBody
  split
  · left; rfl
  · split
    · left; rfl
    · simp only
      split
      · right; rfl
      · left; rfl

theorem inv_skipChunkBody (σ : St) (hi : Inv σ) : Inv (skipChunkBody σ).2 := by
  rcases skipChunkBody_body σ with h | h
  · exact inv_of_body_eq h hi
  · exact inv_of_body_none h

/-- a successful `chunk_body` leaves the chunk -/
theorem chunkBody_ok_body (σ : St) (xs : List Nat) :
    (chunkBody L d σ).1 = .ok xs → (chunkBody L d σ).2.body = none := by
  unfold chunkBody
  split
  · simp
  · refine withReader_cases σ _ (fun r => r.1 = .ok xs → r.2.body = none) ?_ ?_
    · intro a σ' rd' h _
      split at h
      · simp at h
      · split at h
        · simp at h
        · simp only [Prod.mk.injEq, Out.ok.injEq] at h
          obtain ⟨_, rfl, _⟩ := h
          rfl
    · intro e σ' rd' h; simp

theorem inv_chunkBody (σ : St) (hi : Inv σ) : Inv (chunkBody L d σ).2 := by
  cases hr : (chunkBody L d σ).1 with
  | ok xs => exact inv_of_body_none (chunkBody_ok_body L d σ xs hr)
  | err e => rw [chunkBody_err_unchanged L d σ e hr]; exact hi

theorem inv_next (limit : Nat) (σ : St) (hi : Inv σ) : Inv (next L gb d limit σ).2 :=
  (next_spec L gb d limit σ).2.2.2.2.1 hi

theorem inv_simpleLoop (fuel : Nat) (σ : St) (acc : List Nat) (hi : Inv σ) :
    Inv (simpleLoop L gb d fuel σ acc).2 := by
  induction fuel generalizing σ acc with
  | zero => exact hi
  | succ fuel ih =>
    unfold simpleLoop
    have h1 := inv_chunkMetadata gb d σ hi
    split
    · rename_i e σ' h; rw [h] at h1; exact h1
    · rename_i σ' h; rw [h] at h1; exact h1
    · rename_i m σ' h
      rw [h] at h1
      have h2 := inv_chunkBody L d σ' h1
      split
      · rename_i e σ'' h'; rw [h'] at h2; exact h2
      · rename_i xs σ'' h'; rw [h'] at h2; exact ih σ'' _ h2

theorem inv_simpleDecompress (σ : St) (hi : Inv σ) : Inv (simpleDecompress L gb d σ).2 := by
  unfold simpleDecompress
  have h1 := inv_header d σ hi
  split
  · exact hi
  · rename_i fl σ1 h
    rw [h] at h1
    have h2 := inv_simpleLoop L gb d (σ.rest.length / 8 + 2) σ1 [] h1
    split
    · exact hi
    · rename_i xs σ2 h'; rw [h'] at h2; exact h2

/-! ### 3. call protocol -/

/-- a second `header` -/
theorem header_twice (σ : St) (h : σ.flags.isSome) : header d σ = (.err .invalid, σ) := by
  unfold header checkNotTerminated
  cases σ.terminated <;> simp [h]

/-- `chunk_metadata` before `header` -/
theorem chunkMetadata_before_header (σ : St) (ht : σ.terminated = false) (h : σ.flags = none) :
    chunkMetadata gb d σ = (.err .invalid, σ) := by
  unfold chunkMetadata checkNotTerminated
  simp [ht, h]

/-- `chunk_metadata` inside a chunk body -/
theorem chunkMetadata_in_body (σ : St) (h : σ.body.isSome) :
    chunkMetadata gb d σ = (.err .invalid, σ) := by
  unfold chunkMetadata checkNotTerminated
  cases σ.terminated
  · cases hf : σ.flags <;> simp [h]
  · simp

/-- `chunk_body` outside a chunk -/
theorem chunkBody_outside (σ : St) (h : σ.body = none) : chunkBody L d σ = (.err .invalid, σ) := by
  unfold chunkBody checkInChunkBody checkNotTerminated
  cases σ.terminated <;> simp [h]

/-- `skip_chunk_body` outside a chunk -/
theorem skipChunkBody_outside (σ : St) (h : σ.body = none) :
    skipChunkBody σ = (.err .invalid, σ) := by
  unfold skipChunkBody checkInChunkBody checkNotTerminated
  cases σ.terminated <;> simp [h]

/-! after the footer was iterated -/

theorem header_terminated (σ : St) (h : σ.terminated = true) : header d σ = (.err .invalid, σ) := by
  unfold header checkNotTerminated; simp [h]

theorem chunkMetadata_terminated (σ : St) (h : σ.terminated = true) :
    chunkMetadata gb d σ = (.err .invalid, σ) := by
  unfold chunkMetadata checkNotTerminated; simp [h]

theorem chunkBody_terminated (σ : St) (h : σ.terminated = true) :
    chunkBody L d σ = (.err .invalid, σ) := by
  unfold chunkBody checkInChunkBody checkNotTerminated; simp [h]

theorem skipChunkBody_terminated (σ : St) (h : σ.terminated = true) :
    skipChunkBody σ = (.err .invalid, σ) := by
  unfold skipChunkBody checkInChunkBody checkNotTerminated; simp [h]

theorem simpleDecompress_terminated (σ : St) (h : σ.terminated = true) :
    simpleDecompress L gb d σ = (.err .invalid, σ) := by
  unfold simpleDecompress; rw [header_terminated d σ h]

theorem next_terminated (limit : Nat) (σ : St) (h : σ.terminated = true) :
    next L gb d limit σ = (.ok none, σ) :=
  (next_spec L gb d limit σ).2.2.2.1 h

/-! `terminated` is set by `next` returning the footer and by nothing else -/

theorem next_sets_terminated (limit : Nat) (σ : St) :
    (next L gb d limit σ).2.terminated = true →
      σ.terminated = true ∨ (next L gb d limit σ).1 = .ok (some Item.footer) :=
  (next_spec L gb d limit σ).2.1

theorem next_footer_terminated (limit : Nat) (σ : St) :
    (next L gb d limit σ).1 = .ok (some Item.footer) → (next L gb d limit σ).2.terminated = true :=
  (next_spec L gb d limit σ).2.2.1

theorem header_keeps_terminated (σ : St) : (header d σ).2.terminated = σ.terminated := by
  unfold header
  split
  · rfl
  · split
    · rfl
    · refine withReader_cases σ _ (fun r => r.2.terminated = σ.terminated) ?_ ?_
      · intro a σ' rd' h
        split at h <;> simp_all
        obtain ⟨_, rfl, _⟩ := h; rfl
      · intro e σ' rd' h
        split at h <;> simp_all

theorem chunkMetadata_keeps_terminated (σ : St) :
    (chunkMetadata gb d σ).2.terminated = σ.terminated := by
  unfold chunkMetadata
  split
  · rfl
  · split
    · rfl
    · split
      · rfl
      · refine withReader_cases σ _ (fun r => r.2.terminated = σ.terminated) ?_ ?_
        · intro a σ' rd' h
          split at h
          · simp at h
          · simp only [Prod.mk.injEq, Out.ok.injEq] at h
            obtain ⟨_, rfl, _⟩ := h; rfl
          · split at h
            · simp at h
            · simp only [Prod.mk.injEq, Out.ok.injEq] at h
              obtain ⟨_, rfl, _⟩ := h; rfl
        · intro e σ' rd' h
          split at h
          · simp only [Prod.mk.injEq] at h; rw [← h.2.1]
          · simp at h
          · split at h
            · simp only [Prod.mk.injEq] at h; rw [← h.2.1]
            · simp at h

theorem skipChunkBody_keeps_terminated (σ : St) :
    (skipChunkBody σ).2.terminated = σ.terminated := by
  unfold skipChunkBody
  split
  · rfl
  · split
    · rfl
    · simp only
      split <;> rfl

theorem chunkBody_keeps_terminated (σ : St) :
    (chunkBody L d σ).2.terminated = σ.terminated := by
  cases hr : (chunkBody L d σ).1 with
  | err e => rw [chunkBody_err_unchanged L d σ e hr]
  | ok xs =>
    revert hr
    unfold chunkBody
    split
    · simp
    · refine withReader_cases σ _ (fun r => r.1 = .ok xs → r.2.terminated = σ.terminated) ?_ ?_
      · intro a σ' rd' h _
        split at h
        · simp at h
        · split at h
          · simp at h
          · simp only [Prod.mk.injEq, Out.ok.injEq] at h
            obtain ⟨_, rfl, _⟩ := h
            rfl
      · intro e σ' rd' h; simp

theorem simpleLoop_keeps_terminated (fuel : Nat) (σ : St) (acc : List Nat) :
    (simpleLoop L gb d fuel σ acc).2.terminated = σ.terminated := by
  induction fuel generalizing σ acc with
  | zero => rfl
  | succ fuel ih =>
    unfold simpleLoop
    have h1 := chunkMetadata_keeps_terminated gb d σ
    split
    · rename_i e σ' h; rw [h] at h1; exact h1
    · rename_i σ' h; rw [h] at h1; exact h1
    · rename_i m σ' h
      rw [h] at h1
      have h2 := chunkBody_keeps_terminated L d σ'
      split
      · rename_i e σ'' h'; rw [h'] at h2; simp only at h2 ⊢; rw [h2, ← h1]
      · rename_i xs σ'' h'; rw [h'] at h2; rw [ih σ'' _]; simp only at h2 ⊢; rw [h2, ← h1]

theorem simpleDecompress_keeps_terminated (σ : St) :
    (simpleDecompress L gb d σ).2.terminated = σ.terminated := by
  unfold simpleDecompress
  have h1 := header_keeps_terminated d σ
  split
  · rfl
  · rename_i fl σ1 h
    rw [h] at h1
    have h2 := simpleLoop_keeps_terminated L gb d (σ.rest.length / 8 + 2) σ1 []
    split
    · rfl
    · rename_i xs σ2 h'; rw [h'] at h2; simp only at h1 h2 ⊢; rw [h2, h1]

/-! ### 4. `write` and `free` -/

/-- `write` never fails and only appends to the unread data -/
theorem write_spec (σ : St) (bits : Bits) :
    (write σ bits).rest = σ.rest ++ bits ∧ (write σ bits).pos = σ.pos ∧
    (write σ bits).freed = σ.freed ∧ (write σ bits).flags = σ.flags ∧
    (write σ bits).body = σ.body ∧ (write σ bits).terminated = σ.terminated ∧
    (write σ bits).bitIdx = σ.bitIdx :=
  ⟨rfl, rfl, rfl, rfl, rfl, rfl, rfl⟩

/-- `free` releases whole 64-bit words: only `freed` changes, by the multiple of 64 below the
reported bit index, which drops to its remainder modulo 64 -/
theorem free_spec (σ : St) :
    (free σ).rest = σ.rest ∧ (free σ).pos = σ.pos ∧ (free σ).flags = σ.flags ∧
    (free σ).body = σ.body ∧ (free σ).terminated = σ.terminated ∧
    (free σ).freed = σ.freed + 64 * (σ.bitIdx / 64) ∧
    (free σ).bitIdx = σ.bitIdx % 64 ∧
    σ.bitIdx = (free σ).bitIdx + 64 * (σ.bitIdx / 64) := by
  refine ⟨rfl, rfl, rfl, rfl, rfl, rfl, ?_, ?_⟩
  · simp only [free, St.bitIdx]; omega
  · simp only [free, St.bitIdx]; omega

theorem free_freed_dvd (σ : St) (h : 64 ∣ σ.freed) : 64 ∣ (free σ).freed := by
  simp only [free]; omega

theorem free_free (σ : St) : free (free σ) = free σ := by
  have h := (free_spec σ).2.2.2.2.2.2.1
  have : (free σ).bitIdx / 64 = 0 := by omega
  show ({ free σ with freed := (free σ).freed + 64 * ((free σ).bitIdx / 64) } : St) = free σ
  rw [this]
  generalize free σ = τ
  cases τ; rfl

/-! ### 5. the premises are satisfiable: concrete reachable states -/

/-- `u32` -/
def exU32 : DType :=
  { name := "u32", headerByte := 4, physBits := 32, uBits := 32, kind := .uint, pps := 0 }

/-- after the first magic byte only, `header` wants more data -/
example : (header exU32 (write St.init (natBits 8 113))).1 = .err .insufficient := by rfl

example : (header exU32 (write St.init (natBits 8 113))).2 = write St.init (natBits 8 113) := by
  decide

/-- ... and so does the iterator, by answering `none` -/
example : (next eagerMatcher (fun _ => 0) exU32 1 (write St.init (natBits 8 113))).1 = .ok none := by
  rfl

example : (next eagerMatcher (fun _ => 0) exU32 1 (write St.init (natBits 8 113))).2
    = write St.init (natBits 8 113) := by decide

/-- a complete header (no flag set) followed by the first byte of a chunk -/
def exAfterHeader : St :=
  (header exU32 (write St.init
    (bytesBits Frozen.magicHeader ++ natBits 8 4 ++ natBits 8 0 ++ natBits 8 Frozen.magicChunkByte))).2

example : exAfterHeader =
    { rest := natBits 8 44, pos := 48, freed := 0, terminated := false, body := none,
      flags := some { use5 := false, order := 0, minCount := false, gcds := false } } := by decide

/-- the chunk metadata is incomplete: an error, and (by `chunkMetadata_err_unchanged`) no change -/
example : (chunkMetadata (fun _ => 0) exU32 exAfterHeader).1 = .err .insufficient := by rfl

/-- Why `Inv` has the alternative "`n ≤ nProcessed` at an aligned bit count": `chunk_metadata` on
an *empty* chunk (`n = 0`, no prefix, empty body) leaves a body with `nProcessed = n = 0` in the
state, so "`nProcessed < n` for every body in the state" is not preserved by `chunkMetadata`. -/
def exEmptyChunk : St :=
  (chunkMetadata (fun _ => 0) exU32 (write exAfterHeader
    (natBits 24 0 ++ natBits 32 0 ++ natBits 15 0 ++ [false]))).2

example : exEmptyChunk =
    { rest := [], pos := 128, freed := 0, terminated := false,
      flags := some { use5 := false, order := 0, minCount := false, gcds := false },
      body := some { n := 0, bodyBytes := 0, ps := [], st := { nProcessed := 0, bitsProcessed := 0, inc := none },
                     total := 0, order := 0, moments := [], numsProcessed := 0 } } := by decide

/-- on that state `next` answers `none` for ever (the caller has to call `chunk_body`) -/
example : (next eagerMatcher (fun _ => 0) exU32 1 exEmptyChunk).1 = .ok none := by rfl
example : (next eagerMatcher (fun _ => 0) exU32 1 exEmptyChunk).2 = exEmptyChunk := by decide
example : (chunkBody eagerMatcher exU32 exEmptyChunk).1 = .ok [] := by rfl

end C08
end Qco
