/-
C08d — Layer DL: the `Decompressor<T>` state machine and `ChunkBodyDecompressor<T>` are verified, not only
modelled.

`Qco.DecompLit` (`Qco/Op/DecompLit.lean`) is the literal, statement-by-statement model of
`decompressor.rs` (`read_header`, `read_chunk_meta`, `with_reader`, `header`, `chunk_metadata`,
`skip_chunk_body`, `chunk_body`, `simple_decompress`, `free_compressed_memory`, `Iterator::next`,
`Write::write`), `chunk_body_decompressor.rs` (`new`, `decompress_next_batch`, `bits_remaining`),
`num_decompressor.rs` (`new`, `bits_remaining`, `decompress_unsigneds_limited`) and
`delta_encoding.rs` (`reconstruct_nums`) over the word-level `BitWords`/`BitReader`, on top of the literal
layers B (words), M (metadata), N (`decompress_unsigneds_limited_dirty`).  `Qco.Op`
(`Qco/Op/Decomp.lean`) with `L := matchStride` is the abstract operational model all property theorems
(C03–C08, C11, C16) are about.

Headlines: under the simulation relation `Sim`, every operation of the literal model returns what the
abstract operation returns (same flags / metadata / numbers / item, same error kind) and leads to related
states (`decompLit_refines`); no operation panics (`decompLit_no_panic`); the initial states are related
(`sim_init`); hence every history of operations from `Decompressor::default()` produces the same outputs
in both models (`decompLit_history`).  Separately, `validate_prefix_tree` — which the models take as the
predicate `completeTree` — is verified against its own literal model (`validate_prefix_tree_is_completeTree`).

Hypotheses.
* `d ∈ Frozen.dtypes` (one of the 15 data types); `gb x ≤ U::BITS`: a GCD field is not wider than `U` (true
  of `⌈log2 (x as f64)⌉`), as in C02m.
* `SizeOk`: `freed bits + 128 · words.len() + 2^36 < 2^64` — the run has been fed fewer than about `2^60`
  bytes.  It excludes the `usize` overflows of `bits_processed + reader.bit_idx()`,
  `bit_idx + bits_remaining` and carries the size hypotheses of the layers below.
* the bytes written are bytes (`< 256`).
* error kinds: where the abstract model says `corrupt`, the real code answers `InvalidArgument` instead of
  `Corruption` for an out-of-range bound of a 96-bit timestamp (`ErrRel`, inherited from C02m).
Modelling limits: see the header of `Qco/Op/DecompLit.lean`.  Property theorems only; the proofs are in
`Qco/Lemmas/DecompLit/*.lean`.  Vocabulary: `Sim`, `SizeOk`, `ResRel`, `ErrRel`, `BOk` (the invariant of a body in
progress) are defined in `Qco/Lemmas/DecompLit/Rel.lean`; `DOp` (the operations), `litStep`/`absStep` (one
operation on each model), `OutRel` (same result), `OpOk` (written bytes are `< 256`), `HistRel`, `histWords` in
`Qco/Lemmas/DecompLit/Hist.lean`; `MetaRel`, `ItemRel` in `Ops2.lean`, `Ops4.lean`.
-/
import Qco.Lemmas.DecompLit.Hist
import Qco.Lemmas.ValidateTree
namespace Qco
namespace C08d
open Qco.WB Qco.Op Qco.MetaIO Qco.DecompLit

/-! ### headline theorems -/

/-- **the initial states are related**: `Decompressor::default()` and `Op.St.init` -/
theorem sim_init (d : DType) : Sim d LitSt.init Op.St.init := DecompLit.sim_init d

/-- **every operation of the literal decompressor refines the abstract operation.**  If `Sim lit abs`,
then for each operation `write(bytes)`, `header()`, `chunk_metadata()`, `skip_chunk_body()`,
`chunk_body()`, `next()` (with `numbers_limit_per_item = limit`), `free_compressed_memory()`,
`simple_decompress()`, `bit_idx()` the literal model (words, `BitReader`, literal `NumDecompressor` with its
unchecked fast path, literal metadata parser, `reconstruct_nums`, `with_reader`'s commit-on-`Ok`, the
snapshot/restore of `decompress_unsigneds_limited` and `simple_decompress`) returns the same result as
the abstract model with the 6-bit-stride matcher — the same value, or an error of the same kind — and
the two successor states are again related by `Sim`. -/
theorem decompLit_refines {d : DType} (hd : d ∈ Frozen.dtypes) {gb : Nat → Nat}
    (hgb : ∀ x, gb x ≤ d.uBits) (op : DOp) (hop : OpOk op) {lit : LitSt} {abs : Op.St}
    (h : Sim d lit abs) (hs : SizeOk lit abs) :
    ResRel (d.kind = .ts96) (OutRel abs.flags) (litStep gb d op lit).1 (absStep gb d op abs).1 ∧
      Sim d (litStep gb d op lit).2 (absStep gb d op abs).2 :=
  step_refines hd hgb op hop h hs

/-- **no operation panics**: under `Sim`, no `unwrap()` meets `None`, no index is out of bounds (words,
`bytes[0]`, `moments[0]`, `moments[o + 1]`, `deltas[i]`, `temp[0]`), no `usize` arithmetic of the glue code
overflows or underflows (`bit_idx + bits_remaining`, `bits_processed + reader.bit_idx() -
initial.bit_idx()`, `*n - *nums_processed`, `order - 1`, `truncate_left`, `bit_idx -= …`), no loop runs
out of fuel. -/
theorem decompLit_no_panic {d : DType} (hd : d ∈ Frozen.dtypes) {gb : Nat → Nat}
    (hgb : ∀ x, gb x ≤ d.uBits) (op : DOp) (hop : OpOk op) {lit : LitSt} {abs : Op.St}
    (h : Sim d lit abs) (hs : SizeOk lit abs) : (litStep gb d op lit).1 ≠ .panic :=
  (decompLit_refines hd hgb op hop h hs).1.no_panic

/-- **histories**: for every list of operations applied to `Decompressor::default()` — writes of bytes in
any pieces, `header`, `chunk_metadata`, `chunk_body`, `skip_chunk_body`, `next`, `simple_decompress`,
`free_compressed_memory`, `bit_idx` in any order, also after errors — the literal model and the abstract
model answer the same at every step (`HistRel`), provided the history writes fewer than about `2^57`
words; in particular the literal model never panics along the way. -/
theorem decompLit_history {d : DType} (hd : d ∈ Frozen.dtypes) {gb : Nat → Nat}
    (hgb : ∀ x, gb x ≤ d.uBits) (ops : List DOp) (hops : ∀ op ∈ ops, OpOk op)
    (hsize : 128 * histWords ops + 2 ^ 36 < USIZE) :
    HistRel gb d ops LitSt.init Op.St.init := by
  apply hist_from hd hgb ops hops (sim_init d)
  show 0 + 128 * (0 + histWords ops) + 2 ^ 36 < USIZE
  omega

/-- `validate_prefix_tree` (taken as the predicate `completeTree` by `NumDecompressor::new` in both models)
against its own literal model (`Qco/Op/ValidateTree.lean`: the leaf-marking loop over
`vec![false; 1 << max_depth]`): it accepts exactly the empty table and the complete prefix-free code
tables, and its shifts do not overflow for codes shorter than 64 bits (parsed codes are shorter than 32). -/
theorem validate_prefix_tree_is_completeTree (codes : List Bits) (hlen : ∀ c ∈ codes, c.length < 64) :
    ValidateTree.validatePrefixTree codes =
      if codes.isEmpty || completeTree codes then .ok () else .err "Corruption" :=
  ValidateTree.validatePrefixTree_eq codes hlen

/-! ### non-vacuity: concrete files -/

def i32 : DType := { name := "i32", headerByte := 3, physBits := 32, uBits := 32, kind := .int, pps := 0 }
def gbx (r : Nat) : Nat := min (clog2 r) 32

/-- the bytes of the doc comment of `Decompressor`: an `i32` file without chunks -/
def emptyFile : List Nat := [113, 99, 111, 33, 3, 0, 46]

/-- an `i32` file with one chunk of six numbers `5, 4, 4, 8, 9, 13`, delta order 1 (moment 5; five deltas
coded with two prefixes), written by the specification's encoder (`ast` command of the driver) -/
def deltaFile : List Nat := [113, 99, 111, 33, 3, 156, 44, 0, 0, 6, 0, 0, 0, 2, 0, 0, 0, 5, 0, 5, 63, 255, 255,
  255, 224, 0, 0, 0, 16, 136, 0, 0, 0, 16, 0, 0, 0, 16, 48, 42, 224, 46]

theorem i32_mem : i32 ∈ Frozen.dtypes := by decide
theorem gbx_le : ∀ x, gbx x ≤ i32.uBits := fun _ => Nat.min_le_right _ _

/-- the hypotheses of `decompLit_refines` hold of the decompressor that has been fed `deltaFile`: the two
states are related, the size condition holds -/
theorem delta_sim : Sim i32 (DecompLit.write LitSt.init deltaFile) (Op.write St.init (bytesBits deltaFile)) :=
  write_refines (sim_init i32) deltaFile (by decide)

theorem delta_size : SizeOk (DecompLit.write LitSt.init deltaFile) (Op.write St.init (bytesBits deltaFile)) := by
  have hl := delta_sim.wf.len
  have ht : (DecompLit.write LitSt.init deltaFile).words.total = 336 := rfl
  have husz : USIZE = 18446744073709551616 := rfl
  unfold SizeOk
  show 0 + 128 * (DecompLit.write LitSt.init deltaFile).words.ws.length + 2 ^ 36 < USIZE
  omega

/-- `decompLit_refines` and `decompLit_no_panic` instantiated, every hypothesis discharged:
`simple_decompress` on `deltaFile` -/
example :
    ResRel (i32.kind = .ts96) (OutRel none)
      (litStep gbx i32 .simpleDecompress (DecompLit.write LitSt.init deltaFile)).1
      (absStep gbx i32 .simpleDecompress (Op.write St.init (bytesBits deltaFile))).1 :=
  (decompLit_refines i32_mem gbx_le .simpleDecompress trivial delta_sim delta_size).1

example : (litStep gbx i32 (.next 2) (DecompLit.write LitSt.init deltaFile)).1 ≠ .panic :=
  decompLit_no_panic i32_mem gbx_le (.next 2) trivial delta_sim delta_size

/-- `decompLit_history` instantiated: a history with pieces, errors (`chunk_body` before the metadata,
`header` twice), `free`, streaming and whole-file decompression -/
def exHistory : List DOp :=
  [.write (deltaFile.take 9), .header, .chunkBody, .chunkMetadata, .next 2, .write (deltaFile.drop 9), .free,
   .header, .next 2, .next 2, .bitIdx, .skipChunkBody, .chunkMetadata, .simpleDecompress]

example : HistRel gbx i32 exHistory LitSt.init Op.St.init :=
  decompLit_history i32_mem gbx_le exHistory (by decide) (by decide)

-- what the literal model computes (evaluation)
#guard (DecompLit.simpleDecompress gbx i32 (DecompLit.write LitSt.init emptyFile)).1 == .ok []
#guard (DecompLit.simpleDecompress gbx i32 (DecompLit.write LitSt.init emptyFile)).2.state.bitIdx == 56
#guard (DecompLit.simpleDecompress gbx i32 (DecompLit.write LitSt.init deltaFile)).1 == .ok [5, 4, 4, 8, 9, 13]
#guard (DecompLit.simpleDecompress gbx i32 (DecompLit.write LitSt.init deltaFile)).2.state.bitIdx == 336
-- the same from the abstract model
#guard (match Op.simpleDecompress matchStride gbx i32 (Op.write St.init (bytesBits deltaFile)) with
  | (.ok xs, σ) => xs == [5, 4, 4, 8, 9, 13] && σ.bitIdx == 336
  | _ => false)
-- streaming with `numbers_limit_per_item = 4`: flags, metadata, two batches, footer, then `None`
#guard ((DecompLit.drainIter gbx i32 4 10 (DecompLit.write LitSt.init deltaFile) []).1.map fun it =>
    match it with
    | .flags _ => "flags" | .chunkMetadata m => s!"meta n={m.n}" | .numbers xs => s!"nums {xs}" | .footer => "footer")
  == ["flags", "meta n=6", "nums [5, 4, 4, 8]", "nums [9, 13]", "footer"]
-- a truncated file: `simple_decompress` fails with `InsufficientData` and restores the state (`bit_idx = 0`)
#guard (DecompLit.simpleDecompress gbx i32 (DecompLit.write LitSt.init (deltaFile.take 41))).1
  == .err "InsufficientData"
#guard (DecompLit.simpleDecompress gbx i32 (DecompLit.write LitSt.init (deltaFile.take 41))).2.state.bitIdx == 0
-- `next` on the truncated file hands out what is there and then waits (`None`), never an error
#guard (DecompLit.drainIter gbx i32 100 10 (DecompLit.write LitSt.init (deltaFile.take 40)) []).2.1 == none
-- `free_compressed_memory` after the body: 336 / 64 = 5 words dropped, `bit_idx` 336 → 16
#guard (match DecompLit.simpleDecompress gbx i32 (DecompLit.write LitSt.init deltaFile) with
  | (_, σ) => (DecompLit.free σ).2.state.bitIdx == 16 && (DecompLit.free σ).2.words.ws.length == 1)
-- `reconstruct_nums` without a moment panics (`moments[0]`); unreachable: the `Delta` variant has order ≥ 1
#guard DecompLit.reconstructNums i32 [] [1, 2] 1 == .panic

end C08d
end Qco
