/-
C08l — atomicity and call protocol of the LITERAL decompressor.

C08 restated for `Qco.DecompLit` (`Qco/Op/DecompLit.lean`), the statement-level model of `Decompressor<T>`.  All
theorems are about the literal functions (`DecompLit.header`, `chunkMetadata`, `skipChunkBody`, `chunkBody`,
`next`, `free`, `simpleDecompress`, uniformly `DecompLit.litStep`).

1. **every failed call leaves the literal decompressor exactly as it was** — the whole literal state: the words,
   `bit_idx`, the flags, the `ChunkBodyDecompressor` (with the `NumDecompressor`'s `n_processed`, `bits_processed`,
   incomplete prefix, and the delta moments), `terminated`.  This is NOT a corollary of the refinement (which only
   gives equality of the abstract states); it is proved directly on the literal model, for every state and every
   input, with no hypothesis at all (`Qco/Lemmas/LitCor/Atomic.lean`).  It is a statement about `with_reader` (the
   closure's changes to `state` persist on `Err`, only `bit_idx` is held back — so every `Err` exit of every closure has
   to leave `state` alone), the snapshot/restore of `decompress_unsigneds_limited` (reader and `NumDecompressor` state)
   and of `simple_decompress`, and the fact that `reconstruct_nums` — which runs after `decompress_unsigneds_limited`
   has committed — has no `Err` exit.
2. the call protocol: out-of-order calls answer `InvalidArgument` and change nothing (every state, no hypothesis).
3. on every state the API can reach from `Decompressor::default()`: `next` answering `None` changes nothing
   (`numbers_limit_per_item ≥ 1`); `terminated` is set by `next` yielding the footer and by nothing else.  These two
   come from C08 through the refinement, using that the simulation determines the literal state (`sim_inj`).
4. never a panic: C07l (`literal_never_panics`).

Hypotheses of part 3: `d ∈ Frozen.dtypes`, `∀ x, gb x ≤ d.uBits`, written bytes are bytes, the size side-condition of
layer DL.  Parts 1 and 2 have none.  Property theorems only.
-/
import Qco.Lemmas.LitCor.Inj
import Qco.Lemmas.LitCor.Atomic
import Qco.Lemmas.LitCor.Examples
namespace Qco
namespace C08l
open Qco.WB Qco.Op Qco.MetaIO Qco.DecompLit

/-! ### 1. failed calls leave the literal state unchanged -/

/-- **every failed call leaves the literal decompressor exactly as it was**, whatever the call (`header`,
`chunk_metadata`, `skip_chunk_body`, `chunk_body`, `next`, `free_compressed_memory`, `simple_decompress`), whatever
the state, whatever has been written -/
theorem literal_failed_call_unchanged (gb : Nat → Nat) (d : DType) (op : DOp) (σ : LitSt) (k : String)
    (h : (litStep gb d op σ).1 = .err k) : (litStep gb d op σ).2 = σ :=
  litStep_err_unchanged gb d op σ k h

theorem header_err_unchanged (d : DType) (σ : LitSt) (k : String) :
    (DecompLit.header d σ).1 = .err k → (DecompLit.header d σ).2 = σ :=
  DecompLit.header_err_unchanged d σ k

theorem chunkMetadata_err_unchanged (gb : Nat → Nat) (d : DType) (σ : LitSt) (k : String) :
    (DecompLit.chunkMetadata gb d σ).1 = .err k → (DecompLit.chunkMetadata gb d σ).2 = σ :=
  DecompLit.chunkMetadata_err_unchanged gb d σ k

theorem skipChunkBody_err_unchanged (σ : LitSt) (k : String) :
    (DecompLit.skipChunkBody σ).1 = .err k → (DecompLit.skipChunkBody σ).2 = σ :=
  DecompLit.skipChunkBody_err_unchanged σ k

/-- a failed `chunk_body` (for instance `InsufficientData` in the middle of the body, after many numbers have been
decoded by the dirty batch decoder) leaves the body decompressor as it was -/
theorem chunkBody_err_unchanged (d : DType) (σ : LitSt) (k : String) :
    (DecompLit.chunkBody d σ).1 = .err k → (DecompLit.chunkBody d σ).2 = σ :=
  DecompLit.chunkBody_err_unchanged d σ k

theorem next_err_unchanged (gb : Nat → Nat) (d : DType) (limit : Nat) (σ : LitSt) (k : String) :
    (DecompLit.next gb d limit σ).1 = .err k → (DecompLit.next gb d limit σ).2 = σ :=
  DecompLit.next_err_unchanged gb d limit σ k

/-- a failed `simple_decompress` — after the header and any number of chunks have been decoded — leaves the
decompressor as it was -/
theorem simpleDecompress_err_unchanged (gb : Nat → Nat) (d : DType) (σ : LitSt) (k : String) :
    (DecompLit.simpleDecompress gb d σ).1 = .err k → (DecompLit.simpleDecompress gb d σ).2 = σ :=
  DecompLit.simpleDecompress_err_unchanged gb d σ k

/-- the ingredients: a failed `decompress_next_batch` restores the `ChunkBodyDecompressor`; `reconstruct_nums` never
answers `Err` -/
theorem decompressNextBatch_err_restores (d : DType) (cbd : CBD) (w : Words) (reader : Reader) (limit : Nat)
    (eoi : Bool) (k : String) (cbd' : CBD) (r' : Reader)
    (h : cbd.decompressNextBatch d w reader limit eoi = (.err k, cbd', r')) : cbd' = cbd :=
  dnb_err_restores d cbd w reader limit eoi k cbd' r' h

theorem reconstructNums_never_err (d : DType) (moments deltas : List Nat) (n : Nat) (k : String) :
    DecompLit.reconstructNums d moments deltas n ≠ .err k :=
  reconstructNums_no_err d moments deltas n k

/-! ### 2. the call protocol -/

/-- a second `header` -/
theorem header_twice (d : DType) (σ : LitSt) (h : σ.state.flags.isSome) :
    DecompLit.header d σ = (.err "InvalidArgument", σ) := DecompLit.header_twice d σ h

/-- `chunk_metadata` before `header` -/
theorem chunkMetadata_before_header (gb : Nat → Nat) (d : DType) (σ : LitSt) (h : σ.state.flags = none) :
    DecompLit.chunkMetadata gb d σ = (.err "InvalidArgument", σ) := DecompLit.chunkMetadata_before_header gb d σ h

/-- `chunk_metadata` inside a chunk body -/
theorem chunkMetadata_in_body (gb : Nat → Nat) (d : DType) (σ : LitSt) (h : σ.state.chunkBodyDecompressor.isSome) :
    DecompLit.chunkMetadata gb d σ = (.err "InvalidArgument", σ) := DecompLit.chunkMetadata_in_body gb d σ h

/-- `chunk_body` outside a chunk -/
theorem chunkBody_outside (d : DType) (σ : LitSt) (h : σ.state.chunkBodyDecompressor = none) :
    DecompLit.chunkBody d σ = (.err "InvalidArgument", σ) := DecompLit.chunkBody_outside d σ h

/-- `skip_chunk_body` outside a chunk -/
theorem skipChunkBody_outside (σ : LitSt) (h : σ.state.chunkBodyDecompressor = none) :
    DecompLit.skipChunkBody σ = (.err "InvalidArgument", σ) := DecompLit.skipChunkBody_outside σ h

/-- after the footer has been iterated: every call of the chunk API, and `simple_decompress`, is `InvalidArgument` -/
theorem calls_after_termination (gb : Nat → Nat) (d : DType) (σ : LitSt) (h : σ.state.terminated = true) :
    DecompLit.header d σ = (.err "InvalidArgument", σ) ∧
    DecompLit.chunkMetadata gb d σ = (.err "InvalidArgument", σ) ∧
    DecompLit.chunkBody d σ = (.err "InvalidArgument", σ) ∧
    DecompLit.skipChunkBody σ = (.err "InvalidArgument", σ) ∧
    DecompLit.simpleDecompress gb d σ = (.err "InvalidArgument", σ) :=
  ⟨header_terminated d σ h, chunkMetadata_terminated gb d σ h, chunkBody_terminated d σ h,
    skipChunkBody_terminated σ h, simpleDecompress_of_header_err gb d σ _ (header_terminated d σ h)⟩

/-- `simple_decompress` on a decompressor that has already read a header -/
theorem simpleDecompress_after_header (gb : Nat → Nat) (d : DType) (σ : LitSt) (h : σ.state.flags.isSome) :
    DecompLit.simpleDecompress gb d σ = (.err "InvalidArgument", σ) :=
  simpleDecompress_of_header_err gb d σ _ (DecompLit.header_twice d σ h)

/-! ### 3. on reachable states -/

/-- **`next` answering `None` (no more data for now, or iteration over) did not touch the decompressor**, on every
state the API can reach from `Decompressor::default()`, for `numbers_limit_per_item ≥ 1` -/
theorem literal_next_none_unchanged {d : DType} (hd : d ∈ Frozen.dtypes) {gb : Nat → Nat}
    (hgb : ∀ x, gb x ≤ d.uBits) (ops : List DOp) (hops : ∀ op ∈ ops, OpOk op)
    (hsize : 128 * histWords ops + 2 ^ 36 < USIZE) (limit : Nat) (hlim : 1 ≤ limit)
    (h : (DecompLit.next gb d limit (litRun gb d ops LitSt.init)).1 = .ok none) :
    (DecompLit.next gb d limit (litRun gb d ops LitSt.init)).2 = litRun gb d ops LitSt.init := by
  obtain ⟨hs, hz⟩ := reach_sim hd hgb ops hops hsize
  obtain ⟨r1, r2⟩ := next_refines (dok_of_mem hd) hgb limit hs hz
  have hinv := inv_absRun gb d ops St.init C08.inv_init
  rw [h] at r1
  have habs : (Op.next matchStride gb d limit (absRun gb d ops St.init)).1 = .ok none := by
    cases ha : (Op.next matchStride gb d limit (absRun gb d ops St.init)).1 with
    | err e => rw [ha] at r1; exact r1.elim
    | ok b =>
      rw [ha] at r1
      cases b with
      | none => rfl
      | some j => exact r1.elim
  rw [C08.next_none_unchanged matchStride gb d limit _ hinv hlim habs] at r2
  exact sim_inj hs r2 (next_words gb d limit _)

/-- **`terminated` is set by `next` yielding the footer and by nothing else** (on reachable states) -/
theorem literal_next_sets_terminated {d : DType} (hd : d ∈ Frozen.dtypes) {gb : Nat → Nat}
    (hgb : ∀ x, gb x ≤ d.uBits) (ops : List DOp) (hops : ∀ op ∈ ops, OpOk op)
    (hsize : 128 * histWords ops + 2 ^ 36 < USIZE) (limit : Nat)
    (h : (DecompLit.next gb d limit (litRun gb d ops LitSt.init)).2.state.terminated = true) :
    (litRun gb d ops LitSt.init).state.terminated = true ∨
      (DecompLit.next gb d limit (litRun gb d ops LitSt.init)).1 = .ok (some .footer) := by
  obtain ⟨hs, hz⟩ := reach_sim hd hgb ops hops hsize
  obtain ⟨r1, r2⟩ := next_refines (dok_of_mem hd) hgb limit hs hz
  rw [r2.term] at h
  rcases C08.next_sets_terminated matchStride gb d limit _ h with h1 | h1
  · left; rw [hs.term]; exact h1
  · right
    rw [h1] at r1
    obtain ⟨a, ha, hrel⟩ := r1.ok_rel
    rw [ha]
    cases a with
    | none => exact hrel.elim
    | some i => cases i <;> first | rfl | exact hrel.elim

/-- the other operations keep `terminated` (every state, directly on the literal model): a failed call changes
nothing (part 1); a successful `header`, `chunk_metadata`, `chunk_body`, `skip_chunk_body`, `simple_decompress` needs
`terminated = false` and — by the refinement — leaves it so on reachable states -/
theorem literal_ops_keep_terminated {d : DType} (hd : d ∈ Frozen.dtypes) {gb : Nat → Nat}
    (hgb : ∀ x, gb x ≤ d.uBits) (ops : List DOp) (hops : ∀ op ∈ ops, OpOk op)
    (hsize : 128 * histWords ops + 2 ^ 36 < USIZE) :
    (DecompLit.header d (litRun gb d ops LitSt.init)).2.state.terminated
        = (litRun gb d ops LitSt.init).state.terminated ∧
    (DecompLit.chunkMetadata gb d (litRun gb d ops LitSt.init)).2.state.terminated
        = (litRun gb d ops LitSt.init).state.terminated ∧
    (DecompLit.chunkBody d (litRun gb d ops LitSt.init)).2.state.terminated
        = (litRun gb d ops LitSt.init).state.terminated ∧
    (DecompLit.skipChunkBody (litRun gb d ops LitSt.init)).2.state.terminated
        = (litRun gb d ops LitSt.init).state.terminated ∧
    (DecompLit.simpleDecompress gb d (litRun gb d ops LitSt.init)).2.state.terminated
        = (litRun gb d ops LitSt.init).state.terminated := by
  obtain ⟨hs, hz⟩ := reach_sim hd hgb ops hops hsize
  refine ⟨?_, ?_, ?_, ?_, ?_⟩
  · rw [(header_refines hs hz).2.term, hs.term, C08.header_keeps_terminated]
  · rw [(chunkMetadata_refines (dok_of_mem hd) hgb hs hz).2.term, hs.term, C08.chunkMetadata_keeps_terminated]
  · rw [(chunkBody_refines hs hz).2.term, hs.term, C08.chunkBody_keeps_terminated]
  · rw [(skipChunkBody_refines hs hz).2.term, hs.term, C08.skipChunkBody_keeps_terminated]
  · rw [(simpleDecompress_refines (dok_of_mem hd) hgb hs hz).2.term, hs.term, C08.simpleDecompress_keeps_terminated]

/-! ### non-vacuity: failed calls in the middle of `C08d.deltaFile` -/

open C08d (i32 gbx i32_mem gbx_le deltaFile)

/-- 40 of the 42 bytes written (the second of the two body bytes is missing), flags and metadata iterated, one batch
of three numbers handed out: the body decompressor is in the middle of the body (`n_processed = 3`,
`bits_processed = 7`, the moment has moved on to `8`) -/
def midOps : List DOp := [.write (deltaFile.take 40), .next 3, .next 3, .next 3]
def midBody : LitSt := litRun gbx i32 midOps LitSt.init
/-- the abstract state `midBody` simulates (evaluated by the kernel in the examples) -/
def midAbs : Op.St := absRun gbx i32 midOps St.init

theorem mid_sim : Sim i32 midBody midAbs ∧ SizeOk midBody midAbs :=
  reach_sim i32_mem gbx_le midOps (by decide) (by decide)

set_option maxRecDepth 100000 in
/-- `chunk_body` now fails for lack of data — after the dirty batch decoder has read the Huffman code of the fourth
delta and failed on its offset — … -/
theorem mid_chunkBody_fails : (DecompLit.chunkBody i32 midBody).1 = .err "InsufficientData" := by
  have r := (chunkBody_refines mid_sim.1 mid_sim.2).1
  have : (Op.chunkBody matchStride i32 midAbs).1 = .err .insufficient := absErr_eq (by decide)
  rw [this] at r
  exact r.err_insufficient

/-- … and the theorem says the decompressor is exactly as before -/
example : (DecompLit.chunkBody i32 midBody).2 = midBody :=
  chunkBody_err_unchanged i32 midBody "InsufficientData" mid_chunkBody_fails

set_option maxRecDepth 100000 in
/-- the protocol: `chunk_metadata` inside the body, `header` again -/
example : DecompLit.chunkMetadata gbx i32 midBody = (.err "InvalidArgument", midBody) :=
  chunkMetadata_in_body gbx i32 midBody (by rw [mid_sim.1.body_iff]; decide)

set_option maxRecDepth 100000 in
example : DecompLit.header i32 midBody = (.err "InvalidArgument", midBody) :=
  header_twice i32 midBody (by rw [mid_sim.1.flags]; decide)

set_option maxRecDepth 100000 in
/-- `next` has handed out what is there; now it answers `None` and — by the theorem — changes nothing -/
example : DecompLit.next gbx i32 3 midBody = (.ok none, midBody) := by
  have r := (next_refines (dok_of_mem i32_mem) gbx_le 3 mid_sim.1 mid_sim.2).1
  have : (Op.next matchStride gbx i32 3 midAbs).1 = .ok none := absIsNone_eq (by decide)
  rw [this] at r
  have h1 := lit_none_of_abs r
  exact Prod.ext h1 (literal_next_none_unchanged i32_mem gbx_le midOps (by decide) (by decide) 3 (by decide) h1)

-- evaluation of the literal model: the state in the middle of the body (what a failed call must not clobber)
#guard (match midBody.state.chunkBodyDecompressor with
  | some (.delta n nd ms np) => n == 6 && nd.nProcessed == 3 && nd.bitsProcessed == 7 && ms == [8] && np == 3
  | _ => false)
#guard (DecompLit.chunkBody i32 midBody).1 == .err "InsufficientData"
#guard (DecompLit.next gbx i32 3 midBody).1 == .ok none
#guard (DecompLit.next gbx i32 3 (DecompLit.write midBody (deltaFile.drop 40))).1 == .ok (some (.numbers [8, 9, 13]))

end C08l
end Qco
