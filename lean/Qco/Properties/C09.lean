/-
Claim C09: the operational compressor model (`Qco/Op/Comp.lean`) enforces its call protocol and is
unchanged by failed calls.

1. a rejected call is an error value and leaves the state unchanged;
2. exactly the language `header chunk* footer` is accepted (acceptance is characterised by the
   protocol flags and the arguments; the rejections are corollaries);
3. an accepted call appends exactly its bytes; the bytes of a chunk do not depend on the history;
4. for every history (any interleaving of accepted calls, rejected calls and drains) the total
   output (everything drained ++ what is pending) is header ++ the accepted chunks ++ footer, as
   far as the protocol got; draining anywhere changes nothing; a complete history's output is
   `encodeFile` of the accepted chunks and decodes to exactly them;
5. concrete histories.
All theorems are for every `gb`, every `d`, every configuration.
-/
import Qco.Op.Comp
import Qco.Spec.RoundTrip
namespace Qco
namespace C09
open Op

variable (gb : Nat → Nat) (d : DType) (cfg : CConfig)

/-! ### 1. rejected calls leave the state unchanged -/

theorem cHeader_err_unchanged (σ : CSt) (e : CErr) :
    (cHeader d cfg σ).1 = .error e → (cHeader d cfg σ).2 = σ := by
  unfold cHeader
  split
  · simp
  · split
    · simp
    · split
      · simp
      · intro h; cases h

theorem cChunk_err_unchanged (σ : CSt) (n : Nat) (t : AChunk) (e : CErr) :
    (cChunk gb d cfg σ n t).1 = .error e → (cChunk gb d cfg σ n t).2 = σ := by
  unfold cChunk
  split
  · simp
  · split
    · simp
    · split
      · simp
      · split
        · simp
        · split
          · simp
          · intro h; cases h

theorem cFooter_err_unchanged (σ : CSt) (e : CErr) :
    (cFooter σ).1 = .error e → (cFooter σ).2 = σ := by
  unfold cFooter
  split
  · simp
  · split
    · simp
    · intro h; cases h

/-- a call answers either `ok` or an error; "not accepted" is "rejected with `invalid`" -/
theorem cHeader_ok_or_invalid (σ : CSt) :
    (cHeader d cfg σ).1 = .ok () ∨ (cHeader d cfg σ).1 = .error .invalid := by
  unfold cHeader
  split
  · simp
  · split
    · simp
    · split <;> simp

theorem cChunk_ok_or_invalid (σ : CSt) (n : Nat) (t : AChunk) :
    (cChunk gb d cfg σ n t).1 = .ok t.fixedMeta ∨ (cChunk gb d cfg σ n t).1 = .error .invalid := by
  unfold cChunk
  split
  · simp
  · split
    · simp
    · split
      · simp
      · split
        · simp
        · split <;> simp

theorem cFooter_ok_or_invalid (σ : CSt) :
    (cFooter σ).1 = .ok () ∨ (cFooter σ).1 = .error .invalid := by
  unfold cFooter
  split
  · simp
  · split <;> simp

/-! ### 2. exactly `header chunk* footer` is accepted -/

theorem cHeader_ok_iff (σ : CSt) :
    (∃ u, (cHeader d cfg σ).1 = .ok u) ↔
      (σ.hasHeader = false ∧ σ.hasFooter = false ∧ cfg.order ≤ 7) := by
  unfold cHeader
  cases hh : σ.hasHeader <;> cases hf : σ.hasFooter <;>
    by_cases ho : cfg.order > Frozen.maxDeltaOrder <;>
    simp [ho] <;> simp [Frozen.maxDeltaOrder] at ho <;> omega

theorem cChunk_ok_iff (σ : CSt) (n : Nat) (t : AChunk) :
    (∃ m, (cChunk gb d cfg σ n t).1 = .ok m) ↔
      (σ.hasHeader = true ∧ σ.hasFooter = false ∧ 1 ≤ n ∧ cfg.level ≤ 12 ∧ n ≤ 2^24 - 1) := by
  unfold cChunk
  cases hh : σ.hasHeader <;> cases hf : σ.hasFooter <;>
    by_cases hn : n = 0 <;> by_cases hl : cfg.level > maxLevel <;>
    by_cases he : n > maxEntries <;>
    simp [hn, hl, he] <;> simp [maxLevel, maxEntries] at hl he <;> omega

theorem cFooter_ok_iff (σ : CSt) :
    (∃ u, (cFooter σ).1 = .ok u) ↔ (σ.hasHeader = true ∧ σ.hasFooter = false) := by
  unfold cFooter
  cases hh : σ.hasHeader <;> cases hf : σ.hasFooter <;> simp

/-- not accepted = rejected with `invalid`, state unchanged -/
theorem cHeader_rejected (σ : CSt)
    (h : ¬ (σ.hasHeader = false ∧ σ.hasFooter = false ∧ cfg.order ≤ 7)) :
    cHeader d cfg σ = (.error .invalid, σ) := by
  have h1 : (cHeader d cfg σ).1 = .error .invalid := by
    rcases cHeader_ok_or_invalid d cfg σ with h' | h'
    · exact absurd ((cHeader_ok_iff d cfg σ).1 ⟨(), h'⟩) h
    · exact h'
  exact Prod.ext h1 (cHeader_err_unchanged d cfg σ _ h1)

theorem cChunk_rejected (σ : CSt) (n : Nat) (t : AChunk)
    (h : ¬ (σ.hasHeader = true ∧ σ.hasFooter = false ∧ 1 ≤ n ∧ cfg.level ≤ 12 ∧ n ≤ 2^24 - 1)) :
    cChunk gb d cfg σ n t = (.error .invalid, σ) := by
  have h1 : (cChunk gb d cfg σ n t).1 = .error .invalid := by
    rcases cChunk_ok_or_invalid gb d cfg σ n t with h' | h'
    · exact absurd ((cChunk_ok_iff gb d cfg σ n t).1 ⟨_, h'⟩) h
    · exact h'
  exact Prod.ext h1 (cChunk_err_unchanged gb d cfg σ n t _ h1)

theorem cFooter_rejected (σ : CSt) (h : ¬ (σ.hasHeader = true ∧ σ.hasFooter = false)) :
    cFooter σ = (.error .invalid, σ) := by
  have h1 : (cFooter σ).1 = .error .invalid := by
    rcases cFooter_ok_or_invalid σ with h' | h'
    · exact absurd ((cFooter_ok_iff σ).1 ⟨(), h'⟩) h
    · exact h'
  exact Prod.ext h1 (cFooter_err_unchanged σ _ h1)

theorem second_header_rejected (σ : CSt) (h : σ.hasHeader = true) :
    cHeader d cfg σ = (.error .invalid, σ) :=
  cHeader_rejected d cfg σ (by simp [h])

theorem header_after_footer_rejected (σ : CSt) (h : σ.hasFooter = true) :
    cHeader d cfg σ = (.error .invalid, σ) :=
  cHeader_rejected d cfg σ (by simp [h])

theorem order_above_7_rejected (σ : CSt) (h : 7 < cfg.order) :
    cHeader d cfg σ = (.error .invalid, σ) :=
  cHeader_rejected d cfg σ (by omega)

theorem chunk_before_header_rejected (σ : CSt) (n : Nat) (t : AChunk) (h : σ.hasHeader = false) :
    cChunk gb d cfg σ n t = (.error .invalid, σ) :=
  cChunk_rejected gb d cfg σ n t (by simp [h])

theorem chunk_after_footer_rejected (σ : CSt) (n : Nat) (t : AChunk) (h : σ.hasFooter = true) :
    cChunk gb d cfg σ n t = (.error .invalid, σ) :=
  cChunk_rejected gb d cfg σ n t (by simp [h])

theorem empty_chunk_rejected (σ : CSt) (t : AChunk) :
    cChunk gb d cfg σ 0 t = (.error .invalid, σ) :=
  cChunk_rejected gb d cfg σ 0 t (by omega)

theorem oversized_chunk_rejected (σ : CSt) (n : Nat) (t : AChunk) (h : 2^24 - 1 < n) :
    cChunk gb d cfg σ n t = (.error .invalid, σ) :=
  cChunk_rejected gb d cfg σ n t (by omega)

theorem level_above_12_rejected (σ : CSt) (n : Nat) (t : AChunk) (h : 12 < cfg.level) :
    cChunk gb d cfg σ n t = (.error .invalid, σ) :=
  cChunk_rejected gb d cfg σ n t (by omega)

theorem footer_before_header_rejected (σ : CSt) (h : σ.hasHeader = false) :
    cFooter σ = (.error .invalid, σ) :=
  cFooter_rejected σ (by simp [h])

theorem second_footer_rejected (σ : CSt) (h : σ.hasFooter = true) :
    cFooter σ = (.error .invalid, σ) :=
  cFooter_rejected σ (by simp [h])

/-! ### 3. an accepted call appends exactly its bytes -/

theorem cHeader_ok_state (σ : CSt) (u : Unit) (h : (cHeader d cfg σ).1 = .ok u) :
    (cHeader d cfg σ).2 =
      { σ with hasHeader := true, pending := σ.pending ++ encHeader d cfg.flags } := by
  revert h
  unfold cHeader
  split
  · intro h; cases h
  · split
    · intro h; cases h
    · split
      · intro h; cases h
      · intro _; rfl

theorem cChunk_ok_state (σ : CSt) (n : Nat) (t : AChunk) (m : ChunkMeta)
    (h : (cChunk gb d cfg σ n t).1 = .ok m) :
    (cChunk gb d cfg σ n t).2 =
      { σ with pending := σ.pending ++ encChunk gb d cfg.flags t } := by
  revert h
  unfold cChunk
  split
  · intro h; cases h
  · split
    · intro h; cases h
    · split
      · intro h; cases h
      · split
        · intro h; cases h
        · split
          · intro h; cases h
          · intro _; rfl

theorem cFooter_ok_state (σ : CSt) (u : Unit) (h : (cFooter σ).1 = .ok u) :
    (cFooter σ).2 =
      { σ with hasFooter := true,
               pending := σ.pending ++ natBits 8 Frozen.magicTerminationByte } := by
  revert h
  unfold cFooter
  split
  · intro h; cases h
  · split
    · intro h; cases h
    · intro _; rfl

theorem cHeader_ok_pending (σ : CSt) (u : Unit) (h : (cHeader d cfg σ).1 = .ok u) :
    (cHeader d cfg σ).2.pending = σ.pending ++ encHeader d cfg.flags := by
  rw [cHeader_ok_state d cfg σ u h]

theorem cChunk_ok_pending (σ : CSt) (n : Nat) (t : AChunk) (m : ChunkMeta)
    (h : (cChunk gb d cfg σ n t).1 = .ok m) :
    (cChunk gb d cfg σ n t).2.pending = σ.pending ++ encChunk gb d cfg.flags t := by
  rw [cChunk_ok_state gb d cfg σ n t m h]

theorem cFooter_ok_pending (σ : CSt) (u : Unit) (h : (cFooter σ).1 = .ok u) :
    (cFooter σ).2.pending = σ.pending ++ natBits 8 Frozen.magicTerminationByte := by
  rw [cFooter_ok_state σ u h]

/-- the metadata an accepted chunk call answers is the trained chunk's, whatever the state -/
theorem cChunk_ok_meta (σ : CSt) (n : Nat) (t : AChunk) (m : ChunkMeta)
    (h : (cChunk gb d cfg σ n t).1 = .ok m) : m = t.fixedMeta := by
  rcases cChunk_ok_or_invalid gb d cfg σ n t with h' | h'
  · rw [h'] at h; cases h; rfl
  · rw [h'] at h; cases h

/-- an accepted call changes the protocol flags as the protocol says, and nothing else -/
theorem cChunk_ok_flags (σ : CSt) (n : Nat) (t : AChunk) (m : ChunkMeta)
    (h : (cChunk gb d cfg σ n t).1 = .ok m) :
    (cChunk gb d cfg σ n t).2.hasHeader = σ.hasHeader ∧
    (cChunk gb d cfg σ n t).2.hasFooter = σ.hasFooter := by
  rw [cChunk_ok_state gb d cfg σ n t m h]; exact ⟨rfl, rfl⟩

/-- the bits a chunk call appends are the same function of `(cfg, t)` in every state in which the
call is accepted (whatever the history, whatever is pending, whatever count was announced) -/
theorem chunk_bytes_history_free (σ₁ σ₂ : CSt) (n₁ n₂ : Nat) (t : AChunk) (m₁ m₂ : ChunkMeta)
    (h₁ : (cChunk gb d cfg σ₁ n₁ t).1 = .ok m₁) (h₂ : (cChunk gb d cfg σ₂ n₂ t).1 = .ok m₂) :
    (cChunk gb d cfg σ₁ n₁ t).2.pending = σ₁.pending ++ encChunk gb d cfg.flags t ∧
    (cChunk gb d cfg σ₂ n₂ t).2.pending = σ₂.pending ++ encChunk gb d cfg.flags t ∧
    (cChunk gb d cfg σ₁ n₁ t).2.pending.drop σ₁.pending.length =
      (cChunk gb d cfg σ₂ n₂ t).2.pending.drop σ₂.pending.length ∧
    m₁ = m₂ := by
  have e₁ := cChunk_ok_pending gb d cfg σ₁ n₁ t m₁ h₁
  have e₂ := cChunk_ok_pending gb d cfg σ₂ n₂ t m₂ h₂
  refine ⟨e₁, e₂, ?_, ?_⟩
  · rw [e₁, e₂, List.drop_left, List.drop_left]
  · rw [cChunk_ok_meta gb d cfg σ₁ n₁ t m₁ h₁, cChunk_ok_meta gb d cfg σ₂ n₂ t m₂ h₂]

/-! ### 4. histories: the invariant, drain invariance, validity of the output -/

/-- what a history drained, from any starting point -/
def drained (ops : List COp) : Bits := (cRun gb d cfg ops CSt.init [] []).1
/-- the trained chunks of the accepted chunk calls, in order -/
def accepted (ops : List COp) : List AChunk := (cRun gb d cfg ops CSt.init [] []).2.1
/-- the state after a history -/
def finalSt (ops : List COp) : CSt := (cRun gb d cfg ops CSt.init [] []).2.2

/-- the total output of a history: everything drained, then what is still pending -/
def total (ops : List COp) : Bits :=
  let (out, _, σ) := cRun gb d cfg ops CSt.init [] []
  out ++ σ.pending

theorem total_eq (ops : List COp) :
    total gb d cfg ops = drained gb d cfg ops ++ (finalSt gb d cfg ops).pending := rfl

/-- header ++ accepted chunks ++ footer, as far as the protocol flags say -/
def expected (σ : CSt) (acc : List AChunk) : Bits :=
  (if σ.hasHeader then encHeader d cfg.flags else []) ++ acc.flatMap (encChunk gb d cfg.flags)
    ++ (if σ.hasFooter then natBits 8 Frozen.magicTerminationByte else [])

/-- the invariant of (state, drained so far, accepted so far) -/
structure Inv (σ : CSt) (out : Bits) (acc : List AChunk) : Prop where
  bytes : out ++ σ.pending = expected gb d cfg σ acc
  footer_header : σ.hasFooter = true → σ.hasHeader = true
  no_header_no_chunks : σ.hasHeader = false → acc = []

theorem Inv.init : Inv gb d cfg CSt.init [] [] :=
  ⟨rfl, by simp [CSt.init], fun _ => rfl⟩

theorem Inv.header {σ : CSt} {out : Bits} {acc : List AChunk} (h : Inv gb d cfg σ out acc) :
    Inv gb d cfg (cHeader d cfg σ).2 out acc := by
  rcases cHeader_ok_or_invalid d cfg σ with hk | hk
  · have ⟨hh, hf, _⟩ := (cHeader_ok_iff d cfg σ).1 ⟨(), hk⟩
    have hacc := h.no_header_no_chunks hh
    have hb := h.bytes
    rw [cHeader_ok_state d cfg σ () hk]
    subst hacc
    simp only [expected, hh, hf, Bool.false_eq_true, if_false, List.flatMap_nil,
      List.append_nil] at hb
    refine ⟨?_, fun _ => rfl, fun h' => by cases h'⟩
    simp only [expected, hf, Bool.false_eq_true, if_false, if_true, List.flatMap_nil,
      List.append_nil, ← List.append_assoc, hb, List.nil_append]
  · rw [cHeader_err_unchanged d cfg σ _ hk]; exact h

theorem Inv.chunk_ok {σ : CSt} {out : Bits} {acc : List AChunk} (h : Inv gb d cfg σ out acc)
    (n : Nat) (t : AChunk) (m : ChunkMeta) (hk : (cChunk gb d cfg σ n t).1 = .ok m) :
    Inv gb d cfg (cChunk gb d cfg σ n t).2 out (acc ++ [t]) := by
  have ⟨hh, hf, _⟩ := (cChunk_ok_iff gb d cfg σ n t).1 ⟨m, hk⟩
  have hb := h.bytes
  rw [cChunk_ok_state gb d cfg σ n t m hk]
  simp only [expected, hh, hf, Bool.false_eq_true, if_false, if_true, List.append_nil] at hb
  refine ⟨?_, fun h' => by simp [hf] at h', fun h' => by simp [hh] at h'⟩
  simp only [expected, hh, hf, Bool.false_eq_true, if_false, if_true, List.append_nil,
    List.flatMap_append, List.flatMap_cons, List.flatMap_nil, ← List.append_assoc, hb]

theorem Inv.footer {σ : CSt} {out : Bits} {acc : List AChunk} (h : Inv gb d cfg σ out acc) :
    Inv gb d cfg (cFooter σ).2 out acc := by
  rcases cFooter_ok_or_invalid σ with hk | hk
  · have ⟨hh, hf⟩ := (cFooter_ok_iff σ).1 ⟨(), hk⟩
    have hb := h.bytes
    rw [cFooter_ok_state σ () hk]
    simp only [expected, hh, hf, Bool.false_eq_true, if_false, if_true, List.append_nil] at hb
    refine ⟨?_, fun _ => hh, fun h' => by simp [hh] at h'⟩
    simp only [expected, hh, if_true, ← List.append_assoc, hb]
  · rw [cFooter_err_unchanged σ _ hk]; exact h

theorem Inv.drain {σ : CSt} {out : Bits} {acc : List AChunk} (h : Inv gb d cfg σ out acc) :
    Inv gb d cfg (cDrain σ).2 (out ++ σ.pending) acc := by
  refine ⟨?_, h.footer_header, h.no_header_no_chunks⟩
  show (out ++ σ.pending) ++ [] = expected gb d cfg σ acc
  rw [List.append_nil]; exact h.bytes

/-- the invariant is preserved by every history, from every starting point -/
theorem cRun_inv (ops : List COp) (σ : CSt) (out : Bits) (acc : List AChunk)
    (h : Inv gb d cfg σ out acc) :
    Inv gb d cfg (cRun gb d cfg ops σ out acc).2.2 (cRun gb d cfg ops σ out acc).1
      (cRun gb d cfg ops σ out acc).2.1 := by
  induction ops generalizing σ out acc with
  | nil => exact h
  | cons op ops ih =>
    cases op with
    | header => exact ih _ _ _ (h.header gb d cfg)
    | chunk n t =>
      unfold cRun
      rcases cChunk_ok_or_invalid gb d cfg σ n t with hk | hk
      · have := h.chunk_ok gb d cfg n t _ hk
        revert this hk
        generalize cChunk gb d cfg σ n t = r
        rcases r with ⟨r1, r2⟩
        intro hk this
        simp only at hk
        subst hk
        exact ih _ _ _ this
      · have := cChunk_err_unchanged gb d cfg σ n t _ hk
        revert this hk
        generalize cChunk gb d cfg σ n t = r
        rcases r with ⟨r1, r2⟩
        intro hk this
        simp only at hk this
        subst hk this
        exact ih _ _ _ h
    | footer => exact ih _ _ _ (h.footer gb d cfg)
    | drain => exact ih _ _ _ (h.drain gb d cfg)

/-- the invariant, for every history from the initial state: the total output is header ++ the
accepted chunks ++ footer, as far as the protocol got -/
theorem history_invariant (ops : List COp) :
    total gb d cfg ops =
      (if (finalSt gb d cfg ops).hasHeader then encHeader d cfg.flags else [])
        ++ (accepted gb d cfg ops).flatMap (encChunk gb d cfg.flags)
        ++ (if (finalSt gb d cfg ops).hasFooter then natBits 8 Frozen.magicTerminationByte else [])
    ∧ ((finalSt gb d cfg ops).hasFooter = true → (finalSt gb d cfg ops).hasHeader = true)
    ∧ ((finalSt gb d cfg ops).hasHeader = false → accepted gb d cfg ops = []) := by
  have h := cRun_inv gb d cfg ops CSt.init [] [] (Inv.init gb d cfg)
  exact ⟨h.bytes, h.footer_header, h.no_header_no_chunks⟩

/-! #### drains -/

def isDrain : COp → Bool
  | .drain => true
  | _ => false

/-- the history without its drain steps -/
def stripDrains (ops : List COp) : List COp := ops.filter fun o => !isDrain o

/-- protocol flags and accepted chunks of a run do not depend on the pending/drained bits nor on
the drain steps -/
theorem cRun_strip (ops : List COp) (σ σ' : CSt) (out out' : Bits) (acc : List AChunk)
    (hh : σ.hasHeader = σ'.hasHeader) (hf : σ.hasFooter = σ'.hasFooter) :
    (cRun gb d cfg ops σ out acc).2.1 = (cRun gb d cfg (stripDrains ops) σ' out' acc).2.1 ∧
    (cRun gb d cfg ops σ out acc).2.2.hasHeader
      = (cRun gb d cfg (stripDrains ops) σ' out' acc).2.2.hasHeader ∧
    (cRun gb d cfg ops σ out acc).2.2.hasFooter
      = (cRun gb d cfg (stripDrains ops) σ' out' acc).2.2.hasFooter := by
  induction ops generalizing σ σ' out out' acc with
  | nil => exact ⟨rfl, hh, hf⟩
  | cons op ops ih =>
    cases op with
    | header =>
      show (cRun gb d cfg ops (cHeader d cfg σ).2 out acc).2.1
          = (cRun gb d cfg (stripDrains ops) (cHeader d cfg σ').2 out' acc).2.1 ∧ _
      apply ih <;> (unfold cHeader; rw [hh, hf]; repeat' split) <;> simp [hh, hf]
    | chunk n t =>
      have hs : stripDrains (COp.chunk n t :: ops) = COp.chunk n t :: stripDrains ops := rfl
      rw [hs]
      by_cases hacc : σ.hasHeader = true ∧ σ.hasFooter = false ∧ 1 ≤ n ∧ cfg.level ≤ 12
          ∧ n ≤ 2^24 - 1
      · have hacc' : σ'.hasHeader = true ∧ σ'.hasFooter = false ∧ 1 ≤ n ∧ cfg.level ≤ 12
            ∧ n ≤ 2^24 - 1 := by rw [← hh, ← hf]; exact hacc
        obtain ⟨m, hm⟩ := (cChunk_ok_iff gb d cfg σ n t).2 hacc
        obtain ⟨m', hm'⟩ := (cChunk_ok_iff gb d cfg σ' n t).2 hacc'
        have e := cChunk_ok_state gb d cfg σ n t m hm
        have e' := cChunk_ok_state gb d cfg σ' n t m' hm'
        have c : cChunk gb d cfg σ n t = (.ok m, _) := Prod.ext hm e
        have c' : cChunk gb d cfg σ' n t = (.ok m', _) := Prod.ext hm' e'
        unfold cRun
        rw [c, c']
        exact ih _ _ _ _ _ hh hf
      · have hacc' : ¬ (σ'.hasHeader = true ∧ σ'.hasFooter = false ∧ 1 ≤ n ∧ cfg.level ≤ 12
            ∧ n ≤ 2^24 - 1) := by rw [← hh, ← hf]; exact hacc
        unfold cRun
        rw [cChunk_rejected gb d cfg σ n t hacc, cChunk_rejected gb d cfg σ' n t hacc']
        exact ih _ _ _ _ _ hh hf
    | footer =>
      show (cRun gb d cfg ops (cFooter σ).2 out acc).2.1
          = (cRun gb d cfg (stripDrains ops) (cFooter σ').2 out' acc).2.1 ∧ _
      apply ih <;> (unfold cFooter; rw [hh, hf]; repeat' split) <;> simp [hh, hf]
    | drain =>
      show (cRun gb d cfg ops (cDrain σ).2 (out ++ σ.pending) acc).2.1
          = (cRun gb d cfg (stripDrains ops) σ' out' acc).2.1 ∧ _
      exact ih _ _ _ _ _ hh hf

theorem accepted_stripDrains (ops : List COp) :
    accepted gb d cfg (stripDrains ops) = accepted gb d cfg ops :=
  ((cRun_strip gb d cfg ops CSt.init CSt.init [] [] [] rfl rfl).1).symm

theorem hasHeader_stripDrains (ops : List COp) :
    (finalSt gb d cfg (stripDrains ops)).hasHeader = (finalSt gb d cfg ops).hasHeader :=
  ((cRun_strip gb d cfg ops CSt.init CSt.init [] [] [] rfl rfl).2.1).symm

theorem hasFooter_stripDrains (ops : List COp) :
    (finalSt gb d cfg (stripDrains ops)).hasFooter = (finalSt gb d cfg ops).hasFooter :=
  ((cRun_strip gb d cfg ops CSt.init CSt.init [] [] [] rfl rfl).2.2).symm

/-- removing every drain step changes neither the total output, nor the accepted chunks, nor the
protocol flags -/
theorem total_stripDrains (ops : List COp) :
    total gb d cfg (stripDrains ops) = total gb d cfg ops := by
  rw [(history_invariant gb d cfg ops).1, (history_invariant gb d cfg (stripDrains ops)).1,
    accepted_stripDrains, hasHeader_stripDrains, hasFooter_stripDrains]

/-- drain invariance: two histories that differ only in where (and how often) they drain have the
same total output, the same accepted chunks, the same protocol flags -/
theorem drain_invariance (ops₁ ops₂ : List COp) (h : stripDrains ops₁ = stripDrains ops₂) :
    total gb d cfg ops₁ = total gb d cfg ops₂ ∧
    accepted gb d cfg ops₁ = accepted gb d cfg ops₂ ∧
    (finalSt gb d cfg ops₁).hasHeader = (finalSt gb d cfg ops₂).hasHeader ∧
    (finalSt gb d cfg ops₁).hasFooter = (finalSt gb d cfg ops₂).hasFooter := by
  refine ⟨?_, ?_, ?_, ?_⟩
  · rw [← total_stripDrains gb d cfg ops₁, ← total_stripDrains gb d cfg ops₂, h]
  · rw [← accepted_stripDrains gb d cfg ops₁, ← accepted_stripDrains gb d cfg ops₂, h]
  · rw [← hasHeader_stripDrains gb d cfg ops₁, ← hasHeader_stripDrains gb d cfg ops₂, h]
  · rw [← hasFooter_stripDrains gb d cfg ops₁, ← hasFooter_stripDrains gb d cfg ops₂, h]

/-- inserting (or removing) a drain step anywhere -/
theorem drain_insert (ops₁ ops₂ : List COp) :
    total gb d cfg (ops₁ ++ .drain :: ops₂) = total gb d cfg (ops₁ ++ ops₂) ∧
    accepted gb d cfg (ops₁ ++ .drain :: ops₂) = accepted gb d cfg (ops₁ ++ ops₂) ∧
    (finalSt gb d cfg (ops₁ ++ .drain :: ops₂)).hasHeader
      = (finalSt gb d cfg (ops₁ ++ ops₂)).hasHeader ∧
    (finalSt gb d cfg (ops₁ ++ .drain :: ops₂)).hasFooter
      = (finalSt gb d cfg (ops₁ ++ ops₂)).hasFooter := by
  apply drain_invariance
  simp [stripDrains, isDrain]

/-- without drains nothing is drained: the total output is what is pending -/
theorem drained_of_no_drain (ops : List COp) (σ : CSt) (out : Bits) (acc : List AChunk)
    (h : ∀ o ∈ ops, isDrain o = false) : (cRun gb d cfg ops σ out acc).1 = out := by
  induction ops generalizing σ acc with
  | nil => rfl
  | cons op ops ih =>
    have ih' := fun σ acc => ih σ acc (fun o ho => h o (List.mem_cons_of_mem _ ho))
    cases op with
    | header => exact ih' _ _
    | chunk n t =>
      unfold cRun
      split <;> exact ih' _ _
    | footer => exact ih' _ _
    | drain => have := h _ List.mem_cons_self; simp [isDrain] at this

/-- the total output of any history is what a drain-free run of the same calls leaves pending -/
theorem total_eq_pending_stripDrains (ops : List COp) :
    total gb d cfg ops = (finalSt gb d cfg (stripDrains ops)).pending := by
  rw [← total_stripDrains, total_eq]
  have : drained gb d cfg (stripDrains ops) = [] :=
    drained_of_no_drain gb d cfg _ _ _ _ (by
      intro o ho
      have := (List.mem_filter.1 ho).2
      simpa using this)
  rw [this, List.nil_append]

/-! #### the output of a complete history is a valid file of exactly the accepted chunks -/

theorem complete_output_is_file (ops : List COp) (hf : (finalSt gb d cfg ops).hasFooter = true) :
    total gb d cfg ops
      = encodeFile gb d { flags := cfg.flags, chunks := accepted gb d cfg ops } := by
  have ⟨hb, hfh, _⟩ := history_invariant gb d cfg ops
  rw [hb, hfh hf, hf]
  rfl

theorem complete_output_decodes (ops : List COp) (hf : (finalSt gb d cfg ops).hasFooter = true)
    (hd : d.Ok) (hp : (prefDType d cfg.flags).Ok) (hs : d.signed.Ok) (ho : cfg.order ≤ 7)
    (hwf : ∀ c ∈ accepted gb d cfg ops, c.WF gb d cfg.flags) :
    decodeFile gb d (total gb d cfg ops)
      = .ok { flags := cfg.flags, chunks := (accepted gb d cfg ops).map AChunk.toD } [] := by
  have hwfF : AFile.WF gb d { flags := cfg.flags, chunks := accepted gb d cfg ops } :=
    ⟨hd, hp, hs, ho, hwf⟩
  have := decodeFile_encodeFile gb d _ hwfF []
  rw [List.append_nil] at this
  rw [complete_output_is_file gb d cfg ops hf, this]
  rfl

/-- a footer can only have been accepted after a header with `order ≤ 7`: the hypothesis
`cfg.order ≤ 7` of `complete_output_decodes` is implied by `hasFooter = true` -/
theorem cRun_header_order (ops : List COp) (σ : CSt) (out : Bits) (acc : List AChunk)
    (h : σ.hasHeader = true → cfg.order ≤ 7) :
    (cRun gb d cfg ops σ out acc).2.2.hasHeader = true → cfg.order ≤ 7 := by
  induction ops generalizing σ out acc with
  | nil => exact h
  | cons op ops ih =>
    cases op with
    | header =>
      apply ih
      rcases cHeader_ok_or_invalid d cfg σ with hk | hk
      · intro _; exact ((cHeader_ok_iff d cfg σ).1 ⟨(), hk⟩).2.2
      · rw [cHeader_err_unchanged d cfg σ _ hk]; exact h
    | chunk n t =>
      unfold cRun
      rcases cChunk_ok_or_invalid gb d cfg σ n t with hk | hk
      · have e := cChunk_ok_state gb d cfg σ n t _ hk
        rw [show cChunk gb d cfg σ n t = (.ok t.fixedMeta, _) from Prod.ext hk e]
        exact ih _ _ _ h
      · have e := cChunk_err_unchanged gb d cfg σ n t _ hk
        rw [show cChunk gb d cfg σ n t = (.error .invalid, σ) from Prod.ext hk e]
        exact ih _ _ _ h
    | footer =>
      apply ih
      rcases cFooter_ok_or_invalid σ with hk | hk
      · rw [cFooter_ok_state σ () hk]; exact h
      · rw [cFooter_err_unchanged σ _ hk]; exact h
    | drain => exact ih _ _ _ h

theorem complete_order_le (ops : List COp) (hf : (finalSt gb d cfg ops).hasFooter = true) :
    cfg.order ≤ 7 :=
  cRun_header_order gb d cfg ops CSt.init [] [] (by simp [CSt.init])
    ((history_invariant gb d cfg ops).2.1 hf)

/-- `complete_output_decodes` without the redundant hypothesis on the order -/
theorem complete_output_decodes' (ops : List COp) (hf : (finalSt gb d cfg ops).hasFooter = true)
    (hd : d.Ok) (hp : (prefDType d cfg.flags).Ok) (hs : d.signed.Ok)
    (hwf : ∀ c ∈ accepted gb d cfg ops, c.WF gb d cfg.flags) :
    decodeFile gb d (total gb d cfg ops)
      = .ok { flags := cfg.flags, chunks := (accepted gb d cfg ops).map AChunk.toD } [] :=
  complete_output_decodes gb d cfg ops hf hd hp hs (complete_order_le gb d cfg ops hf) hwf

/-! ### 5. concrete histories -/

section Examples

/-- which calls of a history are accepted (`none` for drains) -/
def verdicts (gb : Nat → Nat) (d : DType) (cfg : CConfig) : List COp → CSt → List (Option Bool)
  | [], _ => []
  | .header :: ops, σ =>
    some (cHeader d cfg σ).1.toBool :: verdicts gb d cfg ops (cHeader d cfg σ).2
  | .chunk n t :: ops, σ =>
    some (cChunk gb d cfg σ n t).1.toBool :: verdicts gb d cfg ops (cChunk gb d cfg σ n t).2
  | .footer :: ops, σ => some (cFooter σ).1.toBool :: verdicts gb d cfg ops (cFooter σ).2
  | .drain :: ops, σ => none :: verdicts gb d cfg ops (cDrain σ).2

/-- `u32` -/
def exU32 : DType :=
  { name := "u32", headerByte := 4, physBits := 32, uBits := 32, kind := .uint, pps := 0 }
def exGb : Nat → Nat := fun _ => 0
def exCfg : CConfig := { level := 8, order := 0, gcds := false }

/-- three numbers `7, 7, 7`: one prefix (the empty code) covering `[7, 7]` -/
def exChunk : AChunk :=
  { cm := { n := 3, bodyBytes := 0, moments := [], commonGcd := none,
            prefixes := [{ count := 3, lower := 7, upper := 7, code := [], jump := none, gcd := 1 }] },
    blocks := [.one 0 0, .one 0 0, .one 0 0] }

/-- chunk before the header, a second header, an empty chunk, a second footer: all rejected;
the calls in between are accepted -/
def exHistory : List COp :=
  [.chunk 3 exChunk, .header, .header, .chunk 0 exChunk, .chunk 3 exChunk, .drain, .footer, .footer]

example : verdicts exGb exU32 exCfg exHistory CSt.init
    = [some false, some true, some false, some false, some true, none, some true, some false] := by
  decide

example : (accepted exGb exU32 exCfg exHistory).length = 1 := by decide
example : (finalSt exGb exU32 exCfg exHistory).hasFooter = true := by decide
example : (finalSt exGb exU32 exCfg exHistory).pending = natBits 8 46 := by decide
set_option maxRecDepth 8000 in
/-- 6 bytes of header, 1 + 18 bytes of chunk (magic byte, metadata; the body is empty), footer -/
example : (total exGb exU32 exCfg exHistory).length = 8 * (6 + 19 + 1) := by decide

set_option maxRecDepth 8000 in
/-- the total output is the same with the drain elsewhere, twice, or not at all -/
example : total exGb exU32 exCfg exHistory
    = total exGb exU32 exCfg [.header, .drain, .chunk 3 exChunk, .footer, .drain, .drain] := by
  decide

/-- an oversized chunk, a level above 12, an order above 7 -/
example : (cChunk exGb exU32 exCfg { hasHeader := true, hasFooter := false, pending := [] }
    (2^24) exChunk).1.toBool = false := by decide
example : (cChunk exGb exU32 { exCfg with level := 13 }
    { hasHeader := true, hasFooter := false, pending := [] } 3 exChunk).1.toBool = false := by
  decide
example : (cHeader exU32 { exCfg with order := 8 } CSt.init).1.toBool = false := by decide

set_option maxRecDepth 8000 in
/-- the complete history's output decodes to exactly the accepted chunk -/
example : decodeFile exGb exU32 (total exGb exU32 exCfg exHistory)
    = .ok { flags := exCfg.flags, chunks := [exChunk.toD] } [] := by decide

end Examples

end C09
end Qco
