/-
C09l — Layer CL: the *literal* compressor (`Compressor::{from_config, header, chunk, footer, drain_bytes,
byte_size}`, `validate_chunk_args`, `Flags::from(config)`, and the delta encoder `DeltaMoments::from`,
`nth_order_deltas`, `nth_order_moments`, `first_order_deltas_in_place`; model `Qco/Op/CompLit.lean`, over the
word-level `BitWriter` and the literal metadata/body writers of layers B, M, W) refines the operational
compressor model `Qco/Op/Comp.lean` that C09 / C01e / C11 are stated about.

1. the literal delta encoder computes the specification's differences and moments, never panics;
2. a simulation `CSim` between the literal compressor and the abstract state (writer invariant, byte
   alignment, written bits = pending bits, protocol flags equal), established by `from_config`;
3. every call preserves `CSim` and answers like the abstract call: accepted with the same metadata and
   the same appended bits, or rejected with `InvalidArgument` and *nothing* changed; never a panic;
4. histories: any sequence of calls from `from_config(cfg)` drains the same bytes and leaves the same
   bytes pending as the abstract run; a complete history's output is `encodeFile` of the accepted chunks;
5. concrete runs (the bytes are those the real library emits for these inputs).

`train_prefixes` is an oracle (any function).  What the proofs need of its answer `ps` for the numbers of a
chunk is `TableOk` (per prefix: `lower ≤ upper < 2^BITS`, `gcd ≥ 1`, `count ≥ 1`, code of at most 64 bits,
jumpstart `≤ 24`; ranges pairwise disjoint; `16·Σ counts < 2^64`; every coded number in some range) — only
for calls the protocol accepts.  `EnvOk`: `U::BITS ≤ 128`, `HEADER_BYTE < 256`, GCD fields at most
`max U::BITS 64` bits, the `f64` estimate of `k_info` exact or one too high.  The one remaining assumption is
physical: fewer than `2^64 − 32` bits are pending when `chunk` is called (`bit_idx + 24` must not overflow).
-/
import Qco.Lemmas.CompLit.Simple
import Qco.Properties.C02m
import Qco.Properties.C02w
namespace Qco
namespace C09l
open Qco.WB Qco.MetaIO Qco.Op Qco.CompLit

/-! ### 1. delta encoding -/

/-- **the literal delta encoder is the specification's**: for every data type, every input vector and
*every* order (in particular `1 … 7`, and lengths `≤ order`): `first_order_deltas_in_place` is `sDiff1`,
`nth_order_deltas` is `sDiffN` of the `to_signed` images, `nth_order_moments` and `DeltaMoments::from` are
`sMoments` (zeros once the difference level is empty) — the functions `codedUs` and the chunk metadata of the
abstract model are made of.  The outcome is `ok`: no index is out of bounds (`nums[i + 1]`, `deltas[0]`, the
slice `nums[0..order]`), `nums.len() - 1` does not underflow. -/
theorem deltasLit_eq (d : DType) (nums : List Nat) (order : Nat) :
    (∀ v, firstOrderDeltasInPlace d.signed v = .ok (sDiff1 d.signed v)) ∧
    nthOrderDeltas d nums order = .ok (sDiffN d.signed order (nums.map d.toS)) ∧
    nthOrderMoments d nums order = .ok (sMoments d.signed order (nums.map d.toS)) ∧
    deltaMomentsFrom d nums order = .ok (sMoments d.signed order (nums.map d.toS)) :=
  ⟨firstOrderDeltasInPlace_eq d.signed, nthOrderDeltas_eq d nums order, nthOrderMoments_eq d nums order,
   deltaMomentsFrom_eq d nums order⟩

/-- the unsigned numbers the literal `chunk` hands to training and to the body writer are `codedUs` -/
theorem coded_unsigneds (d : DType) (fl : Flags) (nums : List Nat) :
    (fl.order = 0 → nums.map d.toU = codedUs d fl nums) ∧
    (fl.order ≠ 0 → (nthOrderDeltas d nums fl.order).bind (fun ds => .ok (ds.map d.signed.toU))
        = .ok (codedUs d fl nums)) := by
  refine ⟨fun h => by unfold codedUs; rw [if_pos h], fun h => ?_⟩
  rw [nthOrderDeltas_eq]
  unfold codedUs
  rw [if_neg h]
  rfl

/-- … and they are the generic `diffN` / `momentsN` of `Qco/Spec/Delta.lean` for arithmetic modulo `2^W`
(every type but `bool`) on valid patterns, and for XOR (`bool`) -/
theorem deltas_are_spec_delta (ds : DType) (k : Nat) :
    (ds.kind ≠ .bool → ∀ xs : List (Fin (2 ^ ds.uBits)),
      sDiffN ds k (xs.map Fin.val) = (diffN (modArith ds.uBits) k xs).map Fin.val ∧
      sMoments ds k (xs.map Fin.val) = (momentsN (modArith ds.uBits) k xs).map Fin.val) ∧
    (ds.kind = .bool → ∀ xs : List Bool,
      sDiffN ds k (xs.map Bool.toNat) = (diffN xorArith k xs).map Bool.toNat ∧
      sMoments ds k (xs.map Bool.toNat) = (momentsN xorArith k xs).map Bool.toNat) :=
  ⟨fun h xs => ⟨sDiffN_eq_diffN ds h k xs, sMoments_eq_momentsN ds h k xs⟩,
   fun h xs => ⟨sDiffN_eq_diffN_bool ds h k xs, sMoments_eq_momentsN_bool ds h k xs⟩⟩

/-! ### 2. the simulation -/

/-- `Compressor::from_config(cfg)` and the initial abstract state are in simulation; `Flags::from(config)` is
the flags of the abstract configuration -/
theorem csim_init (cfg : CConfig) :
    CSim cfg (Comp.fromConfig cfg) CSt.init ∧ flagsFrom cfg = cfg.flags :=
  ⟨CompLit.csim_init cfg, rfl⟩

/-- the environment hypotheses hold for the 15 data types of the library whenever a GCD field is at most
`U::BITS` wide and the estimate is exact (`est` may also be one too high) -/
theorem envOk_of_dtype {gb : Nat → Nat} {d : DType} (hd : d ∈ Frozen.dtypes) (hgb : ∀ x, gb x ≤ d.uBits) :
    EnvOk gb BodyWriter.estExact d := by
  have hall : ∀ d' ∈ Frozen.dtypes, d'.uBits ≤ 128 ∧ d'.headerByte < 256 := by decide
  have h1 := hall d hd
  exact ⟨h1.1, h1.2, fun x => Nat.le_trans (hgb x) (Nat.le_max_left _ _), BodyWriter.estExact_ok _⟩

/-! ### 3. one call -/

variable {gb est : Nat → Nat} {d : DType} {cfg : CConfig}

/-- **`compLit_refines`.**  In simulation, every call of the literal compressor answers like the same call
of the abstract compressor and the results are in simulation again:
* `header`, `footer`: both accept, or both reject (`InvalidArgument` / `invalid`) changing nothing;
* `chunk(nums)` with any training oracle: if, *whenever the protocol accepts the call*, the oracle answers
  `Ok(ps)` with `TableOk … nums ps` and fewer than `2^64 − 32` bits are pending, then with
  `t = trainedOf … nums ps` (metadata: `n`, the delta moments, the table, the common-GCD field the writer
  chooses; body: the greedy grouping) both accept, the literal call returning a metadata whose specification
  view is `t.fixedMeta`, or both reject changing nothing;
* `drain_bytes` returns (as `u8`s) exactly the pending bits; `byte_size` is the pending byte count. -/
theorem compLit_refines (henv : EnvOk gb est d) {l : Comp} {a : CSt} (hs : CSim cfg l a) :
    -- header
    (CSim cfg (header d l).2 (cHeader d cfg a).2 ∧
      (((cHeader d cfg a).1 = .ok () ∧ (header d l).1 = .ok ()) ∨
       ((cHeader d cfg a).1 = .error .invalid ∧ (header d l).1 = .err "InvalidArgument"
          ∧ (header d l).2 = l ∧ (cHeader d cfg a).2 = a))) ∧
    -- chunk
    (∀ (train : List Nat → InternalConfig → Flags → Nat → R (List Prefix)) (nums : List Nat)
        (ps : List Prefix),
      (Accepted cfg a nums.length →
        train (codedUs d cfg.flags nums) l.internalConfig l.flags nums.length = .ok ps ∧
        TableOk d cfg.flags nums ps ∧ a.pending.length + 32 < USIZE) →
      CSim cfg (chunk gb est d train nums l).2
        (cChunk gb d cfg a nums.length (trainedOf cfg.flags d nums ps)).2 ∧
      (((cChunk gb d cfg a nums.length (trainedOf cfg.flags d nums ps)).1
            = .ok (trainedOf cfg.flags d nums ps).fixedMeta ∧
        ∃ rm, (chunk gb est d train nums l).1 = .ok rm ∧
          rm.toSpec cfg.flags = (trainedOf cfg.flags d nums ps).fixedMeta) ∨
       ((cChunk gb d cfg a nums.length (trainedOf cfg.flags d nums ps)).1 = .error .invalid ∧
        (chunk gb est d train nums l).1 = .err "InvalidArgument" ∧
        (chunk gb est d train nums l).2 = l ∧
        (cChunk gb d cfg a nums.length (trainedOf cfg.flags d nums ps)).2 = a))) ∧
    -- footer
    (CSim cfg (footer l).2 (cFooter a).2 ∧
      (((cFooter a).1 = .ok () ∧ (footer l).1 = .ok ()) ∨
       ((cFooter a).1 = .error .invalid ∧ (footer l).1 = .err "InvalidArgument"
          ∧ (footer l).2 = l ∧ (cFooter a).2 = a))) ∧
    -- drain_bytes
    (bytesBits (drainBytes l).1 = (cDrain a).1 ∧ (∀ b ∈ (drainBytes l).1, b < 256) ∧
      CSim cfg (drainBytes l).2 (cDrain a).2) ∧
    -- byte_size
    byteSize l = cByteSize a :=
  ⟨header_refines henv hs, fun train nums ps h => chunk_refines henv train nums ps hs h,
   footer_refines hs, drain_refines hs, byteSize_refines hs⟩

/-- the chunk `trainedOf` is the one C01e's round-trip theorems are about (`C01.trainedChunk` with the
common-GCD field `write_prefixes` chooses), and it exists when every coded number lies in some range -/
theorem trainedOf_is_trainedChunk {fl : Flags} {nums : List Nat} {ps : List Prefix}
    (ht : TableOk d fl nums ps) :
    C01.trainedChunk fl d nums ps (commonField fl ps) = some (trainedOf fl d nums ps) := by
  obtain ⟨_, _, h, _⟩ := trainedOf_eq ht.cover
  exact h

/-- **`compLit_no_panic`**: under the hypotheses of `compLit_refines`, no call panics (no `unwrap`, index,
slice, subtraction or shift goes wrong in the literal compressor, the delta encoder, the metadata writer,
the body writer, the body-size patch) -/
theorem compLit_no_panic (henv : EnvOk gb est d) {l : Comp} {a : CSt} (hs : CSim cfg l a) :
    (header d l).1 ≠ .panic ∧ (footer l).1 ≠ .panic ∧
    ∀ (train : List Nat → InternalConfig → Flags → Nat → R (List Prefix)) (nums : List Nat)
        (ps : List Prefix),
      (Accepted cfg a nums.length →
        train (codedUs d cfg.flags nums) l.internalConfig l.flags nums.length = .ok ps ∧
        TableOk d cfg.flags nums ps ∧ a.pending.length + 32 < USIZE) →
      (chunk gb est d train nums l).1 ≠ .panic := by
  refine ⟨?_, ?_, ?_⟩
  · rcases (header_refines henv hs).2 with ⟨_, h⟩ | ⟨_, h, _⟩ <;> (rw [h]; simp)
  · rcases (footer_refines hs).2 with ⟨_, h⟩ | ⟨_, h, _⟩ <;> (rw [h]; simp)
  · intro train nums ps hacc
    rcases (chunk_refines henv train nums ps hs hacc).2 with ⟨_, rm, h, _⟩ | ⟨_, h, _⟩ <;> (rw [h]; simp)

/-- **failed calls leave the compressor unchanged** (the doc comment of `Compressor`: "All `Compressor`
methods leave its state unchanged if they return an error"), under the hypotheses of `compLit_refines` -/
theorem compLit_err_unchanged (henv : EnvOk gb est d) {l : Comp} {a : CSt} (hs : CSim cfg l a) :
    (∀ k, (header d l).1 = .err k → (header d l).2 = l) ∧
    (∀ k, (footer l).1 = .err k → (footer l).2 = l) ∧
    ∀ (train : List Nat → InternalConfig → Flags → Nat → R (List Prefix)) (nums : List Nat)
        (ps : List Prefix),
      (Accepted cfg a nums.length →
        train (codedUs d cfg.flags nums) l.internalConfig l.flags nums.length = .ok ps ∧
        TableOk d cfg.flags nums ps ∧ a.pending.length + 32 < USIZE) →
      ∀ k, (chunk gb est d train nums l).1 = .err k → (chunk gb est d train nums l).2 = l := by
  refine ⟨?_, ?_, ?_⟩
  · intro k hk
    rcases (header_refines henv hs).2 with ⟨_, h⟩ | ⟨_, _, h, _⟩
    · rw [h] at hk; cases hk
    · exact h
  · intro k hk
    rcases (footer_refines hs).2 with ⟨_, h⟩ | ⟨_, _, h, _⟩
    · rw [h] at hk; cases hk
    · exact h
  · intro train nums ps hacc k hk
    rcases (chunk_refines henv train nums ps hs hacc).2 with ⟨_, rm, h, _⟩ | ⟨_, _, h, _⟩
    · rw [h] at hk; cases hk
    · exact h

/-- the literal protocol: which calls are accepted is decided by the protocol flags and the arguments,
exactly as in C09 (`header chunk* footer`; `order ≤ 7`; `1 ≤ n ≤ 2^24 − 1`; `level ≤ 12`) -/
theorem compLit_accepts_iff (henv : EnvOk gb est d) {l : Comp} {a : CSt} (hs : CSim cfg l a) :
    ((header d l).1 = .ok () ↔ (a.hasHeader = false ∧ a.hasFooter = false ∧ cfg.order ≤ 7)) ∧
    ((footer l).1 = .ok () ↔ (a.hasHeader = true ∧ a.hasFooter = false)) := by
  constructor
  · constructor
    · intro h
      rcases (header_refines henv hs).2 with ⟨ha, _⟩ | ⟨_, h', _⟩
      · exact (C09.cHeader_ok_iff d cfg a).1 ⟨(), ha⟩
      · rw [h'] at h; cases h
    · intro h
      obtain ⟨u, hu⟩ := (C09.cHeader_ok_iff d cfg a).2 h
      rcases (header_refines henv hs).2 with ⟨_, h'⟩ | ⟨ha, _⟩
      · exact h'
      · rw [ha] at hu; cases hu
  · constructor
    · intro h
      rcases (footer_refines hs).2 with ⟨ha, _⟩ | ⟨_, h', _⟩
      · exact (C09.cFooter_ok_iff a).1 ⟨(), ha⟩
      · rw [h'] at h; cases h
    · intro h
      obtain ⟨u, hu⟩ := (C09.cFooter_ok_iff a).2 h
      rcases (footer_refines hs).2 with ⟨_, h'⟩ | ⟨ha, _⟩
      · exact h'
      · rw [ha] at hu; cases hu

/-! ### 4. histories -/

/-- **any history of calls from `from_config(cfg)`**: if every `chunk` call that the protocol accepts has a
training answer `Ok(ps)` with `TableOk` (and fewer than `2^64 − 32` bits pending) — `HistOk`, evaluated along
the abstract run —, the literal run does not panic, the bytes it drained are the bits the abstract run of the
corresponding calls drained, the final states are in simulation (so what is still pending is the same too),
and everything emitted is C09's `total` -/
theorem history_same_bytes (henv : EnvOk gb est d) (ops : List LOp)
    (hok : HistOk gb d cfg ops CSt.init) :
    ∃ out l', lRun gb est d ops (Comp.fromConfig cfg) [] = .ok (out, l') ∧
      bytesBits out = C09.drained gb d cfg (absOps cfg.flags d ops) ∧
      CSim cfg l' (C09.finalSt gb d cfg (absOps cfg.flags d ops)) ∧
      bytesBits out ++ l'.writer.bits = C09.total gb d cfg (absOps cfg.flags d ops) := by
  obtain ⟨out, l', e, hb, hs⟩ := lRun_refines henv ops (Comp.fromConfig cfg) CSt.init [] []
    (CompLit.csim_init cfg) hok
  have hb' : bytesBits out = C09.drained gb d cfg (absOps cfg.flags d ops) := hb
  have hs' : CSim cfg l' (C09.finalSt gb d cfg (absOps cfg.flags d ops)) := hs
  refine ⟨out, l', e, hb', hs', ?_⟩
  rw [C09.total_eq, hb', hs'.bits]

/-- … and once the footer has been accepted, everything emitted is a valid file: `encodeFile` of exactly the
accepted chunks (which are `trainedOf` of the numbers and training answers of the accepted `chunk` calls) -/
theorem complete_history_is_file (henv : EnvOk gb est d) (ops : List LOp)
    (hok : HistOk gb d cfg ops CSt.init) :
    ∃ out l', lRun gb est d ops (Comp.fromConfig cfg) [] = .ok (out, l') ∧
      (l'.state.hasWrittenFooter = true →
        bytesBits out ++ l'.writer.bits
          = encodeFile gb d { flags := cfg.flags,
                              chunks := C09.accepted gb d cfg (absOps cfg.flags d ops) }) := by
  obtain ⟨out, l', e, _, hs, ht⟩ := history_same_bytes henv ops hok
  refine ⟨out, l', e, fun hf => ?_⟩
  rw [ht]
  exact C09.complete_output_is_file gb d cfg _ (by rw [← hs.ftr]; exact hf)

/-- **literal compressor → decompressor (C01 for the literal compressor).**  A literal history that is
`header`, one `chunk` call per (numbers, training answer) pair, `footer`, with `drain_bytes` / `byte_size`
calls anywhere: everything it emits (drained, then pending) is `encodeFile` of the chunks `trainedOf`, and
the operational decompressor (any `WeakLazyOf` matcher) returns exactly the input numbers.  Hypotheses:
`EnvOk`, `HistOk`, and those of C01e's `compress_model_roundtrip` (coverage, congruence modulo the recorded
GCDs, the emitted chunks are chunks of the format, valid patterns). -/
theorem literal_roundtrip (L : Op.Matcher) (hL : Op.WeakLazyOf L) (henv : EnvOk gb est d)
    (chunks : List (List Nat × List Prefix)) (lops : List LOp)
    (hshape : C09.stripDrains (absOps cfg.flags d lops) = C01.history (trainedAll cfg.flags d chunks))
    (hok : HistOk gb d cfg lops CSt.init)
    (hcov : ∀ x ∈ chunks, coverB x.2 (codedUs d cfg.flags x.1) = true)
    (hcong : ∀ x ∈ chunks, congruentB x.2 (codedUs d cfg.flags x.1) = true)
    (hwf : ∀ c ∈ trainedAll cfg.flags d chunks, c.WF gb d cfg.flags)
    (hd : d.Ok) (hp : (prefDType d cfg.flags).Ok) (hs : d.signed.Ok) (ho : cfg.order ≤ 7)
    (hlev : cfg.level ≤ 12) (hne : ∀ x ∈ chunks, x.1 ≠ []) (hv : ∀ x ∈ chunks, ∀ v ∈ x.1, C12.valid d v) :
    ∃ out l', lRun gb est d lops (Comp.fromConfig cfg) [] = .ok (out, l') ∧
      bytesBits out ++ l'.writer.bits
        = encodeFile gb d { flags := cfg.flags, chunks := trainedAll cfg.flags d chunks } ∧
      (Op.simpleDecompress L gb d (Op.write Op.St.init (bytesBits out ++ l'.writer.bits))).1
        = .ok (chunks.map (·.1)).flatten :=
  CompLit.literal_roundtrip L hL henv chunks lops hshape hok hcov hcong hwf hd hp hs ho hlev hne hv

/-- **`simple_compress(nums)`** on a fresh compressor answers `Ok`: none of its `unwrap`s panics, the bytes
returned (each a `u8`) are `encodeFile` of one chunk per `chunk_size` numbers — `trainedOf` of the chunk's
numbers and the table `tbl chunk` that `train_prefixes` answers for them —, and the writer is empty again.
Hypotheses: `order ≤ 7`, `level ≤ 12`, `0 < chunk_size ≤ 2^24 − 1` (`DEFAULT_CHUNK_SIZE = 10^6`), training
answers `Ok(tbl chunk)` with `TableOk` for every chunk, the file is shorter than `2^64 − 32` bits. -/
theorem simpleCompress_ok (henv : EnvOk gb est d)
    (train : List Nat → InternalConfig → Flags → Nat → R (List Prefix)) (tbl : List Nat → List Prefix)
    (nums : List Nat) (chunkSize : Nat) (hcs0 : 0 < chunkSize) (hcs : chunkSize ≤ 2 ^ 24 - 1)
    (ho : cfg.order ≤ 7) (hlev : cfg.level ≤ 12)
    (hall : ∀ ch ∈ sliceChunks chunkSize nums.length nums,
      train (codedUs d cfg.flags ch) { compressionLevel := cfg.level } cfg.flags ch.length = .ok (tbl ch) ∧
      TableOk d cfg.flags ch (tbl ch))
    (hsz : (encodeFile gb d
        { flags := cfg.flags, chunks := simpleChunks cfg.flags d tbl chunkSize nums }).length + 32 < USIZE) :
    ∃ bytes l', simpleCompress gb est d train nums chunkSize (Comp.fromConfig cfg) = (.ok bytes, l') ∧
      l'.writer = {} ∧ (∀ b ∈ bytes, b < 256) ∧
      bytesBits bytes = encodeFile gb d
        { flags := cfg.flags, chunks := simpleChunks cfg.flags d tbl chunkSize nums } :=
  CompLit.simpleCompress_ok henv train tbl nums chunkSize hcs0 hcs ho hlev hall hsz

/-- `nums.chunks(size)`: non-empty pieces of at most `size` numbers whose concatenation is `nums`;
`DEFAULT_CHUNK_SIZE` is within `MAX_ENTRIES` -/
theorem slice_chunks_spec {size : Nat} (hsz : 0 < size) (nums : List Nat) :
    (∀ ch ∈ sliceChunks size nums.length nums, ch ≠ [] ∧ ch.length ≤ size) ∧
    (sliceChunks size nums.length nums).flatten = nums ∧
    (0 < defaultChunkSize ∧ defaultChunkSize ≤ 2 ^ 24 - 1) :=
  ⟨sliceChunks_mem hsz _ _, sliceChunks_flatten hsz _ _ (Nat.le_refl _), by decide⟩

/-! ### 5. concrete runs (non-vacuity)

The byte strings below are what the real library (`Compressor::<i32>` through the harness's `cops` command)
emits for these calls; the prefix tables are the ones its `chunk()` returned. -/

section Examples

def exI32 : DType := C02m.i32
/-- a GCD field width that satisfies `EnvOk` (the theorems hold for every such `gb`) -/
def exGb : Nat → Nat := fun x => min (clog2 x) 32

theorem exEnv : EnvOk exGb BodyWriter.estExact exI32 :=
  envOk_of_dtype (by decide) (fun _ => Nat.min_le_right _ _)

theorem prefixOk_of (ub : Nat) (p : Prefix) (h1 : p.lower ≤ p.upper) (h2 : p.upper < 2 ^ ub) (h3 : 1 ≤ p.gcd)
    (h4 : p.code.length ≤ 64) (h5 : p.jump = none) (h6 : 1 ≤ p.count) : BodyWriter.PrefixOk ub p :=
  ⟨h1, h2, h3, h4, fun j hj => (by rw [h5] at hj; cases hj), h6⟩

/-! #### A: `i32`, order 0, `[1, 2, 3]`, one prefix -/

def cfgA : CConfig := { level := 8, order := 0, gcds := true }
def numsA : List Nat := [1, 2, 3]
def psA : List Prefix :=
  [{ count := 3, lower := 0x80000001, upper := 0x80000003, code := [], jump := none, gcd := 1 }]
/-- a chunk before the header and a second header are rejected; `byte_size` and an intermediate drain -/
def opsA : List LOp :=
  [.chunk numsA (.ok psA), .header, .byteSize, .chunk numsA (.ok psA), .drain, .footer, .header, .drain]
def bytesA : List Nat :=
  [0x71, 0x63, 0x6f, 0x21, 0x03, 0x8c, 0x2c, 0x00, 0x00, 0x03, 0x00, 0x00, 0x00, 0x01, 0x00, 0x03, 0x60, 0x00,
   0x00, 0x00, 0x20, 0x00, 0x00, 0x00, 0x60, 0x00, 0x28, 0x2e]

theorem tableA : TableOk exI32 cfgA.flags numsA psA := by
  refine ⟨?_, by decide, by decide, by decide⟩
  intro p hp
  rw [List.mem_singleton.mp hp]
  exact prefixOk_of _ _ (by decide) (by decide) (by decide) (by decide) rfl (by decide)

set_option maxRecDepth 100000 in
theorem histA : HistOk exGb exI32 cfgA opsA CSt.init := by
  refine ⟨?_, trivial, trivial, ?_, trivial, trivial, trivial, trivial, trivial⟩
  · intro h; exact absurd h.1 (by decide)
  · intro _; exact ⟨⟨psA, rfl, tableA⟩, by decide +kernel⟩

set_option maxRecDepth 100000 in
/-- the literal run, evaluated: the drained bytes are the real library's -/
theorem runA : (lRun exGb BodyWriter.estExact exI32 opsA (Comp.fromConfig cfgA) []).bind
    (fun r => .ok (r.1, r.2.writer)) = .ok (bytesA, {}) := by decide +kernel

set_option maxRecDepth 100000 in
/-- the specification's encoder on the chunk determined by `(numsA, psA)`, evaluated: the same bytes -/
theorem fileA : bytesBits bytesA
    = encodeFile exGb exI32 { flags := cfgA.flags, chunks := [trainedOf cfgA.flags exI32 numsA psA] } := by
  decide +kernel

set_option maxRecDepth 100000 in
/-- the metadata the literal `chunk` returns: `n = 3`, a body of 1 byte, no moments -/
theorem metaA : (chunk exGb BodyWriter.estExact exI32 (fun _ _ _ _ => .ok psA) numsA
      (header exI32 (Comp.fromConfig cfgA)).2).1
    = .ok { n := 3, compressedBodySize := 1, prefixMetadata := .simple psA } := by decide +kernel

/-- the hypotheses of the history theorems are satisfiable, and their conclusion is the evaluated one -/
example : ∃ out l', lRun exGb BodyWriter.estExact exI32 opsA (Comp.fromConfig cfgA) [] = .ok (out, l') ∧
    (l'.state.hasWrittenFooter = true → bytesBits out ++ l'.writer.bits
      = encodeFile exGb exI32
          { flags := cfgA.flags, chunks := C09.accepted exGb exI32 cfgA (absOps cfgA.flags exI32 opsA) }) :=
  complete_history_is_file exEnv opsA histA

/-! #### B: `i32`, delta order 1, `[10, 12, 15, 19]` -/

def cfgB : CConfig := { level := 8, order := 1, gcds := true }
def numsB : List Nat := [10, 12, 15, 19]
/-- the deltas `2, 3, 4` as unsigneds -/
def psB : List Prefix :=
  [{ count := 3, lower := 0x80000002, upper := 0x80000004, code := [], jump := none, gcd := 1 }]
def opsB : List LOp := [.header, .chunk numsB (.ok psB), .footer, .drain]
def bytesB : List Nat :=
  [0x71, 0x63, 0x6f, 0x21, 0x03, 0x9c, 0x2c, 0x00, 0x00, 0x04, 0x00, 0x00, 0x00, 0x01, 0x00, 0x00, 0x00, 0x0a,
   0x00, 0x03, 0x30, 0x00, 0x00, 0x00, 0x20, 0x00, 0x00, 0x00, 0x40, 0x00, 0x28, 0x2e]

example : deltaMomentsFrom exI32 numsB 1 = .ok [10] ∧ nthOrderDeltas exI32 numsB 1 = .ok [2, 3, 4]
    ∧ codedUs exI32 cfgB.flags numsB = [0x80000002, 0x80000003, 0x80000004] := by decide

theorem tableB : TableOk exI32 cfgB.flags numsB psB := by
  refine ⟨?_, by decide, by decide, by decide⟩
  intro p hp
  rw [List.mem_singleton.mp hp]
  exact prefixOk_of _ _ (by decide) (by decide) (by decide) (by decide) rfl (by decide)

set_option maxRecDepth 100000 in
theorem histB : HistOk exGb exI32 cfgB opsB CSt.init := by
  refine ⟨trivial, ?_, trivial, trivial, trivial⟩
  intro _; exact ⟨⟨psB, rfl, tableB⟩, by decide +kernel⟩

set_option maxRecDepth 100000 in
theorem runB : (lRun exGb BodyWriter.estExact exI32 opsB (Comp.fromConfig cfgB) []).bind
    (fun r => .ok (r.1, r.2.writer)) = .ok (bytesB, {}) := by decide +kernel

set_option maxRecDepth 100000 in
theorem fileB : bytesBits bytesB
    = encodeFile exGb exI32 { flags := cfgB.flags, chunks := [trainedOf cfgB.flags exI32 numsB psB] } := by
  decide +kernel

set_option maxRecDepth 100000 in
/-- the metadata the literal `chunk` returns carries the moment `10` -/
theorem metaB : (chunk exGb BodyWriter.estExact exI32 (fun _ _ _ _ => .ok psB) numsB
      (header exI32 (Comp.fromConfig cfgB)).2).1
    = .ok { n := 4, compressedBodySize := 1, prefixMetadata := .delta psB [10] } := by decide +kernel

example : ∃ out l', lRun exGb BodyWriter.estExact exI32 opsB (Comp.fromConfig cfgB) [] = .ok (out, l') ∧
    bytesBits out = C09.drained exGb exI32 cfgB (absOps cfgB.flags exI32 opsB) ∧
    CSim cfgB l' (C09.finalSt exGb exI32 cfgB (absOps cfgB.flags exI32 opsB)) ∧
    bytesBits out ++ l'.writer.bits = C09.total exGb exI32 cfgB (absOps cfgB.flags exI32 opsB) :=
  history_same_bytes exEnv opsB histB

/-! #### C: `i32`, delta order 2, chunks no longer than the order: no deltas, empty tables, zero moments -/

def cfgC : CConfig := { level := 8, order := 2, gcds := false }
def opsC : List LOp := [.header, .chunk [5] (.ok []), .chunk [1, 2] (.ok []), .footer, .drain]
def bytesC : List Nat :=
  [0x71, 0x63, 0x6f, 0x21, 0x03, 0xa8, 0x2c, 0x00, 0x00, 0x01, 0x00, 0x00, 0x00, 0x00, 0x00, 0x00, 0x00, 0x05,
   0x00, 0x00, 0x00, 0x00, 0x00, 0x00, 0x2c, 0x00, 0x00, 0x02, 0x00, 0x00, 0x00, 0x00, 0x00, 0x00, 0x00, 0x01,
   0x00, 0x00, 0x00, 0x01, 0x00, 0x00, 0x2e]

example : deltaMomentsFrom exI32 [5] 2 = .ok [5, 0] ∧ nthOrderDeltas exI32 [5] 2 = .ok []
    ∧ deltaMomentsFrom exI32 [1, 2] 2 = .ok [1, 1] ∧ nthOrderDeltas exI32 [1, 2] 2 = .ok [] := by decide

theorem tableC (nums : List Nat) (h : codedUs exI32 cfgC.flags nums = []) :
    TableOk exI32 cfgC.flags nums [] :=
  ⟨fun p hp => (by cases hp), rfl, by decide, by rw [h]; rfl⟩

set_option maxRecDepth 100000 in
theorem histC : HistOk exGb exI32 cfgC opsC CSt.init := by
  refine ⟨trivial, ?_, ?_, trivial, trivial, trivial⟩
  · intro _; exact ⟨⟨[], rfl, tableC _ (by decide)⟩, by decide +kernel⟩
  · intro _; exact ⟨⟨[], rfl, tableC _ (by decide)⟩, by decide +kernel⟩

set_option maxRecDepth 100000 in
theorem runC : (lRun exGb BodyWriter.estExact exI32 opsC (Comp.fromConfig cfgC) []).bind
    (fun r => .ok (r.1, r.2.writer)) = .ok (bytesC, {}) := by decide +kernel

set_option maxRecDepth 100000 in
theorem fileC : bytesBits bytesC
    = encodeFile exGb exI32
        { flags := cfgC.flags,
          chunks := [trainedOf cfgC.flags exI32 [5] [], trainedOf cfgC.flags exI32 [1, 2] []] } := by
  decide +kernel

/-! #### rejections and an oracle that fails -/

set_option maxRecDepth 100000 in
/-- level 13, an empty chunk, an order of 8: `InvalidArgument`, the compressor is unchanged -/
example :
    chunk exGb BodyWriter.estExact exI32 (fun _ _ _ _ => .ok psA) numsA
        (header exI32 (Comp.fromConfig { cfgA with level := 13 })).2
      = (.err "InvalidArgument", (header exI32 (Comp.fromConfig { cfgA with level := 13 })).2) ∧
    chunk exGb BodyWriter.estExact exI32 (fun _ _ _ _ => .ok psA) []
        (header exI32 (Comp.fromConfig cfgA)).2
      = (.err "InvalidArgument", (header exI32 (Comp.fromConfig cfgA)).2) ∧
    header exI32 (Comp.fromConfig { cfgA with order := 8 })
      = (.err "InvalidArgument", Comp.fromConfig { cfgA with order := 8 }) := by decide +kernel

set_option maxRecDepth 100000 in
/-- why the hypothesis "training answers `Ok`" is needed: were `train_prefixes` to fail after the call has been
accepted, the chunk's magic byte would already have been written (7 bytes pending instead of 6) -/
example :
    (chunk exGb BodyWriter.estExact exI32 (fun _ _ _ _ => .err "InvalidArgument") numsA
        (header exI32 (Comp.fromConfig cfgA)).2).1 = .err "InvalidArgument" ∧
    byteSize (header exI32 (Comp.fromConfig cfgA)).2 = 6 ∧
    byteSize (chunk exGb BodyWriter.estExact exI32 (fun _ _ _ _ => .err "InvalidArgument") numsA
        (header exI32 (Comp.fromConfig cfgA)).2).2 = 7 := by decide +kernel

/-! #### D: `simple_compress` with chunks of 2 numbers on `[1, 2, 3]`; the oracle answers the one-range table
covering all of `u32` (offsets of 32 bits) -/

def tblD (ch : List Nat) : List Prefix :=
  [{ count := ch.length, lower := 0, upper := 2 ^ 32 - 1, code := [], jump := none, gcd := 1 }]
def trainD : List Nat → InternalConfig → Flags → Nat → R (List Prefix) := fun us _ _ _ => .ok (tblD us)

theorem tableD (ch : List Nat) (hch : ch = [1, 2] ∨ ch = [3]) :
    TableOk exI32 cfgA.flags ch (tblD (codedUs exI32 cfgA.flags ch)) := by
  rcases hch with rfl | rfl
  · refine ⟨?_, by decide, by decide, by decide⟩
    intro p hp
    rw [List.mem_singleton.mp hp]
    exact prefixOk_of _ _ (by decide) (by decide) (by decide) (by decide) rfl (by decide)
  · refine ⟨?_, by decide, by decide, by decide⟩
    intro p hp
    rw [List.mem_singleton.mp hp]
    exact prefixOk_of _ _ (by decide) (by decide) (by decide) (by decide) rfl (by decide)

set_option maxRecDepth 100000 in
/-- the hypotheses of `simpleCompress_ok` are satisfiable … -/
theorem simpleD : ∃ bytes l', simpleCompress exGb BodyWriter.estExact exI32 trainD [1, 2, 3] 2
      (Comp.fromConfig cfgA) = (.ok bytes, l') ∧ l'.writer = {} ∧ (∀ b ∈ bytes, b < 256) ∧
    bytesBits bytes = encodeFile exGb exI32
      { flags := cfgA.flags,
        chunks := simpleChunks cfgA.flags exI32 (fun ch => tblD (codedUs exI32 cfgA.flags ch)) 2 [1, 2, 3] } := by
  refine simpleCompress_ok exEnv trainD (fun ch => tblD (codedUs exI32 cfgA.flags ch)) [1, 2, 3] 2
    (by decide) (by decide) (by decide) (by decide) ?_ (by decide +kernel)
  intro ch hch
  have : ch = [1, 2] ∨ ch = [3] := by
    simpa [sliceChunks] using hch
  exact ⟨rfl, tableD ch this⟩

set_option maxRecDepth 100000 in
/-- … and its conclusion is the evaluated one: header (6 bytes), two chunks (`,` = 44; `n = 2` and `n = 1`;
bodies of 8 and 4 bytes: the unsigneds `0x80000001`, `0x80000002` and `0x80000003` as 32-bit offsets), footer -/
example : (simpleCompress exGb BodyWriter.estExact exI32 trainD [1, 2, 3] 2 (Comp.fromConfig cfgA)).1
    = .ok [113, 99, 111, 33, 3, 140,
           44, 0, 0, 2, 0, 0, 0, 8, 0, 3, 80, 0, 0, 0, 15, 255, 255, 255, 224, 0, 128, 0, 0, 1, 128, 0, 0, 2,
           44, 0, 0, 1, 0, 0, 0, 4, 0, 3, 96, 0, 0, 0, 31, 255, 255, 255, 192, 128, 0, 0, 3,
           46] := by decide +kernel

end Examples

end C09l
end Qco
