/-
C10 — chunk metadata tells the truth about the chunk. Property theorems only.

`WFc` is the decidable predicate the driver evaluates on every observed `ChunkMetadata` against the
chunk's numbers (`Qco/Train/WFc.lean`). `wfc_facts` says that this predicate *means* the property's
statement; `Qco/Train/Cuts.lean`'s `cuts_tile` (re-exported below) is the structural reason the
quantile stage can only cut between distinct values.
-/
import Qco.Train.WFc
import Qco.Train.Cuts
namespace Qco
namespace C10

/-- the C10 predicate on a prefix table `ps` and the unsigned numbers `us` the chunk codes -/
def WFc (level : Nat) (ps : List Prefix) (us : List Nat) : Bool :=
  boundsOk ps && disjointB ps && coverB ps us && countsB ps us && congruentB ps us && treeB ps && leavesB level ps

private theorem disjointB_spec : ∀ (ps : List Prefix), disjointB ps = true →
    ∀ i j (hi : i < ps.length) (hj : j < ps.length), i < j →
      ps[i].upper < ps[j].lower ∨ ps[j].upper < ps[i].lower
  | [], _, i, _, hi, _, _ => by simp at hi
  | p :: ps, h, i, j, hi, hj, hij => by
    simp only [disjointB, Bool.and_eq_true, List.all_eq_true, Bool.or_eq_true, decide_eq_true_eq] at h
    cases i with
    | zero =>
      cases j with
      | zero => omega
      | succ j =>
        simp only [List.getElem_cons_zero, List.getElem_cons_succ]
        have hj' : j < ps.length := by simpa using hj
        exact h.1 (ps[j]'hj') (List.getElem_mem hj')
    | succ i =>
      cases j with
      | zero => omega
      | succ j =>
        simp only [List.getElem_cons_succ]
        exact disjointB_spec ps h.2 i j (by simpa using hi) (by simpa using hj) (by omega)

/-- what the evaluated predicate means: ranges well-formed, pairwise disjoint, every number in
exactly one range, counts = members, congruence modulo the recorded divisor, complete prefix-free
code, at most `2^level` leaves -/
theorem wfc_facts (level : Nat) (ps : List Prefix) (us : List Nat) (h : WFc level ps us = true) :
    (∀ p ∈ ps, p.lower ≤ p.upper) ∧
    (∀ i j (hi : i < ps.length) (hj : j < ps.length), i ≠ j →
        ps[i].upper < ps[j].lower ∨ ps[j].upper < ps[i].lower) ∧
    (∀ u ∈ us, ∃ i, ∃ hi : i < ps.length, (ps[i].lower ≤ u ∧ u ≤ ps[i].upper) ∧
        ∀ j (hj : j < ps.length), (ps[j].lower ≤ u ∧ u ≤ ps[j].upper) → j = i) ∧
    (∀ p ∈ ps, p.count = (us.filter fun u => decide (p.lower ≤ u) && decide (u ≤ p.upper)).length) ∧
    (∀ p ∈ ps, 1 ≤ p.gcd ∧ ∀ u ∈ us, p.lower ≤ u → u ≤ p.upper → (u - p.lower) % p.gcd = 0) ∧
    (ps = [] ∨ (prefixFreeB (ps.map (·.code)) = true ∧
        kraftSum (maxLen (ps.map (·.code))) (ps.map (·.code)) = 2 ^ maxLen (ps.map (·.code)))) ∧
    ps.length ≤ 2 ^ level := by
  simp only [WFc, Bool.and_eq_true] at h
  obtain ⟨⟨⟨⟨⟨⟨hb, hd⟩, hc⟩, hn⟩, hg⟩, ht⟩, hl⟩ := h
  have hdis := disjointB_spec ps hd
  have hdis' : ∀ i j (hi : i < ps.length) (hj : j < ps.length), i ≠ j →
      ps[i].upper < ps[j].lower ∨ ps[j].upper < ps[i].lower := by
    intro i j hi hj hne
    rcases Nat.lt_or_gt_of_ne hne with hlt | hgt
    · exact hdis i j hi hj hlt
    · exact (hdis j i hj hi hgt).symm
  refine ⟨?_, hdis', ?_, ?_, ?_, ?_, ?_⟩
  · simpa [boundsOk] using hb
  · intro u hu
    simp only [coverB, List.all_eq_true, List.any_eq_true] at hc
    obtain ⟨p, hp, hpu⟩ := hc u hu
    obtain ⟨i, hi, rfl⟩ := List.getElem_of_mem hp
    simp only [Prefix.contains, Bool.and_eq_true, decide_eq_true_eq] at hpu
    refine ⟨i, hi, hpu, ?_⟩
    intro j hj hju
    by_cases hji : j = i
    · exact hji
    · rcases hdis' j i hj hi hji with h1 | h1 <;> omega
  · intro p hp
    simp only [countsB, List.all_eq_true, beq_iff_eq] at hn
    have := hn p hp
    have hf : (fun u => decide (p.lower ≤ u) && decide (u ≤ p.upper)) = p.contains := by
      funext u; rfl
    rw [hf]; exact this
  · intro p hp
    simp only [congruentB, List.all_eq_true, Bool.and_eq_true, decide_eq_true_eq, beq_iff_eq] at hg
    obtain ⟨h1, h2⟩ := hg p hp
    refine ⟨h1, ?_⟩
    intro u hu hlo hhi
    apply h2 u
    simp [List.mem_filter, Prefix.contains, hu, hlo, hhi]
  · simp only [treeB, Bool.or_eq_true, List.isEmpty_iff] at ht
    rcases ht with h0 | h1
    · exact Or.inl h0
    · right
      simp only [completeTree, Bool.and_eq_true, beq_iff_eq] at h1
      exact h1
  · simpa [leavesB] using hl

/-- delta moments recorded are the sequence's initial differences (meaning of `momentsB`) -/
theorem moments_fact (d : DType) (fl : Flags) (vals : List Nat) (m : ChunkMeta) (h : momentsB d fl vals m = true) :
    m.moments = sMoments d.signed fl.order (vals.map d.toS) := by
  simpa [momentsB] using h

/-- the quantile stage (`choose_unoptimized_prefixes`) tiles `[0, n)` with non-empty slices cut
only between distinct values, for every sorted input and every `1 ≤ max_n_pref ≤ n` -/
theorem quantile_cuts_tile (v : Nat → Nat) (n maxN : Nat) (h1 : 1 ≤ maxN) (h2 : maxN ≤ n) :
    Chain (cuts v n maxN) 0 n ∧ ∀ p ∈ (cutRun v n maxN n).acc, Boundary v p.2 :=
  cuts_tile v n maxN h1 h2

/-- non-vacuity: a concrete two-range table with a divisor satisfies the predicate -/
example : WFc 1
    [{ count := 2, lower := 10, upper := 16, code := [false], jump := none, gcd := 3 },
     { count := 1, lower := 20, upper := 20, code := [true], jump := none, gcd := 1 }]
    [10, 20, 16] = true := by decide

end C10
end Qco
