/-
C10 (layer TL) — prefix TRAINING, literally.  Property theorems only; the executable statement-level model of
`train_prefixes` and everything it calls (compressor.rs, prefix_optimization.rs, huffman_encoding.rs) is
`Qco/Train/Lit.lean`, the proofs are in `Qco/Lemmas/TrainLit/`.

`Qco/Train/Model.lean` describes training with ORACLES (which consecutive raw prefixes are merged; which codes
are assigned) and `Qco/Properties/C10t.lean` proves that every answer of the oracles satisfies the C10 predicate
`WFc`; the tie to the code was the run-time evaluation of the judge `Train.explains` on every observed table.
Here the literal functions are proved to be INSTANCES of that model, for every value of what remains an oracle
(the `f64` costs, the tie-breaking of the `BinaryHeap`), and never to panic on what `chunk()` passes:

  L1 `chooseUnoptimized_eq`     `choose_unoptimized_prefixes` + `push_pref` + `choose_max_n_prefixes`
                                = `Train.rawPrefixes`, no panic
  L2 `optimizeLit_is_grouping`  `optimize_prefixes` = `mergeAll fold groups` for a partition into consecutive
                                non-empty groups respecting the run-length rule, for EVERY cost oracle, no panic;
                                `optimizeLit_nan_panics`: what the hypothesis on the oracle excludes
  L3 `makeHuffmanLit_is_huffRun`, `makeHuffmanLit_nil`, `pickFirstMin_ok`
                                `make_huffman_code` assigns the codes of a tree reachable by `HuffRun`, for EVERY
                                heap tie-breaking, no panic on ≥ 1 prefix; panic on 0 prefixes
  L4 `trainLit_explained`, `trainLit_wfc`, `trainLit_gcd_exact`, `trainLit_empty`, `trainLit_invalid`
                                `train_prefixes`: no panic, and `Train.explains … = true`, hence `WFc` and C18(1)

Hypotheses, all explicit (see the definitions in `Qco/Train/Lit.lean`, `Qco/Lemmas/TrainLit/{Opt,Train}.lean`):
  * `FloatsAgree F n`  the three float computations of compressor.rs (floor log2 n; count/n < 0.8; the jumpstart of
                       `choose_run_len_jumpstart`) answer what their integer readings answer (`floatsExact_agree`:
                       the integer readings themselves do);
  * `RunWeightOK F n`  the float `expected_n_runs` is at most `count` (only for "the weights do not overflow");
  * `CostFinite O`     a candidate cost compares below `f64::MAX` (else `best_paths[usize::MAX]` panics);
  * `PickOK pick`      `BinaryHeap::pop` answers an element of least weight;
  * `gb`               = `gcd_bits_required`, a parameter as everywhere; nothing is assumed of it.
-/
import Qco.Lemmas.TrainLit.Train
namespace Qco
namespace C10l
open Train TrainLit
open GcdLit (Out)

/-! ## L1. the quantile stage -/

/-- L1: on an ascending non-empty slice of at most `2^24` numbers, with a compression level a `<<` can take
(`validate_chunk_args` guarantees `1 ≤ n ≤ 2^24 − 1` and `level ≤ 12`), and floats that agree with their integer
readings, the literal `choose_unoptimized_prefixes` (with `push_pref` and `choose_max_n_prefixes`: `usize`
arithmetic, `sorted[..]` indexing, the slice `&sorted[i..j]`, `gcd_utils::gcd`) does not panic and returns
exactly the model's raw prefixes; the codes are empty; a prefix without jumpstart has weight = count, one with a
jumpstart has the float weight -/
theorem chooseUnoptimized_eq (F : Floats) (sorted : List Nat) (hs : sorted.Pairwise (· ≤ ·))
    (level : Nat) (gcds : Bool) (hn1 : 1 ≤ sorted.length) (hn : sorted.length ≤ 2 ^ 24)
    (hl : level < 64) (hF : FloatsAgree F sorted.length) :
    ∃ wps, chooseUnoptimizedLit F sorted level gcds = .ok wps ∧
      wps.map WP.toRaw = rawPrefixes sorted level gcds ∧
      ∀ p ∈ wps, p.code = [] ∧ (p.jump = none → p.weight = p.count) ∧
        (p.jump ≠ none → p.weight = (F.runLen p.count sorted.length).1) :=
  chooseUnoptimizedLit_eq F sorted hs level gcds hn1 hn hl hF

/-- the integer readings satisfy the hypotheses about the floats -/
theorem floatsExact_agree (n : Nat) : FloatsAgree Floats.exact n ∧ RunWeightOK Floats.exact n := by
  refine ⟨⟨rfl, fun _ _ => rfl, fun _ _ _ _ => rfl⟩, ?_⟩
  intro count hc
  show (count * (n - count) + n - 1) / n ≤ count
  rcases Nat.eq_zero_or_pos n with rfl | hpos
  · simp
  · rw [Nat.div_le_iff_le_mul_add_pred hpos]
    have : count * (n - count) ≤ count * n := Nat.mul_le_mul_left _ (Nat.sub_le _ _)
    rw [Nat.mul_comm n count]
    omega

/-! ## L2. `optimize_prefixes` -/

/-- L2: for EVERY cost type and cost oracle whose candidate costs compare below `f64::MAX`, on weighted prefixes
that are strictly apart and ascending with `lower ≤ upper`, divisors `≥ 1`, sums of weights and of counts and the
length within `usize`, no `upper + 1` overflowing `U` except possibly the last, and at most one run-length
prefix (`WOK`, `OneJump`: `unopt_wok` shows the quantile stage answers such a list), the literal
`optimize_prefixes` does not panic — no index out of bounds in `lower_unsigneds`, `upper_unsigneds`, `gcds`,
`cum_weight`, `best_costs`, `best_paths`, `prefixes`; no underflow in `cum_weight_i - cum_weight[j]`,
`(upper - lower) / gcd`, `fold_prefix_gcds_left` — and returns `mergeAll fold groups`, `fold` =
`use_gcd_prefix_optimize`, for some partition `groups` of the raw prefixes into consecutive non-empty groups in
which a run-length prefix is alone; the total weight is unchanged and the codes are empty -/
theorem optimizeLit_is_grouping {C : Type} (O : CostOracle C) (hfin : CostFinite O) (ub : Nat) (wps : List WP)
    (gcds : Bool) (hok : WOK wps) (hov : ∀ p ∈ (wps.map WP.toRaw).dropLast, p.upper + 1 < 2 ^ ub)
    (h1 : OneJump wps) :
    ∃ res groups, optimizeLit O ub wps gcds = .ok res ∧
      res.map WP.toRaw = mergeAll (useGcdOptimize (wps.map WP.toRaw) gcds) groups ∧
      groups.flatten = wps.map WP.toRaw ∧ (∀ g ∈ groups, g ≠ []) ∧ (∀ g ∈ groups, soloJump g = true) ∧
      (res.map (·.weight)).sum = (wps.map (·.weight)).sum ∧ (∀ p ∈ res, p.code = []) :=
  optimizeLit_grouping O hfin ub wps gcds hok hov h1

/-- the raw prefixes of L1 satisfy the hypotheses of L2 -/
theorem unoptimized_fit_for_optimize (F : Floats) (ub : Nat) (sorted : List Nat) (hs : sorted.Pairwise (· ≤ ·))
    (level : Nat) (gcds : Bool) (hn : sorted.length ≤ 2 ^ 24) (hU : ∀ x ∈ sorted, x < 2 ^ ub)
    (hW : RunWeightOK F sorted.length) (wps : List WP)
    (hraw : wps.map WP.toRaw = rawPrefixes sorted level gcds)
    (hwt : ∀ p ∈ wps, (p.jump = none → p.weight = p.count) ∧
      (p.jump ≠ none → p.weight = (F.runLen p.count sorted.length).1)) :
    WOK wps ∧ (∀ p ∈ (wps.map WP.toRaw).dropLast, p.upper + 1 < 2 ^ ub) ∧ OneJump wps :=
  unopt_wok F ub sorted hs level gcds hn hU hW wps hraw hwt

/-! ## L3. `make_huffman_code` -/

/-- L3: for EVERY tie-breaking of the heap (`PickOK`: `pop` answers an element of least weight), on at least
one prefix with weights summing below `2^64`, the literal `make_huffman_code` does not panic (`pop().unwrap()`,
`item_idx[..]`, `leaf_idx[..]`, `left_id.unwrap()`, `id += 1`, the weight sums; the recursion of
`create_bits_from` ends), changes nothing but the codes, and the codes are the paths of a tree that the
relational loop `HuffRun` reaches for these weights — so `HuffCode.complete`, `HuffCode.optimal` apply -/
theorem makeHuffmanLit_is_huffRun (pick : Nat → List HItem → Nat) (hp : PickOK pick) (wps : List WP)
    (hne : wps ≠ []) (hw : (wps.map (·.weight)).sum < USZ) (hn : 2 * wps.length ≤ USZ) :
    ∃ res, makeHuffmanLit pick wps = .ok res ∧ eraseCodes res = eraseCodes wps ∧
      HuffCode (wps.map (·.weight)) (res.map (·.code)) :=
  TrainLit.makeHuffmanLit_is_huffRun pick hp wps hne hw hn

/-- on no prefix at all `make_huffman_code` panics (`prefix_sequence.len() - 1`); `train_prefixes` returns
before for an empty chunk, and a non-empty chunk has at least one raw prefix -/
theorem makeHuffmanLit_nil (pick : Nat → List HItem → Nat) : makeHuffmanLit pick [] = .panic :=
  TrainLit.makeHuffmanLit_nil pick

/-- the hypothesis on the heap is satisfiable: "the first element of least weight" -/
theorem pickFirstMin_ok : PickOK pickFirstMin := TrainLit.pickFirstMin_ok

/-! ## L4. `train_prefixes` -/

/-- L4: on a non-empty chunk of `U` values with `level ≤ 12`, `len ≤ n ≤ MAX_ENTRIES`, for EVERY cost oracle
(finite candidate costs) and EVERY heap tie-breaking, with floats agreeing with their integer readings,
`train_prefixes` does not panic, answers `Ok(prefixes)`, and the judge accepts `prefixes` as an answer of the
oracle model for the sorted numbers — with `hasCommon` computed as the writer does (`common_gcd_for_chunk_meta`
of the final table, under `use_gcds`) and ANY `gb` -/
theorem trainLit_explained {C : Type} (F : Floats) (O : CostOracle C) (pick : Nat → List HItem → Nat)
    (ub : Nat) (gb : Nat → Nat) (unsigneds : List Nat) (level : Nat) (gcds : Bool) (n : Nat)
    (hne : unsigneds ≠ []) (hl : level ≤ 12) (hn : n ≤ MAX_ENTRIES) (hlen : unsigneds.length ≤ n)
    (hU : ∀ x ∈ unsigneds, x < 2 ^ ub) (hF : FloatsAgree F unsigneds.length)
    (hW : RunWeightOK F unsigneds.length) (hfin : CostFinite O) (hp : PickOK pick) :
    ∃ ps, trainLit F O pick ub gb unsigneds level gcds n = .ok (some ps) ∧
      explains (unsigneds.mergeSort fun a b => decide (a ≤ b)) level gcds (hasCommonLit gcds ps) gb ps = true :=
  trainLit_explains F O pick ub gb unsigneds level gcds n hne hl hn hlen hU hF hW hfin hp

/-- hence (by `C10.explains_sound_perm`) the table `train_prefixes` returns satisfies the C10 predicate with
respect to the chunk's numbers in their original order -/
theorem trainLit_wfc {C : Type} (F : Floats) (O : CostOracle C) (pick : Nat → List HItem → Nat)
    (ub : Nat) (gb : Nat → Nat) (unsigneds : List Nat) (level : Nat) (gcds : Bool) (n : Nat)
    (hne : unsigneds ≠ []) (hl : level ≤ 12) (hn : n ≤ MAX_ENTRIES) (hlen : unsigneds.length ≤ n)
    (hU : ∀ x ∈ unsigneds, x < 2 ^ ub) (hF : FloatsAgree F unsigneds.length)
    (hW : RunWeightOK F unsigneds.length) (hfin : CostFinite O) (hp : PickOK pick) :
    ∃ ps, trainLit F O pick ub gb unsigneds level gcds n = .ok (some ps) ∧ C10.WFc level ps unsigneds = true := by
  obtain ⟨ps, h1, h2⟩ := trainLit_explains F O pick ub gb unsigneds level gcds n hne hl hn hlen hU hF hW hfin hp
  exact ⟨ps, h1, C10.explains_sound_perm _ unsigneds (mergeSort_sorted unsigneds)
    (List.mergeSort_perm _ _).symm level gcds _ gb ps h2⟩

/-- and (by `C10.explains_gcd_exact`), with GCDs on, the recorded divisor of every multi-valued range is the
exact one, or 1 where the format cannot hold the exact one (C18(1)) -/
theorem trainLit_gcd_exact {C : Type} (F : Floats) (O : CostOracle C) (pick : Nat → List HItem → Nat)
    (ub : Nat) (gb : Nat → Nat) (unsigneds : List Nat) (level : Nat) (n : Nat)
    (hne : unsigneds ≠ []) (hl : level ≤ 12) (hn : n ≤ MAX_ENTRIES) (hlen : unsigneds.length ≤ n)
    (hU : ∀ x ∈ unsigneds, x < 2 ^ ub) (hF : FloatsAgree F unsigneds.length)
    (hW : RunWeightOK F unsigneds.length) (hfin : CostFinite O) (hp : PickOK pick) :
    ∃ ps, trainLit F O pick ub gb unsigneds level true n = .ok (some ps) ∧
      ∀ p ∈ ps, exactGcd p (unsigneds.mergeSort fun a b => decide (a ≤ b)) ≠ 0 →
        p.gcd = exactGcd p (unsigneds.mergeSort fun a b => decide (a ≤ b)) ∨
        (p.gcd = 1 ∧ hasCommonLit true ps = false ∧
          gcdFits gb p (exactGcd p (unsigneds.mergeSort fun a b => decide (a ≤ b))) = false) := by
  obtain ⟨ps, h1, h2⟩ := trainLit_explains F O pick ub gb unsigneds level true n hne hl hn hlen hU hF hW hfin hp
  exact ⟨ps, h1, C10.explains_gcd_exact _ (mergeSort_sorted unsigneds) level _ gb ps h2⟩

/-- an empty chunk: `Ok(vec![])` before anything else -/
theorem trainLit_empty {C : Type} (F : Floats) (O : CostOracle C) (pick : Nat → List HItem → Nat)
    (ub : Nat) (gb : Nat → Nat) (level : Nat) (gcds : Bool) (n : Nat) :
    trainLit F O pick ub gb [] level gcds n = .ok (some []) := rfl

/-- invalid arguments on a non-empty chunk: `Err(invalid argument)`, no panic -/
theorem trainLit_invalid {C : Type} (F : Floats) (O : CostOracle C) (pick : Nat → List HItem → Nat)
    (ub : Nat) (gb : Nat → Nat) (unsigneds : List Nat) (level : Nat) (gcds : Bool) (n : Nat)
    (hne : unsigneds ≠ []) (h : 12 < level ∨ MAX_ENTRIES < n) :
    trainLit F O pick ub gb unsigneds level gcds n = .ok none := by
  have he : unsigneds.isEmpty = false := by
    cases unsigneds with
    | nil => exact absurd rfl hne
    | cons _ _ => rfl
  unfold trainLit
  simp only [he, Bool.false_eq_true, if_false]
  rcases h with h | h
  · rw [if_pos h]
  · by_cases h' : 12 < level
    · rw [if_pos h']
    · rw [if_neg h', if_pos h]

/-! ## non-vacuity: concrete instances, by kernel evaluation -/

section Examples

/-- a cost type with a greatest element standing for `f64::MAX`, and an integer caricature of the library's
`prefix_bit_cost` (`base` = `base_meta_cost`): all candidate costs are finite -/
def natCost (base : Nat) : CostOracle (Option Nat) where
  zero := some 0
  top := none
  add := fun a b => some (a.getD 0 + b.getD 0)
  lt := fun a b => match a, b with
    | some x, some y => decide (x < y)
    | some _, none => true
    | none, _ => false
  pbc := fun lower upper weight total gcd =>
    some (base + (if gcd > 1 then Nat.log2 (upper - lower) + 1 else 0) + Nat.log2 (total / weight)
      + weight * (Nat.log2 ((upper - lower) / gcd + 1) + Nat.log2 (total / weight)))

theorem natCost_finite (base : Nat) : CostFinite (natCost base) := fun _ _ _ _ _ _ => rfl

/-- a cost whose comparisons all answer `false`, as with NaNs -/
def nanCost : CostOracle Nat where
  zero := 0
  top := 0
  add := (· + ·)
  lt := fun _ _ => false
  pbc := fun _ _ _ _ _ => 0

private def wp (count weight lower upper : Nat) (jump : Option Nat) (gcd : Nat) : WP :=
  { count := count, weight := weight, lower := lower, upper := upper, jump := jump, gcd := gcd }

/-- the ten numbers of `Qco/Train/Model.lean` -/
private def s1 : List Nat := [0, 0, 0, 0, 4, 8, 8, 12, 100, 100]
private def raws1 : List WP := [wp 4 4 0 0 none 1, wp 1 1 4 4 none 1, wp 2 2 8 8 none 1, wp 3 3 12 100 none 88]
private def gbEx : Nat → Nat := fun r => if r ≤ 1 then 0 else Nat.log2 (r - 1) + 1

-- L1: the literal quantile stage on `s1`, and the model's raw prefixes
example : chooseUnoptimizedLit Floats.exact s1 8 true = .ok raws1 := by decide
example : raws1.map WP.toRaw = rawPrefixes s1 8 true := by decide
-- its hypotheses hold there
example : s1.Pairwise (· ≤ ·) ∧ 1 ≤ s1.length ∧ s1.length ≤ 2 ^ 24 := by decide
-- L2's hypotheses hold on the result (through `unoptimized_fit_for_optimize`)
example : WOK raws1 ∧ (∀ p ∈ (raws1.map WP.toRaw).dropLast, p.upper + 1 < 2 ^ 32) ∧ OneJump raws1 :=
  unoptimized_fit_for_optimize Floats.exact 32 s1 (by decide) 8 true (by decide) (by decide)
    (floatsExact_agree _).2 raws1 (by decide) (by decide)
-- L2: two cost oracles, two different partitions of the same raw prefixes; divisors folded (4, 88)
example : optimizeLit (natCost 40) 32 raws1 true = .ok [wp 10 10 0 100 none 4] := by decide
example : optimizeLit (natCost 5) 32 raws1 true = .ok [wp 7 7 0 8 none 4, wp 3 3 12 100 none 88] := by decide
-- without GCDs nothing is folded, and the same oracle chooses another partition
example : optimizeLit (natCost 2) 32 (raws1.map fun p => { p with gcd := 1 }) false
    = .ok [wp 4 4 0 0 none 1, wp 3 3 4 8 none 1, wp 3 3 12 100 none 1] := by decide
-- L2: a run-length prefix (what `s2` of `Qco/Train/Model.lean` gives) stays alone although merging is cheap
example : optimizeLit (natCost 1000) 32 [wp 100 100 3 3 none 1, wp 1800 180 7 7 (some 4) 1, wp 100 100 9 9 none 1] true
    = .ok [wp 100 100 3 3 none 1, wp 1800 180 7 7 (some 4) 1, wp 100 100 9 9 none 1] := by decide
example : optimizeLit (natCost 1000) 32 [wp 100 100 3 3 none 1, wp 1800 180 7 7 none 1, wp 100 100 9 9 none 1] true
    = .ok [wp 2000 380 3 9 none 2] := by decide

/-- OBSERVATION: what `CostFinite` excludes.  If no candidate of a row compares below `f64::MAX` (NaN or
infinite costs, e.g. a weight 0 makes `avg_depth_bits` infinite), `best_j` keeps `usize::MAX` and
`best_paths[best_j]` is out of bounds.  Not reachable from `train_prefixes`: weights are `≥ 1`, costs finite. -/
theorem optimizeLit_nan_panics : optimizeLit nanCost 32 [wp 1 1 5 5 none 1] true = .panic := by decide

-- L3: the library's own test, with the first-minimum heap
example : makeHuffmanLit pickFirstMin [wp 0 1 0 0 none 1, wp 0 6 0 0 none 1, wp 0 2 0 0 none 1,
      wp 0 4 0 0 none 1, wp 0 5 0 0 none 1] =
    .ok [{ wp 0 1 0 0 none 1 with code := [false, false, false] }, { wp 0 6 0 0 none 1 with code := [true, true] },
      { wp 0 2 0 0 none 1 with code := [false, false, true] }, { wp 0 4 0 0 none 1 with code := [false, true] },
      { wp 0 5 0 0 none 1 with code := [true, false] }] := by decide

-- L4: the whole of `train_prefixes` on `s1` (already ascending, so that the kernel need not run the sort)
private def table1 : List Prefix :=
  [⟨7, 0, 8, [true], none, 4⟩, ⟨3, 12, 100, [false], none, 88⟩]

example : trainLit Floats.exact (natCost 5) pickFirstMin 32 gbEx s1 8 true 10 = .ok (some table1) := by
  unfold trainLit
  rw [List.mergeSort_of_pairwise (by decide)]
  decide
example : hasCommonLit true table1 = false := by decide
example : explains s1 8 true false gbEx table1 = true := by
  unfold explains explainsErr sortByLower
  rw [List.mergeSort_of_pairwise (by decide)]
  decide
-- with a 3-bit divisor field 88 does not fit: the post-pass records 1, and the judge expects exactly that
example : trainLit Floats.exact (natCost 5) pickFirstMin 32 (fun _ => 3) s1 8 true 10 =
    .ok (some [⟨7, 0, 8, [true], none, 4⟩, ⟨3, 12, 100, [false], none, 1⟩]) := by
  unfold trainLit
  rw [List.mergeSort_of_pairwise (by decide)]
  decide
-- one merged range: a common divisor field, no post-pass
example : trainLit Floats.exact (natCost 40) pickFirstMin 32 (fun _ => 0) s1 8 true 10 =
    .ok (some [⟨10, 0, 100, [], none, 4⟩]) ∧ hasCommonLit true [⟨10, 0, 100, [], none, 4⟩] = true := by
  constructor
  · unfold trainLit
    rw [List.mergeSort_of_pairwise (by decide)]
    decide
  · decide
-- the hypotheses of L4 hold on this instance
example : s1 ≠ [] ∧ 8 ≤ 12 ∧ 10 ≤ MAX_ENTRIES ∧ s1.length ≤ 10 ∧ (∀ x ∈ s1, x < 2 ^ 32) := by decide
example : FloatsAgree Floats.exact s1.length ∧ RunWeightOK Floats.exact s1.length ∧ CostFinite (natCost 5) ∧
    PickOK pickFirstMin :=
  ⟨(floatsExact_agree _).1, (floatsExact_agree _).2, natCost_finite 5, pickFirstMin_ok⟩

end Examples

end C10l
end Qco
