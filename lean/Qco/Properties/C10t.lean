/-
C10 (training side) — the prefix table the training stage answers satisfies the C10 predicate, for
EVERY answer of the float-driven oracles (which consecutive raw prefixes `optimize_prefixes`
merges; which codes `make_huffman_code` assigns). Property theorems only; the executable model is
`Qco/Train/Model.lean`.

  * T1 `train_wfc` (+ `train_structural`, `train_leaves`, `train_wfc_codes`): every merge of
    consecutive non-empty groups of the raw prefixes, with any codes forming a complete tree,
    satisfies `C10.WFc` w.r.t. any permutation of the sorted numbers. `rawPrefixes_length_le`:
    the quantile stage answers at most `max_n_pref ≤ 2^level` slices.
  * `merge_gcd_exact`: with the model's own `fold`, merged divisors are exact (C18(1)).
  * T3 `all_equal_single`.
  * T4 `dominant_own_prefix`, `dominant_own_prefix_count` (index form: `dominant_slice`),
    `dominant_jumpstart_partial`, `dominant_never_merged_partial`, `jumpstart_spec`.
  * T5 `explains_sound`, `explains_sound_perm`, `explains_gcd_exact`: the judge `Train.explains`
    implies `C10.WFc` and C18(1).
-/
import Qco.Properties.C10
import Qco.Properties.C18
import Qco.Train.Model
namespace Qco
namespace C10
open Train

/-! ## 1. slices of a sorted list -/

theorem mem_sliceOf {sorted : List Nat} {b e x : Nat} :
    x ∈ sliceOf sorted b e ↔ ∃ k, b ≤ k ∧ k < e ∧ sorted[k]? = some x := by
  unfold sliceOf
  rw [List.mem_iff_getElem?]
  constructor
  · rintro ⟨i, hi⟩
    rw [List.getElem?_take] at hi
    split at hi
    · rw [List.getElem?_drop] at hi
      exact ⟨b + i, by omega, by omega, hi⟩
    · cases hi
  · rintro ⟨k, hbk, hke, hk⟩
    refine ⟨k - b, ?_⟩
    rw [List.getElem?_take, if_pos (by omega), List.getElem?_drop]
    have : b + (k - b) = k := by omega
    rw [this]; exact hk

theorem length_sliceOf {sorted : List Nat} {b e : Nat} (he : e ≤ sorted.length) :
    (sliceOf sorted b e).length = e - b := by
  unfold sliceOf
  rw [List.length_take, List.length_drop]; omega

theorem sliceOf_append {sorted : List Nat} {a y b : Nat} (h1 : a ≤ y) (h2 : y ≤ b) :
    sliceOf sorted a y ++ sliceOf sorted y b = sliceOf sorted a b := by
  unfold sliceOf
  have hb : b - a = (y - a) + (b - y) := by omega
  rw [hb, List.take_add, List.drop_drop]
  have : a + (y - a) = y := by omega
  rw [this]

theorem sliceOf_full (sorted : List Nat) : sliceOf sorted 0 sorted.length = sorted := by
  simp [sliceOf]

theorem getD_eq_some {sorted : List Nat} {k : Nat} (hk : k < sorted.length) :
    sorted[k]? = some (sorted.getD k 0) := by
  rw [List.getD_eq_getElem?_getD, List.getElem?_eq_getElem hk]; rfl

theorem headD_sliceOf {sorted : List Nat} {b e : Nat} (hbe : b < e) :
    (sliceOf sorted b e).headD 0 = sorted.getD b 0 := by
  unfold sliceOf
  rw [List.headD_eq_head?_getD, List.head?_take, if_neg (by omega), List.head?_drop,
    List.getD_eq_getElem?_getD]

theorem getLastD_sliceOf {sorted : List Nat} {b e : Nat} (hbe : b < e) (he : e ≤ sorted.length) :
    (sliceOf sorted b e).getLastD 0 = sorted.getD (e - 1) 0 := by
  rw [List.getLastD_eq_getLast?, List.getLast?_eq_getElem?, length_sliceOf he]
  unfold sliceOf
  rw [List.getElem?_take, if_pos (by omega), List.getElem?_drop, List.getD_eq_getElem?_getD]
  have : b + (e - b - 1) = e - 1 := by omega
  rw [this]

/-! ## 2. a range description fits a segment of numbers -/

/-- `lower`/`upper` are the least/greatest member of the non-empty segment `S`, `count` its length,
`gcd ≥ 1` divides every member's distance from `lower` -/
structure Fits (count lower upper gcd : Nat) (S : List Nat) : Prop where
  ne : S ≠ []
  count_eq : count = S.length
  lower_mem : lower ∈ S
  upper_mem : upper ∈ S
  lower_le : ∀ x ∈ S, lower ≤ x
  le_upper : ∀ x ∈ S, x ≤ upper
  gcd_pos : 1 ≤ gcd
  gcd_dvd : ∀ x ∈ S, gcd ∣ x - lower

abbrev RFits (r : Raw) (S : List Nat) : Prop := Fits r.count r.lower r.upper r.gcd S

/-- sortedness, by positions -/
abbrev Mono (sorted : List Nat) : Prop :=
  ∀ (i j x y : Nat), i ≤ j → sorted[i]? = some x → sorted[j]? = some y → x ≤ y

theorem mono_of_pairwise {sorted : List Nat} (h : sorted.Pairwise (· ≤ ·)) : Mono sorted := by
  intro i j x y hij hx hy
  obtain ⟨hi, rfl⟩ := List.getElem?_eq_some_iff.mp hx
  obtain ⟨hj, rfl⟩ := List.getElem?_eq_some_iff.mp hy
  rcases Nat.lt_or_ge i j with hlt | hge
  · exact List.pairwise_iff_getElem.mp h i j hi hj hlt
  · have : i = j := by omega
    subst this; exact Nat.le_refl _

theorem sliceGcd_dvd (S : List Nat) (x : Nat) (hx : x ∈ S) : sliceGcd S ∣ x - S.headD 0 := by
  unfold sliceGcd
  simp only
  split
  · exact Nat.one_dvd _
  · cases S with
    | nil => cases hx
    | cons a t =>
      simp only [List.headD_cons, List.tail_cons]
      rcases List.mem_cons.mp hx with rfl | h
      · simp
      · exact foldl_gcd_dvd_mem (fun u => u - a) t _ x h

theorem sliceGcd_pos (S : List Nat) (h : S.headD 0 ≤ S.getLastD 0) : 1 ≤ sliceGcd S := by
  unfold sliceGcd
  simp only
  split
  · exact Nat.le_refl _
  · rename_i hne
    have hd := foldl_gcd_dvd_init (fun u => u - S.headD 0) S.tail (S.getLastD 0 - S.headD 0)
    exact Nat.pos_of_dvd_of_pos hd (by omega)

/-- greatest: any common divisor of the distances divides `sliceGcd` of a multi-valued slice -/
theorem dvd_sliceGcd (S : List Nat) (hne : S.headD 0 ≠ S.getLastD 0) (hl : S.getLastD 0 ∈ S) (d : Nat)
    (h : ∀ x ∈ S, d ∣ x - S.headD 0) : d ∣ sliceGcd S := by
  unfold sliceGcd
  simp only [if_neg hne]
  refine dvd_foldl_gcd (fun u => u - S.headD 0) S.tail _ d (h _ hl) ?_
  intro u hu
  exact h u (List.mem_of_mem_tail hu)

theorem mkRaw_fits {sorted : List Nat} (hm : Mono sorted) (gcds : Bool) {b e : Nat}
    (hbe : b < e) (he : e ≤ sorted.length) :
    RFits (mkRaw sorted gcds (b, e)) (sliceOf sorted b e) := by
  have hlen := length_sliceOf (sorted := sorted) (b := b) he
  have hlo : sorted.getD b 0 ∈ sliceOf sorted b e :=
    mem_sliceOf.mpr ⟨b, Nat.le_refl _, hbe, getD_eq_some (by omega)⟩
  have hup : sorted.getD (e - 1) 0 ∈ sliceOf sorted b e :=
    mem_sliceOf.mpr ⟨e - 1, by omega, by omega, getD_eq_some (by omega)⟩
  have hlole : ∀ x ∈ sliceOf sorted b e, sorted.getD b 0 ≤ x := by
    intro x hx
    obtain ⟨k, hbk, hke, hk⟩ := mem_sliceOf.mp hx
    exact hm b k _ _ hbk (getD_eq_some (by omega)) hk
  have hleup : ∀ x ∈ sliceOf sorted b e, x ≤ sorted.getD (e - 1) 0 := by
    intro x hx
    obtain ⟨k, hbk, hke, hk⟩ := mem_sliceOf.mp hx
    exact hm k (e - 1) _ _ (by omega) hk (getD_eq_some (by omega))
  refine ⟨?_, ?_, hlo, hup, hlole, hleup, ?_, ?_⟩
  · intro h; rw [h] at hlen; simp at hlen; omega
  · simp [mkRaw, hlen]
  · show 1 ≤ (if gcds = true then sliceGcd (sliceOf sorted b e) else 1)
    split
    · apply sliceGcd_pos
      rw [headD_sliceOf hbe, getLastD_sliceOf hbe he]
      exact hlole _ hup
    · exact Nat.le_refl _
  · intro x hx
    show (if gcds = true then sliceGcd (sliceOf sorted b e) else 1) ∣ x - sorted.getD b 0
    split
    · rw [← headD_sliceOf (sorted := sorted) hbe]
      exact sliceGcd_dvd _ x hx
    · exact Nat.one_dvd _

/-! ## 3. the quantile slices as segments -/

/-- every member of `A` is below every member of `B` -/
def Sep (A B : List Nat) : Prop := ∀ a ∈ A, ∀ b ∈ B, a < b

theorem chain_bounds : ∀ (l : List (Nat × Nat)) (a b : Nat), Chain l a b →
    a ≤ b ∧ ∀ p ∈ l, a ≤ p.1 ∧ p.1 < p.2 ∧ p.2 ≤ b
  | [], a, b, h => by
    simp only [Chain] at h
    exact ⟨by omega, by simp⟩
  | (x, y) :: rest, a, b, h => by
    simp only [Chain] at h
    obtain ⟨hxa, hxy, hr⟩ := h
    obtain ⟨h1, h2⟩ := chain_bounds rest y b hr
    refine ⟨by omega, ?_⟩
    intro p hp
    rcases List.mem_cons.mp hp with rfl | hp
    · exact ⟨by simp; omega, hxy, h1⟩
    · have := h2 p hp
      omega

theorem slices_flatten (sorted : List Nat) : ∀ (l : List (Nat × Nat)) (a b : Nat), Chain l a b →
    (l.map fun be => sliceOf sorted be.1 be.2).flatten = sliceOf sorted a b
  | [], a, b, h => by
    simp only [Chain] at h
    subst h
    simp [sliceOf]
  | (x, y) :: rest, a, b, h => by
    have hb := (chain_bounds _ a b h)
    simp only [Chain] at h
    obtain ⟨hxa, hxy, hr⟩ := h
    have hyb := (chain_bounds rest y b hr).1
    subst hxa
    simp only [List.map_cons, List.flatten_cons]
    rw [slices_flatten sorted rest y b hr]
    exact sliceOf_append (by omega) hyb

theorem slices_sep {sorted : List Nat} (hm : Mono sorted) :
    ∀ (l : List (Nat × Nat)) (a b : Nat), Chain l a b → b ≤ sorted.length →
    (∀ p ∈ l, p.2 = b ∨ Boundary (fun i => sorted.getD i 0) p.2) →
    List.Pairwise Sep (l.map fun be => sliceOf sorted be.1 be.2)
  | [], _, _, _, _, _ => by simp
  | (x, y) :: rest, a, b, h, hbn, hbd => by
    simp only [Chain] at h
    obtain ⟨hxa, hxy, hr⟩ := h
    simp only [List.map_cons, List.pairwise_cons]
    refine ⟨?_, slices_sep hm rest y b hr hbn (fun p hp => hbd p (List.mem_cons_of_mem _ hp))⟩
    intro S' hS'
    obtain ⟨p, hp, rfl⟩ := List.mem_map.mp hS'
    obtain ⟨hp1, hp2, hp3⟩ := (chain_bounds rest y b hr).2 p hp
    have hyb : y < b := by omega
    have hbdy : Boundary (fun i => sorted.getD i 0) y := by
      rcases hbd (x, y) List.mem_cons_self with h | h
      · simp only at h; omega
      · exact h
    intro u hu w hw
    obtain ⟨k, hk1, hk2, hk⟩ := mem_sliceOf.mp hu
    obtain ⟨k', hk1', hk2', hk'⟩ := mem_sliceOf.mp hw
    have h1 : u ≤ sorted.getD (y - 1) 0 := hm k (y - 1) _ _ (by omega) hk (getD_eq_some (by omega))
    have h2 : sorted.getD (y - 1) 0 ≤ sorted.getD y 0 :=
      hm (y - 1) y _ _ (by omega) (getD_eq_some (by omega)) (getD_eq_some (by omega))
    have h3 : sorted.getD y 0 ≤ w := hm y k' _ _ (by omega) (getD_eq_some (by omega)) hk'
    have h4 : sorted.getD y 0 ≠ sorted.getD (y - 1) 0 := by
      rcases hbdy with h | h
      · omega
      · exact h
    omega

theorem chooseMax_le_n (level n : Nat) : chooseMaxNPrefixes level n ≤ n := Nat.min_le_right _ _

theorem chooseMax_pos (level n : Nat) (hn : 1 ≤ n) : 1 ≤ chooseMaxNPrefixes level n := by
  unfold chooseMaxNPrefixes
  simp only
  exact Nat.le_min.mpr ⟨Nat.one_le_two_pow, hn⟩

/-- at most `2^level` ranges -/
theorem chooseMax_le_pow (level n : Nat) : chooseMaxNPrefixes level n ≤ 2 ^ level := by
  unfold chooseMaxNPrefixes
  simp only
  exact Nat.le_trans (Nat.min_le_left _ _) (Nat.pow_le_pow_right (by omega) (Nat.sub_le _ _))

/-- the raw prefixes, each with the segment of `sorted` it was made from -/
def rawSegs (sorted : List Nat) (level : Nat) (gcds : Bool) : List (Raw × List Nat) :=
  if sorted.isEmpty then []
  else
    (cuts (fun i => sorted.getD i 0) sorted.length (chooseMaxNPrefixes level sorted.length)).map
      fun be => (mkRaw sorted gcds be, sliceOf sorted be.1 be.2)

theorem rawSegs_fst (sorted : List Nat) (level : Nat) (gcds : Bool) :
    (rawSegs sorted level gcds).map Prod.fst = rawPrefixes sorted level gcds := by
  unfold rawSegs rawPrefixes
  split
  · rfl
  · simp [List.map_map, Function.comp_def]

/-- the structural facts about the quantile stage the rest of the proof uses -/
structure Tiles (rs : List (Raw × List Nat)) (sorted : List Nat) : Prop where
  fits : ∀ x ∈ rs, RFits x.1 x.2
  sep : List.Pairwise Sep (rs.map Prod.snd)
  flat : (rs.map Prod.snd).flatten = sorted

theorem rawSegs_tiles {sorted : List Nat} (hs : sorted.Pairwise (· ≤ ·)) (level : Nat) (gcds : Bool) :
    Tiles (rawSegs sorted level gcds) sorted := by
  have hm := mono_of_pairwise hs
  unfold rawSegs
  split
  · rename_i he
    have : sorted = [] := by simpa using he
    subst this
    exact ⟨by simp, by simp, by simp⟩
  · rename_i he
    have hn : 1 ≤ sorted.length := by
      cases sorted with
      | nil => simp at he
      | cons _ _ => simp
    obtain ⟨hc, hb⟩ := cuts_tile (fun i => sorted.getD i 0) sorted.length
      (chooseMaxNPrefixes level sorted.length) (chooseMax_pos _ _ hn) (chooseMax_le_n _ _)
    generalize hl : cuts (fun i => sorted.getD i 0) sorted.length
      (chooseMaxNPrefixes level sorted.length) = l at hc
    have hbd : ∀ p ∈ l, p.2 = sorted.length ∨ Boundary (fun i => sorted.getD i 0) p.2 := by
      intro p hp
      rw [← hl] at hp
      simp only [cuts, CutSt.push, List.mem_append, List.mem_singleton] at hp
      rcases hp with hp | hp
      · exact Or.inr (hb p hp)
      · left; rw [hp]
    refine ⟨?_, ?_, ?_⟩
    · intro x hx
      obtain ⟨be, hbe, rfl⟩ := List.mem_map.mp hx
      obtain ⟨_, h2, h3⟩ := (chain_bounds l 0 _ hc).2 be hbe
      exact mkRaw_fits hm gcds h2 h3
    · rw [List.map_map]
      exact slices_sep hm l 0 _ hc (Nat.le_refl _) hbd
    · rw [List.map_map]
      have := slices_flatten sorted l 0 _ hc
      rw [sliceOf_full] at this
      exact this

/-! ## 4. merging a group of consecutive raw prefixes -/

/-- with `none` read as 0 (the unit of `gcd`), `fold_prefix_gcds_left` is two `gcd`s -/
theorem foldGcdLeft_getD (l u g U : Nat) (acc : Option Nat) :
    (foldGcdLeft l u g U acc).getD 0
      = Nat.gcd (if u ≠ l then g else 0) (Nat.gcd (U - u) (acc.getD 0)) := by
  unfold foldGcdLeft
  by_cases h1 : u = U
  · subst h1
    by_cases h2 : u = l
    · subst h2; cases acc <;> simp
    · cases acc <;> simp [h2]
  · by_cases h2 : u = l
    · subst h2; cases acc <;> simp [h1]
    · cases acc <;> simp [h1, h2]

theorem foldGcdLeft_pos (l u g U : Nat) (acc : Option Nat) (hu : u ≤ U) (hg : 1 ≤ g)
    (h : ∀ d, acc = some d → 1 ≤ d) : ∀ d, foldGcdLeft l u g U acc = some d → 1 ≤ d := by
  intro d hd
  have key : ∀ a b : Nat, 1 ≤ b → 1 ≤ Nat.gcd a b := fun a b hb => Nat.gcd_pos_of_pos_right a hb
  unfold foldGcdLeft at hd
  by_cases h1 : u = U
  · subst h1
    by_cases h2 : u = l
    · subst h2
      simp only [ne_eq, not_true_eq_false, if_false] at hd
      exact h d hd
    · simp only [ne_eq, not_true_eq_false, if_false, h2, not_false_eq_true, if_true,
        Option.some.injEq] at hd
      cases hacc : acc with
      | none => rw [hacc] at hd; simp only at hd; omega
      | some a => rw [hacc] at hd; simp only at hd; subst hd; exact key _ _ (h a hacc)
  · have hpos : 1 ≤ U - u := by omega
    by_cases h2 : u = l
    · subst h2
      simp only [ne_eq, h1, not_false_eq_true, if_true, not_true_eq_false, if_false,
        Option.some.injEq] at hd
      cases hacc : acc with
      | none => rw [hacc] at hd; simp only at hd; omega
      | some a => rw [hacc] at hd; simp only at hd; subst hd; exact key _ _ (h a hacc)
    · simp only [ne_eq, h1, h2, not_false_eq_true, if_true, Option.some.injEq] at hd
      cases hacc : acc with
      | none => rw [hacc] at hd; simp only at hd; subst hd; exact key _ _ hpos
      | some a => rw [hacc] at hd; simp only at hd; subst hd; exact key _ _ (key _ _ (h a hacc))

theorem foldAcc_cons (U : Nat) (r : Raw) (rs : List Raw) :
    foldAcc U (r :: rs) = foldGcdLeft r.lower r.upper r.gcd U (foldAcc U rs) := rfl

theorem foldAcc_inv (U : Nat) : ∀ (g : List (Raw × List Nat)), (∀ x ∈ g, RFits x.1 x.2) →
    (∀ x ∈ g, x.1.upper ≤ U) →
    (∀ d, foldAcc U (g.map Prod.fst) = some d → 1 ≤ d) ∧
    (∀ x ∈ g, ∀ y ∈ x.2, (foldAcc U (g.map Prod.fst)).getD 0 ∣ U - y)
  | [], _, _ => by simp [foldAcc]
  | (r, S) :: t, hf, hu => by
    obtain ⟨ih1, ih2⟩ := foldAcc_inv U t (fun x hx => hf x (List.mem_cons_of_mem _ hx))
      (fun x hx => hu x (List.mem_cons_of_mem _ hx))
    have hfr : RFits r S := hf (r, S) List.mem_cons_self
    have hur : r.upper ≤ U := hu (r, S) List.mem_cons_self
    simp only [List.map_cons, foldAcc_cons]
    refine ⟨foldGcdLeft_pos _ _ _ _ _ hur hfr.gcd_pos ih1, ?_⟩
    rw [foldGcdLeft_getD]
    intro x hx y hy
    rcases List.mem_cons.mp hx with rfl | hx
    · have hyl := hfr.lower_le y hy
      have hyu := hfr.le_upper y hy
      have hB : Nat.gcd (if r.upper ≠ r.lower then r.gcd else 0)
          (Nat.gcd (U - r.upper) ((foldAcc U (t.map Prod.fst)).getD 0)) ∣ U - r.upper :=
        Nat.dvd_trans (Nat.gcd_dvd_right _ _) (Nat.gcd_dvd_left _ _)
      by_cases hul : r.upper = r.lower
      · have : y = r.upper := by omega
        rw [this]; exact hB
      · have hA : Nat.gcd (if r.upper ≠ r.lower then r.gcd else 0)
            (Nat.gcd (U - r.upper) ((foldAcc U (t.map Prod.fst)).getD 0)) ∣ r.gcd := by
          have := Nat.gcd_dvd_left (if r.upper ≠ r.lower then r.gcd else 0)
            (Nat.gcd (U - r.upper) ((foldAcc U (t.map Prod.fst)).getD 0))
          simpa [hul] using this
        have h1 : r.gcd ∣ r.upper - y := by
          have e : r.upper - y = (r.upper - r.lower) - (y - r.lower) := by omega
          rw [e]
          exact Nat.dvd_sub (hfr.gcd_dvd _ hfr.upper_mem) (hfr.gcd_dvd y hy)
        have e : U - y = (U - r.upper) + (r.upper - y) := by omega
        rw [e]
        exact Nat.dvd_add hB (Nat.dvd_trans hA h1)
    · exact Nat.dvd_trans (Nat.dvd_trans (Nat.gcd_dvd_right _ _) (Nat.gcd_dvd_right _ _)) (ih2 x hx y hy)

theorem mem_segs_flatten {g : List (Raw × List Nat)} {y : Nat} :
    y ∈ (g.map Prod.snd).flatten ↔ ∃ x ∈ g, y ∈ x.2 := by
  simp only [List.mem_flatten, List.mem_map]
  constructor
  · rintro ⟨S, ⟨x, hx, rfl⟩, hy⟩; exact ⟨x, hx, hy⟩
  · rintro ⟨x, hx, hy⟩; exact ⟨x.2, ⟨x, hx, rfl⟩, hy⟩

theorem sum_counts : ∀ (g : List (Raw × List Nat)), (∀ x ∈ g, RFits x.1 x.2) →
    ((g.map Prod.fst).map (·.count)).sum = (g.map Prod.snd).flatten.length
  | [], _ => rfl
  | x :: t, hf => by
    simp only [List.map_cons, List.sum_cons, List.flatten_cons, List.length_append]
    rw [sum_counts t (fun x hx => hf x (List.mem_cons_of_mem _ hx)),
      (hf x List.mem_cons_self).count_eq]

/-- the merged prefix of a group fits the concatenation of the group's segments -/
theorem mergeGroup_fits (fold : Bool) (g : List (Raw × List Nat)) (hne : g ≠ [])
    (hf : ∀ x ∈ g, RFits x.1 x.2) (hs : List.Pairwise Sep (g.map Prod.snd)) :
    RFits (mergeGroup fold (g.map Prod.fst)) (g.map Prod.snd).flatten := by
  -- the first raw prefix
  have hL : ∃ x0 ∈ g, (mergeGroup fold (g.map Prod.fst)).lower = x0.1.lower ∧
      ∀ x ∈ g, x = x0 ∨ Sep x0.2 x.2 := by
    cases g with
    | nil => exact absurd rfl hne
    | cons x0 t =>
      refine ⟨x0, List.mem_cons_self, rfl, ?_⟩
      intro x hx
      rcases List.mem_cons.mp hx with h | h
      · exact Or.inl h
      · right
        simp only [List.map_cons, List.pairwise_cons] at hs
        exact hs.1 x.2 (List.mem_map_of_mem h)
  -- the last raw prefix
  have hU : ∃ xl ∈ g, (mergeGroup fold (g.map Prod.fst)).upper = xl.1.upper ∧
      ∀ x ∈ g, x = xl ∨ Sep x.2 xl.2 := by
    rcases List.eq_nil_or_concat g with h | ⟨init, xl, h⟩
    · exact absurd h hne
    · rw [List.concat_eq_append] at h
      subst h
      refine ⟨xl, by simp, ?_, ?_⟩
      · simp [mergeGroup]
      · intro x hx
        rcases List.mem_append.mp hx with h | h
        · right
          rw [List.map_append, List.pairwise_append] at hs
          exact hs.2.2 x.2 (List.mem_map_of_mem h) xl.2 (by simp)
        · left; simpa using h
  obtain ⟨x0, hx0, hlo, hsep0⟩ := hL
  obtain ⟨xl, hxl, hup, hsepl⟩ := hU
  have hlole : ∀ y ∈ (g.map Prod.snd).flatten, x0.1.lower ≤ y := by
    intro y hy
    obtain ⟨x, hx, hyx⟩ := mem_segs_flatten.mp hy
    rcases hsep0 x hx with rfl | h
    · exact (hf _ hx).lower_le y hyx
    · exact Nat.le_of_lt (h _ (hf _ hx0).lower_mem y hyx)
  have hleup : ∀ y ∈ (g.map Prod.snd).flatten, y ≤ xl.1.upper := by
    intro y hy
    obtain ⟨x, hx, hyx⟩ := mem_segs_flatten.mp hy
    rcases hsepl x hx with rfl | h
    · exact (hf _ hx).le_upper y hyx
    · exact Nat.le_of_lt (h y hyx _ (hf _ hxl).upper_mem)
  have hlomem : x0.1.lower ∈ (g.map Prod.snd).flatten :=
    mem_segs_flatten.mpr ⟨x0, hx0, (hf _ hx0).lower_mem⟩
  have hupmem : xl.1.upper ∈ (g.map Prod.snd).flatten :=
    mem_segs_flatten.mpr ⟨xl, hxl, (hf _ hxl).upper_mem⟩
  have hinv := foldAcc_inv xl.1.upper g hf
    (fun x hx => hleup _ (mem_segs_flatten.mpr ⟨x, hx, (hf _ hx).upper_mem⟩))
  have hgcd : (mergeGroup fold (g.map Prod.fst)).gcd
      = if fold then (foldAcc xl.1.upper (g.map Prod.fst)).getD 1 else 1 := by
    rw [← hup]; rfl
  refine ⟨?_, ?_, ?_, ?_, ?_, ?_, ?_, ?_⟩
  · intro h; rw [h] at hlomem; cases hlomem
  · exact sum_counts g hf
  · rw [hlo]; exact hlomem
  · rw [hup]; exact hupmem
  · rw [hlo]; exact hlole
  · rw [hup]; exact hleup
  · rw [hgcd]
    split
    · cases hacc : foldAcc xl.1.upper (g.map Prod.fst) with
      | none => simp
      | some d => simpa using hinv.1 d hacc
    · exact Nat.le_refl _
  · intro y hy
    rw [hgcd, hlo]
    split
    · cases hacc : foldAcc xl.1.upper (g.map Prod.fst) with
      | none => simp
      | some d =>
        simp only [Option.getD_some]
        obtain ⟨x, hx, hyx⟩ := mem_segs_flatten.mp hy
        have h1 := hinv.2 x hx y hyx
        have h2 := hinv.2 x0 hx0 _ (hf _ hx0).lower_mem
        rw [hacc] at h1 h2
        simp only [Option.getD_some] at h1 h2
        have e : y - x0.1.lower = (xl.1.upper - x0.1.lower) - (xl.1.upper - y) := by
          have := hlole y hy; have := hleup y hy; omega
        rw [e]
        exact Nat.dvd_sub h2 h1
    · exact Nat.one_dvd _

/-! ## 5. a table whose ranges fit separated segments satisfies the C10 conjuncts -/

abbrev PFits (p : Prefix) (S : List Nat) : Prop := Fits p.count p.lower p.upper p.gcd S

theorem mem_snd_flatten {α : Type} {t : List (α × List Nat)} {y : Nat} :
    y ∈ (t.map Prod.snd).flatten ↔ ∃ x ∈ t, y ∈ x.2 := by
  simp only [List.mem_flatten, List.mem_map]
  constructor
  · rintro ⟨S, ⟨x, hx, rfl⟩, hy⟩; exact ⟨x, hx, hy⟩
  · rintro ⟨x, hx, hy⟩; exact ⟨x.2, ⟨x, hx, rfl⟩, hy⟩

theorem contains_of_fits {p : Prefix} {S : List Nat} (h : PFits p S) (u : Nat) (hu : u ∈ S) :
    p.contains u = true := by
  simp [Prefix.contains, h.lower_le u hu, h.le_upper u hu]

/-- the members of the whole chunk inside a range are exactly the range's segment -/
theorem filter_segs (t : List (Prefix × List Nat)) (hf : ∀ x ∈ t, PFits x.1 x.2)
    (hs : List.Pairwise Sep (t.map Prod.snd)) (x : Prefix × List Nat) (hx : x ∈ t) :
    ((t.map Prod.snd).flatten).filter x.1.contains = x.2 := by
  obtain ⟨pre, post, rfl⟩ := List.mem_iff_append.mp hx
  have hfx := hf x hx
  simp only [List.map_append, List.map_cons, List.pairwise_append, List.pairwise_cons] at hs
  obtain ⟨_, ⟨hpost, _⟩, hpre⟩ := hs
  simp only [List.map_append, List.map_cons, List.flatten_append, List.flatten_cons,
    List.filter_append]
  have h1 : ((pre.map Prod.snd).flatten).filter x.1.contains = [] := by
    rw [List.filter_eq_nil_iff]
    intro a ha
    obtain ⟨z, hz, haz⟩ := mem_snd_flatten.mp ha
    have := hpre z.2 (List.mem_map_of_mem hz) x.2 List.mem_cons_self a haz _ hfx.lower_mem
    simp [Prefix.contains]; omega
  have h2 : x.2.filter x.1.contains = x.2 := by
    rw [List.filter_eq_self]
    exact contains_of_fits hfx
  have h3 : ((post.map Prod.snd).flatten).filter x.1.contains = [] := by
    rw [List.filter_eq_nil_iff]
    intro a ha
    obtain ⟨z, hz, haz⟩ := mem_snd_flatten.mp ha
    have := hpost z.2 (List.mem_map_of_mem hz) _ hfx.upper_mem a haz
    simp [Prefix.contains]; omega
  rw [h1, h2, h3]; simp

theorem disjoint_of_sep : ∀ (t : List (Prefix × List Nat)), (∀ x ∈ t, PFits x.1 x.2) →
    List.Pairwise Sep (t.map Prod.snd) → disjointB (t.map Prod.fst) = true
  | [], _, _ => rfl
  | x :: t, hf, hs => by
    simp only [List.map_cons, List.pairwise_cons] at hs
    simp only [List.map_cons, disjointB, Bool.and_eq_true, List.all_eq_true, Bool.or_eq_true,
      decide_eq_true_eq]
    refine ⟨?_, disjoint_of_sep t (fun z hz => hf z (List.mem_cons_of_mem _ hz)) hs.2⟩
    intro q hq
    obtain ⟨z, hz, rfl⟩ := List.mem_map.mp hq
    left
    exact hs.1 z.2 (List.mem_map_of_mem hz) _ (hf x List.mem_cons_self).upper_mem _
      (hf z (List.mem_cons_of_mem _ hz)).lower_mem

theorem table_wf (t : List (Prefix × List Nat)) (hf : ∀ x ∈ t, PFits x.1 x.2)
    (hs : List.Pairwise Sep (t.map Prod.snd)) :
    boundsOk (t.map Prod.fst) = true ∧ disjointB (t.map Prod.fst) = true ∧
    coverB (t.map Prod.fst) (t.map Prod.snd).flatten = true ∧
    countsB (t.map Prod.fst) (t.map Prod.snd).flatten = true ∧
    congruentB (t.map Prod.fst) (t.map Prod.snd).flatten = true := by
  refine ⟨?_, disjoint_of_sep t hf hs, ?_, ?_, ?_⟩
  · simp only [boundsOk, List.all_eq_true, decide_eq_true_eq]
    intro p hp
    obtain ⟨x, hx, rfl⟩ := List.mem_map.mp hp
    exact (hf x hx).le_upper _ (hf x hx).lower_mem
  · simp only [coverB, List.all_eq_true, List.any_eq_true]
    intro u hu
    obtain ⟨x, hx, hux⟩ := mem_snd_flatten.mp hu
    exact ⟨x.1, List.mem_map_of_mem hx, contains_of_fits (hf x hx) u hux⟩
  · simp only [countsB, List.all_eq_true, beq_iff_eq]
    intro p hp
    obtain ⟨x, hx, rfl⟩ := List.mem_map.mp hp
    rw [filter_segs t hf hs x hx]
    exact (hf x hx).count_eq
  · simp only [congruentB, List.all_eq_true, Bool.and_eq_true, decide_eq_true_eq, beq_iff_eq]
    intro p hp
    obtain ⟨x, hx, rfl⟩ := List.mem_map.mp hp
    rw [filter_segs t hf hs x hx]
    refine ⟨(hf x hx).gcd_pos, ?_⟩
    intro u hu
    exact Nat.mod_eq_zero_of_dvd ((hf x hx).gcd_dvd u hu)

/-! ## 6. from the oracle's groups to a table of (range, segment) pairs -/

theorem exists_pairs {α β γ : Type} (f : α → γ) (g : β → γ) :
    ∀ (l1 : List α) (l2 : List β), l1.map f = l2.map g →
    ∃ t : List (α × β), t.map Prod.fst = l1 ∧ t.map Prod.snd = l2 ∧ ∀ x ∈ t, f x.1 = g x.2
  | [], [], _ => ⟨[], rfl, rfl, by simp⟩
  | [], _ :: _, h => by simp at h
  | _ :: _, [], h => by simp at h
  | a :: l1, b :: l2, h => by
    simp only [List.map_cons, List.cons.injEq] at h
    obtain ⟨t, h1, h2, h3⟩ := exists_pairs f g l1 l2 h.2
    refine ⟨(a, b) :: t, by simp [h1], by simp [h2], ?_⟩
    intro x hx
    rcases List.mem_cons.mp hx with rfl | hx
    · exact h.1
    · exact h3 x hx

theorem lift_groups {α β : Type} (f : α → β) : ∀ (groups : List (List β)) (l : List α),
    groups.flatten = l.map f → ∃ gs : List (List α), gs.flatten = l ∧ gs.map (List.map f) = groups
  | [], l, h => by
    simp only [List.flatten_nil] at h
    have : l = [] := by simpa using h.symm
    exact ⟨[], by simp [this], rfl⟩
  | g :: groups, l, h => by
    simp only [List.flatten_cons] at h
    obtain ⟨l1, l2, rfl, h1, h2⟩ := List.map_eq_append_iff.mp h.symm
    obtain ⟨gs, h3, h4⟩ := lift_groups f groups l2 h2.symm
    exact ⟨l1 :: gs, by simp [h3], by simp [h1, h4]⟩

theorem pairwise_sep_groups : ∀ (gs : List (List (List Nat))), List.Pairwise Sep gs.flatten →
    List.Pairwise Sep (gs.map List.flatten) ∧ ∀ G ∈ gs, List.Pairwise Sep G
  | [], _ => by simp
  | G :: rest, h => by
    simp only [List.flatten_cons, List.pairwise_append] at h
    obtain ⟨hG, hrest, hcross⟩ := h
    obtain ⟨ih1, ih2⟩ := pairwise_sep_groups rest hrest
    constructor
    · simp only [List.map_cons, List.pairwise_cons]
      refine ⟨?_, ih1⟩
      intro B' hB'
      obtain ⟨H, hH, rfl⟩ := List.mem_map.mp hB'
      intro a ha b hb
      obtain ⟨A, hA, haA⟩ := List.mem_flatten.mp ha
      obtain ⟨B, hB, hbB⟩ := List.mem_flatten.mp hb
      exact hcross A hA B (List.mem_flatten.mpr ⟨H, hH, hB⟩) a haA b hbB
    · intro G' hG'
      rcases List.mem_cons.mp hG' with rfl | h
      · exact hG
      · exact ih2 G' h

/-- `p` records the range and count of `m`, with a divisor that divides `m`'s (any positive
divisor when the range is single-valued) -/
structure Weakens (p : Prefix) (m : Raw) : Prop where
  count : p.count = m.count
  lower : p.lower = m.lower
  upper : p.upper = m.upper
  gcd : p.gcd ∣ m.gcd ∨ (1 ≤ p.gcd ∧ p.lower = p.upper)

theorem pfits_of_weakens {p : Prefix} {m : Raw} {S : List Nat} (h : RFits m S) (w : Weakens p m) :
    PFits p S := by
  refine ⟨h.ne, w.count ▸ h.count_eq, w.lower ▸ h.lower_mem, w.upper ▸ h.upper_mem,
    w.lower ▸ h.lower_le, w.upper ▸ h.le_upper, ?_, ?_⟩
  · rcases w.gcd with hd | ⟨hp, _⟩
    · exact Nat.pos_of_dvd_of_pos hd h.gcd_pos
    · exact hp
  · intro x hx
    rcases w.gcd with hd | ⟨_, heq⟩
    · rw [w.lower]; exact Nat.dvd_trans hd (h.gcd_dvd x hx)
    · have h1 := h.lower_le x hx
      have h2 := h.le_upper x hx
      have : x - p.lower = 0 := by rw [w.lower]; rw [w.lower, w.upper] at heq; omega
      rw [this]; exact Nat.dvd_zero _

/-- core: any table whose entries weaken the merges of consecutive groups of the raw prefixes
satisfies the C10 conjuncts with respect to the sorted numbers -/
theorem merged_table_wf {rs : List (Raw × List Nat)} {sorted : List Nat} (ht : Tiles rs sorted)
    (fold : Bool) (pg : List (Prefix × List Raw))
    (hflat : (pg.map Prod.snd).flatten = rs.map Prod.fst)
    (hw : ∀ x ∈ pg, x.2 ≠ [] ∧ Weakens x.1 (mergeGroup fold x.2)) :
    boundsOk (pg.map Prod.fst) = true ∧ disjointB (pg.map Prod.fst) = true ∧
    coverB (pg.map Prod.fst) sorted = true ∧ countsB (pg.map Prod.fst) sorted = true ∧
    congruentB (pg.map Prod.fst) sorted = true := by
  obtain ⟨gs, hgs1, hgs2⟩ := lift_groups Prod.fst (pg.map Prod.snd) rs hflat
  obtain ⟨t, ht1, ht2, ht3⟩ := exists_pairs Prod.snd (List.map Prod.fst) pg gs hgs2.symm
  have hsepAll : List.Pairwise Sep (gs.map (List.map Prod.snd)).flatten := by
    rw [← List.map_flatten, hgs1]; exact ht.sep
  obtain ⟨hsep1, hsep2⟩ := pairwise_sep_groups _ hsepAll
  let t' : List (Prefix × List Nat) := t.map fun x => (x.1.1, (x.2.map Prod.snd).flatten)
  have hfst : t'.map Prod.fst = pg.map Prod.fst := by
    simp only [t', List.map_map, Function.comp_def, ← ht1]
  have hsnd : t'.map Prod.snd = (gs.map (List.map Prod.snd)).map List.flatten := by
    simp only [t', List.map_map, Function.comp_def, ← ht2]
  have hflat' : (t'.map Prod.snd).flatten = sorted := by
    rw [hsnd, ← List.flatten_flatten, ← List.map_flatten, hgs1]; exact ht.flat
  have hfits : ∀ x ∈ t', PFits x.1 x.2 := by
    intro x hx
    obtain ⟨y, hy, rfl⟩ := List.mem_map.mp hx
    have hy1 : y.1 ∈ pg := ht1 ▸ List.mem_map_of_mem hy
    have hy2 : y.2 ∈ gs := ht2 ▸ List.mem_map_of_mem hy
    obtain ⟨hne, hwk⟩ := hw y.1 hy1
    have heq := ht3 y hy
    rw [heq] at hne hwk
    have hne' : y.2 ≠ [] := by intro h; rw [h] at hne; exact hne rfl
    have hmf := mergeGroup_fits fold y.2 hne'
      (fun z hz => ht.fits z (hgs1 ▸ List.mem_flatten.mpr ⟨y.2, hy2, hz⟩))
      (hsep2 _ (List.mem_map_of_mem hy2))
    exact pfits_of_weakens hmf hwk
  have := table_wf t' hfits (hsnd ▸ hsep1)
  rw [hfst, hflat'] at this
  exact this

/-! ## 7. the quantile stage answers at most `max_n_pref` slices -/

structure CntInv (maxN : Nat) (st : CutSt) : Prop where
  len_le : st.acc.length ≤ st.idx
  idx_lt : st.idx < maxN

theorem idx_succ_lt {idx n maxN j : Nat} (h1 : 1 ≤ maxN) (hj : j < n)
    (ht : (idx + 1) * n / maxN ≤ j) : idx + 1 < maxN := by
  apply Nat.lt_of_not_ge
  intro hge
  have h2 : n * maxN ≤ (idx + 1) * n := by
    rw [Nat.mul_comm n maxN]; exact Nat.mul_le_mul_right n hge
  have := (Nat.le_div_iff_mul_le (by omega : 0 < maxN)).mpr h2
  omega

theorem quot_lt {e n maxN : Nat} (he : e < n) (h1 : 1 ≤ maxN) : e * maxN / n < maxN := by
  rw [Nat.div_lt_iff_lt_mul (by omega), Nat.mul_comm maxN n]
  exact Nat.mul_lt_mul_of_pos_right he (by omega)

theorem cntInv_push {n maxN : Nat} {st : CutSt} {e j : Nat} (h1 : 1 ≤ maxN) (inv : CntInv maxN st)
    (hej : e ≤ j) (hj : j < n) (ht : (st.idx + 1) * n / maxN ≤ j) :
    CntInv maxN (st.push n maxN e) := by
  have := idx_succ_lt h1 hj ht
  have := quot_lt (e := e) (n := n) (by omega) h1
  have := inv.len_le
  constructor
  · simp only [CutSt.push, List.length_append, List.length_singleton]; omega
  · simp only [CutSt.push]; omega

theorem cntInv_step (v : Nat → Nat) (n maxN : Nat) (h1 : 1 ≤ maxN) (j : Nat) (hj : j < n)
    (st : CutSt) (ci : CutInv v j st) (inv : CntInv maxN st) :
    CntInv maxN (cutStep v n maxN st j) := by
  unfold cutStep
  simp only
  split
  · rename_i hrun
    split
    · rename_i hcut
      have hb : st.backup ≤ j := by rcases ci.backup_lt with h | h <;> omega
      exact cntInv_push h1 inv hb hj hcut.1
    · exact inv
  · split
    · rename_i htj
      exact cntInv_push (st := { st with backup := j }) h1 ⟨inv.len_le, inv.idx_lt⟩ (Nat.le_refl j) hj htj
    · exact ⟨inv.len_le, inv.idx_lt⟩

theorem cntInv_run (v : Nat → Nat) (n maxN : Nat) (h1 : 1 ≤ maxN) (h2 : maxN ≤ n) :
    ∀ j, j ≤ n → CntInv maxN (cutRun v n maxN j)
  | 0, _ => ⟨by simp [cutRun], by simp [cutRun]; omega⟩
  | j + 1, hj =>
    cntInv_step v n maxN h1 j (by omega) _ (cutInv_run v n maxN h1 h2 j)
      (cntInv_run v n maxN h1 h2 j (by omega))

theorem cuts_length_le (v : Nat → Nat) (n maxN : Nat) (h1 : 1 ≤ maxN) (h2 : maxN ≤ n) :
    (cuts v n maxN).length ≤ maxN := by
  have inv := cntInv_run v n maxN h1 h2 n (Nat.le_refl _)
  have := inv.len_le
  have := inv.idx_lt
  simp only [cuts, CutSt.push, List.length_append, List.length_singleton]
  omega


/-- `choose_unoptimized_prefixes` answers at most `max_n_pref` raw prefixes -/
theorem rawPrefixes_length_le (sorted : List Nat) (level : Nat) (gcds : Bool) :
    (rawPrefixes sorted level gcds).length ≤ chooseMaxNPrefixes level sorted.length := by
  unfold rawPrefixes
  split
  · simp
  · rename_i he
    have hn : 1 ≤ sorted.length := by
      cases sorted with
      | nil => simp at he
      | cons _ _ => simp
    simp only [List.length_map]
    exact cuts_length_le _ _ _ (chooseMax_pos _ _ hn) (chooseMax_le_n _ _)

theorem length_le_flatten {α : Type} : ∀ (groups : List (List α)), (∀ g ∈ groups, g ≠ []) →
    groups.length ≤ groups.flatten.length
  | [], _ => by simp
  | g :: rest, h => by
    have := length_le_flatten rest (fun g hg => h g (List.mem_cons_of_mem _ hg))
    have : 1 ≤ g.length := by
      cases g with
      | nil => exact absurd rfl (h [] List.mem_cons_self)
      | cons _ _ => simp
    simp only [List.flatten_cons, List.length_append, List.length_cons]
    omega

/-! ## 8. permutation invariance -/

theorem coverB_perm_us (ps : List Prefix) {us us' : List Nat} (h : us.Perm us') :
    coverB ps us = coverB ps us' := h.all_eq

theorem countsB_perm_us (ps : List Prefix) {us us' : List Nat} (h : us.Perm us') :
    countsB ps us = countsB ps us' := by
  unfold countsB
  congr 1; funext p
  rw [(h.filter p.contains).length_eq]

theorem congruentB_perm_us (ps : List Prefix) {us us' : List Nat} (h : us.Perm us') :
    congruentB ps us = congruentB ps us' := by
  unfold congruentB
  congr 1; funext p
  rw [(h.filter p.contains).all_eq]

theorem disjointB_iff_pairwise : ∀ (ps : List Prefix), disjointB ps = true ↔
    List.Pairwise (fun p q : Prefix => p.upper < q.lower ∨ q.upper < p.lower) ps
  | [] => by simp [disjointB]
  | p :: ps => by
    simp only [disjointB, Bool.and_eq_true, List.all_eq_true, Bool.or_eq_true, decide_eq_true_eq,
      List.pairwise_cons, disjointB_iff_pairwise ps]

theorem disjointB_perm {ps ps' : List Prefix} (h : ps.Perm ps') : disjointB ps = disjointB ps' := by
  rw [Bool.eq_iff_iff, disjointB_iff_pairwise, disjointB_iff_pairwise]
  exact h.pairwise_iff (fun h => h.symm)

theorem coverB_perm_ps {ps ps' : List Prefix} (h : ps.Perm ps') (us : List Nat) :
    coverB ps us = coverB ps' us := by
  unfold coverB
  congr 1; funext u
  exact h.any_eq

/-- the five structural conjuncts do not depend on the order of the table nor of the numbers -/
theorem structural_perm {ps ps' : List Prefix} {us us' : List Nat} (hp : ps.Perm ps') (hu : us.Perm us')
    (h : boundsOk ps = true ∧ disjointB ps = true ∧ coverB ps us = true ∧ countsB ps us = true ∧
      congruentB ps us = true) :
    boundsOk ps' = true ∧ disjointB ps' = true ∧ coverB ps' us' = true ∧ countsB ps' us' = true ∧
      congruentB ps' us' = true := by
  obtain ⟨h1, h2, h3, h4, h5⟩ := h
  refine ⟨?_, ?_, ?_, ?_, ?_⟩
  · unfold boundsOk at h1 ⊢; rw [← hp.all_eq]; exact h1
  · rw [← disjointB_perm hp]; exact h2
  · rw [← coverB_perm_ps hp, ← coverB_perm_us _ hu]; exact h3
  · rw [← countsB_perm_us _ hu]; unfold countsB at h4 ⊢; rw [← hp.all_eq]; exact h4
  · rw [← congruentB_perm_us _ hu]; unfold congruentB at h5 ⊢; rw [← hp.all_eq]; exact h5

/-! ## 9. T1 -/

theorem weakens_ofPrefix {p : Prefix} {m : Raw} (h : Raw.ofPrefix p = m) : Weakens p m := by
  subst h
  exact ⟨rfl, rfl, rfl, Or.inl (Nat.dvd_refl _)⟩

/-- T1, structural part: for every sorted list, every level, both values of the GCD flag and of
`fold`, every partition of the raw prefixes into consecutive non-empty groups (the oracle of
`optimize_prefixes`), every table `ps` whose entries are the merged groups with any codes (the
oracle of `make_huffman_code`), and any order `us` of the numbers -/
theorem train_structural (sorted : List Nat) (hs : sorted.Pairwise (· ≤ ·)) (level : Nat)
    (gcds fold : Bool) (groups : List (List Raw))
    (hflat : groups.flatten = rawPrefixes sorted level gcds) (hne : ∀ g ∈ groups, g ≠ [])
    (ps : List Prefix) (hps : ps.map Raw.ofPrefix = mergeAll fold groups)
    (us : List Nat) (hus : us.Perm sorted) :
    boundsOk ps = true ∧ disjointB ps = true ∧ coverB ps us = true ∧ countsB ps us = true ∧
    congruentB ps us = true := by
  have ht := rawSegs_tiles hs level gcds
  obtain ⟨pg, h1, h2, h3⟩ := exists_pairs Raw.ofPrefix (mergeGroup fold) ps groups hps
  have hw : ∀ x ∈ pg, x.2 ≠ [] ∧ Weakens x.1 (mergeGroup fold x.2) := by
    intro x hx
    exact ⟨hne _ (h2 ▸ List.mem_map_of_mem hx), weakens_ofPrefix (h3 x hx)⟩
  have := merged_table_wf ht fold pg (by rw [h2, hflat, rawSegs_fst]) hw
  rw [h1] at this
  exact structural_perm (List.Perm.refl _) hus.symm this

/-- merging only shrinks: at most `max_n_pref ≤ 2^level` ranges -/
theorem train_leaves (sorted : List Nat) (level : Nat) (gcds fold : Bool) (groups : List (List Raw))
    (hflat : groups.flatten = rawPrefixes sorted level gcds) (hne : ∀ g ∈ groups, g ≠ [])
    (ps : List Prefix) (hps : ps.map Raw.ofPrefix = mergeAll fold groups) :
    ps.length ≤ chooseMaxNPrefixes level sorted.length ∧
    chooseMaxNPrefixes level sorted.length ≤ 2 ^ level := by
  refine ⟨?_, chooseMax_le_pow _ _⟩
  have h1 : ps.length = groups.length := by
    have := congrArg List.length hps
    simpa [mergeAll] using this
  have h2 := length_le_flatten groups hne
  have h3 := rawPrefixes_length_le sorted level gcds
  rw [hflat] at h2
  omega

/-- **T1**: the trained table satisfies the whole C10 predicate, whatever the oracles answer -/
theorem train_wfc (sorted : List Nat) (hs : sorted.Pairwise (· ≤ ·)) (level : Nat)
    (gcds fold : Bool) (groups : List (List Raw))
    (hflat : groups.flatten = rawPrefixes sorted level gcds) (hne : ∀ g ∈ groups, g ≠ [])
    (ps : List Prefix) (hps : ps.map Raw.ofPrefix = mergeAll fold groups)
    (htree : treeB ps = true) (us : List Nat) (hus : us.Perm sorted) :
    WFc level ps us = true := by
  obtain ⟨h1, h2, h3, h4, h5⟩ :=
    train_structural sorted hs level gcds fold groups hflat hne ps hps us hus
  obtain ⟨h6, h7⟩ := train_leaves sorted level gcds fold groups hflat hne ps hps
  simp only [WFc, h1, h2, h3, h4, h5, htree, leavesB, Bool.and_self, Bool.true_and,
    decide_eq_true_eq]
  omega

theorem map_ofPrefix_zipWith : ∀ (rs : List Raw) (codes : List Bits), codes.length = rs.length →
    (List.zipWith Raw.toPrefix rs codes).map Raw.ofPrefix = rs
  | [], [], _ => rfl
  | [], _ :: _, h => by simp at h
  | _ :: _, [], h => by simp at h
  | r :: rs, c :: cs, h => by
    simp only [List.zipWith_cons_cons, List.map_cons, List.cons.injEq]
    exact ⟨rfl, map_ofPrefix_zipWith rs cs (by simpa using h)⟩

theorem map_code_zipWith : ∀ (rs : List Raw) (codes : List Bits), codes.length = rs.length →
    (List.zipWith Raw.toPrefix rs codes).map (·.code) = codes
  | [], [], _ => rfl
  | [], _ :: _, h => by simp at h
  | _ :: _, [], h => by simp at h
  | r :: rs, c :: cs, h => by
    simp only [List.zipWith_cons_cons, List.map_cons, List.cons.injEq]
    exact ⟨rfl, map_code_zipWith rs cs (by simpa using h)⟩

/-- T1 with the codes as an explicit oracle: one code per group, forming a complete tree (or no
group at all) -/
theorem train_wfc_codes (sorted : List Nat) (hs : sorted.Pairwise (· ≤ ·)) (level : Nat)
    (gcds fold : Bool) (groups : List (List Raw))
    (hflat : groups.flatten = rawPrefixes sorted level gcds) (hne : ∀ g ∈ groups, g ≠ [])
    (codes : List Bits) (hlen : codes.length = groups.length)
    (htree : codes = [] ∨ completeTree codes = true) (us : List Nat) (hus : us.Perm sorted) :
    WFc level (List.zipWith Raw.toPrefix (mergeAll fold groups) codes) us = true := by
  have hl : codes.length = (mergeAll fold groups).length := by simp [mergeAll, hlen]
  apply train_wfc sorted hs level gcds fold groups hflat hne _ (map_ofPrefix_zipWith _ _ hl) _ us hus
  unfold treeB
  rw [map_code_zipWith _ _ hl]
  rcases htree with h | h
  · subst h; simp
  · simp [h]

/-! ## 10. T5: the judge implies the predicate -/

theorem takeGroup_spec : ∀ (raws : List Raw) (U : Nat) (g rest : List Raw),
    takeGroup U raws = some (g, rest) → g ≠ [] ∧ g ++ rest = raws
  | [], _, _, _, h => by simp [takeGroup] at h
  | r :: raws, U, g, rest, h => by
    unfold takeGroup at h
    split at h
    · simp only [Option.some.injEq, Prod.mk.injEq] at h
      obtain ⟨rfl, rfl⟩ := h
      exact ⟨by simp, rfl⟩
    · split at h
      · rename_i g' t' heq
        simp only [Option.some.injEq, Prod.mk.injEq] at h
        obtain ⟨rfl, rfl⟩ := h
        obtain ⟨_, h2⟩ := takeGroup_spec raws U g' t' heq
        exact ⟨by simp, by simp [h2]⟩
      · cases h

theorem ite_some_eq_none {c : Prop} [Decidable c] {s : String} {r : Option String}
    (h : (if c then some s else r) = none) : ¬c ∧ r = none := by
  split at h
  · cases h
  · exact ⟨‹_›, h⟩

theorem checkGroup_weakens {fold hasCommon : Bool} {gb : Nat → Nat} {p : Prefix} {g : List Raw}
    (h : checkGroup fold hasCommon gb p g = none) : Weakens p (mergeGroup fold g) := by
  unfold checkGroup at h
  simp only at h
  obtain ⟨h1, h⟩ := ite_some_eq_none h
  obtain ⟨h2, h⟩ := ite_some_eq_none h
  obtain ⟨h3, h⟩ := ite_some_eq_none h
  obtain ⟨_, h⟩ := ite_some_eq_none h
  obtain ⟨_, h⟩ := ite_some_eq_none h
  obtain ⟨h6, h⟩ := ite_some_eq_none h
  refine ⟨by omega, by omega, by omega, ?_⟩
  by_cases hlu : p.lower = p.upper
  · exact Or.inr ⟨by omega, hlu⟩
  · left
    rw [if_neg hlu] at h
    obtain ⟨h7, _⟩ := ite_some_eq_none h
    have h7' : p.gcd = postGcd hasCommon gb p (mergeGroup fold g).gcd := by omega
    rw [h7']
    unfold postGcd
    split
    · exact Nat.one_dvd _
    · exact Nat.dvd_refl _

theorem walk_sound (fold hasCommon : Bool) (gb : Nat → Nat) : ∀ (ps : List Prefix) (raws : List Raw),
    walkErr fold hasCommon gb raws ps = none →
    ∃ pg : List (Prefix × List Raw), pg.map Prod.fst = ps ∧ (pg.map Prod.snd).flatten = raws ∧
      ∀ x ∈ pg, x.2 ≠ [] ∧ Weakens x.1 (mergeGroup fold x.2)
  | [], raws, h => by
    unfold walkErr at h
    split at h
    · rename_i he
      have : raws = [] := by simpa using he
      exact ⟨[], rfl, by simp [this], by simp⟩
    · cases h
  | p :: ps, raws, h => by
    unfold walkErr at h
    split at h
    · cases h
    · rename_i g rest htake
      split at h
      · cases h
      · rename_i hchk
        obtain ⟨hne, happ⟩ := takeGroup_spec raws _ g rest htake
        obtain ⟨pg, h1, h2, h3⟩ := walk_sound fold hasCommon gb ps rest h
        refine ⟨(p, g) :: pg, by simp [h1], by simp [h2, happ], ?_⟩
        intro x hx
        rcases List.mem_cons.mp hx with rfl | hx
        · exact ⟨hne, checkGroup_weakens hchk⟩
        · exact h3 x hx

/-- **T5**: a table the judge accepts satisfies the C10 predicate (with respect to the sorted
numbers the judge was given, hence to any order of them) -/
theorem explains_sound (sorted : List Nat) (hs : sorted.Pairwise (· ≤ ·)) (level : Nat)
    (gcds hasCommon : Bool) (gb : Nat → Nat) (observed : List Prefix)
    (h : explains sorted level gcds hasCommon gb observed = true) :
    WFc level observed sorted = true := by
  unfold explains explainsErr at h
  simp only [Option.isNone_iff_eq_none] at h
  obtain ⟨htree, h⟩ := ite_some_eq_none h
  obtain ⟨hlen, h⟩ := ite_some_eq_none h
  obtain ⟨pg, h1, h2, h3⟩ := walk_sound _ hasCommon gb _ _ h
  have ht := rawSegs_tiles hs level gcds
  have hstr := merged_table_wf ht _ pg (by rw [h2, rawSegs_fst]) h3
  rw [h1] at hstr
  have hperm : (sortByLower observed).Perm observed := List.mergeSort_perm _ _
  obtain ⟨b1, b2, b3, b4, b5⟩ := structural_perm hperm (List.Perm.refl sorted) hstr
  have hpow := chooseMax_le_pow level sorted.length
  have htree' : treeB observed = true := by simpa using htree
  simp only [WFc, b1, b2, b3, b4, b5, htree', leavesB, Bool.and_self, Bool.true_and,
    decide_eq_true_eq]
  omega

/-- T5 for any order of the numbers -/
theorem explains_sound_perm (sorted us : List Nat) (hs : sorted.Pairwise (· ≤ ·)) (hus : us.Perm sorted)
    (level : Nat) (gcds hasCommon : Bool) (gb : Nat → Nat) (observed : List Prefix)
    (h : explains sorted level gcds hasCommon gb observed = true) :
    WFc level observed us = true := by
  have := explains_sound sorted hs level gcds hasCommon gb observed h
  simp only [WFc, Bool.and_eq_true] at this ⊢
  obtain ⟨⟨⟨⟨⟨⟨h1, h2⟩, h3⟩, h4⟩, h5⟩, h6⟩, h7⟩ := this
  obtain ⟨b1, b2, b3, b4, b5⟩ := structural_perm (List.Perm.refl observed) hus.symm ⟨h1, h2, h3, h4, h5⟩
  exact ⟨⟨⟨⟨⟨⟨b1, b2⟩, b3⟩, b4⟩, b5⟩, h6⟩, h7⟩

/-! ## 11. T3: all numbers equal -/

/-- **T3**: when all numbers are equal the quantile stage answers a single raw prefix, single-valued,
holding everything, divisor 1, no jumpstart (so the table has one leaf: nothing to merge) -/
theorem all_equal_single (sorted : List Nat) (c : Nat) (hne : sorted ≠ [])
    (hall : ∀ x ∈ sorted, x = c) (level : Nat) (gcds : Bool) :
    rawPrefixes sorted level gcds =
      [{ count := sorted.length, lower := c, upper := c, gcd := 1, jump := none }] := by
  have hn : 1 ≤ sorted.length := by
    cases sorted with
    | nil => exact absurd rfl hne
    | cons _ _ => simp
  have hv : ∀ k, k < sorted.length → sorted.getD k 0 = c := by
    intro k hk
    have := getD_eq_some hk
    exact hall _ (List.mem_of_getElem? this)
  have he : sorted.isEmpty = false := by
    cases sorted with
    | nil => exact absurd rfl hne
    | cons _ _ => rfl
  have h1 := chooseMax_pos level sorted.length hn
  have h2 := chooseMax_le_n level sorted.length
  obtain ⟨hc, hb⟩ := cuts_tile (fun i => sorted.getD i 0) sorted.length _ h1 h2
  have inv := cutInv_run (fun i => sorted.getD i 0) sorted.length _ h1 h2 sorted.length
  have hcuts : cuts (fun i => sorted.getD i 0) sorted.length (chooseMaxNPrefixes level sorted.length)
      = (cutRun (fun i => sorted.getD i 0) sorted.length (chooseMaxNPrefixes level sorted.length)
          sorted.length).acc ++
        [((cutRun (fun i => sorted.getD i 0) sorted.length (chooseMaxNPrefixes level sorted.length)
          sorted.length).i, sorted.length)] := rfl
  generalize cutRun (fun i => sorted.getD i 0) sorted.length (chooseMaxNPrefixes level sorted.length)
    sorted.length = st at hb inv hcuts
  have hlast := (chain_bounds _ 0 _ hc).2 (st.i, sorted.length) (by rw [hcuts]; simp)
  have hacc : st.acc = [] := by
    apply List.eq_nil_iff_forall_not_mem.mpr
    intro p hp
    have hp' := (chain_bounds _ 0 _ inv.chain).2 p hp
    simp only at hlast
    rcases hb p hp with h | h
    · omega
    · exact h (by simp only; rw [hv _ (by omega), hv _ (by omega)])
  have hi : st.i = 0 := by
    have := inv.chain
    rw [hacc] at this
    simpa [Chain] using this.symm
  rw [hacc, hi, List.nil_append] at hcuts
  unfold rawPrefixes
  simp only [he, Bool.false_eq_true, if_false, hcuts, List.map_cons, List.map_nil, List.cons.injEq,
    and_true]
  have hslice : sliceGcd (sliceOf sorted 0 sorted.length) = 1 := by
    unfold sliceGcd
    simp only
    rw [if_pos]
    rw [headD_sliceOf (by omega), getLastD_sliceOf (by omega) (Nat.le_refl _),
      hv 0 (by omega), hv _ (by omega)]
  have e0 := hv 0 (by omega)
  have e1 := hv (sorted.length - 1) (by omega)
  simp only [mkRaw, usesRunLen, hslice, e0, e1]
  simp

/-! ## 12. T4 (partial): a dominant range gets a jumpstart and is never merged -/

theorem jumpstartGo_spec (n d : Nat) : ∀ (fuel j0 : Nat),
    j0 ≤ jumpstartGo n d fuel j0 ∧ jumpstartGo n d fuel j0 ≤ j0 + fuel ∧
    (jumpstartGo n d fuel j0 < j0 + fuel → n ≤ 2 ^ jumpstartGo n d fuel j0 * d) ∧
    ∀ k, j0 ≤ k → k < jumpstartGo n d fuel j0 → ¬ n ≤ 2 ^ k * d
  | 0, j0 => by
    simp only [jumpstartGo]
    exact ⟨Nat.le_refl _, by omega, by omega, fun k h1 h2 => by omega⟩
  | fuel + 1, j0 => by
    unfold jumpstartGo
    split
    · rename_i h
      exact ⟨Nat.le_refl _, by omega, fun _ => h, fun k h1 h2 => by omega⟩
    · rename_i h
      obtain ⟨i1, i2, i3, i4⟩ := jumpstartGo_spec n d fuel (j0 + 1)
      refine ⟨by omega, by omega, fun hlt => i3 (by omega), ?_⟩
      intro k hk1 hk2
      rcases Nat.eq_or_lt_of_le hk1 with rfl | hlt
      · exact h
      · exact i4 k hlt hk2

/-- the jumpstart is the least `j` with `2^j · (n − count) ≥ n`, capped at 24 -/
theorem jumpstart_spec (n count : Nat) :
    jumpstart n count ≤ 24 ∧
    (jumpstart n count < 24 → n ≤ 2 ^ jumpstart n count * (n - count)) ∧
    ∀ k, k < jumpstart n count → ¬ n ≤ 2 ^ k * (n - count) := by
  obtain ⟨_, h2, h3, h4⟩ := jumpstartGo_spec n (n - count) 24 0
  unfold jumpstart
  exact ⟨by omega, fun h => h3 (by omega), fun k hk => h4 k (Nat.zero_le _) hk⟩

/-- T4 (partial, a): a raw prefix holding ≥ 90 % but not all of ≥ 2000 numbers gets the jumpstart -/
theorem dominant_jumpstart_partial (sorted : List Nat) (level : Nat) (gcds : Bool) (r : Raw)
    (hr : r ∈ rawPrefixes sorted level gcds) (hn : sorted.length ≥ 2000)
    (hc : 10 * r.count ≥ 9 * sorted.length) (hne : r.count ≠ sorted.length) :
    r.jump = some (jumpstart sorted.length r.count) ∧ 4 ≤ jumpstart sorted.length r.count ∧
    jumpstart sorted.length r.count ≤ 24 := by
  unfold rawPrefixes at hr
  split at hr
  · cases hr
  · obtain ⟨be, _, rfl⟩ := List.mem_map.mp hr
    have hu : usesRunLen sorted.length (be.2 - be.1) = true := by
      simp only [mkRaw] at hc hne
      simp only [usesRunLen, Bool.and_eq_true, decide_eq_true_eq]
      omega
    refine ⟨by simp [mkRaw, hu], ?_, (jumpstart_spec _ _).1⟩
    apply Nat.le_of_not_lt
    intro hlt
    have h1 := (jumpstart_spec sorted.length (mkRaw sorted gcds be).count).2.1 (by omega)
    simp only [mkRaw] at hc hne h1 hlt
    have hpow : 2 ^ jumpstart sorted.length (be.2 - be.1) ≤ 8 := by
      have : jumpstart sorted.length (be.2 - be.1) ≤ 3 := by omega
      calc 2 ^ jumpstart sorted.length (be.2 - be.1) ≤ 2 ^ 3 := Nat.pow_le_pow_right (by omega) this
        _ = 8 := rfl
    have := Nat.mul_le_mul_right (sorted.length - (be.2 - be.1)) hpow
    omega

/-- T4 (partial, b): a raw prefix with a jumpstart is a group of its own in every grouping the
optimizer may choose (`soloJump` is what `start_j` enforces), and merging a group of one keeps
count, bounds and jumpstart: the observed table has that very range -/
theorem dominant_never_merged_partial (r : Raw) (j : Nat) (hj : r.jump = some j) (g : List Raw)
    (hg : soloJump g = true) (hr : r ∈ g) (fold : Bool) :
    g = [r] ∧ (mergeGroup fold g).count = r.count ∧ (mergeGroup fold g).lower = r.lower ∧
    (mergeGroup fold g).upper = r.upper ∧ (mergeGroup fold g).jump = some j := by
  have hg1 : g = [r] := by
    simp only [soloJump, Bool.or_eq_true, beq_iff_eq, List.all_eq_true] at hg
    rcases hg with h | h
    · match g, h, hr with
      | [a], _, hr =>
        have : r = a := by simpa using hr
        rw [this]
    · have := h r hr
      simp [hj] at this
  subst hg1
  simp [mergeGroup, hj]

/-! ## 13. T4 (full): a dominant value is a slice of its own -/

/-- quantitative invariant of the quantile loop: `prefix_idx` never runs ahead of the position -/
theorem qinv_push {n maxN idx e j : Nat} (h1 : 1 ≤ maxN) (hej : e ≤ j)
    (ht : (idx + 1) * n / maxN ≤ j) : max (idx + 1) (e * maxN / n) * n ≤ (j + 1) * maxN := by
  have ha : (idx + 1) * n < (j + 1) * maxN := by
    have : (idx + 1) * n / maxN < j + 1 := by omega
    exact (Nat.div_lt_iff_lt_mul (by omega)).mp this
  have hb : e * maxN / n * n ≤ (j + 1) * maxN :=
    Nat.le_trans (Nat.div_mul_le_self _ _) (Nat.mul_le_mul_right _ (by omega))
  rcases Nat.le_total (idx + 1) (e * maxN / n) with h | h
  · rw [Nat.max_eq_right h]; exact hb
  · rw [Nat.max_eq_left h]; omega

theorem qinv_step (v : Nat → Nat) (n maxN : Nat) (h1 : 1 ≤ maxN) (j : Nat)
    (st : CutSt) (ci : CutInv v j st) (h : st.idx * n ≤ j * maxN) :
    (cutStep v n maxN st j).idx * n ≤ (j + 1) * maxN := by
  have hkeep : st.idx * n ≤ (j + 1) * maxN := by rw [Nat.add_mul]; omega
  unfold cutStep
  simp only
  split
  · split
    · rename_i hrun hcut
      have hb : st.backup ≤ j := by rcases ci.backup_lt with h | h <;> omega
      exact qinv_push h1 hb hcut.1
    · exact hkeep
  · split
    · rename_i htj
      exact qinv_push h1 (Nat.le_refl j) htj
    · exact hkeep

theorem qinv_run (v : Nat → Nat) (n maxN : Nat) (h1 : 1 ≤ maxN) (h2 : maxN ≤ n) :
    ∀ j, (cutRun v n maxN j).idx * n ≤ j * maxN
  | 0 => by simp [cutRun]
  | j + 1 => qinv_step v n maxN h1 j _ (cutInv_run v n maxN h1 h2 j) (qinv_run v n maxN h1 h2 j)

/-- slices already pushed stay -/
theorem acc_mono_step (v : Nat → Nat) (n maxN : Nat) (st : CutSt) (j : Nat) (p : Nat × Nat)
    (hp : p ∈ st.acc) : p ∈ (cutStep v n maxN st j).acc := by
  unfold cutStep
  simp only
  split
  · split
    · simp [CutSt.push, hp]
    · exact hp
  · split
    · simp [CutSt.push, hp]
    · exact hp

theorem acc_mono (v : Nat → Nat) (n maxN : Nat) (j : Nat) (p : Nat × Nat)
    (hp : p ∈ (cutRun v n maxN j).acc) : ∀ d, p ∈ (cutRun v n maxN (j + d)).acc
  | 0 => hp
  | d + 1 => acc_mono_step v n maxN _ _ p (acc_mono v n maxN j p hp d)

/-- target bound from the index bound -/
theorem target_le {idx n maxN A : Nat} (h1 : 1 ≤ maxN) (h : idx * n ≤ A * maxN + n) :
    (idx + 1) * n / maxN ≤ A + (2 * n) / maxN := by
  have : (idx + 1) * n ≤ 2 * n + A * maxN := by rw [Nat.add_mul]; omega
  calc (idx + 1) * n / maxN ≤ (2 * n + A * maxN) / maxN := Nat.div_le_div_right this
    _ = (2 * n) / maxN + A := Nat.add_mul_div_right _ _ (by omega)
    _ = A + (2 * n) / maxN := Nat.add_comm _ _

theorem target_le' {idx n maxN A : Nat} (h1 : 1 ≤ maxN) (h : idx * n ≤ A * maxN) :
    (idx + 1) * n / maxN ≤ A + n / maxN := by
  have : (idx + 1) * n ≤ n + A * maxN := by rw [Nat.add_mul]; omega
  calc (idx + 1) * n / maxN ≤ (n + A * maxN) / maxN := Nat.div_le_div_right this
    _ = n / maxN + A := Nat.add_mul_div_right _ _ (by omega)
    _ = A + n / maxN := Nat.add_comm _ _

theorem two_div_le (n maxN : Nat) (h1 : 1 ≤ maxN) : (2 * n) / maxN ≤ 2 * (n / maxN) + 1 := by
  have h := Nat.lt_mul_div_succ n (by omega : 0 < maxN)
  generalize n / maxN = q at h ⊢
  have : 2 * n < (2 * q + 1 + 1) * maxN := by
    have e : (2 * q + 1 + 1) * maxN = 2 * (maxN * (q + 1)) := by grind
    omega
  have := (Nat.div_lt_iff_lt_mul (by omega : 0 < maxN)).mpr this
  omega

/-- index bound after a push at `s` from a state not ahead of `s` -/
theorem push_idx_le {idx n maxN s : Nat} (h : idx * n ≤ s * maxN) :
    max (idx + 1) (s * maxN / n) * n ≤ s * maxN + n := by
  rcases Nat.le_total (idx + 1) (s * maxN / n) with h' | h'
  · rw [Nat.max_eq_right h']
    exact Nat.le_trans (Nat.div_mul_le_self _ _) (Nat.le_add_right _ _)
  · rw [Nat.max_eq_left h', Nat.add_mul]; omega

/-- state of the loop while it is inside the run of the dominant value starting at `s` -/
def RunInv (n maxN s : Nat) (st : CutSt) : Prop :=
  st.backup = s ∧ ((st.i = s ∧ st.idx * n ≤ s * maxN + n) ∨ (st.i < s ∧ st.idx * n ≤ s * maxN))

section Dominant
variable (v : Nat → Nat) (n maxN c s m : Nat)
variable (h1 : 1 ≤ maxN) (h2 : maxN ≤ n)
variable (hrun : ∀ k, s ≤ k → k < s + m → v k = c)
variable (hpre : s = 0 ∨ v (s - 1) ≠ c)
variable (hpost : s + m = n ∨ v (s + m) ≠ c)
variable (hsm : s + m ≤ n)
variable (hm : 2 * (n / maxN) + 1 ≤ m)

include h1 h2 hrun hpre hm in
theorem run_start : RunInv n maxN s (cutRun v n maxN (s + 1)) := by
  have hq : 1 ≤ n / maxN := (Nat.le_div_iff_mul_le (by omega)).mpr (by omega)
  have ci := cutInv_run v n maxN h1 h2 s
  have qi := qinv_run v n maxN h1 h2 s
  show RunInv n maxN s (cutStep v n maxN (cutRun v n maxN s) s)
  generalize cutRun v n maxN s = st at ci qi
  have hvs : v s = c := hrun s (Nat.le_refl _) (by omega)
  have hnot : ¬ (0 < s ∧ v s = v (s - 1)) := by
    rintro ⟨h0, he⟩
    rcases hpre with h | h
    · omega
    · exact h (he ▸ hvs)
  unfold cutStep
  simp only [hnot, if_false]
  split
  · refine ⟨rfl, Or.inl ⟨rfl, ?_⟩⟩
    exact push_idx_le qi
  · refine ⟨rfl, ?_⟩
    show (st.i = s ∧ _) ∨ (st.i < s ∧ _)
    rcases ci.backup_lt with h | h
    · left; exact ⟨by have := (ci.i_zero h).1; omega, Nat.le_trans qi (Nat.le_add_right _ _)⟩
    · right; exact ⟨by have := ci.i_le_backup; omega, qi⟩

include h1 h2 hrun hpre hm in
theorem run_mid : ∀ d, s + 1 + d ≤ s + m → RunInv n maxN s (cutRun v n maxN (s + 1 + d))
  | 0, _ => run_start v n maxN c s m h1 h2 hrun hpre hm
  | d + 1, hd => by
    have ih := run_mid d (by omega)
    show RunInv n maxN s (cutStep v n maxN (cutRun v n maxN (s + 1 + d)) (s + 1 + d))
    generalize cutRun v n maxN (s + 1 + d) = st at ih
    have hin : 0 < s + 1 + d ∧ v (s + 1 + d) = v (s + 1 + d - 1) := by
      refine ⟨by omega, ?_⟩
      rw [hrun (s + 1 + d) (by omega) (by omega), hrun (s + 1 + d - 1) (by omega) (by omega)]
    obtain ⟨hb, hcase⟩ := ih
    unfold cutStep
    simp only [hin, and_self, if_true]
    split
    · rename_i hcut
      rcases hcase with ⟨hi, _⟩ | ⟨hi, hidx⟩
      · omega
      · refine ⟨by simp [CutSt.push, hb], Or.inl ⟨by simp [CutSt.push, hb], ?_⟩⟩
        simp only [CutSt.push, hb]
        exact push_idx_le hidx
    · exact ⟨hb, hcase⟩

include h1 h2 hrun hpre hm in
/-- at the end of the run the slice in progress starts exactly at `s` -/
theorem run_end : (cutRun v n maxN (s + m)).i = s ∧ (cutRun v n maxN (s + m)).backup = s ∧
    (cutRun v n maxN (s + m)).idx * n ≤ s * maxN + n := by
  have hq : 1 ≤ n / maxN := (Nat.le_div_iff_mul_le (by omega)).mpr (by omega)
  obtain ⟨d, hd⟩ : ∃ d, m = d + 2 := ⟨m - 2, by omega⟩
  have ih := run_mid v n maxN c s m h1 h2 hrun hpre hm d (by omega)
  have e : s + m = (s + 1 + d) + 1 := by omega
  rw [e]
  have key : cutRun v n maxN (s + 1 + d + 1)
      = cutStep v n maxN (cutRun v n maxN (s + 1 + d)) (s + 1 + d) := rfl
  rw [key]
  generalize cutRun v n maxN (s + 1 + d) = st at ih
  have hin : 0 < s + 1 + d ∧ v (s + 1 + d) = v (s + 1 + d - 1) := by
    refine ⟨by omega, ?_⟩
    rw [hrun (s + 1 + d) (by omega) (by omega), hrun (s + 1 + d - 1) (by omega) (by omega)]
  obtain ⟨hb, hcase⟩ := ih
  unfold cutStep
  simp only [hin, and_self, if_true]
  rcases hcase with ⟨hi, hidx⟩ | ⟨hi, hidx⟩
  · have : ¬ ((st.idx + 1) * n / maxN ≤ s + 1 + d ∧
        (st.idx + 1) * n / maxN - st.backup ≤ s + 1 + d - (st.idx + 1) * n / maxN ∧
        st.i < st.backup) := by omega
    simp only [this, if_false]
    exact ⟨hi, hb, hidx⟩
  · have ht := target_le' h1 hidx
    have hfire : (st.idx + 1) * n / maxN ≤ s + 1 + d ∧
        (st.idx + 1) * n / maxN - st.backup ≤ s + 1 + d - (st.idx + 1) * n / maxN ∧
        st.i < st.backup := by
      generalize (st.idx + 1) * n / maxN = T at ht
      omega
    rw [if_pos hfire]
    simp only [CutSt.push, hb, true_and]
    exact push_idx_le hidx

include h1 h2 hrun hpre hpost hsm hm in
/-- **T4, index form**: a run `[s, s+m)` of one value, longer than two quantiles, is a slice -/
theorem dominant_slice : (s, s + m) ∈ cuts v n maxN := by
  obtain ⟨hi, hb, hidx⟩ := run_end v n maxN c s m h1 h2 hrun hpre hm
  rcases Nat.lt_or_ge (s + m) n with hlt | hge
  · -- a greater value follows: the slice is pushed when it is met
    have hstep : (s, s + m) ∈ (cutRun v n maxN (s + m + 1)).acc := by
      show (s, s + m) ∈ (cutStep v n maxN (cutRun v n maxN (s + m)) (s + m)).acc
      generalize cutRun v n maxN (s + m) = st at hi hb hidx
      have hnot : ¬ (0 < s + m ∧ v (s + m) = v (s + m - 1)) := by
        rintro ⟨_, he⟩
        rw [hrun (s + m - 1) (by omega) (by omega)] at he
        rcases hpost with h | h
        · omega
        · exact h he
      have ht := target_le h1 hidx
      have := two_div_le n maxN h1
      unfold cutStep
      simp only [hnot, if_false]
      rw [if_pos (by omega)]
      simp [CutSt.push, hi]
    have := acc_mono v n maxN (s + m + 1) _ hstep (n - (s + m + 1))
    have e : s + m + 1 + (n - (s + m + 1)) = n := by omega
    rw [e] at this
    simp only [cuts, CutSt.push, List.mem_append]
    exact Or.inl this
  · have e : s + m = n := by omega
    rw [e] at hi ⊢
    simp only [cuts, CutSt.push, List.mem_append, List.mem_singleton]
    right; rw [hi]

end Dominant

/-- for ≥ 1024 numbers and level ≥ 8 the quantile stage may use ≥ 64 slices -/
theorem chooseMax_ge_64 (level n : Nat) (hl : 8 ≤ level) (hn : 1024 ≤ n) :
    64 ≤ chooseMaxNPrefixes level n := by
  have hlog : 10 ≤ Nat.log2 n := (Nat.le_log2 (by omega)).mpr (by omega)
  unfold chooseMaxNPrefixes
  simp only
  apply Nat.le_min.mpr
  refine ⟨?_, by omega⟩
  have : 6 ≤ level - (12 - min 12 (Nat.log2 n / 2 + 5)) := by omega
  calc 64 = 2 ^ 6 := rfl
    _ ≤ _ := Nat.pow_le_pow_right (by omega) this

theorem getD_mid (A B : List Nat) (c m k : Nat) (h1 : A.length ≤ k) (h2 : k < A.length + m) :
    (A ++ List.replicate m c ++ B).getD k 0 = c := by
  rw [List.getD_eq_getElem?_getD, List.append_assoc, List.getElem?_append_right h1,
    List.getElem?_append_left (by simp; omega), List.getElem?_replicate_of_lt (by omega)]
  rfl

/-- **T4**: among ≥ 2000 numbers, a value `c` holding ≥ 90 % of them (but not all), at level ≥ 8:
the quantile stage makes it a raw prefix of its own — single-valued, exact count, divisor 1 — with
the run-length jumpstart. (`A`, `B`: the numbers below and above `c`, in any order.) -/
theorem dominant_own_prefix (A B : List Nat) (c m level : Nat) (gcds : Bool)
    (hA : ∀ a ∈ A, a < c) (hB : ∀ b ∈ B, c < b)
    (hn : (A ++ List.replicate m c ++ B).length ≥ 2000)
    (hc : 10 * m ≥ 9 * (A ++ List.replicate m c ++ B).length)
    (hne : m ≠ (A ++ List.replicate m c ++ B).length) (hl : 8 ≤ level) :
    ({ count := m, lower := c, upper := c, gcd := 1,
       jump := some (jumpstart (A ++ List.replicate m c ++ B).length m) } : Raw)
      ∈ rawPrefixes (A ++ List.replicate m c ++ B) level gcds := by
  generalize hsorted : A ++ List.replicate m c ++ B = sorted at hn hc hne
  have hlen : sorted.length = A.length + m + B.length := by simp [← hsorted]; omega
  have hmax := chooseMax_ge_64 level sorted.length hl (by omega)
  have h2 := chooseMax_le_n level sorted.length
  have hq : sorted.length / chooseMaxNPrefixes level sorted.length ≤ sorted.length / 64 :=
    Nat.div_le_div_left hmax (by omega)
  have hmid : ∀ k, A.length ≤ k → k < A.length + m → sorted.getD k 0 = c := by
    intro k hk1 hk2; rw [← hsorted]; exact getD_mid A B c m k hk1 hk2
  have hpre : A.length = 0 ∨ sorted.getD (A.length - 1) 0 ≠ c := by
    rcases Nat.eq_zero_or_pos A.length with h | h
    · exact Or.inl h
    · right
      have hk : A.length - 1 < A.length := by omega
      have : sorted.getD (A.length - 1) 0 = A[A.length - 1] := by
        rw [← hsorted, List.getD_eq_getElem?_getD, List.append_assoc, List.getElem?_append_left hk,
          List.getElem?_eq_getElem hk]; rfl
      rw [this]
      exact Nat.ne_of_lt (hA _ (List.getElem_mem hk))
  have hpost : A.length + m = sorted.length ∨ sorted.getD (A.length + m) 0 ≠ c := by
    rcases Nat.eq_zero_or_pos B.length with h | h
    · left; omega
    · right
      have : sorted.getD (A.length + m) 0 = B[0] := by
        rw [← hsorted, List.getD_eq_getElem?_getD,
          List.getElem?_append_right (by simp), List.getElem?_eq_getElem (by simp; omega)]
        simp
      rw [this]
      exact Nat.ne_of_gt (hB _ (List.getElem_mem h))
  have hcut := dominant_slice (fun i => sorted.getD i 0) sorted.length
    (chooseMaxNPrefixes level sorted.length) c A.length m (by omega) h2 hmid hpre hpost (by omega)
    (by omega)
  have he : sorted.isEmpty = false := by
    cases sorted with
    | nil => simp at hn
    | cons _ _ => rfl
  unfold rawPrefixes
  simp only [he, Bool.false_eq_true, if_false]
  refine List.mem_map.mpr ⟨(A.length, A.length + m), hcut, ?_⟩
  have hm0 : 0 < m := by omega
  have e0 := hmid A.length (Nat.le_refl _) (by omega)
  have e1 := hmid (A.length + m - 1) (by omega) (by omega)
  have hslice : sliceGcd (sliceOf sorted A.length (A.length + m)) = 1 := by
    unfold sliceGcd
    simp only
    rw [if_pos]
    rw [headD_sliceOf (by omega), getLastD_sliceOf (by omega) (by omega), e0, e1]
  have hu : usesRunLen sorted.length m = true := by
    simp only [usesRunLen, Bool.and_eq_true, decide_eq_true_eq]; omega
  have ecount : A.length + m - A.length = m := by omega
  simp only [mkRaw, ecount, e0, e1, hslice, hu, if_true, ite_self]

/-- a sorted list splits around any value -/
theorem sorted_split (c : Nat) : ∀ (sorted : List Nat), sorted.Pairwise (· ≤ ·) →
    sorted = sorted.filter (· < c) ++ List.replicate (sorted.count c) c ++ sorted.filter (c < ·)
  | [], _ => by simp
  | x :: xs, h => by
    have hx : ∀ y ∈ xs, x ≤ y := (List.pairwise_cons.mp h).1
    have ih := sorted_split c xs (List.pairwise_cons.mp h).2
    rcases Nat.lt_trichotomy x c with hlt | heq | hgt
    · have h1 : ¬ c < x := by omega
      have h2 : ¬ x = c := by omega
      simp only [List.filter_cons, hlt, decide_true, if_true, h1, decide_false, Bool.false_eq_true,
        if_false, List.count_cons, beq_iff_eq, h2, Nat.add_zero, List.cons_append]
      exact congrArg _ ih
    · subst heq
      have hnil : xs.filter (· < x) = [] := by
        rw [List.filter_eq_nil_iff]; intro y hy; have := hx y hy; simp; omega
      rw [hnil] at ih
      simp only [List.filter_cons, Nat.lt_irrefl, decide_false, Bool.false_eq_true, if_false, hnil,
        List.count_cons_self, List.replicate_succ, List.nil_append, List.cons_append]
      exact congrArg _ (by simpa using ih)
    · have h1 : ¬ x < c := by omega
      have h2 : ¬ x = c := by omega
      have hnil : xs.filter (· < c) = [] := by
        rw [List.filter_eq_nil_iff]; intro y hy; have := hx y hy; simp; omega
      have hcnt : xs.count c = 0 := by
        rw [List.count_eq_zero]; intro hmem; have := hx c hmem; omega
      rw [hnil, hcnt] at ih
      simp only [List.filter_cons, h1, decide_false, Bool.false_eq_true, if_false, hgt, decide_true,
        if_true, List.count_cons, beq_iff_eq, h2, Nat.add_zero, hnil, hcnt, List.replicate_zero,
        List.nil_append, List.append_nil]
      exact congrArg _ (by simpa using ih)

/-- T4 stated with the number of occurrences of the value in the sorted list -/
theorem dominant_own_prefix_count (sorted : List Nat) (hs : sorted.Pairwise (· ≤ ·)) (c level : Nat)
    (gcds : Bool) (hn : sorted.length ≥ 2000) (hc : 10 * sorted.count c ≥ 9 * sorted.length)
    (hne : sorted.count c ≠ sorted.length) (hl : 8 ≤ level) :
    ({ count := sorted.count c, lower := c, upper := c, gcd := 1,
       jump := some (jumpstart sorted.length (sorted.count c)) } : Raw)
      ∈ rawPrefixes sorted level gcds := by
  have hsplit := sorted_split c sorted hs
  have := dominant_own_prefix (sorted.filter (· < c)) (sorted.filter (c < ·)) c (sorted.count c)
    level gcds (fun a ha => by simpa using (List.mem_filter.mp ha).2)
    (fun b hb => by simpa using (List.mem_filter.mp hb).2)
  rw [← hsplit] at this
  exact this hn hc hne hl

/-! ## 14. exactness of the merged divisors (C18(1) for the training stage) -/

/-- greatest: for a multi-valued range, every common divisor of the members' distances from the
lower bound divides the recorded divisor -/
def Greatest (lower upper gcd : Nat) (S : List Nat) : Prop :=
  lower ≠ upper → ∀ d, (∀ x ∈ S, d ∣ x - lower) → d ∣ gcd

abbrev RGreatest (r : Raw) (S : List Nat) : Prop := Greatest r.lower r.upper r.gcd S

theorem mkRaw_greatest {sorted : List Nat} {b e : Nat} (hbe : b < e) (he : e ≤ sorted.length) :
    RGreatest (mkRaw sorted true (b, e)) (sliceOf sorted b e) := by
  intro hne d hd
  show d ∣ (if true = true then sliceGcd (sliceOf sorted b e) else 1)
  rw [if_pos rfl]
  have e0 := headD_sliceOf (sorted := sorted) hbe
  have e1 := getLastD_sliceOf hbe he
  apply dvd_sliceGcd
  · rw [e0, e1]; exact hne
  · rw [e1]; exact mem_sliceOf.mpr ⟨e - 1, by omega, by omega, getD_eq_some (by omega)⟩
  · rw [e0]; exact hd

theorem rawSegs_greatest (sorted : List Nat) (level : Nat) :
    ∀ x ∈ rawSegs sorted level true, RGreatest x.1 x.2 := by
  unfold rawSegs
  split
  · simp
  · rename_i he
    have hn : 1 ≤ sorted.length := by
      cases sorted with
      | nil => simp at he
      | cons _ _ => simp
    obtain ⟨hc, _⟩ := cuts_tile (fun i => sorted.getD i 0) sorted.length
      (chooseMaxNPrefixes level sorted.length) (chooseMax_pos _ _ hn) (chooseMax_le_n _ _)
    intro x hx
    obtain ⟨be, hbe, rfl⟩ := List.mem_map.mp hx
    obtain ⟨_, h2, h3⟩ := (chain_bounds _ 0 _ hc).2 be hbe
    exact mkRaw_greatest h2 h3

theorem foldAcc_greatest (U d : Nat) : ∀ (g : List (Raw × List Nat)), (∀ x ∈ g, RFits x.1 x.2) →
    (∀ x ∈ g, RGreatest x.1 x.2) → (∀ x ∈ g, x.1.upper ≤ U) →
    (∀ x ∈ g, ∀ y ∈ x.2, d ∣ U - y) → d ∣ (foldAcc U (g.map Prod.fst)).getD 0
  | [], _, _, _, _ => by simp [foldAcc]
  | (r, S) :: t, hf, hx, hu, hd => by
    have ih := foldAcc_greatest U d t (fun x h => hf x (List.mem_cons_of_mem _ h))
      (fun x h => hx x (List.mem_cons_of_mem _ h)) (fun x h => hu x (List.mem_cons_of_mem _ h))
      (fun x h => hd x (List.mem_cons_of_mem _ h))
    have hfr : RFits r S := hf (r, S) List.mem_cons_self
    have hur : r.upper ≤ U := hu (r, S) List.mem_cons_self
    have hdr := hd (r, S) List.mem_cons_self
    simp only [List.map_cons, foldAcc_cons]
    rw [foldGcdLeft_getD]
    refine Nat.dvd_gcd ?_ (Nat.dvd_gcd (hdr _ hfr.upper_mem) ih)
    by_cases hul : r.upper = r.lower
    · simp [hul]
    · simp only [ne_eq, hul, not_false_eq_true, if_true]
      apply hx (r, S) List.mem_cons_self (fun h => hul h.symm) d
      intro y hy
      have h1 := hfr.lower_le y hy
      have h2 := hfr.le_upper y hy
      have e : y - r.lower = (U - r.lower) - (U - y) := by omega
      rw [e]
      exact Nat.dvd_sub (hdr _ hfr.lower_mem) (hdr y hy)

/-- with folding, the merged divisor is the greatest one -/
theorem mergeGroup_greatest_fold (g : List (Raw × List Nat)) (hne : g ≠ [])
    (hf : ∀ x ∈ g, RFits x.1 x.2) (hs : List.Pairwise Sep (g.map Prod.snd))
    (hx : ∀ x ∈ g, RGreatest x.1 x.2) :
    RGreatest (mergeGroup true (g.map Prod.fst)) (g.map Prod.snd).flatten := by
  have hM := mergeGroup_fits true g hne hf hs
  intro hLU d hd
  generalize hMdef : mergeGroup true (g.map Prod.fst) = M at hM hLU hd
  have hgcd : M.gcd = (foldAcc M.upper (g.map Prod.fst)).getD 1 := by subst hMdef; rfl
  have hup : ∀ x ∈ g, x.1.upper ≤ M.upper := fun x hx' =>
    hM.le_upper _ (mem_segs_flatten.mpr ⟨x, hx', (hf x hx').upper_mem⟩)
  have hdU : ∀ x ∈ g, ∀ y ∈ x.2, d ∣ M.upper - y := by
    intro x hx' y hy
    have hy' : y ∈ (g.map Prod.snd).flatten := mem_segs_flatten.mpr ⟨x, hx', hy⟩
    have h1 := hM.lower_le y hy'
    have h2 := hM.le_upper y hy'
    have e : M.upper - y = (M.upper - M.lower) - (y - M.lower) := by omega
    rw [e]
    exact Nat.dvd_sub (hd _ hM.upper_mem) (hd y hy')
  have hdvd := foldAcc_greatest M.upper d g hf hx hup hdU
  have hinv := foldAcc_inv M.upper g hf hup
  rw [hgcd]
  cases hacc : foldAcc M.upper (g.map Prod.fst) with
  | none =>
    exfalso
    obtain ⟨x0, hx0, hl0⟩ := mem_segs_flatten.mp hM.lower_mem
    have := hinv.2 x0 hx0 _ hl0
    rw [hacc] at this
    simp only [Option.getD_none] at this
    have hz := Nat.eq_zero_of_zero_dvd this
    have := hM.le_upper _ hM.lower_mem
    omega
  | some a =>
    rw [hacc] at hdvd
    simpa using hdvd

theorem adjSingleGap_cons_cons (a b : Raw) (rest : List Raw) :
    adjSingleGap (a :: b :: rest) =
      ((b.lower == b.upper && a.lower == a.upper && decide (a.upper + 1 < b.lower))
        || adjSingleGap (b :: rest)) := rfl

theorem adjSingleGap_suffix : ∀ (pre l : List Raw), adjSingleGap (pre ++ l) = false →
    adjSingleGap l = false
  | [], _, h => h
  | [p], l, h => by
    cases l with
    | nil => rfl
    | cons q rest =>
      simp only [List.cons_append, List.nil_append, adjSingleGap_cons_cons, Bool.or_eq_false_iff] at h
      exact h.2
  | p :: q :: pre, l, h => by
    simp only [List.cons_append, adjSingleGap_cons_cons, Bool.or_eq_false_iff] at h
    exact adjSingleGap_suffix (q :: pre) l h.2

theorem adjSingleGap_prefix : ∀ (l post : List Raw), adjSingleGap (l ++ post) = false →
    adjSingleGap l = false
  | [], _, _ => rfl
  | [_], _, _ => rfl
  | a :: b :: rest, post, h => by
    simp only [List.cons_append, adjSingleGap_cons_cons, Bool.or_eq_false_iff] at h ⊢
    exact ⟨h.1, adjSingleGap_prefix (b :: rest) post h.2⟩

/-- without folding (`use_gcd_prefix_optimize = false` under `use_gcds`): every raw divisor is 1
and neighbouring single values are adjacent numbers, so 1 is the greatest divisor of every group -/
theorem mergeGroup_greatest_nofold (g : List (Raw × List Nat)) (hne : g ≠ [])
    (hf : ∀ x ∈ g, RFits x.1 x.2) (hs : List.Pairwise Sep (g.map Prod.snd))
    (hx : ∀ x ∈ g, RGreatest x.1 x.2) (hg1 : ∀ x ∈ g, x.1.gcd ≤ 1)
    (hadj : adjSingleGap (g.map Prod.fst) = false) :
    RGreatest (mergeGroup false (g.map Prod.fst)) (g.map Prod.snd).flatten := by
  have hM := mergeGroup_fits false g hne hf hs
  intro hLU d hd
  show d ∣ 1
  by_cases hmulti : ∃ x ∈ g, x.1.lower ≠ x.1.upper
  · obtain ⟨x, hxg, hxne⟩ := hmulti
    have hfx := hf x hxg
    have hg : x.1.gcd = 1 := by have := hg1 x hxg; have := hfx.gcd_pos; omega
    rw [← hg]
    apply hx x hxg hxne d
    intro y hy
    have hy' : y ∈ (g.map Prod.snd).flatten := mem_segs_flatten.mpr ⟨x, hxg, hy⟩
    have hl' : x.1.lower ∈ (g.map Prod.snd).flatten := mem_segs_flatten.mpr ⟨x, hxg, hfx.lower_mem⟩
    have h1 := hM.lower_le _ hl'
    have h2 := hfx.lower_le y hy
    have e : y - x.1.lower = (y - (mergeGroup false (g.map Prod.fst)).lower)
        - (x.1.lower - (mergeGroup false (g.map Prod.fst)).lower) := by omega
    rw [e]
    exact Nat.dvd_sub (hd y hy') (hd _ hl')
  · have hsingle : ∀ x ∈ g, x.1.lower = x.1.upper := by
      intro x hxg
      apply Classical.byContradiction
      intro h
      exact hmulti ⟨x, hxg, h⟩
    match g, hne with
    | [a], _ =>
      exfalso
      apply hLU
      show a.1.lower = a.1.upper
      exact hsingle a List.mem_cons_self
    | a :: b :: rest, _ =>
      have ha := hsingle a List.mem_cons_self
      have hb := hsingle b (List.mem_cons_of_mem _ List.mem_cons_self)
      simp only [List.map_cons, adjSingleGap_cons_cons, Bool.or_eq_false_iff, Bool.and_eq_false_iff,
        beq_eq_false_iff_ne, decide_eq_false_iff_not] at hadj
      have hgap : ¬ a.1.upper + 1 < b.1.lower := by
        rcases hadj.1 with (h | h) | h
        · exact absurd hb h
        · exact absurd ha h
        · exact h
      simp only [List.map_cons, List.pairwise_cons] at hs
      have hsep := hs.1 b.2 List.mem_cons_self _ (hf a List.mem_cons_self).upper_mem _
        (hf b (List.mem_cons_of_mem _ List.mem_cons_self)).lower_mem
      have hbmem : b.1.lower ∈ ((a :: b :: rest).map Prod.snd).flatten :=
        mem_segs_flatten.mpr ⟨b, List.mem_cons_of_mem _ List.mem_cons_self,
          (hf b (List.mem_cons_of_mem _ List.mem_cons_self)).lower_mem⟩
      have := hd _ hbmem
      have e : b.1.lower - (mergeGroup false ((a :: b :: rest).map Prod.fst)).lower = 1 := by
        show b.1.lower - a.1.lower = 1
        omega
      rw [e] at this
      exact this

theorem flatten_mem_split {α : Type} {gs : List (List α)} {y : List α} (h : y ∈ gs) :
    ∃ pre post, gs.flatten = pre ++ y ++ post := by
  obtain ⟨s, t, rfl⟩ := List.mem_iff_append.mp h
  exact ⟨s.flatten, t.flatten, by simp⟩

theorem useGcdOptimize_false {raws : List Raw} (h : useGcdOptimize raws true = false) :
    (∀ r ∈ raws, r.gcd ≤ 1) ∧ adjSingleGap raws = false := by
  unfold useGcdOptimize at h
  simp only [Bool.not_true, Bool.false_eq_true, if_false] at h
  split at h
  · cases h
  · rename_i hany
    refine ⟨?_, h⟩
    intro r hr
    apply Nat.le_of_not_lt
    intro hlt
    apply hany
    exact List.any_eq_true.mpr ⟨r, hr, by simpa using hlt⟩

/-- every merged group, with the model's own `fold`, carries the exact divisor of its members:
the value of `exactGcd` for any prefix with the group's bounds, over the sorted numbers -/
theorem merged_group_exact {rs : List (Raw × List Nat)} {sorted : List Nat} (ht : Tiles rs sorted)
    (hgr : ∀ x ∈ rs, RGreatest x.1 x.2) (groups : List (List Raw))
    (hflat : groups.flatten = rs.map Prod.fst) (hne : ∀ g ∈ groups, g ≠ [])
    (g : List Raw) (hg : g ∈ groups) (p : Prefix)
    (hlo : p.lower = (mergeGroup (useGcdOptimize (rs.map Prod.fst) true) g).lower)
    (hup : p.upper = (mergeGroup (useGcdOptimize (rs.map Prod.fst) true) g).upper)
    (hmulti : p.lower ≠ p.upper) :
    exactGcd p sorted = (mergeGroup (useGcdOptimize (rs.map Prod.fst) true) g).gcd := by
  obtain ⟨gs, hgs1, hgs2⟩ := lift_groups Prod.fst groups rs hflat
  have hsepAll : List.Pairwise Sep (gs.map (List.map Prod.snd)).flatten := by
    rw [← List.map_flatten, hgs1]; exact ht.sep
  obtain ⟨hsep1, hsep2⟩ := pairwise_sep_groups _ hsepAll
  rw [← hgs2] at hg
  obtain ⟨y, hy, rfl⟩ := List.mem_map.mp hg
  have hyne : y ≠ [] := by
    intro h; exact hne _ (hgs2 ▸ List.mem_map_of_mem hy) (by simp [h])
  have hyf : ∀ z ∈ y, RFits z.1 z.2 := fun z hz => ht.fits z (hgs1 ▸ List.mem_flatten.mpr ⟨y, hy, hz⟩)
  have hyg : ∀ z ∈ y, RGreatest z.1 z.2 := fun z hz => hgr z (hgs1 ▸ List.mem_flatten.mpr ⟨y, hy, hz⟩)
  have hys := hsep2 _ (List.mem_map_of_mem hy)
  generalize hfold : useGcdOptimize (rs.map Prod.fst) true = fold at hlo hup
  have hfit := mergeGroup_fits fold y hyne hyf hys
  have hgreat : RGreatest (mergeGroup fold (y.map Prod.fst)) (y.map Prod.snd).flatten := by
    cases fold with
    | true => exact mergeGroup_greatest_fold y hyne hyf hys hyg
    | false =>
      obtain ⟨h1, h2⟩ := useGcdOptimize_false hfold
      obtain ⟨pre, post, hsplit⟩ := flatten_mem_split hy
      rw [hgs1] at hsplit
      have hadj : adjSingleGap (y.map Prod.fst) = false := by
        rw [hsplit, List.map_append, List.map_append] at h2
        exact adjSingleGap_suffix _ _ (adjSingleGap_prefix _ _ h2)
      exact mergeGroup_greatest_nofold y hyne hyf hys hyg
        (fun z hz => h1 _ (List.mem_map_of_mem (hgs1 ▸ List.mem_flatten.mpr ⟨y, hy, hz⟩))) hadj
  -- members of `sorted` inside the range are exactly the group's segment
  have hmem_sorted : ∀ u ∈ (y.map Prod.snd).flatten, u ∈ sorted := by
    intro u hu
    rw [← ht.flat, ← hgs1, List.map_flatten, List.flatten_flatten]
    exact List.mem_flatten.mpr ⟨_, List.mem_map_of_mem (List.mem_map_of_mem hy), hu⟩
  have hin : ∀ u ∈ sorted, p.contains u = true → u ∈ (y.map Prod.snd).flatten := by
    intro u hu hc
    simp only [Prefix.contains, Bool.and_eq_true, decide_eq_true_eq] at hc
    rw [← ht.flat, ← hgs1, List.map_flatten, List.flatten_flatten] at hu
    obtain ⟨S', hS', huS'⟩ := List.mem_flatten.mp hu
    obtain ⟨G', hG', rfl⟩ := List.mem_map.mp hS'
    obtain ⟨y', hy', rfl⟩ := List.mem_map.mp hG'
    by_cases hyy : y' = y
    · rw [hyy] at huS'; exact huS'
    · exfalso
      -- a different group: separated from `y`'s segment
      have hpw := hsep1
      rw [List.map_map] at hpw
      have hrel : ∀ a ∈ gs, ∀ b ∈ gs, a ≠ b →
          Sep (a.map Prod.snd).flatten (b.map Prod.snd).flatten ∨
          Sep (b.map Prod.snd).flatten (a.map Prod.snd).flatten := by
        intro a ha b hb hab
        obtain ⟨i, hi, rfl⟩ := List.getElem_of_mem ha
        obtain ⟨j, hj, rfl⟩ := List.getElem_of_mem hb
        have hpw' := List.pairwise_iff_getElem.mp hpw
        rcases Nat.lt_trichotomy i j with h | h | h
        · left
          have := hpw' i j (by simpa using hi) (by simpa using hj) h
          simpa using this
        · subst h; exact absurd rfl hab
        · right
          have := hpw' j i (by simpa using hj) (by simpa using hi) h
          simpa using this
      rcases hrel y' hy' y hy hyy with h | h
      · have := h u huS' _ hfit.lower_mem
        omega
      · have := h _ hfit.upper_mem u huS'
        omega
  apply Nat.dvd_antisymm
  · apply hgreat (by rw [← hlo, ← hup]; exact hmulti)
    intro u hu
    rw [← hlo]
    exact C18.exactGcd_dvd p sorted u (hmem_sorted u hu)
      (by simp [Prefix.contains, hlo, hup, hfit.lower_le u hu, hfit.le_upper u hu])
  · apply C18.exactGcd_greatest
    intro u hu hc
    rw [hlo]
    exact hfit.gcd_dvd u (hin u hu hc)

theorem exactGcd_perm (p : Prefix) {us us' : List Nat} (h : us.Perm us') :
    exactGcd p us = exactGcd p us' := by
  apply Nat.dvd_antisymm
  · exact C18.exactGcd_greatest p us' _ fun u hu hc => C18.exactGcd_dvd p us u (h.mem_iff.mpr hu) hc
  · exact C18.exactGcd_greatest p us _ fun u hu hc => C18.exactGcd_dvd p us' u (h.mem_iff.mp hu) hc

theorem multi_of_exactGcd_ne_zero {p : Prefix} {us : List Nat} (h : exactGcd p us ≠ 0) :
    p.lower ≠ p.upper := by
  intro heq
  apply h
  rw [C18.exactGcd_eq_zero_iff]
  intro u _ hc
  simp only [Prefix.contains, Bool.and_eq_true, decide_eq_true_eq] at hc
  omega

/-- **`merge_gcd_exact`** (C18(1) for the training stage, before the post-pass): with GCDs on and
the model's own `fold`, whatever groups the optimizer merges, the divisor of every multi-valued
merged range is EXACTLY the greatest common divisor of its members' distances from its lower bound -/
theorem merge_gcd_exact (sorted : List Nat) (hs : sorted.Pairwise (· ≤ ·)) (level : Nat)
    (groups : List (List Raw)) (hflat : groups.flatten = rawPrefixes sorted level true)
    (hne : ∀ g ∈ groups, g ≠ []) (ps : List Prefix)
    (hps : ps.map Raw.ofPrefix
      = mergeAll (useGcdOptimize (rawPrefixes sorted level true) true) groups)
    (us : List Nat) (hus : us.Perm sorted) :
    ∀ p ∈ ps, exactGcd p us ≠ 0 → p.gcd = exactGcd p us := by
  intro p hp hnz
  have hmem : Raw.ofPrefix p ∈ mergeAll (useGcdOptimize (rawPrefixes sorted level true) true) groups :=
    hps ▸ List.mem_map_of_mem hp
  obtain ⟨g, hg, hgp⟩ := List.mem_map.mp hmem
  have ht := rawSegs_tiles hs level true
  have hex := merged_group_exact ht (rawSegs_greatest sorted level) groups
    (by rw [rawSegs_fst]; exact hflat) hne g hg p
  rw [rawSegs_fst, hgp] at hex
  rw [exactGcd_perm p hus]
  exact (hex rfl rfl (multi_of_exactGcd_ne_zero hnz)).symm

theorem walk_sound' (fold hasCommon : Bool) (gb : Nat → Nat) : ∀ (ps : List Prefix) (raws : List Raw),
    walkErr fold hasCommon gb raws ps = none →
    ∃ pg : List (Prefix × List Raw), pg.map Prod.fst = ps ∧ (pg.map Prod.snd).flatten = raws ∧
      ∀ x ∈ pg, x.2 ≠ [] ∧ checkGroup fold hasCommon gb x.1 x.2 = none
  | [], raws, h => by
    unfold walkErr at h
    split at h
    · rename_i he
      have : raws = [] := by simpa using he
      exact ⟨[], rfl, by simp [this], by simp⟩
    · cases h
  | p :: ps, raws, h => by
    unfold walkErr at h
    split at h
    · cases h
    · rename_i g rest htake
      split at h
      · cases h
      · rename_i hchk
        obtain ⟨hne, happ⟩ := takeGroup_spec raws _ g rest htake
        obtain ⟨pg, h1, h2, h3⟩ := walk_sound' fold hasCommon gb ps rest h
        refine ⟨(p, g) :: pg, by simp [h1], by simp [h2, happ], ?_⟩
        intro x hx
        rcases List.mem_cons.mp hx with rfl | hx
        · exact ⟨hne, hchk⟩
        · exact h3 x hx

/-- what the judge checks about a multi-valued range -/
theorem checkGroup_gcd {fold hasCommon : Bool} {gb : Nat → Nat} {p : Prefix} {g : List Raw}
    (h : checkGroup fold hasCommon gb p g = none) :
    p.lower = (mergeGroup fold g).lower ∧ p.upper = (mergeGroup fold g).upper ∧
    (p.lower ≠ p.upper → p.gcd = postGcd hasCommon gb p (mergeGroup fold g).gcd) := by
  unfold checkGroup at h
  simp only at h
  obtain ⟨h1, h⟩ := ite_some_eq_none h
  obtain ⟨h2, h⟩ := ite_some_eq_none h
  obtain ⟨_, h⟩ := ite_some_eq_none h
  obtain ⟨_, h⟩ := ite_some_eq_none h
  obtain ⟨_, h⟩ := ite_some_eq_none h
  obtain ⟨_, h⟩ := ite_some_eq_none h
  refine ⟨by omega, by omega, ?_⟩
  intro hlu
  rw [if_neg hlu] at h
  obtain ⟨h7, _⟩ := ite_some_eq_none h
  omega

/-- **T5, divisors** (the judge implies C18(1)): in a table the judge accepts (GCDs on), the
divisor of every multi-valued range is exact, or 1 where there is no common field and the exact
divisor does not fit the range's own field -/
theorem explains_gcd_exact (sorted : List Nat) (hs : sorted.Pairwise (· ≤ ·)) (level : Nat)
    (hasCommon : Bool) (gb : Nat → Nat) (observed : List Prefix)
    (h : explains sorted level true hasCommon gb observed = true) :
    ∀ p ∈ observed, exactGcd p sorted ≠ 0 →
      p.gcd = exactGcd p sorted ∨
      (p.gcd = 1 ∧ hasCommon = false ∧ gcdFits gb p (exactGcd p sorted) = false) := by
  intro p hp hnz
  unfold explains explainsErr at h
  simp only [Option.isNone_iff_eq_none] at h
  obtain ⟨_, h⟩ := ite_some_eq_none h
  obtain ⟨_, h⟩ := ite_some_eq_none h
  obtain ⟨pg, h1, h2, h3⟩ := walk_sound' _ hasCommon gb _ _ h
  have hp' : p ∈ sortByLower observed := (List.mergeSort_perm _ _).mem_iff.mpr hp
  rw [← h1] at hp'
  obtain ⟨x, hx, rfl⟩ := List.mem_map.mp hp'
  obtain ⟨_, hchk⟩ := h3 x hx
  obtain ⟨hlo, hup, hg⟩ := checkGroup_gcd hchk
  have hmulti := multi_of_exactGcd_ne_zero hnz
  have ht := rawSegs_tiles hs level true
  have hex := merged_group_exact ht (rawSegs_greatest sorted level) (pg.map Prod.snd)
    (by rw [rawSegs_fst]; exact h2)
    (fun g hg => by obtain ⟨z, hz, rfl⟩ := List.mem_map.mp hg; exact (h3 z hz).1)
    x.2 (List.mem_map_of_mem hx) x.1
  rw [rawSegs_fst] at hex
  have hE := hex hlo hup hmulti
  have hgcd := hg hmulti
  rw [← hE] at hgcd
  unfold postGcd at hgcd
  split at hgcd
  · rename_i hc
    simp only [Bool.and_eq_true, Bool.not_eq_true'] at hc
    exact Or.inr ⟨hgcd, hc.1, hc.2⟩
  · exact Or.inl hgcd

end C10
end Qco
