/-
Claim C11: chunks are self-contained and randomly accessible.

1. header ++ any selection of a well-formed file's chunks (any sub-sequence, any order, with
   repetitions) ++ footer is again a valid file holding exactly those chunks; a chunk decodes the
   same whatever precedes or follows it;
2. the bytes of a chunk are a function of the flags and the chunk: not of its neighbours in the
   file, not of the compressor's history;
3. skipping a chunk body (`Op.skipChunkBody`) uses the metadata's byte size only and lands on the
   first bit after the chunk, also after part of the body was streamed; end to end: on the encoding
   of a well-formed chunk, `chunkMetadata` then `skipChunkBody` land exactly behind the chunk.
-/
import Qco.Properties.C09
import Qco.Lemmas.OpAtomic
import Qco.Properties.C12
namespace Qco
namespace C11
open Op Parser

variable (gb : Nat → Nat) (d : DType)

/-! ### 1. any selection of chunks is a file -/

/-- header ++ any chunks taken from a well-formed file ++ footer decodes to exactly those chunks,
and hands back whatever follows -/
theorem sub_sequence_rest (f : AFile) (h : f.WF gb d) (cs' : List AChunk)
    (hsub : ∀ c ∈ cs', c ∈ f.chunks) (rest : Bits) :
    decodeFile gb d (encHeader d f.flags ++ cs'.flatMap (encChunk gb d f.flags)
        ++ natBits 8 Frozen.magicTerminationByte ++ rest)
      = .ok { flags := f.flags, chunks := cs'.map AChunk.toD } rest := by
  have hwf : AFile.WF gb d { flags := f.flags, chunks := cs' } :=
    ⟨h.dtype_ok, h.pref_dtype_ok, h.signed_ok, h.order_le, fun c hc => h.chunks_ok c (hsub c hc)⟩
  exact decodeFile_encodeFile gb d _ hwf rest

theorem sub_sequence (f : AFile) (h : f.WF gb d) (cs' : List AChunk)
    (hsub : ∀ c ∈ cs', c ∈ f.chunks) :
    decodeFile gb d (encHeader d f.flags ++ cs'.flatMap (encChunk gb d f.flags)
        ++ natBits 8 Frozen.magicTerminationByte)
      = .ok { flags := f.flags, chunks := cs'.map AChunk.toD } [] := by
  have := sub_sequence_rest gb d f h cs' hsub []
  rw [List.append_nil] at this
  exact this

/-- a sub-list (chunks dropped, order kept) -/
theorem sublist_is_file (f : AFile) (h : f.WF gb d) (cs' : List AChunk)
    (hsub : cs'.Sublist f.chunks) :
    decodeFile gb d (encodeFile gb d { flags := f.flags, chunks := cs' })
      = .ok { flags := f.flags, chunks := cs'.map AChunk.toD } [] :=
  sub_sequence gb d f h cs' (fun _ hc => hsub.subset hc)

/-- a permutation -/
theorem perm_is_file (f : AFile) (h : f.WF gb d) (cs' : List AChunk)
    (hperm : cs'.Perm f.chunks) :
    decodeFile gb d (encodeFile gb d { flags := f.flags, chunks := cs' })
      = .ok { flags := f.flags, chunks := cs'.map AChunk.toD } [] :=
  sub_sequence gb d f h cs' (fun _ hc => hperm.subset hc)

/-- one chunk on its own -/
theorem single_chunk_is_file (f : AFile) (h : f.WF gb d) (c : AChunk) (hc : c ∈ f.chunks) :
    decodeFile gb d (encHeader d f.flags ++ encChunk gb d f.flags c
        ++ natBits 8 Frozen.magicTerminationByte)
      = .ok { flags := f.flags, chunks := [c.toD] } [] := by
  have := sub_sequence gb d f h [c] (by simpa using hc)
  simpa using this

/-- a chunk decodes to the same thing whatever follows it (and the reader never looks at what
precedes it): after its magic byte, the chunk reader answers the chunk and hands back the rest -/
theorem chunk_self_contained (f : AFile) (h : f.WF gb d) (c : AChunk) (hc : c ∈ f.chunks) :
    ∃ body, encChunk gb d f.flags c = natBits 8 Frozen.magicChunkByte ++ body ∧
      ∀ rest, decChunkRest gb d f.flags (body ++ rest) = .ok c.toD rest := by
  refine ⟨encChunkMeta gb d f.flags c.fixedMeta ++ encBody c.cm.prefixes c.blocks, ?_, ?_⟩
  · simp only [encChunk, List.append_assoc]
  · intro rest
    exact decChunkRest_encChunk gb d f.flags c h.dtype_ok h.pref_dtype_ok h.signed_ok h.order_le
      (h.chunks_ok c hc) rest

/-! ### 2. the bytes of a chunk depend on the flags and the chunk only -/

/-- in a file, the bytes of a chunk sit between the bytes of its neighbours and are `encChunk` of
the flags and the chunk: they do not depend on the neighbours -/
theorem chunk_bytes_in_file (fl : Flags) (pre post : List AChunk) (c : AChunk) :
    encodeFile gb d { flags := fl, chunks := pre ++ c :: post }
      = (encHeader d fl ++ pre.flatMap (encChunk gb d fl)) ++ encChunk gb d fl c
        ++ (post.flatMap (encChunk gb d fl) ++ natBits 8 Frozen.magicTerminationByte) := by
  simp only [encodeFile, List.flatMap_append, List.flatMap_cons, List.append_assoc]

/-- ... so the same chunk has the same bytes in any two files with the same flags, at any position -/
theorem chunk_bytes_depend_only_on_chunk (fl : Flags) (pre₁ post₁ pre₂ post₂ : List AChunk)
    (c : AChunk) :
    ∃ bits, bits = encChunk gb d fl c ∧
      encodeFile gb d { flags := fl, chunks := pre₁ ++ c :: post₁ }
        = (encHeader d fl ++ pre₁.flatMap (encChunk gb d fl)) ++ bits
          ++ (post₁.flatMap (encChunk gb d fl) ++ natBits 8 Frozen.magicTerminationByte) ∧
      encodeFile gb d { flags := fl, chunks := pre₂ ++ c :: post₂ }
        = (encHeader d fl ++ pre₂.flatMap (encChunk gb d fl)) ++ bits
          ++ (post₂.flatMap (encChunk gb d fl) ++ natBits 8 Frozen.magicTerminationByte) :=
  ⟨_, rfl, chunk_bytes_in_file gb d fl pre₁ post₁ c, chunk_bytes_in_file gb d fl pre₂ post₂ c⟩

section Compressor
variable (cfg : CConfig)

/-- running a history in two parts -/
theorem cRun_append (ops₁ ops₂ : List COp) (σ : CSt) (out : Bits) (acc : List AChunk) :
    cRun gb d cfg (ops₁ ++ ops₂) σ out acc
      = cRun gb d cfg ops₂ (cRun gb d cfg ops₁ σ out acc).2.2 (cRun gb d cfg ops₁ σ out acc).1
          (cRun gb d cfg ops₁ σ out acc).2.1 := by
  induction ops₁ generalizing σ out acc with
  | nil => rfl
  | cons op ops ih =>
    cases op with
    | header => exact ih _ _ _
    | chunk n t =>
      simp only [List.cons_append, cRun]
      split <;> exact ih _ _ _
    | footer => exact ih _ _ _
    | drain => exact ih _ _ _

/-- an accepted chunk call appends exactly `encChunk cfg.flags t` to the total output of the
history so far, and `t` to the accepted chunks -/
theorem accepted_chunk_call_appends (pre : List COp) (n : Nat) (t : AChunk) (m : ChunkMeta)
    (hk : (cChunk gb d cfg (C09.finalSt gb d cfg pre) n t).1 = .ok m) :
    C09.total gb d cfg (pre ++ [.chunk n t])
      = C09.total gb d cfg pre ++ encChunk gb d cfg.flags t ∧
    C09.accepted gb d cfg (pre ++ [.chunk n t]) = C09.accepted gb d cfg pre ++ [t] := by
  have e := C09.cChunk_ok_state gb d cfg _ n t m hk
  have c : cChunk gb d cfg (C09.finalSt gb d cfg pre) n t = (.ok m, _) := Prod.ext hk e
  unfold C09.finalSt at c
  simp only [C09.total, C09.accepted, cRun_append, cRun, c, List.append_assoc]
  exact ⟨trivial, trivial⟩

/-- a rejected chunk call appends nothing -/
theorem rejected_chunk_call_appends_nothing (pre : List COp) (n : Nat) (t : AChunk) (e : CErr)
    (hk : (cChunk gb d cfg (C09.finalSt gb d cfg pre) n t).1 = .error e) :
    C09.total gb d cfg (pre ++ [.chunk n t]) = C09.total gb d cfg pre ∧
    C09.accepted gb d cfg (pre ++ [.chunk n t]) = C09.accepted gb d cfg pre := by
  have e' := C09.cChunk_err_unchanged gb d cfg _ n t e hk
  have c : cChunk gb d cfg (C09.finalSt gb d cfg pre) n t = (.error e, _) := Prod.ext hk e'
  unfold C09.finalSt at c
  simp only [C09.total, C09.accepted, cRun_append, cRun, c]
  exact ⟨trivial, trivial⟩

/-- in any two histories in which a chunk call for the same trained chunk is accepted, the bits
the call appends to the total output are equal (and are `encChunk` of the flags and the chunk) -/
theorem chunk_bytes_same_in_all_histories (pre₁ pre₂ : List COp) (n₁ n₂ : Nat) (t : AChunk)
    (m₁ m₂ : ChunkMeta)
    (h₁ : (cChunk gb d cfg (C09.finalSt gb d cfg pre₁) n₁ t).1 = .ok m₁)
    (h₂ : (cChunk gb d cfg (C09.finalSt gb d cfg pre₂) n₂ t).1 = .ok m₂) :
    ∃ bits, bits = encChunk gb d cfg.flags t ∧
      C09.total gb d cfg (pre₁ ++ [.chunk n₁ t]) = C09.total gb d cfg pre₁ ++ bits ∧
      C09.total gb d cfg (pre₂ ++ [.chunk n₂ t]) = C09.total gb d cfg pre₂ ++ bits :=
  ⟨_, rfl, (accepted_chunk_call_appends gb d cfg pre₁ n₁ t m₁ h₁).1,
    (accepted_chunk_call_appends gb d cfg pre₂ n₂ t m₂ h₂).1⟩

/-- the same, as an equation between the appended suffixes -/
theorem chunk_bytes_same_in_all_histories' (pre₁ pre₂ : List COp) (n₁ n₂ : Nat) (t : AChunk)
    (m₁ m₂ : ChunkMeta)
    (h₁ : (cChunk gb d cfg (C09.finalSt gb d cfg pre₁) n₁ t).1 = .ok m₁)
    (h₂ : (cChunk gb d cfg (C09.finalSt gb d cfg pre₂) n₂ t).1 = .ok m₂) :
    (C09.total gb d cfg (pre₁ ++ [.chunk n₁ t])).drop (C09.total gb d cfg pre₁).length
      = (C09.total gb d cfg (pre₂ ++ [.chunk n₂ t])).drop (C09.total gb d cfg pre₂).length := by
  rw [(accepted_chunk_call_appends gb d cfg pre₁ n₁ t m₁ h₁).1,
    (accepted_chunk_call_appends gb d cfg pre₂ n₂ t m₂ h₂).1, List.drop_left, List.drop_left]

end Compressor

/-! ### 3. skipping -/

/-- inside a chunk body with enough data: skip advances by exactly `bits_remaining` -/
theorem skip_advances_by_remaining (σ : St) (b : Body) (ht : σ.terminated = false)
    (hb : σ.body = some b) (hl : b.bitsRemaining ≤ σ.rest.length) :
    skipChunkBody σ = (.ok (), { σ with rest := σ.rest.drop b.bitsRemaining,
                                        pos := σ.pos + b.bitsRemaining, body := none }) := by
  unfold skipChunkBody checkInChunkBody checkNotTerminated
  simp [ht, hb, hl]

/-- ... with too little data: `insufficient`, state unchanged -/
theorem skip_insufficient (σ : St) (b : Body) (ht : σ.terminated = false)
    (hb : σ.body = some b) (hl : σ.rest.length < b.bitsRemaining) :
    skipChunkBody σ = (.err .insufficient, σ) := by
  unfold skipChunkBody checkInChunkBody checkNotTerminated
  have : ¬ b.bitsRemaining ≤ σ.rest.length := by omega
  simp [ht, hb, this]

/-- ... outside a chunk body or after the footer: `invalid`, state unchanged -/
theorem skip_out_of_order (σ : St) (h : σ.terminated = true ∨ σ.body = none) :
    skipChunkBody σ = (.err .invalid, σ) := by
  unfold skipChunkBody checkInChunkBody checkNotTerminated
  rcases h with h | h
  · simp [h]
  · cases ht : σ.terminated <;> simp [h]

/-- after `k` bits of the body were consumed, skipping lands on the first bit after the chunk
(`k ≤ bodyBytes * 8` is not even needed: `bits_remaining` saturates) -/
theorem skip_after_partial_stream (σ : St) (b : Body) (body rest' : Bits) (k : Nat)
    (ht : σ.terminated = false) (hb : σ.body = some b)
    (hk : b.st.bitsProcessed = k)
    (hbody : body.length = b.bodyBytes * 8) (hrest : σ.rest = body.drop k ++ rest') :
    skipChunkBody σ = (.ok (), { σ with rest := rest', pos := σ.pos + (b.bodyBytes * 8 - k),
                                        body := none }) := by
  have hrem : b.bitsRemaining = b.bodyBytes * 8 - k := by simp [Body.bitsRemaining, hk]
  have hlen : (body.drop k).length = b.bodyBytes * 8 - k := by simp [hbody]
  have hl : b.bitsRemaining ≤ σ.rest.length := by
    rw [hrest, List.length_append, hlen, hrem]; omega
  rw [skip_advances_by_remaining σ b ht hb hl, hrem]
  have : σ.rest.drop (b.bodyBytes * 8 - k) = rest' := by
    rw [hrest, ← hlen, List.drop_left]
  rw [this]

/-- the position after skipping a partially streamed body is the position of the body's first bit
plus the metadata's byte size: `(pos - k) + bodyBytes * 8` -/
theorem skip_after_partial_stream_pos (σ : St) (b : Body) (body rest' : Bits) (k : Nat)
    (ht : σ.terminated = false) (hb : σ.body = some b)
    (hk : b.st.bitsProcessed = k) (hle : k ≤ b.bodyBytes * 8) (hpos : k ≤ σ.pos)
    (hbody : body.length = b.bodyBytes * 8) (hrest : σ.rest = body.drop k ++ rest') :
    (skipChunkBody σ).2.rest = rest' ∧
    (skipChunkBody σ).2.pos = (σ.pos - k) + b.bodyBytes * 8 := by
  rw [skip_after_partial_stream σ b body rest' k ht hb hk hbody hrest]
  refine ⟨rfl, ?_⟩
  show σ.pos + (b.bodyBytes * 8 - k) = (σ.pos - k) + b.bodyBytes * 8
  omega

/-- right after a chunk's metadata (fresh body), skipping lands on the first bit after the chunk,
using only the metadata's byte size -/
theorem skip_lands_on_next_chunk (σ : St) (b : Body) (body rest' : Bits)
    (ht : σ.terminated = false) (hb : σ.body = some b) (hfresh : b.st.bitsProcessed = 0)
    (hbody : body.length = b.bodyBytes * 8) (hrest : σ.rest = body ++ rest') :
    skipChunkBody σ = (.ok (), { σ with rest := rest', pos := σ.pos + b.bodyBytes * 8,
                                        body := none }) := by
  have := skip_after_partial_stream σ b body rest' 0 ht hb hfresh hbody
    (by simpa using hrest)
  simpa using this

/-! #### end to end: metadata, then skip, on the encoding of a well-formed chunk -/

/-- the metadata reader of the operational model on an encoded chunk: answers the chunk's
metadata and stops at the first bit of the body -/
theorem readChunkMeta_encChunk (fl : Flags) (c : AChunk)
    (hp : (prefDType d fl).Ok) (hs : d.signed.Ok) (hc : c.WF gb d fl) (rest : Bits) :
    readChunkMeta gb d fl (encChunk gb d fl c ++ rest)
      = .ok (some c.fixedMeta) (encBody c.cm.prefixes c.blocks ++ rest) := by
  have hcg : ∀ g, c.fixedMeta.commonGcd = some g → fl.gcds = true ∧ 1 ≤ g ∧
      (g = 1 ∨ (g - 1 < 2 ^ gb ((prefDType d fl).M - 1) ∧ g - 1 < (prefDType d fl).M - 1)) := by
    intro g hg
    have hg' : c.cm.commonGcd = some g := hg
    have := hc.common_ok
    rw [hg'] at this
    exact this
  have hm := decChunkMeta_enc gb d fl c.fixedMeta hp hs hc.n_lt hc.body_lt hc.moments_len
    hc.moments_ok hc.nprefs_lt hcg hc.prefixes_ok
  have h44 : Frozen.magicChunkByte < 2 ^ 8 := by decide
  have hne : ¬ (Frozen.magicChunkByte = Frozen.magicTerminationByte) := by decide
  unfold readChunkMeta
  simp only [encChunk, List.append_assoc, Parser.bind, readNat_natBits h44, hne, if_false, if_true,
    Parser.map, hm, Parser.pure]

/-- `ChunkBodyDecompressor::new` accepts a table that is empty only if there is nothing to decode
and is otherwise a complete tree: the body decompressor is fresh, with the metadata's byte size -/
theorem newBody_ok (fl : Flags) (m : ChunkMeta)
    (hempty : m.prefixes = [] → bodyCount fl m.n = 0)
    (htree : m.prefixes = [] ∨ completeTree (m.prefixes.map (·.code)) = true) :
    newBody fl m = .ok { n := bodyCount fl m.n, bodyBytes := m.bodyBytes, ps := m.prefixes,
                         st := { nProcessed := 0, bitsProcessed := 0, inc := none },
                         total := m.n, order := fl.order, moments := m.moments,
                         numsProcessed := 0 } := by
  unfold newBody
  cases hps : m.prefixes with
  | nil => have := hempty hps; simp [this]
  | cons p ps =>
    rcases htree with h | h
    · rw [hps] at h; cases h
    · rw [hps] at h; simp only [List.map_cons] at h; simp [h]

theorem newBody_fixedMeta (fl : Flags) (c : AChunk) (hc : c.WF gb d fl) :
    ∃ b, newBody fl c.fixedMeta = .ok b ∧ b.st.bitsProcessed = 0 ∧
      b.bodyBytes = c.fixedMeta.bodyBytes :=
  ⟨_, newBody_ok fl c.fixedMeta hc.empty_ok hc.tree_ok, rfl, rfl⟩

/-- random access: on the encoding of a well-formed chunk (whatever follows), `chunk_metadata`
answers the chunk's metadata and `skip_chunk_body` then lands on the first bit after the chunk —
nothing of the body is decoded, only the byte size in the metadata is used -/
theorem metadata_then_skip (fl : Flags) (c : AChunk) (σ : St) (rest' : Bits)
    (hp : (prefDType d fl).Ok) (hs : d.signed.Ok) (hc : c.WF gb d fl)
    (ht : σ.terminated = false) (hfl : σ.flags = some fl) (hb : σ.body = none)
    (hpos : σ.pos % 8 = 0) (hrest : σ.rest = encChunk gb d fl c ++ rest') :
    ∃ σ₁, chunkMetadata gb d σ = (.ok (some c.fixedMeta), σ₁) ∧
      skipChunkBody σ₁
        = (.ok (), { σ with rest := rest', pos := σ.pos + (encChunk gb d fl c).length }) := by
  obtain ⟨b, hnb, hfresh, hbb⟩ := newBody_fixedMeta gb d fl c hc
  have hrd := readChunkMeta_encChunk gb d fl c hp hs hc rest'
  obtain ⟨rest, pos, freed, flags, body, term⟩ := σ
  simp only at ht hfl hb hpos hrest
  subst ht hfl hb hrest
  have hcm : chunkMetadata gb d
      { rest := encChunk gb d fl c ++ rest', pos := pos, freed := freed, flags := some fl,
        body := none, terminated := false }
      = (.ok (some c.fixedMeta),
          { rest := encBody c.cm.prefixes c.blocks ++ rest',
            pos := pos + ((encChunk gb d fl c ++ rest').length
              - (encBody c.cm.prefixes c.blocks ++ rest').length),
            freed := freed, flags := some fl, body := some b, terminated := false }) := by
    unfold chunkMetadata checkNotTerminated
    simp only [Bool.false_eq_true, if_false, Option.isSome_none]
    rw [withReader_ok _ _ (some c.fixedMeta)
      { rest := encChunk gb d fl c ++ rest', pos := pos, freed := freed, flags := some fl,
        body := some b, terminated := false }
      (Rd.advance ⟨encChunk gb d fl c ++ rest', pos⟩ (encBody c.cm.prefixes c.blocks ++ rest'))]
    · rfl
    · simp only [runAligned, hpos, ne_eq, not_true_eq_false, if_false, runParser, hrd, hnb]
  refine ⟨_, hcm, ?_⟩
  have hmod := padToByte_length_mod (encBlocks (tableOf c.cm.prefixes) c.blocks)
  have hlen : (encBody c.cm.prefixes c.blocks).length = b.bodyBytes * 8 := by
    rw [hbb]; simp only [AChunk.fixedMeta, encBody]; omega
  rw [skip_lands_on_next_chunk _ b (encBody c.cm.prefixes c.blocks) rest' rfl rfl hfresh hlen rfl]
  have hp' : pos + ((encChunk gb d fl c ++ rest').length
      - (encBody c.cm.prefixes c.blocks ++ rest').length) + b.bodyBytes * 8
      = pos + (encChunk gb d fl c).length := by
    rw [← hlen]
    simp only [encChunk, List.length_append]
    omega
  simp only [hp']

/-- skipping `cs` whole chunks one after the other, from a chunk boundary: lands on the chunk
boundary behind them; `skipChunks` = `chunk_metadata` then `skip_chunk_body`, `k` times -/
def skipChunks (gb : Nat → Nat) (d : DType) : Nat → St → Option (List ChunkMeta × St)
  | 0, σ => some ([], σ)
  | k+1, σ =>
    match chunkMetadata gb d σ with
    | (.ok (some m), σ₁) =>
      match skipChunkBody σ₁ with
      | (.ok (), σ₂) => (skipChunks gb d k σ₂).map fun (ms, σ₃) => (m :: ms, σ₃)
      | _ => none
    | _ => none

theorem skip_chunks (fl : Flags) (cs : List AChunk) (σ : St) (rest' : Bits)
    (hp : (prefDType d fl).Ok) (hs : d.signed.Ok) (hcs : ∀ c ∈ cs, c.WF gb d fl)
    (ht : σ.terminated = false) (hfl : σ.flags = some fl) (hb : σ.body = none)
    (hpos : σ.pos % 8 = 0) (hrest : σ.rest = cs.flatMap (encChunk gb d fl) ++ rest') :
    skipChunks gb d cs.length σ
      = some (cs.map AChunk.fixedMeta,
          { σ with rest := rest', pos := σ.pos + (cs.flatMap (encChunk gb d fl)).length }) := by
  induction cs generalizing σ with
  | nil =>
    simp only [List.flatMap_nil, List.nil_append] at hrest
    simp only [List.length_nil, skipChunks, List.map_nil, List.flatMap_nil, Nat.add_zero, ← hrest]
  | cons c cs ih =>
    have hc := hcs c List.mem_cons_self
    have hcs' : ∀ c' ∈ cs, c'.WF gb d fl := fun c' h => hcs c' (List.mem_cons_of_mem _ h)
    simp only [List.flatMap_cons, List.append_assoc] at hrest
    obtain ⟨σ₁, h1, h2⟩ := metadata_then_skip gb d fl c σ _ hp hs hc ht hfl hb hpos hrest
    have hlen8 : (encChunk gb d fl c).length % 8 = 0 := by
      have h1 := padToByte_length_mod (encBlocks (tableOf c.cm.prefixes) c.blocks)
      have h2 := padToByte_length_mod (natBits Frozen.bitsNEntries c.fixedMeta.n
        ++ natBits Frozen.bitsBodySize c.fixedMeta.bodyBytes
        ++ c.fixedMeta.moments.flatMap (encMoment d.signed)
        ++ encPrefixes gb (prefDType d fl) fl c.fixedMeta.n c.fixedMeta.commonGcd c.fixedMeta.prefixes)
      simp only [encChunk, encChunkMeta, encBody, List.length_append, natBits_length]
      omega
    have := ih { σ with rest := cs.flatMap (encChunk gb d fl) ++ rest',
                        pos := σ.pos + (encChunk gb d fl c).length } hcs' ht hfl hb
      (by show (σ.pos + (encChunk gb d fl c).length) % 8 = 0; omega) rfl
    simp only [List.length_cons, skipChunks, h1, h2, this, Option.map_some, List.map_cons,
      List.flatMap_cons, List.length_append, Nat.add_assoc]

/-! ### 4. the hypotheses are satisfiable: a concrete well-formed file, its chunks re-arranged -/

section Examples
open C09 (exU32 exGb exCfg exChunk)

theorem exU32_ok : exU32.Ok where
  header_lt := by decide
  bits_pos := by decide
  raw_lt := by
    intro u hu
    have hu' : u < 2 ^ 32 := hu
    show u < 2 ^ 32
    exact hu'
  raw_inv := fun u hu => C12.rawToU_uToRaw exU32 (by decide) (by intro h; cases h) u hu

theorem exU32_signed_ok : exU32.signed.Ok where
  header_lt := by decide
  bits_pos := by decide
  raw_lt := by
    intro u _
    show (u + 2 ^ 31) % 2 ^ 32 < 2 ^ 32
    omega
  raw_inv := fun u hu => C12.rawToU_uToRaw exU32.signed (by decide) (by intro h; cases h) u hu

/-- five numbers `10, 12, 20, 10, 14`: two prefixes, `[10, 14]` with GCD 1 under code `0` and
`[20, 20]` under code `1` -/
def exChunk2 : AChunk :=
  { cm := { n := 5, bodyBytes := 0, moments := [], commonGcd := none,
            prefixes := [{ count := 4, lower := 10, upper := 14, code := [false], jump := none, gcd := 1 },
                         { count := 1, lower := 20, upper := 20, code := [true], jump := none, gcd := 1 }] },
    blocks := [.one 0 0, .one 0 2, .one 1 0, .one 0 0, .one 0 4] }

theorem exChunk_wf : exChunk.WF exGb exU32 exCfg.flags where
  n_lt := by decide
  moments_len := by decide
  moments_ok := by intro m hm; cases hm
  nprefs_lt := by decide
  common_ok := trivial
  prefixes_ok := by
    intro p hp
    simp only [exChunk, List.mem_singleton] at hp
    subst hp
    exact ⟨by decide, by decide, by decide, by decide, by decide, (by intro j h; cases h),
      by decide, rfl⟩
  tree_ok := Or.inr (by decide)
  empty_ok := by intro h; cases h
  blocks_ok := by
    intro b hb
    simp only [exChunk, List.mem_cons, List.not_mem_nil, or_false, or_self] at hb
    subst hb
    exact ⟨by decide, rfl, by decide⟩
  count_ok := by decide
  body_lt := by decide

theorem exChunk2_wf : exChunk2.WF exGb exU32 exCfg.flags where
  n_lt := by decide
  moments_len := by decide
  moments_ok := by intro m hm; cases hm
  nprefs_lt := by decide
  common_ok := trivial
  prefixes_ok := by
    intro p hp
    simp only [exChunk2, List.mem_cons, List.not_mem_nil, or_false] at hp
    rcases hp with hp | hp <;> subst hp <;>
      exact ⟨by decide, by decide, by decide, by decide, by decide, (by intro j h; cases h),
        by decide, rfl⟩
  tree_ok := Or.inr (by decide)
  empty_ok := by intro h; cases h
  blocks_ok := by
    intro b hb
    simp only [exChunk2, List.mem_cons, List.not_mem_nil, or_false] at hb
    rcases hb with hb | hb | hb | hb | hb <;> subst hb <;> exact ⟨by decide, rfl, by decide⟩
  count_ok := by decide
  body_lt := by decide

def exFile : AFile := { flags := exCfg.flags, chunks := [exChunk, exChunk2] }

theorem exFile_wf : exFile.WF exGb exU32 where
  dtype_ok := exU32_ok
  pref_dtype_ok := exU32_ok
  signed_ok := exU32_signed_ok
  order_le := by decide
  chunks_ok := by
    intro c hc
    simp only [exFile, List.mem_cons, List.not_mem_nil, or_false] at hc
    rcases hc with hc | hc <;> subst hc
    · exact exChunk_wf
    · exact exChunk2_wf

/-- the second chunk alone, then the first one twice: a valid file of exactly these chunks -/
example : decodeFile exGb exU32 (encHeader exU32 exFile.flags
      ++ [exChunk2, exChunk, exChunk].flatMap (encChunk exGb exU32 exFile.flags)
      ++ natBits 8 Frozen.magicTerminationByte)
    = .ok { flags := exFile.flags, chunks := [exChunk2.toD, exChunk.toD, exChunk.toD] } [] :=
  sub_sequence exGb exU32 exFile exFile_wf [exChunk2, exChunk, exChunk] (by
    intro c hc
    simp only [List.mem_cons, List.not_mem_nil, or_false] at hc
    rcases hc with hc | hc | hc <;> subst hc <;> simp [exFile])

/-- the numbers of the second chunk -/
example : exChunk2.toD.us = [10, 12, 20, 10, 14] := by decide

/-- C09's concrete history (with its rejected calls) through `complete_output_decodes'`: the
hypotheses of that theorem are satisfiable too -/
example : decodeFile exGb exU32 (C09.total exGb exU32 exCfg C09.exHistory)
    = .ok { flags := exCfg.flags, chunks := [exChunk.toD] } [] :=
  C09.complete_output_decodes' exGb exU32 exCfg C09.exHistory (by decide) exU32_ok exU32_ok
    exU32_signed_ok (by
      intro c hc
      have : C09.accepted exGb exU32 exCfg C09.exHistory = [exChunk] := rfl
      rw [this, List.mem_singleton] at hc
      subst hc
      exact exChunk_wf)

end Examples

end C11
end Qco
