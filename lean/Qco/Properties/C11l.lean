/-
C11l — chunks are self-contained and randomly accessible, on the LITERAL decompressor.

C11 (the decompressor side) restated for `Qco.DecompLit` (`Qco/Op/DecompLit.lean`), the statement-level model of
`Decompressor<T>`:

1. `literal_sub_sequence`: header ++ any selection of a well-formed file's chunks (any sub-sequence, any order, with
   repetitions) ++ footer, as bytes, is decoded by the literal `simple_decompress` to exactly the numbers of the
   selected chunks.
2. `literal_random_access`: on the bytes of a well-formed file, `header()`, then `chunk_metadata()` /
   `skip_chunk_body()` for the chunks before chunk `c` (`DecompLit.skipChunks`), lands exactly on the first bit of
   chunk `c` — `bit_idx` is the length of the header and the skipped chunks, and the next byte is the magic chunk
   byte — using only the byte sizes in the metadata (nothing of the skipped bodies is decoded); `chunk_metadata()`
   and `chunk_body()` then answer the metadata and the numbers of `c`.

The abstract decompressor (C03, C11) and the refinement layer DL (C08d) appear only in the proofs.  Hypotheses that
remain: `d ∈ Frozen.dtypes`, `f.WF gb d`, `∀ x, gb x ≤ d.uBits`, fewer than `2^56` bytes written.  Property theorems
only; helper lemmas in `Qco/Lemmas/LitCor/Skip.lean`.
-/
import Qco.Lemmas.LitCor.Skip
import Qco.Lemmas.LitCor.Examples
import Qco.Properties.C03l
namespace Qco
namespace C11l
open Qco.WB Qco.Op Qco.MetaIO Qco.DecompLit

variable {d : DType} {gb : Nat → Nat}

/-- **any selection of chunks is a file the literal decompressor decodes**: the bytes of header ++ chunks taken from
a well-formed file (any of them, in any order, with repetitions) ++ footer decode to exactly the numbers of those
chunks -/
theorem literal_sub_sequence (hd : d ∈ Frozen.dtypes) (hgb : ∀ x, gb x ≤ d.uBits) (f : AFile) (h : f.WF gb d)
    (cs' : List AChunk) (hsub : ∀ c ∈ cs', c ∈ f.chunks)
    (hlen : (fileBytes gb d { flags := f.flags, chunks := cs' }).length < 2 ^ 56) :
    (DecompLit.simpleDecompress gb d
      (DecompLit.write LitSt.init (fileBytes gb d { flags := f.flags, chunks := cs' }))).1
      = .ok (cs'.map fun c => chunkVals d f.flags c.toD).flatten := by
  have hwf : AFile.WF gb d { flags := f.flags, chunks := cs' } :=
    ⟨h.dtype_ok, h.pref_dtype_ok, h.signed_ok, h.order_le, fun c hc => h.chunks_ok c (hsub c hc)⟩
  have := C03l.literal_reader_total hd hgb _ hwf hlen
  simpa [fileVals, AFile.toD, List.map_map, Function.comp_def] using this

/-- **random access on the literal decompressor**: skip the chunks before `c`, land on `c`'s magic byte, decode `c` -/
theorem literal_random_access (hd : d ∈ Frozen.dtypes) (hgb : ∀ x, gb x ≤ d.uBits) (f : AFile) (h : f.WF gb d)
    (hlen : (fileBytes gb d f).length < 2 ^ 56) (pre post : List AChunk) (c : AChunk)
    (hsplit : f.chunks = pre ++ c :: post) :
    ∃ σ1 σ2 σ3,
      DecompLit.header d (DecompLit.write LitSt.init (fileBytes gb d f)) = (.ok f.flags, σ1) ∧
      DecompLit.skipChunks gb d pre.length σ1
        = some (pre.map fun p => RMeta.ofSpec f.flags p.fixedMeta, σ2) ∧
      DecompLit.bitIdx σ2 = (encHeader d f.flags ++ pre.flatMap (encChunk gb d f.flags)).length ∧
      (σ2.words.toBits.drop σ2.state.bitIdx).take 8 = natBits 8 Frozen.magicChunkByte ∧
      DecompLit.chunkMetadata gb d σ2 = (.ok (some (RMeta.ofSpec f.flags c.fixedMeta)), σ3) ∧
      (DecompLit.chunkBody d σ3).1 = .ok (chunkVals d f.flags c.toD) := by
  have hdok := dok_of_mem hd
  have hmodg : ∀ l : List AChunk, (l.flatMap (encChunk gb d f.flags)).length % 8 = 0 := by
    intro l
    induction l with
    | nil => rfl
    | cons p ps ih =>
      have := C03.encChunk_length_mod gb d f.flags p
      simp only [List.flatMap_cons, List.length_append]
      omega
  have hc : c.WF gb d f.flags := h.chunks_ok c (by rw [hsplit]; simp)
  have hpre : ∀ p ∈ pre, p.WF gb d f.flags := fun p hp => h.chunks_ok p (by rw [hsplit]; simp [hp])
  -- the abstract run
  let tl : Bits := post.flatMap (encChunk gb d f.flags) ++ (natBits 8 Frozen.magicTerminationByte ++ [])
  have henc : encodeFile gb d f = encHeader d f.flags ++
      (pre.flatMap (encChunk gb d f.flags) ++ (encChunk gb d f.flags c ++ tl)) := by
    simp only [encodeFile, hsplit, List.flatMap_append, List.flatMap_cons, List.append_assoc, tl, List.append_nil]
  have a1 : Op.header d (Op.write St.init (encodeFile gb d f)) = (.ok f.flags,
      stIdle f.flags (pre.flatMap (encChunk gb d f.flags) ++ (encChunk gb d f.flags c ++ tl)) 48) := by
    rw [henc]; exact C03.api_header d f.flags h.dtype_ok.header_lt h.order_le _
  have a2 := C11.skip_chunks gb d f.flags pre
    (stIdle f.flags (pre.flatMap (encChunk gb d f.flags) ++ (encChunk gb d f.flags c ++ tl)) 48)
    (encChunk gb d f.flags c ++ tl) h.pref_dtype_ok h.signed_ok hpre rfl rfl rfl (by show 48 % 8 = 0; omega) rfl
  have hmod : (pre.flatMap (encChunk gb d f.flags)).length % 8 = 0 := hmodg pre
  have hst : ({ stIdle f.flags (pre.flatMap (encChunk gb d f.flags) ++ (encChunk gb d f.flags c ++ tl)) 48 with
        rest := encChunk gb d f.flags c ++ tl,
        pos := (stIdle f.flags (pre.flatMap (encChunk gb d f.flags) ++ (encChunk gb d f.flags c ++ tl)) 48).pos
          + (pre.flatMap (encChunk gb d f.flags)).length } : Op.St)
      = stIdle f.flags (encChunk gb d f.flags c ++ tl) (48 + (pre.flatMap (encChunk gb d f.flags)).length) := rfl
  rw [hst] at a2
  obtain ⟨a3s, a3, a4⟩ := C03.api_chunk matchStride matchStride_weakLazyOf gb d f.flags c h.pref_dtype_ok h.signed_ok hc
    tl (by simp only [tl, List.length_append, natBits_length, Op.lookahead]; omega)
    (48 + (pre.flatMap (encChunk gb d f.flags)).length) (by omega)
  -- the literal run
  have hs0 := file_sim0 h
  have hz0 := file_size0 h hlen
  obtain ⟨r1, r2⟩ := header_refines hs0 hz0
  have hw1 := header_words d (DecompLit.write LitSt.init (fileBytes gb d f))
  have hf1 := op_header_freed d (Op.write St.init (encodeFile gb d f))
  rw [a1] at r1 r2 hf1
  simp only at r1 r2 hf1
  have hz1 := hz0.of_eq hw1 hf1
  obtain ⟨lit2, q1, q2, q3, q4, _⟩ := skipChunks_refines hdok hgb f.flags pre.length _ _ r2 hz1 rfl a2
  obtain ⟨m1, m2⟩ := chunkMetadata_refines hdok hgb q2 q3
  have hwm := chunkMetadata_words gb d lit2
  have hfm := op_chunkMetadata_freed gb d
    (stIdle f.flags (encChunk gb d f.flags c ++ tl) (48 + (pre.flatMap (encChunk gb d f.flags)).length))
  rw [a3] at m1 m2 hfm
  simp only at m1 m2 hfm
  obtain ⟨mm, hmm, fl', hfl', hmeq⟩ := m1.ok_rel
  have hfe : fl' = f.flags := by
    have : (some f.flags : Option Flags) = some fl' := hfl'
    injection this with this; exact this.symm
  subst hfe
  simp only [Option.map_some] at hmeq
  subst hmeq
  obtain ⟨b1, _⟩ := chunkBody_refines m2 (q3.of_eq hwm hfm)
  rw [a4] at b1
  refine ⟨_, lit2, _, Prod.ext r1.ok_eq rfl, ?_, ?_, ?_, Prod.ext hmm rfl, b1.ok_eq⟩
  · rw [q1, List.map_map]; rfl
  · have hp := q2.pos
    have : (stIdle f.flags (encChunk gb d f.flags c ++ tl) (48 + (pre.flatMap (encChunk gb d f.flags)).length)).freed = 0 := rfl
    rw [this] at hp
    unfold DecompLit.bitIdx
    rw [List.length_append, C02.header_size d f.flags h.order_le]
    have hp' : 48 + (pre.flatMap (encChunk gb d f.flags)).length = 0 + lit2.state.bitIdx := hp
    omega
  · rw [q2.rest]
    show ((encChunk gb d f.flags c ++ tl).take 8) = _
    simp only [encChunk, List.append_assoc]
    rw [List.take_append_of_le_length (by simp), List.take_of_length_le (by simp)]

/-! ### non-vacuity: `C08d.deltaFile`'s chunk three times, and random access to the last copy -/

open C08d (i32 gbx i32_mem gbx_le deltaFile)

/-- the file with the chunk of `deltaFile` three times (the selection `[c, c, c]` of the chunks `[c]`) -/
def tripleFile : AFile := { flags := deltaFlags, chunks := [deltaChunk, deltaChunk, deltaChunk] }

set_option maxRecDepth 100000 in
theorem tripleFile_bytes : fileBytes gbx i32 tripleFile
    = deltaFile.take 6 ++ (deltaFile.drop 6).take 35 ++ (deltaFile.drop 6).take 35 ++ (deltaFile.drop 6).take 35 ++ [46] := by
  decide

theorem tripleFile_wf : tripleFile.WF gbx i32 :=
  ⟨i32_ok, i32_signed_ok, i32_signed_ok, by decide, fun c hc => by
    simp only [tripleFile, List.mem_cons, List.not_mem_nil, or_false, or_self] at hc
    subst hc; exact deltaChunk_wf⟩

example : (DecompLit.simpleDecompress gbx i32 (DecompLit.write LitSt.init (fileBytes gbx i32 tripleFile))).1
    = .ok [5, 4, 4, 8, 9, 13, 5, 4, 4, 8, 9, 13, 5, 4, 4, 8, 9, 13] := by
  have := literal_sub_sequence i32_mem gbx_le deltaAFile deltaAFile_wf [deltaChunk, deltaChunk, deltaChunk]
    (by intro c hc; simp only [List.mem_cons, List.not_mem_nil, or_false, or_self] at hc; subst hc; simp [deltaAFile])
    (by show (fileBytes gbx i32 tripleFile).length < 2 ^ 56; rw [tripleFile_bytes]; decide)
  have hv : chunkVals i32 deltaFlags deltaChunk.toD = [5, 4, 4, 8, 9, 13] := by decide
  simpa [deltaAFile, hv, tripleFile] using this

set_option maxRecDepth 100000 in
/-- random access to the third chunk: two chunks skipped, `bit_idx` = 6 + 2·35 bytes, then the chunk's numbers -/
example : ∃ σ1 σ2 σ3,
    DecompLit.header i32 (DecompLit.write LitSt.init (fileBytes gbx i32 tripleFile)) = (.ok deltaFlags, σ1) ∧
    (DecompLit.skipChunks gbx i32 2 σ1).map (·.2) = some σ2 ∧ DecompLit.bitIdx σ2 = 8 * 76 ∧
    DecompLit.chunkMetadata gbx i32 σ2 = (.ok (some (RMeta.ofSpec deltaFlags deltaChunk.fixedMeta)), σ3) ∧
    (DecompLit.chunkBody i32 σ3).1 = .ok [5, 4, 4, 8, 9, 13] := by
  obtain ⟨σ1, σ2, σ3, h1, h2, h3, _, h5, h6⟩ := literal_random_access i32_mem gbx_le tripleFile tripleFile_wf
    (by rw [tripleFile_bytes]; decide) [deltaChunk, deltaChunk] [] deltaChunk rfl
  have hl : (encHeader i32 tripleFile.flags ++ [deltaChunk, deltaChunk].flatMap (encChunk gbx i32 tripleFile.flags)).length
      = 8 * 76 := by decide
  have hv : chunkVals i32 deltaFlags deltaChunk.toD = [5, 4, 4, 8, 9, 13] := by decide
  exact ⟨σ1, σ2, σ3, h1, by rw [show [deltaChunk, deltaChunk].length = 2 from rfl] at h2; rw [h2]; rfl,
    by rw [h3, hl], h5, by rw [h6]; exact congrArg _ hv⟩

-- the literal model computes the same (evaluation)
#guard (match DecompLit.header i32 (DecompLit.write LitSt.init (fileBytes gbx i32 tripleFile)) with
  | (.ok _, σ1) =>
    match DecompLit.skipChunks gbx i32 2 σ1 with
    | some (ms, σ2) => ms.length == 2 && σ2.state.bitIdx == 608 &&
      (match DecompLit.chunkMetadata gbx i32 σ2 with
       | (.ok (some _), σ3) => (DecompLit.chunkBody i32 σ3).1 == .ok [5, 4, 4, 8, 9, 13]
       | _ => false)
    | none => false
  | _ => false)

end C11l
end Qco
