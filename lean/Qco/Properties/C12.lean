/-
C12 — number <-> integer mappings are order-preserving bijections; the type tag is checked.
Property theorems only (helper lemmas are private to this file and purely arithmetical).
All statements are for *every* data type descriptor with at least one unsigned bit, hence for the
15 rows of the table generated from /repo (`generated_table_eq_frozen` pins that table).
-/
import Qco.Generated.Constants
import Qco.Spec.File
namespace Qco
namespace C12
open DType

/-- the table extracted from the source equals the frozen one the model is written against -/
theorem generated_table_eq_frozen : Generated.dtypes = Frozen.dtypes := by decide

/-- every data type has a distinct header byte -/
theorem header_bytes_nodup : (Generated.dtypes.map (·.headerByte)).Nodup := by decide

theorem all_have_bits : ∀ d ∈ Generated.dtypes, 1 ≤ d.uBits ∧ d.physBits ≤ d.uBits := by decide

private theorem M_eq (d : DType) (h : 1 ≤ d.uBits) : d.M = 2 * d.H := by
  unfold DType.M DType.H
  have : d.uBits = (d.uBits - 1) + 1 := by omega
  rw [this, Nat.pow_succ]; simp; omega

private theorem H_pos (d : DType) : 0 < d.H := Nat.two_pow_pos _

/-- valid value patterns of a type: `W`-bit patterns, `0/1` for bool -/
def valid (d : DType) (x : Nat) : Prop := if d.kind = .bool then x ≤ 1 else x < d.M

/-- `from_unsigned ∘ to_unsigned = id`, bit-exactly, on every value -/
theorem fromU_toU (d : DType) (h : 1 ≤ d.uBits) (x : Nat) (hx : valid d x) : d.fromU (d.toU x) = x := by
  have hM := M_eq d h; have hH := H_pos d
  unfold valid at hx; unfold DType.fromU DType.toU
  cases hk : d.kind <;> simp only [hk] at hx ⊢ <;> simp at hx
  · -- int
    generalize d.H = H at *; generalize d.M = M at *; subst hM
    by_cases h1 : x < H
    · rw [Nat.mod_eq_of_lt (by omega : x + H < 2 * H)]
      have : x + H + H = x + 2 * H := by omega
      rw [this, Nat.add_mod_right, Nat.mod_eq_of_lt (by omega)]
    · have e1 : (x + H) % (2 * H) = x - H := by
        rw [Nat.mod_eq_sub_mod (by omega), Nat.mod_eq_of_lt (by omega)]; omega
      rw [e1, Nat.mod_eq_of_lt (by omega)]; omega
  · -- float
    generalize d.H = H at *; generalize d.M = M at *; subst hM
    by_cases h1 : H ≤ x
    · simp only [h1, if_true]
      have : ¬ (H ≤ 2 * H - 1 - x) := by omega
      simp only [this, if_false]; omega
    · simp only [h1, if_false]
      have : H ≤ x + H := by omega
      simp only [this, if_true]; omega
  · -- bool
    by_cases h0 : x = 0
    · simp [h0]
    · have : x = 1 := by omega
      simp [this]
  · -- ts96
    generalize d.H = H at *; generalize d.M = M at *; subst hM
    by_cases h1 : x < H
    · rw [Nat.mod_eq_of_lt (by omega : x + H < 2 * H)]
      have : x + H + H = x + 2 * H := by omega
      rw [this, Nat.add_mod_right, Nat.mod_eq_of_lt (by omega)]
    · have e1 : (x + H) % (2 * H) = x - H := by
        rw [Nat.mod_eq_sub_mod (by omega), Nat.mod_eq_of_lt (by omega)]; omega
      rw [e1, Nat.mod_eq_of_lt (by omega)]; omega

/-- `to_unsigned` lands in the type's unsigned range -/
theorem toU_lt (d : DType) (h : 1 ≤ d.uBits) (x : Nat) (hx : valid d x) : d.toU x < d.M := by
  have hM := M_eq d h; have hH := H_pos d
  unfold valid at hx; unfold DType.toU
  cases hk : d.kind <;> simp only [hk] at hx ⊢ <;> simp at hx
  · exact hx
  · exact Nat.mod_lt _ (by omega)
  · split <;> omega
  · split <;> omega
  · exact Nat.mod_lt _ (by omega)

/-- `to_unsigned ∘ from_unsigned = id` on the unsigned image (all of `[0, 2^W)`, `{0,1}` for bool) -/
theorem toU_fromU (d : DType) (h : 1 ≤ d.uBits) (u : Nat) (hu : valid d u) : d.toU (d.fromU u) = u := by
  have hM := M_eq d h; have hH := H_pos d
  unfold valid at hu; unfold DType.fromU DType.toU
  cases hk : d.kind <;> simp only [hk] at hu ⊢ <;> simp at hu
  · generalize d.H = H at *; generalize d.M = M at *; subst hM
    by_cases h1 : u < H
    · rw [Nat.mod_eq_of_lt (by omega : u + H < 2 * H)]
      have : u + H + H = u + 2 * H := by omega
      rw [this, Nat.add_mod_right, Nat.mod_eq_of_lt (by omega)]
    · have e1 : (u + H) % (2 * H) = u - H := by
        rw [Nat.mod_eq_sub_mod (by omega), Nat.mod_eq_of_lt (by omega)]; omega
      rw [e1, Nat.mod_eq_of_lt (by omega)]; omega
  · generalize d.H = H at *; generalize d.M = M at *; subst hM
    by_cases h1 : H ≤ u
    · simp only [h1, if_true]
      have : ¬ (H ≤ u - H) := by omega
      simp only [this, if_false]; omega
    · simp only [h1, if_false]
      have : H ≤ 2 * H - 1 - u := by omega
      simp only [this, if_true]; omega
  · by_cases h0 : u = 0
    · simp [h0]
    · have : u = 1 := by omega
      simp [this]
  · generalize d.H = H at *; generalize d.M = M at *; subst hM
    by_cases h1 : u < H
    · rw [Nat.mod_eq_of_lt (by omega : u + H < 2 * H)]
      have : u + H + H = u + 2 * H := by omega
      rw [this, Nat.add_mod_right, Nat.mod_eq_of_lt (by omega)]
    · have e1 : (u + H) % (2 * H) = u - H := by
        rw [Nat.mod_eq_sub_mod (by omega), Nat.mod_eq_of_lt (by omega)]; omega
      rw [e1, Nat.mod_eq_of_lt (by omega)]; omega

/-- the natural order of each type as a key into `Int`: unsigned value; two's-complement value;
sign-magnitude for floats (`-NaN < -inf < … < -0.0 < +0.0 < … < +inf < +NaN`, by payload);
`false < true` -/
def key (d : DType) (x : Nat) : Int :=
  match d.kind with
  | .uint => x
  | .int => if x < d.H then (x : Int) else (x : Int) - d.M
  | .ts96 => if x < d.H then (x : Int) else (x : Int) - d.M
  | .float => if x < d.H then (x : Int) else -((x : Int) - d.H) - 1
  | .bool => x

/-- `to_unsigned` is strictly increasing for the type's natural order (and reflects it) -/
theorem toU_strictMono (d : DType) (h : 1 ≤ d.uBits) (x y : Nat) (hx : valid d x) (hy : valid d y) :
    key d x < key d y ↔ d.toU x < d.toU y := by
  have hM := M_eq d h; have hH := H_pos d
  unfold valid at hx hy; unfold key DType.toU
  cases hk : d.kind <;> simp only [hk] at hx hy ⊢ <;> simp at hx hy
  · omega
  · generalize d.H = H at *; generalize d.M = M at *; subst hM
    have ex : (x + H) % (2 * H) = if x < H then x + H else x - H := by
      split
      · exact Nat.mod_eq_of_lt (by omega)
      · rw [Nat.mod_eq_sub_mod (by omega), Nat.mod_eq_of_lt (by omega)]; omega
    have ey : (y + H) % (2 * H) = if y < H then y + H else y - H := by
      split
      · exact Nat.mod_eq_of_lt (by omega)
      · rw [Nat.mod_eq_sub_mod (by omega), Nat.mod_eq_of_lt (by omega)]; omega
    rw [ex, ey]; split <;> split <;> omega
  · generalize d.H = H at *; generalize d.M = M at *; subst hM
    split <;> split <;> split <;> split <;> omega
  · by_cases h0 : x = 0 <;> by_cases h1 : y = 0 <;> simp [h0, h1] <;> omega
  · generalize d.H = H at *; generalize d.M = M at *; subst hM
    have ex : (x + H) % (2 * H) = if x < H then x + H else x - H := by
      split
      · exact Nat.mod_eq_of_lt (by omega)
      · rw [Nat.mod_eq_sub_mod (by omega), Nat.mod_eq_of_lt (by omega)]; omega
    have ey : (y + H) % (2 * H) = if y < H then y + H else y - H := by
      split
      · exact Nat.mod_eq_of_lt (by omega)
      · rw [Nat.mod_eq_sub_mod (by omega), Nat.mod_eq_of_lt (by omega)]; omega
    rw [ex, ey]; split <;> split <;> omega

/-- the signed mapping is inverted exactly -/
theorem fromS_toS (d : DType) (h : 1 ≤ d.uBits) (x : Nat) (hx : valid d x) : d.fromS (d.toS x) = x := by
  have hM := M_eq d h; have hH := H_pos d
  unfold valid at hx; unfold DType.fromS DType.toS
  cases hk : d.kind <;> simp only [hk] at hx ⊢ <;> simp at hx
  generalize d.H = H at *; generalize d.M = M at *; subst hM
  by_cases h1 : x < H
  · rw [Nat.mod_eq_of_lt (by omega : x + H < 2 * H)]
    have : x + H + H = x + 2 * H := by omega
    rw [this, Nat.add_mod_right, Nat.mod_eq_of_lt (by omega)]
  · have e1 : (x + H) % (2 * H) = x - H := by
      rw [Nat.mod_eq_sub_mod (by omega), Nat.mod_eq_of_lt (by omega)]; omega
    rw [e1, Nat.mod_eq_of_lt (by omega)]; omega

theorem toS_fromS (d : DType) (h : 1 ≤ d.uBits) (s : Nat) (hs : valid d s) : d.toS (d.fromS s) = s := by
  have hM := M_eq d h; have hH := H_pos d
  unfold valid at hs; unfold DType.fromS DType.toS
  cases hk : d.kind <;> simp only [hk] at hs ⊢ <;> simp at hs
  generalize d.H = H at *; generalize d.M = M at *; subst hM
  by_cases h1 : s < H
  · rw [Nat.mod_eq_of_lt (by omega : s + H < 2 * H)]
    have : s + H + H = s + 2 * H := by omega
    rw [this, Nat.add_mod_right, Nat.mod_eq_of_lt (by omega)]
  · have e1 : (s + H) % (2 * H) = s - H := by
      rw [Nat.mod_eq_sub_mod (by omega), Nat.mod_eq_of_lt (by omega)]; omega
    rw [e1, Nat.mod_eq_of_lt (by omega)]; omega

/-- the fixed-width byte representation is inverted exactly: `from_bytes (to_bytes x) = x`,
in the unsigned domain (for 96-bit timestamps on the documented range `uValid`) -/
theorem rawToU_uToRaw (d : DType) (h : 1 ≤ d.uBits) (hts : d.kind = .ts96 → d.tsHalf ≤ d.H)
    (u : Nat) (hu : d.uValid u) : d.rawToU (d.uToRaw u) = some u := by
  unfold DType.uValid at hu; unfold DType.rawToU DType.uToRaw
  cases hk : d.kind <;> simp only [hk] at hu ⊢
  · simp [DType.toU, DType.fromU, hk]
  · have := toU_fromU d h u (by unfold valid; simp [hk]; exact hu); simp [this]
  · have := toU_fromU d h u (by unfold valid; simp [hk]; exact hu); simp [this]
  · by_cases h0 : u = 0
    · simp [h0]
    · have : u = 1 := by omega
      simp [this]
  · have := hts hk
    have hlt : u + d.tsHalf - d.H < 2 * d.tsHalf := by omega
    simp only [hlt, if_true]; congr 1; omega

/-- outside the documented range a 96-bit timestamp's bytes are rejected -/
theorem rawToU_reject (d : DType) (hk : d.kind = .ts96) (raw : Nat) (h : 2 * d.tsHalf ≤ raw) :
    d.rawToU raw = none := by
  unfold DType.rawToU; simp only [hk]
  have : ¬ raw < 2 * d.tsHalf := by omega
  simp [this]

/-- decoding a file as another data type is rejected: whatever follows, the header of a file
written for `d` is `corrupt` for every `d'` with a different header byte -/
theorem tag_checked (d d' : DType) (fl : Flags) (rest : Bits) (hb : d.headerByte < 256)
    (hne : d.headerByte ≠ d'.headerByte) :
    decHeader d' (encHeader d fl ++ rest) = .corrupt := by
  unfold decHeader encHeader
  have hm : bytesBits Frozen.magicHeader = natBits 32 0x71636f21 := by decide
  rw [hm]
  simp only [List.append_assoc, Parser.bind, Parser.readNat_natBits (by decide : 0x71636f21 < 2^32)]
  simp only [ne_eq, not_true_eq_false, if_false]
  simp only [Parser.bind, Parser.readNat_natBits (show d.headerByte < 2^8 by simpa using hb)]
  simp [hne, Parser.corrupt]

/-- non-vacuity: the hypotheses are met by every row of the generated table -/
example : ∀ d ∈ Generated.dtypes, 1 ≤ d.uBits ∧ d.headerByte < 256 ∧ (d.kind = .ts96 → d.tsHalf ≤ d.H) := by
  decide

end C12
end Qco
