/-
C12l — Layer DT: the `NumberLike` / `SignedLike` / `UnsignedLike` implementations of
`q_compress/src/data_types/*.rs`, modelled statement by statement with bit operations and casts
(`Qco/DType/Lit.lean`), COMPUTE the arithmetic maps `DType.toU/fromU/toS/fromS/sAdd/sSub/uToRaw/rawToU`
that C12 (and every other property) is stated about.

Everything below is for EVERY bit pattern and EVERY width `W = d.uBits ≥ 1` unless a statement says
otherwise (the byte-level statements need `8 ∣ W`; the two 96-bit timestamp types are `W = 128`, `P = 96`).
Property theorems only; the proofs are in `Qco/Lemmas/DTypeLit/*.lean`.

Reading guide.  A value of a data type is the pattern `Qco.DType` uses (`x < 2^W`).  In the literal model an
`iW` is a mathematical integer in range with the *documented* semantics of `wrapping_add`, `wrapping_sub`,
`as`; `DTLit.asI W` is the cast `uW as iW`, `DTLit.asU W` the cast `iW as uW` (two's complement — the
theorems `asU_asI`, `asI_asU` say they are inverse bijections), `DTLit.bnot W` is `!`, `^^^`/`&&&` are `^`/`&`.
-/
import Qco.Lemmas.DTypeLit.Table
import Qco.Lemmas.DTypeLit.Shifts
namespace Qco
namespace C12l
open DType

/-! ## the bit identities behind the arithmetic maps -/

/-- `!x = uW::MAX - x`: flipping all `W` bits of `x` -/
theorem not_eq_max_sub (W x : Nat) (hx : x < 2^W) : DTLit.bnot W x = 2^W - 1 - x := DTLit.bnot_eq W x hx

/-- `x ^ SIGN_MASK` is adding `H = 2^(W-1)` modulo `M = 2^W` -/
theorem xor_sign_eq_add_half (W x : Nat) (h : 1 ≤ W) (hx : x < 2^W) :
    x ^^^ 2^(W-1) = (x + 2^(W-1)) % 2^W := by
  have hM := DTLit.two_pow_pred W h
  rw [hM] at hx ⊢
  exact DTLit.xor_signbit_mod (W-1) x hx

/-- `x & SIGN_MASK > 0` is the comparison `H ≤ x` -/
theorem and_sign_pos_iff (W x : Nat) (h : 1 ≤ W) (hx : x < 2^W) : (x &&& 2^(W-1) > 0) ↔ 2^(W-1) ≤ x := by
  rw [DTLit.two_pow_pred W h] at hx
  exact DTLit.and_signbit_pos (W-1) x hx

/-- the casts `uW as iW` and `iW as uW` are inverse to each other (two's complement) -/
theorem casts_inverse (W : Nat) (h : 1 ≤ W) :
    (∀ x, x < 2^W → DTLit.asU W (DTLit.asI W x) = x ∧ DTLit.inI W (DTLit.asI W x) = true)
    ∧ (∀ z, DTLit.inI W z = true → DTLit.asI W (DTLit.asU W z) = z ∧ DTLit.asU W z < 2^W) :=
  ⟨fun x hx => ⟨DTLit.asU_asI W x hx, DTLit.asI_inI W x h⟩,
   fun z hz => ⟨DTLit.asI_asU W h z hz, DTLit.asU_lt W z⟩⟩

/-- `iW::wrapping_add` / `wrapping_sub` (mathematical result wrapped into the type) are addition /
subtraction of the two's-complement patterns modulo `2^W`, and stay in range -/
theorem wrapping_on_patterns (W : Nat) (h : 1 ≤ W) (a b : Int) :
    DTLit.asU W (DTLit.wrappingAddI W a b) = (DTLit.asU W a + DTLit.asU W b) % 2^W
    ∧ DTLit.asU W (DTLit.wrappingSubI W a b) = (DTLit.asU W a + (2^W - DTLit.asU W b)) % 2^W
    ∧ DTLit.inI W (DTLit.wrappingAddI W a b) = true ∧ DTLit.inI W (DTLit.wrappingSubI W a b) = true :=
  ⟨DTLit.pat_wrappingAdd W a b, DTLit.pat_wrappingSub W a b, DTLit.wrapI_inI W h _, DTLit.wrapI_inI W h _⟩

/-! ## `impl_float_number!` (floats.rs) -/

/-- `to_unsigned`: `if m & MASK > 0 { !m } else { m ^ MASK }` with `MASK = 2^(W-1)` is
`if H ≤ x then M - 1 - x else x + H` -/
theorem float_toU_lit_eq (d : DType) (hk : d.kind = .float) (h : 1 ≤ d.uBits) (x : Nat) (hx : x < d.M) :
    DTLit.FloatM.toUnsigned d.uBits d.H x = d.toU x := DTLit.float_toU_lit_eq d hk h x hx

/-- `from_unsigned`: `if off & MASK > 0 { off ^ MASK } else { !off }` is `DType.fromU` -/
theorem float_fromU_lit_eq (d : DType) (hk : d.kind = .float) (h : 1 ≤ d.uBits) (u : Nat) (hu : u < d.M) :
    DTLit.FloatM.fromUnsigned d.uBits d.H u = d.fromU u := DTLit.float_fromU_lit_eq d hk h u hu

/-- `to_signed = to_bits() as Signed` keeps the bit pattern (`DType.toS` is the identity on floats) -/
theorem float_toS_lit_eq (d : DType) (hk : d.kind = .float) (x : Nat) (hx : x < d.M) :
    DTLit.asU d.uBits (DTLit.FloatM.toSigned d.uBits x) = d.toS x := DTLit.float_toS_lit_eq d hk x hx

/-- `from_signed = from_bits(signed as Unsigned)` keeps the bit pattern -/
theorem float_fromS_lit_eq (d : DType) (hk : d.kind = .float) (s : Nat) (hs : s < d.M) :
    DTLit.FloatM.fromSigned d.uBits (DTLit.asI d.uBits s) = d.fromS s := DTLit.float_fromS_lit_eq d hk s hs

/-! ## `impl_signed!` (signeds.rs), and the same expressions in `impl_timestamp!`, `impl_timestamp_96!` -/

/-- `self.wrapping_sub(Self::MIN) as $unsigned` is `(x + H) % M` on the pattern `x` of `self`
(kinds `int` — which includes the 64-bit timestamps — and `ts96`) -/
theorem signed_toU_lit_eq (d : DType) (hk : d.kind = .int ∨ d.kind = .ts96) (h : 1 ≤ d.uBits) (x : Nat)
    (hx : x < d.M) : DTLit.SignedM.toUnsigned d.uBits (DTLit.asI d.uBits x) = d.toU x :=
  DTLit.signed_toU_lit_eq d hk h x hx

/-- `Self::MIN.wrapping_add(off as $t)` IS the integer whose pattern is `DType.fromU off = (off + H) % M` -/
theorem signed_fromU_lit_eq (d : DType) (hk : d.kind = .int ∨ d.kind = .ts96) (h : 1 ≤ d.uBits) (u : Nat)
    (hu : u < d.M) :
    DTLit.asU d.uBits (DTLit.SignedM.fromUnsigned d.uBits u) = d.fromU u
    ∧ DTLit.SignedM.fromUnsigned d.uBits u = DTLit.asI d.uBits (d.fromU u) :=
  ⟨DTLit.signed_fromU_lit_eq d hk h u hu, DTLit.signed_fromU_val d hk h u hu⟩

/-- `to_signed = self`, `from_signed = signed`: `DType.toS`, `DType.fromS` are the identity on every kind
but `uint` -/
theorem signed_toS_fromS_lit_eq (d : DType) (hk : d.kind ≠ .uint) (x : Nat) (hx : x < d.M) :
    DTLit.asU d.uBits (DTLit.SignedM.toSigned (DTLit.asI d.uBits x)) = d.toS x
    ∧ DTLit.asU d.uBits (DTLit.SignedM.fromSigned (DTLit.asI d.uBits x)) = d.fromS x :=
  ⟨DTLit.signed_toS_lit_eq d hk x hx, DTLit.signed_fromS_lit_eq d hk x hx⟩

/-- the 64-bit timestamps: `impl_timestamp!` is `impl_signed!` for `i64` on the wrapped part count -/
theorem ts64_is_i64 (self : Int) (off : Nat) :
    DTLit.Ts64M.toUnsigned self = DTLit.SignedM.toUnsigned 64 self
    ∧ DTLit.Ts64M.fromUnsigned off = DTLit.SignedM.fromUnsigned 64 off
    ∧ DTLit.Ts64M.toSigned self = DTLit.SignedM.toSigned self
    ∧ DTLit.Ts64M.fromSigned self = DTLit.SignedM.fromSigned self
    ∧ DTLit.Ts64M.toBytes self = DTLit.SignedM.toBytes 64 self
    ∧ (∀ bytes, DTLit.Ts64M.fromBytes bytes = DTLit.SignedM.fromBytes 64 bytes) :=
  ⟨rfl, rfl, rfl, rfl, rfl, fun _ => rfl⟩

/-- the 96-bit timestamps: the four maps of `impl_timestamp_96!` are those of `impl_signed!` for `i128`
(`from_unsigned`, `from_signed` do NOT range-check: they can produce invalid timestamps) -/
theorem ts96_maps_are_i128 (self : Int) (off : Nat) :
    DTLit.Ts96M.toUnsigned self = DTLit.SignedM.toUnsigned 128 self
    ∧ DTLit.Ts96M.fromUnsigned off = DTLit.SignedM.fromUnsigned 128 off
    ∧ DTLit.Ts96M.toSigned self = DTLit.SignedM.toSigned self
    ∧ DTLit.Ts96M.fromSigned self = DTLit.SignedM.fromSigned self :=
  ⟨rfl, rfl, rfl, rfl⟩

/-! ## `impl_unsigned_number!` (unsigneds.rs) -/

/-- `to_unsigned = self`, `from_unsigned = off` -/
theorem unsigned_toU_fromU_lit_eq (d : DType) (hk : d.kind = .uint) (x : Nat) :
    DTLit.UnsignedM.toUnsigned x = d.toU x ∧ DTLit.UnsignedM.fromUnsigned x = d.fromU x :=
  ⟨DTLit.unsigned_toU_lit_eq d hk x, DTLit.unsigned_fromU_lit_eq d hk x⟩

/-- `to_signed = (self as $signed).wrapping_add(<$signed>::MIN)` has the pattern `(x + H) % M` -/
theorem unsigned_toS_lit_eq (d : DType) (hk : d.kind = .uint) (h : 1 ≤ d.uBits) (x : Nat) (hx : x < d.M) :
    DTLit.asU d.uBits (DTLit.UnsignedM.toSigned d.uBits x) = d.toS x :=
  DTLit.unsigned_toS_lit_eq d hk h x hx

/-- `from_signed = signed.wrapping_sub(<$signed>::MIN) as Self` is `(s + H) % M` on the pattern `s` -/
theorem unsigned_fromS_lit_eq (d : DType) (hk : d.kind = .uint) (h : 1 ≤ d.uBits) (s : Nat) (hs : s < d.M) :
    DTLit.UnsignedM.fromSigned d.uBits (DTLit.asI d.uBits s) = d.fromS s :=
  DTLit.unsigned_fromS_lit_eq d hk h s hs

/-! ## bool (boolean.rs) -/

/-- `to_unsigned = self as u8`, `from_unsigned = off > 0` (for EVERY `u8`, indeed every `off`),
`to_signed = self`, `from_signed = signed` -/
theorem bool_maps_lit_eq (d : DType) (hk : d.kind = .bool) (b : Bool) (u : Nat) :
    DTLit.BoolM.toUnsigned b = d.toU (DTLit.boolPat b)
    ∧ DTLit.boolPat (DTLit.BoolM.fromUnsigned u) = d.fromU u
    ∧ DTLit.boolPat (DTLit.BoolM.toSigned b) = d.toS (DTLit.boolPat b)
    ∧ DTLit.boolPat (DTLit.BoolM.fromSigned b) = d.fromS (DTLit.boolPat b) :=
  ⟨DTLit.bool_toU_lit_eq d hk b, DTLit.bool_fromU_lit_eq d hk u, (DTLit.bool_toS_fromS_lit_eq d hk b).1,
   (DTLit.bool_toS_fromS_lit_eq d hk b).2⟩

/-! ## `SignedLike` -/

/-- `SignedLike::wrapping_add` / `wrapping_sub` of `iW` are `DType.sAdd` / `DType.sSub` on patterns, and
the results ARE the in-range integers with those patterns (every kind whose `Signed` is an integer) -/
theorem signedLike_lit_eq (d : DType) (hk : d.kind ≠ .bool) (h : 1 ≤ d.uBits) (a b : Nat) (ha : a < d.M)
    (hb : b < d.M) :
    DTLit.asU d.uBits (DTLit.SignedM.wrappingAdd d.uBits (DTLit.asI d.uBits a) (DTLit.asI d.uBits b)) = d.sAdd a b
    ∧ DTLit.asU d.uBits (DTLit.SignedM.wrappingSub d.uBits (DTLit.asI d.uBits a) (DTLit.asI d.uBits b)) = d.sSub a b
    ∧ DTLit.SignedM.wrappingAdd d.uBits (DTLit.asI d.uBits a) (DTLit.asI d.uBits b) = DTLit.asI d.uBits (d.sAdd a b)
    ∧ DTLit.SignedM.wrappingSub d.uBits (DTLit.asI d.uBits a) (DTLit.asI d.uBits b) = DTLit.asI d.uBits (d.sSub a b) :=
  ⟨(DTLit.signedLike_int_lit_eq d hk a b ha hb).1, (DTLit.signedLike_int_lit_eq d hk a b ha hb).2,
   (DTLit.signedLike_int_val d hk h a b ha hb).1, (DTLit.signedLike_int_val d hk h a b ha hb).2⟩

/-- bool's `wrapping_add = wrapping_sub = ^` are `DType.sAdd` / `DType.sSub` -/
theorem signedLike_bool_lit_eq (d : DType) (hk : d.kind = .bool) (a b : Bool) :
    DTLit.boolPat (DTLit.BoolM.wrappingAdd a b) = d.sAdd (DTLit.boolPat a) (DTLit.boolPat b)
    ∧ DTLit.boolPat (DTLit.BoolM.wrappingSub a b) = d.sSub (DTLit.boolPat a) (DTLit.boolPat b) :=
  DTLit.signedLike_bool_lit_eq d hk a b

/-! ## `UnsignedLike` (`impl_unsigned!`) -/

/-- `rshift_word` / `lshift_word` are the word shifts the `BitWriter` model uses — same value, same panic —
for every width `W` (8, 16, 32, 64, 128 in particular) and every `x : uW`, every shift amount -/
theorem lshift_rshift_word_lit_eq (W x s : Nat) (hx : x < 2^W) :
    DTLit.UnsignedLikeM.rshiftWord W x s = Qco.WB.Writer.rshiftWord W x s
    ∧ DTLit.UnsignedLikeM.lshiftWord W x s = Qco.WB.Writer.lshiftWord W x s :=
  ⟨DTLit.rshift_word_lit_eq W x s hx, DTLit.lshift_word_lit_eq W x s hx⟩

/-- the shifts panic (debug build) exactly when `shift ≥ max(W, 64)`: for the types not wider than
`usize` the shift is done on `usize`, so amounts in `[W, 64)` do NOT panic -/
theorem shift_word_panic_iff (W x s : Nat) :
    (DTLit.UnsignedLikeM.rshiftWord W x s = .panic ↔ max W 64 ≤ s)
    ∧ (DTLit.UnsignedLikeM.lshiftWord W x s = .panic ↔ max W 64 ≤ s) := DTLit.shift_word_panic_iff W x s

/-- `UnsignedLike::MAX`, `BITS`, `ZERO`, `ONE` are what `Qco.MetaIO` / `Qco.Spec` use (`d.M - 1`, `d.uBits`) -/
theorem unsignedLike_consts (d : DType) :
    DTLit.UnsignedLikeM.max d.uBits = d.M - 1 ∧ DTLit.UnsignedLikeM.bits d.uBits = d.uBits
    ∧ DTLit.UnsignedLikeM.zero = 0 ∧ DTLit.UnsignedLikeM.one = 1 := ⟨rfl, rfl, rfl, rfl⟩

/-! ## `to_bytes` / `from_bytes` through `write_to` / `read_from`, per macro

`DTLit.Agrees I d` (fields `toU fromU toS fromS sAdd sSub writeTo readFrom fromBytesPanic`, see
`Qco/Lemmas/DTypeLit/IO.lean`) packages, for a macro instance `I` on patterns:
* `writeTo`: `bytes_to_bits(x.to_bytes()) = natBits P (uToRaw (toU x))` — the argument of `writer.write` in
  `Qco.MetaIO.writeNum` — for every value whose image is in the documented range `uValid`;
* `readFrom`: for EVERY string of `P` bits, `from_bytes(bits_to_bytes(bools)).map(to_unsigned)` is
  `rawToU (bitsNat bools)`, with `none` ↦ `Err(InvalidArgument)` — the body of `Qco.MetaIO.readFrom`;
* `fromBytesPanic`: `from_bytes` panics exactly on vectors of the wrong length. -/

/-- floats: every descriptor of kind `float` with `P = W`, `8 ∣ W`, and `$sign_bit_mask = 2^(W-1)` -/
theorem float_agrees (name : String) (d : DType) (hk : d.kind = .float) (h1 : 1 ≤ d.uBits) (h8 : 8 ∣ d.uBits)
    (hP : d.physBits = d.uBits) :
    DTLit.Agrees (DTLit.floatImpl name d.uBits d.physBits d.H d.headerByte) d :=
  DTLit.float_agrees name d hk h1 h8 hP d.H rfl

/-- signed integers: every descriptor of kind `int` with `P = W`, `8 ∣ W` -/
theorem signed_agrees (name : String) (d : DType) (hk : d.kind = .int) (h1 : 1 ≤ d.uBits) (h8 : 8 ∣ d.uBits)
    (hP : d.physBits = d.uBits) : DTLit.Agrees (DTLit.signedImpl name d.uBits d.headerByte) d :=
  DTLit.signed_agrees name d hk h1 h8 hP

/-- unsigned integers: every descriptor of kind `uint` with `P = W`, `8 ∣ W` -/
theorem unsigned_agrees (name : String) (d : DType) (hk : d.kind = .uint) (h1 : 1 ≤ d.uBits) (h8 : 8 ∣ d.uBits)
    (hP : d.physBits = d.uBits) : DTLit.Agrees (DTLit.unsignedImpl name d.uBits d.headerByte) d :=
  DTLit.unsigned_agrees name d hk h1 h8 hP

/-- bool -/
theorem bool_agrees (d : DType) (hk : d.kind = .bool) (hW : d.uBits = 8) (hP : d.physBits = 8)
    (hh : d.headerByte = 7) : DTLit.Agrees DTLit.boolImpl d := DTLit.bool_agrees d hk hW hP hh

/-- 64-bit timestamps (any parts-per-second: the `NumberLike` impl does not use it) -/
theorem ts64_agrees (name : String) (pps : Nat) (d : DType) (hk : d.kind = .int) (hW : d.uBits = 64)
    (hP : d.physBits = 64) : DTLit.Agrees (DTLit.ts64Impl name pps d.headerByte) d :=
  DTLit.ts64_agrees name pps d hk hW hP

/-- 96-bit timestamps, for every parts-per-second with `2·pps·2^63 ≤ 2^127` (so that `raw as i128 + MIN`
and `self.0 - MIN` on valid values cannot overflow; `pps < 2^32` as a `u32` gives `2·pps·2^63 < 2^96`) -/
theorem ts96_agrees (name : String) (pps : Nat) (d : DType) (hk : d.kind = .ts96) (hW : d.uBits = 128)
    (hP : d.physBits = 96) (hpps : d.pps = pps) (hT : 2 * d.tsHalf ≤ d.H) :
    DTLit.Agrees (DTLit.ts96Impl name pps d.headerByte) d := DTLit.ts96_agrees name pps d hk hW hP hpps hT

/-- `Timestamp96::from_bytes` on 12 bytes: never a panic; `Err(invalid_argument)` — NOT `corruption` —
iff the raw value is `≥ 2·pps·2^63`; otherwise the part count `raw + MIN` -/
theorem ts96_from_bytes_lit_eq (pps : Nat) (hpps : 2 * (pps * 2^63) ≤ 2^127) (bytes : List Nat)
    (hl : bytes.length = 12) (hb : ∀ b ∈ bytes, b < 256) :
    DTLit.Ts96M.fromBytes pps bytes =
      if DTLit.fromBeBytes bytes < 2 * (pps * 2^63)
      then .ok ((DTLit.fromBeBytes bytes : Int) - ((pps * 2^63 : Nat) : Int))
      else .err "InvalidArgument" := DTLit.ts96_fromBytes_eq pps hpps bytes hl hb

/-- `Timestamp96::to_bytes` outside the valid range: for `MIN ≤ parts ≤ i128::MAX + MIN` the 12 LOW bytes of
`parts - MIN` (silently truncated above `2^96`); above, `self.0 - Self::MIN` overflows — a PANIC in a debug
build; below `MIN` the negative difference cast to `u128` gives the low 12 bytes of `2^128 + parts - MIN`
(the arithmetic `DType.uToRaw` has `0` there: it is only meant on `uValid`) -/
theorem ts96_to_bytes_lit (pps : Nat) (parts : Int) (hin : DTLit.inI 128 parts = true) :
    (-((pps * 2^63 : Nat) : Int) ≤ parts → parts + ((pps * 2^63 : Nat) : Int) < (2:Int)^127 →
      DTLit.Ts96M.toBytes pps parts = .ok (DTLit.toBeBytes 12 (parts + ((pps * 2^63 : Nat) : Int)).toNat))
    ∧ ((2:Int)^127 ≤ parts + ((pps * 2^63 : Nat) : Int) → DTLit.Ts96M.toBytes pps parts = .panic)
    ∧ (parts < -((pps * 2^63 : Nat) : Int) →
      DTLit.Ts96M.toBytes pps parts
        = .ok (DTLit.toBeBytes 12 (parts + ((pps * 2^63 : Nat) : Int) + (2:Int)^128).toNat)) :=
  ⟨DTLit.ts96_toBytes_ok pps parts, DTLit.ts96_toBytes_panic pps parts, DTLit.ts96_toBytes_below pps parts hin⟩

/-- `bits::bytes_to_bits` is the specification's `bytesBits`; `bits::bits_to_bytes` on a whole number of
bytes inverts it and reads the big-endian value of the bit string -/
theorem bits_bytes_lit_eq (bytes : List Nat) (n : Nat) (bits : List Bool) (hl : bits.length = 8 * n) :
    DTLit.bytesToBits bytes = bytesBits bytes
    ∧ (DTLit.bitsToBytes bits).length = n
    ∧ DTLit.fromBeBytes (DTLit.bitsToBytes bits) = bitsNat bits
    ∧ bytesBits (DTLit.bitsToBytes bits) = bits := by
  obtain ⟨h1, h2, h3⟩ := DTLit.bitsToBytes_spec n bits hl
  exact ⟨DTLit.bytesToBits_eq bytes, h1, h2, h3⟩

/-! ## the 15 rows of the table -/

/-- every row of `Frozen.dtypes` is implemented by the macro invocation of the source that has its
`HEADER_BYTE`, and that instance agrees with the row on all maps, on `write_to` and on `read_from` -/
theorem rows_agree : ∀ d ∈ Frozen.dtypes, ∃ I, DTLit.implByHeader d.headerByte = some I ∧ DTLit.Agrees I d :=
  DTLit.rows_agree

/-- header byte, `PHYSICAL_BITS`, `Unsigned::BITS` of the macro invocations are the table's columns; the
invocations and the rows are in bijection (15 each, distinct header bytes); every `Unsigned` is one of the
widths `impl_unsigned!` is invoked with -/
theorem rows_consts :
    (∀ d ∈ Frozen.dtypes, (DTLit.implByHeader d.headerByte).map
        (fun I => (I.headerByte, I.physicalBits, I.unsignedBits)) = some (d.headerByte, d.physBits, d.uBits))
    ∧ (∀ I ∈ DTLit.rustImpls, ∃ d ∈ Frozen.dtypes, d.headerByte = I.headerByte)
    ∧ DTLit.rustImpls.length = 15 ∧ Frozen.dtypes.length = 15
    ∧ (DTLit.rustImpls.map (·.headerByte)).Nodup
    ∧ (∀ I ∈ DTLit.rustImpls, I.unsignedBits ∈ DTLit.unsignedLikeWidths) := by
  decide

/-! ## the tie to the metadata model (`Qco/Op/MetaIO.lean`) -/

/-- `Qco.MetaIO.readFrom d` is `T::read_from` of the literal instance followed by `to_unsigned`: same
outcome (value, error kind, panic), same reader afterwards, on every reader state and every input -/
theorem readFrom_is_literal {I : DTLit.NumImpl} {d : DType} (hA : DTLit.Agrees I d) (w : WB.Words)
    (r : WB.Reader) :
    MetaIO.readFrom d w r =
      match WB.read w r d.physBits with
      | (.ok bools, r1) => (DTLit.R.map I.toUnsigned (I.readFromBits bools), r1)
      | (.err k, r1) => (.err k, r1)
      | (.panic, r1) => (.panic, r1) := DTLit.readFrom_is_literal hA w r

/-- `Qco.MetaIO.writeNum d` writes the bits the literal `T::write_to` hands to `writer.write` -/
theorem writeNum_is_literal {I : DTLit.NumImpl} {d : DType} (hA : DTLit.Agrees I d) (x : Nat)
    (hx : C12.valid d x) (hu : d.uValid (d.toU x)) (wr : WB.Writer) :
    ∃ bits, I.writeToBits x = .ok bits ∧ MetaIO.writeNum d (d.toU x) wr = wr.write bits :=
  DTLit.writeNum_is_literal hA x hx hu wr

/-! ## non-vacuity: the literal methods on boundary patterns, against the values Rust computes -/

section examples
open DTLit

-- f32 (`SIGN_MASK = 1 << 31`): +0.0, -0.0, 1.0, -1.0, ±inf, quiet NaNs of both signs, all-ones
example : FloatM.toUnsigned 32 (1 <<< 31) 0x00000000 = 0x80000000 := by decide
example : FloatM.toUnsigned 32 (1 <<< 31) 0x80000000 = 0x7FFFFFFF := by decide
example : FloatM.toUnsigned 32 (1 <<< 31) 0x3F800000 = 0xBF800000 := by decide
example : FloatM.toUnsigned 32 (1 <<< 31) 0xBF800000 = 0x407FFFFF := by decide
example : FloatM.toUnsigned 32 (1 <<< 31) 0x7F800000 = 0xFF800000 := by decide
example : FloatM.toUnsigned 32 (1 <<< 31) 0xFF800000 = 0x007FFFFF := by decide
example : FloatM.toUnsigned 32 (1 <<< 31) 0x7FC00000 = 0xFFC00000 := by decide
example : FloatM.toUnsigned 32 (1 <<< 31) 0xFFC00000 = 0x003FFFFF := by decide
example : FloatM.toUnsigned 32 (1 <<< 31) 0xFFFFFFFF = 0 := by decide
example : FloatM.fromUnsigned 32 (1 <<< 31) 0 = 0xFFFFFFFF := by decide
example : FloatM.fromUnsigned 32 (1 <<< 31) 0x7FFFFFFF = 0x80000000 := by decide
example : FloatM.fromUnsigned 32 (1 <<< 31) 0x80000000 = 0 := by decide
example : FloatM.fromUnsigned 32 (1 <<< 31) 0xFFC00000 = 0x7FC00000 := by decide
-- f64: -0.0, +NaN, -NaN; `to_signed` of -0.0 is `i64::MIN`, of the all-ones NaN it is `-1`
example : FloatM.toUnsigned 64 (1 <<< 63) 0x8000000000000000 = 0x7FFFFFFFFFFFFFFF := by decide
example : FloatM.toUnsigned 64 (1 <<< 63) 0x7FF8000000000000 = 0xFFF8000000000000 := by decide
example : FloatM.toUnsigned 64 (1 <<< 63) 0xFFF8000000000000 = 0x0007FFFFFFFFFFFF := by decide
example : FloatM.toSigned 64 0x8000000000000000 = -9223372036854775808 := by decide
example : FloatM.toSigned 64 0xFFFFFFFFFFFFFFFF = -1 := by decide
example : FloatM.fromSigned 64 (-1) = 0xFFFFFFFFFFFFFFFF := by decide
example : FloatM.toBytes 32 0x3F800000 = [0x3F, 0x80, 0, 0] := by decide
example : FloatM.fromBytes 32 [0x3F, 0x80, 0, 0] = .ok 0x3F800000 := by decide
example : FloatM.fromBytes 32 [0x3F, 0x80, 0] = .panic := by decide
-- signed integers: MIN, -1, 0, MAX
example : SignedM.toUnsigned 32 (-2147483648) = 0 := by decide
example : SignedM.toUnsigned 32 (-1) = 2147483647 := by decide
example : SignedM.toUnsigned 32 0 = 2147483648 := by decide
example : SignedM.toUnsigned 32 2147483647 = 4294967295 := by decide
example : SignedM.fromUnsigned 16 0 = -32768 := by decide
example : SignedM.fromUnsigned 16 32767 = -1 := by decide
example : SignedM.fromUnsigned 16 32768 = 0 := by decide
example : SignedM.fromUnsigned 16 32769 = 1 := by decide
example : SignedM.fromUnsigned 16 65535 = 32767 := by decide
example : SignedM.toUnsigned 128 (iMin 128) = 0 ∧ SignedM.toUnsigned 128 (iMax 128) = 2^128 - 1 := by decide
example : SignedM.wrappingAdd 64 (iMax 64) 1 = iMin 64 := by decide
example : SignedM.wrappingSub 16 (-32768) 1 = 32767 := by decide
example : SignedM.wrappingSub 8 (-128) (-128) = 0 := by decide
example : SignedM.toBytes 16 (-2) = [0xFF, 0xFE] := by decide
example : SignedM.fromBytes 16 [0xFF, 0xFE] = .ok (-2) := by decide
-- unsigned integers
example : UnsignedM.toSigned 16 0 = -32768 := by decide
example : UnsignedM.toSigned 16 32767 = -1 := by decide
example : UnsignedM.toSigned 16 32768 = 0 := by decide
example : UnsignedM.toSigned 16 65535 = 32767 := by decide
example : UnsignedM.fromSigned 16 (-32768) = 0 ∧ UnsignedM.fromSigned 16 (-1) = 32767
    ∧ UnsignedM.fromSigned 16 32767 = 65535 := by decide
-- `UnsignedLike`: the doc-test values of `data_types/mod.rs`, the panic edge, truncation
example : UnsignedLikeM.rshiftWord 8 6 1 = .ok 3 := by decide
example : UnsignedLikeM.rshiftWord 128 (2^100 + 2^4) 1 = .ok 8 := by decide
example : UnsignedLikeM.lshiftWord 8 6 1 = .ok 12 := by decide
example : UnsignedLikeM.lshiftWord 128 (2^100 + 2^4) 1 = .ok 32 := by decide
example : UnsignedLikeM.lshiftWord 8 255 8 = .ok 65280 := by decide      -- beyond `u8`: done on `usize`
example : UnsignedLikeM.rshiftWord 8 255 63 = .ok 0 ∧ UnsignedLikeM.rshiftWord 8 255 64 = .panic := by decide
example : UnsignedLikeM.lshiftWord 128 1 127 = .ok 0 ∧ UnsignedLikeM.lshiftWord 128 1 128 = .panic := by decide
example : UnsignedLikeM.lshiftWord 64 (2^63 + 1) 1 = .ok 2 := by decide
example : UnsignedLikeM.fromWord 8 300 = 44 := by decide                  -- `as` truncates, no panic
-- bool
example : BoolM.toUnsigned true = 1 ∧ BoolM.toUnsigned false = 0 := by decide
example : BoolM.fromUnsigned 0 = false ∧ BoolM.fromUnsigned 1 = true ∧ BoolM.fromUnsigned 255 = true := by decide
example : BoolM.wrappingAdd true true = false ∧ BoolM.wrappingSub false true = true := by decide
example : BoolM.fromBytes [2] = .ok true ∧ BoolM.fromBytes [0] = .ok false ∧ BoolM.fromBytes [] = .panic := by
  decide
-- 64-bit timestamps
example : Ts64M.toBytes (-1) = [255, 255, 255, 255, 255, 255, 255, 255] := by decide
example : Ts64M.fromBytes [128, 0, 0, 0, 0, 0, 0, 0] = .ok (iMin 64) := by decide
example : Ts64M.toUnsigned (iMin 64) = 0 ∧ Ts64M.toUnsigned 0 = 2^63 := by decide
-- 96-bit timestamps (nanoseconds): MIN, MAX, MAX + 1, i128::MAX, MIN - 1; the rejection boundary
example : Ts96M.min billion = -9223372036854775808000000000 ∧ Ts96M.max billion = 9223372036854775807999999999 := by
  decide
example : Ts96M.toBytes billion (Ts96M.min billion) = .ok [0, 0, 0, 0, 0, 0, 0, 0, 0, 0, 0, 0] := by decide
example : Ts96M.toBytes billion (Ts96M.max billion) = .ok (toBeBytes 12 (2 * (billion * 2^63) - 1)) := by decide
example : Ts96M.toBytes billion (iMax 128) = .panic := by decide
example : Ts96M.toBytes billion (Ts96M.min billion - 1)
    = .ok [255, 255, 255, 255, 255, 255, 255, 255, 255, 255, 255, 255] := by decide
example : Ts96M.fromBytes billion [0, 0, 0, 0, 0, 0, 0, 0, 0, 0, 0, 0] = .ok (Ts96M.min billion) := by decide
example : Ts96M.fromBytes billion (toBeBytes 12 (2 * (billion * 2^63) - 1)) = .ok (Ts96M.max billion) := by
  decide
example : Ts96M.fromBytes billion (toBeBytes 12 (2 * (billion * 2^63))) = .err "InvalidArgument" := by decide
example : Ts96M.fromBytes billion [255, 255, 255, 255, 255, 255, 255, 255, 255, 255, 255, 255]
    = .err "InvalidArgument" := by decide
example : Ts96M.fromBytes billion [0, 0, 0, 0, 0, 0, 0, 0, 0, 0, 0] = .panic := by decide
example : Ts96M.validate 1000000 (Ts96M.max 1000000 + 1) = .err "Corruption"
    ∧ Ts96M.new 1000000 (Ts96M.max 1000000 + 1) = .err "InvalidArgument" := by decide
/-- the corner where the arithmetic `uToRaw` and the source differ (outside `uValid`): one below `MIN` -/
example : ∃ d ∈ Frozen.dtypes, d.kind = .ts96 ∧
    (ts96Impl "TimestampNanos96" billion 8).writeToBits (asU 128 (Ts96M.min billion - 1))
      = .ok (List.replicate 96 true)
    ∧ natBits d.physBits (d.uToRaw (d.toU (asU 128 (Ts96M.min billion - 1)))) = List.replicate 96 false
    ∧ ¬ d.uValid (d.toU (asU 128 (Ts96M.min billion - 1))) :=
  ⟨{ name := "nanos96", headerByte := 8, physBits := 96, uBits := 128, kind := .ts96, pps := 1000000000 },
    by decide, by decide +kernel⟩
-- `bits.rs`
example : bitsToBytes [true, false, false, false, false, false, false, true, true] = [129, 128] := by decide
example : bytesToBits [129, 128] = [true, false, false, false, false, false, false, true,
    true, false, false, false, false, false, false, false] := by decide
-- the instances on patterns: `read_from` / `write_to` of `i16` and of `TimestampMicros96`
example : (signedImpl "i16" 16 13).readFromBits (natBits 16 0xFFFE) = .ok 0xFFFE
    ∧ (signedImpl "i16" 16 13).toUnsigned 0xFFFE = 32766 := by decide
example : (ts96Impl "TimestampMicros96" 1000000 9).readFromBits (natBits 96 5) = .ok (asU 128 (Ts96M.min 1000000 + 5))
    := by decide +kernel
/-- the hypotheses of the `*_agrees` theorems hold for every row of the table -/
example : ∀ d ∈ Frozen.dtypes, 1 ≤ d.uBits ∧ 8 ∣ d.uBits ∧ (d.kind ≠ .ts96 → d.physBits = d.uBits)
    ∧ (d.kind = .ts96 → d.uBits = 128 ∧ d.physBits = 96 ∧ 2 * d.tsHalf ≤ d.H ∧ d.pps < 2^32)
    ∧ (d.kind = .float → 1 <<< (d.uBits - 1) = d.H) := by decide

end examples

end C12l
end Qco
