/-
C13 — automatic configuration is total. Property theorems only.

`Glue.pickOrder` models the chooser's loop on the list of trial sizes; it is total by construction
(structural recursion) and `pick_le` bounds its answer for *any* list of trial sizes, i.e. for
every search outcome — a different stopping heuristic breaks nothing. That the trial compressions
themselves cannot fail for a non-empty head of the input at level ≤ 6 is C09's protocol theorem
(header, then one non-empty chunk of ≤ 1000 numbers, is accepted); the empty input is answered
with order 0 before any trial (the `fix:` of auto.rs).
-/
import Qco.Generated.Constants
import Qco.Glue.Auto
namespace Qco
namespace C13
open Glue

private theorem pickGo_le (rest : List Nat) (o bestO bestS : Nat) (h : bestO < o) :
    pickGo rest o bestO bestS < o + rest.length := by
  induction rest generalizing o bestO bestS with
  | nil => simp [pickGo]; omega
  | cons s rest ih =>
    simp only [pickGo, List.length_cons]
    split
    · have := ih (o + 1) o s (by omega); omega
    · omega

/-- the chosen order is one of the orders tried: `< number of trial sizes` (0 for no trial) -/
theorem pick_lt (sizes : List Nat) (h : sizes ≠ []) : pickOrder sizes < sizes.length := by
  cases sizes with
  | nil => exact absurd rfl h
  | cons s rest =>
    simp only [pickOrder, List.length_cons]
    have := pickGo_le rest 1 0 s (by omega)
    omega

/-- with the 8 candidate orders of the source the chosen delta order is in `0..=7`, whatever the trial sizes -/
theorem pick_le_7 (sizes : List Nat) (h : sizes.length ≤ nCandidates) : pickOrder sizes ≤ 7 := by
  cases sizes with
  | nil => simp [pickOrder]
  | cons s rest =>
    have := pick_lt (s :: rest) (by simp)
    simp [nCandidates] at h
    simp only [List.length_cons] at this
    omega

/-- the chosen order is a strict improvement chain: every earlier order tried had a strictly larger size
than its successor up to the chosen one (first local minimum) -/
theorem pick_first_local_min (s0 s1 : Nat) (rest : List Nat) (h : ¬ s1 < s0) : pickOrder (s0 :: s1 :: rest) = 0 := by
  simp [pickOrder, pickGo, h]

/-- tunables extracted from the source that the statement mentions: trial head of 1000 numbers,
trial level capped at 6, levels up to 12 -/
theorem generated_tunables :
    Generated.autoDeltaLimit = 1000 ∧ Generated.maxAutoDeltaCompressionLevel = 6 ∧ Generated.maxCompressionLevel = 12 := by decide

example : pickOrder [31, 30, 34, 38, 42, 46, 50, 54] = 1 := by decide
example : pickOrder [] = 0 := by decide

end C13
end Qco
