/-
C13l — Layer AL: the LITERAL (statement-level) model of `auto.rs` (`Qco/Glue/AutoLit.lean`:
`auto_delta_encoding_order`, `auto_compressor_config`, `auto_compress`, `auto_decompress`, composed from the literal
compressor of layer CL, the literal `train_prefixes` of layer TL and the literal decompressor of layer DL) and the
TOTALITY half of property C13 for it.  Property theorems only; the proofs are in `Qco/Lemmas/AutoLit/*.lean`.

  0 `complete_code_depth`, `huffCode_depth`   a complete prefix code / every answer of `make_huffman_code` over `m ≥ 1`
                                 symbols has code words of at most `m − 1` bits — so the at most `2^6` ranges of a
                                 trial have codes of at most 63 bits, which the writer can hold (64): the trials need
                                 NO `CodesFit` hypothesis;
  1 `autoOrderLit_total`         `auto_delta_encoding_order` never panics: every trial's `header().unwrap()` and
                                 `chunk(head_nums).unwrap()` answer `Ok`, every `byte_size()` is below 35000, so
                                 `best_order` does not stay `usize::MAX`; the answer is `Glue.pickOrder` of the eight
                                 trial sizes (0 for the empty input) and is `≤ 7`;
  2 `autoConfigLit_total`        `auto_compressor_config` answers the requested level (uncapped), an order `≤ 7`, GCDs on;
  3 `autoCompressLit_ok`, `auto_roundtrip_literal`, `auto_roundtrip_literal_level_le_5`
                                 for a level `≤ 12`: `auto_compress` answers bytes (no `unwrap` panics) which are the
                                 encoding of a well-formed file, and `auto_decompress` of them returns the input —
                                 under C01l's per-chunk hypotheses, which at the levels `≤ 5` ask nothing of training;
  4 `autoCompressLit_level_gt12_panics`, `autoCompressLit_level13_panics`, `autoCompressLit_empty_any_level`
                                 what happens above level 12 (outside the property's range `0..=12`);
  5 concrete instances (non-vacuity): `i32`, a linear, a quadratic and a cubic sequence, all-equal numbers, a single
    number, the empty input.

HYPOTHESES, all explicit:
  * `d ∈ Frozen.dtypes`; every number a valid bit pattern of the type (`C12.valid`; for the round trip `NumOk`,
    inside `ChunkOk`: only the two 96-bit timestamps ask more than validity);
  * the oracles of layer TL for the TRIALS: `FloatsAgree F m ∧ RunWeightOK F m` for every `m ≤ 1000` (the three float
    computations of compressor.rs read as integers on at most `AUTO_DELTA_LIMIT` numbers; `Qco/Train/Lit.lean` checks
    this for the hardware floats EXHAUSTIVELY for every `n ≤ 2500` and every count), `CostFinite O`, `PickOK pick`;
  * the parameters `gb x ≤ U::BITS`, `BodyWriter.EstOk`;
  * for the round trip additionally what C01l asks of the real chunks (`ChunkOk`, in particular `CodesFit`: codes
    shorter than 32 bits — at levels `≤ 5` this is a theorem, `codesFit_of_level_le_5`), `GbTop gb d`, the oracles of
    the real compression (`CostFinite O'`, `PickOK pick'`), `0 < DEFAULT_CHUNK_SIZE ≤ 2^24 − 1`, and a physical size
    bound (the file is shorter than about `2^60` bytes).
NOTHING is assumed about the level in (1) and (2): the trial level is `min(level, 6)`.
-/
import Qco.Lemmas.AutoLit.Compress
import Qco.Properties.C01l
namespace Qco
namespace C13l
open Train TrainLit
open Qco.WB Qco.Op Qco.CompLit Qco.E2E Qco.AutoLit

/-! ### 0. the depth of a complete prefix code -/

/-- **a complete prefix code over `m` code words has no word longer than `m − 1` bits** (`completeTree`: pairwise
prefix-free with Kraft sum one — what `validate_prefix_tree` accepts) -/
theorem complete_code_depth (codes : List Bits) (h : completeTree codes = true) :
    ∀ c ∈ codes, c.length + 1 ≤ codes.length :=
  completeTree_length_lt codes h

/-- **every answer of `make_huffman_code` over `m ≥ 1` weights, for every tie-breaking of the heap, has code
lengths `≤ m − 1`**; every leaf of the tree of a run is at depth `≤ m − 1` -/
theorem huffCode_depth {ws : List Nat} :
    (∀ codes, HuffCode ws codes → ∀ c ∈ codes, c.length + 1 ≤ ws.length) ∧
    (∀ t, HuffRun ws t → ∀ x ∈ t.leaves [], x.2.2.length + 1 ≤ ws.length) :=
  ⟨fun _ h => HuffCode.length_lt h, fun _ h => HuffRun.depth_lt h⟩

/-- hence the codes of a table trained at level `L` (at most `2^L` ranges) are shorter than `2^L` bits: at most 63
bits at the trial levels `≤ 6`, and `CodesFit` (shorter than 32 bits) holds at every level `≤ 5` -/
theorem codesFit_of_level_le_5 {gb : Nat → Nat} {level : Nat} {gcds : Bool} {us : List Nat} {ps : List Prefix}
    (h : Trained gb level gcds us ps) :
    (∀ p ∈ ps, p.code.length + 1 ≤ 2 ^ level) ∧ (level ≤ 5 → CodesFit ps) := by
  refine ⟨trained_code_lt h, fun hl p hp => ?_⟩
  have h1 := trained_code_lt h p hp
  have h2 : 2 ^ level ≤ 2 ^ 5 := Nat.pow_le_pow_right (by omega) hl
  have h3 : (2 : Nat) ^ 5 = 32 := by decide
  omega

variable {C C' : Type} {F F' : Floats} {O : CostOracle C} {O' : CostOracle C'}
  {pick pick' : Nat → List HItem → Nat} {gb est : Nat → Nat} {d : DType}

/-! ### 1. `auto_delta_encoding_order` -/

/-- **`autoOrderLit_total`.**  For every data type of the library, every list of valid numbers (any length: only
the first `AUTO_DELTA_LIMIT = 1000` are looked at), EVERY requested level (any `usize`: the trials run at
`min(level, 6)`), every cost oracle with finite candidate costs, every heap tie-breaking, floats agreeing with their
integer readings on at most 1000 numbers: the literal `auto_delta_encoding_order`, with the literal `train_prefixes`
inside `Compressor::chunk`, answers `Ok(o)` — it does not panic — where
* `o ≤ 7`;
* `o = 0` for the empty input, and otherwise `o = Glue.pickOrder sizes`, the chooser of `Qco/Glue/Auto.lean` on the
  eight trial sizes `sizes = trialSizes …` — so `best_order` does not stay `usize::MAX`;
* for a non-empty input every one of the eight trials (not only those before the `break`) answers
  `Ok(sizes[k])` — `header().unwrap()` on the fresh compressor and `chunk(head_nums).unwrap()` do not panic — and
  `sizes[k] ≤ 34009 < usize::MAX` bytes. -/
theorem autoOrderLit_total (hd : d ∈ Frozen.dtypes) (hgb : ∀ x, gb x ≤ d.uBits)
    (hest : BodyWriter.EstOk d.uBits est) (hfin : CostFinite O) (hp : PickOK pick) (nums : List Nat)
    (hv : ∀ v ∈ nums, C12.valid d v) (hF : ∀ m, m ≤ 1000 → FloatsAgree F m ∧ RunWeightOK F m) (level : Nat) :
    ∃ o, autoDeltaEncodingOrder gb est d (trainOracle F O pick gb d) nums level = .ok o ∧ o ≤ 7 ∧
      o = (if nums.isEmpty then 0 else Glue.pickOrder (trialSizes F O pick gb d nums level)) ∧
      (trialSizes F O pick gb d nums level).length = 8 ∧
      (nums ≠ [] → ∀ k, k < 8 →
        trialSize gb est d (trainOracle F O pick gb d) (nums.take autoDeltaLimit) level k
          = .ok ((trialSizes F O pick gb d nums level).getD k 0) ∧
        (trialSizes F O pick gb d nums level).getD k 0 ≤ 34009 ∧
        (trialSizes F O pick gb d nums level).getD k 0 < usizeMax) := by
  refine ⟨chosenOrder F O pick gb d nums level, autoOrder_total hd hgb hest hfin hp nums hv hF level,
    chosenOrder_le nums level, rfl, trialSizes_length nums level, ?_⟩
  intro hne k hk
  have hne' : nums.take autoDeltaLimit ≠ [] := by
    cases nums with
    | nil => exact absurd rfl hne
    | cons _ _ => simp [autoDeltaLimit]
  have hl := take_limit_length nums
  have hl24 : (nums.take autoDeltaLimit).length ≤ 2 ^ 24 - 1 := by
    have : (1000 : Nat) ≤ 2 ^ 24 - 1 := by decide
    omega
  have hF' : ∀ m, m ≤ (nums.take autoDeltaLimit).length → FloatsAgree F m ∧ RunWeightOK F m :=
    fun m hm => hF m (by omega)
  have hvt := mem_take_valid hv autoDeltaLimit
  have hget : (trialSizes F O pick gb d nums level).getD k 0
      = trialBytes F O pick gb d (nums.take autoDeltaLimit) level k := by
    unfold trialSizes
    rw [List.getD_eq_getElem?_getD, List.getElem?_map, List.getElem?_range hk]
    rfl
  rw [hget]
  obtain ⟨hb1, hb2⟩ := trialBytes_lt (F := F) (O := O) (pick := pick) hd hgb hfin hp hl24 hvt hF' level
    (show k ≤ 7 by omega)
  refine ⟨trialSize_ok (rows_ok d hd) hgb hest hfin hp hne' hl24 hvt hF' level (by omega), ?_, hb2⟩
  have : (1167 + 64 * 483 + (nums.take autoDeltaLimit).length * 240) / 8 ≤ (1167 + 64 * 483 + 1000 * 240) / 8 :=
    Nat.div_le_div_right (by omega)
  omega

/-! ### 2. `auto_compressor_config` -/

/-- **`autoConfigLit_total`.**  Under the same hypotheses `auto_compressor_config` answers a configuration — no
panic — with the REQUESTED compression level (not capped, not validated: a level above 12 is passed on), a delta
encoding order in `0..=7` (the one `auto_delta_encoding_order` chose), and `use_gcds = true` (the default) -/
theorem autoConfigLit_total (hd : d ∈ Frozen.dtypes) (hgb : ∀ x, gb x ≤ d.uBits)
    (hest : BodyWriter.EstOk d.uBits est) (hfin : CostFinite O) (hp : PickOK pick) (nums : List Nat)
    (hv : ∀ v ∈ nums, C12.valid d v) (hF : ∀ m, m ≤ 1000 → FloatsAgree F m ∧ RunWeightOK F m) (level : Nat) :
    ∃ cfg, autoCompressorConfig gb est d (trainOracle F O pick gb d) nums level = .ok cfg ∧
      cfg.level = level ∧ cfg.order ≤ 7 ∧ cfg.gcds = true ∧
      autoDeltaEncodingOrder gb est d (trainOracle F O pick gb d) nums level = .ok cfg.order :=
  ⟨autoCfg F O pick gb d nums level, autoConfig_total hd hgb hest hfin hp nums hv hF level, rfl,
    chosenOrder_le nums level, rfl, autoOrder_total hd hgb hest hfin hp nums hv hF level⟩

/-! ### 3. `auto_compress` and `auto_decompress` -/

/-- **`autoCompressLit_ok`.**  For a level `≤ 12`, with the literal `train_prefixes` in the trials (oracles
`F O pick`) and in `simple_compress` (oracles `F' O' pick'`), if every chunk `simple_compress` cuts
(`nums.chunks(DEFAULT_CHUNK_SIZE)`) satisfies C01l's `ChunkOk` for the chosen configuration: `auto_compress` answers
`bytes` — none of the `unwrap`s of `auto_delta_encoding_order` and of `simple_compress` panics —, each a `u8`, and
they are exactly the encoding of a file of the format (`AFile.WF`) with the flags of the chosen configuration whose
chunks hold the slices of `nums`. -/
theorem autoCompressLit_ok (hd : d ∈ Frozen.dtypes) (hgb : ∀ x, gb x ≤ d.uBits) (hG : GbTop gb d)
    (hest : BodyWriter.EstOk d.uBits est) (hfin : CostFinite O) (hp : PickOK pick)
    (hfin' : CostFinite O') (hp' : PickOK pick') (nums : List Nat) (level : Nat) (hlev : level ≤ 12)
    (hF : ∀ m, m ≤ 1000 → FloatsAgree F m ∧ RunWeightOK F m)
    (chunkSize : Nat) (hcs0 : 0 < chunkSize) (hcs : chunkSize ≤ 2 ^ 24 - 1)
    (hch : ∀ c ∈ autoChunks chunkSize nums, ChunkOk F' O' pick' gb d (autoCfg F O pick gb d nums level) c)
    (hsz : 2 * (encodeFile gb d (readerFile F' O' pick' gb d (autoCfg F O pick gb d nums level)
        (autoChunks chunkSize nums))).length + 2 ^ 37 < USIZE) :
    ∃ bytes, autoCompress gb est d (trainOracle F O pick gb d) (trainOracle F' O' pick' gb d) nums level chunkSize
        = .ok bytes ∧
      (∀ b ∈ bytes, b < 256) ∧
      bytesBits bytes = encodeFile gb d (readerFile F' O' pick' gb d (autoCfg F O pick gb d nums level)
        (autoChunks chunkSize nums)) ∧
      (readerFile F' O' pick' gb d (autoCfg F O pick gb d nums level) (autoChunks chunkSize nums)).WF gb d ∧
      (autoChunks chunkSize nums).flatten = nums := by
  obtain ⟨bytes, h1, h2, h3, h4, _⟩ := autoCompress_roundtrip hd hgb hG hest hfin hp hfin' hp' nums level hlev hF
    chunkSize hcs0 hcs hch hsz
  exact ⟨bytes, h1, h2, h3, h4, sliceChunks_flatten hcs0 _ _ (Nat.le_refl _)⟩

/-- **`auto_roundtrip_literal`** (the round-trip half of C13 for the literal models).  Under the hypotheses of
`autoCompressLit_ok`: `auto_compress(nums, level)` answers `bytes` and `auto_decompress(bytes)` — a fresh literal
`Decompressor`, `write_all(bytes).unwrap()`, `simple_decompress()` — answers `Ok(nums)`: the input, bit pattern
by bit pattern, in order.  Includes the empty input, inputs no longer than the chosen delta order (chunks with
moments only) and all-equal inputs (see the instances below). -/
theorem auto_roundtrip_literal (hd : d ∈ Frozen.dtypes) (hgb : ∀ x, gb x ≤ d.uBits) (hG : GbTop gb d)
    (hest : BodyWriter.EstOk d.uBits est) (hfin : CostFinite O) (hp : PickOK pick)
    (hfin' : CostFinite O') (hp' : PickOK pick') (nums : List Nat) (level : Nat) (hlev : level ≤ 12)
    (hF : ∀ m, m ≤ 1000 → FloatsAgree F m ∧ RunWeightOK F m)
    (chunkSize : Nat) (hcs0 : 0 < chunkSize) (hcs : chunkSize ≤ 2 ^ 24 - 1)
    (hch : ∀ c ∈ autoChunks chunkSize nums, ChunkOk F' O' pick' gb d (autoCfg F O pick gb d nums level) c)
    (hsz : 2 * (encodeFile gb d (readerFile F' O' pick' gb d (autoCfg F O pick gb d nums level)
        (autoChunks chunkSize nums))).length + 2 ^ 37 < USIZE) :
    ∃ bytes, autoCompress gb est d (trainOracle F O pick gb d) (trainOracle F' O' pick' gb d) nums level chunkSize
        = .ok bytes ∧
      autoDecompress gb d bytes = .ok nums := by
  obtain ⟨bytes, h1, _, _, _, h5⟩ := autoCompress_roundtrip hd hgb hG hest hfin hp hfin' hp' nums level hlev hF
    chunkSize hcs0 hcs hch hsz
  exact ⟨bytes, h1, h5⟩

/-- the hypothesis on the chunks holds for the chosen configuration as soon as it holds for every order `≤ 7` at
the requested level with GCDs on (a form that does not mention the chooser) -/
theorem chunkOk_of_all_orders (nums : List Nat) (level : Nat) (chunkSize : Nat)
    (h : ∀ o, o ≤ 7 → ∀ c ∈ autoChunks chunkSize nums,
      ChunkOk F' O' pick' gb d { level := level, order := o, gcds := true } c) :
    ∀ c ∈ autoChunks chunkSize nums, ChunkOk F' O' pick' gb d (autoCfg F O pick gb d nums level) c :=
  h _ (chosenOrder_le nums level)

/-- **at the levels `0..=5` the round trip needs NO hypothesis on the trained tables.**  `CodesFit` — the one thing
C01l has to assume of training — is a theorem there (at most `2^5` ranges, a complete prefix code: at most 31 bits,
`complete_code_depth`).  For every data type, every list of numbers satisfying `NumOk` (valid patterns; for the
96-bit timestamps in the documented range), every level `≤ 5`, floats agreeing with their integer readings on at
most `max(1000, DEFAULT_CHUNK_SIZE)` numbers: `auto_compress` answers bytes and `auto_decompress` returns the
input.  What remains: the oracles' hypotheses, the parameters `gb`/`est`, and the physical size bound. -/
theorem auto_roundtrip_literal_level_le_5 (hd : d ∈ Frozen.dtypes) (hgb : ∀ x, gb x ≤ d.uBits) (hG : GbTop gb d)
    (hest : BodyWriter.EstOk d.uBits est) (hfin : CostFinite O) (hp : PickOK pick)
    (hfin' : CostFinite O') (hp' : PickOK pick') (nums : List Nat) (hnum : ∀ v ∈ nums, NumOk d v)
    (level : Nat) (hlev : level ≤ 5)
    (hF : ∀ m, m ≤ 1000 → FloatsAgree F m ∧ RunWeightOK F m)
    (chunkSize : Nat) (hcs0 : 0 < chunkSize) (hcs : chunkSize ≤ 2 ^ 24 - 1)
    (hF' : ∀ m, m ≤ chunkSize → FloatsAgree F' m ∧ RunWeightOK F' m)
    (hsz : 2 * (encodeFile gb d (readerFile F' O' pick' gb d (autoCfg F O pick gb d nums level)
        (autoChunks chunkSize nums))).length + 2 ^ 37 < USIZE) :
    ∃ bytes, autoCompress gb est d (trainOracle F O pick gb d) (trainOracle F' O' pick' gb d) nums level chunkSize
        = .ok bytes ∧
      autoDecompress gb d bytes = .ok nums := by
  refine auto_roundtrip_literal hd hgb hG hest hfin hp hfin' hp' nums level (by omega) hF chunkSize hcs0 hcs ?_ hsz
  intro c hc
  obtain ⟨hne, hlen⟩ := sliceChunks_mem hcs0 _ _ c hc
  have hsub : ∀ v ∈ c, v ∈ nums := by
    intro v hv
    have hfl : (autoChunks chunkSize nums).flatten = nums := sliceChunks_flatten hcs0 _ _ (Nat.le_refl _)
    rw [← hfl]
    exact List.mem_flatten.mpr ⟨c, hc, hv⟩
  have hcl := codedUs_length_le d (autoCfg F O pick gb d nums level).flags c
  exact chunkOk_of_level_le_5 (rows_ok d hd) (show (autoCfg F O pick gb d nums level).level ≤ 5 from hlev) hfin' hp'
    hne (by omega) (fun v hv => hnum v (hsub v hv)) (hF' _ (by omega)).1 (hF' _ (by omega)).2

/-! ### 4. levels above 12 -/

/-- **`autoCompressLit_level_gt12_panics`.**  The property quantifies over levels `0..=12` for a reason: for ANY
level above 12 and ANY non-empty input (valid numbers, the hypotheses of `autoOrderLit_total`), the literal
`auto_compress` PANICS — `auto_compressor_config` passes the level on uncapped, `Compressor::chunk` answers
`InvalidArgument` (`validate_chunk_args`), `simple_compress` unwraps it.  This is the Rust code's behaviour
(`auto_compress(&[1], 13)` panics), documented nowhere in `auto.rs`; it is not a defect of the model. -/
theorem autoCompressLit_level_gt12_panics (hd : d ∈ Frozen.dtypes) (hgb : ∀ x, gb x ≤ d.uBits)
    (hest : BodyWriter.EstOk d.uBits est) (hfin : CostFinite O) (hp : PickOK pick) (train : AutoLit.Oracle)
    (nums : List Nat) (hne : nums ≠ []) (hv : ∀ v ∈ nums, C12.valid d v)
    (hF : ∀ m, m ≤ 1000 → FloatsAgree F m ∧ RunWeightOK F m) (level : Nat) (hlev : 12 < level)
    (chunkSize : Nat) (hcs0 : 0 < chunkSize) :
    autoCompress gb est d (trainOracle F O pick gb d) train nums level chunkSize = .panic :=
  autoCompress_level_gt12_panics hd hgb hest hfin hp train nums hne hv hF level hlev chunkSize hcs0

/-- … whereas on the EMPTY input every level is accepted: no `chunk` call is made and the 7 bytes of an empty
file are answered -/
theorem autoCompressLit_empty_any_level (hd : d ∈ Frozen.dtypes) (hgb : ∀ x, gb x ≤ d.uBits)
    (hest : BodyWriter.EstOk d.uBits est) (trainTrial train : AutoLit.Oracle) (level : Nat)
    (chunkSize : Nat) (hcs0 : 0 < chunkSize) :
    ∃ bytes, autoCompress gb est d trainTrial train [] level chunkSize = .ok bytes ∧
      bytesBits bytes = encodeFile gb d { flags := { use5 := true, order := 0, minCount := true, gcds := true },
                                          chunks := [] } :=
  autoCompress_nil hd hgb hest trainTrial train level chunkSize hcs0

/-! ### 5. concrete instances (non-vacuity)

`i32`; the integer readings of the floats; the cost oracle `rangeCost` of C01l (an integer caricature of
`prefix_bit_cost`); the first-minimum heap.  The trial sizes of the linear sequence below are those the real library
reports for it (they are the example of `Qco/Properties/C13.lean`). -/

section Examples
open C01l

/-- the literal `train_prefixes` with the example oracles -/
def exTrain : AutoLit.Oracle := trainOracle Floats.exact rangeCost pickFirstMin exGb exI32

def exLinear : List Nat := [1, 2, 3, 4, 5, 6, 7, 8, 9, 10]
def exQuadratic : List Nat := (List.range 20).map fun i => i * i + 3
def exCubic : List Nat := (List.range 30).map fun i => i * i * i
def exEqual : List Nat := [7, 7, 7, 7, 7, 7]

theorem exFloats : ∀ m, m ≤ 1000 → FloatsAgree Floats.exact m ∧ RunWeightOK Floats.exact m :=
  fun m _ => C10l.floatsExact_agree m

theorem exValid (nums : List Nat) (h : ∀ v ∈ nums, v < 2 ^ 32) : ∀ v ∈ nums, C12.valid exI32 v := by
  intro v hv
  have := h v hv
  show (if exI32.kind = .bool then v ≤ 1 else v < exI32.M)
  rw [if_neg (by decide)]
  exact this

/-- every hypothesis of `autoOrderLit_total` holds on the instances: the theorem instantiated -/
theorem exOrder_total (nums : List Nat) (h : ∀ v ∈ nums, v < 2 ^ 32) (level : Nat) :
    ∃ o, autoDeltaEncodingOrder exGb BodyWriter.estExact exI32 exTrain nums level = .ok o ∧ o ≤ 7 ∧
      o = (if nums.isEmpty then 0
           else Glue.pickOrder (trialSizes Floats.exact rangeCost pickFirstMin exGb exI32 nums level)) := by
  obtain ⟨o, h1, h2, h3, _⟩ := autoOrderLit_total (F := Floats.exact) (O := rangeCost) (pick := pickFirstMin)
    (est := BodyWriter.estExact) (d := exI32) (by decide) exGbOk.1 (BodyWriter.estExact_ok _) rangeCost_finite
    C10l.pickFirstMin_ok nums (exValid nums h) exFloats level
  exact ⟨o, h1, h2, h3⟩

/-- the empty input: order 0 at every level, before any trial -/
theorem exEmpty (level : Nat) :
    autoDeltaEncodingOrder exGb BodyWriter.estExact exI32 exTrain [] level = .ok 0 := rfl

/-- **`autoCompressLit_level13_panics`** — the concrete witness: `auto_compress(&[1, 2, 3], 13)` panics -/
theorem autoCompressLit_level13_panics :
    autoCompress exGb BodyWriter.estExact exI32 exTrain exTrain [1, 2, 3] 13 = .panic :=
  autoCompressLit_level_gt12_panics (F := Floats.exact) (O := rangeCost) (pick := pickFirstMin)
    (by decide) exGbOk.1 (BodyWriter.estExact_ok _) rangeCost_finite C10l.pickFirstMin_ok exTrain [1, 2, 3]
    (by simp) (exValid _ (by decide)) exFloats 13 (by decide) _ (by decide)

set_option maxRecDepth 100000 in
/-- … and `auto_compress(&[], 13)` answers the 7 bytes `qco!`, the `i32` header byte, the flags, the terminator
(no training is involved: evaluated by the kernel) -/
theorem exEmpty_level13 :
    autoCompress exGb BodyWriter.estExact exI32 exTrain exTrain [] 13 = .ok [113, 99, 111, 33, 3, 140, 46] ∧
    autoDecompress exGb exI32 [113, 99, 111, 33, 3, 140, 46] = .ok [] := by
  constructor <;> decide +kernel

/-- the round trip of the empty input as an instance of `auto_roundtrip_literal` (every hypothesis discharged:
there is no chunk) -/
theorem exRoundtrip_empty (level : Nat) (hlev : level ≤ 12) :
    ∃ bytes, autoCompress exGb BodyWriter.estExact exI32 exTrain exTrain [] level = .ok bytes ∧
      autoDecompress exGb exI32 bytes = .ok [] :=
  auto_roundtrip_literal (F := Floats.exact) (O := rangeCost) (pick := pickFirstMin)
    (F' := Floats.exact) (O' := rangeCost) (pick' := pickFirstMin)
    (by decide) exGbOk.1 exGbOk.2 (BodyWriter.estExact_ok _) rangeCost_finite C10l.pickFirstMin_ok rangeCost_finite
    C10l.pickFirstMin_ok [] level hlev exFloats defaultChunkSize (by decide) (by decide)
    (by intro c hc; cases hc)
    (by
      show 2 * (encodeFile exGb exI32 { flags := (autoCfg Floats.exact rangeCost pickFirstMin exGb exI32 [] level).flags,
                                        chunks := [] }).length + 2 ^ 37 < USIZE
      rw [C14.file_size _ _ _ (by show (0 : Nat) ≤ 7; omega)]
      show 2 * (56 + 0) + 2 ^ 37 < USIZE
      decide)

-- the chooser of `Qco/Glue/Auto.lean` on the sizes evaluated below
example : Glue.pickOrder [31, 30, 34, 38, 42, 46, 50, 54] = 1 ∧ Glue.pickOrder [48, 43, 34, 38, 42, 46, 50, 54] = 2 ∧
    Glue.pickOrder [88, 80, 69, 38, 42, 46, 50, 54] = 3 := by decide

-- THE LITERAL CHOOSER, EVALUATED (the sort inside `train_prefixes` keeps the kernel from evaluating these; `#guard`
-- runs the compiled model)
-- a linear sequence: order 1; the eight trial sizes are those of the real library
#guard trialSizes Floats.exact rangeCost pickFirstMin exGb exI32 exLinear 3 == [31, 30, 34, 38, 42, 46, 50, 54]
#guard autoDeltaEncodingOrder exGb BodyWriter.estExact exI32 exTrain exLinear 3 == .ok 1
#guard (List.range 8).map (trialSize exGb BodyWriter.estExact exI32 exTrain exLinear 3)
  == [.ok 31, .ok 30, .ok 34, .ok 38, .ok 42, .ok 46, .ok 50, .ok 54]
-- a quadratic sequence: order 2; a cubic one at level 12 (trial level 6): order 3
#guard trialSizes Floats.exact rangeCost pickFirstMin exGb exI32 exQuadratic 3 == [48, 43, 34, 38, 42, 46, 50, 54]
#guard autoDeltaEncodingOrder exGb BodyWriter.estExact exI32 exTrain exQuadratic 3 == .ok 2
#guard autoDeltaEncodingOrder exGb BodyWriter.estExact exI32 exTrain exCubic 12 == .ok 3
-- all-equal numbers at an absurd level (the trials run at level 6): order 0; a single number: order 1 (a chunk
-- of moments only is the shortest); the empty input: order 0
#guard autoDeltaEncodingOrder exGb BodyWriter.estExact exI32 exTrain exEqual 1000000 == .ok 0
#guard autoDeltaEncodingOrder exGb BodyWriter.estExact exI32 exTrain [5] 3 == .ok 1
#guard autoDeltaEncodingOrder exGb BodyWriter.estExact exI32 exTrain [] 3 == .ok 0
-- `auto_compressor_config`: the requested level is passed on, also above 12
#guard autoCompressorConfig exGb BodyWriter.estExact exI32 exTrain exQuadratic 13
  == .ok { level := 13, order := 2, gcds := true }
-- `auto_compress` then `auto_decompress`: the input comes back (linear, quadratic, cubic, all-equal, a single
-- number — shorter than or as long as the chosen order —, empty), at levels 0, 3, 12
#guard [exLinear, exQuadratic, exCubic, exEqual, [5], [5, 9], []].all fun nums => [0, 3, 12].all fun level =>
  match autoCompress exGb BodyWriter.estExact exI32 exTrain exTrain nums level with
  | .ok bytes => autoDecompress exGb exI32 bytes == .ok nums
  | _ => false
-- the bytes for the linear sequence at level 3 (delta order 1: one moment `1`, nine deltas `1` in one range)
#guard autoCompress exGb BodyWriter.estExact exI32 exTrain exTrain exLinear 3
  == .ok [113, 99, 111, 33, 3, 156, 44, 0, 0, 10, 0, 0, 0, 0, 0, 0, 0, 1, 0, 3, 72, 0, 0, 0, 8, 0, 0, 0, 8, 0, 46]
-- level 13: panic on a non-empty input, fine on the empty one
#guard autoCompress exGb BodyWriter.estExact exI32 exTrain exTrain exLinear 13 == .panic
#guard autoCompress exGb BodyWriter.estExact exI32 exTrain exTrain [] 13 == .ok [113, 99, 111, 33, 3, 140, 46]
-- the hypotheses of the round trip hold on the linear instance: `ChunkOk` (decidable parts) of its one chunk
#guard (autoChunks defaultChunkSize exLinear == [exLinear]) &&
  (autoCfg Floats.exact rangeCost pickFirstMin exGb exI32 exLinear 3 == { level := 3, order := 1, gcds := true }) &&
  decide (CodesFit (trainedTable Floats.exact rangeCost pickFirstMin exGb exI32
    (autoCfg Floats.exact rangeCost pickFirstMin exGb exI32 exLinear 3) exLinear))

/-! #### all-equal numbers, at theorem level

`i32`, six sevens, level 3.  The kernel cannot run the sort inside `train_prefixes`, so the three training runs
involved (trials of order 0 and 1, the real compression) are evaluated after rewriting the sort of an ascending list
away, as in C01l; everything else is `decide`.  The chooser answers order 0 (trial sizes 25 and 29 bytes: the
second trial does not improve, `break`). -/

def exEqTable0 : List Prefix :=
  [{ count := 6, lower := 2147483655, upper := 2147483655, code := [], jump := none, gcd := 1 }]
def exEqTable1 : List Prefix :=
  [{ count := 5, lower := 2147483648, upper := 2147483648, code := [], jump := none, gcd := 1 }]

/-- the literal `train_prefixes` on the six unsigned images, with and without GCDs, evaluated by the kernel -/
theorem exEqTrainLit0 (gcds : Bool) : trainLit Floats.exact rangeCost pickFirstMin 32 exGb
    [2147483655, 2147483655, 2147483655, 2147483655, 2147483655, 2147483655] 3 gcds 6 = .ok (some exEqTable0) := by
  unfold trainLit
  rw [List.mergeSort_of_pairwise (by decide)]
  cases gcds <;> decide

/-- … and on the five first differences (all zero) -/
theorem exEqTrainLit1 : trainLit Floats.exact rangeCost pickFirstMin 32 exGb
    [2147483648, 2147483648, 2147483648, 2147483648, 2147483648] 3 false 6 = .ok (some exEqTable1) := by
  unfold trainLit
  rw [List.mergeSort_of_pairwise (by decide)]
  decide

theorem exEqTrained (cfg : CConfig) (hl : cfg.level = 3) (ho : cfg.order = 0) :
    trainedTable Floats.exact rangeCost pickFirstMin exGb exI32 cfg exEqual = exEqTable0 := by
  obtain ⟨l, o, g⟩ := cfg
  simp only at hl ho
  subst hl ho
  unfold trainedTable trainOracle
  have hus : codedUs exI32 ({ level := 3, order := 0, gcds := g } : CConfig).flags exEqual
      = [2147483655, 2147483655, 2147483655, 2147483655, 2147483655, 2147483655] := by
    cases g <;> decide
  rw [hus]
  show (match (match trainLit Floats.exact rangeCost pickFirstMin 32 exGb
      [2147483655, 2147483655, 2147483655, 2147483655, 2147483655, 2147483655] 3 g 6 with
    | .ok (some ps) => R.ok ps
    | .ok none => .err "InvalidArgument"
    | .panic => .panic) with
    | .ok ps => ps
    | _ => []) = exEqTable0
  rw [exEqTrainLit0]

theorem exEqTrained1 :
    trainedTable Floats.exact rangeCost pickFirstMin exGb exI32 (trialConfig 3 1) exEqual = exEqTable1 := by
  unfold trainedTable trainOracle
  have hus : codedUs exI32 (trialConfig 3 1).flags exEqual
      = [2147483648, 2147483648, 2147483648, 2147483648, 2147483648] := by decide
  rw [hus]
  show (match (match trainLit Floats.exact rangeCost pickFirstMin 32 exGb
      [2147483648, 2147483648, 2147483648, 2147483648, 2147483648] 3 false 6 with
    | .ok (some ps) => R.ok ps
    | .ok none => .err "InvalidArgument"
    | .panic => .panic) with
    | .ok ps => ps
    | _ => []) = exEqTable1
  rw [exEqTrainLit1]

set_option maxRecDepth 100000 in
/-- the sizes of the trials of order 0 and 1, by evaluation of the specification's encoder -/
theorem exEqBytes : trialBytes Floats.exact rangeCost pickFirstMin exGb exI32 exEqual 3 0 = 25 ∧
    trialBytes Floats.exact rangeCost pickFirstMin exGb exI32 exEqual 3 1 = 29 := by
  unfold trialBytes trialChunk
  rw [exEqTrained _ rfl rfl, exEqTrained1]
  constructor <;> decide +kernel

/-- the chosen order is 0: the second trial (29 bytes) does not improve on the first (25 bytes) -/
theorem exEqOrder : chosenOrder Floats.exact rangeCost pickFirstMin exGb exI32 exEqual 3 = 0 := by
  unfold chosenOrder trialSizes
  have ht : exEqual.take autoDeltaLimit = exEqual := rfl
  have hr : List.range 8 = [0, 1, 2, 3, 4, 5, 6, 7] := rfl
  rw [ht, hr]
  simp only [List.map_cons, exEqBytes.1, exEqBytes.2]
  exact C13.pick_first_local_min 25 29 _ (by decide)

/-- **the literal chooser on six sevens, as a theorem**: `auto_delta_encoding_order` answers `Ok(0)` -/
theorem exEqOrder_lit : autoDeltaEncodingOrder exGb BodyWriter.estExact exI32 exTrain exEqual 3 = .ok 0 := by
  have h := autoOrder_total (F := Floats.exact) (O := rangeCost) (pick := pickFirstMin)
    (est := BodyWriter.estExact) (d := exI32) (by decide) exGbOk.1 (BodyWriter.estExact_ok _) rangeCost_finite
    C10l.pickFirstMin_ok exEqual (exValid _ (by decide)) exFloats 3
  rw [exEqOrder] at h
  exact h

def exEqCfg : CConfig := { level := 3, order := 0, gcds := true }

theorem exEqCfg_eq : autoCfg Floats.exact rangeCost pickFirstMin exGb exI32 exEqual 3 = exEqCfg := by
  unfold autoCfg
  rw [exEqOrder]
  rfl

theorem exEqChunks : autoChunks defaultChunkSize exEqual = [exEqual] := by decide

/-- every hypothesis on the one chunk holds, in particular `CodesFit` -/
theorem exEqChunkOk : ChunkOk Floats.exact rangeCost pickFirstMin exGb exI32 exEqCfg exEqual :=
  ⟨by decide, by decide, by decide, (C10l.floatsExact_agree _).1, (C10l.floatsExact_agree _).2,
   by rw [exEqTrained _ rfl rfl]; decide⟩

/-- the file the reader sees -/
def exEqFile : AFile :=
  { flags := exEqCfg.flags, chunks := [trainedOf exEqCfg.flags exI32 exEqual (normTable exEqCfg.flags exEqTable0)] }

theorem exEqReader : readerFile Floats.exact rangeCost pickFirstMin exGb exI32 exEqCfg [exEqual] = exEqFile := by
  show ({ flags := exEqCfg.flags,
          chunks := [readerChunk Floats.exact rangeCost pickFirstMin exGb exI32 exEqCfg exEqual] } : AFile) = exEqFile
  unfold readerChunk
  rw [exEqTrained _ rfl rfl]
  rfl

/-- the 27 bytes `auto_compress` answers for six sevens at level 3 -/
def exEqBytesOut : List Nat :=
  [113, 99, 111, 33, 3, 140, 44, 0, 0, 6, 0, 0, 0, 0, 0, 3, 96, 0, 0, 0, 112, 0, 0, 0, 112, 0, 46]

set_option maxRecDepth 100000 in
theorem exEqBits : bytesBits exEqBytesOut = encodeFile exGb exI32 exEqFile := by decide +kernel

set_option maxRecDepth 100000 in
theorem exEqSize : 2 * (encodeFile exGb exI32 (readerFile Floats.exact rangeCost pickFirstMin exGb exI32
    (autoCfg Floats.exact rangeCost pickFirstMin exGb exI32 exEqual 3) (autoChunks defaultChunkSize exEqual))).length
      + 2 ^ 37 < USIZE := by
  rw [exEqCfg_eq, exEqChunks, exEqReader, ← exEqBits]
  decide +kernel

theorem exEqHch : ∀ c ∈ autoChunks defaultChunkSize exEqual, ChunkOk Floats.exact rangeCost pickFirstMin exGb exI32
    (autoCfg Floats.exact rangeCost pickFirstMin exGb exI32 exEqual 3) c := by
  rw [exEqCfg_eq, exEqChunks]
  intro c hc
  rw [List.mem_singleton.mp hc]
  exact exEqChunkOk

/-- **all-equal numbers: `auto_roundtrip_literal` instantiated, every hypothesis discharged**; the bytes are the 27
bytes `exEqBytesOut` -/
theorem exRoundtrip_equal :
    autoCompress exGb BodyWriter.estExact exI32 exTrain exTrain exEqual 3 = .ok exEqBytesOut ∧
      autoDecompress exGb exI32 exEqBytesOut = .ok exEqual := by
  obtain ⟨bytes, h1, hby, hbits, _, _⟩ := autoCompressLit_ok (F := Floats.exact) (O := rangeCost) (pick := pickFirstMin)
    (F' := Floats.exact) (O' := rangeCost) (pick' := pickFirstMin) (est := BodyWriter.estExact)
    (by decide) exGbOk.1 exGbOk.2 (BodyWriter.estExact_ok _) rangeCost_finite C10l.pickFirstMin_ok rangeCost_finite
    C10l.pickFirstMin_ok exEqual 3 (by decide) exFloats defaultChunkSize (by decide) (by decide) exEqHch exEqSize
  obtain ⟨bytes', h1', h2'⟩ := auto_roundtrip_literal (F := Floats.exact) (O := rangeCost) (pick := pickFirstMin)
    (F' := Floats.exact) (O' := rangeCost) (pick' := pickFirstMin) (est := BodyWriter.estExact)
    (by decide) exGbOk.1 exGbOk.2 (BodyWriter.estExact_ok _) rangeCost_finite C10l.pickFirstMin_ok rangeCost_finite
    C10l.pickFirstMin_ok exEqual 3 (by decide) exFloats defaultChunkSize (by decide) (by decide) exEqHch exEqSize
  have hb : bytes = exEqBytesOut := by
    apply bytesBits_inj bytes exEqBytesOut hby (by decide)
    rw [hbits, exEqCfg_eq, exEqChunks, exEqReader, exEqBits]
  have hb' : bytes' = bytes := by
    have : (R.ok bytes' : R (List Nat)) = R.ok bytes := by rw [← h1', ← h1]
    injection this
  subst hb
  subst hb'
  exact ⟨h1, h2'⟩

end Examples

end C13l
end Qco
