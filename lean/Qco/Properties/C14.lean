/-
C14 — size bounds of the spec encoder. Property theorems only.

Every statement is about `encodeFile` and its parts (Qco/Spec/File.lean), i.e. about *every* file
of the frozen grammar, whatever choices its writer made. `W = d.uBits`, `P = d.physBits`.

What is proved unconditionally: the exact/maximal width of every field (offsets, run-length
varints, header, counts, prefix metadata, chunk metadata), Kraft's inequality for the reference
code of pairwise-disjoint ranges (lengths `W − k_p`), and `Σ (r_p + 1) ≤ 2^W` from disjointness.

What is *not* proved: that the compressor's Huffman code is optimal. The body bound
`body_bound_of_optimal_partial` takes "total code bits ≤ total reference-code bits (+ slack)" as a
hypothesis; `kraft_reference_feasible` shows the reference lengths are admissible for a prefix code,
which is what makes the hypothesis a consequence of Huffman optimality.
-/
import Qco.Lemmas.Sizes
import Qco.Properties.C02
namespace Qco
namespace C14

/-! ### 1, 2: offsets -/

/-- an offset takes `k` or `k + 1` bits -/
theorem offset_bits_le (r k off : Nat) : (encOffset r k off).length ≤ k + 1 := by
  rw [encOffset_length]; split <;> omega

/-- exactly `k` bits when the low `k` bits determine the offset -/
theorem offset_bits_eq (r k off : Nat) (h : ¬(off < r - (2^k - 1) ∨ off > 2^k - 1)) :
    (encOffset r k off).length = k := by
  rw [encOffset_length, if_neg h]; rfl

/-- exactly `k + 1` bits otherwise -/
theorem offset_bits_eq_succ (r k off : Nat) (h : off < r - (2^k - 1) ∨ off > 2^k - 1) :
    (encOffset r k off).length = k + 1 := by
  rw [encOffset_length, if_pos h]

/-- an offset of a range inside `[0, 2^W)` never takes more than `W` bits: `k ≤ W`, and when `k = W`
the range is all of `[0, 2^W)` and no extra bit is written -/
theorem offset_bits_le_W (r k off W : Nat) (hk : 2^k ≤ r + 1) (hr : r + 1 ≤ 2^W) (ho : off ≤ r) :
    (encOffset r k off).length ≤ W := by
  have hkW : k ≤ W := k_le_of_pow_le hk hr
  rcases Nat.lt_or_eq_of_le hkW with hlt | heq
  · have := offset_bits_le r k off; omega
  · subst heq
    rw [offset_bits_eq r k off (by omega)]
    exact Nat.le_refl k

/-! ### 3: run-length varint -/

/-- `j` low bits and at most `24 − j` continuation pairs (no terminator after the last pair); tight -/
theorem varint_bits_le_sub (j x : Nat) (hj : j ≤ 24) : (encVarint 24 j x).length ≤ 48 - j :=
  encVarint_length_le 24 j x hj

theorem varint_bits_le (j x : Nat) (hj : j ≤ 24) : (encVarint 24 j x).length ≤ 48 := by
  have := varint_bits_le_sub j x hj; omega

/-- the bound of `varint_bits_le_sub` is attained -/
example : (encVarint 24 3 (2^24 - 1)).length = 48 - 3 := by decide

/-! ### 4: file overhead -/

/-- header (6 bytes) and termination byte: 7 bytes -/
theorem file_overhead (d : DType) (fl : Flags) (ho : fl.order ≤ 7) : (encHeader d fl).length + 8 = 56 := by
  rw [C02.header_size d fl ho]

/-- a file is its 7 bytes of overhead and its chunks -/
theorem file_size (gb : Nat → Nat) (d : DType) (f : AFile) (ho : f.flags.order ≤ 7) :
    (encodeFile gb d f).length = 56 + (f.chunks.map fun c => (encChunk gb d f.flags c).length).sum := by
  simp only [encodeFile, List.length_append, C02.header_size d f.flags ho, List.length_flatMap, natBits_length]
  omega

/-- a chunk is its magic byte, its metadata and its body -/
theorem chunk_size (gb : Nat → Nat) (d : DType) (fl : Flags) (c : AChunk) :
    (encChunk gb d fl c).length
      = 8 + (encChunkMeta gb d fl c.fixedMeta).length + (encBody c.cm.prefixes c.blocks).length := by
  simp only [encChunk, List.length_append, natBits_length]

/-- byte padding of the body costs at most 7 bits -/
theorem body_padded_le (ps : List Prefix) (bs : List Block) :
    (encBody ps bs).length ≤ (encBlocks (tableOf ps) bs).length + 7 :=
  padToByte_length_le _

/-! ### 5, 6: prefix metadata -/

theorem clog2_le_24 (m : Nat) (h : m ≤ 2^24) : clog2 m ≤ 24 := clog2_le m 24 h

theorem countBits_le (fl : Flags) (n : Nat) (h : n < 2^24) : fl.countBits n ≤ 24 := by
  unfold Flags.countBits
  split
  · exact clog2_le _ 24 (by omega)
  · exact Nat.le_refl _

/-- one prefix's metadata: count ≤ 24, two bounds `2P`, code length field ≤ 5, code ≤ 31,
jumpstart flag and field ≤ 6, GCD flag and field ≤ `1 + W` -/
theorem prefix_meta_bits_le (gb : Nat → Nat) (d : DType) (fl : Flags) (n W : Nat) (hasCommon : Bool)
    (p : Prefix) (hc : p.code.length ≤ 31) (hn : fl.countBits n ≤ 24)
    (hg : gb (p.upper - p.lower) ≤ W) (hP : d.physBits ≤ W) :
    (encPrefix gb d fl n hasCommon p).length ≤ 67 + 3 * W := by
  have h1 := codeLenBits_le fl
  have h2 := encPrefix_length_le gb d fl n hasCommon p
  omega

/-! ### 7: chunk metadata -/

/-- the chunk metadata, field by field: n (24), body size (32), `order` moments, number of prefixes
(15), common-GCD flags (≤ 2) and field, the prefixes, byte padding (≤ 7) -/
theorem chunk_meta_bits_le (gb : Nat → Nat) (d : DType) (fl : Flags) (m : ChunkMeta)
    (hm : m.moments.length = fl.order) :
    (encChunkMeta gb d fl m).length ≤
      24 + 32 + fl.order * d.signed.physBits + 15 + 2 + gb ((prefDType d fl).M - 1)
        + (m.prefixes.map fun p =>
            (encPrefix gb (prefDType d fl) fl m.n (!fl.gcds || m.commonGcd.isSome) p).length).sum + 7 := by
  have hmo : (m.moments.flatMap (encMoment d.signed)).length = fl.order * d.signed.physBits := by
    rw [length_flatMap_const _ _ _ (encMoment_length d.signed), hm]
  have hpr := encPrefixes_length_le gb (prefDType d fl) fl m.n m.commonGcd m.prefixes
  have hpad := padToByte_length_le (natBits Frozen.bitsNEntries m.n ++ natBits Frozen.bitsBodySize m.bodyBytes
    ++ m.moments.flatMap (encMoment d.signed)
    ++ encPrefixes gb (prefDType d fl) fl m.n m.commonGcd m.prefixes)
  unfold encChunkMeta
  simp only [List.length_append, natBits_length, hmo, Frozen.bitsNEntries, Frozen.bitsBodySize] at hpad ⊢
  omega

/-- chunk metadata with uniform field bounds: moments `≤ S` bits, common GCD field `≤ G`, every prefix
within the bound of `prefix_meta_bits_le` -/
theorem chunk_meta_bits_le_uniform (gb : Nat → Nat) (d : DType) (fl : Flags) (m : ChunkMeta) (W S G : Nat)
    (hm : m.moments.length = fl.order) (hn : m.n < 2^24)
    (hS : d.signed.physBits ≤ S) (hG : gb ((prefDType d fl).M - 1) ≤ G)
    (hP : (prefDType d fl).physBits ≤ W)
    (hp : ∀ p ∈ m.prefixes, p.code.length ≤ 31 ∧ gb (p.upper - p.lower) ≤ W) :
    (encChunkMeta gb d fl m).length ≤ 80 + fl.order * S + G + m.prefixes.length * (67 + 3 * W) := by
  have h1 := chunk_meta_bits_le gb d fl m hm
  have h2 : (m.prefixes.map fun p =>
      (encPrefix gb (prefDType d fl) fl m.n (!fl.gcds || m.commonGcd.isSome) p).length).sum
      ≤ m.prefixes.length * (67 + 3 * W) :=
    sum_map_le_length_mul _ _ _ fun p hpm =>
      prefix_meta_bits_le gb _ fl m.n W _ p (hp p hpm).1 (countBits_le fl m.n hn) (hp p hpm).2 hP
  have h3 : fl.order * d.signed.physBits ≤ fl.order * S := Nat.mul_le_mul_left _ hS
  omega

/-- in bytes, for a type of `w` bytes (`S = W = 8w`, GCD fields at most `W` bits): the chunk
metadata takes at most `10 + (order + 1)·w` bytes plus `9 + 3w` bytes per prefix
(so, with the chunk's magic byte, at most `11 + (order + 1)·W/8` bytes plus the per-prefix cost) -/
theorem chunk_meta_bytes_le (gb : Nat → Nat) (d : DType) (fl : Flags) (m : ChunkMeta) (w : Nat)
    (hm : m.moments.length = fl.order) (hn : m.n < 2^24)
    (hS : d.signed.physBits ≤ 8 * w) (hG : gb ((prefDType d fl).M - 1) ≤ 8 * w)
    (hP : (prefDType d fl).physBits ≤ 8 * w)
    (hp : ∀ p ∈ m.prefixes, p.code.length ≤ 31 ∧ gb (p.upper - p.lower) ≤ 8 * w) :
    (encChunkMeta gb d fl m).length / 8 ≤ 10 + (fl.order + 1) * w + m.prefixes.length * (9 + 3 * w) := by
  have h := chunk_meta_bits_le_uniform gb d fl m (8 * w) (8 * w) (8 * w) hm hn hS hG hP hp
  have e1 : fl.order * (8 * w) = 8 * (fl.order * w) := by
    rw [Nat.mul_left_comm]
  have e2 : m.prefixes.length * (67 + 3 * (8 * w)) = 67 * m.prefixes.length + 24 * (m.prefixes.length * w) := by
    rw [Nat.mul_add, Nat.mul_comm _ 67, ← Nat.mul_assoc 3 8 w, Nat.mul_left_comm]
  have e3 : (fl.order + 1) * w = fl.order * w + w := by rw [Nat.add_mul, Nat.one_mul]
  have e4 : m.prefixes.length * (9 + 3 * w) = 9 * m.prefixes.length + 3 * (m.prefixes.length * w) := by
    rw [Nat.mul_add, Nat.mul_comm _ 9, Nat.mul_left_comm]
  rw [e1, e2] at h
  rw [e3, e4]
  generalize fl.order * w = a at *
  generalize m.prefixes.length * w = b at *
  omega

/-! ### 8: Kraft's inequality for the reference code -/

/-- `2^⌊log2 (r+1)⌋ ≤ r + 1`, summed -/
theorem pow_log2_sum_le (rs : List Nat) :
    (rs.map fun r => 2 ^ Nat.log2 (r + 1)).sum ≤ (rs.map (· + 1)).sum :=
  sum_map_le_sum_map _ _ _ fun r _ => Nat.log2_self_le (by omega)

theorem le_sum_of_mem {l : List Nat} {a : Nat} (h : a ∈ l) : a ≤ l.sum := by
  induction l with
  | nil => cases h
  | cons b l ih =>
    simp only [List.sum_cons]
    rcases List.mem_cons.1 h with rfl | h'
    · omega
    · have := ih h'; omega

/-- Kraft's inequality for the reference code: for ranges with `r_i + 1` offsets each, together at
most `2^W` (what pairwise disjointness inside `[0, 2^W)` gives, see `sum_ranges_le_of_disjoint`), the
lengths `l_i = W − k_i`, `k_i = ⌊log2 (r_i + 1)⌋`, satisfy `Σ 2^(W − l_i) ≤ 2^W` -/
theorem kraft_reference_feasible (W : Nat) (rs : List Nat) (h : (rs.map (· + 1)).sum ≤ 2^W) :
    (rs.map fun r => 2 ^ (W - (W - Nat.log2 (r + 1)))).sum ≤ 2^W := by
  have h1 : (rs.map fun r => 2 ^ (W - (W - Nat.log2 (r + 1)))).sum
      ≤ (rs.map fun r => 2 ^ Nat.log2 (r + 1)).sum := by
    apply sum_map_le_sum_map
    intro r hr
    have hle : r + 1 ≤ 2^W := Nat.le_trans (le_sum_of_mem (List.mem_map.2 ⟨r, hr, rfl⟩)) h
    have hk : Nat.log2 (r + 1) ≤ W := log2_succ_le hle
    have : W - (W - Nat.log2 (r + 1)) = Nat.log2 (r + 1) := by omega
    rw [this]; exact Nat.le_refl _
  exact Nat.le_trans h1 (Nat.le_trans (pow_log2_sum_le rs) h)

/-- the same, for any list of codes with the reference lengths, in terms of `kraftSum` -/
theorem kraft_reference_codes (W : Nat) (rs : List Nat) (codes : List Bits)
    (h : (rs.map (· + 1)).sum ≤ 2^W)
    (hl : codes.map List.length = rs.map fun r => W - Nat.log2 (r + 1)) :
    kraftSum W codes ≤ 2^W := by
  have e : kraftSum W codes = ((codes.map List.length).map fun l => 2 ^ (W - l)).sum := by
    simp [kraftSum, List.map_map, Function.comp_def]
  rw [e, hl, List.map_map]
  exact kraft_reference_feasible W rs h

/-- pairwise-disjoint ranges inside `[0, 2^W)` have at most `2^W` offsets together (whatever the GCDs) -/
theorem sum_ranges_le_of_disjoint (W : Nat) (ps : List Prefix) (hb : boundsOk ps = true)
    (hd : disjointB ps = true) (hu : ∀ p ∈ ps, p.upper < 2^W) :
    (ps.map fun p => p.info.r + 1).sum ≤ 2^W := by
  refine Nat.le_trans ?_ (sum_cnt_le ps hd (2^W))
  apply sum_map_le_sum_map
  intro p hp
  have hle : p.lower ≤ p.upper := by
    simp only [boundsOk, List.all_eq_true, decide_eq_true_eq] at hb
    exact hb p hp
  rw [Prefix.cnt_full p _ hle (hu p hp)]
  have : (p.upper - p.lower) / p.gcd ≤ p.upper - p.lower := Nat.div_le_self _ _
  simp only [Prefix.info]
  omega

/-- Kraft's inequality for the reference code of a prefix table with pairwise-disjoint ranges -/
theorem kraft_reference_of_disjoint (W : Nat) (ps : List Prefix) (hb : boundsOk ps = true)
    (hd : disjointB ps = true) (hu : ∀ p ∈ ps, p.upper < 2^W) :
    (ps.map fun p => 2 ^ (W - (W - p.info.k))).sum ≤ 2^W := by
  have h := kraft_reference_feasible W (ps.map fun p => p.info.r) (by
    rw [List.map_map]; exact sum_ranges_le_of_disjoint W ps hb hd hu)
  rw [List.map_map] at h
  exact h

/-! ### 9: the body, given the optimality of the code -/

/-- every `k` of the table of a prefix list inside `[0, 2^W)` is at most `W` -/
theorem tableOf_k_le (W : Nat) (ps : List Prefix) (hb : ∀ p ∈ ps, p.upper < 2^W) (i : Nat) :
    ((tableOf ps).info i).k ≤ W := by
  simp only [Table.info, tableOf, List.getD_eq_getElem?_getD, List.getElem?_map]
  cases hi : ps[i]? with
  | none => simp only [Option.map_none, Option.getD_none]; exact Nat.zero_le _
  | some p =>
    simp only [Option.map_some, Option.getD_some, Prefix.info]
    have hp : p ∈ ps := List.mem_of_getElem? hi
    have h1 : (p.upper - p.lower) / p.gcd ≤ p.upper - p.lower := Nat.div_le_self _ _
    have h2 := hb p hp
    exact log2_succ_le (by omega)

/-- **Conditional on the optimality of the prefix code** (Huffman optimality is a hypothesis here,
not a theorem of this development): for a body of single (non-run) blocks, if the code spends in
total at most what the reference code (length `W − k_p` for prefix `p`, admissible by
`kraft_reference_feasible`) would spend plus `c` bits per number, the body takes at most
`W + 1 + c` bits per number. Needs nothing of the table but `k_p ≤ W`. -/
theorem body_bound_of_optimal_slack_partial (t : Table) (W c : Nat) (bs : List Block)
    (hone : ∀ b ∈ bs, b.isOne = true)
    (hk : ∀ b ∈ bs, (t.info b.pidx).k ≤ W)
    (hopt : (bs.map fun b => (t.code b.pidx).length).sum
      ≤ (bs.map fun b => W - (t.info b.pidx).k).sum + c * bs.length) :
    (encBlocks t bs).length ≤ bs.length * (W + 1 + c) := by
  have h1 : (encBlocks t bs).length
      ≤ (bs.map fun b => (t.code b.pidx).length + ((t.info b.pidx).k + 1)).sum := by
    rw [encBlocks_length]
    apply sum_map_le_sum_map
    intro b hb
    rw [encBlock_one_length t b (hone b hb)]
    have := offBits_one_le t b (hone b hb)
    omega
  have h2 : (bs.map fun b => (W - (t.info b.pidx).k) + ((t.info b.pidx).k + 1)).sum ≤ bs.length * (W + 1) :=
    sum_map_le_length_mul _ _ _ fun b hb => by have := hk b hb; omega
  rw [sum_map_add] at h1 h2
  have e : bs.length * (W + 1 + c) = bs.length * (W + 1) + c * bs.length := by
    rw [Nat.mul_add _ (W + 1) c, Nat.mul_comm bs.length c]
  omega

/-- the case without slack: at most `W + 1` bits per number -/
theorem body_bound_of_optimal_partial (t : Table) (W : Nat) (bs : List Block)
    (hone : ∀ b ∈ bs, b.isOne = true)
    (hk : ∀ b ∈ bs, (t.info b.pidx).k ≤ W)
    (hopt : (bs.map fun b => (t.code b.pidx).length).sum ≤ (bs.map fun b => W - (t.info b.pidx).k).sum) :
    (encBlocks t bs).length ≤ bs.length * (W + 1) :=
  body_bound_of_optimal_slack_partial t W 0 bs hone hk (by omega)

/-- in a table without run-length prefixes every well-formed block is a single block -/
theorem isOne_of_wf (t : Table) (hj : ∀ p, (t.info p).jump = none) (b : Block) (hb : b.WF t) :
    b.isOne = true := by
  cases b with
  | one p off => rfl
  | run p off0 offs =>
    have h := hb.2.1
    rw [hj p] at h
    cases h

/-- `body_bound_of_optimal_slack_partial` for the well-formed blocks of a well-formed table without
run-length prefixes whose ranges lie inside `[0, 2^W)` (same optimality hypothesis) -/
theorem body_bound_of_optimal_wf_partial (t : Table) (W c : Nat) (bs : List Block)
    (hi : ∀ p, p < t.codes.length → (t.info p).WF)
    (hr : ∀ p, p < t.codes.length → (t.info p).r + 1 ≤ 2^W)
    (hj : ∀ p, (t.info p).jump = none)
    (hb : ∀ b ∈ bs, b.WF t)
    (hopt : (bs.map fun b => (t.code b.pidx).length).sum
      ≤ (bs.map fun b => W - (t.info b.pidx).k).sum + c * bs.length) :
    (encBlocks t bs).length ≤ bs.length * (W + 1 + c) := by
  refine body_bound_of_optimal_slack_partial t W c bs (fun b h => isOne_of_wf t hj b (hb b h)) ?_ hopt
  intro b h
  have hp : b.pidx < t.codes.length := by
    have := hb b h
    cases b with
    | one p off => exact this.1
    | run p off0 offs => exact this.1
  exact k_le_of_pow_le (hi _ hp).k_lo (hr _ hp)

/-- the same for the table of a chunk's prefixes with bounds inside `[0, 2^W)`, padding included -/
theorem chunk_body_bound_of_optimal_partial (ps : List Prefix) (W c : Nat) (bs : List Block)
    (hu : ∀ p ∈ ps, p.upper < 2^W)
    (hone : ∀ b ∈ bs, b.isOne = true)
    (hopt : (bs.map fun b => ((tableOf ps).code b.pidx).length).sum
      ≤ (bs.map fun b => W - ((tableOf ps).info b.pidx).k).sum + c * bs.length) :
    (encBody ps bs).length ≤ bs.length * (W + 1 + c) + 7 := by
  have h1 := body_padded_le ps bs
  have h2 := body_bound_of_optimal_slack_partial (tableOf ps) W c bs hone
    (fun b _ => tableOf_k_le W ps hu b.pidx) hopt
  omega

/-! ### 10: the hypotheses are satisfiable -/

/-- four ranges with 8, 4, 3, 1 offsets tile `[0, 2^4)`; the reference lengths are 1, 2, 3, 4 -/
example : ([7, 3, 2, 0].map (· + 1)).sum ≤ 2^4 ∧
    ([7, 3, 2, 0].map fun r => 4 - Nat.log2 (r + 1)) = [1, 2, 3, 4] ∧
    ([7, 3, 2, 0].map fun r => 2 ^ (4 - (4 - Nat.log2 (r + 1)))).sum = 15 := by decide

example : kraftSum 4 [[false], [true, false], [true, true, false], [true, true, true, false]] ≤ 2^4 :=
  kraft_reference_codes 4 [7, 3, 2, 0] _ (by decide) (by decide)

/-- three disjoint ranges of `[0, 16)` (one with GCD 2), via disjointness -/
def exPrefixes : List Prefix := [
  { count := 3, lower := 0, upper := 7, code := [false], jump := none, gcd := 1 },
  { count := 2, lower := 8, upper := 14, code := [true, false], jump := none, gcd := 2 },
  { count := 1, lower := 15, upper := 15, code := [true, true], jump := none, gcd := 1 } ]

example : (exPrefixes.map fun p => 2 ^ (4 - (4 - p.info.k))).sum ≤ 2^4 :=
  kraft_reference_of_disjoint 4 exPrefixes (by decide) (by decide) (by decide)

/-- a body of six numbers over that table: the code spends 9 bits, the reference code 13 -/
def exBlocks : List Block :=
  [.one 0 5, .one 1 3, .one 0 0, .one 2 0, .one 0 7, .one 1 1]

example : (encBody exPrefixes exBlocks).length ≤ exBlocks.length * (4 + 1 + 0) + 7 :=
  chunk_body_bound_of_optimal_partial exPrefixes 4 0 exBlocks (by decide) (by decide) (by decide)

example : (encBlocks (tableOf exPrefixes) exBlocks).length ≤ exBlocks.length * (4 + 1) :=
  body_bound_of_optimal_partial (tableOf exPrefixes) 4 exBlocks (by decide) (by decide) (by decide)

/-- the blocks of the example are well-formed blocks of a well-formed complete prefix table -/
example : completeTree (exPrefixes.map (·.code)) = true ∧ boundsOk exPrefixes = true ∧
    disjointB exPrefixes = true ∧ (∀ b ∈ exBlocks, b.WF (tableOf exPrefixes)) ∧
    (∀ p, p < (tableOf exPrefixes).codes.length → ((tableOf exPrefixes).info p).WF) := by
  refine ⟨by decide, by decide, by decide, ?_, ?_⟩
  · intro b hb
    simp only [exBlocks, List.mem_cons, List.not_mem_nil, or_false] at hb
    rcases hb with rfl | rfl | rfl | rfl | rfl | rfl <;> exact ⟨by decide, by decide, by decide⟩
  intro p hp
  have : p = 0 ∨ p = 1 ∨ p = 2 := by
    simp [tableOf, exPrefixes] at hp; omega
  rcases this with rfl | rfl | rfl <;> exact ⟨by decide, by decide, by decide⟩

end C14
end Qco
