/-
C14h — the body bound of C14 without the optimality hypothesis. Property theorems only.

`C14.chunk_body_bound_of_optimal_partial` takes as a hypothesis (`hopt`) that the prefix codes spend
in total at most what the reference code (length `W − k_p` for prefix `p`) would spend. Here the
hypothesis is discharged from Huffman optimality (`Qco/Lemmas/HuffmanOpt.lean`):

* the reference lengths satisfy Kraft's inequality when the ranges are pairwise disjoint inside
  `[0, 2^W)` (`C14.kraft_reference_of_disjoint`);
* Huffman's cost for the weights `count_p` is minimal among Kraft-feasible lengths
  (`huffman_le_of_kraft`), and every tie-breaking of the library's loop has that cost
  (`huffRun_cost`);
* when the counts in the table are the true numbers of blocks per prefix, the bits spent on codes in
  the body are `Σ count_p · |code_p|`.

So a body of `n` single blocks takes at most `n · (W + 1) + 7` bits (slack `c = 0`).
What is assumed of the file's codes is only `Σ count_p · |code_p| ≤ huffCost counts`, which holds
for `huffCodes counts` and for every `HuffCode counts codes` (the codes of any tie-breaking of the
library's loop).
-/
import Qco.Properties.C14
import Qco.Lemmas.HuffmanOpt
import Qco.Lemmas.HuffmanBody
namespace Qco
namespace C14h

/-! ### the optimality hypothesis of C14, discharged -/

/-- **`hopt` of `C14.chunk_body_bound_of_optimal_partial`, with slack 0**: for pairwise-disjoint
ranges inside `[0, 2^W)`, truthful counts, and codes that spend no more than Huffman's cost for those
counts, the codes of the body spend at most what the reference code (`W − k_p` bits) would -/
theorem huffman_hopt (W : Nat) (ps : List Prefix) (bs : List Block)
    (hb : boundsOk ps = true) (hd : disjointB ps = true) (hu : ∀ p ∈ ps, p.upper < 2^W)
    (hcodes : weightedLen (ps.map (·.count)) (ps.map (·.code)) ≤ huffCost (ps.map (·.count)))
    (hidx : ∀ b ∈ bs, b.pidx < ps.length)
    (hcount : ∀ p (hp : p < ps.length), (bs.filter fun b => b.pidx == p).length = ps[p].count) :
    (bs.map fun b => ((tableOf ps).code b.pidx).length).sum
      ≤ (bs.map fun b => W - ((tableOf ps).info b.pidx).k).sum := by
  rw [sum_blocks_eq ps bs (fun p => ((tableOf ps).code p).length) (fun q => q.code.length)
        (fun p hp => by rw [tableOf_code ps p hp]) hidx hcount,
      sum_blocks_eq ps bs (fun p => W - ((tableOf ps).info p).k) (fun q => W - q.info.k)
        (fun p hp => by rw [tableOf_info ps p hp]) hidx hcount]
  have e1 : (ps.map fun q => q.count * q.code.length).sum
      = weightedLen (ps.map (·.count)) (ps.map (·.code)) := by
    simp only [weightedLen, List.zip_map', List.map_map, Function.comp_def]
  have e2 : (ps.map fun q => q.count * (W - q.info.k)).sum
      = weightedSum (ps.map (·.count)) (ps.map fun q => W - q.info.k) := by
    simp only [weightedSum, List.zip_map', List.map_map, Function.comp_def]
  rw [e1, e2]
  refine Nat.le_trans hcodes ?_
  apply huffman_le_of_kraft _ _ W
  · simp
  · intro l hl
    obtain ⟨q, _, rfl⟩ := List.mem_map.1 hl
    exact Nat.sub_le _ _
  · rw [List.map_map]
    exact C14.kraft_reference_of_disjoint W ps hb hd hu

/-- **the body bound, unconditionally in the code**: a body of single blocks over a table with
pairwise-disjoint ranges inside `[0, 2^W)`, truthful counts and a code as good as Huffman's takes at
most `W + 1` bits per number, plus byte padding -/
theorem body_bound (W : Nat) (ps : List Prefix) (bs : List Block)
    (hb : boundsOk ps = true) (hd : disjointB ps = true) (hu : ∀ p ∈ ps, p.upper < 2^W)
    (hcodes : weightedLen (ps.map (·.count)) (ps.map (·.code)) ≤ huffCost (ps.map (·.count)))
    (hone : ∀ b ∈ bs, b.isOne = true)
    (hidx : ∀ b ∈ bs, b.pidx < ps.length)
    (hcount : ∀ p (hp : p < ps.length), (bs.filter fun b => b.pidx == p).length = ps[p].count) :
    (encBody ps bs).length ≤ bs.length * (W + 1) + 7 := by
  have h := C14.chunk_body_bound_of_optimal_partial ps W 0 bs hu hone
    (by have := huffman_hopt W ps bs hb hd hu hcodes hidx hcount; omega)
  simpa using h

/-- the codes of the model's deterministic run qualify -/
theorem body_bound_huffCodes (W : Nat) (ps : List Prefix) (bs : List Block)
    (hb : boundsOk ps = true) (hd : disjointB ps = true) (hu : ∀ p ∈ ps, p.upper < 2^W)
    (hcodes : ps.map (·.code) = huffCodes (ps.map (·.count)))
    (hone : ∀ b ∈ bs, b.isOne = true)
    (hidx : ∀ b ∈ bs, b.pidx < ps.length)
    (hcount : ∀ p (hp : p < ps.length), (bs.filter fun b => b.pidx == p).length = ps[p].count) :
    (encBody ps bs).length ≤ bs.length * (W + 1) + 7 :=
  body_bound W ps bs hb hd hu (by rw [hcodes, ← huffCost_eq_weightedLen]; exact Nat.le_refl _)
    hone hidx hcount

/-- the codes of EVERY run of the library's loop (any tie-breaking of the heap) qualify -/
theorem body_bound_of_huffCode (W : Nat) (ps : List Prefix) (bs : List Block)
    (hb : boundsOk ps = true) (hd : disjointB ps = true) (hu : ∀ p ∈ ps, p.upper < 2^W)
    (hc : HuffCode (ps.map (·.count)) (ps.map (·.code)))
    (hone : ∀ b ∈ bs, b.isOne = true)
    (hidx : ∀ b ∈ bs, b.pidx < ps.length)
    (hcount : ∀ p (hp : p < ps.length), (bs.filter fun b => b.pidx == p).length = ps[p].count) :
    (encBody ps bs).length ≤ bs.length * (W + 1) + 7 :=
  body_bound W ps bs hb hd hu
    (Nat.le_of_eq hc.cost) hone hidx hcount

/-! ### the hypotheses are satisfiable -/

/-- the table and body of C14's example: three prefixes with counts 3, 2, 1 (a GCD of 2 on the
second), six blocks with exactly those multiplicities; the codes `0, 10, 11` cost 9 bits = Huffman -/
example : (encBody C14.exPrefixes C14.exBlocks).length ≤ C14.exBlocks.length * (4 + 1) + 7 :=
  body_bound 4 C14.exPrefixes C14.exBlocks (by decide) (by decide) (by decide) (by decide) (by decide)
    (by decide) (by decide)

example : huffCost [3, 2, 1] = 9 ∧ weightedLen [3, 2, 1] (C14.exPrefixes.map (·.code)) = 9 := by decide

/-- four prefixes, counts 5, 2, 2, 1; the table carries the codes of the model's run -/
def exPrefixes4 : List Prefix := [
  { count := 5, lower := 0, upper := 15, code := [true], jump := none, gcd := 1 },
  { count := 2, lower := 16, upper := 19, code := [false, true, true], jump := none, gcd := 1 },
  { count := 2, lower := 20, upper := 26, code := [false, false], jump := none, gcd := 3 },
  { count := 1, lower := 31, upper := 31, code := [false, true, false], jump := none, gcd := 1 } ]

def exBlocks4 : List Block :=
  [.one 0 5, .one 1 3, .one 0 0, .one 2 2, .one 0 7, .one 1 1, .one 3 0, .one 0 15, .one 2 0, .one 0 9]

example : exPrefixes4.map (·.code) = huffCodes (exPrefixes4.map (·.count)) := by decide

example : (encBody exPrefixes4 exBlocks4).length ≤ exBlocks4.length * (5 + 1) + 7 :=
  body_bound_huffCodes 5 exPrefixes4 exBlocks4 (by decide) (by decide) (by decide) (by decide) (by decide)
    (by decide) (by decide)

/-- the same table with another code of the same cost (lengths 1, 2, 3, 3 instead of 1, 3, 2, 3: the
two prefixes of count 2 are interchangeable for the heap): not the codes of the model's run, but
within the hypothesis of `body_bound` -/
def exPrefixes4' : List Prefix := [
  { count := 5, lower := 0, upper := 15, code := [true], jump := none, gcd := 1 },
  { count := 2, lower := 16, upper := 19, code := [false, true], jump := none, gcd := 1 },
  { count := 2, lower := 20, upper := 26, code := [false, false, true], jump := none, gcd := 3 },
  { count := 1, lower := 31, upper := 31, code := [false, false, false], jump := none, gcd := 1 } ]

example : exPrefixes4'.map (·.code) ≠ huffCodes (exPrefixes4'.map (·.count)) ∧
    weightedLen (exPrefixes4'.map (·.count)) (exPrefixes4'.map (·.code)) = huffCost (exPrefixes4'.map (·.count)) := by
  decide

example : (encBody exPrefixes4' exBlocks4).length ≤ exBlocks4.length * (5 + 1) + 7 :=
  body_bound 5 exPrefixes4' exBlocks4 (by decide) (by decide) (by decide) (by decide) (by decide)
    (by decide) (by decide)

/-- an answer of the loop for the counts 2, 1, 1 that is not the model's run (the heap may pop the
two 1s, and then the two 2s, in either order): covered by `HuffCode` all the same -/
example : HuffCode [2, 1, 1] [[false], [true, true], [true, false]] ∧
    [[false], [true, true], [true, false]] ≠ huffCodes [2, 1, 1] := by
  refine ⟨⟨rfl, .node (.leaf 0 2) (.node (.leaf 2 1) (.leaf 1 1)), ?_, by unfold TreeCodes; decide⟩, by decide⟩
  refine .step ⟨.leaf 2 1, .leaf 1 1, [.leaf 0 2], ?_, by decide, by decide, .refl _⟩ ?_
  · exact ((List.Perm.swap _ _ _).cons _).trans ((List.Perm.swap _ _ _).trans ((List.Perm.swap _ _ _).cons _))
  · refine .step ⟨.leaf 0 2, .node (.leaf 2 1) (.leaf 1 1), [], List.Perm.swap _ _ _, by decide, by decide, .refl _⟩ ?_
    exact .done _

end C14h
end Qco
