/-
C14l — Layer SZ: the SIZE bounds of C14 / C18(2) for the LITERAL compressor with the LITERAL training.  Property
theorems only; the proofs are in `Qco/Lemmas/SizeLit/*.lean`.

`C14h.body_bound` and the `C18s` theorems bound the body of a chunk under hypotheses on the table and the blocks
(disjoint ranges, truthful counts, codes as good as Huffman's for the right weights, single blocks / zero runs)
that were evaluated per chunk at run time.  Here they are THEOREMS about what `train_prefixes`
(`TrainLit.trainLit`) returns and what `Compressor::chunk` (`CompLit.chunk`) writes:

  1 `trainLit_body_bound_no_runlen`  no prefix of the trained table has a jumpstart → the greedy body takes at most
                                     `n (W + 1) + 7` bits;
  2 `trainLit_body_bound_runlen`     a prefix `r` has a jumpstart, is single-valued, and its float weight `E`
                                     satisfies `others < 2E` → `≤ n (W + 4)` bits for `W ≥ 9`, `≤ n (W + 5)` for
                                     `W ≥ 8`, and `≤ (W + 8)·others + 52·runs` (C18(2));
    `trainLit_body_bound_dominant`   the same with "single-valued" and the prefix itself DERIVED from "one value
                                     holds ≥ 90 % of n ≥ 2000 numbers" (level ≥ 8), and `others < 2E` from
                                     `RunWeightHeavy F n` (which the exact `expected_n_runs` satisfies);
  3 `literal_chunk_size_bound`       one accepted call of the literal `chunk`: the `compressed_body_size` it RETURNS
                                     obeys these bounds and the bits it WRITES are `encChunk` of the writer's chunk;
    `literal_file_size`              the whole output of a literal run is `56 + Σ (8 + metadata + body)` bits with
                                     `body = 8 · compressed_body_size` of the chunk.

Hypotheses that remain (all explicit): the oracle hypotheses of layer TL (`FloatsAgree`, `RunWeightOK`,
`CostFinite`, `PickOK`); `level ≤ 12`, `1 ≤ n ≤ 2^24 − 1`, values `< 2^W` and `< 2^U::BITS`; for (2) that the
run-length prefix is single-valued (NOT a theorem: with a tiny quantile budget — `level` small — the raw prefix
holding ≥ 80 % of the numbers may span several values) and `others < 2E` on the float weight; for (3) `ChunkOk`
(which contains `CodesFit`).  No hypothesis is about the table other than those two of (2).
-/
import Qco.Lemmas.SizeLit.Heavy
import Qco.Lemmas.SizeLit.Chunk
import Qco.Properties.C01l
namespace Qco
namespace C14l
open Train TrainLit E2E SizeLit
open Qco.WB Qco.MetaIO Qco.Op Qco.CompLit

/-! ### 1. no run-length prefix -/

/-- **`trainLit_body_bound_no_runlen`.**  On a non-empty chunk of coded unsigneds `us` (`< 2^ub` for training,
`< 2^W` for the bound; `W = ub` is the usual choice), `level ≤ 12`, `len ≤ n ≤ MAX_ENTRIES`, EVERY cost oracle with
finite candidate costs, EVERY heap tie-breaking, floats agreeing with their integer readings: `train_prefixes`
answers `Ok(ps)`, and if NO prefix of `ps` has a run-length jumpstart the greedy grouping of `us` succeeds, makes
`n` blocks, and `encBody ps blocks` takes at most `n · (W + 1) + 7` bits.  (`WFc` gives the disjoint ranges, the
truthful counts, the bounds; `makeHuffmanLit_is_huffRun` + "merged weights = merged counts" give the `HuffCode` for
the counts; a table without jumpstarts makes single blocks only.) -/
theorem trainLit_body_bound_no_runlen {C : Type} (F : Floats) (O : CostOracle C) (pick : Nat → List HItem → Nat)
    (ub W : Nat) (gb : Nat → Nat) (us : List Nat) (level : Nat) (gcds : Bool) (n : Nat)
    (hne : us ≠ []) (hl : level ≤ 12) (hn : n ≤ MAX_ENTRIES) (hlen : us.length ≤ n)
    (hU : ∀ x ∈ us, x < 2 ^ ub) (hUW : ∀ x ∈ us, x < 2 ^ W) (hF : FloatsAgree F us.length)
    (hW : RunWeightOK F us.length) (hfin : CostFinite O) (hp : PickOK pick) :
    ∃ ps, trainLit F O pick ub gb us level gcds n = .ok (some ps) ∧
      ((∀ p ∈ ps, p.jump = none) →
        ∃ bs, greedyBlocks ps us.length us = some bs ∧ bs.length = us.length ∧
          (encBody ps bs).length ≤ us.length * (W + 1) + 7) := by
  obtain ⟨ps, h1, hS⟩ := trainLit_sized F O pick ub gb us level gcds n hne hl hn hlen hU hF hW hfin hp
  exact ⟨ps, h1, fun hnoj => sized_no_runlen hS W hUW (by unfold MAX_ENTRIES at hn; omega) hnoj⟩

/-- a chunk of fewer than 1001 coded numbers never has a run-length prefix (`push_pref`: `n_unsigneds < 1001`),
so the bound of (1) holds unconditionally there -/
theorem trainLit_body_bound_small {C : Type} (F : Floats) (O : CostOracle C) (pick : Nat → List HItem → Nat)
    (ub W : Nat) (gb : Nat → Nat) (us : List Nat) (level : Nat) (gcds : Bool) (n : Nat)
    (hne : us ≠ []) (hl : level ≤ 12) (hn : n ≤ MAX_ENTRIES) (hlen : us.length ≤ n)
    (hU : ∀ x ∈ us, x < 2 ^ ub) (hUW : ∀ x ∈ us, x < 2 ^ W) (hF : FloatsAgree F us.length)
    (hW : RunWeightOK F us.length) (hfin : CostFinite O) (hp : PickOK pick) (hsmall : us.length < 1001) :
    ∃ ps bs, trainLit F O pick ub gb us level gcds n = .ok (some ps) ∧
      greedyBlocks ps us.length us = some bs ∧ (encBody ps bs).length ≤ us.length * (W + 1) + 7 := by
  obtain ⟨ps, h1, hS⟩ := trainLit_sized F O pick ub gb us level gcds n hne hl hn hlen hU hF hW hfin hp
  have hnoj : ∀ p ∈ ps, p.jump = none := by
    intro p hp
    cases hj : p.jump with
    | none => rfl
    | some j =>
      have := hS.jump_rule p hp (by rw [hj]; rfl)
      simp only [C18.usesRunLen, Bool.and_eq_true, decide_eq_true_eq] at this
      omega
  obtain ⟨bs, h2, _, h3⟩ := sized_no_runlen hS W hUW (by unfold MAX_ENTRIES at hn; omega) hnoj
  exact ⟨ps, bs, h1, h2, h3⟩

/-! ### 2. a single-valued run-length prefix -/

/-- **`trainLit_body_bound_runlen`.**  Same setting.  If the prefix `r` of the table `train_prefixes` returns has a
jumpstart and holds a single value, and the float weight `E = expected_n_runs` that `push_pref` gave it satisfies
`others < 2·E` (`others` = the total count of the other prefixes), then the greedy body takes at most `n (W + 5)`
bits for `W ≥ 8`, `n (W + 4)` bits for `W ≥ 9`, and (C18(2)) `(W + 8)·others + 52·runs` bits; there are at most
`others + 1` runs.  Derived, not assumed: no other prefix has a jumpstart; the run-length rule fired on `r`; the
blocks are single blocks and zero-offset runs of `r`; counts are truthful; the codes are a `HuffCode` for
`counts[r ↦ E]` (so `code_r` has 1 or 2 bits). -/
theorem trainLit_body_bound_runlen {C : Type} (F : Floats) (O : CostOracle C) (pick : Nat → List HItem → Nat)
    (ub W : Nat) (gb : Nat → Nat) (us : List Nat) (level : Nat) (gcds : Bool) (n : Nat)
    (hne : us ≠ []) (hl : level ≤ 12) (hn : n ≤ MAX_ENTRIES) (hlen : us.length ≤ n)
    (hU : ∀ x ∈ us, x < 2 ^ ub) (hUW : ∀ x ∈ us, x < 2 ^ W) (hF : FloatsAgree F us.length)
    (hW : RunWeightOK F us.length) (hfin : CostFinite O) (hp : PickOK pick) :
    ∃ ps, trainLit F O pick ub gb us level gcds n = .ok (some ps) ∧
      ∀ (r j : Nat) (hr : r < ps.length), ps[r].jump = some j → ps[r].lower = ps[r].upper →
        othersOf ps r < 2 * (F.runLen ps[r].count us.length).1 →
        ∃ bs, greedyBlocks ps us.length us = some bs ∧
          (8 ≤ W → (encBody ps bs).length ≤ us.length * (W + 5)) ∧
          (9 ≤ W → (encBody ps bs).length ≤ us.length * (W + 4)) ∧
          (encBody ps bs).length ≤ (W + 8) * othersOf ps r + 52 * runCount r bs ∧
          runCount r bs ≤ othersOf ps r + 1 ∧ us.length = othersOf ps r + ps[r].count ∧
          5 * othersOf ps r ≤ us.length := by
  obtain ⟨ps, h1, hS⟩ := trainLit_sized F O pick ub gb us level gcds n hne hl hn hlen hU hF hW hfin hp
  refine ⟨ps, h1, ?_⟩
  intro r j hr hj hs hheavy
  obtain ⟨bs, hbs, hSp, hR, hhuff, hrule, hnn⟩ := sized_sparse hS W hUW r j hr hj hs
  obtain ⟨hn1, hfifth, ho⟩ := C18s.others_le_fifth us.length _ _ hrule hnn
  have h2 := C18s.two_le_of_others ps r hr ho
  obtain ⟨hc0, hc1, hc2⟩ := C18s.codes_of_huffCode ps r hr _ hhuff hheavy h2
  have hcong := (wfc_all hS.trained.wfc).2.2.2.2.1
  have hnums : (blocksNums (tableOf ps) bs).length = us.length := by
    rw [greedyBlocks_nums ps us us.length bs hcong hbs]
  have hRpos := runCount_pos (us := us) hSp hnums (by omega)
  refine ⟨bs, hbs, ?_, ?_, ?_, hR, hnn, hfifth⟩
  · exact fun hW8 => C18s.c14_sparse_w8 W ps r bs hSp _ hc0 hc1 hc2 us.length hrule hnn hR hW8
  · exact fun hW9 => C18s.c14_sparse W ps r bs hSp _ hc0 hc1 hc2 us.length hrule hnn hR hW9
  · exact C18s.c18_sparse' W ps r bs hSp _ hc0 hc1 hc2 ho hRpos

/-- **`trainLit_body_bound_dominant`.**  The hypotheses of (2) on the table, derived: among `n ≥ 2000` coded numbers
a value `c` holds at least 90 % of them but not all, `8 ≤ level ≤ 12`, and the float weight satisfies
`RunWeightHeavy F n` (the exact `expected_n_runs` does: `floatsExact_heavy`).  Then the trained table has the prefix
`[c, c]` with the exact count of `c` and a jumpstart, and the greedy body obeys the bounds of (2) with
`others = n − count(c)`. -/
theorem trainLit_body_bound_dominant {C : Type} (F : Floats) (O : CostOracle C) (pick : Nat → List HItem → Nat)
    (ub W : Nat) (gb : Nat → Nat) (us : List Nat) (level : Nat) (gcds : Bool) (n : Nat)
    (hl : level ≤ 12) (hn : n ≤ MAX_ENTRIES) (hlen : us.length ≤ n)
    (hU : ∀ x ∈ us, x < 2 ^ ub) (hUW : ∀ x ∈ us, x < 2 ^ W) (hF : FloatsAgree F us.length)
    (hW : RunWeightOK F us.length) (hH : RunWeightHeavy F us.length) (hfin : CostFinite O) (hp : PickOK pick)
    (c : Nat) (hn2 : us.length ≥ 2000) (hc : 10 * us.count c ≥ 9 * us.length) (hcne : us.count c ≠ us.length)
    (hl8 : 8 ≤ level) :
    ∃ ps bs r, ∃ (hr : r < ps.length), trainLit F O pick ub gb us level gcds n = .ok (some ps) ∧
      ps[r].lower = c ∧ ps[r].upper = c ∧ ps[r].count = us.count c ∧
      ps[r].jump = some (jumpstart us.length (us.count c)) ∧
      greedyBlocks ps us.length us = some bs ∧
      (8 ≤ W → (encBody ps bs).length ≤ us.length * (W + 5)) ∧
      (9 ≤ W → (encBody ps bs).length ≤ us.length * (W + 4)) ∧
      (encBody ps bs).length ≤ (W + 8) * (us.length - us.count c) + 52 * runCount r bs ∧
      runCount r bs ≤ us.length - us.count c + 1 := by
  have hne : us ≠ [] := by intro h; rw [h] at hn2; simp at hn2
  obtain ⟨ps, h1, hS⟩ := trainLit_sized F O pick ub gb us level gcds n hne hl hn hlen hU hF hW hfin hp
  obtain ⟨r, hr, hlo, hup, hcnt, hj⟩ := sized_dominant hS c hn2 hc hcne hl8
  obtain ⟨ps', h1', hall⟩ := trainLit_body_bound_runlen F O pick ub W gb us level gcds n hne hl hn hlen hU hUW hF hW
    hfin hp
  have : ps' = ps := by
    rw [h1] at h1'; injection h1' with h; injection h with h; exact h.symm
  subst this
  -- `others = n − count`, hence the heaviness of the float weight
  obtain ⟨_, _, _, _, _, hrule, hnn⟩ := sized_sparse hS W hUW r _ hr hj (by rw [hlo, hup])
  simp only [C18.usesRunLen, Bool.and_eq_true, decide_eq_true_eq] at hrule
  have hle : ps'[r].count ≤ us.length := by omega
  have hheavy : othersOf ps' r < 2 * (F.runLen ps'[r].count us.length).1 := by
    have := hH ps'[r].count (by omega) (by omega) (by omega)
    omega
  obtain ⟨bs, hbs, b8, b9, b18, hR, hnn', _⟩ := hall r _ hr hj (by rw [hlo, hup]) hheavy
  have ho : othersOf ps' r = us.length - us.count c := by omega
  rw [ho] at b18 hR
  exact ⟨ps', bs, r, hr, h1, hlo, hup, hcnt, hj, hbs, b8, b9, b18, hR⟩

/-- the integer readings of the floats satisfy every hypothesis on `F` of this file -/
theorem floatsExact_ok (n : Nat) :
    FloatsAgree Floats.exact n ∧ RunWeightOK Floats.exact n ∧ RunWeightHeavy Floats.exact n :=
  ⟨(C10l.floatsExact_agree n).1, (C10l.floatsExact_agree n).2, floatsExact_heavy n⟩

/-! ### 3. the literal compressor -/

variable {C : Type} {F : Floats} {O : CostOracle C} {pick : Nat → List HItem → Nat} {gb est : Nat → Nat}
  {d : DType} {cfg : CConfig}

/-- **`literal_chunk_size_bound`.**  One call `chunk(nums)` of the literal compressor (training = the literal
`train_prefixes`) in a state that accepts it (`CSim` with an abstract state with header and without footer,
fewer than `2^64 − 32` bits pending), on a chunk satisfying `ChunkOk`.  The call answers `Ok(metadata)` with
`metadata.n = nums.len()` and `metadata.prefixes` = the trained table `ps`; the writer grows by exactly `encChunk`
of the writer's chunk (magic byte, metadata, body); and with `n'` = the number of coded numbers
(`nums.len() − order`), `W = U::BITS`:
* if no prefix of `ps` has a jumpstart: `8 · compressed_body_size ≤ n' (W + 1) + 7`;
* if the prefix `r` has one, is single-valued, and `others < 2E`:
  `8 · compressed_body_size ≤ n' (W + 5)` (`W ≥ 8`), `≤ n' (W + 4)` (`W ≥ 9`), and
  `≤ (W + 8)·others + 52·(others + 1)`. -/
theorem literal_chunk_size_bound (hd : d ∈ Frozen.dtypes) (hgb : ∀ x, gb x ≤ d.uBits) (hG : GbTop gb d)
    (hest : BodyWriter.EstOk d.uBits est) (hlev : cfg.level ≤ 12) (hfin : CostFinite O) (hp : PickOK pick)
    {nums : List Nat} (hc : ChunkOk F O pick gb d cfg nums) {l : Comp} {a : CSt} (hs : CSim cfg l a)
    (hacc : Accepted cfg a nums.length) (hsz : a.pending.length + 32 < USIZE) :
    ∃ rm, (chunk gb est d (trainOracle F O pick gb d) nums l).1 = .ok rm ∧
      rm.n = nums.length ∧
      rm.prefixMetadata.prefixes = trainedTable F O pick gb d cfg nums ∧
      (chunk gb est d (trainOracle F O pick gb d) nums l).2.writer.bits
        = l.writer.bits ++ encChunk gb d cfg.flags (writerChunk F O pick gb d cfg nums) ∧
      ((∀ p ∈ trainedTable F O pick gb d cfg nums, p.jump = none) →
        8 * rm.compressedBodySize ≤ (codedUs d cfg.flags nums).length * (d.uBits + 1) + 7) ∧
      (∀ (r j : Nat) (hr : r < (trainedTable F O pick gb d cfg nums).length),
        (trainedTable F O pick gb d cfg nums)[r].jump = some j →
        (trainedTable F O pick gb d cfg nums)[r].lower = (trainedTable F O pick gb d cfg nums)[r].upper →
        othersOf (trainedTable F O pick gb d cfg nums) r
          < 2 * (F.runLen (trainedTable F O pick gb d cfg nums)[r].count (codedUs d cfg.flags nums).length).1 →
        (8 ≤ d.uBits → 8 * rm.compressedBodySize ≤ (codedUs d cfg.flags nums).length * (d.uBits + 5)) ∧
        (9 ≤ d.uBits → 8 * rm.compressedBodySize ≤ (codedUs d cfg.flags nums).length * (d.uBits + 4)) ∧
        8 * rm.compressedBodySize ≤ (d.uBits + 8) * othersOf (trainedTable F O pick gb d cfg nums) r
          + 52 * (othersOf (trainedTable F O pick gb d cfg nums) r + 1)) := by
  have hr := rows_ok d hd
  obtain ⟨rm, bs, hrm, hnn, hps, hbs, hsize, hbits⟩ :=
    literal_chunk_returns (est := est) hr hgb hG hest hlev hfin hp hc hs hacc hsz
  refine ⟨rm, hrm, hnn, hps, hbits, ?_⟩
  have hvv : ∀ v ∈ nums, C12.valid d v := fun v h => (hc.nums_ok v h).1
  have hU := codedUs_lt hr cfg.flags nums hvv
  by_cases hus : codedUs d cfg.flags nums = []
  · -- no coded numbers: the empty table, the empty body
    have htt : trainedTable F O pick gb d cfg nums = [] := by
      unfold trainedTable trainOracle
      rw [hus]; rfl
    rw [htt, hus] at hbs
    have hb0 : bs = [] := by
      simp only [greedyBlocks, Option.some.injEq] at hbs; exact hbs.symm
    rw [htt, hb0] at hsize
    have h0 : 8 * rm.compressedBodySize = 0 := by rw [hsize]; rfl
    rw [htt]
    refine ⟨fun _ => by omega, ?_⟩
    intro r j hr'
    simp at hr'
  · have hlen := codedUs_length_le d cfg.flags nums
    have hn := hc.len
    obtain ⟨ps, h1, hno⟩ := trainLit_body_bound_no_runlen F O pick d.uBits d.uBits gb (codedUs d cfg.flags nums)
      cfg.level cfg.flags.gcds nums.length hus hlev (by unfold MAX_ENTRIES; exact hn) hlen hU hU hc.floats hc.weight
      hfin hp
    obtain ⟨ps', h1', hrun⟩ := trainLit_body_bound_runlen F O pick d.uBits d.uBits gb (codedUs d cfg.flags nums)
      cfg.level cfg.flags.gcds nums.length hus hlev (by unfold MAX_ENTRIES; exact hn) hlen hU hU hc.floats hc.weight
      hfin hp
    have hpp : ps' = ps := by
      rw [h1] at h1'; injection h1' with h; injection h with h; exact h.symm
    subst hpp
    have htt : trainedTable F O pick gb d cfg nums = ps' := by
      unfold trainedTable trainOracle
      simp only [h1]
    rw [htt] at hbs hsize ⊢
    refine ⟨?_, ?_⟩
    · intro hnoj
      obtain ⟨bs', hbs', _, hb⟩ := hno hnoj
      rw [hbs] at hbs'; injection hbs' with e; subst e
      rw [hsize]; exact hb
    · intro r j hr' hj hsv hheavy
      obtain ⟨bs', hbs', b8, b9, b18, hR, _, _⟩ := hrun r j hr' hj hsv hheavy
      rw [hbs] at hbs'; injection hbs' with e; subst e
      rw [hsize]
      refine ⟨b8, b9, ?_⟩
      have : 52 * runCount r bs ≤ 52 * (othersOf ps' r + 1) := Nat.mul_le_mul_left _ hR
      omega

/-- the bits of `k` bytes -/
theorem bytesBits_len : ∀ (out : List Nat), (bytesBits out).length = 8 * out.length
  | [] => rfl
  | b :: bs => by
    have ih := bytesBits_len bs
    simp only [bytesBits, List.flatMap_cons, List.length_append, natBits_length, List.length_cons] at ih ⊢
    omega

/-- the file made of the writer's chunks: 7 bytes of overhead, and per chunk the magic byte, the metadata, the body -/
theorem writer_file_size (chunks : List (List Nat)) (ho : cfg.order ≤ 7) :
    (encodeFile gb d { flags := cfg.flags, chunks := chunks.map (writerChunk F O pick gb d cfg) }).length
      = 56 + (chunks.map fun c =>
          8 + (encChunkMeta gb d cfg.flags (writerChunk F O pick gb d cfg c).fixedMeta).length
            + (encBody (writerChunk F O pick gb d cfg c).cm.prefixes
                (writerChunk F O pick gb d cfg c).blocks).length).sum := by
  rw [C14.file_size gb d _ ho]
  have hsum : ∀ (l : List (List Nat)),
      ((l.map (writerChunk F O pick gb d cfg)).map fun c => (encChunk gb d cfg.flags c).length).sum
        = (l.map fun c =>
            8 + (encChunkMeta gb d cfg.flags (writerChunk F O pick gb d cfg c).fixedMeta).length
              + (encBody (writerChunk F O pick gb d cfg c).cm.prefixes
                  (writerChunk F O pick gb d cfg c).blocks).length).sum := by
    intro l
    induction l with
    | nil => rfl
    | cons c l ih => simp only [List.map_cons, List.sum_cons]; rw [ih, C14.chunk_size]
  exact congrArg (56 + ·) (hsum chunks)

/-- **`literal_file_size`.**  The whole output of the literal run of `literal_compress_is_file` (bytes drained, then
bits pending) has `56 + Σ_chunks (8 + |metadata| + |body|)` bits, where `|body| = 8 · compressed_body_size` is the
body of `literal_chunk_size_bound` (`encBody` of the greedy blocks of the trained table) and `|metadata|` is
`encChunkMeta` of the writer's metadata, to which `C14.chunk_meta_bits_le` / `C14.chunk_meta_bytes_le` apply
(`10 + (order + 1)·w + prefixes·(9 + 3w)` bytes for a type of `w` bytes). -/
theorem literal_file_size (hd : d ∈ Frozen.dtypes) (hgb : ∀ x, gb x ≤ d.uBits) (hG : GbTop gb d)
    (hest : BodyWriter.EstOk d.uBits est) (ho : cfg.order ≤ 7) (hlev : cfg.level ≤ 12) (hfin : CostFinite O)
    (hp : PickOK pick) (chunks : List (List Nat)) (hch : ∀ c ∈ chunks, ChunkOk F O pick gb d cfg c)
    (ops : List TOp) (hshape : stripT ops = canonical chunks)
    (hsz : (encodeFile gb d (readerFile F O pick gb d cfg chunks)).length + 32 < USIZE) :
    ∃ out l', tRun gb est d (trainOracle F O pick gb d) ops (Comp.fromConfig cfg) [] = .ok (out, l') ∧
      8 * out.length + l'.writer.bits.length
        = 56 + (chunks.map fun c =>
            8 + (encChunkMeta gb d cfg.flags (writerChunk F O pick gb d cfg c).fixedMeta).length
              + (encBody (writerChunk F O pick gb d cfg c).cm.prefixes
                  (writerChunk F O pick gb d cfg c).blocks).length).sum := by
  obtain ⟨out, l', e, hbits, _, _, _⟩ := C01l.literal_compress_is_file (est := est) hd hgb hG hest ho hlev hfin hp
    chunks hch ops hshape hsz
  refine ⟨out, l', e, ?_⟩
  have hlen := congrArg List.length hbits
  rw [List.length_append, bytesBits_len] at hlen
  rw [hlen, ← C01l.reader_file_same_bits]
  exact writer_file_size chunks ho

end C14l
end Qco

/-! ### non-vacuity -/

namespace Qco
namespace C14l
open Train TrainLit E2E SizeLit

section Examples

/-- (1) instantiated on the first chunk of `C01l`'s example (`i32`, six numbers, two ranges, no jumpstart): every
hypothesis holds, the table is `C01l.exTable1`, and the bound `6 · 33 + 7` follows -/
example : ∃ bs, greedyBlocks C01l.exTable1 6
      [2147483649, 2147483650, 2147483651, 2147484648, 2147484649, 2147484650] = some bs ∧
    (encBody C01l.exTable1 bs).length ≤ 6 * (32 + 1) + 7 := by
  obtain ⟨ps, h1, h2⟩ := trainLit_body_bound_no_runlen Floats.exact C01l.rangeCost pickFirstMin 32 32 C01l.exGb
    [2147483649, 2147483650, 2147483651, 2147484648, 2147484649, 2147484650] 8 true 6 (by decide) (by decide)
    (by decide) (by decide) (by decide) (by decide) (floatsExact_ok _).1 (floatsExact_ok _).2.1
    C01l.rangeCost_finite C10l.pickFirstMin_ok
  rw [C01l.exTrainLit1] at h1
  injection h1 with h; injection h with h; subst h
  obtain ⟨bs, hb, _, hle⟩ := h2 (by decide)
  exact ⟨bs, hb, hle⟩

/-- 2000 numbers, 1800 of them equal (the example `s2` of `Qco/Train/Lit.lean`, shuffled into runs) -/
private def usBig : List Nat :=
  (List.range 100).flatMap fun i => 3 :: List.replicate 18 7 ++ [9 + i % 3]

private def bodyBitsOf (ps : List Prefix) (us : List Nat) : Nat :=
  match greedyBlocks ps us.length us with
  | some bs => (encBody ps bs).length
  | none => 0

-- (2) evaluated: the trained table has the single-valued prefix [7, 7] with a jumpstart at some index `r`, the float
-- weight is heavy (`others < 2E`), and the body obeys `n (W + 4)` and `(W + 8)·others + 52·(others + 1)`
#guard (match trainLit Floats.exact (C10l.natCost 5) pickFirstMin 32 C01l.exGb usBig 8 true 2000 with
  | .ok (some ps) =>
    match ps.findIdx? (fun p => p.jump.isSome) with
    | some r =>
      let p := ps.getD r default
      p.lower == 7 && p.upper == 7 && p.count == 1800 &&
      decide (othersOf ps r < 2 * (Floats.exact.runLen p.count 2000).1) &&
      decide (othersOf ps r = 200) &&
      decide (bodyBitsOf ps usBig ≤ 2000 * (32 + 4)) &&
      decide (bodyBitsOf ps usBig ≤ (32 + 8) * 200 + 52 * 201) &&
      decide (0 < bodyBitsOf ps usBig)
    | none => false
  | _ => false)

end Examples

end C14l
end Qco
