/-
C15 — timestamps <-> SystemTime conversions. Property theorems only.

`TS` (Qco/DType/Timestamps.lean) models the Rust conversions step by step with the fixed-width
ranges explicit. For every SystemTime the platform can represent (`SysTime.Valid`, defined in
Qco/Lemmas/TimeArith.lean) and `pps ∈ {10^9, 10^6}` (`nspp pps = 10^9 / pps` nanoseconds per part):

* `secsAndNanos` never panics and yields the floor seconds / non-negative sub-second nanos pair;
* the 64-bit `TryFrom<SystemTime>` is the floor of the instant in parts, or the error value when
  that does not fit i64 — never a panic, never a wrapped value;
* the 64-bit `From<Timestamp> for SystemTime` never panics (seconds is never `i64::MIN`) and is exact;
* round trips: nanoseconds give the same SystemTime back, microseconds round DOWN to a whole
  microsecond (also before the epoch); parts -> SystemTime -> parts is the identity;
* the 96-bit conversions are total on valid SystemTimes / on the documented range and answer
  an error value (not a panic) outside it.
-/
import Qco.DType.Timestamps
import Qco.Lemmas.TimeArith
namespace Qco
namespace C15
open TS TimeArith

/-- 1. the `(seconds, subsec_nanos)` pair: floor seconds, complemented nanos before the epoch,
`wrapping_neg` at exactly 2^63 s; never a panic -/
theorem secsAndNanos_spec (st : SysTime) (h : st.Valid) :
    ∃ s n, secsAndNanos st = .ok (s, n) ∧ s * 10^9 + n = st.instant ∧ 0 ≤ n ∧ n < 10^9 ∧
      i64Min ≤ s ∧ s ≤ i64Max := by
  obtain ⟨b, secs, nanos⟩ := st
  simp only [i64Min_eq, i64Max_eq, Int.reducePow]
  cases b
  · rw [valid_after] at h
    refine ⟨(secs : Int), (nanos : Int), ?_, ?_⟩
    · simp [secsAndNanos, asI64_small secs h.2]
    · rw [instant_after]; omega
  · rw [valid_before] at h
    have hw : wrappingNeg (asI64 secs) = -(secs : Int) := wrappingNeg_asI64 secs (by omega)
    by_cases hz : nanos = 0
    · refine ⟨-(secs : Int), 0, ?_, ?_⟩
      · simp [secsAndNanos, hw, hz]
      · rw [instant_before]; omega
    · refine ⟨-(secs : Int) - 1, 1000000000 - (nanos : Int), ?_, ?_⟩
      · have hin : inI64 (-(secs : Int) - 1) = true := by rw [inI64_iff]; omega
        simp [secsAndNanos, hw, hz, subI64, hin, billion_eq]
      · rw [instant_before]; omega

/-- 2. 64-bit `TryFrom<SystemTime>`: floor of the instant in parts, or an error value -/
theorem ofSysTime64_spec (pps : Int) (hp : pps = 1000000000 ∨ pps = 1000000) (st : SysTime) (h : st.Valid) :
    ofSysTime64 pps st =
      if inI64 (st.instant / nspp pps) then .ok (st.instant / nspp pps) else .invalid := by
  obtain ⟨s, n, hsn, hi, -⟩ := secsAndNanos_spec st h
  simp only [Int.reducePow] at hi
  unfold ofSysTime64
  rw [hsn]
  simp only [fromSecsAndNanos64]
  rw [combine pps hp s n, hi]

/-- 3. 64-bit `From<Timestamp> for SystemTime`: exact, valid, never a panic -/
theorem toSysTime64_spec (pps : Int) (hp : pps = 1000000000 ∨ pps = 1000000) (parts : Int)
    (hlo : i64Min ≤ parts) (hhi : parts ≤ i64Max) :
    ∃ st', toSysTime64 pps parts = .ok st' ∧ st'.Valid ∧ st'.instant = parts * nspp pps := by
  rw [i64Min_eq] at hlo
  rw [i64Max_eq] at hhi
  obtain ⟨he, h0, h1⟩ := split_parts pps hp parts
  have hs : -9223372036854775808 < parts / pps ∧ parts / pps ≤ 9223372036854775807 := by
    rcases hp with rfl | rfl <;> omega
  obtain ⟨st', hst, hv, hinst⟩ :=
    sysTimeOf_spec true (parts / pps) ((parts % pps) * (billion / pps)) (by omega) hs.2 h0 h1
      (fun _ => by omega)
  refine ⟨st', ?_, hv, by rw [hinst, he]⟩
  simpa [toSysTime64, toSecsAndNanos] using hst

/-- 4a. out of range is the error value (not a panic, not a wrapped value) -/
theorem out_of_range_is_error (pps : Int) (hp : pps = 1000000000 ∨ pps = 1000000) (st : SysTime)
    (h : st.Valid) (hr : ¬ inI64 (st.instant / nspp pps)) : ofSysTime64 pps st = .invalid := by
  rw [ofSysTime64_spec pps hp st h, if_neg hr]

/-- 4b. nanoseconds: the same SystemTime comes back -/
theorem nanos_roundtrip (st : SysTime) (h : st.Valid) (hr : inI64 st.instant) :
    ∃ p, ofSysTime64 (10^9) st = .ok p ∧ toSysTime64 (10^9) p = .ok st := by
  simp only [Int.reducePow]
  have hof := ofSysTime64_spec 1000000000 (Or.inl rfl) st h
  rw [nspp_nanos, Int.ediv_one, if_pos hr] at hof
  refine ⟨st.instant, hof, ?_⟩
  rw [inI64_iff, ← i64Min_eq, ← i64Max_eq] at hr
  obtain ⟨st', hto, hv, hi⟩ := toSysTime64_spec 1000000000 (Or.inl rfl) st.instant hr.1 hr.2
  rw [nspp_nanos, Int.mul_one] at hi
  rw [hto, valid_ext st' st hv h hi]

/-- 4c. microseconds: rounded DOWN to a whole microsecond, also before the epoch -/
theorem micros_floor (st : SysTime) (h : st.Valid) (hr : inI64 (st.instant / 1000)) :
    ∃ p st', ofSysTime64 (10^6) st = .ok p ∧ toSysTime64 (10^6) p = .ok st' ∧ st'.Valid ∧
      st'.instant = (st.instant / 1000) * 1000 := by
  simp only [Int.reducePow]
  have hof := ofSysTime64_spec 1000000 (Or.inr rfl) st h
  rw [nspp_micros, if_pos hr] at hof
  rw [inI64_iff, ← i64Min_eq, ← i64Max_eq] at hr
  obtain ⟨st', hto, hv, hi⟩ := toSysTime64_spec 1000000 (Or.inr rfl) (st.instant / 1000) hr.1 hr.2
  rw [nspp_micros] at hi
  exact ⟨_, st', hof, hto, hv, hi⟩

/-- 4d. parts -> SystemTime -> parts is the identity on all of i64 -/
theorem parts_roundtrip64 (pps : Int) (hp : pps = 1000000000 ∨ pps = 1000000) (parts : Int)
    (hlo : i64Min ≤ parts) (hhi : parts ≤ i64Max) :
    ∃ st', toSysTime64 pps parts = .ok st' ∧ ofSysTime64 pps st' = .ok parts := by
  obtain ⟨st', hto, hv, hi⟩ := toSysTime64_spec pps hp parts hlo hhi
  refine ⟨st', hto, ?_⟩
  have hq : st'.instant / nspp pps = parts := by
    rw [hi]; rcases hp with rfl | rfl
    · rw [nspp_nanos]; omega
    · rw [nspp_micros]; omega
  have hin : inI64 parts = true := by
    rw [inI64_iff, ← i64Min_eq, ← i64Max_eq]; exact ⟨hlo, hhi⟩
  rw [ofSysTime64_spec pps hp st' hv, hq, if_pos hin]

/-- 5a. 96-bit `From<SystemTime>`: every representable SystemTime converts (floor) into the documented range -/
theorem ofSysTime96_spec (pps : Int) (hp : pps = 1000000000 ∨ pps = 1000000) (st : SysTime) (h : st.Valid) :
    ofSysTime96 pps st = .ok (st.instant / nspp pps) ∧ valid96 pps (st.instant / nspp pps) = true := by
  obtain ⟨s, n, hsn, hi, -⟩ := secsAndNanos_spec st h
  simp only [Int.reducePow] at hi
  have hr := instant_range st h
  constructor
  · unfold ofSysTime96
    rw [hsn]
    simp only
    rw [combine pps hp s n, hi]
  · rw [valid96_iff]
    rcases hp with rfl | rfl
    · rw [nspp_nanos]; omega
    · rw [nspp_micros]; omega

/-- 5b. 96-bit `TryFrom<Timestamp96> for SystemTime` on the documented range: exact and valid -/
theorem toSysTime96_spec (pps : Int) (hp : pps = 1000000000 ∨ pps = 1000000) (parts : Int)
    (hv : valid96 pps parts = true) :
    ∃ st', toSysTime96 pps parts = .ok st' ∧ st'.Valid ∧ st'.instant = parts * nspp pps := by
  obtain ⟨he, h0, h1⟩ := split_parts pps hp parts
  have hs : -9223372036854775808 ≤ parts / pps ∧ parts / pps ≤ 9223372036854775807 := by
    rw [valid96_iff] at hv
    rcases hp with rfl | rfl <;> omega
  obtain ⟨st', hst, hval, hinst⟩ :=
    sysTimeOf_spec false (parts / pps) ((parts % pps) * (billion / pps)) hs.1 hs.2 h0 h1
      (fun hc => by cases hc)
  refine ⟨st', ?_, hval, by rw [hinst, he]⟩
  simpa [toSysTime96, toSecsAndNanos, hv] using hst

/-- 5c. 96-bit round trip: floor to a whole part -/
theorem roundtrip96 (pps : Int) (hp : pps = 1000000000 ∨ pps = 1000000) (st : SysTime) (h : st.Valid) :
    ∃ p st', ofSysTime96 pps st = .ok p ∧ toSysTime96 pps p = .ok st' ∧ st'.Valid ∧
      st'.instant = (st.instant / nspp pps) * nspp pps := by
  obtain ⟨hof, hv⟩ := ofSysTime96_spec pps hp st h
  obtain ⟨st', hto, hval, hi⟩ := toSysTime96_spec pps hp _ hv
  exact ⟨_, st', hof, hto, hval, hi⟩

/-- 5d. 96-bit nanoseconds: the same SystemTime comes back, for every representable SystemTime -/
theorem roundtrip96_nanos (st : SysTime) (h : st.Valid) :
    ∃ p, ofSysTime96 (10^9) st = .ok p ∧ toSysTime96 (10^9) p = .ok st := by
  simp only [Int.reducePow]
  obtain ⟨p, st', hof, hto, hval, hi⟩ := roundtrip96 1000000000 (Or.inl rfl) st h
  rw [nspp_nanos, Int.ediv_one, Int.mul_one] at hi
  exact ⟨p, hof, by rw [hto, valid_ext st' st hval h hi]⟩

/-- 5e. outside the documented range: an error value, not a panic, not a wrapped result -/
theorem out_of_range96 (pps : Int) (parts : Int) (hv : valid96 pps parts = false) :
    toSysTime96 pps parts = .corrupt ∧ new96 pps parts = .invalid := by
  simp [toSysTime96, new96, hv]

/-! 6. concrete points -/

-- 1.5 s before the epoch, microseconds
example : ofSysTime64 1000000 ⟨true, 1, 500000000⟩ = .ok (-1500000) := by decide
example : toSysTime64 1000000 (-1500000) = .ok ⟨true, 1, 500000000⟩ := by decide
-- 1.5 s + 1 ns before the epoch rounds DOWN (away from the epoch) to -1.500001 s
example : ofSysTime64 1000000 ⟨true, 1, 500000001⟩ = .ok (-1500001) := by decide
example : toSysTime64 1000000 (-1500001) = .ok ⟨true, 1, 500001000⟩ := by decide
-- exactly 2^63 s before the epoch, 96-bit nanoseconds (the `wrapping_neg` point)
example : (SysTime.mk true (2^63) 0).Valid := by decide
example : ofSysTime96 1000000000 ⟨true, 2^63, 0⟩ = .ok (min96 1000000000) := by decide
example : toSysTime96 1000000000 (min96 1000000000) = .ok ⟨true, 2^63, 0⟩ := by decide
example : toSysTime96 1000000000 (min96 1000000000 - 1) = .corrupt := by decide
example : new96 1000000000 (max96 1000000000 + 1) = .invalid := by decide
-- the 64-bit nanosecond type cannot hold it: error value
example : ofSysTime64 1000000000 ⟨true, 2^63, 0⟩ = .invalid := by decide
-- i64::MIN nanoseconds
example : ofSysTime64 1000000000 ⟨true, 9223372036, 854775808⟩ = .ok i64Min := by decide
example : toSysTime64 1000000000 i64Min = .ok ⟨true, 9223372036, 854775808⟩ := by decide
-- one nanosecond earlier: error value
example : ofSysTime64 1000000000 ⟨true, 9223372036, 854775809⟩ = .invalid := by decide
-- i64::MIN / i64::MAX microseconds
example : toSysTime64 1000000 i64Min = .ok ⟨true, 9223372036854, 775808000⟩ := by decide
example : ofSysTime64 1000000 ⟨true, 9223372036854, 775808000⟩ = .ok i64Min := by decide
example : toSysTime64 1000000 i64Max = .ok ⟨false, 9223372036854, 775807000⟩ := by decide

end C15
end Qco
