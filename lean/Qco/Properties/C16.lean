/-
C16 — files with flag bits from a newer format are refused, not misread. Property theorems only.

The flag section is any non-empty sequence of bytes, each 7 flag bits followed by a continuation
bit (set on all but the last byte). `groups` ranges over *all* such sections: any number of
continuation bytes, any bit pattern.
-/
import Qco.Spec.FlagsLemmas
namespace Qco
namespace C16
open Parser

/-- a flag section: the 7-bit groups with their continuation bits -/
def encGroups : List Bits → Bits
  | [] => []
  | [g] => g ++ [false]
  | g :: gs => g ++ true :: encGroups gs

private theorem decFlagBits_groups (gs : List Bits) (hne : gs ≠ []) (h7 : ∀ g ∈ gs, g.length = 7)
    (fuel : Nat) (hf : gs.length ≤ fuel) (rest : Bits) :
    decFlagBits fuel (encGroups gs ++ rest) = .ok gs.flatten rest := by
  induction gs generalizing fuel with
  | nil => exact absurd rfl hne
  | cons g gs ih =>
    have hg : g.length = 7 := h7 g List.mem_cons_self
    cases fuel with
    | zero => simp at hf
    | succ fuel =>
      cases gs with
      | nil => simp [encGroups, decFlagBits_last fuel g hg rest]
      | cons g2 gs2 =>
        have h7' : ∀ x ∈ g2 :: gs2, x.length = 7 := fun x hx => h7 x (List.mem_cons_of_mem _ hx)
        have := ih (by simp) h7' fuel (by simp at hf ⊢; omega)
        simp only [encGroups, List.append_assoc, List.cons_append] at this ⊢
        rw [decFlagBits_cont fuel g hg, this]
        simp

private theorem encGroups_length (gs : List Bits) (h7 : ∀ g ∈ gs, g.length = 7) :
    (encGroups gs).length = 8 * gs.length := by
  induction gs with
  | nil => rfl
  | cons g gs ih =>
    have hg : g.length = 7 := h7 g List.mem_cons_self
    have h7' : ∀ x ∈ gs, x.length = 7 := fun x hx => h7 x (List.mem_cons_of_mem _ hx)
    cases gs with
    | nil => simp [encGroups, hg]
    | cons g2 gs2 =>
      have := ih h7'
      simp only [encGroups, List.length_append, List.length_cons, hg] at this ⊢
      omega

/-- what the reader makes of *any* flag section: exactly `flagsFields` of the concatenated groups -/
theorem decFlags_groups (gs : List Bits) (hne : gs ≠ []) (h7 : ∀ g ∈ gs, g.length = 7) (rest : Bits) :
    decFlags (encGroups gs ++ rest) =
      match flagsFields gs.flatten with
      | none => .compat
      | some f => .ok f rest := by
  unfold decFlags
  have hl : gs.length ≤ (encGroups gs ++ rest).length / 8 + 1 := by
    rw [List.length_append, encGroups_length gs h7]; omega
  simp only [Parser.bind, decFlagBits_groups gs hne h7 _ hl rest, flagsOfBits]
  cases flagsFields gs.flatten <;> rfl

/-- **unknown bits are refused**: a set bit at any position this version does not define (index
`≥ 6`: bit 6 of the first byte or any bit of any continuation byte) makes the header a
compatibility error, whatever else the section and the rest of the file contain -/
theorem unknown_bit_compat (gs : List Bits) (hne : gs ≠ []) (h7 : ∀ g ∈ gs, g.length = 7) (rest : Bits)
    (i : Nat) (hi : 6 ≤ i) (hset : gs.flatten.getD i false = true) :
    decFlags (encGroups gs ++ rest) = .compat := by
  rw [decFlags_groups gs hne h7 rest]
  have : flagsFields gs.flatten = none := by
    unfold flagsFields
    have hany : (gs.flatten.drop 6).any id = true := by
      rw [List.any_eq_true]
      refine ⟨true, ?_, rfl⟩
      have hlt : i < gs.flatten.length := by
        rcases Nat.lt_or_ge i gs.flatten.length with h | h
        · exact h
        · simp [List.getD_eq_getElem?_getD, List.getElem?_eq_none h] at hset
      have : (gs.flatten.drop 6)[i - 6]? = some true := by
        rw [List.getElem?_drop]
        have : 6 + (i - 6) = i := by omega
        rw [this]
        simpa [List.getD_eq_getElem?_getD, List.getElem?_eq_getElem hlt] using hset
      exact List.mem_of_getElem? this
    simp [hany]
  rw [this]

/-- … and never silently ignored: whenever the header is accepted, every bit at index `≥ 6` is clear -/
theorem accepted_means_clear (gs : List Bits) (hne : gs ≠ []) (h7 : ∀ g ∈ gs, g.length = 7) (rest : Bits)
    (f : Flags) (r : Bits) (hok : decFlags (encGroups gs ++ rest) = .ok f r) :
    ∀ i, 6 ≤ i → gs.flatten.getD i false = false := by
  intro i hi
  cases hb : gs.flatten.getD i false with
  | false => rfl
  | true =>
    rw [unknown_bit_compat gs hne h7 rest i hi hb] at hok
    cases hok

/-- with the unknown bits clear the section decodes, and to flags that depend only on the first
six bits (so clearing them gives the same file meaning as the plain one-byte section) -/
theorem cleared_bits_same (gs : List Bits) (hne : gs ≠ []) (h7 : ∀ g ∈ gs, g.length = 7) (rest : Bits)
    (hclear : (gs.flatten.drop 6).any id = false) :
    ∃ f, decFlags (encGroups gs ++ rest) = .ok f rest ∧
      flagsFields (gs.flatten.take 6) = some f := by
  rw [decFlags_groups gs hne h7 rest]
  unfold flagsFields
  simp only [hclear]
  refine ⟨_, rfl, ?_⟩
  have h6 : ((gs.flatten.take 6).drop 6).any id = false := by
    rw [List.drop_take]; simp
  simp only [h6]
  have hget : ∀ j, j < 6 → (gs.flatten.take 6).getD j false = gs.flatten.getD j false := by
    intro j hj
    simp [List.getD_eq_getElem?_getD, List.getElem?_take, hj]
  simp [hget]

/-- the writer's own section is one such section with all unknown bits clear -/
theorem writer_flags_decode (f : Flags) (h : f.order ≤ 7) (rest : Bits) :
    decFlags (encFlags f ++ rest) = .ok f rest := decFlags_encFlags f h rest

/-- non-vacuity: a two-byte section with a bit set in the continuation byte is refused;
the same section with that bit clear is read as delta order 1 with GCDs -/
example : decFlags (encGroups [[true, false, false, true, true, true, false], [false, false, true, false, false, false, false]] ++ [true, true])
    = .compat := by decide
example : decFlags (encGroups [[true, false, false, true, true, true, false], [false, false, false, false, false, false, false]] ++ [true, true])
    = .ok { use5 := true, order := 1, minCount := true, gcds := true } [true, true] := by decide

end C16
end Qco
