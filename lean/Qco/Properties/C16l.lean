/-
C16l — the LITERAL decompressor refuses files with flag bits from a newer format.

C16 restated for `Qco.DecompLit` (`Qco/Op/DecompLit.lean`), the statement-level model of `Decompressor<T>`.  The
flag section of a file is any non-empty sequence of bytes, each 7 flag bits followed by a continuation bit (set on all
but the last byte); `gs` ranges over all such sections as lists of 7-bit groups (any number of continuation bytes,
any bit pattern) and `flagBytes gs` are its bytes.  If any bit this version does not define is set (index `≥ 6`: bit
6 of the first byte, or any bit of any continuation byte), then on the bytes

  magic header, data type byte, flag section, anything at all

the literal `header()`, `next()` and `simple_decompress()` answer `Err(Compatibility)` — whatever else the section
and the rest of the file contain — and leave the decompressor as it was.

The abstract decompressor (C16's `decFlags`, `Op.header`) and the refinement layer DL (C08d) appear only in the proofs.
Hypotheses that remain: `d ∈ Frozen.dtypes`, the trailing bytes are bytes, fewer than `2^56` bytes written; for
`next`/`simple_decompress` also `∀ x, gb x ≤ d.uBits` (inherited from the refinement of these two functions, not used
before the header fails).  Property theorems only.
-/
import Qco.Lemmas.LitCor.Compat
import Qco.Lemmas.LitCor.Atomic
import Qco.Properties.C08d
namespace Qco
namespace C16l
open Qco.WB Qco.Op Qco.MetaIO Qco.DecompLit

variable {d : DType}

/-- the flag section as bytes is the flag section (nothing is lost in `flagBytes`): one byte per group -/
theorem flagBytes_are_the_section (gs : List Bits) (h7 : ∀ g ∈ gs, g.length = 7) :
    bytesBits (flagBytes gs) = C16.encGroups gs ∧ (flagBytes gs).length = gs.length :=
  ⟨flagBytes_bits gs h7, flagBytes_length gs h7⟩

/-- **`header()` refuses unknown flag bits** with `Compatibility`, and changes nothing -/
theorem literal_header_unknown_bit (hd : d ∈ Frozen.dtypes) (gs : List Bits) (hne : gs ≠ [])
    (h7 : ∀ g ∈ gs, g.length = 7) (i : Nat) (hi : 6 ≤ i) (hset : gs.flatten.getD i false = true)
    (tail : List Nat) (ht : ∀ b ∈ tail, b < 256) (hlen : (headerBytes d gs tail).length < 2 ^ 56) :
    DecompLit.header d (DecompLit.write LitSt.init (headerBytes d gs tail))
      = (.err "Compatibility", DecompLit.write LitSt.init (headerBytes d gs tail)) := by
  have hb := headerBytes_lt hd gs tail ht
  have r := (header_refines (sim_written d _ hb) (size_written d _ hb hlen)).1
  rw [op_header_compat d _ (decHeader_unknown_bit hd gs hne h7 i hi hset tail)] at r
  have e := r.err_compat
  exact Prod.ext e (DecompLit.header_err_unchanged d _ _ e)

/-- **`Iterator::next` refuses unknown flag bits** with `Compatibility` (it does not yield `None`, it does not
yield flags), and changes nothing -/
theorem literal_next_unknown_bit (hd : d ∈ Frozen.dtypes) {gb : Nat → Nat} (hgb : ∀ x, gb x ≤ d.uBits)
    (gs : List Bits) (hne : gs ≠ []) (h7 : ∀ g ∈ gs, g.length = 7) (i : Nat) (hi : 6 ≤ i)
    (hset : gs.flatten.getD i false = true) (tail : List Nat) (ht : ∀ b ∈ tail, b < 256)
    (hlen : (headerBytes d gs tail).length < 2 ^ 56) (limit : Nat) :
    DecompLit.next gb d limit (DecompLit.write LitSt.init (headerBytes d gs tail))
      = (.err "Compatibility", DecompLit.write LitSt.init (headerBytes d gs tail)) := by
  have hb := headerBytes_lt hd gs tail ht
  have r := (next_refines (dok_of_mem hd) hgb limit (sim_written d _ hb) (size_written d _ hb hlen)).1
  rw [op_next_compat matchStride gb d limit _ (decHeader_unknown_bit hd gs hne h7 i hi hset tail)] at r
  have e := r.err_compat
  exact Prod.ext e (DecompLit.next_err_unchanged gb d limit _ _ e)

/-- **`simple_decompress` refuses unknown flag bits** with `Compatibility`, and changes nothing -/
theorem literal_simple_unknown_bit (hd : d ∈ Frozen.dtypes) {gb : Nat → Nat} (hgb : ∀ x, gb x ≤ d.uBits)
    (gs : List Bits) (hne : gs ≠ []) (h7 : ∀ g ∈ gs, g.length = 7) (i : Nat) (hi : 6 ≤ i)
    (hset : gs.flatten.getD i false = true) (tail : List Nat) (ht : ∀ b ∈ tail, b < 256)
    (hlen : (headerBytes d gs tail).length < 2 ^ 56) :
    DecompLit.simpleDecompress gb d (DecompLit.write LitSt.init (headerBytes d gs tail))
      = (.err "Compatibility", DecompLit.write LitSt.init (headerBytes d gs tail)) := by
  have hb := headerBytes_lt hd gs tail ht
  have r := (simpleDecompress_refines (dok_of_mem hd) hgb (sim_written d _ hb) (size_written d _ hb hlen)).1
  rw [op_simple_compat matchStride gb d _ (decHeader_unknown_bit hd gs hne h7 i hi hset tail)] at r
  have e := r.err_compat
  exact Prod.ext e (DecompLit.simpleDecompress_err_unchanged gb d _ _ e)

/-! ### non-vacuity: `C08d.deltaFile` with a continuation byte -/

open C08d (i32 gbx i32_mem gbx_le deltaFile)

/-- the flag byte of `deltaFile` (`156` = `1001110 0`) with the continuation bit set (`157`), followed by a second
flag byte with one bit set (`32` = `0010000 0`): flag bit 9, unknown to this version -/
def exSection : List Bits := [[true, false, false, true, true, true, false], [false, false, true, false, false, false, false]]

theorem exSection_bytes : flagBytes exSection = [157, 32] := by decide

/-- `deltaFile` with that flag section in place of its own: magic header, `3` (`i32`), `157, 32`, and the rest of
`deltaFile` (chunk, termination byte) -/
theorem exBytes : headerBytes i32 exSection (deltaFile.drop 6) = [113, 99, 111, 33, 3, 157, 32] ++ deltaFile.drop 6 := by
  decide

example : DecompLit.header i32 (DecompLit.write LitSt.init ([113, 99, 111, 33, 3, 157, 32] ++ deltaFile.drop 6))
    = (.err "Compatibility", DecompLit.write LitSt.init ([113, 99, 111, 33, 3, 157, 32] ++ deltaFile.drop 6)) := by
  have := literal_header_unknown_bit i32_mem exSection (by decide) (by decide) 9 (by decide) (by decide)
    (deltaFile.drop 6) (by decide) (by decide)
  rw [exBytes] at this
  exact this

example : (DecompLit.simpleDecompress gbx i32
      (DecompLit.write LitSt.init ([113, 99, 111, 33, 3, 157, 32] ++ deltaFile.drop 6))).1 = .err "Compatibility" := by
  have := literal_simple_unknown_bit i32_mem gbx_le exSection (by decide) (by decide) 9 (by decide) (by decide)
    (deltaFile.drop 6) (by decide) (by decide)
  rw [exBytes] at this
  rw [this]

-- the literal model computes the same (evaluation); with the unknown bit cleared the file decodes
#guard (DecompLit.next gbx i32 4 (DecompLit.write LitSt.init ([113, 99, 111, 33, 3, 157, 32] ++ deltaFile.drop 6))).1
  == .err "Compatibility"
#guard (DecompLit.simpleDecompress gbx i32
    (DecompLit.write LitSt.init ([113, 99, 111, 33, 3, 157, 32] ++ deltaFile.drop 6))).1 == .err "Compatibility"
#guard (DecompLit.simpleDecompress gbx i32
    (DecompLit.write LitSt.init ([113, 99, 111, 33, 3, 157, 0] ++ deltaFile.drop 6))).1 == .ok [5, 4, 4, 8, 9, 13]
-- bit 6 of the first byte
#guard (DecompLit.header i32 (DecompLit.write LitSt.init [113, 99, 111, 33, 3, 2, 46])).1 == .err "Compatibility"

end C16l
end Qco
