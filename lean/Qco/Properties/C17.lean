/-
C17 — CLI round trip (partial). Property theorems only.

Proved: the CLI's own glue loses, duplicates or reorders nothing — re-chunking of reader batches,
`--limit` slicing. Composed with C01 (library round trip) this gives compress→decompress identity
at the level of number sequences. **Not modelled and not proved** (exercised only by the
differential `cli` stream): Arrow CSV/Parquet parsing and schema inference, number formatting and
timestamp parsing/printing, `structopt` option handling.
-/
import Qco.Glue.Cli
namespace Qco
namespace C17
open Glue

private theorem rechunkGo_flatten (cs : Nat) (batches : List (List Nat)) (buf : List Nat) :
    (rechunkGo cs batches buf).flatten = buf ++ batches.flatten := by
  induction batches generalizing buf with
  | nil =>
    unfold rechunkGo
    cases buf <;> simp
  | cons b bs ih =>
    unfold rechunkGo
    simp only
    split
    · simp only [List.flatten_cons, ih]
      rw [← List.append_assoc, List.take_append_drop]
      simp
    · rw [ih]; simp

/-- re-chunking keeps exactly the numbers of the reader batches, in order -/
theorem rechunk_flatten (cs : Nat) (batches : List (List Nat)) :
    (rechunk cs batches).flatten = batches.flatten := by
  simp [rechunk, rechunkGo_flatten]

private theorem rechunkGo_nonempty (cs : Nat) (hcs : 1 ≤ cs) (batches : List (List Nat)) (buf : List Nat) :
    ∀ c ∈ rechunkGo cs batches buf, c ≠ [] := by
  induction batches generalizing buf with
  | nil =>
    unfold rechunkGo
    cases buf <;> simp
  | cons b bs ih =>
    unfold rechunkGo
    simp only
    split
    · rename_i hge
      intro c hc
      simp only [List.mem_cons] at hc
      rcases hc with rfl | hc
      · intro h
        have : ((buf ++ b).take cs).length = 0 := by rw [h]; rfl
        rw [List.length_take] at this
        omega
      · exact ih _ c hc
    · exact ih _

/-- no empty chunk is ever handed to the compressor (which would reject it) -/
theorem rechunk_nonempty (cs : Nat) (hcs : 1 ≤ cs) (batches : List (List Nat)) :
    ∀ c ∈ rechunk cs batches, c ≠ [] := rechunkGo_nonempty cs hcs batches []

private theorem rechunkGo_sizes (cs : Nat) (batches : List (List Nat)) (buf : List Nat)
    (hb : ∀ b ∈ batches, b.length ≤ cs) (hbuf : buf.length < cs) :
    ∀ c ∈ rechunkGo cs batches buf, c.length ≤ cs := by
  induction batches generalizing buf with
  | nil =>
    unfold rechunkGo
    cases buf with
    | nil => simp
    | cons x xs => intro c hc; simp at hc; subst hc; omega
  | cons b bs ih =>
    have hb1 : b.length ≤ cs := hb b List.mem_cons_self
    have hbs : ∀ b' ∈ bs, b'.length ≤ cs := fun b' h => hb b' (List.mem_cons_of_mem _ h)
    unfold rechunkGo
    simp only
    split
    · intro c hc
      simp only [List.mem_cons] at hc
      rcases hc with rfl | hc
      · rw [List.length_take]; omega
      · refine ih _ hbs ?_ c hc
        rw [List.length_drop, List.length_append]; omega
    · rename_i hlt
      exact ih _ hbs (by omega)

/-- with reader batches of at most `cs` numbers (how the Arrow readers are constructed) every
chunk has at most `cs` numbers -/
theorem rechunk_sizes (cs : Nat) (hcs : 1 ≤ cs) (batches : List (List Nat)) (hb : ∀ b ∈ batches, b.length ≤ cs) :
    ∀ c ∈ rechunk cs batches, c.length ≤ cs :=
  rechunkGo_sizes cs batches [] hb (by simp; omega)

/-- `decompress --limit k` prints exactly the first `k` numbers -/
theorem limit_take (chunks : List (List Nat)) (k : Nat) : limitOut chunks k = chunks.flatten.take k := by
  induction chunks generalizing k with
  | nil => simp [limitOut]
  | cons c cs ih =>
    unfold limitOut
    by_cases hk : k = 0
    · simp [hk]
    · simp only [hk, if_false, List.flatten_cons]
      split
      · rename_i hle
        rw [ih, List.take_append]
        have : List.take k c = c := List.take_of_length_le hle
        rw [this]
      · rename_i hgt
        rw [List.take_append_of_le_length (by omega)]

/-- without a limit everything is printed -/
theorem limit_all (chunks : List (List Nat)) (k : Nat) (h : chunks.flatten.length ≤ k) :
    limitOut chunks k = chunks.flatten := by
  rw [limit_take, List.take_of_length_le h]

/-- `inspect`: the four byte sizes add up to the file size -/
theorem inspect_arith (s : Sizes) : s.total = s.header + s.metas.sum + s.bodies.sum + s.footer := rfl

example : rechunk 2 [[1, 2], [3], [4, 5], [6]] = [[1, 2], [3, 4], [5, 6]] := by decide
example : limitOut [[1, 2], [3, 4], [5]] 3 = [1, 2, 3] := by decide

end C17
end Qco
