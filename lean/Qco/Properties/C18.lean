/-
C18 — features: exact GCDs, vanishing deltas, run-length. Property theorems only.

(1) `gcdExactB` (evaluated by the driver on every observed chunk) means: the recorded divisor of
    every multi-valued range is the greatest common divisor of its members' distances from the
    lower bound, or 1 where the frozen format cannot represent it.
(2) a prefix with a jumpstart takes maximal runs; a run of the dominant single value costs its code
    plus at most 48 varint bits, whatever its length.
(3) when the `k`-th order differences all vanish, every coded number is the same, a single-valued
    range needs zero offset bits, and a one-leaf table codes any number of them in zero bits.
-/
import Qco.Lemmas.Features
namespace Qco
namespace C18

/-! ## A. GCD exactness -/

/-- A1: the exact divisor divides every member's distance from the lower bound -/
theorem exactGcd_dvd (p : Prefix) (us : List Nat) (u : Nat) (hu : u ∈ us)
    (hc : p.contains u = true) : exactGcd p us ∣ (u - p.lower) := by
  unfold exactGcd
  exact foldl_gcd_dvd_mem (fun u => u - p.lower) _ 0 u (List.mem_filter.mpr ⟨hu, hc⟩)

/-- A2: and it is the greatest such divisor -/
theorem exactGcd_greatest (p : Prefix) (us : List Nat) (g : Nat)
    (h : ∀ u ∈ us, p.contains u = true → g ∣ (u - p.lower)) : g ∣ exactGcd p us := by
  unfold exactGcd
  refine dvd_foldl_gcd (fun u => u - p.lower) _ 0 g (Nat.dvd_zero g) ?_
  intro u hu
  obtain ⟨h1, h2⟩ := List.mem_filter.mp hu
  exact h u h1 h2

/-- `exactGcd = 0` exactly when every member equals the lower bound (single-valued or empty) -/
theorem exactGcd_eq_zero_iff (p : Prefix) (us : List Nat) :
    exactGcd p us = 0 ↔ ∀ u ∈ us, p.contains u = true → u = p.lower := by
  constructor
  · intro h0 u hu hc
    have hd := exactGcd_dvd p us u hu hc
    rw [h0] at hd
    have hz : u - p.lower = 0 := Nat.eq_zero_of_zero_dvd hd
    simp only [Prefix.contains, Bool.and_eq_true, decide_eq_true_eq] at hc
    omega
  · intro h
    have : 0 ∣ exactGcd p us := exactGcd_greatest p us 0 (by
      intro u hu hc
      rw [h u hu hc, Nat.sub_self]
      exact Nat.dvd_refl 0)
    exact Nat.eq_zero_of_zero_dvd this

/-- A3: what the evaluated predicate means -/
theorem gcdExact_fact (gb : Nat → Nat) (fl : Flags) (m : ChunkMeta) (us : List Nat)
    (h : gcdExactB gb fl m us = true) (hg : fl.gcds = true) :
    ∀ p ∈ m.prefixes, exactGcd p us ≠ 0 →
      p.gcd = exactGcd p us ∨
      (p.gcd = 1 ∧ m.commonGcd = none ∧ ¬ (exactGcd p us - 1 < 2 ^ gb (p.upper - p.lower))) := by
  intro p hp hne
  simp only [gcdExactB, hg, Bool.not_true, Bool.false_or, List.all_eq_true] at h
  have := h p hp
  simp only [gcdFits, Bool.or_eq_true, Bool.and_eq_true, beq_iff_eq, Option.isNone_iff_eq_none,
    Bool.not_eq_true', decide_eq_false_iff_not] at this
  rcases this with (h0 | h1) | h2
  · exact absurd h0 hne
  · exact Or.inl h1
  · exact Or.inr ⟨h2.1.1, h2.1.2, h2.2⟩

/-- A4: with the exact divisor recorded, `lower + off·gcd` recovers every member exactly -/
theorem offsets_with_exact_gcd (p : Prefix) (us : List Nat) (g : Nat) (hg : g = exactGcd p us)
    (u : Nat) (hu : u ∈ us) (hc : p.contains u = true) :
    p.lower + ((u - p.lower) / g) * g = u := by
  have hd : g ∣ (u - p.lower) := hg ▸ exactGcd_dvd p us u hu hc
  rw [Nat.div_mul_cancel hd]
  simp only [Prefix.contains, Bool.and_eq_true, decide_eq_true_eq] at hc
  omega

/-- A4 for the recorded prefix: if `p.gcd` is the exact divisor, the body's `PInfo.val ∘ off` is the identity on members -/
theorem val_off_exact (p : Prefix) (us : List Nat) (hg : p.gcd = exactGcd p us)
    (u : Nat) (hu : u ∈ us) (hc : p.contains u = true) :
    p.info.val (p.off u) = u :=
  offsets_with_exact_gcd p us p.gcd hg u hu hc

/-! ## B. vanishing deltas -/

/-- B1 -/
theorem sDiffN_length (ds : DType) (k : Nat) (xs : List Nat) :
    (sDiffN ds k xs).length = xs.length - k := by
  induction k generalizing xs with
  | zero => rfl
  | succ k ih => rw [sDiffN, ih, sDiff1_length]; omega

/-- B2: if the `order`-th differences all vanish, all coded numbers are the same number -/
theorem vanishing_all_equal (d : DType) (fl : Flags) (vals : List Nat) (hk : fl.order ≥ 1)
    (hz : ∀ x ∈ sDiffN d.signed fl.order (vals.map d.toS), x = 0) :
    ∀ u ∈ codedUs d fl vals, u = d.signed.toU 0 := by
  intro u hu
  have hne : fl.order ≠ 0 := by omega
  simp only [codedUs, hne, if_false, List.mem_map] at hu
  obtain ⟨x, hx, rfl⟩ := hu
  rw [hz x hx]

/-- the common number is the middle of the unsigned domain (`2^(W-1)`) except for bool (`0`) -/
theorem signed_toU_zero (d : DType) (hW : 1 ≤ d.uBits) :
    d.signed.toU 0 = if d.kind = .bool then 0 else d.H := by
  have hlt : 2 ^ (d.uBits - 1) < 2 ^ d.uBits := Nat.pow_lt_pow_right (by omega) (by omega)
  cases hkd : d.kind <;>
    simp [DType.signed, DType.toU, hkd, DType.H, DType.M, Nat.mod_eq_of_lt hlt]

/-- B3a: a single-valued range has `r = 0`, `k = 0` -/
theorem single_value_info (p : Prefix) (h : p.lower = p.upper) : p.info.r = 0 ∧ p.info.k = 0 := by
  have hl : Nat.log2 1 = 0 := by decide
  simp [Prefix.info, h, hl]

/-- B3b: and its only offset takes no bits -/
theorem single_value_offset_bits : encOffset 0 0 0 = [] := encOffset_zero

/-- B3c: a one-leaf table without jumpstart groups `n` copies of its value into `n` single blocks -/
theorem single_value_blocks (p : Prefix) (h : p.lower = p.upper) (hj : p.jump = none)
    (us : List Nat) (hus : ∀ u ∈ us, u = p.lower) (fuel : Nat) (hf : us.length ≤ fuel) :
    greedyBlocks [p] fuel us = some (us.map fun _ => Block.one 0 0) := by
  induction us generalizing fuel with
  | nil => cases fuel <;> rfl
  | cons u rest ih =>
    cases fuel with
    | zero => simp at hf
    | succ fuel =>
      have hu : u = p.lower := hus u List.mem_cons_self
      have hc : p.contains u = true := by simp [Prefix.contains, hu, h]
      have hfind : findPrefix [p] u = some 0 := by simp [findPrefix, List.findIdx?_cons, hc]
      have hoff : p.off u = 0 := by simp [Prefix.off, hu]
      have hrest := ih (fun v hv => hus v (List.mem_cons_of_mem _ hv)) fuel (by simpa using hf)
      simp [greedyBlocks, hfind, hj, hoff, hrest]

/-- B3d: with the empty code, those blocks take zero bits — the body is empty for any `n` -/
theorem single_value_zero_bits (p : Prefix) (h : p.lower = p.upper) (hcode : p.code = [])
    (n : Nat) : bodyBits [p] (List.replicate n (Block.one 0 0)) = 0 := by
  obtain ⟨hr, hk⟩ := single_value_info p h
  have hb : encBlock (tableOf [p]) (Block.one 0 0) = [] := by
    simp [encBlock, tableOf, Table.code, Table.info, hcode, hr, hk, encOffset_zero]
  induction n with
  | zero => rfl
  | succ n ih =>
    simp only [bodyBits, List.replicate_succ, encBlocks, hb, List.nil_append] at ih ⊢
    exact ih

/-- B3: the whole statement — `n` equal numbers, one leaf with the empty code: zero body bits -/
theorem single_value_body_empty (p : Prefix) (h : p.lower = p.upper) (hj : p.jump = none)
    (hcode : p.code = []) (us : List Nat) (hus : ∀ u ∈ us, u = p.lower) :
    ∃ bs, greedyBlocks [p] us.length us = some bs ∧ bodyBits [p] bs = 0 ∧
      blocksNums (tableOf [p]) bs = us := by
  refine ⟨us.map fun _ => Block.one 0 0, single_value_blocks p h hj us hus _ (Nat.le_refl _), ?_, ?_⟩
  · have : (us.map fun _ => Block.one 0 0) = List.replicate us.length (Block.one 0 0) := by
      simp [List.map_const']
    rw [this]; exact single_value_zero_bits p h hcode _
  · induction us with
    | nil => rfl
    | cons u rest ih =>
      have hu : u = p.lower := hus u List.mem_cons_self
      simp only [List.map_cons, blocksNums, blockNums]
      rw [ih (fun v hv => hus v (List.mem_cons_of_mem _ hv))]
      simp [tableOf, Table.info, Prefix.info, PInfo.val, hu]

/-- B4 (general): the streaming reconstruction (`reconstruct_nums`) inverts delta encoding of any
order `k ≥ 1` on every sequence of valid patterns of the signed companion -/
theorem reconstruct_deltas (ds : DType) (k : Nat) (hk : 1 ≤ k) (xs : List Nat)
    (h : ∀ x ∈ xs, C12.valid ds x) :
    reconstructNums ds xs.length (sMoments ds k xs) (sDiffN ds k xs) = xs := by
  obtain ⟨k', rfl⟩ : ∃ k', k = k' + 1 := ⟨k - 1, by omega⟩
  exact reconstructNums_sDiffN ds k' xs h

/-- B4: when the `k`-th differences all vanish, the moments alone regenerate the sequence -/
theorem reconstruct_zero_deltas (ds : DType) (k : Nat) (hk : 1 ≤ k) (xs : List Nat)
    (h : ∀ x ∈ xs, C12.valid ds x) (hz : ∀ x ∈ sDiffN ds k xs, x = 0) :
    reconstructNums ds xs.length (sMoments ds k xs) [] = xs := by
  rw [← reconstructNums_zero_deltas ds _ _ (sDiffN ds k xs) (sMoments_valid ds k xs h) hz]
  exact reconstruct_deltas ds k hk xs h

theorem signed_uBits (d : DType) : d.signed.uBits = d.uBits := by
  unfold DType.signed; cases d.kind <;> rfl

theorem toS_valid (d : DType) (x : Nat) (hx : C12.valid d x) : C12.valid d.signed (d.toS x) := by
  have hM : 0 < d.M := Nat.two_pow_pos _
  unfold C12.valid at hx ⊢
  unfold DType.toS DType.signed
  cases hk : d.kind <;> simp only [hk, reduceCtorEq, if_false, if_true, DType.M] at hx hM ⊢ <;> first
    | exact hx
    | exact Nat.mod_lt _ hM

/-- B4 at chunk level: what a delta-encoded chunk decodes to is exactly the values it was made from -/
theorem chunkVals_delta (d : DType) (hW : 1 ≤ d.uBits) (fl : Flags) (hk : 1 ≤ fl.order)
    (vals : List Nat) (hv : ∀ x ∈ vals, C12.valid d x) (c : DChunk) (hn : c.cm.n = vals.length)
    (hm : c.cm.moments = sMoments d.signed fl.order (vals.map d.toS))
    (hus : c.us = codedUs d fl vals) : chunkVals d fl c = vals := by
  have hne : fl.order ≠ 0 := by omega
  have hsv : ∀ y ∈ vals.map d.toS, C12.valid d.signed y := by
    intro y hy
    obtain ⟨x, hx, rfl⟩ := List.mem_map.mp hy
    exact toS_valid d x (hv x hx)
  have hWs : 1 ≤ d.signed.uBits := by rw [signed_uBits]; exact hW
  have hdel : (codedUs d fl vals).map d.signed.fromU = sDiffN d.signed fl.order (vals.map d.toS) := by
    simp only [codedUs, hne, if_false, List.map_map]
    conv => rhs; rw [← List.map_id (sDiffN d.signed fl.order (vals.map d.toS))]
    apply List.map_congr_left
    intro y hy
    exact C12.fromU_toU d.signed hWs y (sDiffN_valid d.signed _ _ hsv y hy)
  have hlen : vals.length = (vals.map d.toS).length := by simp
  simp only [chunkVals, hne, if_false, hus, hdel, hn, hm]
  rw [hlen, reconstruct_deltas d.signed fl.order hk _ hsv, List.map_map]
  conv => rhs; rw [← List.map_id vals]
  apply List.map_congr_left
  intro x hx
  exact C12.fromS_toS d hW x (hv x hx)

/-- B4 at chunk level, vanishing deltas: the body contributes nothing — the chunk's values are
regenerated from the moments alone (the body's numbers may be dropped) -/
theorem chunkVals_zero_deltas (d : DType) (hW : 1 ≤ d.uBits) (fl : Flags) (hk : 1 ≤ fl.order)
    (vals : List Nat) (hv : ∀ x ∈ vals, C12.valid d x) (cm : ChunkMeta) (hn : cm.n = vals.length)
    (hm : cm.moments = sMoments d.signed fl.order (vals.map d.toS))
    (hz : ∀ x ∈ sDiffN d.signed fl.order (vals.map d.toS), x = 0) :
    chunkVals d fl { cm := cm, us := [] } = vals := by
  have hne : fl.order ≠ 0 := by omega
  have hsv : ∀ y ∈ vals.map d.toS, C12.valid d.signed y := by
    intro y hy
    obtain ⟨x, hx, rfl⟩ := List.mem_map.mp hy
    exact toS_valid d x (hv x hx)
  have hlen : vals.length = (vals.map d.toS).length := by simp
  simp only [chunkVals, hne, if_false, List.map_nil, hn, hm]
  rw [hlen, reconstruct_zero_deltas d.signed fl.order hk _ hsv hz, List.map_map]
  conv => rhs; rw [← List.map_id vals]
  apply List.map_congr_left
  intro x hx
  exact C12.fromS_toS d hW x (hv x hx)

/-! ## C. run-length -/

/-- C1: the run-length field never exceeds 48 bits -/
theorem varint_bits_le_48 (j x : Nat) (hj : j ≤ 24) : (encVarint 24 j x).length ≤ 48 := by
  unfold encVarint
  have := encVarintHigh_length_le_feat (24 - j) (x / 2 ^ j)
  simp only [List.length_append, natBits_length]
  omega

theorem varint_bits_le_49 (j x : Nat) (hj : j ≤ 24) : (encVarint 24 j x).length ≤ 49 :=
  Nat.le_succ_of_le (varint_bits_le_48 j x hj)

/-- C2: a prefix with a jumpstart takes the maximal run: the block holds exactly the following
numbers it contains, and the next number (if any) is outside the prefix -/
theorem greedy_runs_maximal (ps : List Prefix) (fuel : Nat) (u : Nat) (rest : List Nat)
    (b : Block) (bs : List Block) (i j : Nat)
    (h : greedyBlocks ps (fuel + 1) (u :: rest) = some (b :: bs))
    (hi : findPrefix ps u = some i) (hj : (ps.getD i default).jump = some j) :
    let p := ps.getD i default
    b = Block.run i (p.off u) ((rest.takeWhile p.contains).map p.off) ∧
    greedyBlocks ps fuel (rest.dropWhile p.contains) = some bs ∧
    (rest.dropWhile p.contains).head?.all (fun v => !p.contains v) = true := by
  intro p
  simp only [greedyBlocks, hi, hj, Option.map_eq_some_iff, List.cons.injEq] at h
  obtain ⟨bs', hbs', hb, hbs⟩ := h
  refine ⟨hb.symm, hbs ▸ hbs', ?_⟩
  have := List.head?_dropWhile_not p.contains rest
  cases hh : (rest.dropWhile p.contains).head? with
  | none => rfl
  | some v => rw [hh] at this; simp [this]

/-- C3: a run block on a single-valued prefix costs its code and the varint only -/
theorem run_block_bits (t : Table) (p j m : Nat) (hr : (t.info p).r = 0) (hk : (t.info p).k = 0)
    (hj : (t.info p).jump = some j) :
    (encBlock t (.run p 0 (List.replicate m 0))).length = (t.code p).length + (encVarint 24 j m).length := by
  simp [encBlock, hr, hk, hj, nEntriesBits, encOffset_zero, encOffsets_replicate_zero (t.info p) hr hk m]

/-- C3 corollary: a run of the dominant value of any length costs at most `code length + 48` bits -/
theorem run_block_bits_le (t : Table) (p j m : Nat) (hr : (t.info p).r = 0) (hk : (t.info p).k = 0)
    (hj : (t.info p).jump = some j) (hj24 : j ≤ 24) :
    (encBlock t (.run p 0 (List.replicate m 0))).length ≤ (t.code p).length + 48 := by
  rw [run_block_bits t p j m hr hk hj]
  have := varint_bits_le_48 j m hj24
  omega

/-- the library's rule for giving a range a run-length jumpstart, in integers:
no run-length iff `n < 1001 ∨ count / n < 0.8 ∨ count = n` -/
def usesRunLen (n count : Nat) : Bool :=
  decide (1001 ≤ n) && decide (4 * n ≤ 5 * count) && decide (count ≠ n)

/-- C4: the property's premises (≥ 2000 numbers, ≥ 90 % of them in the range, not all) imply the
library's rule (≥ 1001 numbers, ≥ 80 %, not all) -/
theorem dominant_gets_jumpstart_rule (n count : Nat) (hn : n ≥ 2000) (hc : 10 * count ≥ 9 * n)
    (hne : count ≠ n) : usesRunLen n count = true := by
  simp only [usesRunLen, Bool.and_eq_true, decide_eq_true_eq]
  omega

/-! ## D. concrete instances of the hypotheses -/

/-- GCD field width used in the examples (the theorems hold for every `gb`) -/
def exGb : Nat → Nat := fun _ => 3

def exFl : Flags := { use5 := false, order := 0, minCount := false, gcds := true }

/-- three ranges: exact divisor 15 recorded; exact divisor 1000 not representable in a 3-bit field,
so 1 is recorded; a single-valued range -/
def exMeta : ChunkMeta :=
  { n := 7, bodyBytes := 2, moments := [], commonGcd := none,
    prefixes := [
      { count := 3, lower := 10, upper := 40, code := [false], jump := none, gcd := 15 },
      { count := 3, lower := 5000, upper := 8000, code := [true, false], jump := none, gcd := 1 },
      { count := 1, lower := 100, upper := 100, code := [true, true], jump := none, gcd := 1 }] }

def exUs : List Nat := [10, 5000, 25, 7000, 40, 100, 8000]

/-- hypotheses of A3 hold, with both alternatives of the conclusion occurring -/
example : gcdExactB exGb exFl exMeta exUs = true ∧ exFl.gcds = true ∧
    (exMeta.prefixes.map fun p => exactGcd p exUs) = [15, 1000, 0] ∧
    (exMeta.prefixes.map fun p => p.gcd) = [15, 1, 1] ∧
    ¬ (1000 - 1 < 2 ^ exGb (8000 - 5000)) := by decide

example := gcdExact_fact exGb exFl exMeta exUs (by decide) (by decide)

/-- a single-valued leaf with the empty code -/
def exLeaf : Prefix := { count := 5, lower := 7, upper := 7, code := [], jump := none, gcd := 1 }

/-- hypotheses of B3 hold, and the evaluated body size is zero -/
example : exLeaf.lower = exLeaf.upper ∧ exLeaf.jump = none ∧ exLeaf.code = [] ∧
    (∀ u ∈ [7, 7, 7, 7, 7], u = exLeaf.lower) ∧
    (greedyBlocks [exLeaf] 5 [7, 7, 7, 7, 7]).map (bodyBits [exLeaf]) = some 0 := by decide

example := single_value_body_empty exLeaf rfl rfl rfl [7, 7, 7, 7, 7] (by decide)

/-- a dominant single value (code `0`, jumpstart 4) and a rest range -/
def exPs : List Prefix :=
  [ { count := 1900, lower := 5, upper := 5, code := [false], jump := some 4, gcd := 1 },
    { count := 100, lower := 6, upper := 20, code := [true], jump := none, gcd := 1 } ]

/-- hypotheses of C3 hold; a run of 101 copies costs 1 code bit + 11 varint bits -/
example : ((tableOf exPs).info 0).r = 0 ∧ ((tableOf exPs).info 0).k = 0 ∧
    ((tableOf exPs).info 0).jump = some 4 ∧
    (encBlock (tableOf exPs) (.run 0 0 (List.replicate 100 0))).length = 1 + 11 := by decide

example := run_block_bits_le (tableOf exPs) 0 4 300 (by decide) (by decide) (by decide) (by decide)

/-- greedy grouping on `5 5 5 9 5 5`: a run of 3 (6 bits), a single number (5 bits), a run of 2 (6 bits) -/
example : (greedyBlocks exPs 6 [5, 5, 5, 9, 5, 5]).map (fun bs => (bs.length, bodyBits exPs bs))
    = some (3, 6 + 5 + 6) := by decide

/-- the threshold rule on the property's boundary and on the library's boundaries -/
example : usesRunLen 2000 1800 = true ∧ usesRunLen 1001 801 = true ∧ usesRunLen 1000 999 = false ∧
    usesRunLen 2000 1599 = false ∧ usesRunLen 2000 2000 = false := by decide

end C18
end Qco
