/-
C18 (layer G) — `gcd_utils.rs`, literally.  Property theorems only; the executable literal model is
`Qco/Op/GcdLit.lean`, the proofs are in `Qco/Lemmas/GcdLit.lean`.

`Qco/Train/Model.lean` ASSUMED that `pair_gcd a b` is `Nat.gcd a b`, that the early `break` of `gcd(sorted)`
does not change its value, and wrote `fold_prefix_gcds_left`, `use_gcd_prefix_optimize` directly with
`Nat.gcd`.  Here these assumptions are theorems about statement-by-statement models with outcomes
`ok v | panic` (division by zero, index out of bounds, `-` underflow, `+` overflow):

  G1 `pair_gcd`                  `pairGcd_eq`, `pairGcd_zero`, `pairGcd_unfold`, `pairGcd_measure`
  G2 `gcd`                       `gcdSorted_eq`, `gcdSorted_nil`, `gcdSorted_pos`, `gcdSorted_exact`,
                                 `gcdSorted_single`, `pushPref_gcd`
  G3 `fold_prefix_gcds_left`     `foldPrefixGcdsLeft_eq`, `foldPrefixGcdsLeft_panic_iff`, `foldLoop_eq`,
                                 `train_fold_no_panic`, `mergeGroup_gcd_lit`
  G4 `common_gcd_for_chunk_meta` `commonGcdForChunkMeta_eq`, `common_none_of_two_nontrivial`
  G5 `use_gcd_prefix_optimize`   `useGcdPrefixOptimize_eq`, `train_useGcdPrefixOptimize`
  G6 `use_gcd_arithmetic`        `useGcdArithmetic_eq`
  G7 `gcd_fits_in_prefix_meta`   `gcdFitsInPrefixMeta_eq`

Observations (none reachable from the compressor; each is an `example` below):
  * `pair_gcd(a, 0)` panics; both call sites in `fold_prefix_gcds_left` pass the accumulated divisor as `b`,
    which is `≥ 1` because `gcd(..)` never answers 0 (`gcdSorted_pos`).  A prefix with divisor 0 on a
    multi-valued range would poison the accumulator and make the next call panic.
  * `use_gcd_prefix_optimize` computes `pj.upper + 1`, which overflows for `pj.upper = U::MAX`; the raw
    prefixes are strictly apart, so only the last one can end at `U::MAX` and it is never `pj`.
  * `common_gcd_for_chunk_meta` answers `None` as soon as two ranges are multi-valued, even when they have the
    same divisor — the comment above the function promises `Some(that GCD)` in that case.
-/
import Qco.Lemmas.GcdLit
import Qco.Properties.C10t
namespace Qco
namespace C18g
open Train GcdLit

/-! ## G1. `pair_gcd` -/

/-- G1a: under its documented precondition `b > 0`, `pair_gcd(a, b)` does not panic and answers the greatest
common divisor -/
theorem pairGcd_eq (a b : Nat) (hb : 0 < b) : pairGcd a b = .ok (Nat.gcd a b) := GcdLit.pairGcd_eq a b hb

/-- G1b: `pair_gcd(a, 0)` panics (`a %= 0`), and that is the only way it can -/
theorem pairGcd_zero (a : Nat) : pairGcd a 0 = .panic := GcdLit.pairGcd_zero a

theorem pairGcd_panic_iff (a b : Nat) : pairGcd a b = .panic ↔ b = 0 := GcdLit.pairGcd_panic_iff a b

/-- G1c: the model satisfies the Rust loop's equation, with no fuel in sight -/
theorem pairGcd_unfold (a b : Nat) :
    pairGcd a b =
      if b = 0 then .panic
      else if a % b = 0 then .ok b
      else if b % (a % b) = 0 then .ok (a % b)
      else pairGcd (a % b) (b % (a % b)) := GcdLit.pairGcd_unfold a b

/-- G1d: termination of the Rust loop — an iteration that does not return strictly decreases `b` -/
theorem pairGcd_measure (a b : Nat) (hb : b ≠ 0) (ha : a % b ≠ 0) : b % (a % b) < b :=
  GcdLit.pairGcd_decreases a b hb ha

/-! ## G2. `gcd` -/

/-- G2a: on a non-empty ascending slice the literal `gcd(sorted)` is the model's `sliceGcd`: the early
`break` at `res == 1` is harmless, no index is out of bounds, no `x - lower` underflows, `pair_gcd` always
gets `b > 0` -/
theorem gcdSorted_eq (sorted : List Nat) (hne : sorted ≠ []) (hs : sorted.Pairwise (· ≤ ·)) :
    gcdSorted sorted = .ok (sliceGcd sorted) := GcdLit.gcdSorted_eq sorted hne hs

/-- G2b: `gcd(&[])` panics (`sorted[0]`); `push_pref` never passes an empty slice (`i < j`) -/
theorem gcdSorted_nil : gcdSorted [] = .panic := rfl

/-- G2c: whatever the slice, a value `gcd` returns is `≥ 1` -/
theorem gcdSorted_pos (sorted : List Nat) (v : Nat) (h : gcdSorted sorted = .ok v) : 1 ≤ v :=
  GcdLit.gcdSorted_pos sorted v h

/-- G2d: the value the literal `gcd(sorted)` returns for a multi-valued ascending slice is exactly the
greatest common divisor of the distances from the lower bound: it divides each of them, and every common
divisor of them divides it -/
theorem gcdSorted_exact (sorted : List Nat) (hs : sorted.Pairwise (· ≤ ·))
    (hmulti : sorted.headD 0 ≠ sorted.getLastD 0) :
    ∃ g, gcdSorted sorted = .ok g ∧
      (∀ x ∈ sorted, g ∣ x - sorted.headD 0) ∧
      (∀ d, (∀ x ∈ sorted, d ∣ x - sorted.headD 0) → d ∣ g) := by
  have hne : sorted ≠ [] := by
    rintro rfl; exact hmulti rfl
  refine ⟨sliceGcd sorted, GcdLit.gcdSorted_eq sorted hne hs, ?_, ?_⟩
  · exact fun x hx => C10.sliceGcd_dvd sorted x hx
  · intro d hd
    refine C10.dvd_sliceGcd sorted hmulti ?_ d hd
    cases sorted with
    | nil => exact absurd rfl hne
    | cons a t =>
      rw [List.getLastD_eq_getLast?, List.getLast?_eq_some_getLast (List.cons_ne_nil a t)]
      exact List.getLast_mem _

/-- G2e: for a single-valued slice it is 1 -/
theorem gcdSorted_single (sorted : List Nat) (hne : sorted ≠ [])
    (hsingle : sorted.headD 0 = sorted.getLastD 0) : gcdSorted sorted = .ok 1 := by
  cases sorted with
  | nil => exact absurd rfl hne
  | cons a t =>
    unfold gcdSorted
    have h0 : (a :: t)[0]? = some a := rfl
    have hlen : ¬ (a :: t).length < 1 := by simp only [List.length_cons]; omega
    have heq : a = (a :: t).getLastD 0 := hsingle
    simp only [h0, if_neg hlen, GcdLit.getElem?_length_sub_one, if_pos heq]

/-- G2f: the divisor `push_pref(buffer, b, e)` records (compressor.rs:175-179) is the model's `mkRaw … .gcd`,
and computing it does not panic, for every slice `b < e ≤ n` of the sorted numbers -/
theorem pushPref_gcd (sorted : List Nat) (hs : sorted.Pairwise (· ≤ ·)) (gcds : Bool) (b e : Nat)
    (hbe : b < e) (he : e ≤ sorted.length) :
    (if gcds then gcdSorted (sliceOf sorted b e) else .ok 1) = .ok (mkRaw sorted gcds (b, e)).gcd := by
  have hgcd : (mkRaw sorted gcds (b, e)).gcd = if gcds then sliceGcd (sliceOf sorted b e) else 1 := rfl
  rw [hgcd]
  cases gcds with
  | false => rfl
  | true =>
    simp only [if_true]
    refine GcdLit.gcdSorted_eq _ ?_ ?_
    · intro h
      have := C10.length_sliceOf (b := b) he
      rw [h] at this
      simp only [List.length_nil] at this
      omega
    · unfold sliceOf
      exact hs.sublist ((List.take_sublist _ _).trans (List.drop_sublist _ _))

/-! ## G3. `fold_prefix_gcds_left` -/

/-- G3a: `fold_prefix_gcds_left` is the model's `foldGcdLeft` and does not panic when the left range does not
end above the right one and the accumulated divisor, if any, is `≥ 1`; both `pair_gcd` call sites then get
`b > 0` -/
theorem foldPrefixGcdsLeft_eq (l u g U : Nat) (acc : Option Nat) (hu : u ≤ U)
    (hacc : ∀ d, acc = some d → 1 ≤ d) :
    foldPrefixGcdsLeft l u g U acc = .ok (foldGcdLeft l u g U acc) :=
  GcdLit.foldPrefixGcdsLeft_eq l u g U acc hu hacc

/-- G3b: exactly when it panics: `right_upper - left_upper` underflows, or the accumulated divisor is 0 and one
of the two `pair_gcd` calls is made -/
theorem foldPrefixGcdsLeft_panic_iff (l u g U : Nat) (acc : Option Nat) :
    foldPrefixGcdsLeft l u g U acc = .panic ↔ (U < u) ∨ (acc = some 0 ∧ (u ≠ U ∨ u ≠ l)) :=
  GcdLit.foldPrefixGcdsLeft_panic_iff l u g U acc

/-- G3c: the callers' loop over a group of raw prefixes none of which ends above `U`, with divisors `≥ 1`:
no panic, the model's `foldAcc`, and the accumulated divisor stays `≥ 1` -/
theorem foldLoop_eq (U : Nat) (grp : List Raw) (h : ∀ r ∈ grp, r.upper ≤ U ∧ 1 ≤ r.gcd) :
    foldLoop U (grp.map GP.ofRaw) = .ok (foldAcc U grp) ∧ ∀ d, foldAcc U grp = some d → 1 ≤ d :=
  GcdLit.foldLoop_eq U grp h

/-- the raw prefixes of a sorted chunk: strictly apart, `lower ≤ upper`, divisor `≥ 1`, bounds among the numbers -/
theorem rawPrefixes_facts (sorted : List Nat) (hs : sorted.Pairwise (· ≤ ·)) (level : Nat) (gcds : Bool) :
    (rawPrefixes sorted level gcds).Pairwise (fun a b => a.upper < b.lower) ∧
      ∀ r ∈ rawPrefixes sorted level gcds, r.lower ≤ r.upper ∧ 1 ≤ r.gcd ∧ r.lower ∈ sorted := by
  obtain ⟨hfit, hsep, hflat⟩ := C10.rawSegs_tiles hs level gcds
  rw [← C10.rawSegs_fst]
  constructor
  · rw [List.pairwise_map]
    rw [List.pairwise_map] at hsep
    refine hsep.imp_of_mem ?_
    intro x y hx hy hxy
    exact hxy _ (hfit x hx).upper_mem _ (hfit y hy).lower_mem
  · intro r hr
    obtain ⟨x, hx, rfl⟩ := List.mem_map.mp hr
    have hf := hfit x hx
    refine ⟨hf.lower_le _ hf.upper_mem, hf.gcd_pos, ?_⟩
    rw [← hflat]
    exact List.mem_flatten.mpr ⟨x.2, List.mem_map.mpr ⟨x, hx, rfl⟩, hf.lower_mem⟩

/-- G3d: in `optimize_prefixes`, for EVERY group `raws[j..=i]` of consecutive raw prefixes of a sorted chunk
(whatever the float costs choose), the loop of `fold_prefix_gcds_left` calls towards `upper[i]` does not panic
and accumulates the model's `foldAcc` -/
theorem train_fold_no_panic (sorted : List Nat) (hs : sorted.Pairwise (· ≤ ·)) (level : Nat) (gcds : Bool)
    (pre init post : List Raw) (last : Raw)
    (hgrp : pre ++ (init ++ [last]) ++ post = rawPrefixes sorted level gcds) :
    foldLoop last.upper ((init ++ [last]).map GP.ofRaw) = .ok (foldAcc last.upper (init ++ [last])) := by
  obtain ⟨hpw, hall⟩ := rawPrefixes_facts sorted hs level gcds
  rw [← hgrp] at hpw hall
  have hmem : ∀ r ∈ init ++ [last], r ∈ pre ++ (init ++ [last]) ++ post := by
    intro r hr
    exact List.mem_append_left _ (List.mem_append_right _ hr)
  have hpw2 : (init ++ [last]).Pairwise (fun a b => a.upper < b.lower) :=
    hpw.sublist ((List.sublist_append_right _ _).trans (List.sublist_append_left _ _))
  refine (GcdLit.foldLoop_eq last.upper (init ++ [last]) ?_).1
  intro r hr
  refine ⟨?_, (hall r (hmem r hr)).2.1⟩
  rcases List.mem_append.mp hr with hi | hl
  · have h1 := (List.pairwise_append.mp hpw2).2.2 r hi last (List.mem_singleton.mpr rfl)
    have h2 := (hall last (hmem last (List.mem_append_right _ (List.mem_singleton.mpr rfl)))).1
    omega
  · rw [List.mem_singleton.mp hl]
    exact Nat.le_refl _

/-- G3e: hence the divisor of the merged prefix (`gcd_acc.unwrap_or(ONE)`, prefix_optimization.rs:140) is the
model's `mergeGroup … .gcd` -/
theorem mergeGroup_gcd_lit (init : List Raw) (last : Raw) (acc : Option Nat)
    (h : foldLoop last.upper ((init ++ [last]).map GP.ofRaw) = .ok acc) (hok : ∀ r ∈ init ++ [last],
      r.upper ≤ last.upper ∧ 1 ≤ r.gcd) :
    (mergeGroup true (init ++ [last])).gcd = acc.getD 1 := by
  rw [(GcdLit.foldLoop_eq last.upper (init ++ [last]) hok).1] at h
  cases h
  have hl : (init ++ [last]).getLastD default = last := by
    rw [List.getLastD_eq_getLast?]
    simp only [List.getLast?_append, List.getLast?_singleton, Option.some_or, Option.getD_some]
  simp only [mergeGroup, hl, if_true]

/-! ## G4. `common_gcd_for_chunk_meta` -/

/-- G4a: the literal loop-and-`match` is the driver's `commonGcdOf` (its actual definition) -/
theorem commonGcdForChunkMeta_eq (ps : List Prefix) :
    commonGcdForChunkMeta (ps.map GP.ofPrefix) = Driver.commonGcdOf ps :=
  GcdLit.commonGcdForChunkMeta_eq ps

/-- G4b (observation): two multi-valued ranges are enough for `None`, whatever their divisors — also when they
are equal, where the comment in `gcd_utils.rs` promises `Some(that GCD)`.  Nothing breaks: every prefix then
stores its own divisor. -/
theorem common_none_of_two_nontrivial (ps : List GP) (p q : GP) (rest : List GP)
    (h : ps.filter (fun p => p.lower != p.upper) = p :: q :: rest) : commonGcdForChunkMeta ps = none := by
  rw [GcdLit.commonGcdForChunkMeta_spec, h]
  cases ps with
  | nil => rfl
  | cons _ _ => rfl

/-! ## G5. `use_gcd_prefix_optimize` -/

/-- G5a: the literal two loops (with their early `return true`, `prefixes[i - 1]`, short-circuit `&&`) are the
model's `useGcdOptimize`, without panic, as long as `upper + 1` overflows for no prefix but the last -/
theorem useGcdPrefixOptimize_eq (ub : Nat) (raws : List Raw) (gcds : Bool)
    (h : ∀ p ∈ raws.dropLast, p.upper + 1 < 2 ^ ub) :
    useGcdPrefixOptimize ub (raws.map GP.ofRaw) gcds = .ok (useGcdOptimize raws gcds) :=
  GcdLit.useGcdPrefixOptimize_eq ub raws gcds h

/-- G5b: which holds for the raw prefixes of a sorted chunk of `U` values: the call in `optimize_prefixes`
(prefix_optimization.rs:71) does not panic -/
theorem train_useGcdPrefixOptimize (ub : Nat) (sorted : List Nat) (hs : sorted.Pairwise (· ≤ ·))
    (hU : ∀ x ∈ sorted, x < 2 ^ ub) (level : Nat) (gcds : Bool) :
    useGcdPrefixOptimize ub ((rawPrefixes sorted level gcds).map GP.ofRaw) gcds
      = .ok (useGcdOptimize (rawPrefixes sorted level gcds) gcds) := by
  obtain ⟨hpw, hall⟩ := rawPrefixes_facts sorted hs level gcds
  refine GcdLit.useGcdPrefixOptimize_eq ub _ gcds ?_
  exact GcdLit.noOverflow_of_sep ub _ hpw (fun p hp => hU _ (hall p hp).2.2)

/-! ## G6. `use_gcd_arithmetic` -/

/-- G6: the same expression as the body writer's `general` selection -/
theorem useGcdArithmetic_eq (ps : List Prefix) :
    GcdLit.useGcdArithmetic (ps.map GP.ofPrefix) = BodyWriter.useGcdArithmetic ps :=
  GcdLit.useGcdArithmetic_eq ps

/-! ## G7. `gcd_fits_in_prefix_meta` -/

/-- G7: on a well-formed prefix (`lower ≤ upper`, `1 ≤ gcd`) whose divisor is a `U` value, the literal test
(`bits >= U::BITS || (gcd - 1) >> bits == 0`) is the model's `gcdFits` and does not panic -/
theorem gcdFitsInPrefixMeta_eq (ub : Nat) (gb : Nat → Nat) (p : Prefix) (hle : p.lower ≤ p.upper)
    (hg : 1 ≤ p.gcd) (hU : p.gcd ≤ 2 ^ ub) :
    gcdFitsInPrefixMeta ub gb (GP.ofPrefix p) = .ok (gcdFits gb p p.gcd) :=
  GcdLit.gcdFitsInPrefixMeta_eq ub gb p hle hg hU

/-! ## non-vacuity, and the observations on concrete values (all by kernel evaluation) -/

-- the library's own tests
example : pairGcd 0 14 = .ok 14 ∧ pairGcd 8 14 = .ok 2 ∧ pairGcd 9 14 = .ok 1 ∧ pairGcd 6 1 = .ok 1 := by decide
example : pairGcd 7 (2 ^ 64 - 1) = .ok 1 ∧ pairGcd 7 (2 ^ 63 - 1) = .ok 7 := by decide
example : gcdSorted [0, 4, 6, 8, 10] = .ok 2 ∧ gcdSorted [0, 4, 6, 8, 10, 11] = .ok 1 := by decide
-- the hypotheses of `gcdSorted_eq` / `gcdSorted_exact` hold somewhere, and the early `break` is taken there
example : [0, 4, 6, 9, 10].Pairwise (· ≤ ·) ∧ [0, 4, 6, 9, 10] ≠ [] ∧
    [0, 4, 6, 9, 10].headD 0 ≠ [0, 4, 6, 9, 10].getLastD 0 := by decide
example : gcdSorted [0, 4, 6, 9, 10] = .ok 1 ∧ sliceGcd [0, 4, 6, 9, 10] = 1 := by decide
example : gcdSorted [3, 9, 15, 27] = .ok 6 ∧ sliceGcd [3, 9, 15, 27] = 6 := by decide
example : gcdSorted [7, 7, 7] = .ok 1 := by decide
-- the panics: division by zero, empty slice, unsorted slices (underflow of `x - lower`, `upper - lower`)
example : pairGcd 5 0 = .panic := by decide
example : gcdSorted [] = .panic ∧ gcdSorted [5, 3, 9] = .panic ∧ gcdSorted [5, 3] = .panic := by decide
-- `fold_prefix_gcds_left`: a normal group; a divisor 0 on a multi-valued range makes the NEXT call divide by 0;
-- a range ending above the right one underflows
example : foldLoop 10 [⟨0, 4, 2⟩, ⟨6, 6, 1⟩, ⟨10, 10, 1⟩] = .ok (some 2) := by decide
example : foldAcc 10 [⟨1, 0, 4, 2, none⟩, ⟨1, 6, 6, 1, none⟩, ⟨1, 10, 10, 1, none⟩] = some 2 := by decide
example : foldPrefixGcdsLeft 0 5 0 5 none = .ok (some 0) ∧
    foldPrefixGcdsLeft 0 3 1 5 (some 0) = .panic := by decide
example : foldLoop 5 [⟨0, 3, 1⟩, ⟨0, 5, 0⟩] = .panic := by decide
example : foldPrefixGcdsLeft 0 9 1 5 none = .panic := by decide
-- `common_gcd_for_chunk_meta`: the four cases of its comment, and the one where code and comment differ
example : commonGcdForChunkMeta [] = none ∧ commonGcdForChunkMeta [⟨3, 3, 1⟩, ⟨5, 5, 1⟩] = some 1 ∧
    commonGcdForChunkMeta [⟨3, 3, 1⟩, ⟨5, 9, 4⟩] = some 4 ∧
    commonGcdForChunkMeta [⟨0, 4, 2⟩, ⟨10, 16, 3⟩] = none := by decide
example : commonGcdForChunkMeta [⟨0, 4, 2⟩, ⟨10, 14, 2⟩] = none := by decide
-- `use_gcd_prefix_optimize`: the library's cases, and the overflow of `pj.upper + 1` at `U::MAX` (u8)
example : useGcdPrefixOptimize 32 [⟨1000, 1000, 1⟩, ⟨2000, 2000, 1⟩] true = .ok true ∧
    useGcdPrefixOptimize 32 [⟨1000, 1000, 1⟩, ⟨1001, 1001, 1⟩] true = .ok false ∧
    useGcdPrefixOptimize 32 [⟨1000, 1000, 1⟩, ⟨2000, 2000, 1⟩] false = .ok false ∧
    useGcdPrefixOptimize 32 [⟨0, 4, 2⟩, ⟨9, 9, 1⟩] true = .ok true := by decide
example : useGcdPrefixOptimize 8 [⟨255, 255, 1⟩, ⟨255, 255, 1⟩] true = .panic := by decide
example : useGcdPrefixOptimize 8 [⟨3, 3, 1⟩, ⟨255, 255, 1⟩] true = .ok true := by decide
-- `gcd_fits_in_prefix_meta`: fits / does not fit / wide field / the two underflows
example : gcdFitsInPrefixMeta 64 (fun _ => 3) ⟨0, 8, 8⟩ = .ok true ∧
    gcdFitsInPrefixMeta 64 (fun _ => 3) ⟨0, 9, 9⟩ = .ok false ∧
    gcdFitsInPrefixMeta 64 (fun _ => 64) ⟨0, 9, 9⟩ = .ok true ∧
    gcdFitsInPrefixMeta 64 (fun _ => 3) ⟨9, 0, 1⟩ = .panic ∧
    gcdFitsInPrefixMeta 64 (fun _ => 3) ⟨0, 9, 0⟩ = .panic := by decide

end C18g
end Qco
