/-
C18l — Layer SZ: the FEATURE claims of C18 for the metadata the LITERAL `Compressor::chunk` (with the literal
`train_prefixes`) RETURNS and WRITES.  Property theorems only; proofs in `Qco/Lemmas/SizeLit/*.lean`.

  a `literal_gcd_exact`                     with GCDs on, the recorded divisor of every multi-valued range of the
                                            returned table is the exact one, or 1 where the format cannot hold it;
  b `trainLit_all_equal`,
    `literal_vanishing_deltas_empty_body`   all coded numbers equal (e.g. the `order`-th differences vanish,
                                            `C18.vanishing_all_equal`), ANY `n ≥ 1`: exactly one prefix, empty code,
                                            no jumpstart (the guard `count == n_unsigneds` of `push_pref`),
                                            `compressed_body_size = 0`;
  c `literal_dominant_isolated`             a value holding ≥ 90 % of `n ≥ 2000` coded numbers (not all), level ≥ 8:
                                            the returned table has the prefix `[c, c]` with its exact count and a
                                            jumpstart.
-/
import Qco.Properties.C14l
namespace Qco
namespace C18l
open Train TrainLit E2E SizeLit
open Qco.WB Qco.MetaIO Qco.Op Qco.CompLit

variable {C : Type} {F : Floats} {O : CostOracle C} {pick : Nat → List HItem → Nat} {gb est : Nat → Nat}
  {d : DType} {cfg : CConfig}

/-- the trained table of a chunk with coded numbers is what `train_prefixes` answers -/
theorem trainedTable_eq {nums : List Nat} {ps : List Prefix}
    (h : trainLit F O pick d.uBits gb (codedUs d cfg.flags nums) cfg.level cfg.flags.gcds nums.length
      = .ok (some ps)) : trainedTable F O pick gb d cfg nums = ps := by
  unfold trainedTable trainOracle
  simp only [h]

/-! ### b. all coded numbers equal -/

theorem code_nil_of_tree_single (p : Prefix) (h : treeB [p] = true) : p.code = [] := by
  simp only [treeB, List.isEmpty_cons, Bool.false_or, completeTree, List.map_cons, List.map_nil, Bool.and_eq_true,
    beq_iff_eq, kraftSum, maxLen, List.foldl_cons, List.foldl_nil, List.sum_cons, List.sum_nil] at h
  have h2 := h.2
  have hm : max 0 p.code.length = p.code.length := Nat.max_eq_right (Nat.zero_le _)
  rw [hm, Nat.sub_self] at h2
  cases hc : p.code with
  | nil => rfl
  | cons b bs =>
    rw [hc] at h2
    simp only [List.length_cons, Nat.pow_succ] at h2
    have := Nat.two_pow_pos bs.length
    omega

/-- **`trainLit_all_equal`.**  If all coded numbers of a non-empty chunk are the same number `c` — for ANY `n ≥ 1`,
in particular `n ≥ 1001` — `train_prefixes` answers exactly one prefix: `[c, c]`, count `n`, EMPTY code, NO
jumpstart (`push_pref`'s guard `count == n_unsigneds`), and the greedy body takes ZERO bits. -/
theorem trainLit_all_equal (F : Floats) (O : CostOracle C) (pick : Nat → List HItem → Nat)
    (ub : Nat) (gb : Nat → Nat) (us : List Nat) (level : Nat) (gcds : Bool) (n : Nat)
    (hne : us ≠ []) (hl : level ≤ 12) (hn : n ≤ MAX_ENTRIES) (hlen : us.length ≤ n)
    (hU : ∀ x ∈ us, x < 2 ^ ub) (hF : FloatsAgree F us.length)
    (hW : RunWeightOK F us.length) (hfin : CostFinite O) (hp : PickOK pick)
    (c : Nat) (hall : ∀ x ∈ us, x = c) :
    ∃ p bs, trainLit F O pick ub gb us level gcds n = .ok (some [p]) ∧
      p.lower = c ∧ p.upper = c ∧ p.count = us.length ∧ p.code = [] ∧ p.jump = none ∧
      greedyBlocks [p] us.length us = some bs ∧ (encBody [p] bs).length = 0 := by
  obtain ⟨ps, h1, hS⟩ := trainLit_sized F O pick ub gb us level gcds n hne hl hn hlen hU hF hW hfin hp
  have hT := hS.trained
  obtain ⟨_, hd, _, _, _, htree, _⟩ := wfc_all hT.wfc
  have hlo : ∀ p ∈ ps, p.lower = c := fun p hp => hall _ (hT.lower_mem p hp)
  have hup : ∀ p ∈ ps, p.upper = c := fun p hp => hall _ (hT.upper_mem p hp)
  -- one prefix only: two ranges `[c, c]` are not disjoint
  have hone : ∃ p, ps = [p] := by
    match ps, hT.ne, hd, hlo, hup with
    | [p], _, _, _, _ => exact ⟨p, rfl⟩
    | p :: q :: rest, _, hd, hlo, hup =>
      exfalso
      simp only [disjointB, List.all_cons, Bool.and_eq_true, Bool.or_eq_true, decide_eq_true_eq] at hd
      have h1 := hlo p List.mem_cons_self
      have h2 := hup p List.mem_cons_self
      have h3 := hlo q (List.mem_cons_of_mem _ List.mem_cons_self)
      have h4 := hup q (List.mem_cons_of_mem _ List.mem_cons_self)
      have := hd.1.1
      omega
  obtain ⟨p, rfl⟩ := hone
  have hcount : p.count = us.length := by
    have := hT.counts
    simpa using this
  -- no jumpstart: the only raw prefix has none
  have hsorted_all : ∀ x ∈ (us.mergeSort fun a b => decide (a ≤ b)), x = c :=
    fun x hx => hall x ((perm_sorted us).mem_iff.mp hx)
  have hsne : (us.mergeSort fun a b => decide (a ≤ b)) ≠ [] := by
    intro h
    have := (perm_sorted us).length_eq
    rw [h] at this
    exact hne (List.eq_nil_of_length_eq_zero this.symm)
  have hraw := C10.all_equal_single _ c hsne hsorted_all level gcds
  have hj : p.jump = none := by
    cases hjj : p.jump with
    | none => rfl
    | some j =>
      exfalso
      obtain ⟨r, hr, _, _, _, hrj⟩ := hS.jump_raw p List.mem_cons_self (by rw [hjj]; rfl)
      rw [hraw, List.mem_singleton] at hr
      rw [hr, hjj] at hrj
      cases hrj
  have hcode := code_nil_of_tree_single p htree
  have hl' := hlo p List.mem_cons_self
  have hu' := hup p List.mem_cons_self
  obtain ⟨bs, hbs, hbits, _⟩ := C18.single_value_body_empty p (by rw [hl', hu']) hj hcode us
    (fun u hu => by rw [hl']; exact hall u hu)
  refine ⟨p, bs, h1, hl', hu', hcount, hcode, hj, hbs, ?_⟩
  have : (encBlocks (tableOf [p]) bs).length = 0 := hbits
  have h0 : encBlocks (tableOf [p]) bs = [] := List.eq_nil_of_length_eq_zero this
  simp [encBody, h0, padToByte]

/-! ### the literal compressor -/

/-- **`literal_vanishing_deltas_empty_body`.**  Delta order `≥ 1`, and the `order`-th wrapping differences of the
chunk all vanish (the chunk has more than `order` numbers, so that something is coded): the accepted call of the
literal `chunk` returns a metadata with EXACTLY ONE prefix — the single value `signed.toU 0`, count `n − order`,
empty code, no jumpstart — and `compressed_body_size = 0`, for every `n` (also `≥ 1001`). -/
theorem literal_vanishing_deltas_empty_body (hd : d ∈ Frozen.dtypes) (hgb : ∀ x, gb x ≤ d.uBits) (hG : GbTop gb d)
    (hest : BodyWriter.EstOk d.uBits est) (hlev : cfg.level ≤ 12) (hfin : CostFinite O) (hp : PickOK pick)
    {nums : List Nat} (hc : ChunkOk F O pick gb d cfg nums) {l : Comp} {a : CSt} (hs : CSim cfg l a)
    (hacc : Accepted cfg a nums.length) (hsz : a.pending.length + 32 < USIZE)
    (hk : cfg.flags.order ≥ 1) (hcoded : codedUs d cfg.flags nums ≠ [])
    (hz : ∀ x ∈ sDiffN d.signed cfg.flags.order (nums.map d.toS), x = 0) :
    ∃ rm p, (chunk gb est d (trainOracle F O pick gb d) nums l).1 = .ok rm ∧
      rm.prefixMetadata.prefixes = [p] ∧ p.lower = d.signed.toU 0 ∧ p.upper = d.signed.toU 0 ∧
      p.count = (codedUs d cfg.flags nums).length ∧ p.code = [] ∧ p.jump = none ∧
      rm.compressedBodySize = 0 := by
  have hr := rows_ok d hd
  obtain ⟨rm, bs, hrm, _, hps, hbs, hsize, _⟩ :=
    literal_chunk_returns (est := est) hr hgb hG hest hlev hfin hp hc hs hacc hsz
  have hvv : ∀ v ∈ nums, C12.valid d v := fun v h => (hc.nums_ok v h).1
  have hU := codedUs_lt hr cfg.flags nums hvv
  have hall := C18.vanishing_all_equal d cfg.flags nums hk hz
  obtain ⟨p, bs', h1, hlo, hup, hcnt, hcode, hj, hbs', h0⟩ := trainLit_all_equal F O pick d.uBits gb
    (codedUs d cfg.flags nums) cfg.level cfg.flags.gcds nums.length hcoded hlev
    (by unfold MAX_ENTRIES; exact hc.len) (codedUs_length_le d cfg.flags nums) hU hc.floats hc.weight hfin hp _ hall
  have htt := trainedTable_eq (F := F) (O := O) (pick := pick) (gb := gb) (d := d) (cfg := cfg) h1
  rw [htt] at hps hbs hsize
  rw [hbs'] at hbs; injection hbs with e; subst e
  refine ⟨rm, p, hrm, hps, hlo, hup, hcnt, hcode, hj, ?_⟩
  omega

/-- **`literal_dominant_isolated`.**  Among the `n' ≥ 2000` coded numbers of the chunk, a value `c` holds at least
90 % but not all, and `8 ≤ level ≤ 12`: the metadata the literal `chunk` returns has, at some index `r`, the
single-valued prefix `[c, c]` with the exact count of `c` and the run-length jumpstart of
`choose_run_len_jumpstart`; no other prefix has a jumpstart. -/
theorem literal_dominant_isolated (hd : d ∈ Frozen.dtypes) (hgb : ∀ x, gb x ≤ d.uBits) (hG : GbTop gb d)
    (hest : BodyWriter.EstOk d.uBits est) (hlev : cfg.level ≤ 12) (hfin : CostFinite O) (hp : PickOK pick)
    {nums : List Nat} (hc : ChunkOk F O pick gb d cfg nums) {l : Comp} {a : CSt} (hs : CSim cfg l a)
    (hacc : Accepted cfg a nums.length) (hsz : a.pending.length + 32 < USIZE)
    (c : Nat) (hn2 : (codedUs d cfg.flags nums).length ≥ 2000)
    (h90 : 10 * (codedUs d cfg.flags nums).count c ≥ 9 * (codedUs d cfg.flags nums).length)
    (hcne : (codedUs d cfg.flags nums).count c ≠ (codedUs d cfg.flags nums).length) (hl8 : 8 ≤ cfg.level) :
    ∃ rm r, ∃ (hr : r < rm.prefixMetadata.prefixes.length),
      (chunk gb est d (trainOracle F O pick gb d) nums l).1 = .ok rm ∧
      rm.prefixMetadata.prefixes[r].lower = c ∧ rm.prefixMetadata.prefixes[r].upper = c ∧
      rm.prefixMetadata.prefixes[r].count = (codedUs d cfg.flags nums).count c ∧
      rm.prefixMetadata.prefixes[r].jump
        = some (jumpstart (codedUs d cfg.flags nums).length ((codedUs d cfg.flags nums).count c)) ∧
      ∀ i (hi : i < rm.prefixMetadata.prefixes.length), i ≠ r → rm.prefixMetadata.prefixes[i].jump = none := by
  have hrow := rows_ok d hd
  obtain ⟨rm, _, hrm, _, hps, _, _, _⟩ :=
    literal_chunk_returns (est := est) hrow hgb hG hest hlev hfin hp hc hs hacc hsz
  have hvv : ∀ v ∈ nums, C12.valid d v := fun v h => (hc.nums_ok v h).1
  have hU := codedUs_lt hrow cfg.flags nums hvv
  have hne : codedUs d cfg.flags nums ≠ [] := by intro h; rw [h] at hn2; simp at hn2
  obtain ⟨ps, h1, hS⟩ := trainLit_sized F O pick d.uBits gb (codedUs d cfg.flags nums) cfg.level cfg.flags.gcds
    nums.length hne hlev (by unfold MAX_ENTRIES; exact hc.len) (codedUs_length_le d cfg.flags nums) hU hc.floats
    hc.weight hfin hp
  have htt := trainedTable_eq (F := F) (O := O) (pick := pick) (gb := gb) (d := d) (cfg := cfg) h1
  rw [htt] at hps
  obtain ⟨r, hr, hlo, hup, hcnt, hj⟩ := sized_dominant hS c hn2 h90 hcne hl8
  have hoj := hS.one_jump r hr (by rw [hj]; rfl)
  subst hps
  exact ⟨rm, r, hr, hrm, hlo, hup, hcnt, hj, hoj⟩

/-! ### a. exact divisors -/

/-- **`literal_gcd_exact`.**  With GCDs on, in the table the literal `chunk` RETURNS (and writes: the writer's
chunk carries the same prefixes), every prefix whose range holds two different coded numbers records the exact
GCD of their distances from the lower bound — or 1 when there is no common-GCD field and the exact one does not
fit the prefix's own field (C18(1)). -/
theorem literal_gcd_exact (hd : d ∈ Frozen.dtypes) (hgb : ∀ x, gb x ≤ d.uBits) (hG : GbTop gb d)
    (hest : BodyWriter.EstOk d.uBits est) (hlev : cfg.level ≤ 12) (hfin : CostFinite O) (hp : PickOK pick)
    {nums : List Nat} (hc : ChunkOk F O pick gb d cfg nums) {l : Comp} {a : CSt} (hs : CSim cfg l a)
    (hacc : Accepted cfg a nums.length) (hsz : a.pending.length + 32 < USIZE)
    (hg : cfg.flags.gcds = true) (hcoded : codedUs d cfg.flags nums ≠ []) :
    ∃ rm, (chunk gb est d (trainOracle F O pick gb d) nums l).1 = .ok rm ∧
      (writerChunk F O pick gb d cfg nums).cm.prefixes = rm.prefixMetadata.prefixes ∧
      ∀ p ∈ rm.prefixMetadata.prefixes,
        exactGcd p ((codedUs d cfg.flags nums).mergeSort fun a b => decide (a ≤ b)) ≠ 0 →
        p.gcd = exactGcd p ((codedUs d cfg.flags nums).mergeSort fun a b => decide (a ≤ b)) ∨
        (p.gcd = 1 ∧ hasCommonLit true rm.prefixMetadata.prefixes = false ∧
          gcdFits gb p (exactGcd p ((codedUs d cfg.flags nums).mergeSort fun a b => decide (a ≤ b))) = false) := by
  have hrow := rows_ok d hd
  obtain ⟨rm, _, hrm, _, hps, _, _, _⟩ :=
    literal_chunk_returns (est := est) hrow hgb hG hest hlev hfin hp hc hs hacc hsz
  have hvv : ∀ v ∈ nums, C12.valid d v := fun v h => (hc.nums_ok v h).1
  have hU := codedUs_lt hrow cfg.flags nums hvv
  obtain ⟨ps, h1, hex⟩ := C10l.trainLit_gcd_exact F O pick d.uBits gb (codedUs d cfg.flags nums) cfg.level
    nums.length hcoded hlev (by unfold MAX_ENTRIES; exact hc.len) (codedUs_length_le d cfg.flags nums) hU hc.floats
    hc.weight hfin hp
  rw [← hg] at h1
  have htt := trainedTable_eq (F := F) (O := O) (pick := pick) (gb := gb) (d := d) (cfg := cfg) h1
  rw [htt] at hps
  subst hps
  refine ⟨rm, hrm, ?_, hex⟩
  obtain ⟨hcov⟩ : Nonempty (coverB rm.prefixMetadata.prefixes (codedUs d cfg.flags nums) = true) :=
    ⟨(wfc_all (E2E.trainLit_trained F O pick d.uBits gb (codedUs d cfg.flags nums) cfg.level cfg.flags.gcds
      nums.length hcoded hlev (by unfold MAX_ENTRIES; exact hc.len) (codedUs_length_le d cfg.flags nums) hU
      hc.floats hc.weight hfin hp |> fun ⟨ps', h1', hT⟩ => by
        rw [h1] at h1'; injection h1' with h; injection h with h; subst h; exact hT.wfc)).2.2.1⟩
  obtain ⟨_, _, _, heq⟩ := trainedOf_eq (d := d) (fl := cfg.flags) (nums := nums) hcov
  unfold writerChunk
  rw [htt, heq]
  rfl

end C18l
end Qco
