/-
C18s — the body of a chunk whose table has a single-valued run-length prefix ("sparse" data: one
dominant value, a few others). Property theorems only; the lemmas are in
`Qco/Lemmas/HuffmanHeavy.lean` and `Qco/Lemmas/SparseBody.lean`.

This removes the remaining conditional parts of C14 and C18(2). `C14h.body_bound` covers tables
WITHOUT a run-length prefix, where the Huffman weight of every prefix is its count. With a
run-length prefix `r` the library gives `r` another weight, an `f64` estimate `E` of its number of
runs. Here `E` is ANY natural number:

* `sparse_body_bound`: the body takes at most `(W + 2)` bits per number of the other prefixes and
  50 bits per run of `r`, plus byte padding. What is assumed of the file's codes:
  `Σ w_p · |code_p| ≤ huffCost w` for the weights `w = counts[r ↦ E]` (true for every answer of
  `make_huffman_code`, `HuffCode.cost`), and `1 ≤ |code_r| ≤ 2`.
* `sparse_body_bound_of_huffCode`: the two facts about `code_r` are theorems when the codes are an
  answer of `make_huffman_code` for those weights, there are at least two prefixes, and `E` is more
  than half the total count of the others (`HuffCode.heavy_length_le_two`, `HuffCode.length_pos`).
* `c18_sparse`: `≤ (W + 8) · others + 52 · R` bits; `c14_sparse…`: per-number bounds when the
  library's run-length rule fired (`C18.usesRunLen`).
* `runs_le_others_succ`: in the greedy grouping `R ≤ others + 1`; `sparse_of_greedy`: the greedy
  blocks have the shape assumed here.

The hypothesis "no other prefix has a jumpstart" is not needed for the size bounds (only the shape
of the blocks matters); it is what makes the greedy blocks have that shape (`sparse_of_greedy`).
-/
import Qco.Properties.C14h
import Qco.Properties.C18
import Qco.Lemmas.HuffmanHeavy
import Qco.Lemmas.SparseBody
namespace Qco
namespace C18s

/-! ### the hypotheses on table and blocks -/

/-- a table `ps` inside `[0, 2^W)` whose prefix `r` is single-valued with a run-length jumpstart, and
a body `bs` made of single blocks of the other prefixes (as many as their counts say) and of runs of
`r` (offsets all 0, any lengths) -/
structure Sparse (W : Nat) (ps : List Prefix) (r : Nat) (bs : List Block) : Prop where
  bounds : boundsOk ps = true
  disjoint : disjointB ps = true
  upper : ∀ p ∈ ps, p.upper < 2 ^ W
  hr : r < ps.length
  jump : ∃ j, ps[r].jump = some j ∧ j ≤ 24
  single : ps[r].lower = ps[r].upper
  /-- every block of another prefix is a single block of a prefix of the table -/
  ones : ∀ b ∈ bs, b.pidx ≠ r → b.isOne = true ∧ b.pidx < ps.length
  /-- every block of `r` is `Block.run r 0 (List.replicate m 0)` for some `m` -/
  runs : ∀ b ∈ bs, b.pidx = r → b.isZeroRun r = true
  /-- truthful counts of the other prefixes -/
  counts : ∀ p (hp : p < ps.length), p ≠ r → (bs.filter fun b => b.pidx == p).length = ps[p].count

variable {W : Nat} {ps : List Prefix} {r : Nat} {bs : List Block}

theorem info_k_le (W : Nat) (q : Prefix) (h : q.upper < 2 ^ W) : q.info.k ≤ W := by
  have h1 : (q.upper - q.lower) / q.gcd ≤ q.upper - q.lower := Nat.div_le_self _ _
  exact log2_succ_le (by omega)

/-- the blocks of the other prefixes have truthful counts for the counts with `r`'s zeroed -/
theorem Sparse.counts_zeroed (h : Sparse W ps r bs) :
    ∀ p (hp : p < ((ps.map (·.count)).set r 0).length),
      ((bs.filter fun b => !(b.pidx == r)).filter fun b => b.pidx == p).length
        = ((ps.map (·.count)).set r 0)[p] := by
  intro p hp
  have hp' : p < ps.length := by simpa using hp
  rw [List.filter_filter]
  by_cases hpr : p = r
  · subst hpr
    rw [List.getElem_set_self, List.length_eq_zero_iff, List.filter_eq_nil_iff]
    intro b _; simp
  · rw [List.getElem_set_ne (Ne.symm hpr), List.getElem_map, ← h.counts p hp' hpr]
    congr 1
    apply List.filter_congr
    intro b _
    by_cases hb : b.pidx = p <;> simp [hb, hpr]

theorem Sparse.others_idx (h : Sparse W ps r bs) :
    ∀ b ∈ bs.filter (fun b => !(b.pidx == r)), b.isOne = true ∧ b.pidx < ps.length := by
  intro b hb
  obtain ⟨hb1, hb2⟩ := List.mem_filter.1 hb
  exact h.ones b hb1 (by simpa using hb2)

/-- **the number of blocks of the other prefixes is their total count** -/
theorem Sparse.otherCount_eq (h : Sparse W ps r bs) : otherCount r bs = othersOf ps r := by
  have hlen : ((ps.map (·.count)).set r 0).length = ps.length := by simp
  have := sum_blocks_weighted ((ps.map (·.count)).set r 0)
    (List.replicate ((ps.map (·.count)).set r 0).length 1) (bs.filter fun b => !(b.pidx == r)) (fun _ => 1)
    (by simp) (by intro p hp; simp) (fun b hb => by rw [hlen]; exact (h.others_idx b hb).2) h.counts_zeroed
  rw [weightedSum_ones, sum_set_zero _ _ (by simpa using h.hr), sum_map_const_one] at this
  exact this

/-! ### 1: the body bound -/

/-- **the sparse body bound, blocks only.** `E` is any weight for the run-length prefix. -/
theorem sparse_blocks_bound (W : Nat) (ps : List Prefix) (r : Nat) (bs : List Block) (h : Sparse W ps r bs)
    (E : Nat)
    (hcodes : weightedLen ((ps.map (·.count)).set r E) (ps.map (·.code))
      ≤ huffCost ((ps.map (·.count)).set r E))
    (hc1 : 1 ≤ (ps[r]'h.hr).code.length) (hc2 : (ps[r]'h.hr).code.length ≤ 2) :
    (encBlocks (tableOf ps) bs).length ≤ othersOf ps r * (W + 2) + runCount r bs * 50 := by
  have hr := h.hr
  obtain ⟨j, hj, hj24⟩ := h.jump
  obtain ⟨hr0, hk0⟩ := C18.single_value_info ps[r] h.single
  have hinfo := tableOf_info ps r hr
  have hcode := tableOf_code ps r hr
  rw [← h.otherCount_eq, encBlocks_length, sum_map_filter_split (fun b => b.pidx == r)]
  -- the runs of `r`: code (≤ 2 bits) and varint (≤ 48 bits), no offset bits
  have hruns : ((bs.filter fun b => b.pidx == r).map fun b => (encBlock (tableOf ps) b).length).sum
      ≤ runCount r bs * 50 := by
    apply sum_map_le_length_mul
    intro b hb
    obtain ⟨hb1, hb2⟩ := List.mem_filter.1 hb
    obtain ⟨m, rfl⟩ := Block.eq_of_isZeroRun (h.runs b hb1 (by simpa using hb2))
    have := C18.run_block_bits_le (tableOf ps) r j m (by rw [hinfo]; exact hr0) (by rw [hinfo]; exact hk0)
      (by rw [hinfo]; exact hj) hj24
    rw [hcode] at this
    omega
  -- the blocks of the other prefixes
  have hothers : ((bs.filter fun b => !(b.pidx == r)).map fun b => (encBlock (tableOf ps) b).length).sum
      ≤ otherCount r bs * (W + 2) := by
    have hmem := h.others_idx
    have hidx : ∀ b ∈ bs.filter (fun b => !(b.pidx == r)), b.pidx < ((ps.map (·.count)).set r 0).length := by
      intro b hb; simp only [List.length_set, List.length_map]; exact (hmem b hb).2
    have h1 : ((bs.filter fun b => !(b.pidx == r)).map fun b => (encBlock (tableOf ps) b).length).sum
        ≤ ((bs.filter fun b => !(b.pidx == r)).map fun b =>
            ((tableOf ps).code b.pidx).length + (((tableOf ps).info b.pidx).k + 1)).sum := by
      apply sum_map_le_sum_map
      intro b hb
      rw [encBlock_one_length _ b (hmem b hb).1]
      have := offBits_one_le (tableOf ps) b (hmem b hb).1
      omega
    rw [sum_map_add] at h1
    have hA := sum_blocks_weighted ((ps.map (·.count)).set r 0) ((ps.map (·.code)).map List.length)
      (bs.filter fun b => !(b.pidx == r)) (fun p => ((tableOf ps).code p).length) (by simp)
      (by
        intro p hp
        have hp' : p < ps.length := by simpa using hp
        rw [tableOf_code ps p hp']; simp)
      hidx h.counts_zeroed
    have hB := sum_blocks_weighted ((ps.map (·.count)).set r 0)
      ((ps.map fun q => q.info.k).map fun k => W - k + 1)
      (bs.filter fun b => !(b.pidx == r)) (fun p => W - ((tableOf ps).info p).k + 1) (by simp)
      (by
        intro p hp
        have hp' : p < ps.length := by simpa using hp
        rw [tableOf_info ps p hp']; simp)
      hidx h.counts_zeroed
    have hk : ∀ k ∈ ps.map (fun q => q.info.k), k ≤ W := by
      intro k hk
      obtain ⟨q, hq, rfl⟩ := List.mem_map.1 hk
      exact info_k_le W q (h.upper q hq)
    have hkraft : ((ps.map fun q => q.info.k).map fun k => 2 ^ k).sum ≤ 2 ^ W := by
      have := C14.kraft_reference_of_disjoint W ps h.bounds h.disjoint h.upper
      have e : ((ps.map fun q => q.info.k).map fun k => 2 ^ k) = ps.map fun p => 2 ^ (W - (W - p.info.k)) := by
        rw [List.map_map]
        apply List.map_congr_left
        intro q hq
        have := info_k_le W q (h.upper q hq)
        simp only [Function.comp]
        congr 1
        omega
      rw [e]; exact this
    have hbud := code_budget W E r (ps.map (·.count)) ((ps.map (·.code)).map List.length)
      (ps.map fun q => q.info.k) (by simp) (by simp) (by simpa using hr) hk hkraft
      (by simpa using hc1) (by rw [← weightedLen_eq_weightedSum]; exact hcodes)
    have h2 : ((bs.filter fun b => !(b.pidx == r)).map fun b =>
        (W - ((tableOf ps).info b.pidx).k + 1) + (((tableOf ps).info b.pidx).k + 1)).sum
        ≤ (bs.filter fun b => !(b.pidx == r)).length * (W + 2) :=
      sum_map_le_length_mul _ _ _ fun b _ => by
        have := C14.tableOf_k_le W ps h.upper b.pidx
        omega
    rw [sum_map_add] at h2
    unfold otherCount
    omega
  omega

/-- **the sparse body bound**: at most `W + 2` bits per number of the other prefixes, 50 bits per
run of the single-valued run-length prefix, and byte padding -/
theorem sparse_body_bound (W : Nat) (ps : List Prefix) (r : Nat) (bs : List Block) (h : Sparse W ps r bs)
    (E : Nat)
    (hcodes : weightedLen ((ps.map (·.count)).set r E) (ps.map (·.code))
      ≤ huffCost ((ps.map (·.count)).set r E))
    (hc1 : 1 ≤ (ps[r]'h.hr).code.length) (hc2 : (ps[r]'h.hr).code.length ≤ 2) :
    (encBody ps bs).length ≤ othersOf ps r * (W + 2) + runCount r bs * 50 + 7 := by
  have h1 := C14.body_padded_le ps bs
  have h2 := sparse_blocks_bound W ps r bs h E hcodes hc1 hc2
  omega

/-- the hypotheses on the codes, from `HuffCode`: the codes of EVERY run of the library's loop (any
tie-breaking of the heap) for the weights `counts[r ↦ E]`, when `E` is more than half the total
count of the other prefixes and there are at least two prefixes -/
theorem codes_of_huffCode (ps : List Prefix) (r : Nat) (hr : r < ps.length) (E : Nat)
    (hc : HuffCode ((ps.map (·.count)).set r E) (ps.map (·.code)))
    (hheavy : othersOf ps r < 2 * E) (h2 : 2 ≤ ps.length) :
    weightedLen ((ps.map (·.count)).set r E) (ps.map (·.code)) ≤ huffCost ((ps.map (·.count)).set r E)
      ∧ 1 ≤ ps[r].code.length ∧ ps[r].code.length ≤ 2 := by
  have hrw : r < ((ps.map (·.count)).set r E).length := by simpa using hr
  refine ⟨Nat.le_of_eq hc.cost, ?_, ?_⟩
  · have := hc.length_pos (by simpa using h2) r hrw
    simpa using this
  · have := hc.heavy_length_le_two r hrw (by
      rw [List.eraseIdx_set_eq, List.getElem_set_self]; exact hheavy)
    simpa using this

/-- **the sparse body bound for every answer of `make_huffman_code`** -/
theorem sparse_body_bound_of_huffCode (W : Nat) (ps : List Prefix) (r : Nat) (bs : List Block)
    (h : Sparse W ps r bs) (E : Nat)
    (hc : HuffCode ((ps.map (·.count)).set r E) (ps.map (·.code)))
    (hheavy : othersOf ps r < 2 * E) (h2 : 2 ≤ ps.length) :
    (encBody ps bs).length ≤ othersOf ps r * (W + 2) + runCount r bs * 50 + 7 := by
  obtain ⟨h1, h3, h4⟩ := codes_of_huffCode ps r h.hr E hc hheavy h2
  exact sparse_body_bound W ps r bs h E h1 h3 h4

/-- when the code of `r` comes with a prefix-free table of at least two codes, it is not empty -/
theorem code_pos_of_prefixFree (ps : List Prefix) (r : Nat) (hr : r < ps.length)
    (hpf : PrefixFree (ps.map (·.code))) (h2 : 2 ≤ ps.length) : 1 ≤ ps[r].code.length := by
  have := PrefixFree.length_pos hpf (by simpa using h2) r (by simpa using hr)
  simpa using this

/-- the run-length prefix alone (or a body of runs only): code and varint per run, no Huffman
hypothesis; with a single prefix the code is empty and a run costs at most 48 bits -/
theorem runs_only_bound (ps : List Prefix) (r j : Nat) (hr : r < ps.length) (hj : ps[r].jump = some j)
    (hj24 : j ≤ 24) (hs : ps[r].lower = ps[r].upper) (bs : List Block)
    (hall : ∀ b ∈ bs, b.isZeroRun r = true) :
    (encBlocks (tableOf ps) bs).length ≤ bs.length * (ps[r].code.length + 48) := by
  obtain ⟨hr0, hk0⟩ := C18.single_value_info ps[r] hs
  have hinfo := tableOf_info ps r hr
  rw [encBlocks_length]
  apply sum_map_le_length_mul
  intro b hb
  obtain ⟨m, rfl⟩ := Block.eq_of_isZeroRun (hall b hb)
  have := C18.run_block_bits_le (tableOf ps) r j m (by rw [hinfo]; exact hr0) (by rw [hinfo]; exact hk0)
    (by rw [hinfo]; exact hj) hj24
  rw [tableOf_code ps r hr] at this
  exact this

/-! ### 2: C18(2) and C14 for sparse data -/

/-- **C18(2), unconditional**: at most `W + 8` bits per number outside the dominant value and 52
bits per run. Side condition `7 ≤ 6·others + 2·R` (to absorb the byte padding): it holds as soon as
there is a run and another number, or two other numbers, or four runs. -/
theorem c18_sparse (W : Nat) (ps : List Prefix) (r : Nat) (bs : List Block) (h : Sparse W ps r bs) (E : Nat)
    (hcodes : weightedLen ((ps.map (·.count)).set r E) (ps.map (·.code))
      ≤ huffCost ((ps.map (·.count)).set r E))
    (hc1 : 1 ≤ (ps[r]'h.hr).code.length) (hc2 : (ps[r]'h.hr).code.length ≤ 2)
    (hpad : 7 ≤ 6 * othersOf ps r + 2 * runCount r bs) :
    (encBody ps bs).length ≤ (W + 8) * othersOf ps r + 52 * runCount r bs := by
  have h1 := sparse_body_bound W ps r bs h E hcodes hc1 hc2
  have e : (W + 8) * othersOf ps r = othersOf ps r * (W + 2) + othersOf ps r * 6 := by
    rw [Nat.mul_comm, ← Nat.mul_add]
  omega

/-- the usual case of the side condition: at least one run and one other number -/
theorem c18_sparse' (W : Nat) (ps : List Prefix) (r : Nat) (bs : List Block) (h : Sparse W ps r bs) (E : Nat)
    (hcodes : weightedLen ((ps.map (·.count)).set r E) (ps.map (·.code))
      ≤ huffCost ((ps.map (·.count)).set r E))
    (hc1 : 1 ≤ (ps[r]'h.hr).code.length) (hc2 : (ps[r]'h.hr).code.length ≤ 2)
    (ho : 1 ≤ othersOf ps r) (hR : 1 ≤ runCount r bs) :
    (encBody ps bs).length ≤ (W + 8) * othersOf ps r + 52 * runCount r bs :=
  c18_sparse W ps r bs h E hcodes hc1 hc2 (by omega)

/-- the library's run-length rule (`n ≥ 1001`, at least 80 % of the numbers in the range) leaves at
most a fifth of the numbers to the other prefixes -/
theorem others_le_fifth (n c o : Nat) (hrule : C18.usesRunLen n c = true) (hn : n = o + c) :
    1001 ≤ n ∧ 5 * o ≤ n ∧ 1 ≤ o := by
  simp only [C18.usesRunLen, Bool.and_eq_true, decide_eq_true_eq] at hrule
  omega

/-- the library's weight for the run-length prefix is `⌈f (1 − f) n⌉` with `f = c / n ≥ 0.8` (in
`f64`); in exact arithmetic every `E ≥ f (1 − f) n = c · o / n` is more than half of `o`, the total
count of the others: the hypothesis `hheavy` of `sparse_body_bound_of_huffCode` -/
theorem heavy_of_estimate (n c o E : Nat) (hn : n = o + c) (h80 : 4 * n ≤ 5 * c) (ho : 1 ≤ o)
    (hE : c * o ≤ E * n) : o < 2 * E := by
  apply Nat.lt_of_not_le
  intro hle
  have h1 : 2 * E * n ≤ o * n := Nat.mul_le_mul_right n hle
  have h2 : 2 * (c * o) ≤ 2 * (E * n) := Nat.mul_le_mul_left 2 hE
  have h3 : (2 * c) * o ≤ n * o :=
    calc (2 * c) * o = 2 * (c * o) := Nat.mul_assoc ..
      _ ≤ 2 * (E * n) := h2
      _ = 2 * E * n := (Nat.mul_assoc ..).symm
      _ ≤ o * n := h1
      _ = n * o := Nat.mul_comm ..
  have := Nat.le_of_mul_le_mul_right h3 (by omega : 0 < o)
  omega

/-- **C14 for sparse data, general form**: with `n` numbers of which at most a fifth are outside the
dominant value, and at most one more run than other numbers (`runs_le_others_succ`), five bodies
take at most `n · (W + 52) + 285` bits -/
theorem c14_sparse_general (W : Nat) (ps : List Prefix) (r : Nat) (bs : List Block) (h : Sparse W ps r bs)
    (E : Nat)
    (hcodes : weightedLen ((ps.map (·.count)).set r E) (ps.map (·.code))
      ≤ huffCost ((ps.map (·.count)).set r E))
    (hc1 : 1 ≤ (ps[r]'h.hr).code.length) (hc2 : (ps[r]'h.hr).code.length ≤ 2)
    (n : Nat) (hfifth : 5 * othersOf ps r ≤ n) (hR : runCount r bs ≤ othersOf ps r + 1) :
    5 * (encBody ps bs).length ≤ n * (W + 52) + 285 := by
  have h1 := sparse_body_bound W ps r bs h E hcodes hc1 hc2
  have e1 : othersOf ps r * (W + 2) = othersOf ps r * W + othersOf ps r * 2 := Nat.mul_add ..
  have e2 : n * (W + 52) = n * W + n * 52 := Nat.mul_add ..
  have h3 : 5 * (othersOf ps r * W) ≤ n * W := by
    rw [← Nat.mul_assoc]; exact Nat.mul_le_mul_right W hfifth
  omega

/-- **C14 for sparse data**: when the run-length rule fired (`C18.usesRunLen n count_r`, with
`n = others + count_r`), for `W ≥ 9` the body takes at most `W + 4` bits per number. (`W ≥ 9` is
what the arithmetic `4·n·(W − 8) ≥ 285` gives; see `c14_sparse_w8` for `W = 8` and
`c14_sparse_w12` for the bound of `C14h.body_bound`.) -/
theorem c14_sparse (W : Nat) (ps : List Prefix) (r : Nat) (bs : List Block) (h : Sparse W ps r bs)
    (E : Nat)
    (hcodes : weightedLen ((ps.map (·.count)).set r E) (ps.map (·.code))
      ≤ huffCost ((ps.map (·.count)).set r E))
    (hc1 : 1 ≤ (ps[r]'h.hr).code.length) (hc2 : (ps[r]'h.hr).code.length ≤ 2)
    (n : Nat) (hrule : C18.usesRunLen n (ps[r]'h.hr).count = true)
    (hn : n = othersOf ps r + (ps[r]'h.hr).count)
    (hR : runCount r bs ≤ othersOf ps r + 1) (hW : 9 ≤ W) :
    (encBody ps bs).length ≤ n * (W + 4) := by
  obtain ⟨hn1, hfifth, -⟩ := others_le_fifth n _ _ hrule hn
  have h1 := c14_sparse_general W ps r bs h E hcodes hc1 hc2 n hfifth hR
  have e2 : n * (W + 52) = n * W + n * 52 := Nat.mul_add ..
  have e3 : n * (W + 4) = n * W + n * 4 := Nat.mul_add ..
  have h3 : n * 9 ≤ n * W := Nat.mul_le_mul_left n hW
  omega

/-- for every `W ≥ 8` (every data type of the format): at most `W + 5` bits per number -/
theorem c14_sparse_w8 (W : Nat) (ps : List Prefix) (r : Nat) (bs : List Block) (h : Sparse W ps r bs)
    (E : Nat)
    (hcodes : weightedLen ((ps.map (·.count)).set r E) (ps.map (·.code))
      ≤ huffCost ((ps.map (·.count)).set r E))
    (hc1 : 1 ≤ (ps[r]'h.hr).code.length) (hc2 : (ps[r]'h.hr).code.length ≤ 2)
    (n : Nat) (hrule : C18.usesRunLen n (ps[r]'h.hr).count = true)
    (hn : n = othersOf ps r + (ps[r]'h.hr).count)
    (hR : runCount r bs ≤ othersOf ps r + 1) (hW : 8 ≤ W) :
    (encBody ps bs).length ≤ n * (W + 5) := by
  obtain ⟨hn1, hfifth, -⟩ := others_le_fifth n _ _ hrule hn
  have h1 := c14_sparse_general W ps r bs h E hcodes hc1 hc2 n hfifth hR
  have e2 : n * (W + 52) = n * W + n * 52 := Nat.mul_add ..
  have e3 : n * (W + 5) = n * W + n * 5 := Nat.mul_add ..
  have h3 : n * 8 ≤ n * W := Nat.mul_le_mul_left n hW
  omega

/-- for `W ≥ 12`: the bound of `C14h.body_bound` (`W + 1` bits per number, plus padding) holds for
sparse data too -/
theorem c14_sparse_w12 (W : Nat) (ps : List Prefix) (r : Nat) (bs : List Block) (h : Sparse W ps r bs)
    (E : Nat)
    (hcodes : weightedLen ((ps.map (·.count)).set r E) (ps.map (·.code))
      ≤ huffCost ((ps.map (·.count)).set r E))
    (hc1 : 1 ≤ (ps[r]'h.hr).code.length) (hc2 : (ps[r]'h.hr).code.length ≤ 2)
    (n : Nat) (hrule : C18.usesRunLen n (ps[r]'h.hr).count = true)
    (hn : n = othersOf ps r + (ps[r]'h.hr).count)
    (hR : runCount r bs ≤ othersOf ps r + 1) (hW : 12 ≤ W) :
    (encBody ps bs).length ≤ n * (W + 1) + 7 := by
  obtain ⟨hn1, hfifth, -⟩ := others_le_fifth n _ _ hrule hn
  have h1 := c14_sparse_general W ps r bs h E hcodes hc1 hc2 n hfifth hR
  have e2 : n * (W + 52) = n * W + n * 52 := Nat.mul_add ..
  have e3 : n * (W + 1) = n * W + n * 1 := Nat.mul_add ..
  have h3 : n * 12 ≤ n * W := Nat.mul_le_mul_left n hW
  omega

/-! ### 3: the greedy grouping -/

/-- **maximal runs are separated by at least one other block**: the greedy grouping makes at most
one more run of the run-length prefix `r` than blocks of the other prefixes -/
theorem runs_le_others_succ (ps : List Prefix) (r j : Nat) (hr : r < ps.length) (hj : ps[r].jump = some j)
    (us : List Nat) (bs : List Block) (h : greedyBlocks ps us.length us = some bs) :
    runCount r bs ≤ otherCount r bs + 1 :=
  (greedy_runs_le ps r j hr hj us.length us bs h).1

/-- the greedy blocks of a table whose only run-length prefix `r` is single-valued have the shape
`Sparse` asks for; what remains to be checked per file is the table (bounds, disjointness) and the
truthful counts -/
theorem sparse_of_greedy (W : Nat) (ps : List Prefix) (r j : Nat) (us : List Nat) (bs : List Block)
    (hb : boundsOk ps = true) (hd : disjointB ps = true) (hu : ∀ p ∈ ps, p.upper < 2 ^ W)
    (hr : r < ps.length) (hj : ps[r].jump = some j) (hj24 : j ≤ 24) (hs : ps[r].lower = ps[r].upper)
    (hnoj : ∀ i (hi : i < ps.length), i ≠ r → ps[i].jump = none)
    (hg : greedyBlocks ps us.length us = some bs)
    (hcount : ∀ p (hp : p < ps.length), p ≠ r → (bs.filter fun b => b.pidx == p).length = ps[p].count) :
    Sparse W ps r bs ∧ runCount r bs ≤ othersOf ps r + 1 := by
  obtain ⟨h1, h2⟩ := greedy_sparse_shape ps r j hr hj hs hnoj us.length us bs hg
  have hS : Sparse W ps r bs := ⟨hb, hd, hu, hr, ⟨j, hj, hj24⟩, hs, h1, h2, hcount⟩
  refine ⟨hS, ?_⟩
  rw [← hS.otherCount_eq]
  exact runs_le_others_succ ps r j hr hj us bs hg

/-- when the other prefixes have a positive total count there is another prefix -/
theorem two_le_of_others (ps : List Prefix) (r : Nat) (hr : r < ps.length) (ho : 1 ≤ othersOf ps r) :
    2 ≤ ps.length := by
  apply Classical.byContradiction
  intro hlt
  have hlen : ps.length = 1 := by omega
  match ps, hlen, hr with
  | [q], _, hr =>
    have : r = 0 := by simpa using hr
    subst this
    simp [othersOf] at ho

/-- **C14 for the greedy body of sparse data**, everything together: the table's only run-length
prefix is single-valued, the run-length rule fired, the codes are an answer of `make_huffman_code`
for the weights `counts[r ↦ E]` with `E` more than half the others' total count; then the body takes
at most `W + 5` bits per number (`W ≥ 8`) -/
theorem c14_sparse_greedy (W : Nat) (ps : List Prefix) (r j : Nat) (us : List Nat) (bs : List Block)
    (hb : boundsOk ps = true) (hd : disjointB ps = true) (hu : ∀ p ∈ ps, p.upper < 2 ^ W)
    (hr : r < ps.length) (hj : ps[r].jump = some j) (hj24 : j ≤ 24) (hs : ps[r].lower = ps[r].upper)
    (hnoj : ∀ i (hi : i < ps.length), i ≠ r → ps[i].jump = none)
    (hg : greedyBlocks ps us.length us = some bs)
    (hcount : ∀ p (hp : p < ps.length), p ≠ r → (bs.filter fun b => b.pidx == p).length = ps[p].count)
    (E : Nat) (hc : HuffCode ((ps.map (·.count)).set r E) (ps.map (·.code)))
    (hheavy : othersOf ps r < 2 * E)
    (n : Nat) (hrule : C18.usesRunLen n ps[r].count = true) (hn : n = othersOf ps r + ps[r].count)
    (hW : 8 ≤ W) :
    (encBody ps bs).length ≤ n * (W + 5) := by
  obtain ⟨hS, hR⟩ := sparse_of_greedy W ps r j us bs hb hd hu hr hj hj24 hs hnoj hg hcount
  obtain ⟨-, -, ho⟩ := others_le_fifth n _ _ hrule hn
  have h2 := two_le_of_others ps r hr ho
  obtain ⟨h1, h3, h4⟩ := codes_of_huffCode ps r hr E hc hheavy h2
  exact c14_sparse_w8 W ps r bs hS E h1 h3 h4 n hrule hn hR hW

/-- the counts assumed by `Sparse` and by `c14_sparse`, from the chunk-level predicates of C10
(`disjointB`, `coverB`, `countsB` on the numbers `us` the body codes): the greedy grouping makes one
single block per number of a prefix without jumpstart, and the counts add up to `us.length` -/
theorem counts_of_wfc (ps : List Prefix) (r : Nat) (us : List Nat) (bs : List Block)
    (hd : disjointB ps = true) (hcov : coverB ps us = true) (hcnt : countsB ps us = true)
    (hr : r < ps.length) (hnoj : ∀ i (hi : i < ps.length), i ≠ r → ps[i].jump = none)
    (hg : greedyBlocks ps us.length us = some bs) :
    (∀ p (hp : p < ps.length), p ≠ r → (bs.filter fun b => b.pidx == p).length = ps[p].count) ∧
      us.length = othersOf ps r + ps[r].count := by
  constructor
  · intro p hp hpr
    rw [greedy_counts ps hd us.length us bs hg p hp (hnoj p hp hpr)]
    simp only [countsB, List.all_eq_true, beq_iff_eq] at hcnt
    exact (hcnt ps[p] (List.getElem_mem _)).symm
  · rw [← sum_counts_eq_length ps us hd hcov hcnt,
      sum_eq_getElem_add_eraseIdx (ps.map (·.count)) r (by simpa using hr)]
    simp only [List.getElem_map, othersOf]
    omega

/-- **C14 for sparse data, from the chunk-level predicates**: a chunk of `us.length` numbers whose
table (pairwise-disjoint ranges inside `[0, 2^W)` covering the numbers, truthful counts) has a
single-valued prefix `r` as its only run-length prefix, on which the run-length rule fired; the body
is the greedy grouping; the codes are any answer of `make_huffman_code` for the counts with `r`'s
replaced by a weight `E` that is more than half the others' total. Then the body takes at most
`W + 5` bits per number, for `W ≥ 8` -/
theorem c14_sparse_wfc (W : Nat) (ps : List Prefix) (r j : Nat) (us : List Nat) (bs : List Block)
    (hb : boundsOk ps = true) (hd : disjointB ps = true) (hu : ∀ p ∈ ps, p.upper < 2 ^ W)
    (hcov : coverB ps us = true) (hcnt : countsB ps us = true)
    (hr : r < ps.length) (hj : ps[r].jump = some j) (hj24 : j ≤ 24) (hs : ps[r].lower = ps[r].upper)
    (hnoj : ∀ i (hi : i < ps.length), i ≠ r → ps[i].jump = none)
    (hg : greedyBlocks ps us.length us = some bs)
    (E : Nat) (hc : HuffCode ((ps.map (·.count)).set r E) (ps.map (·.code)))
    (hheavy : othersOf ps r < 2 * E)
    (hrule : C18.usesRunLen us.length ps[r].count = true) (hW : 8 ≤ W) :
    (encBody ps bs).length ≤ us.length * (W + 5) := by
  obtain ⟨hcount, hn⟩ := counts_of_wfc ps r us bs hd hcov hcnt hr hnoj hg
  exact c14_sparse_greedy W ps r j us bs hb hd hu hr hj hj24 hs hnoj hg hcount E hc hheavy us.length hrule hn hW

/-- the same with the bound of `C14h.body_bound`, for `W ≥ 12` -/
theorem c14_sparse_wfc_w12 (W : Nat) (ps : List Prefix) (r j : Nat) (us : List Nat) (bs : List Block)
    (hb : boundsOk ps = true) (hd : disjointB ps = true) (hu : ∀ p ∈ ps, p.upper < 2 ^ W)
    (hcov : coverB ps us = true) (hcnt : countsB ps us = true)
    (hr : r < ps.length) (hj : ps[r].jump = some j) (hj24 : j ≤ 24) (hs : ps[r].lower = ps[r].upper)
    (hnoj : ∀ i (hi : i < ps.length), i ≠ r → ps[i].jump = none)
    (hg : greedyBlocks ps us.length us = some bs)
    (E : Nat) (hc : HuffCode ((ps.map (·.count)).set r E) (ps.map (·.code)))
    (hheavy : othersOf ps r < 2 * E)
    (hrule : C18.usesRunLen us.length ps[r].count = true) (hW : 12 ≤ W) :
    (encBody ps bs).length ≤ us.length * (W + 1) + 7 := by
  obtain ⟨hcount, hn⟩ := counts_of_wfc ps r us bs hd hcov hcnt hr hnoj hg
  obtain ⟨hS, hR⟩ := sparse_of_greedy W ps r j us bs hb hd hu hr hj hj24 hs hnoj hg hcount
  have h2 := two_le_of_others ps r hr (others_le_fifth us.length _ _ hrule hn).2.2
  obtain ⟨h1, h3, h4⟩ := codes_of_huffCode ps r hr E hc hheavy h2
  exact c14_sparse_w12 W ps r bs hS E h1 h3 h4 us.length hrule hn hR hW

/-! ### 4: the hypotheses are satisfiable -/

/-- three prefixes in `[0, 16)`: the dominant single value 5 (jumpstart 2), two other ranges -/
def exPs : List Prefix := [
  { count := 8, lower := 5, upper := 5, code := [false], jump := some 2, gcd := 1 },
  { count := 2, lower := 6, upper := 9, code := [true, false], jump := none, gcd := 1 },
  { count := 1, lower := 12, upper := 14, code := [true, true], jump := none, gcd := 2 } ]

/-- eleven numbers: runs of 4, 3 and 1 copies of the value 5, separated by three other numbers -/
def exUs : List Nat := [5, 5, 5, 5, 7, 5, 5, 5, 14, 5, 6]

def exBs : List Block :=
  [.run 0 0 [0, 0, 0], .one 1 1, .run 0 0 [0, 0], .one 2 1, .run 0 0 [], .one 1 0]

example : greedyBlocks exPs exUs.length exUs = some exBs := by decide

theorem exSparse : Sparse 4 exPs 0 exBs :=
  ⟨by decide, by decide, by decide, by decide, ⟨2, by decide, by decide⟩, by decide, by decide, by decide,
    by decide⟩

/-- with the weight `E = 2` for the dominant value (its 3 runs, estimated), the table's codes cost
what Huffman's do; `E` is more than half of the 3 other numbers but not more than them -/
example : weightedLen ((exPs.map (·.count)).set 0 2) (exPs.map (·.code)) = huffCost ((exPs.map (·.count)).set 0 2)
    ∧ othersOf exPs 0 = 3 ∧ runCount 0 exBs = 3 ∧ othersOf exPs 0 < 2 * 2 ∧ ¬ othersOf exPs 0 < 2 := by decide

example : (encBody exPs exBs).length ≤ othersOf exPs 0 * (4 + 2) + runCount 0 exBs * 50 + 7 :=
  sparse_body_bound 4 exPs 0 exBs exSparse 2 (by decide) (by decide) (by decide)

example : (encBody exPs exBs).length ≤ (4 + 8) * othersOf exPs 0 + 52 * runCount 0 exBs :=
  c18_sparse 4 exPs 0 exBs exSparse 2 (by decide) (by decide) (by decide) (by decide)

/-- the actual size: 3 runs of 1 + 3 bits (code, 2 low bits and a terminator), 3 numbers of 2 code
bits and 2, 2 and 1 offset bits, padded to 24 bits -/
example : (encBody exPs exBs).length = 24 ∧ runCount 0 exBs ≤ othersOf exPs 0 + 1 := by decide

example : Sparse 4 exPs 0 exBs ∧ runCount 0 exBs ≤ othersOf exPs 0 + 1 :=
  sparse_of_greedy 4 exPs 0 2 exUs exBs (by decide) (by decide) (by decide) (by decide) (by decide) (by decide)
    (by decide) (by decide) (by decide) (by decide)

/-- the chunk-level predicates hold for the example, so its counts are consequences -/
example : (∀ p (hp : p < exPs.length), p ≠ 0 → (exBs.filter fun b => b.pidx == p).length = exPs[p].count) ∧
    exUs.length = othersOf exPs 0 + exPs[0].count :=
  counts_of_wfc exPs 0 exUs exBs (by decide) (by decide) (by decide) (by decide) (by decide) (by decide)

/-- the same table with the counts of a chunk on which the run-length rule fires: 1000 copies of the
dominant value among 1003 numbers (the hypotheses of `c14_sparse` do not look at the lengths of the
runs, only at the table's count) -/
def exPsBig : List Prefix := [
  { count := 1000, lower := 5, upper := 5, code := [false], jump := some 2, gcd := 1 },
  { count := 2, lower := 6, upper := 9, code := [true, false], jump := none, gcd := 1 },
  { count := 1, lower := 12, upper := 14, code := [true, true], jump := none, gcd := 2 } ]

theorem exSparseBig : Sparse 9 exPsBig 0 exBs :=
  ⟨by decide, by decide, by decide, by decide, ⟨2, by decide, by decide⟩, by decide, by decide, by decide,
    by decide⟩

example : (encBody exPsBig exBs).length ≤ 1003 * (9 + 4) :=
  c14_sparse 9 exPsBig 0 exBs exSparseBig 2 (by decide) (by decide) (by decide) 1003 (by decide) (by decide)
    (by decide) (by decide)

end C18s
end Qco
