/-
Layer S, bits: MSB-first bit lists, fixed-width naturals.
Import-free on purpose (the driver executable links against it).
-/
namespace Qco

abbrev Bits := List Bool

/-- `w`-bit big-endian representation of `v mod 2^w` (most significant bit first). -/
def natBits : Nat → Nat → Bits
  | 0, _ => []
  | w+1, v => natBits w (v / 2) ++ [v % 2 == 1]

/-- value of a big-endian bit list -/
def bitsNat (bs : Bits) : Nat := bs.foldl (fun a b => 2 * a + b.toNat) 0

@[simp] theorem natBits_length (w v : Nat) : (natBits w v).length = w := by
  induction w generalizing v with
  | zero => rfl
  | succ w ih => simp [natBits, ih]

@[simp] theorem bitsNat_nil : bitsNat [] = 0 := rfl

theorem bitsNat_snoc (bs : Bits) (b : Bool) : bitsNat (bs ++ [b]) = 2 * bitsNat bs + b.toNat := by
  simp [bitsNat, List.foldl_append]

theorem bitsNat_natBits (w v : Nat) : bitsNat (natBits w v) = v % 2^w := by
  induction w generalizing v with
  | zero => simp [natBits, Nat.mod_one]
  | succ w ih =>
    rw [natBits, bitsNat_snoc, ih, Nat.pow_succ, Nat.mul_comm (2^w) 2, Nat.mod_mul]
    have : (v % 2 == 1).toNat = v % 2 := by
      have : v % 2 = 0 ∨ v % 2 = 1 := by omega
      rcases this with h | h <;> simp [h]
    omega

theorem bitsNat_natBits_of_lt {w v : Nat} (h : v < 2^w) : bitsNat (natBits w v) = v := by
  rw [bitsNat_natBits, Nat.mod_eq_of_lt h]

end Qco
