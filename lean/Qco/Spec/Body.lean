import Qco.Spec.Prim
import Qco.Op.Units
/-
Layer S, chunk body: block-wise encoder, unit-wise decoder, round trip.
-/
namespace Qco
open Parser

structure PInfo where
  lower : Nat
  gcd : Nat
  r : Nat            -- (upper − lower) / gcd
  k : Nat            -- ⌊log2 (r+1)⌋
  jump : Option Nat
  deriving Repr, Inhabited

structure Table where
  codes : List Bits
  infos : List PInfo

def Table.info (t : Table) (p : Nat) : PInfo := t.infos.getD p default
def Table.code (t : Table) (p : Nat) : Bits := t.codes.getD p []

def PInfo.val (i : PInfo) (off : Nat) : Nat := i.lower + off * i.gcd

inductive Block where
  | one (p : Nat) (off : Nat)
  | run (p : Nat) (off0 : Nat) (offs : List Nat)      -- reps = 1 + offs.length
  deriving Repr

def nEntriesBits : Nat := 24

def encOffsets (i : PInfo) : List Nat → Bits
  | [] => []
  | o :: os => encOffset i.r i.k o ++ encOffsets i os

def encBlock (t : Table) : Block → Bits
  | .one p off => t.code p ++ encOffset (t.info p).r (t.info p).k off
  | .run p off0 offs =>
      t.code p ++ (encVarint nEntriesBits ((t.info p).jump.getD 0) offs.length
        ++ (encOffset (t.info p).r (t.info p).k off0 ++ encOffsets (t.info p) offs))

def encBlocks (t : Table) : List Block → Bits
  | [] => []
  | b :: bs => encBlock t b ++ encBlocks t bs

def blockNums (t : Table) : Block → List Nat
  | .one p off => [(t.info p).val off]
  | .run p off0 offs => (t.info p).val off0 :: offs.map (t.info p).val

def blocksNums (t : Table) : List Block → List Nat
  | [] => []
  | b :: bs => blockNums t b ++ blocksNums t bs

/-- decoder state between units: a run in progress -/
abbrev UState := Option (Nat × Nat)    -- (prefix index, remaining reps ≥ 1)

def unit (t : Table) : UState → Parser (Nat × UState)
  | some (p, rem) =>
      Parser.bind (decOffset (t.info p).r (t.info p).k) fun off =>
        Parser.pure ((t.info p).val off, if rem ≤ 1 then none else some (p, rem - 1))
  | none =>
      Parser.bind (matchCode t.codes) fun p =>
        match (t.info p).jump with
        | none => Parser.bind (decOffset (t.info p).r (t.info p).k) fun off =>
            Parser.pure ((t.info p).val off, none)
        | some j => Parser.bind (decVarint nEntriesBits j) fun m =>
            Parser.bind (decOffset (t.info p).r (t.info p).k) fun off =>
              Parser.pure ((t.info p).val off, if m = 0 then none else some (p, m))

structure PInfo.WF (i : PInfo) : Prop where
  k_lo : 2^i.k ≤ i.r + 1
  k_hi : i.r + 1 < 2^(i.k+1)
  jump_le : ∀ j, i.jump = some j → j ≤ nEntriesBits

def Block.WF (t : Table) : Block → Prop
  | .one p off => p < t.codes.length ∧ (t.info p).jump = none ∧ off ≤ (t.info p).r
  | .run p off0 offs => p < t.codes.length ∧ (t.info p).jump.isSome ∧ off0 ≤ (t.info p).r ∧
      (∀ o ∈ offs, o ≤ (t.info p).r) ∧ offs.length < 2^nEntriesBits

structure Table.WF (t : Table) : Prop where
  pf : PrefixFree t.codes
  infos : ∀ p, p < t.codes.length → (t.info p).WF

theorem code_eq (t : Table) (p : Nat) (h : p < t.codes.length) : t.code p = t.codes[p] := by
  simp [Table.code, List.getD_eq_getElem?_getD, h]

/-- decoding the remaining offsets of a run in progress -/
theorem iter_run_tail (t : Table) (ht : t.WF) (p : Nat) (hp : p < t.codes.length)
    (offs : List Nat) (ho : ∀ o ∈ offs, o ≤ (t.info p).r) (hne : offs ≠ []) (rest : Bits) :
    iterUnits (unit t) offs.length (some (p, offs.length)) (encOffsets (t.info p) offs ++ rest)
      = .ok (offs.map (t.info p).val, none) rest := by
  have hi := ht.infos p hp
  induction offs with
  | nil => exact absurd rfl hne
  | cons o os ih =>
    have ho1 : o ≤ (t.info p).r := ho o (List.mem_cons_self)
    have hos : ∀ o' ∈ os, o' ≤ (t.info p).r := fun o' h => ho o' (List.mem_cons_of_mem _ h)
    simp only [List.length_cons, iterUnits, unit, encOffsets, List.append_assoc, Parser.bind,
      decOffset_enc _ _ _ hi.k_lo hi.k_hi ho1, Parser.pure]
    cases os with
    | nil => simp [iterUnits, Parser.pure, encOffsets]
    | cons o2 os2 =>
      have hlen : ¬ ((o2 :: os2).length + 1 ≤ 1) := by simp
      simp only [hlen, if_false, Nat.add_sub_cancel]
      rw [ih hos (by simp)]
      simp

theorem iter_block (t : Table) (ht : t.WF) (b : Block) (hb : b.WF t) (rest : Bits) :
    iterUnits (unit t) (blockNums t b).length none (encBlock t b ++ rest) = .ok (blockNums t b, none) rest := by
  cases b with
  | one p off =>
    obtain ⟨hp, hj, ho⟩ := hb
    have hi := ht.infos p hp
    simp only [blockNums, List.length_singleton, iterUnits, unit, encBlock, List.append_assoc, Parser.bind,
      code_eq t p hp, matchCode_code t.codes ht.pf p hp, hj, decOffset_enc _ _ _ hi.k_lo hi.k_hi ho, Parser.pure]
  | run p off0 offs =>
    obtain ⟨hp, hj, ho0, hos, hlen⟩ := hb
    have hi := ht.infos p hp
    obtain ⟨j, hjj⟩ := Option.isSome_iff_exists.mp hj
    have hjle := hi.jump_le j hjj
    simp only [blockNums, List.length_cons, List.length_map, iterUnits, unit, encBlock, List.append_assoc,
      Parser.bind, code_eq t p hp, matchCode_code t.codes ht.pf p hp, hjj, Option.getD_some,
      decVarint_enc nEntriesBits j offs.length hjle hlen, decOffset_enc _ _ _ hi.k_lo hi.k_hi ho0, Parser.pure]
    cases offs with
    | nil => simp [iterUnits, Parser.pure, encOffsets]
    | cons o os =>
      have hne : (o :: os).length ≠ 0 := by simp
      simp only [hne, if_false]
      rw [iter_run_tail t ht p hp (o :: os) hos (by simp) rest]

end Qco

namespace Qco
open Parser

theorem iterUnits_succ {σ : Type} (u : σ → Parser (Nat × σ)) (n : Nat) (st : σ) (s : Bits) :
    iterUnits u (n+1) st s =
      match u st s with
      | .ok (x, st1) r =>
        (match iterUnits u n st1 r with
         | .ok (xs, st2) r2 => .ok (x :: xs, st2) r2
         | .insufficient => .insufficient
         | .corrupt => .corrupt
         | .compat => .compat)
      | .insufficient => .insufficient
      | .corrupt => .corrupt
      | .compat => .compat := by
  simp only [iterUnits, Parser.bind, Parser.pure]
  cases u st s with
  | ok v r =>
    obtain ⟨x, st1⟩ := v
    simp only
    cases iterUnits u n st1 r with
    | ok w r2 => obtain ⟨xs, st2⟩ := w; rfl
    | insufficient => rfl
    | corrupt => rfl
    | compat => rfl
  | insufficient => rfl
  | corrupt => rfl
  | compat => rfl

theorem iterUnits_add {σ : Type} (u : σ → Parser (Nat × σ)) (a b : Nat) (st : σ) (s : Bits)
    (xs : List Nat) (st1 : σ) (r1 : Bits) (h1 : iterUnits u a st s = .ok (xs, st1) r1)
    (ys : List Nat) (st2 : σ) (r2 : Bits) (h2 : iterUnits u b st1 r1 = .ok (ys, st2) r2) :
    iterUnits u (a + b) st s = .ok (xs ++ ys, st2) r2 := by
  induction a generalizing st s xs with
  | zero =>
    simp only [iterUnits, Parser.pure] at h1
    injection h1 with h1a h1b
    injection h1a with hx hs
    subst hx; subst hs; subst h1b
    simpa using h2
  | succ a ih =>
    have : a + 1 + b = (a + b) + 1 := by omega
    rw [this, iterUnits_succ]
    rw [iterUnits_succ] at h1
    cases hu : u st s with
    | ok v r =>
      obtain ⟨x, stx⟩ := v
      rw [hu] at h1; simp only at h1 ⊢
      cases hit : iterUnits u a stx r with
      | ok w r' =>
        obtain ⟨xs', st'⟩ := w
        rw [hit] at h1; simp only at h1
        injection h1 with h1a h1b
        injection h1a with hx hs
        subst hx; subst hs; subst h1b
        rw [ih stx r xs' hit]
        simp
      | insufficient => rw [hit] at h1; simp at h1
      | corrupt => rw [hit] at h1; simp at h1
      | compat => rw [hit] at h1; simp at h1
    | insufficient => rw [hu] at h1; simp at h1
    | corrupt => rw [hu] at h1; simp at h1
    | compat => rw [hu] at h1; simp at h1

/-- S1 at body level: unit-wise decoding inverts block-wise encoding, for every well-formed table
and every legal grouping into blocks. -/
theorem iter_blocks (t : Table) (ht : t.WF) (bs : List Block) (hb : ∀ b ∈ bs, b.WF t) (rest : Bits) :
    iterUnits (unit t) (blocksNums t bs).length none (encBlocks t bs ++ rest)
      = .ok (blocksNums t bs, none) rest := by
  induction bs with
  | nil => simp [blocksNums, encBlocks, iterUnits, Parser.pure]
  | cons b bs ih =>
    have hb1 := hb b List.mem_cons_self
    have hbs : ∀ b' ∈ bs, b'.WF t := fun b' h => hb b' (List.mem_cons_of_mem _ h)
    simp only [blocksNums, encBlocks, List.length_append, List.append_assoc]
    exact iterUnits_add _ _ _ _ _ _ _ _ (iter_block t ht b hb1 (encBlocks t bs ++ rest)) _ _ _ (ih hbs)

end Qco
