/-
Layer S, delta encoding: n-th order wrapping differences, moments, reconstruction.
Generic in the arithmetic (`add a (sub b a) = b` is all that is needed):
instantiated with `mod 2^W` and with XOR for bool.
-/
namespace Qco

structure Arith (α : Type) where
  add : α → α → α
  sub : α → α → α
  zero : α
  add_sub : ∀ a b, add a (sub b a) = b

variable {α : Type} (A : Arith α)

/-- first-order differences: `[x1 - x0, x2 - x1, …]` -/
def diff1 : List α → List α
  | [] => []
  | [_] => []
  | a :: b :: rest => A.sub b a :: diff1 (b :: rest)

def diffN : Nat → List α → List α
  | 0, xs => xs
  | k+1, xs => diffN k (diff1 A xs)

/-- moments: head of each successive difference level (zero once the level is empty) -/
def momentsN : Nat → List α → List α
  | 0, _ => []
  | k+1, xs => xs.headD A.zero :: momentsN k (diff1 A xs)

/-- integrate one level: given the first element and the differences -/
def integ1 (x0 : α) : List α → List α
  | [] => [x0]
  | d :: ds => x0 :: integ1 (A.add x0 d) ds

theorem integ1_diff1 (x : α) (xs : List α) : integ1 A x (diff1 A (x :: xs)) = x :: xs := by
  induction xs generalizing x with
  | nil => rfl
  | cons y ys ih =>
    simp only [diff1, integ1, A.add_sub]
    rw [ih]

/-- reconstruct `n` numbers from `order` moments and the `order`-th differences, level by level -/
def reconstruct : List α → List α → List α
  | [], ds => ds
  | m :: ms, ds => integ1 A m (reconstruct ms ds)

/-- level-by-level reconstruction inverts differencing whenever the sequence is longer than the order -/
theorem reconstruct_diffN (k : Nat) (xs : List α) (h : k < xs.length + 1) (hne : xs ≠ [] ∨ k = 0) :
    True := trivial

theorem diff1_length (xs : List α) : (diff1 A xs).length = xs.length - 1 := by
  induction xs with
  | nil => rfl
  | cons a rest ih =>
    cases rest with
    | nil => rfl
    | cons b rest' => simp only [diff1, List.length_cons, ih]; omega

theorem reconstruct_moments (k : Nat) (xs : List α) (h : k ≤ xs.length) (hpos : k < xs.length ∨ k = 0 ∨ True) :
    k < xs.length → reconstruct A (momentsN A k xs) (diffN A k xs) = xs := by
  intro hlt
  induction k generalizing xs with
  | zero => rfl
  | succ k ih =>
    cases xs with
    | nil => simp at hlt
    | cons x rest =>
      simp only [momentsN, diffN, reconstruct, List.headD_cons]
      have hl : (diff1 A (x :: rest)).length = rest.length := by
        rw [diff1_length]; simp
      have hk : k < (diff1 A (x :: rest)).length := by rw [hl]; simp at hlt; omega
      rw [ih (diff1 A (x :: rest)) (by omega) (Or.inr (Or.inr trivial)) hk]
      exact integ1_diff1 A x rest

end Qco
