/-
Layer S: the .qco file format — abstract syntax, total decoder, total encoder.
Written from the format description (DESIGN.md, Appendix F); shares no code with the library.
Parametric in `gb : Nat → Nat`, the width of the GCD field as a function of the range (deployed
readers compute it with `f64` arithmetic; no theorem depends on what it is).
Import-free apart from the model's own files.
-/
import Qco.Spec.Body
import Qco.Spec.Delta
import Qco.Spec.Format
namespace Qco
open Parser

/-! ### small utilities -/

/-- `⌈log2 n⌉` (0 for `n ≤ 1`) -/
def clog2 (n : Nat) : Nat := if n ≤ 1 then 0 else Nat.log2 (n - 1) + 1

def Parser.map (g : α → β) (p : Parser α) : Parser β := Parser.bind p fun a => Parser.pure (g a)

/-- run `p` a fixed number of times -/
def Parser.rep (p : Parser α) : Nat → Parser (List α)
  | 0 => Parser.pure []
  | n+1 => Parser.bind p fun a => Parser.bind (Parser.rep p n) fun as => Parser.pure (a :: as)

/-- run `p`, then consume zero bits up to the next multiple of 8 of the bits consumed by `p`;
non-zero padding is corruption -/
def Parser.aligned (p : Parser α) : Parser α := fun s =>
  match p s with
  | .ok a r =>
    let pad := (8 - (s.length - r.length) % 8) % 8
    (Parser.bind (readBits pad) fun z => if z.any id then Parser.corrupt else Parser.pure a) r
  | .insufficient => .insufficient
  | .corrupt => .corrupt
  | .compat => .compat

/-! ### abstract syntax -/

structure Flags where
  use5 : Bool
  order : Nat
  minCount : Bool
  gcds : Bool
  deriving DecidableEq, Repr, Inhabited

structure Prefix where
  count : Nat
  /-- bounds in the unsigned domain -/
  lower : Nat
  upper : Nat
  code : Bits
  jump : Option Nat
  gcd : Nat
  deriving DecidableEq, Repr, Inhabited

structure ChunkMeta where
  n : Nat
  bodyBytes : Nat
  /-- delta moments as patterns of the signed companion; length = delta order -/
  moments : List Nat
  /-- `some g` iff the table carries the common-GCD field (only when `flags.gcds`) -/
  commonGcd : Option Nat
  prefixes : List Prefix
  deriving DecidableEq, Repr, Inhabited

/-- a decoded chunk: metadata and the body's numbers in the unsigned domain -/
structure DChunk where
  cm : ChunkMeta
  us : List Nat
  deriving DecidableEq, Repr, Inhabited

structure DFile where
  flags : Flags
  chunks : List DChunk
  deriving DecidableEq, Repr, Inhabited

/-! ### flags -/

def bitsToNat (bs : Bits) : Nat := bitsNat bs

/-- flag bit groups: 7 bits + continuation bit per byte -/
def decFlagBits : Nat → Parser Bits
  | 0 => fun _ => .insufficient
  | fuel+1 => Parser.bind (readBits 7) fun b => Parser.bind readBit fun c =>
      if c then Parser.bind (decFlagBits fuel) fun rest => Parser.pure (b ++ rest) else Parser.pure b

/-- the six known flags from the flag bits; `none` iff a bit this version does not define is set -/
def flagsFields (bs : Bits) : Option Flags :=
  if (bs.drop 6).any id then none
  else some {
    use5 := bs.getD 0 false
    order := (bs.getD 1 false).toNat * 4 + (bs.getD 2 false).toNat * 2 + (bs.getD 3 false).toNat
    minCount := bs.getD 4 false
    gcds := bs.getD 5 false }

def flagsOfBits (bs : Bits) : Parser Flags :=
  match flagsFields bs with
  | none => Parser.compat
  | some f => Parser.pure f

def decFlags : Parser Flags := fun s =>
  (Parser.bind (decFlagBits (s.length / 8 + 1)) flagsOfBits) s

def Flags.bits (f : Flags) : Bits :=
  [f.use5, f.order / 4 % 2 == 1, f.order / 2 % 2 == 1, f.order % 2 == 1, f.minCount, f.gcds]

/-- drop trailing `false`s -/
def trimFalse : Bits → Bits
  | [] => []
  | b :: bs => match trimFalse bs with
    | [] => if b then [b] else []
    | r => b :: r

/-- the six known flags fit the first byte; the writer trims trailing zeros and pads to a byte -/
def encFlags (f : Flags) : Bits :=
  let t := trimFalse f.bits
  t ++ List.replicate (8 - t.length) false

/-! ### chunk metadata -/

def Flags.codeLenBits (f : Flags) : Nat := if f.use5 then 5 else 4
def Flags.countBits (f : Flags) (n : Nat) : Nat := if f.minCount then clog2 (n + 1) else Frozen.bitsNEntries

def decGcd (gb : Nat → Nat) (range : Nat) : Parser Nat :=
  Parser.bind readBit fun nt =>
    if nt then Parser.bind (readNat (gb range)) fun g1 =>
      if g1 ≥ range then Parser.corrupt else Parser.pure (g1 + 1)
    else Parser.pure 1

def encGcd (gb : Nat → Nat) (range g : Nat) : Bits :=
  if g = 1 then [false] else true :: natBits (gb range) (g - 1)

/-- a raw `P`-bit bound, mapped to the unsigned domain -/
def decBound (d : DType) : Parser Nat :=
  Parser.bind (readNat d.physBits) fun raw =>
    match d.rawToU raw with
    | some u => Parser.pure u
    | none => Parser.corrupt

def decPrefix (gb : Nat → Nat) (d : DType) (fl : Flags) (n : Nat) (common : Option Nat) : Parser Prefix :=
  Parser.bind (readNat (fl.countBits n)) fun count =>
  Parser.bind (decBound d) fun lower =>
  Parser.bind (decBound d) fun upper =>
  if lower > upper then Parser.corrupt else
  Parser.bind (readNat fl.codeLenBits) fun clen =>
  Parser.bind (readBits clen) fun code =>
  Parser.bind readBit fun hj =>
  Parser.bind (if hj then Parser.map some (readNat Frozen.bitsJumpstart) else Parser.pure none) fun jump =>
  Parser.bind (match common with
    | some g => Parser.pure g
    | none => decGcd gb (upper - lower)) fun gcd =>
  Parser.pure { count, lower, upper, code, jump, gcd }

/-- `(commonGcd field, prefixes)`; `d` is the type of the bounds (the signed companion under delta) -/
def decPrefixes (gb : Nat → Nat) (d : DType) (fl : Flags) (n : Nat) : Parser (Option Nat × List Prefix) :=
  Parser.bind (readNat Frozen.bitsNPrefixes) fun nPref =>
  Parser.bind (if fl.gcds then
      Parser.bind readBit fun hc =>
        if hc then Parser.map some (decGcd gb (d.M - 1)) else Parser.pure none
    else Parser.pure none) fun commonField =>
  let common : Option Nat := if fl.gcds then commonField else some 1
  Parser.bind (Parser.rep (decPrefix gb d fl n common) nPref) fun ps =>
  Parser.pure (commonField, ps)

/-- a delta moment: raw bits of the signed companion, as a pattern of the signed companion -/
def decMoment (ds : DType) : Parser Nat :=
  Parser.bind (decBound ds) fun u => Parser.pure (ds.fromU u)

def prefDType (d : DType) (fl : Flags) : DType := if fl.order = 0 then d else d.signed

def decChunkMeta (gb : Nat → Nat) (d : DType) (fl : Flags) : Parser ChunkMeta :=
  Parser.aligned (
    Parser.bind (readNat Frozen.bitsNEntries) fun n =>
    Parser.bind (readNat Frozen.bitsBodySize) fun bodyBytes =>
    Parser.bind (Parser.rep (decMoment d.signed) fl.order) fun moments =>
    Parser.bind (decPrefixes gb (prefDType d fl) fl n) fun (commonGcd, prefixes) =>
    Parser.pure { n, bodyBytes, moments, commonGcd, prefixes })

/-! ### prefix table as used by the body -/

def Prefix.info (p : Prefix) : PInfo :=
  let r := (p.upper - p.lower) / p.gcd
  { lower := p.lower, gcd := p.gcd, r := r, k := Nat.log2 (r + 1), jump := p.jump }

def tableOf (ps : List Prefix) : Table := { codes := ps.map (·.code), infos := ps.map (·.info) }

/-- Kraft sum scaled by `2^L`: `Σ 2^(L - len)` -/
def kraftSum (L : Nat) (codes : List Bits) : Nat := (codes.map fun c => 2 ^ (L - c.length)).sum

def maxLen (codes : List Bits) : Nat := codes.foldl (fun m c => max m c.length) 0

/-- is `a` a prefix of `b` -/
def isPre (a b : Bits) : Bool := a.isPrefixOf b

/-- pairwise prefix-freeness, decidable form -/
def prefixFreeB : List Bits → Bool
  | [] => true
  | c :: cs => cs.all (fun c' => !(isPre c c') && !(isPre c' c)) && prefixFreeB cs

/-- complete prefix-free code: pairwise prefix-free and Kraft sum exactly one
(this is what `validate_prefix_tree` accepts) -/
def completeTree (codes : List Bits) : Bool :=
  prefixFreeB codes && kraftSum (maxLen codes) codes == 2 ^ maxLen codes

/-- body count: deltas lose `order` numbers -/
def bodyCount (fl : Flags) (n : Nat) : Nat := n - fl.order

/-! ### chunk body -/

def decBody (m : ChunkMeta) (nBody : Nat) : Parser (List Nat) := fun s =>
  if m.prefixes.isEmpty && nBody > 0 then .corrupt
  else if !m.prefixes.isEmpty && !completeTree (m.prefixes.map (·.code)) then .corrupt
  else
    match Parser.aligned (iterUnits (unit (tableOf m.prefixes)) nBody none) s with
    | .ok (us, _) r =>
      if s.length - r.length = m.bodyBytes * 8 then .ok us r else .corrupt
    | .insufficient => .insufficient
    | .corrupt => .corrupt
    | .compat => .compat

def decChunkRest (gb : Nat → Nat) (d : DType) (fl : Flags) : Parser DChunk :=
  Parser.bind (decChunkMeta gb d fl) fun m =>
  Parser.bind (decBody m (bodyCount fl m.n)) fun us =>
  Parser.pure { cm := m, us := us }

/-- chunks until the termination byte; fuel = an upper bound on the number of chunks -/
def decChunks (gb : Nat → Nat) (d : DType) (fl : Flags) : Nat → Parser (List DChunk)
  | 0 => fun _ => .insufficient
  | fuel+1 => Parser.bind (readNat 8) fun b =>
      if b = Frozen.magicTerminationByte then Parser.pure []
      else if b = Frozen.magicChunkByte then
        Parser.bind (decChunkRest gb d fl) fun c =>
        Parser.bind (decChunks gb d fl fuel) fun cs => Parser.pure (c :: cs)
      else Parser.corrupt

def decHeader (d : DType) : Parser Flags :=
  Parser.bind (readNat 32) fun m =>
  if m ≠ 0x71636f21 then Parser.corrupt else
  Parser.bind (readNat 8) fun b =>
  if b ≠ d.headerByte then Parser.corrupt else decFlags

/-- the whole file; what is left over after the termination byte is returned as the rest -/
def decodeFile (gb : Nat → Nat) (d : DType) : Parser DFile := fun s =>
  (Parser.bind (decHeader d) fun fl =>
   Parser.bind (decChunks gb d fl (s.length / 8 + 1)) fun cs =>
   Parser.pure { flags := fl, chunks := cs }) s

/-! ### from decoded chunks to values -/

/-- streaming reconstruction, exactly as `reconstruct_nums`: emit `moments[0]`, shift, absorb a delta -/
def shiftMoments (ds : DType) : List Nat → List Nat
  | [] => []
  | [a] => [a]
  | a :: b :: rest => ds.sAdd a b :: shiftMoments ds (b :: rest)

def addLast (ds : DType) (delta : Nat) : List Nat → List Nat
  | [] => []
  | [a] => [ds.sAdd a delta]
  | a :: rest => a :: addLast ds delta rest

def reconstructNums (ds : DType) : Nat → List Nat → List Nat → List Nat
  | 0, _, _ => []
  | n+1, moments, deltas =>
    let out := moments.headD 0
    let m1 := shiftMoments ds moments
    match deltas with
    | [] => out :: reconstructNums ds n m1 []
    | dl :: rest => out :: reconstructNums ds n (addLast ds dl m1) rest

/-- the values (patterns) a chunk holds -/
def chunkVals (d : DType) (fl : Flags) (c : DChunk) : List Nat :=
  if fl.order = 0 then c.us.map d.fromU
  else
    let deltas := c.us.map d.signed.fromU
    (reconstructNums d.signed c.cm.n c.cm.moments deltas).map d.fromS

def fileVals (d : DType) (f : DFile) : List (List Nat) := f.chunks.map (chunkVals d f.flags)

/-! ### encoder -/

def bytesBits (bs : List Nat) : Bits := bs.flatMap (natBits 8)

def padToByte (bs : Bits) : Bits := bs ++ List.replicate ((8 - bs.length % 8) % 8) false

def encPrefix (gb : Nat → Nat) (d : DType) (fl : Flags) (n : Nat) (hasCommon : Bool) (p : Prefix) : Bits :=
  natBits (fl.countBits n) p.count ++ natBits d.physBits (d.uToRaw p.lower) ++ natBits d.physBits (d.uToRaw p.upper)
    ++ natBits fl.codeLenBits p.code.length ++ p.code
    ++ (match p.jump with
        | none => [false]
        | some j => true :: natBits Frozen.bitsJumpstart j)
    ++ (if hasCommon then [] else encGcd gb (p.upper - p.lower) p.gcd)

def encPrefixes (gb : Nat → Nat) (d : DType) (fl : Flags) (n : Nat) (common : Option Nat) (ps : List Prefix) : Bits :=
  natBits Frozen.bitsNPrefixes ps.length
    ++ (if fl.gcds then
          match common with
          | some g => true :: encGcd gb (d.M - 1) g
          | none => [false]
        else [])
    ++ ps.flatMap (encPrefix gb d fl n (!fl.gcds || common.isSome))

def encMoment (ds : DType) (m : Nat) : Bits := natBits ds.physBits (ds.uToRaw (ds.toU m))

def encChunkMeta (gb : Nat → Nat) (d : DType) (fl : Flags) (m : ChunkMeta) : Bits :=
  padToByte (natBits Frozen.bitsNEntries m.n ++ natBits Frozen.bitsBodySize m.bodyBytes
    ++ m.moments.flatMap (encMoment d.signed)
    ++ encPrefixes gb (prefDType d fl) fl m.n m.commonGcd m.prefixes)

/-- a chunk of the abstract syntax: metadata (its `bodyBytes` is recomputed) and the body as blocks -/
structure AChunk where
  cm : ChunkMeta
  blocks : List Block
  deriving Repr, Inhabited

structure AFile where
  flags : Flags
  chunks : List AChunk
  deriving Repr, Inhabited

def encBody (ps : List Prefix) (bs : List Block) : Bits := padToByte (encBlocks (tableOf ps) bs)

def AChunk.fixedMeta (c : AChunk) : ChunkMeta :=
  { c.cm with bodyBytes := (encBody c.cm.prefixes c.blocks).length / 8 }

def encChunk (gb : Nat → Nat) (d : DType) (fl : Flags) (c : AChunk) : Bits :=
  natBits 8 Frozen.magicChunkByte ++ encChunkMeta gb d fl c.fixedMeta ++ encBody c.cm.prefixes c.blocks

def encHeader (d : DType) (fl : Flags) : Bits :=
  bytesBits Frozen.magicHeader ++ natBits 8 d.headerByte ++ encFlags fl

def encodeFile (gb : Nat → Nat) (d : DType) (f : AFile) : Bits :=
  encHeader d f.flags ++ f.chunks.flatMap (encChunk gb d f.flags) ++ natBits 8 Frozen.magicTerminationByte

/-- offsets back from unsigned numbers: the decoded view of an abstract chunk -/
def AChunk.toD (c : AChunk) : DChunk :=
  { cm := c.fixedMeta, us := blocksNums (tableOf c.cm.prefixes) c.blocks }

def AFile.toD (f : AFile) : DFile := { flags := f.flags, chunks := f.chunks.map AChunk.toD }

end Qco
