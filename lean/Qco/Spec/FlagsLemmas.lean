/-
Lemmas about the flag section (used by C02 and C16).
-/
import Qco.Spec.File
namespace Qco
open Parser

theorem readBits_exact (b rest : Bits) (n : Nat) (h : b.length = n) : readBits n (b ++ rest) = .ok b rest := by
  subst h; exact readBits_append b rest

/-- one flag byte without continuation -/
theorem decFlagBits_last (fuel : Nat) (b : Bits) (hb : b.length = 7) (rest : Bits) :
    decFlagBits (fuel+1) (b ++ false :: rest) = .ok b rest := by
  simp [decFlagBits, Parser.bind, readBits_exact b (false :: rest) 7 hb, readBit, Parser.pure]

/-- one flag byte with continuation -/
theorem decFlagBits_cont (fuel : Nat) (b : Bits) (hb : b.length = 7) (rest : Bits) :
    decFlagBits (fuel+1) (b ++ true :: rest) =
      match decFlagBits fuel rest with
      | .ok bs r => .ok (b ++ bs) r
      | .insufficient => .insufficient
      | .corrupt => .corrupt
      | .compat => .compat := by
  simp only [decFlagBits, Parser.bind, readBits_exact b (true :: rest) 7 hb, readBit, if_true]
  cases decFlagBits fuel rest <;> simp [Parser.pure]

/-- the writer's flag byte: six flag bits, zero padding, no continuation -/
theorem encFlags_shape : ∀ (u : Bool) (o : Fin 8) (m g : Bool),
    ∃ b : Bits, b.length = 7 ∧ encFlags ⟨u, o.val, m, g⟩ = b ++ [false] ∧ flagsFields b = some ⟨u, o.val, m, g⟩ := by
  intro u o m g
  refine ⟨(encFlags ⟨u, o.val, m, g⟩).take 7, ?_, ?_, ?_⟩
  · revert u o m g; decide
  · revert u o m g; decide
  · revert u o m g; decide

theorem decFlags_encFlags (f : Flags) (h : f.order ≤ 7) (rest : Bits) :
    decFlags (encFlags f ++ rest) = .ok f rest := by
  obtain ⟨u, o, m, g⟩ := f
  obtain ⟨b, hb, he, hf⟩ := encFlags_shape u ⟨o, by simp at h; omega⟩ m g
  simp only at he hf
  unfold decFlags
  rw [he]
  simp only [List.append_assoc, List.singleton_append, Parser.bind, decFlagBits_last _ b hb rest, flagsOfBits, hf, Parser.pure]

end Qco
