/-
Layer S: the constants of the .qco format, *frozen* at this version (hand-written on purpose:
`Qco/Generated/Constants.lean` is re-extracted from /repo on every run and compared with these by
a kernel-checked `decide` in `Qco/Properties/C02.lean`).
-/
import Qco.DType.Maps
namespace Qco
namespace Frozen

def magicHeader : List Nat := [113, 99, 111, 33]   -- "qco!"
def magicChunkByte : Nat := 44
def magicTerminationByte : Nat := 46
def maxDeltaOrder : Nat := 7
def bitsDeltaOrder : Nat := 3
def maxEntries : Nat := 2^24 - 1
def bitsNEntries : Nat := 24
def bitsNPrefixes : Nat := 15
def maxJumpstart : Nat := 24
def bitsJumpstart : Nat := 5
def bitsBodySize : Nat := 32

/-- every format constant in one value, for comparison with the generated ones -/
def format : List Nat :=
  magicHeader ++ [magicChunkByte, magicTerminationByte, maxDeltaOrder, bitsDeltaOrder, maxEntries,
    bitsNEntries, bitsNPrefixes, maxJumpstart, bitsJumpstart, bitsBodySize]

/-- the 15 data types: name, header byte, physical bits, unsigned bits, kind, parts per second -/
def dtypes : List DType := [
  { name := "i64",  headerByte := 1,  physBits := 64,  uBits := 64,  kind := .int,   pps := 0 },
  { name := "u64",  headerByte := 2,  physBits := 64,  uBits := 64,  kind := .uint,  pps := 0 },
  { name := "i32",  headerByte := 3,  physBits := 32,  uBits := 32,  kind := .int,   pps := 0 },
  { name := "u32",  headerByte := 4,  physBits := 32,  uBits := 32,  kind := .uint,  pps := 0 },
  { name := "f64",  headerByte := 5,  physBits := 64,  uBits := 64,  kind := .float, pps := 0 },
  { name := "f32",  headerByte := 6,  physBits := 32,  uBits := 32,  kind := .float, pps := 0 },
  { name := "bool", headerByte := 7,  physBits := 8,   uBits := 8,   kind := .bool,  pps := 0 },
  { name := "nanos96",  headerByte := 8, physBits := 96, uBits := 128, kind := .ts96, pps := 1000000000 },
  { name := "micros96", headerByte := 9, physBits := 96, uBits := 128, kind := .ts96, pps := 1000000 },
  { name := "i128", headerByte := 10, physBits := 128, uBits := 128, kind := .int,   pps := 0 },
  { name := "u128", headerByte := 11, physBits := 128, uBits := 128, kind := .uint,  pps := 0 },
  { name := "u16",  headerByte := 12, physBits := 16,  uBits := 16,  kind := .uint,  pps := 0 },
  { name := "i16",  headerByte := 13, physBits := 16,  uBits := 16,  kind := .int,   pps := 0 },
  { name := "nanos",  headerByte := 14, physBits := 64, uBits := 64, kind := .int,   pps := 1000000000 },
  { name := "micros", headerByte := 15, physBits := 64, uBits := 64, kind := .int,   pps := 1000000 }
]

def dtypeByName (n : String) : Option DType := dtypes.find? (fun d => d.name == n)

end Frozen
end Qco
