import Qco.Spec.Bits
/-
Layer S, parser monad over bit lists with the prefix-safety invariant.
-/
namespace Qco

inductive Res (α : Type) where
  | ok (a : α) (rest : Bits)
  | insufficient
  | corrupt
  | compat
  deriving Repr, DecidableEq

abbrev Parser (α : Type) := Bits → Res α

namespace Parser

def pure (a : α) : Parser α := fun s => .ok a s
def bind (p : Parser α) (f : α → Parser β) : Parser β := fun s =>
  match p s with
  | .ok a r => f a r
  | .insufficient => .insufficient
  | .corrupt => .corrupt
  | .compat => .compat

instance : Monad Parser where
  pure := Parser.pure
  bind := Parser.bind

def corrupt : Parser α := fun _ => .corrupt
def compat : Parser α := fun _ => .compat

/-- split off the first `n` bits (linear in `n`, not in the length of the stream) -/
def splitBits : Nat → Bits → Option (Bits × Bits)
  | 0, s => some ([], s)
  | _+1, [] => none
  | n+1, b :: s =>
    match splitBits n s with
    | some (a, r) => some (b :: a, r)
    | none => none

theorem splitBits_eq (n : Nat) (s : Bits) :
    splitBits n s = if s.length < n then none else some (s.take n, s.drop n) := by
  induction n generalizing s with
  | zero => simp [splitBits]
  | succ n ih =>
    cases s with
    | nil => simp [splitBits]
    | cons b s =>
      simp only [splitBits, ih, List.length_cons, List.take_succ_cons, List.drop_succ_cons]
      by_cases h : s.length < n
      · have : s.length + 1 < n + 1 := by omega
        simp [h, this]
      · have : ¬ (s.length + 1 < n + 1) := by omega
        simp [h, this]

def readBits (n : Nat) : Parser Bits := fun s =>
  match splitBits n s with
  | some (a, r) => .ok a r
  | none => .insufficient

theorem readBits_def (n : Nat) (s : Bits) :
    readBits n s = if s.length < n then .insufficient else .ok (s.take n) (s.drop n) := by
  unfold readBits; rw [splitBits_eq]; by_cases h : s.length < n <;> simp [h]

def readBit : Parser Bool := fun s =>
  match s with
  | [] => .insufficient
  | b :: r => .ok b r

def readNat (w : Nat) : Parser Nat := fun s =>
  match readBits w s with
  | .ok bs r => .ok (bitsNat bs) r
  | .insufficient => .insufficient
  | .corrupt => .corrupt
  | .compat => .compat

/-- Prefix-safety. -/
structure Safe (p : Parser α) : Prop where
  ok_ext : ∀ s a r t, p s = .ok a r → p (s ++ t) = .ok a (r ++ t)
  ok_suffix : ∀ s a r, p s = .ok a r → ∃ c, s = c ++ r
  corrupt_ext : ∀ s t, p s = .corrupt → p (s ++ t) = .corrupt
  compat_ext : ∀ s t, p s = .compat → p (s ++ t) = .compat
  short : ∀ s t a r, p (s ++ t) = .ok a r → r.length < t.length → p s = .insufficient

theorem safe_pure (a : α) : Safe (Parser.pure a) := by
  refine ⟨?_, ?_, ?_, ?_, ?_⟩
  · intro s a' r t h; simp [Parser.pure] at h ⊢; obtain ⟨rfl, rfl⟩ := h; simp
  · intro s a' r h; simp [Parser.pure] at h; exact ⟨[], by simp [h.2]⟩
  · intro s t h; simp [Parser.pure] at h
  · intro s t h; simp [Parser.pure] at h
  · intro s t a' r h hl; simp [Parser.pure] at h; obtain ⟨_, rfl⟩ := h; simp at hl; omega

theorem safe_corrupt : Safe (corrupt : Parser α) :=
  ⟨by intro s a r t h; simp [corrupt] at h, by intro s a r h; simp [corrupt] at h,
   by intro s t _; rfl, by intro s t h; simp [corrupt] at h, by intro s t a r h; simp [corrupt] at h⟩

theorem safe_compat : Safe (compat : Parser α) :=
  ⟨by intro s a r t h; simp [compat] at h, by intro s a r h; simp [compat] at h,
   by intro s t h; simp [compat] at h, by intro s t _; rfl, by intro s t a r h; simp [compat] at h⟩

theorem safe_readBits (n : Nat) : Safe (readBits n) := by
  refine ⟨?_, ?_, ?_, ?_, ?_⟩
  · intro s a r t h
    simp only [readBits_def] at h ⊢
    split at h
    · cases h
    · rename_i hn
      have hn' : ¬ (s ++ t).length < n := by simp; omega
      simp only [hn', if_false]
      injection h with ha hr
      subst ha; subst hr
      have : n ≤ s.length := by omega
      rw [List.take_append_of_le_length this, List.drop_append_of_le_length this]
  · intro s a r h
    simp only [readBits_def] at h
    split at h
    · cases h
    · injection h with ha hr
      exact ⟨s.take n, by rw [← hr, List.take_append_drop]⟩
  · intro s t h; simp only [readBits_def] at h; split at h <;> cases h
  · intro s t h; simp only [readBits_def] at h; split at h <;> cases h
  · intro s t a r h hl
    simp only [readBits_def] at h ⊢
    split at h
    · cases h
    · injection h with ha hr
      subst hr
      have : s.length < n := by
        simp at hl; omega
      simp [this]

theorem safe_bind {p : Parser α} {f : α → Parser β} (hp : Safe p) (hf : ∀ a, Safe (f a)) :
    Safe (Parser.bind p f) := by
  refine ⟨?_, ?_, ?_, ?_, ?_⟩
  · intro s b r t h
    unfold Parser.bind at h ⊢
    cases hps : p s with
    | ok a r1 =>
      rw [hps] at h; simp only at h
      rw [hp.ok_ext s a r1 t hps]; simp only
      exact (hf a).ok_ext r1 b r t h
    | insufficient => rw [hps] at h; simp at h
    | corrupt => rw [hps] at h; simp at h
    | compat => rw [hps] at h; simp at h
  · intro s b r h
    unfold Parser.bind at h
    cases hps : p s with
    | ok a r1 =>
      rw [hps] at h; simp only at h
      obtain ⟨c1, rfl⟩ := hp.ok_suffix s a r1 hps
      obtain ⟨c2, rfl⟩ := (hf a).ok_suffix r1 b r h
      exact ⟨c1 ++ c2, by simp⟩
    | insufficient => rw [hps] at h; simp at h
    | corrupt => rw [hps] at h; simp at h
    | compat => rw [hps] at h; simp at h
  · intro s t h
    unfold Parser.bind at h ⊢
    cases hps : p s with
    | ok a r1 =>
      rw [hps] at h; simp only at h
      rw [hp.ok_ext s a r1 t hps]; simp only
      exact (hf a).corrupt_ext r1 t h
    | insufficient => rw [hps] at h; simp at h
    | corrupt => rw [hp.corrupt_ext s t hps]
    | compat => rw [hps] at h; simp at h
  · intro s t h
    unfold Parser.bind at h ⊢
    cases hps : p s with
    | ok a r1 =>
      rw [hps] at h; simp only at h
      rw [hp.ok_ext s a r1 t hps]; simp only
      exact (hf a).compat_ext r1 t h
    | insufficient => rw [hps] at h; simp at h
    | corrupt => rw [hps] at h; simp at h
    | compat => rw [hp.compat_ext s t hps]
  · intro s t b r h hl
    unfold Parser.bind at h ⊢
    cases hpst : p (s ++ t) with
    | ok a r1 =>
      rw [hpst] at h; simp only at h
      by_cases hc : r1.length < t.length
      · rw [hp.short s t a r1 hpst hc]
      · cases hps : p s with
        | ok a' r1' =>
          have := hp.ok_ext s a' r1' t hps
          rw [hpst] at this
          injection this with ha hr
          subst ha; subst hr
          simp only
          exact (hf a).short r1' t b r h hl
        | insufficient => rfl
        | corrupt =>
          have := hp.corrupt_ext s t hps
          rw [hpst] at this; cases this
        | compat =>
          have := hp.compat_ext s t hps
          rw [hpst] at this; cases this
    | insufficient => rw [hpst] at h; simp at h
    | corrupt => rw [hpst] at h; simp at h
    | compat => rw [hpst] at h; simp at h

theorem safe_map {p : Parser α} (hp : Safe p) (g : α → β) :
    Safe (Parser.bind p (fun a => Parser.pure (g a))) :=
  safe_bind hp (fun a => safe_pure (g a))

theorem readNat_eq (w : Nat) : readNat w = Parser.bind (readBits w) (fun bs => Parser.pure (bitsNat bs)) := by
  funext s; unfold readNat Parser.bind Parser.pure; cases readBits w s <;> rfl

theorem safe_readNat (w : Nat) : Safe (readNat w) := by
  rw [readNat_eq]; exact safe_map (safe_readBits w) _

/-- reading back a fixed-width field -/
theorem readNat_natBits {w v : Nat} (h : v < 2^w) (rest : Bits) :
    readNat w (natBits w v ++ rest) = .ok v rest := by
  unfold readNat; rw [readBits_def]
  have hl : ¬ (natBits w v ++ rest).length < w := by simp
  simp only [hl, if_false]
  rw [List.take_append_of_le_length (by simp), List.drop_append_of_le_length (by simp)]
  simp [List.take_of_length_le, List.drop_of_length_le, bitsNat_natBits_of_lt h]

theorem readBits_append (bs rest : Bits) : readBits bs.length (bs ++ rest) = .ok bs rest := by
  rw [readBits_def]
  have hl : ¬ (bs ++ rest).length < bs.length := by simp
  simp

end Parser
end Qco
