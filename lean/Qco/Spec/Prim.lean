import Qco.Spec.Parser
/-
Layer S, primitive fields: run-length varint, offsets (MSB-last rule), prefix codes.
-/
namespace Qco
open Parser

/-! ### varint (reps − 1): `j` low bits, then up to `24 − j` continuation pairs.
The terminating `false` is written only if fewer than `24 − j` pairs were needed
(deployed readers stop after bit 23 without reading a terminator). -/

def encVarintHigh : Nat → Nat → Bits
  | 0, _ => []
  | m+1, y => if y = 0 then [false] else [true, y % 2 == 1] ++ encVarintHigh m (y / 2)

def encVarint (nEntriesBits j x : Nat) : Bits :=
  natBits j x ++ encVarintHigh (nEntriesBits - j) (x / 2^j)

def decVarintHigh : Nat → Parser Nat
  | 0 => Parser.pure 0
  | m+1 => Parser.bind readBit fun c =>
      if c then Parser.bind readBit fun b => Parser.bind (decVarintHigh m) fun rest =>
        Parser.pure (b.toNat + 2 * rest)
      else Parser.pure 0

def decVarint (nEntriesBits j : Nat) : Parser Nat :=
  Parser.bind (readNat j) fun low => Parser.bind (decVarintHigh (nEntriesBits - j)) fun high =>
    Parser.pure (low + 2^j * high)

theorem decVarintHigh_enc (m y : Nat) (h : y < 2^m) (rest : Bits) :
    decVarintHigh m (encVarintHigh m y ++ rest) = .ok y rest := by
  induction m generalizing y with
  | zero =>
    have : y = 0 := by simpa using h
    subst this; simp [decVarintHigh, encVarintHigh, Parser.pure]
  | succ m ih =>
    unfold encVarintHigh decVarintHigh
    by_cases hy : y = 0
    · subst hy; simp [Parser.bind, readBit, Parser.pure]
    · simp only [hy, if_false]
      have h2 : y / 2 < 2^m := by rw [Nat.pow_succ] at h; omega
      have := ih (y/2) h2
      simp only [List.cons_append, List.append_assoc, List.nil_append, Parser.bind, readBit, if_true, this, Parser.pure]
      have : (y % 2 == 1).toNat = y % 2 := by
        have : y % 2 = 0 ∨ y % 2 = 1 := by omega
        rcases this with h | h <;> simp [h]
      rw [this]; congr 1; omega

theorem decVarint_enc (N j x : Nat) (hj : j ≤ N) (hx : x < 2^N) (rest : Bits) :
    decVarint N j (encVarint N j x ++ rest) = .ok x rest := by
  unfold decVarint encVarint
  have hpos : 0 < 2^j := Nat.two_pow_pos j
  have hlow : readNat j (natBits j x ++ (encVarintHigh (N - j) (x / 2^j) ++ rest))
      = .ok (x % 2^j) (encVarintHigh (N - j) (x / 2^j) ++ rest) := by
    have h1 : natBits j x = natBits j (x % 2^j) := by
      -- natBits only looks at the low j bits
      have key : ∀ w a b, a % 2^w = b % 2^w → natBits w a = natBits w b := by
        intro w
        induction w with
        | zero => intros; rfl
        | succ w ih =>
          intro a b hab
          simp only [natBits]
          rw [Nat.pow_succ, Nat.mul_comm (2^w) 2, Nat.mod_mul, Nat.mod_mul] at hab
          have ha : a % 2 < 2 := Nat.mod_lt _ (by omega)
          have hb : b % 2 < 2 := Nat.mod_lt _ (by omega)
          have e1 : a % 2 = b % 2 := by omega
          have e2 : a / 2 % 2^w = b / 2 % 2^w := by omega
          rw [ih _ _ e2, e1]
      exact key j x (x % 2^j) (by rw [Nat.mod_mod])
    rw [h1]
    exact readNat_natBits (Nat.mod_lt _ hpos) _
  have hhigh : x / 2^j < 2^(N - j) := by
    apply Nat.div_lt_of_lt_mul
    rw [← Nat.pow_add]; have : j + (N - j) = N := by omega
    rw [this]; exact hx
  simp only [List.append_assoc, Parser.bind, hlow, decVarintHigh_enc _ _ hhigh, Parser.pure]
  congr 1
  rw [Nat.add_comm]; exact Nat.div_add_mod x (2^j)

theorem safe_decVarintHigh (m : Nat) : Safe (decVarintHigh m) := by
  induction m with
  | zero => exact safe_pure 0
  | succ m ih =>
    unfold decVarintHigh
    have hb : Safe readBit := by
      have : readBit = Parser.bind (readBits 1) (fun bs => Parser.pure (bs.headD false)) := by
        funext s; cases s with
        | nil => simp [readBit, Parser.bind, readBits, splitBits]
        | cons b r => simp [readBit, Parser.bind, readBits, splitBits, Parser.pure]
      rw [this]; exact safe_map (safe_readBits 1) _
    refine safe_bind hb ?_
    intro c; cases c
    · exact safe_pure 0
    · exact safe_bind hb (fun b => safe_bind ih (fun r => safe_pure _))

/-! ### offsets: `k` low bits, then bit `k` iff the value is not determined by them -/

/-- `r` = (upper − lower) / gcd, `k` = ⌊log2 (r+1)⌋ -/
def encOffset (r k off : Nat) : Bits :=
  natBits k off ++ (if off < r - (2^k - 1) ∨ off > 2^k - 1 then [off / 2^k % 2 == 1] else [])

def decOffset (r k : Nat) : Parser Nat :=
  Parser.bind (readNat k) fun low =>
    if r - low ≥ 2^k then Parser.bind readBit fun b => Parser.pure (low + (if b then 2^k else 0))
    else Parser.pure low

end Qco

namespace Qco
open Parser

theorem natBits_mod (w a : Nat) : natBits w a = natBits w (a % 2^w) := by
  have key : ∀ w a b, a % 2^w = b % 2^w → natBits w a = natBits w b := by
    intro w
    induction w with
    | zero => intros; rfl
    | succ w ih =>
      intro a b hab
      simp only [natBits]
      rw [Nat.pow_succ, Nat.mul_comm (2^w) 2, Nat.mod_mul, Nat.mod_mul] at hab
      have ha : a % 2 < 2 := Nat.mod_lt _ (by omega)
      have hb : b % 2 < 2 := Nat.mod_lt _ (by omega)
      have e1 : a % 2 = b % 2 := by omega
      have e2 : a / 2 % 2^w = b / 2 % 2^w := by omega
      rw [ih _ _ e2, e1]
  exact key w a (a % 2^w) (by rw [Nat.mod_mod])

theorem readNat_natBits_mod (w v : Nat) (rest : Bits) :
    readNat w (natBits w v ++ rest) = .ok (v % 2^w) rest := by
  rw [natBits_mod]; exact readNat_natBits (Nat.mod_lt _ (Nat.two_pow_pos w)) rest

theorem decOffset_enc (r k off : Nat) (hk1 : 2^k ≤ r + 1) (hk2 : r + 1 < 2^(k+1)) (ho : off ≤ r)
    (rest : Bits) : decOffset r k (encOffset r k off ++ rest) = .ok off rest := by
  unfold decOffset encOffset
  simp only [List.append_assoc, Parser.bind, readNat_natBits_mod]
  have hp : 2^(k+1) = 2 * 2^k := by rw [Nat.pow_succ]; omega
  generalize hP : 2^k = P at *
  have hPpos : 0 < P := by rw [← hP]; exact Nat.two_pow_pos k
  by_cases h : off < P
  · have hm : off % P = off := Nat.mod_eq_of_lt h
    have hd : off / P = 0 := Nat.div_eq_of_lt h
    simp only [hm, hd]
    by_cases h2 : off < r - (P - 1)
    · have h4 : r - off ≥ P := by omega
      simp only [h2, h4, true_or, if_true, ge_iff_le, List.cons_append, List.nil_append]
      simp [Parser.bind, readBit, Parser.pure]
    · have h3 : ¬ (off < r - (P - 1) ∨ off > P - 1) := by omega
      have h4 : ¬ (r - off ≥ P) := by omega
      simp only [h3, if_false, List.nil_append]
      have h5 : ¬ (P ≤ r - off) := by omega
      simp [h5, Parser.pure]
  · have hge : P ≤ off := by omega
    have hm : off % P = off - P := by
      rw [Nat.mod_eq_sub_mod hge, Nat.mod_eq_of_lt (by omega)]
    have hd : off / P = 1 := by
      apply Nat.div_eq_of_lt_le <;> omega
    have h3 : (off < r - (P - 1) ∨ off > P - 1) := by omega
    have h4 : r - (off - P) ≥ P := by omega
    have h5 : P ≤ r - (off - P) := h4
    simp only [hm, hd, h3, if_true, ge_iff_le, h5, List.cons_append, List.nil_append]
    simp [Parser.bind, readBit, Parser.pure]
    omega

/-! ### prefix codes -/

/-- The index of the first code that is a prefix of the stream (consuming it). If no code is a
prefix: `insufficient` when the stream is a strict prefix of some code, else `corrupt`. -/
def matchCode (codes : List Bits) : Parser Nat := fun s =>
  match codes.findIdx? (fun c => c.isPrefixOf s) with
  | some i => .ok i (s.drop (codes.getD i []).length)
  | none => if codes.any (fun c => s.isPrefixOf c) then .insufficient else .corrupt

/-- prefix-freeness of a code table (as propositional prefix relation) -/
def PrefixFree (codes : List Bits) : Prop :=
  ∀ (i j : Nat) (hi : i < codes.length) (hj : j < codes.length), codes[i] <+: codes[j] → i = j

theorem matchCode_code (codes : List Bits) (hpf : PrefixFree codes) (i : Nat) (hi : i < codes.length)
    (rest : Bits) : matchCode codes (codes[i] ++ rest) = .ok i rest := by
  unfold matchCode
  have hex : ∃ j, codes.findIdx? (fun c => c.isPrefixOf (codes[i] ++ rest)) = some j := by
    cases hf : codes.findIdx? (fun c => c.isPrefixOf (codes[i] ++ rest)) with
    | some j => exact ⟨j, rfl⟩
    | none =>
      rw [List.findIdx?_eq_none_iff] at hf
      have := hf codes[i] (List.getElem_mem hi)
      have hp : codes[i].isPrefixOf (codes[i] ++ rest) = true := by
        rw [List.isPrefixOf_iff_prefix]; exact List.prefix_append _ _
      rw [hp] at this; cases this
  obtain ⟨j, hj⟩ := hex
  rw [hj]
  have hj' := hj
  rw [List.findIdx?_eq_some_iff_getElem] at hj'
  obtain ⟨hjl, hpj, _⟩ := hj'
  have hpj' : codes[j] <+: codes[i] ++ rest := by simpa using hpj
  have hpi : codes[i] <+: codes[i] ++ rest := List.prefix_append _ _
  have hij : j = i := by
    rcases Nat.le_total codes[j].length codes[i].length with hle | hle
    · exact hpf j i hjl hi (List.prefix_of_prefix_length_le hpj' hpi hle)
    · exact (hpf i j hi hjl (List.prefix_of_prefix_length_le hpi hpj' hle)).symm
  subst hij
  simp [List.getD_eq_getElem?_getD, hjl]

end Qco
