/-
Layer S: file-level round trip. The independent decoder `decodeFile` inverts the encoder
`encodeFile` on every well-formed abstract file, and hands back exactly what follows the file.
-/
import Qco.Lemmas.Align
import Qco.Lemmas.Tree
import Qco.Lemmas.Meta
import Qco.Properties.C02
namespace Qco
open Parser

theorem AChunk.WF.table_wf {gb : Nat → Nat} {d : DType} {fl : Flags} {c : AChunk} (hc : c.WF gb d fl) :
    (tableOf c.cm.prefixes).WF := by
  apply tableOf_WF
  · rcases hc.tree_ok with h | h
    · rw [h]; intro i j hi; simp at hi
    · exact completeTree_prefixFree _ h
  · intro p hp; exact (hc.prefixes_ok p hp).jump_le

/-- the body reader inverts the body writer -/
theorem decBody_enc (gb : Nat → Nat) (d : DType) (fl : Flags) (c : AChunk) (hc : c.WF gb d fl)
    (rest : Bits) :
    decBody c.fixedMeta (bodyCount fl c.cm.n) (encBody c.cm.prefixes c.blocks ++ rest)
      = .ok (blocksNums (tableOf c.cm.prefixes) c.blocks) rest := by
  have ht := hc.table_wf
  have halign : Parser.aligned (iterUnits (unit (tableOf c.cm.prefixes)) (bodyCount fl c.cm.n) none)
      (encBody c.cm.prefixes c.blocks ++ rest)
      = .ok (blocksNums (tableOf c.cm.prefixes) c.blocks, none) rest := by
    unfold encBody
    apply aligned_padToByte
    intro r
    rw [← hc.count_ok]
    exact iter_blocks _ ht _ hc.blocks_ok r
  have h1 : (c.cm.prefixes.isEmpty && decide (bodyCount fl c.cm.n > 0)) = false := by
    cases hps : c.cm.prefixes with
    | nil => have := hc.empty_ok hps; simp [this]
    | cons p ps => simp
  have h2 : (!c.cm.prefixes.isEmpty && !completeTree (c.cm.prefixes.map (·.code))) = false := by
    rcases hc.tree_ok with h | h
    · simp [h]
    · simp [h]
  have hlen : (encBody c.cm.prefixes c.blocks ++ rest).length - rest.length
      = (encBody c.cm.prefixes c.blocks).length / 8 * 8 := by
    have := padToByte_length_mod (encBlocks (tableOf c.cm.prefixes) c.blocks)
    simp only [List.length_append, encBody]
    omega
  unfold decBody
  simp only [AChunk.fixedMeta, h1, h2, Bool.false_eq_true, if_false, halign, hlen, if_true]

set_option linter.unusedVariables false in
/-- chunk-level (compositionality): the chunk reader inverts the chunk writer, whatever follows -/
theorem decChunkRest_encChunk (gb : Nat → Nat) (d : DType) (fl : Flags) (c : AChunk)
    (hd : d.Ok) (hp : (prefDType d fl).Ok) (hs : d.signed.Ok) (ho : fl.order ≤ 7)
    (hc : c.WF gb d fl) (rest : Bits) :
    decChunkRest gb d fl (encChunkMeta gb d fl c.fixedMeta ++ encBody c.cm.prefixes c.blocks ++ rest)
      = .ok c.toD rest := by
  have hcg : ∀ g, c.fixedMeta.commonGcd = some g → fl.gcds = true ∧ 1 ≤ g ∧
      (g = 1 ∨ (g - 1 < 2 ^ gb ((prefDType d fl).M - 1) ∧ g - 1 < (prefDType d fl).M - 1)) := by
    intro g hg
    have hg' : c.cm.commonGcd = some g := hg
    have := hc.common_ok
    rw [hg'] at this
    exact this
  have hm := decChunkMeta_enc gb d fl c.fixedMeta hp hs hc.n_lt hc.body_lt hc.moments_len
    hc.moments_ok hc.nprefs_lt hcg hc.prefixes_ok
  have hn : c.fixedMeta.n = c.cm.n := rfl
  unfold decChunkRest
  simp only [List.append_assoc, Parser.bind, hm, hn, decBody_enc gb d fl c hc, Parser.pure,
    AChunk.toD]

theorem encChunk_length_ge (gb : Nat → Nat) (d : DType) (fl : Flags) (c : AChunk) :
    8 ≤ (encChunk gb d fl c).length := by
  simp only [encChunk, List.length_append, natBits_length]; omega

theorem encChunks_length_ge (gb : Nat → Nat) (d : DType) (fl : Flags) (cs : List AChunk) :
    8 * cs.length ≤ (cs.flatMap (encChunk gb d fl)).length := by
  induction cs with
  | nil => simp
  | cons c cs ih =>
    have := encChunk_length_ge gb d fl c
    simp only [List.flatMap_cons, List.length_append, List.length_cons]; omega

/-- S3: a sequence of chunks followed by the termination byte -/
theorem decChunks_encChunks (gb : Nat → Nat) (d : DType) (fl : Flags) (cs : List AChunk)
    (hd : d.Ok) (hp : (prefDType d fl).Ok) (hs : d.signed.Ok) (ho : fl.order ≤ 7)
    (hcs : ∀ c ∈ cs, c.WF gb d fl) (fuel : Nat) (hf : cs.length < fuel) (rest : Bits) :
    decChunks gb d fl fuel
      (cs.flatMap (encChunk gb d fl) ++ natBits 8 Frozen.magicTerminationByte ++ rest)
      = .ok (cs.map AChunk.toD) rest := by
  induction cs generalizing fuel with
  | nil =>
    cases fuel with
    | zero => simp at hf
    | succ fuel =>
      have h46 : Frozen.magicTerminationByte < 2 ^ 8 := by decide
      simp only [List.flatMap_nil, List.nil_append, decChunks, Parser.bind, readNat_natBits h46,
        if_true, Parser.pure, List.map_nil]
  | cons c cs ih =>
    cases fuel with
    | zero => simp at hf
    | succ fuel =>
      have h44 : Frozen.magicChunkByte < 2 ^ 8 := by decide
      have hne : ¬ (Frozen.magicChunkByte = Frozen.magicTerminationByte) := by decide
      have hc := hcs c List.mem_cons_self
      have hcs' : ∀ c' ∈ cs, c'.WF gb d fl := fun c' h => hcs c' (List.mem_cons_of_mem _ h)
      have hf' : cs.length < fuel := by simp only [List.length_cons] at hf; omega
      have hrest := decChunkRest_encChunk gb d fl c hd hp hs ho hc
      simp only [List.append_assoc] at hrest ih
      simp only [List.flatMap_cons, encChunk, List.append_assoc, decChunks, Parser.bind,
        readNat_natBits h44, hne, if_false, if_true, hrest, ih hcs' fuel hf', Parser.pure,
        List.map_cons]

/-- S1: the file decoder inverts the file encoder on every well-formed file, and hands back
exactly what follows the file -/
theorem decodeFile_encodeFile (gb : Nat → Nat) (d : DType) (f : AFile) (h : f.WF gb d) (rest : Bits) :
    decodeFile gb d (encodeFile gb d f ++ rest) = .ok f.toD rest := by
  have hfuel : f.chunks.length < (encodeFile gb d f ++ rest).length / 8 + 1 := by
    have := encChunks_length_ge gb d f.flags f.chunks
    simp only [encodeFile, List.length_append]
    omega
  have hch := decChunks_encChunks gb d f.flags f.chunks h.dtype_ok h.pref_dtype_ok h.signed_ok
    h.order_le h.chunks_ok _ hfuel rest
  have hhd := C02.header_roundtrip d f.flags h.dtype_ok.header_lt h.order_le
  unfold decodeFile
  generalize (encodeFile gb d f ++ rest).length / 8 + 1 = fuel at hch ⊢
  simp only [List.append_assoc] at hch
  simp only [encodeFile, List.append_assoc, Parser.bind, hhd, hch, Parser.pure, AFile.toD]

end Qco
