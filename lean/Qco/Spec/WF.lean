/-
Layer S: well-formedness of the abstract syntax (`AFile.WF`), i.e. "a legal file of the frozen
grammar, whatever choices its writer made". Decidable in principle; stated as `Prop`.
-/
import Qco.Spec.File
namespace Qco

/-- what the format needs from a data-type descriptor (true of all 15 rows, see `C12`) -/
structure DType.Ok (d : DType) : Prop where
  header_lt : d.headerByte < 256
  bits_pos : 1 ≤ d.uBits
  raw_lt : ∀ u, d.uValid u → d.uToRaw u < 2 ^ d.physBits
  raw_inv : ∀ u, d.uValid u → d.rawToU (d.uToRaw u) = some u

/-- a valid pattern of the signed companion (what a delta moment is) -/
def momentOk (ds : DType) (m : Nat) : Prop := ds.uValid (ds.toU m) ∧ ds.fromU (ds.toU m) = m

structure Prefix.WF (gb : Nat → Nat) (d : DType) (fl : Flags) (n : Nat) (common : Option Nat) (p : Prefix) : Prop where
  count_lt : p.count < 2 ^ fl.countBits n
  lower_ok : d.uValid p.lower
  upper_ok : d.uValid p.upper
  le : p.lower ≤ p.upper
  code_lt : p.code.length < 2 ^ fl.codeLenBits
  jump_le : ∀ j, p.jump = some j → j ≤ 24
  gcd_pos : 1 ≤ p.gcd
  /-- with GCDs off the divisor is 1; with a common field it is the common one; otherwise it is 1
  or fits the range's own field and is at most the range -/
  gcd_ok : if fl.gcds then
      (match common with
       | some g => p.gcd = g
       | none => p.gcd = 1 ∨ (p.gcd - 1 < 2 ^ gb (p.upper - p.lower) ∧ p.gcd - 1 < p.upper - p.lower))
    else p.gcd = 1

structure AChunk.WF (gb : Nat → Nat) (d : DType) (fl : Flags) (c : AChunk) : Prop where
  n_lt : c.cm.n < 2 ^ 24
  moments_len : c.cm.moments.length = fl.order
  moments_ok : ∀ m ∈ c.cm.moments, momentOk d.signed m
  nprefs_lt : c.cm.prefixes.length < 2 ^ 15
  common_ok : match c.cm.commonGcd with
    | some g => fl.gcds = true ∧ 1 ≤ g ∧ (g = 1 ∨ (g - 1 < 2 ^ gb ((prefDType d fl).M - 1) ∧ g - 1 < (prefDType d fl).M - 1))
    | none => True
  prefixes_ok : ∀ p ∈ c.cm.prefixes, p.WF gb (prefDType d fl) fl c.cm.n (if fl.gcds then c.cm.commonGcd else some 1)
  tree_ok : c.cm.prefixes = [] ∨ completeTree (c.cm.prefixes.map (·.code)) = true
  empty_ok : c.cm.prefixes = [] → bodyCount fl c.cm.n = 0
  blocks_ok : ∀ b ∈ c.blocks, b.WF (tableOf c.cm.prefixes)
  count_ok : (blocksNums (tableOf c.cm.prefixes) c.blocks).length = bodyCount fl c.cm.n
  body_lt : (encBody c.cm.prefixes c.blocks).length / 8 < 2 ^ 32

structure AFile.WF (gb : Nat → Nat) (d : DType) (f : AFile) : Prop where
  dtype_ok : d.Ok
  pref_dtype_ok : (prefDType d f.flags).Ok
  signed_ok : d.signed.Ok
  order_le : f.flags.order ≤ 7
  chunks_ok : ∀ c ∈ f.chunks, c.WF gb d f.flags

end Qco
