/-
Layer T: model of `choose_unoptimized_prefixes` (compressor.rs:218-258) and the proof that its
output tiles [0, n) with non-empty slices cut only at value boundaries.
-/
namespace Qco

structure CutSt where
  i : Nat
  backup : Nat
  idx : Nat
  acc : List (Nat × Nat)

def CutSt.push (n maxN : Nat) (st : CutSt) (e : Nat) : CutSt :=
  { i := e, backup := st.backup, idx := max (st.idx + 1) (e * maxN / n), acc := st.acc ++ [(st.i, e)] }

def cutStep (v : Nat → Nat) (n maxN : Nat) (st : CutSt) (j : Nat) : CutSt :=
  let target := (st.idx + 1) * n / maxN
  if 0 < j ∧ v j = v (j - 1) then
    if target ≤ j ∧ target - st.backup ≤ j - target ∧ st.i < st.backup then st.push n maxN st.backup else st
  else
    let st1 : CutSt := { st with backup := j }
    if target ≤ j then st1.push n maxN j else st1

def cutRun (v : Nat → Nat) (n maxN : Nat) : Nat → CutSt
  | 0 => { i := 0, backup := 0, idx := 0, acc := [] }
  | j+1 => cutStep v n maxN (cutRun v n maxN j) j

def cuts (v : Nat → Nat) (n maxN : Nat) : List (Nat × Nat) :=
  ((cutRun v n maxN n).push n maxN n).acc

/-- consecutive non-empty slices from `a` to `b` -/
def Chain : List (Nat × Nat) → Nat → Nat → Prop
  | [], a, b => a = b
  | (x, y) :: rest, a, b => x = a ∧ x < y ∧ Chain rest y b

theorem chain_snoc (l : List (Nat × Nat)) (a i j : Nat) (h : Chain l a i) (hij : i < j) :
    Chain (l ++ [(i, j)]) a j := by
  induction l generalizing a with
  | nil => simp [Chain] at h ⊢; subst h; exact ⟨rfl, hij⟩
  | cons p rest ih =>
    obtain ⟨x, y⟩ := p
    simp only [Chain, List.cons_append] at h ⊢
    exact ⟨h.1, h.2.1, ih y h.2.2⟩

/-- every slice end (other than `n`) is a value boundary -/
def Boundary (v : Nat → Nat) (e : Nat) : Prop := e = 0 ∨ v e ≠ v (e - 1)

structure CutInv (v : Nat → Nat) (j : Nat) (st : CutSt) : Prop where
  chain : Chain st.acc 0 st.i
  i_le_backup : st.i ≤ st.backup
  backup_lt : j = 0 ∨ st.backup < j
  i_zero : j = 0 → st.i = 0 ∧ st.backup = 0
  backup_bd : Boundary v st.backup
  ends_bd : ∀ p ∈ st.acc, Boundary v p.2

theorem target_pos (idx n maxN : Nat) (h1 : 1 ≤ maxN) (h2 : maxN ≤ n) : 1 ≤ (idx + 1) * n / maxN := by
  rw [Nat.le_div_iff_mul_le (by omega)]
  have : n ≤ (idx + 1) * n := Nat.le_mul_of_pos_left n (by omega)
  omega

theorem cutInv_step (v : Nat → Nat) (n maxN : Nat) (h1 : 1 ≤ maxN) (h2 : maxN ≤ n) (j : Nat)
    (st : CutSt) (inv : CutInv v j st) : CutInv v (j+1) (cutStep v n maxN st j) := by
  have htp := target_pos st.idx n maxN h1 h2
  unfold cutStep
  simp only
  generalize (st.idx + 1) * n / maxN = target at htp
  obtain ⟨hc, hib, hbl, hiz, hbb, heb⟩ := inv
  split
  · -- inside a run of equal values
    rename_i hrun
    have hjpos : 0 < j := hrun.1
    have hbl' : st.backup < j := by rcases hbl with h | h <;> omega
    split
    · rename_i hcut
      refine ⟨?_, ?_, ?_, ?_, ?_, ?_⟩
      · exact chain_snoc _ _ _ _ hc hcut.2.2
      · exact Nat.le_refl _
      · exact Or.inr (by simp [CutSt.push]; omega)
      · intro h; omega
      · exact hbb
      · intro p hp
        simp only [CutSt.push, List.mem_append, List.mem_singleton] at hp
        rcases hp with hp | hp
        · exact heb p hp
        · subst hp; exact hbb
    · exact ⟨hc, hib, Or.inr (by omega), by intro h; omega, hbb, heb⟩
  · -- first element of a new run
    rename_i hnew
    have hbd : Boundary v j := by
      unfold Boundary
      by_cases hj0 : j = 0
      · exact Or.inl hj0
      · right; intro he; exact hnew ⟨by omega, he⟩
    have hij : j = 0 ∨ st.i < j := by
      rcases hbl with h | h
      · exact Or.inl h
      · right; omega
    split
    · rename_i htj
      have hjpos : 0 < j := by omega
      have hilt : st.i < j := by rcases hij with h | h <;> omega
      refine ⟨?_, ?_, ?_, ?_, ?_, ?_⟩
      · exact chain_snoc _ _ _ _ hc hilt
      · simp [CutSt.push]
      · exact Or.inr (by simp [CutSt.push])
      · intro h; omega
      · exact hbd
      · intro p hp
        simp only [CutSt.push, List.mem_append, List.mem_singleton] at hp
        rcases hp with hp | hp
        · exact heb p hp
        · subst hp; exact hbd
    · refine ⟨hc, ?_, Or.inr (by simp), by intro h; omega, hbd, heb⟩
      show st.i ≤ j
      rcases hij with h | h
      · have := (hiz h).1; omega
      · omega

theorem cutInv_run (v : Nat → Nat) (n maxN : Nat) (h1 : 1 ≤ maxN) (h2 : maxN ≤ n) (j : Nat) :
    CutInv v j (cutRun v n maxN j) := by
  induction j with
  | zero => exact ⟨rfl, Nat.le_refl _, Or.inl rfl, fun _ => ⟨rfl, rfl⟩, Or.inl rfl, by simp [cutRun]⟩
  | succ j ih => exact cutInv_step v n maxN h1 h2 j _ ih

/-- the slices tile `[0, n)`, each is non-empty, and every interior cut is a value boundary -/
theorem cuts_tile (v : Nat → Nat) (n maxN : Nat) (h1 : 1 ≤ maxN) (h2 : maxN ≤ n) :
    Chain (cuts v n maxN) 0 n ∧
    ∀ p ∈ (cutRun v n maxN n).acc, Boundary v p.2 := by
  have inv := cutInv_run v n maxN h1 h2 n
  refine ⟨?_, inv.ends_bd⟩
  unfold cuts CutSt.push
  simp only
  apply chain_snoc _ _ _ _ inv.chain
  have hn : 0 < n := by omega
  rcases inv.backup_lt with h | h
  · omega
  · have := inv.i_le_backup; omega

end Qco
