/-
Layer T, `make_huffman_code` (huffman_encoding.rs): executable model and relational description.

The library pushes one leaf per prefix (weight = the prefix's count) into a binary min-heap, then
`n − 1` times pops two items and pushes their parent; the popped-first item is the LEFT child
(bit `false`), the popped-second the RIGHT child (bit `true`). Which of several items of equal weight
the heap answers first depends on its internal layout. Hence two descriptions:

* `HuffStep` / `HuffRun`: the loop with ANY tie-breaking (and any order of the forest);
* `huffTree` / `huffCodes` / `huffCost`: one deterministic run (forest kept sorted by insertion).

Definitions only; the theorems are in `Qco/Lemmas/HuffmanOpt.lean` (every `HuffRun` has cost
`huffCost`, and that cost is minimal among prefix codes / Kraft-feasible lengths).
Imports the bit lists only, so that a compiled executable can link against it.
-/
import Qco.Spec.Bits
namespace Qco

/-- a Huffman tree: leaves carry the symbol's index and weight -/
inductive HTree where
  | leaf (id w : Nat)
  | node (l r : HTree)
  deriving Repr, Inhabited, DecidableEq

namespace HTree

def weight : HTree → Nat
  | leaf _ w => w
  | node l r => l.weight + r.weight

/-- `Σ weight · depth` over the leaves, computed as the sum of the weights of the internal nodes -/
def cost : HTree → Nat
  | leaf _ _ => 0
  | node l r => l.cost + r.cost + (l.weight + r.weight)

/-- `(id, weight, code)` of the leaves, left to right, below the path `acc`:
left child = `bits ++ [false]`, right child = `bits ++ [true]` -/
def leaves : HTree → Bits → List (Nat × Nat × Bits)
  | leaf i w, acc => [(i, w, acc)]
  | node l r, acc => l.leaves (acc ++ [false]) ++ r.leaves (acc ++ [true])

/-- `(id, weight)` of the leaves, left to right -/
def syms : HTree → List (Nat × Nat)
  | leaf i w => [(i, w)]
  | node l r => l.syms ++ r.syms

end HTree

/-! ### the loop, relationally -/

/-- one iteration of the loop on a forest: `a` is of minimum weight in the forest, `b` of minimum
weight among the rest (any choice among equal weights, whatever the order of the list); they are
replaced by their parent, `a` to the left -/
def HuffStep (F F' : List HTree) : Prop :=
  ∃ a b R, F.Perm (a :: b :: R) ∧ (∀ t ∈ b :: R, a.weight ≤ t.weight) ∧ (∀ t ∈ R, b.weight ≤ t.weight)
    ∧ F'.Perm (HTree.node a b :: R)

/-- iterate until a single tree is left (`F.length − 1` iterations) -/
inductive HuffReach : List HTree → HTree → Prop
  | done (t : HTree) : HuffReach [t] t
  | step {F F' : List HTree} {t : HTree} : HuffStep F F' → HuffReach F' t → HuffReach F t

/-- the initial forest: leaf `i` of weight `ws[i]` -/
def leafForest (ws : List Nat) : List HTree := ws.zipIdx.map fun p => HTree.leaf p.2 p.1

/-- `t` is a tree `make_huffman_code` can build for the weights `ws`, for some tie-breaking -/
def HuffRun (ws : List Nat) (t : HTree) : Prop := HuffReach (leafForest ws) t

/-- `codes[i]` is the path from the root of `t` to the leaf of symbol `i` (`create_bits`) -/
def TreeCodes (t : HTree) (codes : List Bits) : Prop :=
  ∀ x ∈ t.leaves [], codes[x.1]? = some x.2.2

/-- `codes` is what `make_huffman_code` can answer for the weights `ws`, for some tie-breaking -/
def HuffCode (ws : List Nat) (codes : List Bits) : Prop :=
  codes.length = ws.length ∧ ∃ t, HuffRun ws t ∧ TreeCodes t codes

/-! ### one deterministic run -/

/-- insert into a forest sorted by weight, before the first tree that is not lighter -/
def insertT (t : HTree) : List HTree → List HTree
  | [] => [t]
  | u :: us => if t.weight ≤ u.weight then t :: u :: us else u :: insertT t us

def sortForest (F : List HTree) : List HTree := F.foldr insertT []

/-- on a sorted forest: merge the first two, re-insert; the fuel is the number of iterations -/
def huffLoop : Nat → List HTree → Option HTree
  | _, [] => none
  | _, [t] => some t
  | 0, _ :: _ :: _ => none
  | n+1, a :: b :: R => huffLoop n (insertT (HTree.node a b) R)

def huffTree (ws : List Nat) : Option HTree := huffLoop ws.length (sortForest (leafForest ws))

/-- the code of symbol `i` in a list of leaves (`[]` when absent) -/
def codeOf (lv : List (Nat × Nat × Bits)) (i : Nat) : Bits :=
  match lv.find? (fun x => x.1 == i) with
  | some x => x.2.2
  | none => []

/-- the code of symbol `i` at index `i`; `[[]]` for a single symbol, `[]` for none -/
def huffCodes (ws : List Nat) : List Bits :=
  let lv := match huffTree ws with
    | some t => t.leaves []
    | none => []
  (List.range ws.length).map (codeOf lv)

/-- total weighted code length of the Huffman code (0 for at most one symbol) -/
def huffCost (ws : List Nat) : Nat :=
  match huffTree ws with
  | some t => t.cost
  | none => 0

/-! ### the cost alone, on weights (no trees): quadratic in plain comparisons, for per-file checks -/

def insertN (x : Nat) : List Nat → List Nat
  | [] => [x]
  | y :: ys => if x ≤ y then x :: y :: ys else y :: insertN x ys

/-- on a sorted list of weights: add up the sums formed -/
def costLoop : Nat → List Nat → Nat → Nat
  | n+1, a :: b :: R, acc => costLoop n (insertN (a + b) R) (acc + (a + b))
  | _, _, acc => acc

/-- `= huffCost ws` (`huffCostW_eq`) -/
def huffCostW (ws : List Nat) : Nat := costLoop ws.length (ws.foldr insertN []) 0

/-- `Σ w_i · |code_i|` -/
def weightedLen (ws : List Nat) (codes : List Bits) : Nat :=
  ((ws.zip codes).map fun p => p.1 * p.2.length).sum

/-- `Σ w_i · l_i` -/
def weightedSum (ws ls : List Nat) : Nat := ((ws.zip ls).map fun p => p.1 * p.2).sum

end Qco
