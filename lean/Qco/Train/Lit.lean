/-
Layer TL, executable LITERAL (statement-level) model of prefix training, i.e. of `train_prefixes` and
everything it calls:

* compressor.rs:139-151  `choose_run_len_jumpstart`   → the float oracle `Floats.runLen` (see below)
* compressor.rs:162-205  `push_pref`                  → `pushPref`
* compressor.rs:211-216  `choose_max_n_prefixes`      → `chooseMaxNPrefixesLit`
* compressor.rs:218-258  `choose_unoptimized_prefixes`→ `cuStep` (loop body), `cuRun` (the `for j in 0..n`),
                                                         `chooseUnoptimizedLit`
* compressor.rs:260-280  `validate_chunk_args`        → inside `trainLit`
* compressor.rs:282-325  `train_prefixes`             → `trainLit` (+ its post-pass loop `postPass`)
* prefix_optimization.rs:8-27   `prefix_bit_cost`     → `prefixBitCost` (integer panics literal, value = oracle)
* prefix_optimization.rs:30-148 `optimize_prefixes`   → `cumLoop`, `rowLoop` (inner `for j`), `dpStep`/`dpRun`
                                                         (outer `for i`), `buildLoop`/`buildOne` (second loop),
                                                         `optimizeLit`
* huffman_encoding.rs:17-66  `HuffmanItem::{new, new_parent_of, create_bits, create_bits_from}`
                                                       → `HItem.new`, `HItem.newParentOf`, `createBitsFrom`
* huffman_encoding.rs:80-102 `make_huffman_code`      → `mergeLoop`, `makeHuffmanLit`

`gcd_utils.rs` is NOT re-modelled: the literal functions of `Qco/Op/GcdLit.lean` are called.

Conventions.  Unsigneds (`usize` and `T::Unsigned`) are `Nat`s; `usize` is 64 bits (`USZ = 2^64`), `ub` is
`T::Unsigned::BITS` where an overflow on `U` is possible (only inside `GcdLit`).  Outcomes are `GcdLit.Out`:
`ok v` or `panic`; every `+`/`*` overflow, `-` underflow, `/ 0`, `<<` overflow, index out of bounds, slice out of
range, `unwrap()` on `None` of the Rust is an explicit `.panic` (the harness builds with
`overflow-checks = true`).  `train_prefixes` returns a `QCompressResult`: `trainLit` answers `ok none` for
`Err(invalid argument)`.

ORACLES (everything `f64`, and the heap):
* `Floats.log2Floor n`    = `(n as f64).log2().floor() as usize`                 (compressor.rs:212)
* `Floats.freqLt count n` = `count as f64 / n as f64 < 0.8`                      (compressor.rs:171,180)
* `Floats.runLen count n` = `choose_run_len_jumpstart(count, n)` as `(weight, jumpstart)`
  `Floats.exact` is the integer reading the oracle-style model `Qco/Train/Model.lean` uses
  (`Nat.log2`, `5·count < 4·n`, `Train.jumpstart`); the theorems about `Train.rawPrefixes` assume that the
  floats agree with it on the chunk at hand (`FloatsAgree`), the theorems about `optimize_prefixes` and
  `make_huffman_code` assume nothing about them.
* `CostOracle`: the cost type (`f64`), `0.0`, `f64::MAX`, `+`, `<` and the float value of
  `prefix_bit_cost(base_meta_cost, lower, upper, weight, total_weight, gcd)` (which also absorbs `base_meta_cost`,
  hence `flags.bits_to_encode_count(n)`, `T::PHYSICAL_BITS`, `gcd_bits_required`, and the float table lookup
  `BUMPY_LOG_TABLE[k]`, k = `x.log2() as usize ≤ 128 < 129` for `x ≤ 2^128 + 1`).  ARBITRARY: nothing is assumed
  of `<` (NaN-like behaviour allowed).  The INTEGER operations inside `prefix_bit_cost` — `(upper - lower) / gcd`
  in `avg_offset_bits` — are literal (`prefixBitCost`).
* `pick : Nat → List HItem → Nat`: which element `BinaryHeap::pop` answers at the `t`-th pop, as an index into the
  heap's content listed in insertion order.  `BinaryHeap` guarantees a greatest element for `Ord`
  (= least weight, huffman_encoding.rs:68-72: reversed `weight` comparison, nothing else compared); which of
  several depends on its internal layout: `PickOK` states exactly that guarantee.  An answer out of range is
  read as "heap empty" (`None`), which `PickOK` excludes for a non-empty heap.
* `gb` = `gcd_bits_required` (float `log2().ceil()`), as everywhere in the project.
* `sort_unstable()` on unsigneds is `List.mergeSort (· ≤ ·)` (the sorted list is unique).

NOT modelled: `Vec::with_capacity` (allocation), the `phantom` fields, `T::from_unsigned`/`to_unsigned`
(bijections; bounds are kept in the unsigned domain as everywhere in the model).

Theorems: `Qco/Lemmas/TrainLit/*.lean`, headline statements in `Qco/Properties/C10l.lean`.
-/
import Qco.Op.GcdLit
import Qco.Train.Model
import Qco.Train.Huffman
namespace Qco
namespace TrainLit
open GcdLit (Out GP)

/-! ## `usize` arithmetic with its panics -/

/-- `usize::MAX + 1` -/
def USZ : Nat := 2 ^ 64

/-- `a + b` on `usize` -/
def uadd (a b : Nat) : Out Nat := if a + b < USZ then .ok (a + b) else .panic
/-- `a - b` on `usize` -/
def usub (a b : Nat) : Out Nat := if b ≤ a then .ok (a - b) else .panic
/-- `a * b` on `usize` -/
def umul (a b : Nat) : Out Nat := if a * b < USZ then .ok (a * b) else .panic
/-- `a / b` on `usize` -/
def udiv (a b : Nat) : Out Nat := if b = 0 then .panic else .ok (a / b)
/-- `l[i]` -/
def idx {α : Type} (l : List α) (i : Nat) : Out α :=
  match l[i]? with
  | some x => .ok x
  | none => .panic

/-! ## the records -/

/-- `WeightedPrefix<T>` (prefix.rs:106-114) flattened: `prefix.{count, lower, upper, run_len_jumpstart, gcd,
code}` and `weight` -/
structure WP where
  count : Nat
  weight : Nat
  lower : Nat
  upper : Nat
  jump : Option Nat
  gcd : Nat
  code : Bits := []
  deriving DecidableEq, Repr, Inhabited

def WP.toRaw (p : WP) : Train.Raw :=
  { count := p.count, lower := p.lower, upper := p.upper, gcd := p.gcd, jump := p.jump }

/-- `wp.prefix.clone()` -/
def WP.toPrefix (p : WP) : Prefix :=
  { count := p.count, lower := p.lower, upper := p.upper, code := p.code, jump := p.jump, gcd := p.gcd }

/-- the three fields `gcd_utils.rs` reads -/
def WP.gp (p : WP) : GP := { lower := p.lower, upper := p.upper, gcd := p.gcd }

def gpOfPrefix (p : Prefix) : GP := { lower := p.lower, upper := p.upper, gcd := p.gcd }

/-! ## the float oracles of compressor.rs -/

structure Floats where
  /-- `(n_unsigneds as f64).log2().floor() as usize` -/
  log2Floor : Nat → Nat
  /-- `count as f64 / n_unsigneds as f64 < MIN_FREQUENCY_TO_USE_RUN_LEN` (arguments: `count`, `n`) -/
  freqLt : Nat → Nat → Bool
  /-- `choose_run_len_jumpstart(count, n)` as `(weight, jumpstart)` -/
  runLen : Nat → Nat → Nat × Nat

/-- `ceil(count · (n − count) / n)`: the real value of `expected_n_runs = ceil(freq · non_freq · n)` -/
def expectedRuns (count n : Nat) : Nat := (count * (n - count) + n - 1) / n

/-- the integer reading of the three float computations (the one `Qco/Train/Model.lean` uses) -/
def Floats.exact : Floats where
  log2Floor := Nat.log2
  freqLt := fun count n => decide (5 * count < 4 * n)
  runLen := fun count n => (expectedRuns count n, Train.jumpstart n count)

/-- HYPOTHESIS about the floats, for a chunk of `n` numbers: they answer what the integer reading answers —
`floor(log2 n)`; `count/n < 0.8 ↔ 5·count < 4·n`; and, where `push_pref` calls it (`1001 ≤ n`, `0.8 ≤ count/n`,
`count ≠ n`), the jumpstart of `choose_run_len_jumpstart` is `Train.jumpstart`.  Nothing is assumed about the
weight `expected_n_runs`.  (For `n < 2^24`: `n as f64` and `count as f64` are exact, `count/n` is correctly
rounded and `4/5` is `1/(5n) > 2^-27` away from any other fraction of denominator `n`, `0.8_f64` is the double
nearest to `4/5`; `log2` of an exact power of two is exact in every libm in use.  The jumpstart reading is the
one `Qco/Train/Model.lean` already relies on, checked there on every observed table.) -/
structure FloatsAgree (F : Floats) (n : Nat) : Prop where
  log2 : F.log2Floor n = Nat.log2 n
  freq : ∀ count, count ≤ n → F.freqLt count n = decide (5 * count < 4 * n)
  jump : ∀ count, count < n → 4 * n ≤ 5 * count → 1001 ≤ n →
    (F.runLen count n).2 = Train.jumpstart n count

/-! ## `choose_max_n_prefixes` (compressor.rs:211-216) -/

def chooseMaxNPrefixesLit (F : Floats) (compLevel nUnsigneds : Nat) : Out Nat := do
  let logN := F.log2Floor nUnsigneds                     -- `(n_unsigneds as f64).log2().floor() as usize`
  let a ← uadd (logN / 2) 5                              -- `log_n / 2 + 5`
  let maxCompLevelForN := min 12 a                       -- `min(MAX_COMPRESSION_LEVEL, ..)`
  let d ← usub 12 maxCompLevelForN                       -- `MAX_COMPRESSION_LEVEL - max_comp_level_for_n`
  let realCompLevel := compLevel - d                     -- `comp_level.saturating_sub(..)`
  if 64 ≤ realCompLevel then .panic                      -- `1_usize << real_comp_level`
  else .ok (min (2 ^ realCompLevel) nUnsigneds)

/-! ## `push_pref` (compressor.rs:162-205) -/

/-- the two `&mut` of `PrefixBuffer`: `seq` and `prefix_idx` -/
structure PBuf where
  seq : List WP
  prefixIdx : Nat
  deriving Repr, DecidableEq

/-- `push_pref(buffer, i, j)`; the read-only fields of the buffer are `sorted`, `maxNPref`, `useGcd`
(`n_unsigneds = sorted.len()`, compressor.rs:223,235) -/
def pushPref (F : Floats) (sorted : List Nat) (maxNPref : Nat) (useGcd : Bool) (buf : PBuf) (i j : Nat) :
    Out PBuf := do
  let nUnsigneds := sorted.length
  let count ← usub j i                                   -- `j - i`
  let freqLt := F.freqLt count nUnsigneds                -- `frequency`, used in `frequency < 0.8`
  let a ← uadd buf.prefixIdx 1                           -- `*buffer.prefix_idx + 1`
  let b ← umul j maxNPref                                -- `j * buffer.max_n_pref`
  let c ← udiv b nUnsigneds                              -- `.. / n_unsigneds`
  let newPrefixIdx := max a c
  let lower ← idx sorted i                               -- `sorted[i]`
  let jm1 ← usub j 1                                     -- `j - 1`
  let upper ← idx sorted jm1                             -- `sorted[j - 1]`
  let gcd ←
    if useGcd then
      if j < i ∨ nUnsigneds < j then .panic              -- `&sorted[i..j]`
      else GcdLit.gcdSorted (Train.sliceOf sorted i j)   -- `gcd_utils::gcd(..)`
    else .ok 1
  let wp : WP :=
    if decide (nUnsigneds < 1001) || freqLt || decide (count = nUnsigneds) then
      { count := count, weight := count, lower := lower, upper := upper, jump := none, gcd := gcd }
    else
      let config := F.runLen count nUnsigneds            -- `choose_run_len_jumpstart(count, n_unsigneds)`
      { count := count, weight := config.1, lower := lower, upper := upper, jump := some config.2, gcd := gcd }
  .ok { seq := buf.seq ++ [wp], prefixIdx := newPrefixIdx }

/-! ## `choose_unoptimized_prefixes` (compressor.rs:218-258) -/

/-- the loop's variables: the buffer's `&mut`s, `i`, `backup_j` -/
structure CUSt where
  buf : PBuf
  i : Nat
  backupJ : Nat
  deriving Repr, DecidableEq

/-- the body of `for j in 0..n_unsigneds` -/
def cuStep (F : Floats) (sorted : List Nat) (maxNPref : Nat) (useGcd : Bool) (st : CUSt) (j : Nat) :
    Out CUSt := do
  let nUnsigneds := sorted.length
  let a ← uadd st.buf.prefixIdx 1                        -- `*prefix_buffer.prefix_idx + 1`
  let b ← umul a nUnsigneds                              -- `.. * n_unsigneds`
  let targetJ ← udiv b maxNPref                          -- `.. / max_n_pref`
  -- `j > 0 && sorted[j] == sorted[j - 1]`
  let same ←
    if 0 < j then do
      let x ← idx sorted j
      let jm1 ← usub j 1
      let y ← idx sorted jm1
      pure (x == y)
    else pure false
  if same then
    -- `j >= target_j && j - target_j >= target_j - backup_j && backup_j > i`
    let c12 ←
      if targetJ ≤ j then do
        let l ← usub j targetJ
        let r ← usub targetJ st.backupJ
        pure (decide (r ≤ l))
      else pure false
    if c12 && decide (st.i < st.backupJ) then do
      let buf ← pushPref F sorted maxNPref useGcd st.buf st.i st.backupJ
      pure { buf := buf, i := st.backupJ, backupJ := st.backupJ }
    else pure st
  else
    -- `backup_j = j;`
    if targetJ ≤ j then do
      let buf ← pushPref F sorted maxNPref useGcd st.buf st.i j
      pure { buf := buf, i := j, backupJ := j }
    else pure { st with backupJ := j }

/-- the state after the iterations `0 .. j` -/
def cuRun (F : Floats) (sorted : List Nat) (maxNPref : Nat) (useGcd : Bool) : Nat → Out CUSt
  | 0 => .ok { buf := { seq := [], prefixIdx := 0 }, i := 0, backupJ := 0 }
  | j + 1 => do
    let st ← cuRun F sorted maxNPref useGcd j
    cuStep F sorted maxNPref useGcd st j

/-- `choose_unoptimized_prefixes(sorted, internal_config, flags)` -/
def chooseUnoptimizedLit (F : Floats) (sorted : List Nat) (compLevel : Nat) (useGcds : Bool) :
    Out (List WP) := do
  let nUnsigneds := sorted.length
  let maxNPref ← chooseMaxNPrefixesLit F compLevel nUnsigneds
  let st ← cuRun F sorted maxNPref useGcds nUnsigneds
  let buf ← pushPref F sorted maxNPref useGcds st.buf st.i nUnsigneds
  pure buf.seq

/-! ## `prefix_bit_cost` and `optimize_prefixes` (prefix_optimization.rs) -/

/-- everything `f64` in `optimize_prefixes` -/
structure CostOracle (C : Type) where
  /-- `0.0` -/
  zero : C
  /-- `f64::MAX` -/
  top : C
  /-- `+` -/
  add : C → C → C
  /-- `<` -/
  lt : C → C → Bool
  /-- the value of `prefix_bit_cost(base_meta_cost, lower, upper, weight, total_weight, gcd)` -/
  pbc : (lower upper weight totalWeight gcd : Nat) → C

/-- `prefix_bit_cost`: `avg_offset_bits` computes `(upper - lower) / gcd` on `U` before going to floats -/
def prefixBitCost {C : Type} (O : CostOracle C) (lower upper weight totalWeight gcd : Nat) : Out C :=
  if upper < lower then .panic                           -- `upper - lower`
  else if gcd = 0 then .panic                            -- `.. / gcd`
  else .ok (O.pbc lower upper weight totalWeight gcd)

/-- `for wp in &wprefixes { c += wp.weight; cum_weight.push(c); }`; answers `(c, cum_weight)` -/
def cumLoop : List WP → Nat → List Nat → Out (Nat × List Nat)
  | [], c, cum => .ok (c, cum)
  | wp :: rest, c, cum => do
    let c' ← uadd c wp.weight
    cumLoop rest c' (cum ++ [c'])

/-- `prefixes.iter().position(|p| p.run_len_jumpstart.is_some())` -/
def repIdx (ps : List WP) : Option Nat := ps.findIdx? fun p => p.jump.isSome

/-- the variables of the inner loop that outlive an iteration -/
structure RowSt (C : Type) where
  gcdAcc : Option Nat
  bestCost : C
  bestJ : Nat

/-- the read-only vectors of `optimize_prefixes` -/
structure OptEnv (C : Type) where
  lowers : List Nat
  uppers : List Nat
  gcds : List Nat
  cum : List Nat
  total : Nat
  foldGcd : Bool
  rep : Option Nat

/-- `for j in (start_j..i + 1).rev()`, on the list of the `j`s still to come -/
def rowLoop {C : Type} (O : CostOracle C) (E : OptEnv C) (bestCosts : List C) (upper cumWeightI : Nat) :
    List Nat → RowSt C → Out (RowSt C)
  | [], st => .ok st
  | j :: js, st => do
    let lower ← idx E.lowers j                           -- `lower_unsigneds[j]`
    let acc ←
      if E.foldGcd then do
        let uj ← idx E.uppers j                          -- `upper_unsigneds[j]`
        let gj ← idx E.gcds j                            -- `gcds[j]`
        GcdLit.foldPrefixGcdsLeft lower uj gj upper st.gcdAcc
      else pure st.gcdAcc
    let bc ← idx bestCosts j                             -- `best_costs[j]`
    let cj ← idx E.cum j                                 -- `cum_weight[j]`
    let w ← usub cumWeightI cj                           -- `cum_weight_i - cum_weight[j]`
    let pc ← prefixBitCost O lower upper w E.total (acc.getD 1)
    let cost := O.add bc pc
    if O.lt cost st.bestCost then
      rowLoop O E bestCosts upper cumWeightI js { gcdAcc := acc, bestCost := cost, bestJ := j }
    else
      rowLoop O E bestCosts upper cumWeightI js { st with gcdAcc := acc }

/-- `best_costs`, `best_paths` -/
structure DPSt (C : Type) where
  bestCosts : List C
  bestPaths : List (List (Nat × Nat))

/-- `start_j` (prefix_optimization.rs:78-82) -/
def startJ (rep : Option Nat) (i : Nat) : Out Nat :=
  match rep with
  | some ind => if ind < i then uadd ind 1 else if ind = i then .ok ind else .ok 0
  | none => .ok 0

/-- the body of `for i in 0..wprefixes.len()` -/
def dpStep {C : Type} (O : CostOracle C) (E : OptEnv C) (st : DPSt C) (i : Nat) : Out (DPSt C) := do
  let upper ← idx E.uppers i                             -- `upper_unsigneds[i]`
  let i1 ← uadd i 1
  let cumWeightI ← idx E.cum i1                          -- `cum_weight[i + 1]`
  let sj ← startJ E.rep i
  let js := (List.range' sj (i1 - sj)).reverse           -- `(start_j..i + 1).rev()`
  let r ← rowLoop O E st.bestCosts upper cumWeightI js
    { gcdAcc := none, bestCost := O.top, bestJ := USZ - 1 }   -- `f64::MAX`, `usize::MAX`
  let bp ← idx st.bestPaths r.bestJ                      -- `best_paths[best_j]`
  pure { bestCosts := st.bestCosts ++ [r.bestCost], bestPaths := st.bestPaths ++ [bp ++ [(r.bestJ, i)]] }

/-- the state after the iterations `0 .. i` -/
def dpRun {C : Type} (O : CostOracle C) (E : OptEnv C) : Nat → Out (DPSt C)
  | 0 => .ok { bestCosts := [O.zero], bestPaths := [[]] }
  | i + 1 => do
    let st ← dpRun O E i
    dpStep O E st i

/-- `for (k, p) in prefixes.iter().enumerate().take(i + 1).skip(j).rev()`, on the list of `(k, p)` to come;
state `(count, gcd_acc)` -/
def buildLoop {C : Type} (E : OptEnv C) (i : Nat) : List (Nat × WP) → Nat → Option Nat → Out (Nat × Option Nat)
  | [], count, acc => .ok (count, acc)
  | (k, p) :: rest, count, acc => do
    let count' ← uadd count p.count                      -- `count += p.count`
    let acc' ←
      if E.foldGcd then do
        let lk ← idx E.lowers k
        let uk ← idx E.uppers k
        let ui ← idx E.uppers i
        GcdLit.foldPrefixGcdsLeft lk uk p.gcd ui acc
      else pure acc
    buildLoop E i rest count' acc'

/-- the body of `for &(j, i) in path` -/
def buildOne {C : Type} (E : OptEnv C) (prefixes : List WP) (ji : Nat × Nat) : Out WP := do
  let j := ji.1
  let i := ji.2
  let i1 ← uadd i 1
  let ks := (((GcdLit.enumFrom 0 prefixes).take i1).drop j).reverse
  let (count, acc) ← buildLoop E i ks 0 none
  let pj ← idx prefixes j                                -- `prefixes[j].lower`
  let pi ← idx prefixes i                                -- `prefixes[i].upper`, `prefixes[i].run_len_jumpstart`
  let ci ← idx E.cum i1                                  -- `cum_weight[i + 1]`
  let cj ← idx E.cum j                                   -- `cum_weight[j]`
  let w ← usub ci cj
  pure { count := count, weight := w, lower := pj.lower, upper := pi.upper, jump := pi.jump,
         gcd := acc.getD 1, code := [] }

/-- `for &(j, i) in path { .. res.push(..) }` -/
def buildAll {C : Type} (E : OptEnv C) (prefixes : List WP) : List (Nat × Nat) → Out (List WP)
  | [] => .ok []
  | ji :: rest => do
    let wp ← buildOne E prefixes ji
    let tl ← buildAll E prefixes rest
    pure (wp :: tl)

/-- the vectors `optimize_prefixes` prepares before its loops -/
def mkEnv {C : Type} (ub : Nat) (wprefixes : List WP) (useGcds : Bool) : Out (OptEnv C) := do
  let (c, cum) ← cumLoop wprefixes 0 [0]
  let foldGcd ← GcdLit.useGcdPrefixOptimize ub (wprefixes.map WP.gp) useGcds
  pure { lowers := wprefixes.map (·.lower), uppers := wprefixes.map (·.upper), gcds := wprefixes.map (·.gcd),
         cum := cum, total := c, foldGcd := foldGcd, rep := repIdx wprefixes }

/-- `optimize_prefixes(wprefixes, flags, n)`; `n` and the rest of `flags` only enter `base_meta_cost`, which is
inside the oracle -/
def optimizeLit {C : Type} (O : CostOracle C) (ub : Nat) (wprefixes : List WP) (useGcds : Bool) :
    Out (List WP) := do
  let E ← mkEnv (C := C) ub wprefixes useGcds
  let st ← dpRun O E wprefixes.length
  let path ←
    match st.bestPaths.getLast? with                     -- `best_paths.last().unwrap()`
    | some p => Out.ok p
    | none => Out.panic
  buildAll E wprefixes path

/-! ## `make_huffman_code` (huffman_encoding.rs) -/

structure HItem where
  id : Nat
  weight : Nat
  leftId : Option Nat
  rightId : Option Nat
  leafId : Option Nat
  bits : Bits
  deriving DecidableEq, Repr, Inhabited

/-- `HuffmanItem::new(weight, id)` -/
def HItem.new (weight id : Nat) : HItem :=
  { id := id, weight := weight, leftId := none, rightId := none, leafId := some id, bits := [] }

/-- `HuffmanItem::new_parent_of(tree0, tree1, id)` -/
def HItem.newParentOf (t0 t1 : HItem) (id : Nat) : Out HItem := do
  let w ← uadd t0.weight t1.weight                       -- `tree0.weight + tree1.weight`
  pure { id := id, weight := w, leftId := some t0.id, rightId := some t1.id, leafId := none, bits := [] }

/-- the `BinaryHeap`: its content in insertion order, and how many `pop`s were made -/
structure Heap where
  items : List HItem
  pops : Nat
  deriving Repr

def Heap.push (h : Heap) (x : HItem) : Heap := { h with items := h.items ++ [x] }

/-- `heap.pop()` -/
def Heap.pop (pick : Nat → List HItem → Nat) (h : Heap) : Option (HItem × Heap) :=
  let k := pick h.pops h.items
  match h.items[k]? with
  | some x => some (x, { items := h.items.eraseIdx k, pops := h.pops + 1 })
  | none => none

/-- `.unwrap()` -/
def unwrap {α : Type} : Option α → Out α
  | some x => .ok x
  | none => .panic

/-- what `BinaryHeap::pop` guarantees: on a non-empty heap, an element no other is `Ord`-greater than,
i.e. of least weight -/
def PickOK (pick : Nat → List HItem → Nat) : Prop :=
  ∀ (t : Nat) (items : List HItem), items ≠ [] →
    ∃ x, items[pick t items]? = some x ∧ ∀ y ∈ items, x.weight ≤ y.weight

/-- the first element of least weight: one valid heap -/
def pickFirstMin (_t : Nat) (items : List HItem) : Nat :=
  match items with
  | [] => 0
  | x :: rest =>
    let m := rest.foldl (fun m y => min m y.weight) x.weight
    items.findIdx fun y => y.weight == m

/-- `for _ in 0..(n - 1)` on the number of iterations left; state `(heap, items, id)` -/
def mergeLoop (pick : Nat → List HItem → Nat) : Nat → Heap → List HItem → Nat → Out (Heap × List HItem × Nat)
  | 0, heap, items, id => .ok (heap, items, id)
  | k + 1, heap, items, id => do
    let (small0, heap) ← unwrap (heap.pop pick)          -- `heap.pop().unwrap()`
    let (small1, heap) ← unwrap (heap.pop pick)
    let newItem ← HItem.newParentOf small0 small1 id
    let id' ← uadd id 1                                  -- `id += 1`
    mergeLoop pick k (heap.push newItem) (items ++ [newItem]) id'

/-- `l[i] = v` for the field assignments through an index -/
def setIdx {α : Type} (l : List α) (i : Nat) (f : α → α) : Out (List α) :=
  match l[i]? with
  | some x => .ok (l.set i (f x))
  | none => .panic

/-- `self.create_bits_from(bits, item_idx, leaf_idx)`.  The Rust recursion descends along `left_id`/`right_id`;
`fuel` bounds its depth (`fuel = 0` is a `.panic`, which `makeHuffmanLit_is_huffRun` — through `Huff.cb_spec` —
shows unreachable from `make_huffman_code`, where `fuel = items.len()`: children have smaller ids). -/
def createBitsFrom : Nat → HItem → Bits → List HItem → List WP → Out (List HItem × List WP)
  | 0, _, _, _, _ => .panic
  | fuel + 1, self, bits, items, leafs => do
    let items ← setIdx items self.id fun it => { it with bits := bits }   -- `item_idx[self.id].bits = bits.clone()`
    if self.leafId.isSome then do
      let lid ← unwrap self.leafId
      let leafs ← setIdx leafs lid fun p => { p with code := bits }       -- `leaf_idx[..].prefix.code = bits`
      pure (items, leafs)
    else do
      let leftBits := bits ++ [false]
      let rightBits := bits ++ [true]
      let l ← unwrap self.leftId
      let li ← idx items l                                                -- `item_idx[self.left_id.unwrap()].clone()`
      let (items, leafs) ← createBitsFrom fuel li leftBits items leafs
      let r ← unwrap self.rightId
      let ri ← idx items r
      createBitsFrom fuel ri rightBits items leafs

/-- `make_huffman_code(prefix_sequence)`; answers the new content of `prefix_sequence` -/
def makeHuffmanLit (pick : Nat → List HItem → Nat) (prefixSequence : List WP) : Out (List WP) := do
  let n := prefixSequence.length
  -- `for (i, prefix) in prefix_sequence.iter().enumerate() { heap.push(item.clone()); items.push(item) }`
  let items := (GcdLit.enumFrom 0 prefixSequence).map fun ip => HItem.new ip.2.weight ip.1
  let heap : Heap := { items := items, pops := 0 }
  let iters ← usub n 1                                   -- `prefix_sequence.len() - 1`
  let (heap, items, _) ← mergeLoop pick iters heap items n
  let (headNode, _) ← unwrap (heap.pop pick)             -- `heap.pop().unwrap()`
  let (_, leafs) ← createBitsFrom items.length headNode [] items prefixSequence
  pure leafs

/-! ## `train_prefixes` (compressor.rs:282-325) -/

/-- `for p in &mut prefixes { if !gcd_fits_in_prefix_meta(p) { p.gcd = ONE } }` -/
def postPass (ub : Nat) (gb : Nat → Nat) : List Prefix → Out (List Prefix)
  | [] => .ok []
  | p :: rest => do
    let fits ← GcdLit.gcdFitsInPrefixMeta ub gb (gpOfPrefix p)
    let p' := if !fits then { p with gcd := 1 } else p
    let tl ← postPass ub gb rest
    pure (p' :: tl)

/-- `MAX_ENTRIES` -/
def MAX_ENTRIES : Nat := 2 ^ 24 - 1

/-- `train_prefixes(unsigneds, internal_config, flags, n)`: `ok none` is `Err(invalid_argument)` -/
def trainLit {C : Type} (F : Floats) (O : CostOracle C) (pick : Nat → List HItem → Nat) (ub : Nat)
    (gb : Nat → Nat) (unsigneds : List Nat) (compLevel : Nat) (useGcds : Bool) (n : Nat) :
    Out (Option (List Prefix)) :=
  if unsigneds.isEmpty then .ok (some [])
  else if 12 < compLevel then .ok none                   -- `validate_chunk_args`
  else if MAX_ENTRIES < n then .ok none
  else do
    let sorted := unsigneds.mergeSort (fun a b => decide (a ≤ b))   -- `sorted.sort_unstable()`
    let unoptimized ← chooseUnoptimizedLit F sorted compLevel useGcds
    let optimized ← optimizeLit O ub unoptimized useGcds
    let coded ← makeHuffmanLit pick optimized
    let prefixes := coded.map WP.toPrefix
    if useGcds && (GcdLit.commonGcdForChunkMeta (prefixes.map gpOfPrefix)).isNone then do
      let ps ← postPass ub gb prefixes
      pure (some ps)
    else pure (some prefixes)

/-- the `hasCommon` the judge `Train.explains` is given: is there a common GCD field -/
def hasCommonLit (useGcds : Bool) (ps : List Prefix) : Bool :=
  useGcds && (GcdLit.commonGcdForChunkMeta (ps.map gpOfPrefix)).isSome

/-! ## the library's own unit tests, and the examples of `Qco/Train/Model.lean` -/

section Sanity

/-- the real `prefix_bit_cost` with hardware floats (Lean's `Float` is the platform's `f64`), for the tests only;
`base = base_meta_cost`, `gb = gcd_bits_required` -/
private def bumpyLog (x : Float) : Float :=
  let k := x.log2.toUInt64.toNat
  Float.ofNat (k + 2) - Float.ofNat (2 ^ (k + 1)) / x

private def floatCost (base : Float) : CostOracle Float where
  zero := 0.0
  top := 1.7976931348623157e308
  add := (· + ·)
  lt := fun a b => a < b
  pbc := fun lower upper weight total gcd =>
    let offsetCost := bumpyLog (Float.ofNat ((upper - lower) / gcd) + 1.0)
    let huffmanCost := (Float.ofNat total / Float.ofNat weight).log2
    let gcdCost := if gcd > 1 then (Float.ofNat (upper - lower)).log2.ceil else 0.0
    base + gcdCost + huffmanCost + (offsetCost + huffmanCost) * Float.ofNat weight

/-- `basic_flags()`, `n = 100`, `i32`: `7 + 2·32 + 5 + 1 + 1` -/
private def testCost : CostOracle Float := floatCost 78.0

private def wp (count weight lower upper : Nat) (jump : Option Nat) (gcd : Nat) : WP :=
  { count := count, weight := weight, lower := lower, upper := upper, jump := jump, gcd := gcd }

-- prefix_optimization.rs `test_optimize_trivial_ranges_gcd`
#guard optimizeLit testCost 32 [wp 1 1 1000 1000 none 1, wp 1 1 2000 2000 none 1] true
  = .ok [wp 2 2 1000 2000 none 1000]
-- `test_optimize_single_nontrivial_range_gcd`
#guard optimizeLit testCost 32 [wp 100 100 1000 2000 none 10, wp 1 1 2100 2100 none 1] true
  = .ok [wp 101 101 1000 2100 none 10]
-- `test_optimize_nontrivial_ranges_gcd`
#guard optimizeLit testCost 32 [wp 5 5 1000 1100 none 10, wp 5 5 1105 1135 none 15] true
  = .ok [wp 10 10 1000 1135 none 5]
-- `test_optimize_nontrivial_misaligned_ranges_gcd`
#guard optimizeLit testCost 32 [wp 100 100 1000 1100 none 10, wp 100 100 1101 1201 none 10] true
  = .ok [wp 100 100 1000 1100 none 10, wp 100 100 1101 1201 none 10]
-- no prefixes: `best_paths.last()` is the initial empty path
#guard optimizeLit testCost 32 [] true = .ok []

private def uncoded (weight : Nat) : WP := wp 0 weight 0 0 none 1

-- huffman_encoding.rs `test_make_huffman_code_single`, `test_make_huffman_code`
#guard makeHuffmanLit pickFirstMin [uncoded 100] = .ok [uncoded 100]
#guard (makeHuffmanLit pickFirstMin [uncoded 1, uncoded 6, uncoded 2, uncoded 4, uncoded 5]) =
  .ok [{ uncoded 1 with code := [false, false, false] }, { uncoded 6 with code := [true, true] },
       { uncoded 2 with code := [false, false, true] }, { uncoded 4 with code := [false, true] },
       { uncoded 5 with code := [true, false] }]
-- no prefix at all: `prefix_sequence.len() - 1` underflows
#guard makeHuffmanLit pickFirstMin [] = .panic

#guard chooseMaxNPrefixesLit Floats.exact 6 10 = .ok 1 ∧ chooseMaxNPrefixesLit Floats.exact 8 10 = .ok 4 ∧
  chooseMaxNPrefixesLit Floats.exact 12 5000 = .ok 2048 ∧ chooseMaxNPrefixesLit Floats.exact 100 (2 ^ 70) = .panic

private def s1 : List Nat := [0, 0, 0, 0, 4, 8, 8, 12, 100, 100]
private def s2 : List Nat := List.replicate 100 3 ++ List.replicate 1800 7 ++ List.replicate 100 9

#guard (chooseUnoptimizedLit Floats.exact s1 8 true) =
  .ok [wp 4 4 0 0 none 1, wp 1 1 4 4 none 1, wp 2 2 8 8 none 1, wp 3 3 12 100 none 88]
#guard (match chooseUnoptimizedLit Floats.exact s1 8 true with
  | .ok l => l.map WP.toRaw = Train.rawPrefixes s1 8 true
  | .panic => false)
#guard (match chooseUnoptimizedLit Floats.exact s2 8 true with
  | .ok l => l.map WP.toRaw = Train.rawPrefixes s2 8 true ∧ l.map (·.weight) = [100, 180, 100]
  | .panic => false)
#guard chooseUnoptimizedLit Floats.exact [] 8 true = .panic      -- `/ n_unsigneds`; `train_prefixes` returns before

/-- the three float computations of compressor.rs with hardware floats (Lean's `Float` is the platform's `f64`,
`toUInt64` saturates like `as usize`), to TEST the hypotheses `FloatsAgree`, `RunWeightOK` -/
private def Floats.hw : Floats where
  log2Floor := fun n => (Float.ofNat n).log2.floor.toUInt64.toNat
  freqLt := fun count n => Float.ofNat count / Float.ofNat n < 0.8
  runLen := fun count n =>
    let freq := Float.ofNat count / Float.ofNat n
    let nonFreq := 1.0 - freq
    (((freq * nonFreq * Float.ofNat n).ceil).toUInt64.toNat, min ((-nonFreq.log2).ceil).toUInt64.toNat 24)

/-- do the hardware floats agree with the integer readings for this `n`, on the given counts -/
private def agreeOn (n : Nat) (counts : List Nat) : Bool :=
  Floats.hw.log2Floor n == Nat.log2 n &&
  counts.all fun count =>
    (Floats.hw.freqLt count n == decide (5 * count < 4 * n)) &&
    (!(decide (count < n) && decide (4 * n ≤ 5 * count) && decide (1001 ≤ n)) ||
      ((Floats.hw.runLen count n).2 == Train.jumpstart n count && decide ((Floats.hw.runLen count n).1 ≤ count)
        && decide (1 ≤ (Floats.hw.runLen count n).1)))

/-- counts around the 0.8 threshold, around every `n − n/2^k`, and near `n` -/
private def edgeCounts (n : Nat) : List Nat :=
  let around (c : Nat) : List Nat := [c - 2, c - 1, c, c + 1, c + 2].filter (· ≤ n)
  around (4 * n / 5) ++ around n ++ ((List.range 25).map fun k => around (n - n / 2 ^ k)).flatten

-- every `n ≤ 2500` with every count; large `n` (powers of two and neighbours, `MAX_ENTRIES`) on the edges
#guard (List.range 2501).all fun n => agreeOn n (List.range (n + 1))
#guard ((List.range 25).map fun k => [2 ^ k - 1, 2 ^ k, 2 ^ k + 1, 3 * 2 ^ k / 2]).flatten.all fun n =>
  n = 0 || MAX_ENTRIES < n || agreeOn n (edgeCounts n)
#guard agreeOn MAX_ENTRIES (edgeCounts MAX_ENTRIES) && agreeOn 1000000 (edgeCounts 1000000) &&
  agreeOn 10000 (List.range 10001) && agreeOn 65536 (List.range 65537)

private def gbEx : Nat → Nat := fun r => if r ≤ 1 then 0 else Nat.log2 (r - 1) + 1

#guard (match trainLit Floats.exact (floatCost 40.0) pickFirstMin 32 gbEx s1 8 true 10 with
  | .ok (some ps) => Train.explains s1 8 true (hasCommonLit true ps) gbEx ps
  | _ => false)
#guard (match trainLit Floats.exact (floatCost 40.0) pickFirstMin 32 gbEx s2.reverse 8 true 2000 with
  | .ok (some ps) => Train.explains s2 8 true (hasCommonLit true ps) gbEx ps
  | _ => false)
#guard trainLit Floats.exact testCost pickFirstMin 32 gbEx [] 8 true 0 = .ok (some [])
#guard trainLit Floats.exact testCost pickFirstMin 32 gbEx [1] 13 true 1 = .ok none

end Sanity

end TrainLit
end Qco
