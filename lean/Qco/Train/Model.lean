/-
Layer T: executable model of the training stage (`train_prefixes`, compressor.rs:282-325), i.e.
what turns the sorted unsigned numbers of a chunk into a prefix table:

  (1) `choose_unoptimized_prefixes` + `push_pref` (compressor.rs:160-258): quantile cuts
      (`Qco/Train/Cuts.lean`), one raw prefix per slice — `rawPrefixes`;
  (2) `optimize_prefixes` (prefix_optimization.rs:31-142): merges CONSECUTIVE raw prefixes. Which
      groups are merged is decided by `f64` costs: an ORACLE here. What a merged group looks like
      (`mergeGroup`) is deterministic: counts add up, divisors are folded right to left with
      `fold_prefix_gcds_left` (gcd_utils.rs:134-156), or all stay 1 when `use_gcd_prefix_optimize`
      (gcd_utils.rs:66-88) says folding is pointless;
  (3) `make_huffman_code`: the codes are an ORACLE (only "complete prefix-free tree" is checked);
  (4) the post-pass of `train_prefixes` (compressor.rs:315-323): without a common GCD, a divisor
      that does not fit the prefix's own field becomes 1.

`explains` decides whether an observed table is what this pipeline can answer for SOME oracle.
Everything is executable; the theorems are in `Qco/Properties/C10t.lean`.
-/
import Qco.Train.Cuts
import Qco.Train.WFc
namespace Qco
namespace Train

/-! ### (0) `choose_max_n_prefixes` (compressor.rs:211-216) -/

/-- `MAX_COMPRESSION_LEVEL = 12`; `floor(log2 n)` is `Nat.log2 n` (exact for `n ≤ 2^24`;
`n = 0` never reaches this function, and both sides answer 0 there) -/
def chooseMaxNPrefixes (level n : Nat) : Nat :=
  let logN := Nat.log2 n
  let maxCompLevelForN := min 12 (logN / 2 + 5)
  let realCompLevel := level - (12 - maxCompLevelForN)   -- `saturating_sub`
  min (2 ^ realCompLevel) n

/-! ### (1) raw prefixes: `push_pref` (compressor.rs:160-205) -/

structure Raw where
  count : Nat
  lower : Nat
  upper : Nat
  gcd : Nat
  jump : Option Nat
  deriving DecidableEq, Repr, Inhabited

/-- `&sorted[b..e]` -/
def sliceOf (sorted : List Nat) (b e : Nat) : List Nat := (sorted.drop b).take (e - b)

/-- `gcd_utils::gcd` (gcd_utils.rs:21-35) on a non-empty sorted slice. `pair_gcd a b` with `b > 0`
is `Nat.gcd a b`; the early `break` at `res == 1` does not change the value (`gcd _ 1 = 1`). -/
def sliceGcd (slice : List Nat) : Nat :=
  let lower := slice.headD 0
  let upper := slice.getLastD 0
  if lower = upper then 1
  else slice.tail.foldl (fun res x => Nat.gcd res (x - lower)) (upper - lower)

def jumpstartGo (n d : Nat) : Nat → Nat → Nat
  | 0, j => j
  | fuel + 1, j => if n ≤ 2 ^ j * d then j else jumpstartGo n d fuel (j + 1)

/-- `choose_run_len_jumpstart(count, n).jumpstart = min(ceil(-log2(1 - count/n)), 24)` in integers:
the least `j` with `2^j · (n - count) ≥ n`, capped at `MAX_JUMPSTART = 24` -/
def jumpstart (n count : Nat) : Nat := jumpstartGo n (n - count) 24 0

/-- the library's rule (compressor.rs:180): a run-length jumpstart unless
`n < 1001 ∨ count / n < 0.8 ∨ count = n` -/
def usesRunLen (n count : Nat) : Bool :=
  decide (1001 ≤ n) && decide (4 * n ≤ 5 * count) && decide (count ≠ n)

/-- `push_pref(buffer, b, e)`: the raw prefix of the slice `sorted[b..e]` -/
def mkRaw (sorted : List Nat) (gcds : Bool) (be : Nat × Nat) : Raw :=
  let n := sorted.length
  let count := be.2 - be.1
  { count := count
    lower := sorted.getD be.1 0
    upper := sorted.getD (be.2 - 1) 0
    gcd := if gcds then sliceGcd (sliceOf sorted be.1 be.2) else 1
    jump := if usesRunLen n count then some (jumpstart n count) else none }

/-- `choose_unoptimized_prefixes` (compressor.rs:218-258); `train_prefixes` answers the empty table
for no numbers before getting here -/
def rawPrefixes (sorted : List Nat) (level : Nat) (gcds : Bool) : List Raw :=
  if sorted.isEmpty then []
  else
    let n := sorted.length
    (cuts (fun i => sorted.getD i 0) n (chooseMaxNPrefixes level n)).map (mkRaw sorted gcds)

/-! ### (2) `optimize_prefixes`: what a merged group looks like -/

/-- `fold_prefix_gcds_left` (gcd_utils.rs:134-156) -/
def foldGcdLeft (leftLower leftUpper leftGcd rightUpper : Nat) (acc : Option Nat) : Option Nat :=
  let acc1 : Option Nat :=
    if leftUpper ≠ rightUpper then
      some (match acc with
        | some g => Nat.gcd (rightUpper - leftUpper) g
        | none => rightUpper - leftUpper)
    else acc
  if leftUpper ≠ leftLower then
    some (match acc1 with
      | some g => Nat.gcd leftGcd g
      | none => leftGcd)
  else acc1

/-- second loop of `use_gcd_prefix_optimize`: two neighbouring single-valued ranges more than 1 apart -/
def adjSingleGap : List Raw → Bool
  | pj :: pi :: rest =>
    (pi.lower == pi.upper && pj.lower == pj.upper && decide (pj.upper + 1 < pi.lower))
      || adjSingleGap (pi :: rest)
  | _ => false

/-- `use_gcd_prefix_optimize` (gcd_utils.rs:66-88) -/
def useGcdOptimize (raws : List Raw) (gcds : Bool) : Bool :=
  if !gcds then false
  else if raws.any (fun p => decide (p.gcd > 1)) then true
  else adjSingleGap raws

/-- the accumulator of the second loop of `optimize_prefixes` (prefix_optimization.rs:111-124):
`k` runs from the group's last raw prefix down to its first -/
def foldAcc (rightUpper : Nat) (grp : List Raw) : Option Nat :=
  grp.foldr (fun r acc => foldGcdLeft r.lower r.upper r.gcd rightUpper acc) none

/-- the prefix `optimize_prefixes` builds for the consecutive raw prefixes `grp = raws[j..=i]` -/
def mergeGroup (fold : Bool) (grp : List Raw) : Raw :=
  let first := grp.headD default
  let last := grp.getLastD default
  { count := (grp.map (·.count)).sum
    lower := first.lower
    upper := last.upper
    gcd := if fold then (foldAcc last.upper grp).getD 1 else 1
    jump := last.jump }

def mergeAll (fold : Bool) (groups : List (List Raw)) : List Raw := groups.map (mergeGroup fold)

/-- a raw prefix with a jumpstart is never merged with others (`start_j`, prefix_optimization.rs:82-86) -/
def soloJump (grp : List Raw) : Bool := grp.length == 1 || grp.all (fun r => r.jump.isNone)

/-- the table the pipeline answers for the oracle `groups` (consecutive groups of raw prefixes) and
`codes`, before the post-pass -/
def Raw.toPrefix (r : Raw) (code : Bits) : Prefix :=
  { count := r.count, lower := r.lower, upper := r.upper, code := code, jump := r.jump, gcd := r.gcd }

def Raw.ofPrefix (p : Prefix) : Raw :=
  { count := p.count, lower := p.lower, upper := p.upper, gcd := p.gcd, jump := p.jump }

/-! ### (4) + the judge: can the pipeline answer `observed`? -/

/-- the shortest non-empty run of leading raw prefixes whose last upper bound is `U` -/
def takeGroup (U : Nat) : List Raw → Option (List Raw × List Raw)
  | [] => none
  | r :: rest =>
    if r.upper = U then some ([r], rest)
    else match takeGroup U rest with
      | some (g, t) => some (r :: g, t)
      | none => none

/-- divisor after the post-pass of `train_prefixes`: without a common field, a divisor that does
not fit the prefix's own field is replaced by 1 -/
def postGcd (hasCommon : Bool) (gb : Nat → Nat) (p : Prefix) (merged : Nat) : Nat :=
  if !hasCommon && !gcdFits gb p merged then 1 else merged

/-- `none` = the observed prefix `p` is the merge of the group `g`; otherwise the first complaint -/
def checkGroup (fold hasCommon : Bool) (gb : Nat → Nat) (p : Prefix) (g : List Raw) : Option String :=
  let m := mergeGroup fold g
  if p.lower ≠ m.lower then
    some s!"range [{p.lower}, {p.upper}]: the raw prefixes left start at {m.lower}"
  else if p.upper ≠ m.upper then
    some s!"range [{p.lower}, {p.upper}]: group ends at {m.upper}"
  else if p.count ≠ m.count then
    some s!"range [{p.lower}, {p.upper}]: count {p.count}, merged count {m.count}"
  else if p.jump ≠ m.jump then
    some s!"range [{p.lower}, {p.upper}]: jumpstart {p.jump}, merged jumpstart {m.jump}"
  else if !soloJump g then
    some s!"range [{p.lower}, {p.upper}]: a raw prefix with a jumpstart was merged with others"
  else if p.gcd = 0 then
    some s!"range [{p.lower}, {p.upper}]: divisor 0"
  else if p.lower = p.upper then none   -- divisor of a single-valued range: not significant
  else if p.gcd ≠ postGcd hasCommon gb p m.gcd then
    some s!"range [{p.lower}, {p.upper}]: divisor {p.gcd}, merged divisor {m.gcd}, after the post-pass {postGcd hasCommon gb p m.gcd}"
  else none

/-- walk the raw prefixes left to right along the observed prefixes (sorted by lower bound) -/
def walkErr (fold hasCommon : Bool) (gb : Nat → Nat) : List Raw → List Prefix → Option String
  | raws, [] =>
    if raws.isEmpty then none
    else some s!"{raws.length} raw prefixes are not covered by the observed table"
  | raws, p :: ps =>
    match takeGroup p.upper raws with
    | none => some s!"range [{p.lower}, {p.upper}]: no run of the raw prefixes left ends at {p.upper}"
    | some (g, rest) =>
      match checkGroup fold hasCommon gb p g with
      | some e => some e
      | none => walkErr fold hasCommon gb rest ps

def sortByLower (ps : List Prefix) : List Prefix := ps.mergeSort (fun a b => decide (a.lower ≤ b.lower))

/-- `none` = `observed` (in any order) is what the pipeline can answer for SOME oracle -/
def explainsErr (sorted : List Nat) (level : Nat) (gcds : Bool) (hasCommon : Bool) (gb : Nat → Nat)
    (observed : List Prefix) : Option String :=
  let raws := rawPrefixes sorted level gcds
  let maxN := chooseMaxNPrefixes level sorted.length
  if !treeB observed then some "codes are not a complete prefix-free tree"
  else if maxN < observed.length then some s!"{observed.length} prefixes, at most {maxN} allowed"
  else walkErr (useGcdOptimize raws gcds) hasCommon gb raws (sortByLower observed)

def explains (sorted : List Nat) (level : Nat) (gcds : Bool) (hasCommon : Bool) (gb : Nat → Nat)
    (observed : List Prefix) : Bool :=
  (explainsErr sorted level gcds hasCommon gb observed).isNone

def explainsWhy (sorted : List Nat) (level : Nat) (gcds : Bool) (hasCommon : Bool) (gb : Nat → Nat)
    (observed : List Prefix) : String :=
  (explainsErr sorted level gcds hasCommon gb observed).getD "ok"

/-! ### sanity checks on hand-made examples (`#guard` = `#eval` that must answer `true`) -/

section Sanity

/-- `gcd_bits_required(range) = ceil(log2(range))` in integers, for the examples only -/
private def gbEx : Nat → Nat := fun r => if r ≤ 1 then 0 else Nat.log2 (r - 1) + 1

#guard chooseMaxNPrefixes 6 10 = 1 ∧ chooseMaxNPrefixes 8 10 = 4 ∧ chooseMaxNPrefixes 8 100 = 16 ∧
  chooseMaxNPrefixes 12 5000 = 2048 ∧ chooseMaxNPrefixes 8 2000 = 64 ∧ chooseMaxNPrefixes 0 7 = 1

#guard jumpstart 2000 1800 = 4 ∧ jumpstart 2048 2047 = 11 ∧ jumpstart 3000 2999 = 12 ∧
  jumpstart 1001 801 = 3 ∧ jumpstart (2 ^ 24) (2 ^ 24 - 1) = 24 ∧ jumpstart (2 ^ 25) (2 ^ 25 - 1) = 24

-- the library's own tests (gcd_utils.rs `test_gcd`, prefix_optimization.rs tests)
#guard sliceGcd [0, 4, 6, 8, 10] = 2 ∧ sliceGcd [0, 4, 6, 8, 10, 11] = 1 ∧ sliceGcd [7, 7] = 1
#guard mergeGroup true [⟨1, 1000, 1000, 1, none⟩, ⟨1, 2000, 2000, 1, none⟩] = ⟨2, 1000, 2000, 1000, none⟩
#guard mergeGroup true [⟨100, 1000, 2000, 10, none⟩, ⟨1, 2100, 2100, 1, none⟩] = ⟨101, 1000, 2100, 10, none⟩
#guard mergeGroup true [⟨5, 1000, 1100, 10, none⟩, ⟨5, 1105, 1135, 15, none⟩] = ⟨10, 1000, 1135, 5, none⟩
#guard mergeGroup true [⟨100, 1000, 1100, 10, none⟩, ⟨100, 1101, 1201, 10, none⟩] = ⟨200, 1000, 1201, 1, none⟩
#guard useGcdOptimize [⟨1, 1000, 1000, 1, none⟩, ⟨1, 2000, 2000, 1, none⟩] true = true
#guard useGcdOptimize [⟨1, 1000, 1000, 1, none⟩, ⟨1, 1001, 1001, 1, none⟩] true = false
#guard useGcdOptimize [⟨1, 1000, 1000, 1, none⟩, ⟨1, 2000, 2000, 1, none⟩] false = false

/-- ten numbers, level 8 → at most 4 slices; hand-run of `choose_unoptimized_prefixes` gives the
slices `[0,4) [4,5) [5,7) [7,10)` -/
private def s1 : List Nat := [0, 0, 0, 0, 4, 8, 8, 12, 100, 100]

#guard rawPrefixes s1 8 true =
  [⟨4, 0, 0, 1, none⟩, ⟨1, 4, 4, 1, none⟩, ⟨2, 8, 8, 1, none⟩, ⟨3, 12, 100, 88, none⟩]
#guard rawPrefixes [1, 2, 3, 4, 5, 6, 7, 8, 9, 10] 8 false =
  [⟨2, 1, 2, 1, none⟩, ⟨3, 3, 5, 1, none⟩, ⟨2, 6, 7, 1, none⟩, ⟨3, 8, 10, 1, none⟩]
#guard rawPrefixes [] 8 true = [] ∧ rawPrefixes [5, 5, 5] 8 true = [⟨3, 5, 5, 1, none⟩]

-- nothing merged
#guard explains s1 8 true false gbEx
  [⟨4, 0, 0, [false, false], none, 1⟩, ⟨1, 4, 4, [false, true], none, 1⟩,
   ⟨2, 8, 8, [true, false], none, 1⟩, ⟨3, 12, 100, [true, true], none, 88⟩]
-- a common field: single-valued ranges show the common value
#guard explains s1 8 true true gbEx
  [⟨4, 0, 0, [false, false], none, 88⟩, ⟨1, 4, 4, [false, true], none, 88⟩,
   ⟨2, 8, 8, [true, false], none, 88⟩, ⟨3, 12, 100, [true, true], none, 88⟩]
-- first three merged (divisor 4), table given in another order
#guard explains s1 8 true false gbEx [⟨3, 12, 100, [true], none, 88⟩, ⟨7, 0, 8, [false], none, 4⟩]
-- post-pass: 88 does not fit a 3-bit field, so 1 must be recorded
#guard explainsWhy s1 8 true false (fun _ => 3) [⟨3, 12, 100, [true], none, 88⟩, ⟨7, 0, 8, [false], none, 4⟩]
  = "range [12, 100]: divisor 88, merged divisor 88, after the post-pass 1"
#guard explains s1 8 true false (fun _ => 3) [⟨3, 12, 100, [true], none, 1⟩, ⟨7, 0, 8, [false], none, 4⟩]
-- everything merged; without GCDs every divisor is 1
#guard explains s1 8 true false gbEx [⟨10, 0, 100, [], none, 4⟩]
#guard explains s1 8 false false gbEx [⟨10, 0, 100, [], none, 1⟩]
-- rejected tables
#guard explainsWhy s1 8 true false gbEx [⟨3, 12, 100, [true], none, 88⟩, ⟨7, 0, 8, [false], none, 2⟩]
  = "range [0, 8]: divisor 2, merged divisor 4, after the post-pass 4"
#guard explainsWhy s1 8 true false gbEx [⟨3, 12, 100, [true], none, 88⟩, ⟨6, 0, 8, [false], none, 4⟩]
  = "range [0, 8]: count 6, merged count 7"
#guard explainsWhy s1 8 true false gbEx [⟨3, 12, 100, [true], none, 88⟩, ⟨7, 0, 9, [false], none, 4⟩]
  = "range [0, 9]: no run of the raw prefixes left ends at 9"
#guard explainsWhy s1 8 true false gbEx [⟨3, 12, 100, [true, true], none, 88⟩, ⟨7, 0, 8, [false], none, 4⟩]
  = "codes are not a complete prefix-free tree"
#guard explainsWhy s1 8 true false gbEx [⟨7, 0, 8, [], none, 4⟩]
  = "1 raw prefixes are not covered by the observed table"
#guard explainsWhy s1 6 true false gbEx [⟨3, 12, 100, [true], none, 88⟩, ⟨7, 0, 8, [false], none, 4⟩]
  = "2 prefixes, at most 1 allowed"
#guard explains [] 8 true false gbEx [] ∧ explains [5, 5, 5] 8 true true gbEx [⟨3, 5, 5, [], none, 7⟩]

/-- 2000 numbers, 90 % of them equal: the dominant value is a raw prefix of its own with jumpstart 4 -/
private def s2 : List Nat := List.replicate 100 3 ++ List.replicate 1800 7 ++ List.replicate 100 9

#guard rawPrefixes s2 8 true =
  [⟨100, 3, 3, 1, none⟩, ⟨1800, 7, 7, 1, some 4⟩, ⟨100, 9, 9, 1, none⟩]
#guard explains s2 8 true true gbEx
  [⟨100, 3, 3, [true, false], none, 1⟩, ⟨1800, 7, 7, [false], some 4, 1⟩, ⟨100, 9, 9, [true, true], none, 1⟩]
#guard explainsWhy s2 8 true true gbEx [⟨1900, 3, 7, [false], some 4, 4⟩, ⟨100, 9, 9, [true], none, 1⟩]
  = "range [3, 7]: a raw prefix with a jumpstart was merged with others"

end Sanity

end Train
end Qco
