/-
Layer T/C: what a chunk's metadata claims about the chunk (the C10 predicate `WFc`), the exact
GCD of a range (C18), the compressor's greedy grouping of numbers into blocks, and exact size
functions (C14). All executable and import-free; evaluated by the driver on every observed
`ChunkMetadata`, and the subject of the theorems in `Qco/Properties/C10.lean`, `C14.lean`, `C18.lean`.
-/
import Qco.Spec.File
namespace Qco

/-! ### delta encoding on patterns of the signed companion -/

def sDiff1 (ds : DType) : List Nat → List Nat
  | [] => []
  | [_] => []
  | a :: b :: rest => ds.sSub b a :: sDiff1 ds (b :: rest)

def sDiffN (ds : DType) : Nat → List Nat → List Nat
  | 0, xs => xs
  | k+1, xs => sDiffN ds k (sDiff1 ds xs)

/-- `nth_order_moments`: head of each difference level, zero once the level is empty -/
def sMoments (ds : DType) : Nat → List Nat → List Nat
  | 0, _ => []
  | k+1, xs => xs.headD 0 :: sMoments ds k (sDiff1 ds xs)

/-- the unsigned numbers a chunk's body codes, from the chunk's values -/
def codedUs (d : DType) (fl : Flags) (vals : List Nat) : List Nat :=
  if fl.order = 0 then vals.map d.toU
  else (sDiffN d.signed fl.order (vals.map d.toS)).map d.signed.toU

/-! ### the C10 predicate, conjunct by conjunct (all decidable, as `Bool`) -/

def Prefix.contains (p : Prefix) (u : Nat) : Bool := p.lower ≤ u && u ≤ p.upper

def boundsOk (ps : List Prefix) : Bool := ps.all fun p => p.lower ≤ p.upper

/-- pairwise disjoint ranges -/
def disjointB : List Prefix → Bool
  | [] => true
  | p :: ps => ps.all (fun q => p.upper < q.lower || q.upper < p.lower) && disjointB ps

/-- every number lies in some range -/
def coverB (ps : List Prefix) (us : List Nat) : Bool := us.all fun u => ps.any fun p => p.contains u

/-- each range's count is the number of values inside it -/
def countsB (ps : List Prefix) (us : List Nat) : Bool :=
  ps.all fun p => p.count == (us.filter p.contains).length

/-- every member is congruent to the lower bound modulo the recorded divisor -/
def congruentB (ps : List Prefix) (us : List Nat) : Bool :=
  ps.all fun p => p.gcd ≥ 1 && (us.filter p.contains).all fun u => (u - p.lower) % p.gcd == 0

def treeB (ps : List Prefix) : Bool := ps.isEmpty || completeTree (ps.map (·.code))

def leavesB (level : Nat) (ps : List Prefix) : Bool := ps.length ≤ 2 ^ level

def momentsB (d : DType) (fl : Flags) (vals : List Nat) (m : ChunkMeta) : Bool :=
  m.moments == sMoments d.signed fl.order (vals.map d.toS)

/-- exact divisor of a range's members: gcd of the distances from the lower bound (0 if single-valued) -/
def exactGcd (p : Prefix) (us : List Nat) : Nat :=
  (us.filter p.contains).foldl (fun g u => Nat.gcd g (u - p.lower)) 0

/-- does the divisor fit the per-prefix field of the frozen format -/
def gcdFits (gb : Nat → Nat) (p : Prefix) (g : Nat) : Bool := g - 1 < 2 ^ gb (p.upper - p.lower)

/-- C18(1): recorded divisor of every multi-valued range is exact, or 1 where the format cannot
represent the exact one (no common field and it does not fit the range's own field) -/
def gcdExactB (gb : Nat → Nat) (fl : Flags) (m : ChunkMeta) (us : List Nat) : Bool :=
  !fl.gcds || m.prefixes.all fun p =>
    let g := exactGcd p us
    g == 0 || p.gcd == g || (p.gcd == 1 && m.commonGcd.isNone && !gcdFits gb p g)

/-! ### the compressor's grouping of numbers into blocks -/

def findPrefix (ps : List Prefix) (u : Nat) : Option Nat := ps.findIdx? fun p => p.contains u

def Prefix.off (p : Prefix) (u : Nat) : Nat := (u - p.lower) / p.gcd

/-- greedy: a prefix with a jumpstart takes the maximal following run of numbers it contains -/
def greedyBlocks (ps : List Prefix) : Nat → List Nat → Option (List Block)
  | _, [] => some []
  | 0, _ :: _ => none
  | fuel+1, u :: rest =>
    match findPrefix ps u with
    | none => none
    | some i =>
      let p := ps.getD i default
      match p.jump with
      | none => (greedyBlocks ps fuel rest).map fun bs => Block.one i (p.off u) :: bs
      | some _ =>
        let run := rest.takeWhile p.contains
        let rest' := rest.dropWhile p.contains
        (greedyBlocks ps fuel rest').map fun bs => Block.run i (p.off u) (run.map p.off) :: bs

/-! ### exact sizes (bits) -/

def offsetBits (i : PInfo) (off : Nat) : Nat := (encOffset i.r i.k off).length

def bodyBits (ps : List Prefix) (bs : List Block) : Nat := (encBlocks (tableOf ps) bs).length

end Qco
