// usage: qco_pqgen <out.parquet> <dtype> <row_group_size>   (values on stdin, one per line:
// decimal integers for integer and timestamp types, hex bit patterns for f32/f64)
use std::io::BufRead;
use std::sync::Arc;

use arrow::array::*;
use arrow::datatypes::{DataType, Field, Schema, TimeUnit};
use arrow::record_batch::RecordBatch;
use parquet::arrow::ArrowWriter;
use parquet::file::properties::WriterProperties;

fn main() {
  let args: Vec<String> = std::env::args().collect();
  let (path, dtype, rg) = (&args[1], args[2].as_str(), args[3].parse::<usize>().unwrap());
  let lines: Vec<String> = std::io::stdin().lock().lines().map(|l| l.unwrap()).filter(|l| !l.trim().is_empty()).collect();
  let ints = || lines.iter().map(|l| l.trim().parse::<i128>().unwrap());
  let (dt, col): (DataType, ArrayRef) = match dtype {
    "i16" => (DataType::Int16, Arc::new(Int16Array::from(ints().map(|x| x as i16).collect::<Vec<_>>()))),
    "i32" => (DataType::Int32, Arc::new(Int32Array::from(ints().map(|x| x as i32).collect::<Vec<_>>()))),
    "i64" => (DataType::Int64, Arc::new(Int64Array::from(ints().map(|x| x as i64).collect::<Vec<_>>()))),
    "u16" => (DataType::UInt16, Arc::new(UInt16Array::from(ints().map(|x| x as u16).collect::<Vec<_>>()))),
    "u32" => (DataType::UInt32, Arc::new(UInt32Array::from(ints().map(|x| x as u32).collect::<Vec<_>>()))),
    "u64" => (DataType::UInt64, Arc::new(UInt64Array::from(ints().map(|x| x as u64).collect::<Vec<_>>()))),
    "f32" => (DataType::Float32, Arc::new(Float32Array::from(lines.iter().map(|l| f32::from_bits(u32::from_str_radix(l.trim(), 16).unwrap())).collect::<Vec<_>>()))),
    "f64" => (DataType::Float64, Arc::new(Float64Array::from(lines.iter().map(|l| f64::from_bits(u64::from_str_radix(l.trim(), 16).unwrap())).collect::<Vec<_>>()))),
    "micros" => (DataType::Timestamp(TimeUnit::Microsecond, None), Arc::new(TimestampMicrosecondArray::from_vec(ints().map(|x| x as i64).collect::<Vec<_>>(), None))),
    "nanos" => (DataType::Timestamp(TimeUnit::Nanosecond, None), Arc::new(TimestampNanosecondArray::from_vec(ints().map(|x| x as i64).collect::<Vec<_>>(), None))),
    _ => panic!("bad dtype"),
  };
  let n = col.len();
  let idx: ArrayRef = Arc::new(Int64Array::from((0..n as i64).collect::<Vec<_>>()));
  let schema = Arc::new(Schema::new(vec![Field::new("x", DataType::Int64, false), Field::new("a", dt, false)]));
  let batch = RecordBatch::try_new(schema.clone(), vec![idx, col]).unwrap();
  let props = WriterProperties::builder().set_max_row_group_size(rg.max(1)).build();
  let file = std::fs::File::create(path).unwrap();
  let mut writer = ArrowWriter::try_new(file, schema, Some(props)).unwrap();
  writer.write(&batch).unwrap();
  writer.close().unwrap();
}
