#!/usr/bin/env python3
"""Rewrites DESIGN.md section 13.6 (per-property claims as built) from MANIFEST.json."""
import json, os, re
V = os.path.dirname(os.path.dirname(os.path.abspath(__file__)))
m = json.load(open(os.path.join(V, "MANIFEST.json")))
rows = []
for c in m["checks"]:
    rows.append("* **%s** — *%s.* %s  \n  *Assumed / not covered:* %s" % (c["property_id"], c["technique"], c["level_claimed"]["text"], c["level_note"]))
block = "\n".join(rows)
p = os.path.join(V, "DESIGN.md")
s = open(p).read()
if "<!-- CLAIMS-BEGIN -->" not in s:
    s = s.replace("### 13.5 Seeded changes and which checks catch them", "### 13.6 What is claimed per property, as built\n\n(Generated from `MANIFEST.json` by `tools/design_claims.py`; supersedes the plans of section 7 where they differ.)\n\n<!-- CLAIMS-BEGIN -->\n<!-- CLAIMS-END -->\n\n### 13.5 Seeded changes and which checks catch them")
s = re.sub(r"<!-- CLAIMS-BEGIN -->.*?<!-- CLAIMS-END -->", lambda _: "<!-- CLAIMS-BEGIN -->\n" + block + "\n<!-- CLAIMS-END -->", s, flags=re.S)
open(p, "w").write(s)
print(len(rows))
