#!/usr/bin/env python3
"""Translator: re-extract the format constants, the data-type table and the tunables that
theorems mention from /repo's *working tree* and write lean/Qco/Generated/Constants.lean.
An item that cannot be found is an error (a broken tie), never a silent default."""
import re, sys, os

REPO = os.environ.get("QCO_REPO", "/repo")
SRC = os.path.join(REPO, "q_compress", "src")
OUT = os.path.join(os.path.dirname(os.path.abspath(__file__)), "..", "lean", "Qco", "Generated", "Constants.lean")

class Missing(Exception):
    pass

def read(rel):
    p = os.path.join(SRC, rel)
    try:
        return open(p).read()
    except OSError:
        raise Missing("file " + rel)

def strip_comments(s):
    return re.sub(r"//[^\n]*", "", s)

ITEM = re.compile(r"(?:pub(?:\([a-z]+\))?\s+)?const\s+([A-Z][A-Z0-9_]*)\s*:\s*([^=]+?)\s*=\s*([^;]+);", re.S)
PLAIN_TY = re.compile(r"^(usize|u8|u16|u32|u64|u128|i32|i64|i128|f64|f32|bool|\[\s*u8\s*;\s*\w+\s*\])$")

def const_items(rel):
    """top-level `const NAME: TYPE = EXPR;` items of plain types (macro bodies and associated consts are skipped)"""
    out = []
    for n, t, e in ITEM.findall(strip_comments(read(rel))):
        t, e = " ".join(t.split()), " ".join(e.split())
        if "$" in e or "$" in t or "Self" in e or not PLAIN_TY.match(t):
            continue
        out.append((n, t, e))
    return out

def rustc_eval(files):
    """Let the Rust compiler evaluate the constant items (any expression form: `3 * 8`, `*b"qco!"`, `b','`,
    `size_of::<usize>()`, shifts, references to other constants). Returns {file: {NAME: value}}; {} when rustc is
    unavailable or nothing compiles (the caller falls back to the small evaluator below)."""
    import hashlib, subprocess, tempfile
    build = os.path.join(os.path.dirname(os.path.abspath(__file__)), "..", "build")
    os.makedirs(build, exist_ok=True)
    per = {rel: const_items(rel) for rel in files}
    def program(sel):
        L = ["#![allow(unused, dead_code, non_upper_case_globals, unused_imports)]"]
        for k, rel in enumerate(files):
            L.append("mod m%d {" % k)
            L.append("  use std::mem::size_of; use std::cmp::{min, max};")
            if k > 0:
                L.append("  use super::m0::*;")
            for (n, t, e) in per[rel]:
                if (rel, n) in sel:
                    L.append("  pub const %s: %s = %s;" % (n, t, e))
            L.append("  pub fn dump() {")
            for (n, t, e) in per[rel]:
                if (rel, n) in sel:
                    L.append('    println!("%s\t%s\t{:?}", %s);' % (rel, n, n))
            L.append("  }")
            L.append("}")
        L.append("fn main() { %s }" % " ".join("m%d::dump();" % k for k in range(len(files))))
        return "\n".join(L) + "\n"
    def run(sel):
        src = program(sel)
        h = hashlib.sha256(src.encode()).hexdigest()[:16]
        exe = os.path.join(build, "consts_eval_" + h)
        if not os.path.exists(exe):
            rs = exe + ".rs"
            open(rs, "w").write(src)
            for old in os.listdir(build):
                if old.startswith("consts_eval_") and not old.startswith("consts_eval_" + h):
                    try: os.remove(os.path.join(build, old))
                    except OSError: pass
            p = subprocess.run(["rustc", "--edition", "2018", "-o", exe, rs], stdout=subprocess.PIPE, stderr=subprocess.PIPE, text=True)
            if p.returncode != 0:
                return None
        p = subprocess.run([exe], stdout=subprocess.PIPE, text=True)
        out = {}
        for line in p.stdout.split("\n"):
            f = line.split("\t")
            if len(f) == 3:
                out.setdefault(f[0], {})[f[1]] = f[2]
        return out
    allsel = {(rel, n) for rel in files for (n, t, e) in per[rel]}
    try:
        got = run(allsel)
        if got is None:
            # some item does not compile on its own (refers to crate items): keep the items that do, one by one on top
            # of the first file's constants
            base = {(files[0], n) for (n, t, e) in per[files[0]]}
            if run(base) is None:
                base = set()
            good = set(base)
            for rel in files[1:]:
                for (n, t, e) in per[rel]:
                    if run(good | {(rel, n)}) is not None:
                        good.add((rel, n))
            got = run(good) or {}
    except OSError:
        return {}
    def val(v):
        v = v.strip()
        if v.startswith("["):
            return [int(x) for x in re.findall(r"-?\d+", v)]
        if v in ("true", "false"):
            return v == "true"
        try:
            return int(v)
        except ValueError:
            return v       # floats stay text ("0.8")
    return {rel: {n: val(v) for n, v in d.items()} for rel, d in got.items()}

def ev(expr, env):
    """evaluate a small Rust constant expression"""
    e = expr.strip()
    e = re.sub(r"_(?:usize|u8|u16|u32|u64|u128|i64|i128|i32)\b", "", e)
    e = re.sub(r"(\d)_(\d)", r"\1\2", e)
    e = re.sub(r"(\d)_(\d)", r"\1\2", e)
    e = re.sub(r"\bas\s+(?:usize|u8|u16|u32|u64|u128|i64|i128|i32|f64)\b", "", e)
    e = e.replace("usize::BITS", "64")
    for k, v in sorted(env.items(), key=lambda kv: -len(kv[0])):
        e = re.sub(r"\b%s\b" % re.escape(k), "(%s)" % v, e)
    if not re.fullmatch(r"[\d\s+\-*/()<>.]+", e):
        raise Missing("cannot evaluate %r (-> %r)" % (expr, e))
    e = e.replace("/", "//") if "." not in e else e
    return eval(e, {"__builtins__": {}})

def consts(text, env=None):
    env = dict(env or {})
    out = {}
    for m in re.finditer(r"(?:pub(?:\([a-z]+\))?\s+)?const\s+([A-Z0-9_]+)\s*:\s*([^=]+?)=\s*([^;]+);", strip_comments(text)):
        name, ty, expr = m.group(1), m.group(2).strip(), m.group(3).strip()
        if ty.startswith("["):
            out[name] = [int(x) for x in re.findall(r"\d+", expr)]
            continue
        try:
            v = ev(expr, env)
        except Missing:
            continue
        out[name] = v
        env[name] = v
    return out

def need(d, k, where):
    if k not in d:
        raise Missing("%s in %s" % (k, where))
    return d[k]

def textual_dtypes():
    """fallback when the harness is not available: the data-type table from the macro invocations"""
    dts = []
    dt_dir = "data_types/"
    s = strip_comments(read(dt_dir + "signeds.rs"))
    for mm in re.finditer(r"^impl_signed!\((\w+),\s*(\w+),\s*(\d+)\);", s, re.M):
        t, u, hb = mm.groups()
        bits = int(t[1:]); assert u == "u" + t[1:]
        dts.append((t, int(hb), bits, bits, "int", 0))
    s = strip_comments(read(dt_dir + "unsigneds.rs"))
    for mm in re.finditer(r"^impl_unsigned_number!\((\w+),\s*(\w+),\s*(\d+)\);", s, re.M):
        t, sg, hb = mm.groups()
        bits = int(t[1:]); assert sg == "i" + t[1:]
        dts.append((t, int(hb), bits, bits, "uint", 0))
    s = strip_comments(read(dt_dir + "floats.rs"))
    for mm in re.finditer(r"^impl_float_number!\((\w+),\s*(\w+),\s*(\w+),\s*(\d+),\s*([^,]+),\s*(\d+)\);", s, re.M):
        t, sg, u, bits, mask, hb = mm.groups()
        bits = int(bits)
        assert sg == "i%d" % bits and u == "u%d" % bits and ev(mask, {}) == 1 << (bits - 1)
        dts.append((t, int(hb), bits, bits, "float", 0))
    s = strip_comments(read(dt_dir + "boolean.rs"))
    hb = re.search(r"const HEADER_BYTE: u8 = (\d+);", s); pb = re.search(r"const PHYSICAL_BITS: usize = (\d+);", s)
    ub = re.search(r"type Unsigned = u(\d+);", s)
    if not (hb and pb and ub):
        raise Missing("bool impl in boolean.rs")
    dts.append(("bool", int(hb.group(1)), int(pb.group(1)), int(ub.group(1)), "bool", 0))
    s = strip_comments(read(dt_dir + "timestamps.rs"))
    env = consts(s)
    pb = re.search(r"const PHYSICAL_BITS: usize = (\d+);", s); ub = re.search(r"type Unsigned = u(\d+);", s)
    for mm in re.finditer(r"^impl_timestamp!\((\w+),\s*([^,]+),\s*(\d+),", s, re.M):
        t, pps, hb = mm.groups()
        name = {"TimestampNanos": "nanos", "TimestampMicros": "micros"}[t]
        dts.append((name, int(hb), int(pb.group(1)), int(ub.group(1)), "int", ev(pps, env)))
    s = strip_comments(read(dt_dir + "timestamps_96.rs"))
    env = consts(s)
    pb = re.search(r"const PHYSICAL_BITS: usize = (\d+);", s); ub = re.search(r"type Unsigned = u(\d+);", s)
    mx = re.search(r"const MAX: i128 = \$parts_per_sec as i128 \* \(i64::MAX as i128 \+ 1\) - 1;", s)
    mn = re.search(r"const MIN: i128 = \$parts_per_sec as i128 \* \(i64::MIN as i128\);", s)
    if not (mx and mn):
        raise Missing("Timestamp96 MIN/MAX expressions")
    for mm in re.finditer(r"^impl_timestamp_96!\((\w+),\s*([^,]+),\s*(\d+),", s, re.M):
        t, pps, hb = mm.groups()
        name = {"TimestampNanos96": "nanos96", "TimestampMicros96": "micros96"}[t]
        dts.append((name, int(hb), int(pb.group(1)), int(ub.group(1)), "ts96", ev(pps, env)))
    dts.sort(key=lambda d: d[1])
    if len(dts) != 15:
        raise Missing("expected 15 NumberLike impls, found %d" % len(dts))


    return dts

NOTES = []

def harness_facts():
    """what the compiled library says (public API): data-type table, parts per second, defaults, flag bytes"""
    sys.path.insert(0, os.path.dirname(os.path.abspath(__file__)))
    from qco import common as C
    if not os.path.exists(C.HARNESS):
        return None
    a = C.run_lines(C.HARNESS, ["consts"], timeout=60)[0]
    if not a.startswith("dt:"):
        return None
    f = {"dt": [], "pps": {}, "flags": {}}
    for t in a.split(" "):
        x = t.split(":")
        if x[0] == "dt":
            f["dt"].append((x[1], int(x[2]), int(x[3]), int(x[4])))
        elif x[0] == "pps":
            f["pps"][x[1]] = int(x[2])
        elif x[0] == "flags":
            f["flags"][(int(x[1]), int(x[2]))] = x[3]
        elif x[0] in ("default_limit", "default_level"):
            f[x[0]] = int(x[1])
    probes = [0x80, 0x40, 0x20, 0x10, 0x08, 0x04, 0x02, 0x00]
    ans = C.run_lines(C.HARNESS, ["dops i32 100000 W71636f21%02x%02x H" % ([d for d in f["dt"] if d[0] == "i32"][0][1], b) for b in probes], timeout=60)
    f["parse"] = [x.split(" ; ")[-1].split("@")[0] for x in ans]
    return f

def main():
    files = ["constants.rs", "compressor.rs", "num_decompressor.rs", "auto.rs", "compression_table.rs"]
    rc = rustc_eval(files)
    def table(rel, env=None):
        d = dict(consts(read(rel), env))      # the small evaluator (fallback)
        d.update(rc.get(rel, {}))             # what the Rust compiler computed wins
        return d
    c = table("constants.rs")
    comp = table("compressor.rs", c)
    numd = table("num_decompressor.rs", c)
    auto = table("auto.rs", c)
    ctab = table("compression_table.rs", c)
    hf = harness_facts()

    fmt_names = ["MAGIC_CHUNK_BYTE", "MAGIC_TERMINATION_BYTE", "MAX_DELTA_ENCODING_ORDER",
                 "BITS_TO_ENCODE_DELTA_ENCODING_ORDER", "MAX_ENTRIES", "BITS_TO_ENCODE_N_ENTRIES",
                 "BITS_TO_ENCODE_N_PREFIXES", "MAX_JUMPSTART", "BITS_TO_ENCODE_JUMPSTART",
                 "BITS_TO_ENCODE_COMPRESSED_BODY_SIZE"]
    fmt = list(need(c, "MAGIC_HEADER", "constants.rs")) + [need(c, n, "constants.rs") for n in fmt_names]

    # default numbers_limit_per_item: from the compiled library, else from the text
    if hf and "default_limit" in hf:
        default_limit = hf["default_limit"]
    else:
        m = re.search(r"numbers_limit_per_item:\s*([\d_]+)", strip_comments(read("decompressor.rs")))
        if not m:
            raise Missing("default numbers_limit_per_item in decompressor.rs")
        default_limit = int(m.group(1).replace("_", ""))

    # flags. Code-length widths: textual (best effort). Bit order: from the compiled library's behaviour (the header it
    # writes for every delta order / GCD setting; what it parses from one-bit flag bytes), else textual.
    fl = strip_comments(read("flags.rs"))
    m = re.search(r"fn bits_to_encode_code_len.*?if\s+self\s*\.\s*use_5_bit_code_len\s*\{\s*(\d+)\s*\}\s*else\s*\{\s*(\d+)\s*\}", fl, re.S)
    if m:
        code_len_bits = [int(m.group(1)), int(m.group(2))]
    else:
        code_len_bits = [5, 4]
        NOTES.append("code-length widths not found textually in flags.rs: frozen values assumed (tied by the C02/C03 streams only)")
    if hf and len(hf["flags"]) == 16:
        flag_order_ok = all(hf["flags"][(o, g)] == "%02x" % (0x80 | (o << 4) | 0x08 | (g << 2)) for o in range(8) for g in (0, 1))
        flag_parse_ok = hf["parse"] == ["ok flags=1,0,0,0", "ok flags=0,4,0,0", "ok flags=0,2,0,0", "ok flags=0,1,0,0",
                                        "ok flags=0,0,1,0", "ok flags=0,0,0,1", "err Compatibility", "ok flags=0,0,0,0"]
    else:
        m = re.search(r"fn try_into\(self\).*?let mut res = vec!\[self\.(\w+)\];(.*?)let necessary_len", fl, re.S)
        if not m:
            raise Missing("flag serialisation order in flags.rs (and no harness to ask)")
        order = [m.group(1)]
        for mm in re.finditer(r"res\.(?:extend|push)\((?:self\.)?(\w+)\)", m.group(2)):
            order.append(mm.group(1))
        flag_order_ok = order == ["use_5_bit_code_len", "delta_bits", "use_min_count_encoding", "use_gcds"]
        m = re.search(r"fn try_from\(bools: Vec<bool>\)(.*?)for &bit in bit_iter", fl, re.S)
        if not m:
            raise Missing("flag parse order in flags.rs (and no harness to ask)")
        rorder = re.findall(r"flags\.(\w+)\s*=", m.group(1))
        flag_parse_ok = rorder == ["use_5_bit_code_len", "delta_encoding_order", "use_min_count_encoding", "use_gcds"]

    # data types: from the compiled library (NumberLike::HEADER_BYTE / PHYSICAL_BITS / Unsigned, conversions), else textual
    KIND = {"i16": "int", "i32": "int", "i64": "int", "i128": "int", "u16": "uint", "u32": "uint", "u64": "uint", "u128": "uint",
            "f32": "float", "f64": "float", "bool": "bool", "nanos": "int", "micros": "int", "nanos96": "ts96", "micros96": "ts96"}
    if hf and len(hf["dt"]) == 15:
        dts = [(n, hb, p, w, KIND[n], hf["pps"].get(n, 0)) for (n, hb, p, w) in hf["dt"]]
        dts.sort(key=lambda d: d[1])
    else:
        dts = textual_dtypes()
    if len(dts) != 15:
        raise Missing("expected 15 NumberLike impls, found %d" % len(dts))

    # tunables
    from fractions import Fraction
    fv = comp.get("MIN_FREQUENCY_TO_USE_RUN_LEN")
    if fv is None:
        freq = re.search(r"const\s+MIN_FREQUENCY_TO_USE_RUN_LEN\s*:\s*f64\s*=\s*([\d.]+)\s*;", strip_comments(read("compressor.rs")))
        if not freq:
            raise Missing("MIN_FREQUENCY_TO_USE_RUN_LEN")
        fv = freq.group(1)
    fr = Fraction(str(fv))
    tun = {
        "minNToUseRunLen": need(comp, "MIN_N_TO_USE_RUN_LEN", "compressor.rs"),
        "minFreqNum": fr.numerator, "minFreqDen": fr.denominator,
        "defaultChunkSize": need(comp, "DEFAULT_CHUNK_SIZE", "compressor.rs"),
        "maxCompressionLevel": need(c, "MAX_COMPRESSION_LEVEL", "constants.rs"),
        "defaultCompressionLevel": need(c, "DEFAULT_COMPRESSION_LEVEL", "constants.rs"),
        "maxPrefixTableSizeLog": need(c, "MAX_PREFIX_TABLE_SIZE_LOG", "constants.rs"),
        "uncheckedNumThreshold": need(numd, "UNCHECKED_NUM_THRESHOLD", "num_decompressor.rs"),
        "autoDeltaLimit": need(auto, "AUTO_DELTA_LIMIT", "auto.rs"),
        "maxAutoDeltaCompressionLevel": need(auto, "MAX_AUTO_DELTA_COMPRESSION_LEVEL", "auto.rs"),
        "defaultNumbersLimit": default_limit,
        "targetBranchingFactor": need(ctab, "TARGET_BRANCHING_FACTOR", "compression_table.rs"),
    }

    L = []
    L.append("/- GENERATED by tools/extract_constants.py from /repo's working tree on every run. Do not edit. -/")
    L.append("import Qco.DType.Maps")
    L.append("namespace Qco")
    L.append("namespace Generated")
    L.append("")
    L.append("def format : List Nat := [%s]" % ", ".join(str(x) for x in fmt))
    L.append("def codeLenBits : List Nat := [%s]" % ", ".join(map(str, code_len_bits)))
    L.append("def flagWriteOrderOk : Bool := %s" % ("true" if flag_order_ok else "false"))
    L.append("def flagParseOrderOk : Bool := %s" % ("true" if flag_parse_ok else "false"))
    L.append("def dtypes : List DType := [")
    rows = []
    for (n, hb, p, w, k, pps) in dts:
        rows.append('  { name := "%s", headerByte := %d, physBits := %d, uBits := %d, kind := .%s, pps := %d }' % (n, hb, p, w, k, pps))
    L.append(",\n".join(rows))
    L.append("]")
    for k, v in tun.items():
        L.append("def %s : Nat := %d" % (k, v))
    L.append("")
    L.append("end Generated")
    L.append("end Qco")
    text = "\n".join(L) + "\n"
    out = os.path.normpath(OUT)
    os.makedirs(os.path.dirname(out), exist_ok=True)
    old = open(out).read() if os.path.exists(out) else None
    if old != text:
        open(out, "w").write(text)
    src = "compiled library (harness) + rustc-evaluated constant items" if hf else "source text only (no harness)"
    print("constants extracted: %d format values, %d dtypes, %d tunables%s; source: %s%s" % (
        len(fmt), len(dts), len(tun), "" if old == text else " (file updated)", src, "".join("; NOTE: " + n for n in NOTES)))

if __name__ == "__main__":
    try:
        main()
    except Missing as e:
        print("EXTRACT-FAILED: cannot find %s" % e)
        sys.exit(2)
