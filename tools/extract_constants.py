#!/usr/bin/env python3
"""Translator: re-extract the format constants, the data-type table and the tunables that
theorems mention from /repo's *working tree* and write lean/Qco/Generated/Constants.lean.
An item that cannot be found is an error (a broken tie), never a silent default."""
import re, sys, os

REPO = os.environ.get("QCO_REPO", "/repo")
SRC = os.path.join(REPO, "q_compress", "src")
OUT = os.path.join(os.path.dirname(os.path.abspath(__file__)), "..", "lean", "Qco", "Generated", "Constants.lean")

class Missing(Exception):
    pass

def read(rel):
    p = os.path.join(SRC, rel)
    try:
        return open(p).read()
    except OSError:
        raise Missing("file " + rel)

def strip_comments(s):
    return re.sub(r"//[^\n]*", "", s)

def ev(expr, env):
    """evaluate a small Rust constant expression"""
    e = expr.strip()
    e = re.sub(r"_(?:usize|u8|u16|u32|u64|u128|i64|i128|i32)\b", "", e)
    e = re.sub(r"(\d)_(\d)", r"\1\2", e)
    e = re.sub(r"(\d)_(\d)", r"\1\2", e)
    e = re.sub(r"\bas\s+(?:usize|u8|u16|u32|u64|u128|i64|i128|i32|f64)\b", "", e)
    e = e.replace("usize::BITS", "64")
    for k, v in sorted(env.items(), key=lambda kv: -len(kv[0])):
        e = re.sub(r"\b%s\b" % re.escape(k), "(%s)" % v, e)
    if not re.fullmatch(r"[\d\s+\-*/()<>.]+", e):
        raise Missing("cannot evaluate %r (-> %r)" % (expr, e))
    e = e.replace("/", "//") if "." not in e else e
    return eval(e, {"__builtins__": {}})

def consts(text, env=None):
    env = dict(env or {})
    out = {}
    for m in re.finditer(r"(?:pub(?:\([a-z]+\))?\s+)?const\s+([A-Z0-9_]+)\s*:\s*([^=]+?)=\s*([^;]+);", strip_comments(text)):
        name, ty, expr = m.group(1), m.group(2).strip(), m.group(3).strip()
        if ty.startswith("["):
            out[name] = [int(x) for x in re.findall(r"\d+", expr)]
            continue
        try:
            v = ev(expr, env)
        except Missing:
            continue
        out[name] = v
        env[name] = v
    return out

def need(d, k, where):
    if k not in d:
        raise Missing("%s in %s" % (k, where))
    return d[k]

def main():
    c = consts(read("constants.rs"))
    comp = consts(read("compressor.rs"), c)
    numd = consts(read("num_decompressor.rs"), c)
    auto = consts(read("auto.rs"), c)
    decomp = strip_comments(read("decompressor.rs"))
    m = re.search(r"numbers_limit_per_item:\s*(\d+)", decomp)
    if not m:
        raise Missing("default numbers_limit_per_item in decompressor.rs")
    default_limit = int(m.group(1))

    fmt_names = ["MAGIC_CHUNK_BYTE", "MAGIC_TERMINATION_BYTE", "MAX_DELTA_ENCODING_ORDER",
                 "BITS_TO_ENCODE_DELTA_ENCODING_ORDER", "MAX_ENTRIES", "BITS_TO_ENCODE_N_ENTRIES",
                 "BITS_TO_ENCODE_N_PREFIXES", "MAX_JUMPSTART", "BITS_TO_ENCODE_JUMPSTART",
                 "BITS_TO_ENCODE_COMPRESSED_BODY_SIZE"]
    fmt = list(need(c, "MAGIC_HEADER", "constants.rs")) + [need(c, n, "constants.rs") for n in fmt_names]

    # flags: code-length widths and the order of the flag bits, from flags.rs
    fl = strip_comments(read("flags.rs"))
    m = re.search(r"fn bits_to_encode_code_len.*?if self\.use_5_bit_code_len\s*\{\s*(\d+)\s*\}\s*else\s*\{\s*(\d+)\s*\}", fl, re.S)
    if not m:
        raise Missing("bits_to_encode_code_len in flags.rs")
    code_len_bits = [int(m.group(1)), int(m.group(2))]
    m = re.search(r"fn try_into\(self\).*?let mut res = vec!\[self\.(\w+)\];(.*?)let necessary_len", fl, re.S)
    if not m:
        raise Missing("flag serialisation order in flags.rs")
    order = [m.group(1)]
    for mm in re.finditer(r"res\.(?:extend|push)\((?:self\.)?(\w+)\)", m.group(2)):
        order.append(mm.group(1))
    flag_order_ok = order == ["use_5_bit_code_len", "delta_bits", "use_min_count_encoding", "use_gcds"]
    # the reader's order
    m = re.search(r"fn try_from\(bools: Vec<bool>\)(.*?)for &bit in bit_iter", fl, re.S)
    if not m:
        raise Missing("flag parse order in flags.rs")
    rorder = re.findall(r"flags\.(\w+)\s*=", m.group(1))
    flag_parse_ok = rorder == ["use_5_bit_code_len", "delta_encoding_order", "use_min_count_encoding", "use_gcds"]

    # data types
    dts = []
    dt_dir = "data_types/"
    s = strip_comments(read(dt_dir + "signeds.rs"))
    for mm in re.finditer(r"^impl_signed!\((\w+),\s*(\w+),\s*(\d+)\);", s, re.M):
        t, u, hb = mm.groups()
        bits = int(t[1:]); assert u == "u" + t[1:]
        dts.append((t, int(hb), bits, bits, "int", 0))
    s = strip_comments(read(dt_dir + "unsigneds.rs"))
    for mm in re.finditer(r"^impl_unsigned_number!\((\w+),\s*(\w+),\s*(\d+)\);", s, re.M):
        t, sg, hb = mm.groups()
        bits = int(t[1:]); assert sg == "i" + t[1:]
        dts.append((t, int(hb), bits, bits, "uint", 0))
    s = strip_comments(read(dt_dir + "floats.rs"))
    for mm in re.finditer(r"^impl_float_number!\((\w+),\s*(\w+),\s*(\w+),\s*(\d+),\s*([^,]+),\s*(\d+)\);", s, re.M):
        t, sg, u, bits, mask, hb = mm.groups()
        bits = int(bits)
        assert sg == "i%d" % bits and u == "u%d" % bits and ev(mask, {}) == 1 << (bits - 1)
        dts.append((t, int(hb), bits, bits, "float", 0))
    s = strip_comments(read(dt_dir + "boolean.rs"))
    hb = re.search(r"const HEADER_BYTE: u8 = (\d+);", s); pb = re.search(r"const PHYSICAL_BITS: usize = (\d+);", s)
    ub = re.search(r"type Unsigned = u(\d+);", s)
    if not (hb and pb and ub):
        raise Missing("bool impl in boolean.rs")
    dts.append(("bool", int(hb.group(1)), int(pb.group(1)), int(ub.group(1)), "bool", 0))
    s = strip_comments(read(dt_dir + "timestamps.rs"))
    env = consts(s)
    pb = re.search(r"const PHYSICAL_BITS: usize = (\d+);", s); ub = re.search(r"type Unsigned = u(\d+);", s)
    for mm in re.finditer(r"^impl_timestamp!\((\w+),\s*([^,]+),\s*(\d+),", s, re.M):
        t, pps, hb = mm.groups()
        name = {"TimestampNanos": "nanos", "TimestampMicros": "micros"}[t]
        dts.append((name, int(hb), int(pb.group(1)), int(ub.group(1)), "int", ev(pps, env)))
    s = strip_comments(read(dt_dir + "timestamps_96.rs"))
    env = consts(s)
    pb = re.search(r"const PHYSICAL_BITS: usize = (\d+);", s); ub = re.search(r"type Unsigned = u(\d+);", s)
    mx = re.search(r"const MAX: i128 = \$parts_per_sec as i128 \* \(i64::MAX as i128 \+ 1\) - 1;", s)
    mn = re.search(r"const MIN: i128 = \$parts_per_sec as i128 \* \(i64::MIN as i128\);", s)
    if not (mx and mn):
        raise Missing("Timestamp96 MIN/MAX expressions")
    for mm in re.finditer(r"^impl_timestamp_96!\((\w+),\s*([^,]+),\s*(\d+),", s, re.M):
        t, pps, hb = mm.groups()
        name = {"TimestampNanos96": "nanos96", "TimestampMicros96": "micros96"}[t]
        dts.append((name, int(hb), int(pb.group(1)), int(ub.group(1)), "ts96", ev(pps, env)))
    dts.sort(key=lambda d: d[1])
    if len(dts) != 15:
        raise Missing("expected 15 NumberLike impls, found %d" % len(dts))

    # tunables
    freq = re.search(r"const MIN_FREQUENCY_TO_USE_RUN_LEN: f64 = ([\d.]+);", strip_comments(read("compressor.rs")))
    if not freq:
        raise Missing("MIN_FREQUENCY_TO_USE_RUN_LEN")
    from fractions import Fraction
    fr = Fraction(freq.group(1))
    tun = {
        "minNToUseRunLen": need(comp, "MIN_N_TO_USE_RUN_LEN", "compressor.rs"),
        "minFreqNum": fr.numerator, "minFreqDen": fr.denominator,
        "defaultChunkSize": need(comp, "DEFAULT_CHUNK_SIZE", "compressor.rs"),
        "maxCompressionLevel": need(c, "MAX_COMPRESSION_LEVEL", "constants.rs"),
        "defaultCompressionLevel": need(c, "DEFAULT_COMPRESSION_LEVEL", "constants.rs"),
        "maxPrefixTableSizeLog": need(c, "MAX_PREFIX_TABLE_SIZE_LOG", "constants.rs"),
        "uncheckedNumThreshold": need(numd, "UNCHECKED_NUM_THRESHOLD", "num_decompressor.rs"),
        "autoDeltaLimit": need(auto, "AUTO_DELTA_LIMIT", "auto.rs"),
        "maxAutoDeltaCompressionLevel": need(auto, "MAX_AUTO_DELTA_COMPRESSION_LEVEL", "auto.rs"),
        "defaultNumbersLimit": default_limit,
    }

    L = []
    L.append("/- GENERATED by tools/extract_constants.py from /repo's working tree on every run. Do not edit. -/")
    L.append("import Qco.DType.Maps")
    L.append("namespace Qco")
    L.append("namespace Generated")
    L.append("")
    L.append("def format : List Nat := [%s]" % ", ".join(str(x) for x in fmt))
    L.append("def codeLenBits : List Nat := [%s]" % ", ".join(map(str, code_len_bits)))
    L.append("def flagWriteOrderOk : Bool := %s" % ("true" if flag_order_ok else "false"))
    L.append("def flagParseOrderOk : Bool := %s" % ("true" if flag_parse_ok else "false"))
    L.append("def dtypes : List DType := [")
    rows = []
    for (n, hb, p, w, k, pps) in dts:
        rows.append('  { name := "%s", headerByte := %d, physBits := %d, uBits := %d, kind := .%s, pps := %d }' % (n, hb, p, w, k, pps))
    L.append(",\n".join(rows))
    L.append("]")
    for k, v in tun.items():
        L.append("def %s : Nat := %d" % (k, v))
    L.append("")
    L.append("end Generated")
    L.append("end Qco")
    text = "\n".join(L) + "\n"
    out = os.path.normpath(OUT)
    os.makedirs(os.path.dirname(out), exist_ok=True)
    old = open(out).read() if os.path.exists(out) else None
    if old != text:
        open(out, "w").write(text)
    print("constants extracted: %d format values, %d dtypes, %d tunables%s" % (len(fmt), len(dts), len(tun), "" if old == text else " (file updated)"))

if __name__ == "__main__":
    try:
        main()
    except Missing as e:
        print("EXTRACT-FAILED: cannot find %s" % e)
        sys.exit(2)
