#!/usr/bin/env python3
"""Writes /verif/MANIFEST.json from the table below (kept in one place so it stays valid)."""
import json, os
V = os.path.dirname(os.path.dirname(os.path.abspath(__file__)))

CLAIMS = {
  "C01": dict(
    text="Lean 4 theorems, unbounded: chunk-body round trip for every well-formed prefix table and every legal grouping into single/run blocks (iterUnits ∘ encBlocks), run-length varint for all x<2^24 and jumpstart<=24 with the frozen terminator rule, offset MSB-last rule for every (r,k,off), prefix-code matching for every prefix-free table, integer k spec; data-type maps are C12. Tie: the real compressor's bytes for structured inputs of all 15 types/levels/orders are decoded by the Lean spec decoder and by the real decoder and compared with the input bit for bit; big implementation-only round trips (runs >= 2^23, 2^24-1 numbers).",
    note="File-level framing theorem (decode∘encode at file level) and the refinement of the real decoder's four read modes are staged (DESIGN 11); word packing and Huffman lookup tables are modelled at bit-list level, not verified; training heuristics are observed, not predicted.",
    technique="Lean 4 theorems (induction over blocks, omega) + enc-stream correspondence (real bytes decoded by the Lean spec decoder) + direct round-trip oracle",
    ref="7/C01"),
  "C02": dict(
    text="Lean 4: constants/field widths/flag layout/dtype table extracted from /repo equal the frozen ones (decide), header round trip and size for every dtype and flag combination. Tie: every emitted byte stream is decoded by the independent Lean decoder (frozen grammar) exactly to its last byte, flags/metadata/numbers compared with what was compressed and with the returned ChunkMetadata, and the spec encoder reproduces the bytes bit for bit; the 8 shipped asset files decode to their .bin values under the frozen grammar.",
    note="The Lean decoder is the independent decoder; it is trusted as the statement of the format (validated against assets written by 0.4-0.10). GCD field width uses hardware floats in the driver only.",
    technique="Lean 4 spec of the format + decide against regenerated constants + enc-stream correspondence",
    ref="7/C02"),
  "C16": dict(
    text="Lean 4 theorems over *all* flag sections (any number of continuation bytes, any bits): the header parser answers exactly flagsFields of the concatenated 7-bit groups; any set bit at index >= 6 gives a compatibility error; acceptance implies all such bits clear; with them clear the flags depend only on the first six bits; the writer's own byte decodes. Tie: rewritten flag sections of real files of every dtype through header(), iterator, simple_decompress and chunk API, kinds compared with the model.",
    note="Trusted: correspondence between Flags::parse_from/TryFrom<Vec<bool>> and decFlags/flagsFields is by differential testing (every single unknown position over 1..4 continuation bytes + random).",
    technique="Lean 4 theorems (induction over flag bytes) + dops-stream correspondence",
    ref="7/C16"),
  "C12": dict(
    text="Lean 4 theorems for every data-type descriptor with >= 1 unsigned bit (hence all 15 generated rows): from_unsigned∘to_unsigned = id, to_unsigned∘from_unsigned = id, strict monotonicity w.r.t. the natural order (two's complement / sign-magnitude float order / false<true), signed and byte maps exact inverses, 96-bit range rejection, header bytes distinct (decide over the table regenerated from /repo), cross-type header rejected. Tie: table regenerated from source + map stream comparing the real NumberLike methods with the Lean maps on all 2^16 patterns of 16-bit types and boundary-dense patterns of the others.",
    note="Trusted: Lean kernel; regex extractor of the dtype table (checked equal to the frozen table by decide); the map correspondence is differential testing of the macro bodies (floats.rs, signeds.rs, ...) against the Lean maps.",
    technique="Lean 4 theorems (omega arithmetic on bit patterns) + generated dtype table + map-stream correspondence",
    ref="7/C12"),
}

NOT_APPLICABLE = []

def main():
    checks = []
    for pid in sorted(CLAIMS):
        c = CLAIMS[pid]
        checks.append({
            "property_id": pid,
            "quick_cmd": "python3 tools/run_check.py %s quick" % pid,
            "thorough_cmd": "python3 tools/run_check.py %s thorough" % pid,
            "evidence_file": "evidence/%s.json" % pid,
            "replay_cmd_template": "python3 tools/replay.py {path}",
            "engine": "qco-lean",
            "level_claimed": {"category": "proof", "text": c["text"], "design_ref": "DESIGN.md section " + c["ref"]},
            "level_note": c["note"],
            "technique": c["technique"],
        })
    m = {
        "version": 1,
        "setup_cmd": "python3 tools/setup.py",
        "hooks": {
            "guard": "--cfg mwlon_quantile_compression_verif",
            "enable": "no hooks are needed: every observable is public API; the guard name is reserved and unused",
            "baseline_off_cmd": "cd /repo && cargo test --workspace --no-fail-fast --offline",
            "source_commits": [],
            "add_only": True,
        },
        "engines": [{
            "name": "qco-lean", "path": "lean/",
            "serves_properties": sorted(CLAIMS),
            "kind_free_text": "Lean 4 model of the .qco format, the compressor/decompressor state machines, the data-type maps and the training structure, with property theorems in lean/Qco/Properties; tied to /repo by a constants translator (tools/extract_constants.py) and a line-protocol correspondence check (harness/ vs the compiled model driver lean/Main.lean), orchestrated by tools/run_check.py",
        }],
        "checks": checks,
        "notes": "See DESIGN.md. Every check regenerates the constants from /repo, rebuilds the proofs, audits axioms, rebuilds the harness against /repo's working tree and runs the property's correspondence streams and direct oracles.",
        "not_applicable": NOT_APPLICABLE,
    }
    with open(os.path.join(V, "MANIFEST.json"), "w") as f:
        json.dump(m, f, indent=1)
        f.write("\n")
    try:
        import jsonschema
        jsonschema.validate(m, json.load(open("/root/.vp/MANIFEST.schema.json")))
        print("MANIFEST.json valid, %d checks" % len(checks))
    except ImportError:
        print("MANIFEST.json written (jsonschema not available), %d checks" % len(checks))

if __name__ == "__main__":
    main()
