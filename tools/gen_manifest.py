#!/usr/bin/env python3
"""Writes /verif/MANIFEST.json from the table below (kept in one place so it stays valid)."""
import json, os
V = os.path.dirname(os.path.dirname(os.path.abspath(__file__)))

CLAIMS = {
  "C01": dict(
    text="Lean 4 theorems, unbounded: chunk-body round trip for every well-formed prefix table and every legal grouping into single/run blocks (iterUnits ∘ encBlocks), run-length varint for all x<2^24 and jumpstart<=24 with the frozen terminator rule, offset MSB-last rule for every (r,k,off), prefix-code matching for every prefix-free table, integer k spec; data-type maps are C12. End-to-end (C01e): for ANY training answer satisfying the per-run evaluated metadata predicate and fitting the fields, the compressor model's output decoded by the operational decompressor (whole file and chunk API, real stride lookup model) returns the input. Tie: the real compressor's bytes for structured inputs of all 15 types/levels/orders are decoded by the Lean spec decoder and by the real decoder and compared with the input bit for bit; BitWriter/BitReader operation scripts through the guarded hooks vs the Lean word-level model; big implementation-only round trips (runs >= 2^23, 2^24-1 numbers).",
    note="The end-to-end theorem takes 'the training answer is congruent/covering and fits the fields' as hypothesis (evaluated on every observed table; C10t proves the training model always satisfies the structural part). Word-level packing: the Lean word-level model of BitWriter/BitReader is proved equal to the bit-list level (writeDiff/writeVarint/readDiff/readVarint/... specs) and compared with the real code through the guarded hooks; float heuristics are oracles.",
    technique="Lean 4 theorems (induction over blocks, omega) + enc-stream correspondence (real bytes decoded by the Lean spec decoder) + direct round-trip oracle",
    ref="7/C01"),
  "C02": dict(
    text="Lean 4: constants/field widths/flag layout/dtype table extracted from /repo equal the frozen ones (decide), header round trip and size for every dtype and flag combination. Tie: every emitted byte stream is decoded by the independent Lean decoder (frozen grammar) exactly to its last byte, flags/metadata/numbers compared with what was compressed and with the returned ChunkMetadata, and the spec encoder reproduces the bytes bit for bit; the 8 shipped asset files decode to their .bin values under the frozen grammar. Layer W (C02w): a statement-level Lean model of trained_compress_chunk_nums (CompressionTable::from_sorted/search, compress_nums, compress_offset_bits_w_prefix over the word-level BitWriter model) is PROVED to emit exactly encBody of the greedy blocks for every table of disjoint ranges with counts >= 1 and every input, and InvalidArgument exactly when a number is uncovered (search = findPrefix; from_sorted terminates: no child gets the whole slice; with a zero count it diverges - proved, unreachable from training); tied to the real function through a guarded hook (bodywrite stream). Layer M (C02m): statement-level Lean models of ChunkMetadata::parse_from/write_to, parse_prefixes/write_prefixes, read_gcd/write_gcd, DeltaMoments and Flags::parse_from/try_from/write over the word-level reader/writer are PROVED equal to the spec decChunkMeta/encChunkMeta/decFlags/encFlags including error kinds, never to panic on any bytes, and to round-trip; findings proved on the way (write_usize truncates oversized fields silently, Flags::write of all-false flags writes zero bytes, common_gcd_for_chunk_meta never shares a divisor between two multi-valued ranges) are unreachable or size-only.",
    note="The Lean decoder is the independent decoder; it is trusted as the statement of the format (validated against assets written by 0.4-0.10). GCD field width uses hardware floats in the driver only.",
    technique="Lean 4 spec of the format + decide against regenerated constants + enc-stream correspondence",
    ref="7/C02"),
  "C16": dict(
    text="Lean 4 theorems over *all* flag sections (any number of continuation bytes, any bits): the header parser answers exactly flagsFields of the concatenated 7-bit groups; any set bit at index >= 6 gives a compatibility error; acceptance implies all such bits clear; with them clear the flags depend only on the first six bits; the writer's own byte decodes. Tie: rewritten flag sections of real files of every dtype through header(), iterator, simple_decompress and chunk API, kinds compared with the model.",
    note="Trusted: correspondence between Flags::parse_from/TryFrom<Vec<bool>> and decFlags/flagsFields is by differential testing (every single unknown position over 1..4 continuation bytes + random).",
    technique="Lean 4 theorems (induction over flag bytes) + dops-stream correspondence",
    ref="7/C16"),
  "C03": dict(
    text="Lean 4: for EVERY well-formed file of the frozen grammar (any complete prefix tree, overlapping ranges, any legal divisor, runs on any range, jumpstart 0..24, the legacy flag combinations, zero-count chunk, n <= order, any delta order) the operational model of the decompressor returns exactly the numbers the file encodes: whole-file (simple_decompress) and chunk API (header, chunk_metadata, chunk_body), for every Huffman lookup that is sound w.r.t. the specification matcher, fails only for lack of data and answers once 5 more bits follow (WeakLazyOf) — proved to hold of matchStride, the position-aware model of the real 6-bit-stride table (which is provably NOT prefix-safe: more data can turn an answer back into insufficient) — so the theorems are instantiated for the real lookup model; proved by refinement of the operational model to the specification decoder + the file-level round trip. Tie: random syntax trees encoded by the Lean spec encoder and decoded by the real library in three modes; the 8 shipped assets through both decoders. Layer N (C03n): a statement-level Lean model of NumDecompressor::decompress_unsigneds_limited_dirty (incomplete-prefix resume, the guaranteed_safe_num_blocks fast path with unchecked reads and unchecked table lookup, checked tail) is PROVED equal to the abstract batch decoder the refinement theorems use (numDec_refines), never to index out of bounds or underflow (numDec_no_panic), the guard arithmetic is proved sound (fast_guard_sound: max_bits_read + overshoot really bound every unchecked block) and unchecked block = checked block under the guard; tied to the real NumDecompressor through a guarded hook (numdec stream, chained calls).",
    note="matchStride is tied to HuffmanTable::search_with_reader/read_prefix_table_idx by the dops correspondence and proved equal to the literal table model (HT.search_outcome). In layer N unsigned overflow of lower + offset*gcd and the f64 computation of k are not modelled (k is the exact floor log2). Depth-31 trees (2 GiB validation table) are not generated.",
    technique="Lean 4 refinement proof (operational model -> spec decoder) + AST-generator correspondence",
    ref="7/C03"),
  "C04": dict(
    text="Lean 4: for every well-formed file, every limit >= 1 and every LazyOf lookup, draining the operational iterator over the complete file yields exactly [flags] ++ per chunk (metadata :: the chunk's numbers split into consecutive batches of `limit`) ++ [footer], then none forever, terminated; corollaries: every batch non-empty and <= limit, a chunk's batches concatenate to its numbers, the whole stream equals whole-file decompression; exact also for delta orders and chunks with n <= order. Proof: unit-level refinement (prefix-safe, sound, eager with 5 bits of slack), drain/resume lemma, batch characterisation incl. padding and body-size check, a position invariant and a decreasing measure. Tie: complete files (sparse/run-length, dense, delta, multi-chunk, GCD, legacy assets incl. the zero-count file) iterated with limits 1,2,29,30,31,100,n-1,n,n+1,1e5 and random on the implementation and on the model, compared token by token.",
    note="as C03.",
    technique="Lean 4 refinement proof of the iterator state machine + dops-stream correspondence",
    ref="7/C04"),
  "C05": dict(
    text="Lean 4: for every well-formed file and every schedule of whole-byte writes concatenating to the file, interleaved anywhere with drains and free_compressed_memory and ending with a drain: no error, the canonical item sequence (a chunk's consecutive batches merged) equals that of write-all-then-drain (independent of the limit), the numbers concatenate to the file's numbers, the decompressor ends terminated with nothing unread; free_compressed_memory changes no later result and shifts the reported bit position by a multiple of 64 (all operations commute with erasing `freed`). Tie: every single cut of small files, every pair of cuts of tiny files, random multi-cut schedules with frees, one-byte-at-a-time feeding: canonical items and final bit position on the implementation; token-by-token comparison (partial batches and mid-body bit_idx included) with the model.",
    note="Batch boundaries under partial data legitimately differ from the all-at-once run; the theorem and the oracle compare canonical sequences. BitWords::extend/truncate_left: the Lean word-level model is proved to be bit-list append / drop of 64k bits for every alignment (extend_spec, truncateLeft_spec) and is compared with the real BitWords through the guarded hooks.",
    technique="Lean 4 refinement proof over write/drain/free schedules + dops-stream correspondence",
    ref="7/C05"),
  "C06": dict(
    text="Lean 4: the specification decoder is prefix-safe (Safe for every parser of the format, incl. fuel monotonicity), hence every strict prefix (bit-granular) of a well-formed file decodes to `insufficient`; by refinement the operational simple_decompress on every strict byte prefix answers InsufficientData — never ok, never another kind — with the state unchanged, for every WeakLazyOf lookup (instantiated for the real stride-table model). (At non-byte cuts the model answers insufficient-or-corrupt; Write::write delivers whole bytes.) Tie: every truncation length of real files of every dtype on the implementation and on the model.",
    note="as C03.",
    technique="Lean 4 prefix-safety invariant of the parser monad + refinement + exhaustive truncation sweep",
    ref="7/C06"),
  "C07": dict(
    text="partial. Lean 4 (on arbitrary input bits, no well-formedness assumed): every decoded offset is <= its range (no underflow of k_range - offset), every decoded value lower + off*gcd <= upper < 2^W (no overflow of the W-bit type), k <= W with the shift skipped exactly when k = W, everything the metadata parser accepts is bounded (lower <= upper, valid bounds < 2^W, 1 <= gcd, code length < 32, counts/sizes within their fields), run counts < 2^24 (2^31 for hostile jumpstarts), a batch never exceeds min(limit, remaining), nProcessed <= n, bits_remaining saturates and skip stays inside the data, every operation leaves the reader inside the written data (Advances), complete trees never make the lookup fail other than for lack of data; these hold in every state reachable from the initial one on arbitrary bytes (invariant HInv preserved by all operations). Termination = totality of the model. Since added: the word-level BitReader/BitWords model (layer B specs), the literal Huffman table lookup (HT.search_outcome, uncheckedSearch_eq) and the literal NumDecompressor batch with its unchecked fast path (C03n.numDec_no_panic, fast_guard_sound: no out-of-bounds word index, no usize underflow, the guaranteed_safe_num_blocks guard proved sound). NOT covered by theorems: overflow of lower + offset*gcd in U, the metadata parser's statements at word level, memory exhaustion. Tie: mutation fuzz (bit flips, substitutions, splices, deletions, duplications, truncations, size-field attacks, field-aware forgeries of every metadata field located by the spec decoder's field map, random bytes) of files of every dtype through every decode entry point and mixed call sequences under overflow checks: no panic/hang/abort; a sample compared with the operational model (class, kinds, bit positions).",
    note="partial: the unverified parts are exactly where a panic could still hide on inputs the fuzz does not generate.",
    technique="Lean 4 safety lemmas + reachable-state invariant on the operational model + mutation fuzz with model comparison",
    ref="7/C07"),
  "C08": dict(
    text="Lean 4 theorems over an operational model of Decompressor with the code's commit points explicit (with_reader commits only on Ok but keeps closure mutations; dirty batch decode wrapped by snapshot/restore; simple_decompress wrapped by snapshot/restore): every operation that answers an error leaves the state equal (6 theorems), next answering none leaves the state equal under a proved reachable-state invariant (preserved by all operations), all protocol violations answer InvalidArgument with the state unchanged, terminated is set only by the footer. Tie: random call interleavings over valid and corrupted files compared token by token (results, error kinds, bit_idx) with the model; direct oracles on the implementation: Debug rendering identical before/after every failed call, twin run without the failed calls, retry after writing the missing bytes.",
    note="The model (lean/Qco/Op/Decomp.lean) is hand-written from decompressor.rs/num_decompressor.rs/chunk_body_decompressor.rs and tied by the dops correspondence stream; word-level bit packing is modelled as a bit list.",
    technique="Lean 4 theorems on an operational state-machine model + dops-stream correspondence + Debug-hash/twin-run oracles",
    ref="7/C08"),
  "C09": dict(
    text="Lean 4 theorems over an operational model of Compressor: acceptance of each call characterised exactly (iff) — header chunk* footer, empty/oversized chunk, level>12, order>7 rejected as error values with the state unchanged; accepted calls append exactly encHeader/encChunk/footer; for every history (any interleaving of accepted, rejected calls and drains) the total output is header ++ accepted chunks ++ footer, is invariant under removing/inserting drains, equals encodeFile of exactly the accepted chunks when complete and decodes (file-level round trip theorem). Tie: random call sequences incl. 2^24-element chunks; results, byte_size and drained bytes compared with the model re-encoding the observed metadata; final bytes decoded by both decoders.",
    note="Training is an argument of the model's chunk call (observed metadata + greedy grouping); its truthfulness is C10/C18.",
    technique="Lean 4 theorems on an operational compressor model + cops-stream correspondence",
    ref="7/C09"),
  "C10": dict(
    text="Lean 4: the decidable predicate WFc evaluated on every observed ChunkMetadata means exactly the property's statement (bounds, pairwise disjoint, unique cover, counts = members, congruence mod divisor, complete prefix-free tree, <= 2^level leaves), moments = initial differences; a Lean model of the training pipeline (quantile cuts, raw prefixes with slice GCDs and the run-length rule, consecutive merging with divisor folding, any Huffman tree) with the float-driven choices as oracles: for EVERY grouping oracle and every complete tree the resulting table satisfies the predicate (train_wfc), has at most 2^level leaves, exact divisors (merge_gcd_exact), an all-equal chunk gives one single-valued range, a >=90% dominant value of a >=2000 chunk gets its own run-length range (dominant_own_prefix); the decidable `explains` (observed table reachable under some oracle) is sound for the predicate. Tie: on every chunk of the enc stream the model evaluates WFc against the chunk's numbers/deltas, returned == parsed metadata, body size == spec-encoded length.",
    note="The merge DP's cost function and the Huffman heap order are oracles (any choice is covered by the theorems); that the real code's tables are reachable by the model is checked per run by `explains` on every observed table (all were, across all dtypes/levels), not proved.",
    technique="Lean 4 theorems (meaning of the evaluated predicate, quantile-cut invariant) + enc-stream evaluation",
    ref="7/C10"),
  "C11": dict(
    text="Lean 4: header + any list of a well-formed file's chunks (any sub-sequence, order, repetition) + footer decodes to exactly those chunks; the compressor model's chunk bytes are the same function of (config, trained chunk) in every history; skip_chunk_body advances by exactly the remaining body bits, lands on the next chunk from the metadata alone, also after part of the body was streamed; metadata-then-skip over n chunks lands behind all of them. Tie: same chunk first/last/alone/with drains/16 threads/second process byte-identical; all 2^n sub-sequences of real files through both decoders; random skip/decode choices compared with the model.",
    note="Determinism of training across runs/threads is exercised (it is the tie for the model's purity), not proved.",
    technique="Lean 4 theorems (compositional round trip, skip arithmetic) + cops/dops correspondence + determinism oracles",
    ref="7/C11"),
  "C13": dict(
    text="Lean 4: the order chooser model is total and for any list of trial sizes (any search outcome) returns an order that was tried, <= 7 for the 8 candidates; empty input is answered 0 before any trial; tunables regenerated from source. Tie: auto_compressor_config/auto_compress/auto_decompress under catch_unwind for every dtype, lengths 0..9/999/1000/1001, levels 0..12: no panic, level kept, order in 0..7, round trip; trial sizes reproduced through the public API and fed to the model, chosen order compared.",
    note="That trial compressions cannot fail is C09's acceptance theorem instantiated (non-empty head, level <= 6).",
    technique="Lean 4 theorems on the chooser model + auto-stream correspondence",
    ref="7/C13"),
  "C14": dict(
    text="Lean 4: exact/upper bounds of every encoder piece for every well-formed file: offset <= k+1 <= W bits, varint <= 48 bits, file overhead 7 bytes, count field <= 24 bits, prefix metadata <= 67+3W bits, chunk metadata bound, Kraft feasibility of the reference code (length W-k) for pairwise disjoint ranges. Huffman optimality IS proved (Lemmas/HuffmanKraft, HuffmanOpt): an executable model of make_huffman_code plus a relational one allowing any heap tie-breaking; every run of the loop has the same cost huffCost ws, the codes are a complete prefix-free tree, and that cost is minimal among Kraft-feasible lengths / prefix-free codes; a symbol weighing more than half of the others gets a code of <= 2 bits in every run (HuffmanHeavy). Hence C14h.body_bound: for a table without run-length prefix, disjoint ranges inside [0,2^W), truthful counts and codes costing Huffman's cost, the body takes <= n(W+1)+7 bits; and C18s.c14_sparse: for a table with a single-valued run-length prefix (any weight E with others < 2E) the body takes <= n(W+4) bits for W >= 9 (n(W+5) for W = 8). Tie: the hypotheses are evaluated on every emitted chunk (disj, counts, huffopt: sum weight*len == huffCostW weights, jlen, heavy) and the exact body/metadata bits computed by the model from the observed table (equal to real sizes since the spec re-encoding reproduces the bytes) are compared with the stated bounds on adversarial distributions; when a tie breaks, bulk+cluster inputs are searched for a concrete size violation. Known finding: bool delta moments take a byte each.",
    note="That the real make_huffman_code is an instance of the relational loop is tied per chunk by the cost equality, not by proof about Rust's BinaryHeap; the f64 weight of the run-length prefix is not modelled (any E works in the theorem; the check admits ceil(f(1-f)n)+-1). Not covered by a theorem: multi-valued run-length ranges, bool (W = 1) with run-length: evaluated per instance.",
    technique="Lean 4 size theorems + Huffman optimality proof + per-chunk hypothesis evaluation on the enc stream",
    ref="7/C14"),
  "C15": dict(
    text="Lean 4 (12 theorems) over a step-by-step model of the conversions with fixed-width ranges explicit: for every representable SystemTime the (seconds, nanos) split never overflows; 64-bit conversion = floor(instant/ns_per_part) or InvalidArgument, never a panic or wrapped value; nanosecond round trip returns the same SystemTime, microsecond round trip the instant rounded down (also before the epoch); reverse direction for every i64; 96-bit: exact, always inside the documented range, out-of-range parts rejected by new/validate/TryFrom. Tie: ts stream (epoch +-, sub-second boundaries, 64-bit limits +-1, platform extremes, random 2^0..2^93 ns) both directions, every line compared with the model; direct oracle with independent integer arithmetic.",
    note="std::time::SystemTime/Duration arithmetic is modelled (instant as an integer), not verified.",
    technique="Lean 4 theorems (Int arithmetic, omega) on a step model + ts-stream correspondence",
    ref="7/C15"),
  "C17": dict(
    text="partial. Lean 4: the CLI's glue loses/duplicates/reorders nothing: re-chunking of reader batches preserves the concatenation, never yields an empty chunk, chunks <= chunk_size for batches <= chunk_size; --limit k prints exactly the first k; inspect's sizes add up. Composed with C01 for the number-level identity. NOT modelled: Arrow CSV/Parquet parsing, number/timestamp formatting, structopt. Tie: CSV columns of 10 Arrow-backed dtypes through /repo's qcompress binary (compress with chunk sizes 1..>rows, levels, explicit/auto delta order, --disable-gcds; decompress [--limit k]; inspect vs the library's metadata walk and the glue model). Known finding: Arrow's CSV writer panics on pre-epoch fractional timestamps.",
    note="Parquet input is not exercised (no Parquet writer available offline to the check); the text layers are covered by differential runs only.",
    technique="Lean 4 glue theorems + differential runs of the real CLI binary",
    ref="7/C17"),
  "C18": dict(
    text="Lean 4 (26 theorems): exactGcd is the greatest common divisor of the members' distances (divides, greatest), meaning of the evaluated gcdExact predicate incl. the escape to 1 only when the exact divisor does not fit the field and no common field is used, offsets recover members exactly; streaming delta reconstruction inverts n-th order wrapping differences for every order (incl. bool/xor), vanishing differences => all coded numbers equal => single empty-code prefix => zero body bits for any n; greedy runs are maximal, a run block on a single-valued range costs code + varint <= code + 48 bits for any length, the 90%/2000 premises imply the library's 80%/1001 run-length rule. Added: C18s.c18_sparse - the aggregate bound of part (2) is now a THEOREM: for a table with a single-valued run-length prefix, disjoint ranges, truthful counts, codes costing Huffman's cost for the weights with any weight E of the run-length prefix whose code has 1..2 bits (forced by HuffCode.heavy_length_le_two whenever others < 2E), the body takes <= (W+8)*others + 52*runs bits (sparse_of_greedy: the greedy blocks have that shape and runs <= others+1); C18g - the literal pair_gcd / gcd(sorted) / fold_prefix_gcds_left / common_gcd_for_chunk_meta / use_gcd_* loops proved equal to Nat.gcd and to the training model's functions (gcdSorted_exact: the value returned for a sorted multi-valued slice is exactly the GCD of the distances; train_fold_no_panic: pair_gcd's b > 0 precondition holds at both call sites for every trained table). Tie: enc stream on lattices (divisors near 2^49), sparse chunks (premises met in 40+ cases per run), vanishing-difference sequences for every dtype and order.",
    note="The hypotheses of c18_sparse are evaluated per chunk (huffopt, jlen, heavy, disj, counts) besides the exact sizes; the f64 estimate of the run-length prefix's weight is not modelled (any E with others < 2E works). Which groups the merge stage folds is decided by f64 costs (oracle); what a folded group's divisor is, is proved (C10t, C18g) and checked per instance by gcdExact/explains.",
    technique="Lean 4 theorems (gcd folds, delta integration, run blocks) + enc-stream evaluation",
    ref="7/C18"),
  "C12": dict(
    text="Lean 4 theorems for every data-type descriptor with >= 1 unsigned bit (hence all 15 generated rows): from_unsigned∘to_unsigned = id, to_unsigned∘from_unsigned = id, strict monotonicity w.r.t. the natural order (two's complement / sign-magnitude float order / false<true), signed and byte maps exact inverses, 96-bit range rejection, header bytes distinct (decide over the table regenerated from /repo), cross-type header rejected. Tie: table regenerated from source + map stream comparing the real NumberLike methods with the Lean maps on all 2^16 patterns of 16-bit types and boundary-dense patterns of the others.",
    note="Trusted: Lean kernel; regex extractor of the dtype table (checked equal to the frozen table by decide); the map correspondence is differential testing of the macro bodies (floats.rs, signeds.rs, ...) against the Lean maps.",
    technique="Lean 4 theorems (omega arithmetic on bit patterns) + generated dtype table + map-stream correspondence",
    ref="7/C12"),
}

NOT_APPLICABLE = []

def main():
    checks = []
    for pid in sorted(CLAIMS):
        c = CLAIMS[pid]
        checks.append({
            "property_id": pid,
            "quick_cmd": "python3 tools/run_check.py %s quick" % pid,
            "thorough_cmd": "python3 tools/run_check.py %s thorough" % pid,
            "evidence_file": "evidence/%s.json" % pid,
            "replay_cmd_template": "python3 tools/replay.py {path}",
            "engine": "qco-lean",
            "level_claimed": {"category": "proof", "text": c["text"], "design_ref": "DESIGN.md section " + c["ref"]},
            "level_note": c["note"],
            "technique": c["technique"],
        })
    m = {
        "version": 1,
        "setup_cmd": "python3 tools/setup.py",
        "hooks": {
            "guard": "--cfg mwlon_quantile_compression_verif",
            "enable": "the harness is built with RUSTFLAGS='--cfg mwlon_quantile_compression_verif' (tools/qco/common.py build_harness); this compiles q_compress/src/verif.rs, an add-only module of public wrappers that run operation scripts on the crate-private BitWords/BitReader/BitWriter; every other observable is public API. Without the flag the module does not exist and the library is unchanged.",
            "baseline_off_cmd": "cd /repo && cargo test --workspace --no-fail-fast --offline",
            "source_commits": ["c2fc263", "dfa6be0", "365a071"],
            "add_only": True,
        },
        "engines": [{
            "name": "qco-lean", "path": "lean/",
            "serves_properties": sorted(CLAIMS),
            "kind_free_text": "Lean 4 model of the .qco format, the compressor/decompressor state machines, the data-type maps and the training structure, with property theorems in lean/Qco/Properties; tied to /repo by a constants translator (tools/extract_constants.py) and a line-protocol correspondence check (harness/ vs the compiled model driver lean/Main.lean), orchestrated by tools/run_check.py",
        }],
        "checks": checks,
        "notes": "See DESIGN.md. Every check regenerates the constants from /repo, rebuilds the proofs, audits axioms, rebuilds the harness against /repo's working tree and runs the property's correspondence streams and direct oracles.",
        "not_applicable": NOT_APPLICABLE,
    }
    with open(os.path.join(V, "MANIFEST.json"), "w") as f:
        json.dump(m, f, indent=1)
        f.write("\n")
    try:
        import jsonschema
        jsonschema.validate(m, json.load(open("/root/.vp/MANIFEST.schema.json")))
        print("MANIFEST.json valid, %d checks" % len(checks))
    except ImportError:
        print("MANIFEST.json written (jsonschema not available), %d checks" % len(checks))

if __name__ == "__main__":
    main()
