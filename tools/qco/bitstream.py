"""Word-level bit packing stream (layer B): BitWords / BitReader / BitWriter through the guarded hooks of /repo
(q_compress::verif) against the Lean word-level model. Shared by C01 (writer/reader) and C05 (extend/truncate)."""
from . import common as C

def varint_len(x, j):
    n = j
    x >>= j
    for _ in range(j, 24):
        if x > 0:
            n += 2
            x >>= 1
        else:
            n += 1
            break
    return n

def piece(rng):
    k = rng.choice([0, 1, 1, 2, 3, 5, 7, 8, 9, 15, 16, 17, 23, 24, 25, 31, 32, 33, 64, rng.range(0, 70)])
    return "".join("%02x" % rng.below(256) for _ in range(k)) or "_"

def words_lines(rng, count):
    out = []
    for _ in range(count):
        n = rng.range(1, 8)
        pieces = [piece(rng) for _ in range(n)]
        frees = [rng.choice([0, 0, 0, 1, 2, 5]) for _ in range(n)]
        out.append("bwords %s %s" % (",".join(pieces), ",".join(map(str, frees))))
    return out

def reader_lines(rng, count):
    out = []
    for _ in range(count):
        pieces = [piece(rng) for _ in range(rng.range(1, 5))]
        total = sum(0 if p == "_" else len(p) // 2 for p in pieces) * 8
        ops = []
        for _ in range(rng.range(3, 30)):
            r = rng.below(100)
            if r < 10:
                ops.append("s%d" % rng.range(0, total + 3))
            elif r < 14:
                ops.append("k%d" % rng.range(0, 20))
            elif r < 18:
                ops.append("w%d" % rng.range(0, 3))
            elif r < 28:
                ops.append("o")
            elif r < 36:
                ops.append("r%d" % rng.range(0, 40))
            elif r < 52:
                ops.append("d%d" % rng.choice([0, 1, 7, 8, 13, 31, 32, 33, 63, 64, 65, 100, 127, 128, rng.range(0, 128)]))
            elif r < 58:
                ops.append("z%d" % rng.range(0, 64))
            elif r < 66:
                ops.append("v%d" % rng.range(0, 24))
            elif r < 76:
                ops.append("t%d" % rng.range(1, 6))
            elif r < 80:
                ops.append("a%d" % rng.range(0, 9))
            elif r < 84:
                ops.append("e")
            elif r < 87:
                ops.append(rng.choice(["b", "x"]))
            elif r < 90:
                ops.append("O")
            elif r < 95:
                ops.append("D%d" % rng.choice([0, 1, 8, 33, 64, 65, 128, rng.range(0, 128)]))
            elif r < 97:
                ops.append("V%d" % rng.range(0, 24))
            else:
                ops.append("T%d" % rng.range(1, 6))
        out.append("bread %s %s" % (",".join(pieces), " ".join(ops)))
    return out

def writer_lines(rng, count):
    out = []
    for _ in range(count):
        size = 0
        drained = 0
        ops = []
        for _ in range(rng.range(3, 25)):
            r = rng.below(100)
            if r < 20:
                ops.append("o%d" % rng.below(2)); size += 1
            elif r < 38:
                n = rng.range(0, 64); x = rng.bits(64) >> rng.range(0, 63)
                ops.append("u%d:%x" % (n, x & ((1 << 64) - 1))); size += n
            elif r < 58:
                n = rng.choice([0, 1, 8, 63, 64, 65, 70, 127, 128, rng.range(0, 128)]); x = rng.bits(128) >> rng.range(0, 127)
                ops.append("d%d:%x" % (n, x)); size += n
            elif r < 70:
                j = rng.range(0, 24); x = rng.choice([0, 1, (1 << 24) - 1, 1 << 23, rng.below(1 << 24), rng.below(1 << rng.range(0, 24))])
                ops.append("v%d:%x" % (j, x)); size += varint_len(x, j)
            elif r < 78:
                ops.append("f"); size = (size + 7) // 8 * 8
            elif r < 86:
                k = rng.range(1, 5)
                ops.append("a" + "".join("%02x" % rng.below(256) for _ in range(k)))
                if size % 8 == 0:
                    size += 8 * k
            elif r < 92 and size >= 40:
                n = rng.range(1, min(64, size)); at = rng.range(0, size - n)
                ops.append("w%d:%d:%x" % (at, n, rng.bits(64) & ((1 << n) - 1)))
            elif r < 96:
                ops.append("z")
            else:
                ops.append("D"); size = 0
        ops.append("f"); ops.append("D")
        out.append("bwrite " + " ".join(ops))
    return out

def run(ctx, lines, stream):
    """run the lines on the hooks and on the Lean word-level model; any difference is a correspondence break"""
    if not lines:
        return
    impl = C.harness(lines)
    if impl and impl[0] == "no-hooks":
        ctx.tie_break("hooks", "the harness was built without --cfg mwlon_quantile_compression_verif")
        return
    model = C.driver(lines) if ctx.model_ok else None
    if model is not None and model and model[0] == "bad-op":
        ctx.notes.append("word-level model not present in the driver: %s stream not compared" % stream)
        model = None
    for i, (l, a) in enumerate(zip(lines, impl)):
        ctx.case(l if len(l) < 300 else l[:300], ["bits"])
        ctx.count("stream:" + stream)
        a = "panic" if a.startswith("panic") else a
        if model is not None:
            m = model[i]
            if m != a:
                ctx.disagree(stream, l, m[:400], a[:400])
