"""C01: lossless round trip for every sequence, data type and configuration."""
from .. import common as C
from .. import gen as G
from .. import streams as S
from .. import bitstream as BS

def cases(ctx):
    rng = ctx.rng
    out = []
    # corpus first: boundary cases kept from earlier findings
    P49 = (1 << 49)
    out.append({"dt": "u64", "level": 8, "order": 0, "gcds": 1, "chunks": [[0, 1, P49 - 2]], "kinds": ["corpus-k-float"], "drain": 0})
    out.append({"dt": "u64", "level": 8, "order": 0, "gcds": 1, "chunks": [[0, 5, (1 << 63) - 2]], "kinds": ["corpus-k-float"], "drain": 0})
    w = P49 + 1
    a, b = 1000, 1 << 60
    out.append({"dt": "u64", "level": 8, "order": 0, "gcds": 1, "chunks": [[a, a + w, b, b + w] * 2], "kinds": ["corpus-gcd-bits"], "drain": 0})
    # every dtype x a spread of configs
    n_rand = 2500 if ctx.quick else 20000
    for dt in S.ALL_DT:
        for order in ([0, 1, 7] if ctx.quick else range(8)):
            out.append(S.enc_case(rng, dt=dt, order=order))
        # widths next to powers of two, for every j
        P, W, kind, pps = C.DTYPES[dt]
        if kind != "bool":
            for j in (range(1, W + 1) if not ctx.quick else rng.choice([list(range(1, W + 1, 3)), list(range(2, W + 1, 3)), list(range(3, W + 1, 3))])):
                for dlt in (-2, -1, 0):
                    top = (1 << j) + dlt
                    if top < 1 or (kind == "ts96" and j > 92):
                        continue
                    lo = 0 if kind == "uint" else -(top // 2)
                    xs = [G.from_signed_val(dt, lo), G.from_signed_val(dt, lo + top), G.from_signed_val(dt, lo + rng.below(top + 1))]
                    if kind == "float":
                        xs = [0, top & ((1 << W) - 1) >> 1, rng.below(max(1, top >> 1))]
                    out.append({"dt": dt, "level": rng.choice([0, 8]), "order": 0, "gcds": rng.below(2), "chunks": [xs], "kinds": ["width"], "drain": 0})
    for _ in range(n_rand):
        out.append(S.enc_case(rng))
    # sparse chunks with run-length coding
    for _ in range(80 if ctx.quick else 600):
        out.append(S.enc_case(rng, n=rng.choice([1001, 2000, 3000, 4000]), kind="sparse", order=0))
    return out

def run(ctx):
    ctx.rule = ("enc stream: structured sequences (uniform, small ranges, clusters, lattices, sparse, smooth, type extremes, "
                "widths 2^j+{-2,-1,0} for every j, constant, duplicates, polynomial) of all 15 data types, levels 0..12, delta "
                "orders 0..7, GCDs on/off, 1-3 chunks, with/without intermediate drains; the real compressor's bytes are decoded "
                "by the Lean spec decoder and by the real decoder (whole file) and compared with the input bit for bit; plus big "
                "implementation-only round trips (runs >= 2^23, up to 2^24-1 numbers). non-trivial = the chunk uses >1 prefix, "
                "run-length, a GCD, delta, the extra-MSB offset rule, k=0 or k=W")
    cs = cases(ctx)
    res = S.run_enc(ctx, cs)
    dlines = []
    for r in res:
        c = r["case"]
        line = S.compress_line(c)
        tags = set()
        for ch in r["chunks"]:
            tags.update(t for t in ch.get("tags", "").split(",") if t)
        ctx.case(line, sorted(tags))
        ctx.count("dtype:" + c["dt"]); ctx.count("order:%d" % c["order"]); ctx.count("level:%d" % c["level"])
        for k in c["kinds"]:
            ctx.count("kind:" + k)
        if r["bytes"] is None:
            ctx.violation("compressing a valid input failed", line, "ok bytes=...", r["impl"])
            continue
        dlines.append(("dops %s 100000 W%s D" % (c["dt"], r["bytes"]), r))
        if r["model"] is None:
            continue
        if not r["model"].startswith("ok "):
            ctx.disagree("enc", line, r["model"], "bytes accepted by nobody yet", "spec decoder rejects the real writer's bytes")
            continue
        h = r["head"]
        if h.get("rest") != "0" or h.get("nchunks") != "1" or any(ch.get("vals") != "1" or ch.get("n") != "1" for ch in r["chunks"]):
            ctx.disagree("enc", line, r["model"], "input", "spec-decoded numbers differ from the input")
    ans = C.harness([l for l, _ in dlines], timeout=1200)
    for (l, r), a in zip(dlines, ans):
        c = r["case"]
        want = "ok vals=" + ",".join("%x" % x for x in S.flat(c["chunks"]))
        got = a.split(" ; ")[-1].rsplit("@", 1)[0]
        if got != want:
            ctx.violation("decompress(compress(x)) != x", S.compress_line(c), want, got)
    # chunk-by-chunk reading of multi-chunk files
    mlines = []
    for r in res:
        c = r["case"]
        if r["bytes"] and len(c["chunks"]) > 1:
            mlines.append(("dops %s 100000 W%s H %s M" % (c["dt"], r["bytes"], " ".join(["M", "B"] * len(c["chunks"]))), c))
    for (l, c), a in zip(mlines, C.harness([l for l, _ in mlines])):
        toks = [t.rsplit("@", 1)[0] for t in a.split(" ; ")]
        bodies = [t for t in toks if t.startswith("ok vals=")]
        want = ["ok vals=" + ",".join("%x" % x for x in ch) for ch in c["chunks"]]
        if bodies != want or toks[-1] != "ok none":
            ctx.violation("chunk-by-chunk reading differs from the input", S.compress_line(c), str(want), a)
    # layer B: BitWriter / BitReader operation scripts through the guarded hooks vs the Lean word-level model
    # (proved equal to the bit-list level: writeDiff_spec, writeVarint_spec, readDiff_spec, readVarint_spec, ...)
    BS.run(ctx, BS.writer_lines(ctx.rng, 1500 if ctx.quick else 20000), "bits(writer)")
    BS.run(ctx, BS.reader_lines(ctx.rng, 1500 if ctx.quick else 20000), "bits(reader)")
    # big implementation-only round trips
    big = [
        "bigrt i32 8 0 1 zeros_outlier 9000001 1",
        "bigrt i64 8 0 1 outlier_zeros %d 1" % ((1 << 23) + 6),
        "bigrt bool 8 0 1 zeros_outlier %d 1" % ((1 << 24) - 1),
        "bigrt u32 8 0 1 sparse 3000000 %d" % ctx.seed,
    ]
    if not ctx.quick:
        big += ["bigrt f64 12 0 1 uniform 5000000 7", "bigrt i64 12 1 1 lattice 5000000 9", "bigrt u64 8 0 0 sparse %d 11" % ((1 << 24) - 1),
                "bigrt i16 10 2 1 uniform %d 5" % ((1 << 24) - 1)]
    for l, a in zip(big, C.harness(big, timeout=1800, mem_kb=24 * 1024 * 1024)):
        ctx.case(l, ["big"])
        if not a.startswith("ok 1"):
            ctx.violation("big round trip failed", l, "ok 1", a)
    # simple_compress on inputs longer than one default chunk (1 000 000 numbers): a few numbers more than a multiple of
    # the chunk size (a trailing chunk of r <= delta order numbers holds delta moments only), exact multiples, one less
    simple = ["bigsimple i32 4 1 1 smooth 1000001 3", "bigsimple i64 2 3 0 smooth 1000003 5", "bigsimple u16 0 0 1 uniform 1000000 7"]
    if not ctx.quick:
        simple += ["bigsimple i64 6 7 1 smooth 2000005 9", "bigsimple f32 4 2 1 sparse 999999 11", "bigsimple bool 8 1 1 sparse 2000001 13",
                   "bigsimple u32 4 5 1 uniform 3000002 15", "bigsimple micros 3 2 0 smooth 1000008 17"]
    for l, a in zip(simple, C.harness(simple, timeout=1800, mem_kb=24 * 1024 * 1024)):
        ctx.case(l, ["big", "multi-chunk"])
        kv = S.parse_kv(a)
        if not a.startswith("ok ") or kv.get("rt") != "1":
            ctx.violation("simple_compress -> auto_decompress does not reproduce an input longer than one chunk (decoded %s of %s numbers)"
                          % (kv.get("len"), kv.get("n")), l, "rt=1", a[:200])
