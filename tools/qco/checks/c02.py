"""C02: the writer conforms to the frozen format (the independent Lean decoder agrees)."""
from .. import common as C
from .. import gen as G
from .. import streams as S
from . import c01

def run(ctx):
    ctx.rule = ("enc stream as in C01; decisive here: the Lean spec decoder (frozen constants, written from the format "
                "description) accepts the real writer's bytes, consumes them exactly to the last byte, recovers the flags "
                "implied by the configuration, the same chunk metadata as Compressor::chunk returned (divisor of single-valued "
                "ranges not significant), the same numbers, and the spec *encoder* applied to the decoded syntax tree with the "
                "greedy run grouping reproduces the bytes bit for bit (so the real writer is inside the image of the spec "
                "encoder, padding bits zero). The 8 shipped asset files (written by 0.4/0.6/0.9/0.10) are decoded by the spec "
                "decoder and compared with their .bin values: they pin the frozen constants independently. Layer W: the literal "
                "Lean model of trained_compress_chunk_nums / CompressionTable (proved equal to the spec encoder for every table "
                "and input, C02w) is run against the real function through the guarded hook on random tables (any complete code "
                "tree, disjoint ranges, divisors, run-length prefix, dyadic / full-width ranges, 16..128-bit types) and inputs "
                "(covered, uncovered, off-lattice): bits or error kind compared string for string. Stream floatfns: Prefix::k_info, gcd_bits_required and "
                "Flags::bits_to_encode_count (f64 in the library) against the integer k = floor(log2(range/gcd+1)), the field-width "
                "function gb and clog2(n+1) of the format model, on every power of two +-2 of every width and the f64 rounding zone. "
                "non-trivial as in C01")
    if not ctx.model_ok:
        return
    cs = c01.cases(ctx)
    if ctx.quick:
        cs = cs[:2500]
    res = S.run_enc(ctx, cs)
    for r in res:
        c = r["case"]
        line = S.compress_line(c)
        tags = set()
        for ch in r["chunks"]:
            tags.update(t for t in ch.get("tags", "").split(",") if t)
        ctx.case(line, sorted(tags))
        ctx.count("dtype:" + c["dt"])
        if r["bytes"] is None:
            continue   # C01/C09 territory
        m = r["model"]
        if m is None or not m.startswith("ok "):
            ctx.violation("the frozen-format decoder does not accept the writer's bytes", line, "ok", str(m), kind="format-nonconformance")
            continue
        h = r["head"]
        bad = []
        if h.get("rest") != "0":
            bad.append("trailing bytes")
        if h.get("flags") != "1":
            bad.append("flags differ from the configuration")
        if h.get("nchunks") != "1":
            bad.append("chunk count")
        if h.get("reenc") != "1":
            bad.append("spec re-encoding of the decoded tree differs from the bytes")
        for ch in r["chunks"]:
            if ch.get("vals") != "1" or ch.get("n") != "1":
                bad.append("numbers")
        dm = r.get("dec_metas", [])
        if len(dm) != len(r["metas"]) or not all(S.meta_equal_mod_single(a, b) for a, b in zip(r["metas"], dm)):
            bad.append("returned ChunkMetadata differs from the one in the bytes")
        if bad:
            ctx.violation("writer output is not the frozen format: " + "; ".join(sorted(set(bad))), line,
                          "conformant file", (r["bytes"] or "")[:400] + " :: " + m[:600], kind="format-nonconformance")
    # assets
    al = S.assets()
    ans = C.driver(["dec %s %s" % (dt, hx) for (_, dt, hx, _) in al])
    for (name, dt, hx, vals), a in zip(al, ans):
        ctx.case("asset " + name, ["asset"])
        ok = a.startswith("ok ") and " rest=0 " in a
        got = []
        if ok:
            for p in a.split(" | ")[1:]:
                got += G.parse_hexlist(S.parse_kv(p).get("vals", ""))
        if not ok or got != vals:
            ctx.disagree("asset", name, a[:300], "expected %d values" % len(vals), "frozen-format decoder does not reproduce the shipped asset")
    if len(al) != 8:
        ctx.tie_break("assets", "expected 8 asset files, found %d" % len(al))
    # layer W: the literal model of the body writer (proved = spec encoder, C02w) against trained_compress_chunk_nums
    from .. import litstream as L
    L.run_bodywrite(ctx, 250 if ctx.quick else 4000)
    # runs too long for a request line (the run-length varint uses all of its 24 value bits from 2^23 + 1 repetitions
    # on): the writer's bytes are decoded by the frozen-format decoder as a streaming loop (driver `decsum`: the spec's
    # unit decoder iterated), count and digest of the numbers compared with the input's
    R = (1 << 23) + 1
    big = ["bigfmt bool 8 0 1 0*1,1*%d,0*3,1*2,0*1,1*6" % R]
    if not ctx.quick:
        big += ["bigfmt i32 8 0 1 7*5,0*%d,3e8*1,0*40,7*2" % (R + 4), "bigfmt u16 12 0 0 1*%d,0*2,1*1,2*1" % ((1 << 24) - 5),
                "bigfmt bool 8 0 1 1*%d,0*1" % ((1 << 24) - 2)]
    for line, a in zip(big, C.harness(big, timeout=1200, mem_kb=8 * 1024 * 1024)):
        ctx.case(line, ["long-run"])
        if not a.startswith("ok "):
            ctx.violation("compressing a valid long-run chunk failed", line, "ok", a[:200])
            continue
        kv = S.parse_kv(a)
        m = C.driver(["decsum %s %s" % (line.split(" ")[1], kv["bytes"])], timeout=600)[0] if ctx.model_ok else None
        if m in (None, "timeout", "died"):
            continue
        mk = S.parse_kv(m)
        if not m.startswith("ok ") or mk.get("n") != kv["n"] or mk.get("digest") != kv["digest"] or mk.get("rest") != "0":
            ctx.violation("the frozen-format decoder does not accept the writer's bytes (run of >= 2^23 + 1 numbers)", line,
                          "n=%s digest=%s rest=0" % (kv["n"], kv["digest"]), m[:200] + " :: bytes=" + kv["bytes"][:200], kind="format-nonconformance")
    # the f64-defined field widths (k, GCD field, count field) against the integer functions of the format model
    from .. import floatstream as F
    F.run(ctx, {"kinfo", "gcdbits", "countbits"})
