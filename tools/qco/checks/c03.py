"""C03: the reader decodes every format-valid file (legacy flags, any legal writer choices, shipped assets)."""
import math
from .. import common as C
from .. import gen as G
from .. import streams as S
from .. import dstream as D

def gb_float(r):
    return 0 if r == 0 else int(math.ceil(math.log2(float(r))))

def rand_tree(rng, leaves, max_depth):
    """random full binary tree as a list of codes (strings); degenerate combs included"""
    codes = [""]
    style = rng.choice(["random", "comb", "balanced"])
    while len(codes) < leaves:
        cand = [c for c in codes if len(c) < max_depth]
        if not cand:
            break
        if style == "comb":
            c = max(cand, key=len)
        elif style == "balanced":
            c = min(cand, key=len)
        else:
            c = rng.choice(cand)
        codes.remove(c)
        codes += [c + "0", c + "1"]
    rng_order = list(codes)
    # any order of the prefixes in the table is legal
    for i in range(len(rng_order) - 1, 0, -1):
        j = rng.below(i + 1)
        rng_order[i], rng_order[j] = rng_order[j], rng_order[i]
    return rng_order

def pref_dtype(dt, order):
    P, W, kind, pps = C.DTYPES[dt]
    if order == 0:
        return (P, W, kind, pps)
    return (P, W, "bool", 0) if kind == "bool" else (W, W, "int", 0)

def rand_u(rng, pd):
    """a valid unsigned-domain value of the (prefix) dtype"""
    P, W, kind, pps = pd
    if kind == "bool":
        return rng.below(2)
    if kind == "ts96":
        lo = (1 << 127) - pps * (1 << 63)
        return lo + rng.below(2 * pps * (1 << 63))
    e = rng.range(0, W)
    v = rng.bits(W)
    return v >> (W - e) if e else 0

def gen_chunk(rng, dt, fl, quick):
    use5, order, mincount, gcds = fl
    P, W, kind, pps = C.DTYPES[dt]
    pd = pref_dtype(dt, order)
    n = rng.choice([0, 1, 2, 3, 5, 17, 60, 200]) if not (order and rng.chance(1, 5)) else rng.range(0, order)
    nb = max(0, n - order)
    sd = (P, W, "bool", 0) if kind == "bool" else (W, W, "int", 0)
    moments = [(rng.below(2) if kind == "bool" else rng.bits(W) >> rng.range(0, W - 1)) for _ in range(order)]
    max_depth = (31 if use5 else 15)
    if quick or True:
        max_depth = min(max_depth, 22)        # validate_prefix_tree allocates 2^depth flags
    if nb == 0 and rng.chance(1, 2):
        codes = []
    else:
        codes = rand_tree(rng, rng.choice([1, 1, 2, 3, 5, 8, 20, 40]), max_depth)
    count_bits = max(0, n.bit_length()) if mincount else 24       # ceil(log2(n+1))
    count_bits = (n + 1 - 1).bit_length() if mincount else 24
    common = None
    if gcds and rng.chance(1, 2):
        common = rng.choice([1, 1, 2, 3, 10, rng.bits(min(W, 40)) | 1])
        if pd[2] == "bool":
            common = 1
    prefixes = []
    for code in codes:
        lo = rand_u(rng, pd); hi = rand_u(rng, pd)
        if lo > hi:
            lo, hi = hi, lo
        if rng.chance(1, 4):
            hi = lo
        if rng.chance(1, 8) and pd[2] not in ("bool", "ts96"):
            lo, hi = 0, (1 << W) - 1          # the full-width range (k = W): what a writer storing raw numbers would use
        elif rng.chance(1, 6) and pd[2] not in ("bool", "ts96"):
            j = rng.range(0, W)
            hi = min((1 << W) - 1, lo + max(0, (1 << j) + rng.choice([-2, -1, 0, 1])))
        rng_ = hi - lo
        if not gcds:
            g = 1
        elif common is not None:
            g = common
        else:
            g = 1
            if rng_ > 0 and rng_ != (1 << W) - 1 and rng.chance(1, 2):
                g = rng.range(1, max(1, min(rng_, 1 << 30)))
                if not (g - 1 < rng_ and g - 1 < (1 << gb_float(rng_))):
                    g = 1
        jump = rng.choice([None, None, 0, 1, 5, 23, 24]) if rng.chance(1, 2) else None
        cnt = rng.below(1 << count_bits) if count_bits else 0
        prefixes.append([cnt, lo, hi, code, jump, g])
    blocks = []
    left = nb
    while left > 0 and prefixes:
        p = rng.below(len(prefixes))
        cnt, lo, hi, code, jump, g = prefixes[p]
        r = (hi - lo) // g
        def off():
            return rng.choice([0, r, rng.below(r + 1), min(r, (1 << max(0, (r + 1).bit_length() - 1)) - 1)])
        if jump is None:
            blocks.append("o%d:%x" % (p, off())); left -= 1
        else:
            reps = min(left, rng.choice([1, 1, 2, 3, 7, 30, 100, left]))
            blocks.append("r%d:%x:%s" % (p, off(), G.hexlist([off() for _ in range(reps - 1)]))); left -= reps
    ptxt = ";".join("%d:%x:%x:%s:%s:%x" % (c, lo, hi, code, "-" if j is None else j, g) for (c, lo, hi, code, j, g) in prefixes) or "-"
    return "%d/%s/%s/%s/%s" % (n, G.hexlist(moments), "-" if (common is None or not gcds) else "%x" % common, ptxt, ";".join(blocks) or "-")

def run(ctx):
    rng = ctx.rng
    ctx.rule = ("dec stream: random *syntax trees* of the frozen grammar - any complete prefix-code tree (random, comb-shaped up "
                "to depth 22, balanced; prefixes in any order), overlapping/widened ranges, any legal divisor (common field or "
                "per range), jumpstarts 0..24 on any range, runs of any length, all 16 combinations of the legacy flag bits "
                "(4-bit code lengths, 24-bit counts, no GCD bit), delta orders 0..7 incl. n <= order, zero-count chunks - are "
                "encoded by the Lean *spec encoder* and decoded by the real library in three modes (simple_decompress, chunk API, "
                "iterator with a random limit); the numbers must equal the model's `chunkVals`. Plus the 8 shipped assets through "
                "both decoders. Layer N: the literal Lean model of decompress_unsigneds_limited_dirty (incomplete-prefix resume, "
                "guaranteed_safe_num_blocks fast path with unchecked reads, checked tail; proved equal to the abstract batch decoder "
                "and panic-free, C03n) is run against the real NumDecompressor through the guarded hook on valid, truncated, "
                "trailing and random bodies for random tables, every call chained from the state the previous one left (limits "
                "1..2^24, both insufficient-data modes): numbers, finished flag, incomplete prefix, bit index compared string for "
                "string. non-trivial = tree with >1 code, run block, divisor >1, legacy flag or delta")
    reqs, info = [], []
    for i in range(3000 if ctx.quick else 30000):
        dt = S.ALL_DT[i % 15]
        fl = (rng.below(2), rng.choice([0, 0, 1, 2, 7, rng.range(0, 7)]), rng.below(2), rng.below(2))
        chunks = [gen_chunk(rng, dt, fl, ctx.quick) for _ in range(rng.choice([1, 1, 2, 3]))]
        reqs.append("ast %s %d,%d,%d,%d %s" % (dt, fl[0], fl[1], fl[2], fl[3], " ".join(chunks)))
        info.append((dt, fl))
    enc = C.driver(reqs) if ctx.model_ok else []
    lines, linfo = [], []
    for req, (dt, fl), a in zip(reqs, info, enc):
        tags = set()
        if ";" in req.split(" ", 3)[3]: tags.add("multi")
        if ":r" in req or " r" in req or "/r" in req: tags.add("run")
        if fl[0] == 0 or fl[2] == 0 or fl[3] == 0: tags.add("legacy")
        if fl[1]: tags.add("delta")
        ctx.case(req if len(req) < 300 else req[:300], sorted(tags))
        ctx.count("dtype:" + dt); ctx.count("flags:%d%d%d" % (fl[0], fl[2], fl[3])); ctx.count("order:%d" % fl[1])
        if not a.startswith("ok bytes="):
            ctx.tie_break("ast", "spec encoder answered %s for %s" % (a[:100], req[:200]))
            continue
        parts = a.split(" | ")
        kv = S.parse_kv(parts[0])
        if kv.get("self") != "1":
            ctx.tie_break("ast-generator", "generated tree is not well-formed (spec decoder does not invert the spec encoder): " + req[:300])
            continue
        vals = [G.parse_hexlist(S.parse_kv(p).get("vals", "")) for p in parts[1:]]
        hx = kv["bytes"]
        lim = rng.choice([1, 2, 7, 30, 31, 100000])
        for mode, l in (("D", "dops %s 100000 W%s D" % (dt, hx)),
                        ("chunks", "dops %s 100000 W%s H %s M" % (dt, hx, " ".join(["M", "B"] * len(vals)))),
                        ("iter", "dops %s %d W%s R R" % (dt, lim, hx))):
            lines.append(l); linfo.append((req, mode, vals, lim))
    ans = C.harness(lines, timeout=1800, mem_kb=8 * 1024 * 1024)
    for l, (req, mode, vals, lim), a in zip(lines, linfo, ans):
        toks = D.split_tokens(a)
        flat = [x for v in vals for x in v]
        if any(b.startswith("panic") or b in ("died", "timeout") for b, _ in toks):
            ctx.violation("decoding a format-valid file panicked (%s)" % mode, l, "numbers", a[-300:] + " :: " + req[:400])
            continue
        if mode == "D":
            got = toks[-1][0]
            ok = got == "ok vals=" + ",".join("%x" % x for x in flat)
        elif mode == "chunks":
            bodies = [b for b, _ in toks if b.startswith("ok vals=")]
            ok = bodies == ["ok vals=" + ",".join("%x" % x for x in v) for v in vals] and toks[-1][0] == "ok none"
        else:
            items = D.drained_items(toks[1][0])
            got = [x for it in items if it.startswith("nums ") for x in G.parse_hexlist(it[5:])]
            ok = got == flat and items and items[-1] == "footer" and all(len(G.parse_hexlist(it[5:])) <= lim for it in items if it.startswith("nums "))
        if not ok:
            ctx.violation("the reader does not decode a format-valid file to the numbers it encodes (%s)" % mode, l, str(vals)[:300], a[:400] + " :: " + req[:300])
    # layer N: the literal model of NumDecompressor's dirty batch with its unchecked fast path (proved equal to the abstract
    # batch decoder and panic-free, C03n) against the real one through the guarded hook, chained over several calls
    from .. import litstream as L
    good = L.run_bodywrite(ctx, 120 if ctx.quick else 1500)
    L.run_numdec(ctx, good, 120 if ctx.quick else 2500)
    L.run_ndbounds(ctx, 600 if ctx.quick else 8000)
    # assets through both decoders
    al = S.assets()
    ia = C.harness(["dops %s 100000 W%s D" % (dt, hx) for (_, dt, hx, _) in al])
    ma = C.driver(["dec %s %s" % (dt, hx) for (_, dt, hx, _) in al]) if ctx.model_ok else [None] * len(al)
    for (name, dt, hx, vals), a, m in zip(al, ia, ma):
        ctx.case("asset " + name, ["asset"])
        want = "ok vals=" + ",".join("%x" % x for x in vals)
        if D.split_tokens(a)[-1][0] != want:
            ctx.violation("shipped asset %s does not decode to its recorded raw values" % name, "dops %s 100000 W<%s.qco> D" % (dt, name), want[:200], a[:300])
        if m is not None:
            got = []
            for p in m.split(" | ")[1:]:
                got += G.parse_hexlist(S.parse_kv(p).get("vals", ""))
            if not m.startswith("ok ") or got != vals:
                ctx.disagree("asset", name, m[:200], "recorded values")
