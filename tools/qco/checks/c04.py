"""C04: streaming iteration yields the same data for every batch limit."""
from .. import common as C
from .. import gen as G
from .. import streams as S
from .. import dstream as D

def check_items(ctx, line, f, limit, items, after):
    """the property's statement on one drained complete file"""
    bad = []
    if not items or not items[0].startswith("flags "):
        bad.append("first item is not the flags")
    if items.count("footer") != 1 or items[-1] != "footer":
        bad.append("footer not exactly once at the end")
    if any(i.startswith("err") or i == "hang" for i in items):
        bad.append("error item")
    chunks = []
    state = "start"
    for it in items[1:-1] if len(items) >= 2 else []:
        if it.startswith("meta "):
            chunks.append([S.parse_meta(it[5:]), []])
        elif it.startswith("nums "):
            if not chunks:
                bad.append("numbers before metadata")
                break
            v = G.parse_hexlist(it[5:])
            if len(v) == 0:
                bad.append("empty batch")
            if len(v) > limit:
                bad.append("batch of %d > limit %d" % (len(v), limit))
            chunks[-1][1].append(v)
        else:
            bad.append("unexpected item " + it[:30])
    for m, batches in chunks:
        if m["n"] > 0 and not batches:
            bad.append("chunk with n=%d yielded no batch" % m["n"])
        if sum(len(b) for b in batches) != m["n"]:
            bad.append("chunk batches hold %d numbers, metadata says %d" % (sum(len(b) for b in batches), m["n"]))
    got = [[x for b in batches for x in b] for _, batches in chunks]
    if f.get("chunks") is not None:
        if got != f["chunks"]:
            bad.append("numbers differ from the chunk's numbers")
    elif [x for ch in got for x in ch] != f["flat"]:
        bad.append("numbers differ from the recorded values")
    if after != "drained":
        bad.append("iterator yields something after the footer: " + after[:40])
    return bad

def run(ctx):
    rng = ctx.rng
    ctx.rule = ("dops stream with ops `W<all bytes> R R`: complete files (real compressor output of every dtype: sparse with "
                "run-length, dense, delta orders, multi-chunk, GCD; plus the legacy assets incl. the zero-count 0.4 file) "
                "iterated with limits 1,2,29,30,31,100,n-1,n,n+1,100000 and random; decisive: item kinds and order (flags once, "
                "per chunk metadata then batches, footer once, then nothing), every batch non-empty and <= limit, per-chunk "
                "concatenation = the chunk's numbers = whole-file decompression. non-trivial = limit < n (the limit cuts the chunk)")
    files = D.make_files(ctx, 120 if ctx.quick else 600)
    lines, info = [], []
    for f in files:
        nmax = max([len(c) for c in f["chunks"]]) if f.get("chunks") else len(f.get("flat", []))
        lims = [1, 2, 29, 30, 31, 100, max(1, nmax - 1), max(1, nmax), nmax + 1, 100000, rng.range(1, max(2, nmax)), rng.range(1, 64)]
        if ctx.quick:
            lims = sorted(set(lims))
            if nmax > 1200:
                lims = [l for l in lims if l >= 29] + [rng.choice([1, 2])]
        else:
            lims = sorted(set(lims + [rng.range(1, max(2, nmax)) for _ in range(10)]))
        for lim in sorted(set(lims)):
            lines.append("dops %s %d W%s R R" % (f["dt"], lim, f["hex"]))
            info.append((f, lim, nmax))
    ans = C.harness(lines, timeout=1800)
    D.compare_dops(ctx, lines, ans, 'dops(iterate)')
    whole = {}
    wl = ["dops %s 100000 W%s D" % (f["dt"], f["hex"]) for f in files]
    for f, a in zip(files, C.harness(wl)):
        whole[f["hex"]] = D.split_tokens(a)[-1][0]
    for line, (f, lim, nmax), a in zip(lines, info, ans):
        ctx.case("dops %s %d W<%s> R R" % (f["dt"], lim, f["desc"]), ["limit<n"] if lim < nmax else [])
        ctx.count("file:" + f["desc"].split("/")[0])
        if a.startswith("panic") or a in ("died", "timeout") or "panic" in a:
            ctx.violation("iterating a complete valid file panicked (limit %d, %s)" % (lim, f["desc"]), line, "items", a[:300])
            continue
        toks = D.split_tokens(a)
        items = D.drained_items(toks[1][0])
        bad = check_items(ctx, line, f, lim, items, toks[2][0] if len(toks) > 2 else "missing")
        # same numbers as whole-file decompression
        w = whole[f["hex"]]
        flat = ",".join(it[5:] for it in items if it.startswith("nums "))
        if w.startswith("ok vals=") and flat != w[len("ok vals="):]:
            bad.append("numbers differ from simple_decompress")
        if bad:
            ctx.violation("iterator contract broken (limit %d, %s): %s" % (lim, f["desc"], "; ".join(sorted(set(bad))[:4])), line,
                          "flags, (meta, batches)*, footer, none", a[:600])
