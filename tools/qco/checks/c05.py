"""C05: any split of the bytes into writes decodes identically; free_compressed_memory only shifts bit_idx."""
from .. import common as C
from .. import gen as G
from .. import streams as S
from .. import dstream as D
from .. import bitstream as BS
from .. import bitstream as BS

def schedule_line(f, limit, cuts, free_after=()):
    """ops: write piece, drain, [free] ... ; final extra drain"""
    raw = f["hex"]
    pos = [0] + [c * 2 for c in cuts] + [len(raw)]
    ops = []
    for i in range(len(pos) - 1):
        ops.append("W" + raw[pos[i]:pos[i + 1]])
        ops.append("R")
        if i in free_after:
            ops.append("F")
    ops.append("R")
    return "dops %s %d %s" % (f["dt"], limit, " ".join(ops))

def collect(ans):
    """-> (canonical items, final bit_idx + freed bits, raw items, problem)"""
    toks = D.split_tokens(ans)
    items = []
    freed = 0
    prev = 0
    for body, idx in toks:
        if body.startswith("panic") or body in ("died", "timeout"):
            return None, None, None, body
        if body.startswith("drained"):
            items += D.drained_items(body)
        elif body == "ok" and idx < prev:
            freed += prev - idx
        prev = idx
    return D.canon(items), (toks[-1][1] + freed if toks else -1), items, None

def run(ctx):
    rng = ctx.rng
    ctx.rule = ("dops stream `W<piece> R [F]` ... `R`: the bytes of valid files (every dtype; sparse/run-length, dense, delta, "
                "multi-chunk, GCD, legacy assets) are cut into successive writes - every single cut position of small files, "
                "every pair of cuts of tiny files, random multi-cut schedules of larger ones, with free_compressed_memory "
                "sprinkled in - draining the iterator after each piece; decisive: the canonical item sequence (a chunk's "
                "consecutive batches concatenated) equals that of write-all-then-drain, nothing lost or duplicated, and the "
                "final bit position (plus the freed multiples of 64) is the same. non-trivial = at least one cut strictly "
                "inside the file")
    small = D.make_files(ctx, 30 if ctx.quick else 120, small=True)
    medium = D.make_files(ctx, 25 if ctx.quick else 120)
    lines, info = [], []
    def add(f, limit, cuts, free_after=()):
        lines.append(schedule_line(f, limit, cuts, free_after))
        info.append((f, limit, tuple(cuts), tuple(free_after)))
    for f in small + medium:
        add(f, 100000, [])        # reference: all bytes first
    for f in small:
        nb = len(f["hex"]) // 2
        lim = rng.choice([1, 2, 3, 100000])
        if nb <= 400 or not ctx.quick:
            cut_positions = range(1, nb)
        elif nb <= 1500:
            cut_positions = range(1, nb, 3)
        else:
            cut_positions = sorted(set(list(range(1, 40)) + [rng.range(1, nb - 1) for _ in range(60)]))
        for c in cut_positions:
            add(f, lim, [c], free_after=(0,) if rng.chance(1, 4) else ())
        if nb <= 40 or (not ctx.quick and nb <= 90):
            for c1 in range(1, nb):
                for c2 in range(c1 + 1, nb):
                    add(f, lim, [c1, c2])
    for f in medium:
        nb = len(f["hex"]) // 2
        for _ in range(12 if ctx.quick else 80):
            k = rng.choice([1, 2, 3, 5, 10, 30])
            cuts = sorted(set(rng.range(1, nb - 1) for _ in range(k))) if nb > 2 else []
            frees = tuple(i for i in range(len(cuts) + 1) if rng.chance(1, 3))
            add(f, rng.choice([1, 7, 30, 31, 100, 100000]), cuts, frees)
        # fine-grained feeding of files with wide run-length prefixes: a run is interrupted again and again
        if "wide-run" in f["desc"]:
            for piece, lim in ((1, 100000), (1, 7), (3, 7), (5, 20), (2, 1), (64, 1)):
                cuts = list(range(piece, nb, piece))
                add(f, lim, cuts, tuple(i for i in range(0, len(cuts), 11)) if rng.chance(1, 2) else ())
        # one byte at a time
        if nb <= 700:
            add(f, rng.choice([5, 100000]), list(range(1, nb)), tuple(range(0, nb, 9)))
    # layer B: BitWords::extend at every alignment / truncate_left, through the guarded hooks, vs the Lean word-level
    # model (for which extend_spec / truncateLeft_spec prove that it is bit-list append / drop of 64k bits)
    BS.run(ctx, BS.words_lines(rng, 1500 if ctx.quick else 20000), "bits(words)")
    ans = C.harness(lines, timeout=2400)
    D.compare_dops(ctx, lines, ans, 'dops(split)', sample=[i for i in range(len(lines)) if i % (1 if not ctx.quick else 3) == 0])
    ref = {}
    for line, (f, lim, cuts, frees), a in zip(lines, info, ans):
        can, fin, items, prob = collect(a)
        if not cuts and not frees and f["hex"] not in ref:
            ref[f["hex"]] = (can, fin)
            if prob or not can or can[-1] != "footer":
                ctx.violation("reference run (all bytes first) does not reach the footer: " + f["desc"], line, "… footer", a[:300])
            continue
        ctx.case("dops %s %d cuts=%s frees=%s file=%s" % (f["dt"], lim, list(cuts)[:8], list(frees)[:8], f["desc"]), ["cut"] if cuts else [])
        ctx.count("cuts:%d" % min(len(cuts), 10))
        rcan, rfin = ref[f["hex"]]
        if prob:
            ctx.violation("incremental decoding panicked: %s cuts=%s" % (f["desc"], list(cuts)[:10]), line, "items", prob)
            continue
        why = None
        if can != rcan:
            why = "item sequence differs from write-all-first"
        elif fin != rfin:
            why = "final bit position differs (%s vs %s)" % (fin, rfin)
        if why:
            ctx.violation("split into writes changes the result: %s; file %s, limit %d, cuts %s, frees %s" % (why, f["desc"], lim, list(cuts)[:10], list(frees)[:10]),
                          line, " , ".join(rcan)[:500], " , ".join(can)[:500])
