"""C06: truncated files are reported as insufficient data, never as success."""
from .. import common as C
from .. import gen as G
from .. import streams as S
from .. import dstream as D

def run(ctx):
    rng = ctx.rng
    ctx.rule = ("every truncation length L < len of valid files (every dtype; delta on/off, GCDs on/off, run-length, multi-chunk, "
                "96-bit bounds, legacy assets) is given to whole-file decompression (`W<prefix> D`): the answer must be "
                "err InsufficientData - never ok, another kind or a panic; the Lean decoder is run on the same prefixes and "
                "kinds are compared. non-trivial = L >= 6 (past the header)")
    files = D.make_files(ctx, 60 if ctx.quick else 300, small=ctx.quick) + D.make_files(ctx, 15 if ctx.quick else 80)
    # categorical / low-cardinality files: 3..9 single-valued ranges, Huffman codes of 2+ bits and zero-width
    # offsets, so that the last number of a chunk is nothing but a short code next to a byte boundary
    cat_cases = []
    for _ in range(400 if ctx.quick else 4000):
        dt = rng.choice([d for d in S.ALL_DT if d != "bool"])
        k = rng.range(3, 9)
        vals = []
        while len(vals) < k:
            v = __import__("qco.gen", fromlist=["x"]).random_pattern(rng, dt)
            if v not in vals:
                vals.append(v)
        weights = [rng.choice([1, 1, 2, 3, 5, 8]) for _ in vals]
        pool = [v for v, w in zip(vals, weights) for _ in range(w)]
        n = rng.range(20, 260)
        xs = [rng.choice(pool) for _ in range(n)]
        cat_cases.append({"dt": dt, "level": rng.choice([3, 5, 8]), "order": 0, "gcds": rng.below(2), "chunks": [xs], "kinds": ["categorical"], "drain": 0})
    for c, a in zip(cat_cases, C.harness([S.compress_line(c) for c in cat_cases], timeout=600)):
        if a.startswith("ok bytes="):
            files.append({"dt": c["dt"], "hex": a.split(" ")[1][len("bytes="):], "chunks": c["chunks"], "order": 0, "desc": "%s/categorical" % c["dt"]})
    # single-prefix chunks (a constant chunk, or an arithmetic progression under delta encoding: one prefix with the
    # EMPTY code, i.e. zero-width reads in the prefix-table parser) at every byte alignment: alone for the 16-bit types,
    # and as a later chunk behind a first chunk of 1..14 numbers for every type; every truncation is swept
    one_cases = []
    for _ in range(30 if ctx.quick else 300):
        dt = rng.choice(["i16", "u16", "i16", "u16", "i32", "u64", "f32", "micros"])
        od = rng.choice([1, 1, 2])
        n = rng.choice([3, 5, 40, 600])
        xs = [G.from_signed_val(dt, 7 + 3 * i) for i in range(n)]
        one_cases.append({"dt": dt, "level": rng.choice([0, 8]), "order": od, "gcds": rng.below(2), "chunks": [xs], "kinds": ["one-prefix"], "drain": 0})
    for first in range(1, 15):
        for _ in range(2 if ctx.quick else 8):
            dt = rng.choice([d for d in S.ALL_DT if d != "bool"])
            a = G.gen_seq(rng, dt, first, rng.choice(["uniform", "small", "cluster"]))[0]
            b = [G.from_signed_val(dt, 7)] * rng.choice([2, 5])
            one_cases.append({"dt": dt, "level": rng.choice([0, 8]), "order": 0, "gcds": rng.below(2), "chunks": [a, b], "kinds": ["one-prefix-second"], "drain": 0})
    for c, a in zip(one_cases, C.harness([S.compress_line(c) for c in one_cases], timeout=600)):
        if a.startswith("ok bytes="):
            files.append({"dt": c["dt"], "hex": a.split(" ")[1][len("bytes="):], "chunks": c["chunks"], "order": c["order"], "desc": "%s/%s" % (c["dt"], c["kinds"][0])})
    # many more categorical files, truncated only where a chunk body ends (the last bytes of a one-chunk file): a body
    # that ends exactly on a 64-bit word boundary with a short code as its last bits is rare (about 1 file in 60)
    tail_cases = []
    for _ in range(2500 if ctx.quick else 20000):
        dt = rng.choice([d for d in S.ALL_DT if d != "bool"])
        k = rng.range(3, 7)
        vals = []
        while len(vals) < k:
            v = __import__("qco.gen", fromlist=["x"]).random_pattern(rng, dt)
            if v not in vals:
                vals.append(v)
        pool = [v for i, v in enumerate(vals) for _ in range(1 << max(0, k - 1 - i))]
        n = rng.range(20, 700)
        xs = [rng.choice(pool) for _ in range(n - 1)] + [vals[0]]
        tail_cases.append({"dt": dt, "level": 8, "order": 0, "gcds": rng.below(2), "chunks": [xs], "kinds": ["categorical-tail"], "drain": 0})
    tail_files = []
    for c, a in zip(tail_cases, C.harness([S.compress_line(c) for c in tail_cases], timeout=900)):
        if a.startswith("ok bytes="):
            tail_files.append({"dt": c["dt"], "hex": a.split(" ")[1][len("bytes="):], "desc": "%s/categorical-tail" % c["dt"]})
    lines, info = [], []
    for f in tail_files:
        nb = len(f["hex"]) // 2
        for L in (nb - 1, nb - 2, nb - 9):
            if L >= 0:
                lines.append("dops %s 100000 W%s D" % (f["dt"], f["hex"][:2 * L]))
                info.append((f, L))
    for f in files:
        nb = len(f["hex"]) // 2
        if nb <= 1500:
            Ls = range(0, nb)
        else:
            Ls = sorted(set(list(range(0, 64)) + [rng.range(0, nb - 1) for _ in range(300 if ctx.quick else 1500)] + list(range(nb - 64, nb))))
        for L in Ls:
            lines.append("dops %s 100000 W%s D" % (f["dt"], f["hex"][:2 * L]))
            info.append((f, L))
    ans = C.harness(lines, timeout=2400)
    # model on a sample of the same prefixes
    msel = [i for i in range(len(lines)) if (info[i][1] < 40 or rng.chance(1, 6 if ctx.quick else 2))] if ctx.model_ok else []
    mans = dict(zip(msel, C.driver(["dec %s %s" % (info[i][0]["dt"], info[i][0]["hex"][:2 * info[i][1]] or "-") for i in msel], timeout=2400))) if msel else {}
    for i, (line, (f, L), a) in enumerate(zip(lines, info, ans)):
        ctx.case("dops %s W<%s>[:%d] D" % (f["dt"], f["desc"], L), ["past-header"] if L >= 6 else [])
        last = D.split_tokens(a)[-1][0]
        if last != "err InsufficientData":
            ctx.violation("truncation to %d of %d bytes of %s is not reported as insufficient data" % (L, len(f["hex"]) // 2, f["desc"]),
                          line, "err InsufficientData", a[:300])
        m = mans.get(i)
        if m is not None and m != "insufficient":
            ctx.disagree("dec(truncated)", line[:300], m[:100], last)
