"""C06: truncated files are reported as insufficient data, never as success."""
from .. import common as C
from .. import streams as S
from .. import dstream as D

def run(ctx):
    rng = ctx.rng
    ctx.rule = ("every truncation length L < len of valid files (every dtype; delta on/off, GCDs on/off, run-length, multi-chunk, "
                "96-bit bounds, legacy assets) is given to whole-file decompression (`W<prefix> D`): the answer must be "
                "err InsufficientData - never ok, another kind or a panic; the Lean decoder is run on the same prefixes and "
                "kinds are compared. non-trivial = L >= 6 (past the header)")
    files = D.make_files(ctx, 60 if ctx.quick else 300, small=ctx.quick) + D.make_files(ctx, 15 if ctx.quick else 80)
    lines, info = [], []
    for f in files:
        nb = len(f["hex"]) // 2
        if nb <= 1500:
            Ls = range(0, nb)
        else:
            Ls = sorted(set(list(range(0, 64)) + [rng.range(0, nb - 1) for _ in range(300 if ctx.quick else 1500)] + list(range(nb - 64, nb))))
        for L in Ls:
            lines.append("dops %s 100000 W%s D" % (f["dt"], f["hex"][:2 * L]))
            info.append((f, L))
    ans = C.harness(lines, timeout=2400)
    # model on a sample of the same prefixes
    msel = [i for i in range(len(lines)) if (info[i][1] < 40 or rng.chance(1, 6 if ctx.quick else 2))] if ctx.model_ok else []
    mans = dict(zip(msel, C.driver(["dec %s %s" % (info[i][0]["dt"], info[i][0]["hex"][:2 * info[i][1]] or "-") for i in msel], timeout=2400))) if msel else {}
    for i, (line, (f, L), a) in enumerate(zip(lines, info, ans)):
        ctx.case("dops %s W<%s>[:%d] D" % (f["dt"], f["desc"], L), ["past-header"] if L >= 6 else [])
        last = D.split_tokens(a)[-1][0]
        if last != "err InsufficientData":
            ctx.violation("truncation to %d of %d bytes of %s is not reported as insufficient data" % (L, len(f["hex"]) // 2, f["desc"]),
                          line, "err InsufficientData", a[:300])
        m = mans.get(i)
        if m is not None and m != "insufficient":
            ctx.disagree("dec(truncated)", line[:300], m[:100], last)
