"""C07: corrupt or hostile bytes never panic or hang any decode entry point."""
from .. import common as C
from .. import gen as G
from .. import streams as S
from .. import dstream as D

ENTRY = [
    ("whole", lambda hx, rng: "W%s d" % hx),
    ("chunks", lambda hx, rng: "W%s H m b m S m b m b m S m" % hx),
    ("iter", lambda hx, rng: "W%s r r" % hx),
    ("iter+skip", lambda hx, rng: "W%s N N N S N N m b r" % hx),
    ("incremental", lambda hx, rng: (lambda c: "W%s r W%s r F r" % (hx[:2 * c], hx[2 * c:]))(rng.below(len(hx) // 2 + 1))),
    ("mixed", lambda hx, rng: "W%s H m N S m B N r d" % hx),
]

def mutants(rng, raw, quick):
    out = []
    n = len(raw)
    # all single-bit flips of the first 48 bytes (header, sizes, prefix table head), sampled beyond
    for i in range(min(n, 48 if quick else 200)):
        for b in range(8):
            m = bytearray(raw); m[i] ^= 1 << b; out.append(("flip", bytes(m)))
    for _ in range(40 if quick else 600):
        m = bytearray(raw); i = rng.below(n); m[i] ^= 1 << rng.below(8); out.append(("flip", bytes(m)))
    for _ in range(25 if quick else 400):
        m = bytearray(raw); i = rng.below(n); m[i] = rng.choice([0, 1, 0x7f, 0x80, 0xff, rng.below(256)]); out.append(("subst", bytes(m)))
    for _ in range(10 if quick else 150):
        i, j = sorted((rng.below(n + 1), rng.below(n + 1)))
        k = rng.below(n + 1)
        out.append(("splice", raw[:i] + raw[k:k + (j - i)] + raw[j:]))
        out.append(("delete", raw[:i] + raw[j:]))
        out.append(("dup", raw[:j] + raw[i:]))
    for _ in range(5 if quick else 50):
        out.append(("truncate", raw[:rng.below(n)]))
    # long flag sections (the flag byte followed by many continuation bytes)
    if n > 6 and rng.chance(1, 3):
        for nb in (8, 9, rng.choice([7, 10, 64, 600])):
            for tail in (0x00, 0x80):
                out.append(("longflags", raw[:5] + bytes([raw[5] | 1]) + b"\x01" * (nb - 1) + bytes([tail]) + raw[6:]))
    # size-field attacks
    if n > 14:
        for v in (0, 1, 0xffffffff, 0x7fffffff):
            m = bytearray(raw); m[10:14] = v.to_bytes(4, "big"); out.append(("bodysize", bytes(m)))
        for v in (0, 1, 0xffffff, 0x800000):
            m = bytearray(raw); m[7:10] = v.to_bytes(3, "big"); out.append(("count", bytes(m)))
    return out

def set_field(raw, off, w, val):
    """bits [off, off+w) of the byte string (bit 0 = most significant bit of byte 0) := val"""
    total = len(raw) * 8
    x = int.from_bytes(raw, "big")
    shift = total - off - w
    if shift < 0:
        return raw
    mask = ((1 << w) - 1) << shift
    x = (x & ~mask) | ((val & ((1 << w) - 1)) << shift)
    return x.to_bytes(len(raw), "big")

def field_mutants(rng, raw, fields, quick):
    """whole metadata fields (from the spec decoder's field map) set to extreme or neighbouring values"""
    out = []
    total = len(raw) * 8
    x = int.from_bytes(raw, "big")
    for (name, off, w) in fields:
        if off + w > total or w == 0:
            continue
        cur = (x >> (total - off - w)) & ((1 << w) - 1)
        vals = {(1 << w) - 1, 0, cur + 1, cur - 1, cur ^ (1 << (w - 1)), (1 << w) - 2, 1}
        vals = sorted(v & ((1 << w) - 1) for v in vals)
        vals = [v for v in dict.fromkeys(vals) if v != cur]
        if quick and not (name.endswith("gcd") or name.endswith("jumpstart") or name.endswith("nprefs")):
            vals = [v for v in vals if rng.chance(1, 3)] or vals[:1]
        short = name.split(".")[-1].rstrip("0123456789")
        kind = "count" if short == "n" else "field:" + short
        for v in vals:
            out.append((kind, set_field(raw, off, w, v)))
    return out

def lying_files(ctx, count):
    """hostile files whose METADATA parses but lies: built with the spec encoder (driver `ast`, which does not check
    well-formedness) from a chunk with a large n, a run-length prefix over a wide range whose count field claims 0, 1 or 2
    numbers (the format never ties counts to the body), no blocks; the body is then replaced by hostile bytes (all ones =
    maximal run-length varints, zeros, random) of a length the size field tells the truth or lies about. Byte-level
    mutation practically never produces these (several fields must cooperate)."""
    from . import c03
    rng = ctx.rng
    lines, dts = [], []
    for _ in range(count):
        dt = rng.choice([d for d in S.ALL_DT if C.DTYPES[d][2] not in ("bool", "ts96")])
        P, W, kind, pps = C.DTYPES[dt]
        gcds = rng.below(2)
        n = rng.choice([40, 1000, 5000, 100000])
        codes = c03.rand_tree(rng, rng.choice([1, 1, 2, 3]), 6)
        ji = rng.below(len(codes))
        prefs = []
        for i, code in enumerate(codes):
            if i == ji:
                k = rng.choice([1, 2, 7, W - 1, W])
                lo = 0 if k == W else rng.below((1 << W) - (1 << k))
                hi = (1 << W) - 1 if k == W else lo + (1 << k) - 1 + rng.choice([0, 0, 1]) * (1 if lo + (1 << k) < (1 << W) else 0)
                prefs.append((rng.choice([0, 1, 1, 2, n]), lo, hi, code, rng.choice([0, 0, 1, 5, 24]), 1))
            else:
                lo = rng.below(1 << W)
                prefs.append((rng.below(n + 1), lo, lo, code, None, 1))
        ptxt = ";".join("%d:%x:%x:%s:%s:%x" % (c, lo, hi, code, "-" if j is None else j, g) for (c, lo, hi, code, j, g) in prefs)
        lines.append("ast %s 1,0,1,%d %d/-/-/%s/-" % (dt, gcds, n, ptxt))
        dts.append(dt)
    # 96-bit timestamps: bounds whose 12-byte raw form lies outside the documented range (all zeros .. all ones: a
    # range of 2^96 - 1, k = 96 = PHYSICAL_BITS < Unsigned::BITS); the reader must refuse the bound, never decode with it
    for _ in range(max(8, count // 6)):
        dt = rng.choice(["micros96", "nanos96"])
        P, W, kind, pps = C.DTYPES[dt]
        lo = (1 << (W - 1)) - pps * (1 << 63)
        hi = lo + rng.choice([(1 << 96) - 1, (1 << 96) - 1, (1 << 96) - 1, (1 << 95), 2 * pps * (1 << 63)])
        n = rng.choice([1000, 5000])
        lines.append("ast %s 1,0,1,%d %d/-/-/%d:%x:%x::-:1/-" % (dt, rng.below(2), n, n, lo, hi))
        dts.append(dt)
    out = []
    for dt, line, a in zip(dts, lines, C.driver(lines)):
        if not a.startswith("ok bytes="):
            continue
        raw = bytes.fromhex(a.split(" ")[1][len("bytes="):])
        if len(raw) < 16 or raw[-1] != 0x2e:
            continue
        L = rng.choice([8, 50, 400, 400, 2000])
        if C.DTYPES[dt][2] == "ts96":
            L = rng.choice([2000, 2000, 4000])         # enough data for the unchecked path (>= 30 blocks of 96+ bits)
        if rng.chance(1, 2) or C.DTYPES[dt][2] == "ts96":
            L += (8 - (len(raw) + L) % 8) % 8          # the file ends on a 64-bit word boundary
        body = rng.choice([b"\xff" * L, b"\xff" * L, b"\x00" * L, bytes(rng.below(256) for _ in range(L)),
                           bytes([rng.below(256)]) + b"\xff" * (L - 1)])
        if C.DTYPES[dt][2] == "ts96" and rng.chance(3, 4):
            body = b"\xff" * L
        size = rng.choice([L, L, L, 0, 1, 0xffffffff, L + 1]) if C.DTYPES[dt][2] != "ts96" else L
        m = bytearray(raw[:-1] + body + b"\x2e")
        m[10:14] = size.to_bytes(4, "big")
        out.append((dt, bytes(m)))
    return out

def run(ctx):
    ctx.explanation = ("partial: theorems cover the arithmetic/indexing facts of the operational model (offset <= range, value <= upper < 2^W, k <= W, metadata bounds, reps <= batch, saturating skip, reader stays inside the data, complete trees never fail but for lack of data) in every reachable state on arbitrary bytes, the word-level reader (layer B), the literal Huffman table lookup (HT) and - C03n - NumDecompressor's dirty batch including the unchecked fast path: no out-of-bounds word index and no usize underflow for any complete tree, buffer and state (numDec_no_panic, fast_guard_sound); NOT covered by theorems: unsigned overflow of lower + offset*gcd in the value reconstruction, the metadata parser's own statements, allocation failure (2^max_depth validation table) - these are exercised by the mutation fuzz (byte-level and field-aware) only")
    rng = ctx.rng
    ctx.rule = ("mutation fuzz on the implementation (overflow checks + debug assertions on, catch_unwind per call, wall-clock and "
                "memory caps per batch, dead batches bisected to the single input): bit flips (all of the first bytes, sampled "
                "beyond), byte substitutions, splices, deletions, duplications, truncations, body-size and count field attacks, and "
                "FIELD-AWARE forgeries (the spec decoder's field map of each file: every metadata field - n, body size, moments, "
                "prefix count, common/own GCD flags and fields, counts, bounds, code lengths, codes, jumpstarts - set to all ones, "
                "zero, +-1, top bit flipped) of "
                "valid files of every dtype/flag combination, plus random bytes behind a valid header, plus LYING files (metadata that "
                "parses but lies - run-length prefix over a wide range with count 0..2, large n - built with the spec encoder, "
                "hostile body bytes, truthful or forged size field); every decode entry point "
                "and mixed call sequences (whole file, chunk API with skipping, iterator, iterator+skip, incremental writes with "
                "free_compressed_memory, mixed). Decisive: never a panic, never a hang/timeout, never an abort. A sample is also "
                "run on the Lean operational model and the class {numbers | error kind} and bit positions are compared. "
                "non-trivial = mutant whose decoding gets past the header")
    files = D.make_files(ctx, 30 if ctx.quick else 150, small=True) + D.make_files(ctx, 8 if ctx.quick else 50)
    lines, info = [], []
    # field map of every file from the spec decoder (model driver): whole fields are then forged
    fmaps = C.driver(["fields %s %s" % (f["dt"], f["hex"]) for f in files]) if ctx.model_ok else ["" for _ in files]
    for f, fm in zip(files, fmaps):
        raw = bytes.fromhex(f["hex"])
        ms = mutants(rng, raw, ctx.quick)
        if fm.startswith("ok "):
            fields = [(t.split(":")[0], int(t.split(":")[1]), int(t.split(":")[2])) for t in fm[3:].split(" ") if t.count(":") == 2]
            if ctx.quick and len(fields) > 60:
                head = [x for x in fields if x[0].count(".") == 1 or ".p0." in x[0] or ".p1." in x[0]]
                rest = [x for x in fields if x not in head]
                fields = head + [rest[rng.below(len(rest))] for _ in range(30)] if rest else head
            ms += field_mutants(rng, raw, fields, ctx.quick)
        # the unmutated file through every entry point as well
        for name, mk in ENTRY:
            lines.append("dops %s %d %s" % (f["dt"], rng.choice([1, 30, 31, 100000]), mk(raw.hex(), rng)))
            info.append((f["desc"], "identity", name))
        for kind, m in ms:
            name, mk = ENTRY[rng.below(len(ENTRY))]
            lim = rng.choice([1, 2, 29, 30, 31, 1000, 100000])
            lines.append("dops %s %d %s" % (f["dt"], lim, mk(m.hex(), rng)))
            info.append((f["desc"], kind, name))
    # parseable but lying metadata + hostile bodies (several cooperating fields), through every entry point
    if ctx.model_ok:
        for dt, m in lying_files(ctx, 60 if ctx.quick else 600):
            for name, mk in ENTRY:
                lines.append("dops %s %d %s" % (dt, rng.choice([1000, 100000, 100000, 30, 1]), mk(m.hex(), rng)))
                info.append((dt, "lying-ast", name))
    # the bit bounds that gate the unchecked decoding path (C03n.fast_guard_sound is about the model's), value by value
    from .. import litstream as L
    L.run_ndbounds(ctx, 300 if ctx.quick else 4000)
    # random data behind a valid header
    for dt in S.ALL_DT:
        hb = {"i64": 1, "u64": 2, "i32": 3, "u32": 4, "f64": 5, "f32": 6, "bool": 7, "nanos96": 8, "micros96": 9, "i128": 10, "u128": 11,
              "u16": 12, "i16": 13, "nanos": 14, "micros": 15}[dt]
        for _ in range(6 if ctx.quick else 100):
            body = bytes(rng.below(256) for _ in range(rng.range(0, 80)))
            m = b"qco!" + bytes([hb, rng.choice([0x8c, 0x9c, 0x00, 0xfc, 0x88])]) + bytes([44]) + body
            name, mk = ENTRY[rng.below(len(ENTRY))]
            lines.append("dops %s %d %s" % (dt, rng.choice([1, 30, 100000]), mk(m.hex(), rng)))
            info.append((dt, "random", name))
    ans = C.harness(lines, timeout=600, mem_kb=6 * 1024 * 1024)
    past = 0
    for line, (desc, kind, entry), a in zip(lines, info, ans):
        toks = D.split_tokens(a) if a not in ("died", "timeout") else []
        nontriv = any(b.startswith("ok flags") or b.startswith("flags") or b.startswith("ok meta") or "last=footer" in b or
                      (b.startswith("drained n=") and not b.startswith("drained n=0 ")) or b.startswith("ok n=") for b, _ in toks)
        ctx.case("%s %s via %s #%s" % (kind, desc, entry, C.sha(line)), ["past-header"] if nontriv else [])
        ctx.count("mutation:" + kind); ctx.count("entry:" + entry)
        for b, _ in toks:
            if b.startswith("err "):
                ctx.count("kind:" + b[4:])
        if a in ("died", "timeout") or any(b.startswith("panic") or "hang" in b for b, _ in toks):
            ctx.violation("hostile bytes make a decode entry point panic / hang / abort (%s of %s via %s)" % (kind, desc, entry),
                          line, "numbers or an error value", a[-300:])
    # model comparison on a sample (class + kinds + bit positions)
    if ctx.model_ok:
        sample = [i for i in range(len(lines)) if rng.chance(1, (5 if info[i][1] in ("lying-ast", "longflags") else 4) if ctx.quick else 2)
                  and ans[i] not in ("died", "timeout") and "panic" not in ans[i]]
        # keep the model's work bounded: skip mutants for which the implementation produced millions of numbers
        # (a forged 24-bit count makes the model build lists of millions of numbers: implementation-only cases)
        sample = [i for i in sample if info[i][1] not in ("count", "field:nprefs") and not any(int(x) > 300000 for x in __import__("re").findall(r"n=(\d+)", ans[i]))]
        D.compare_dops(ctx, lines, ans, "dops(hostile)", sample=sample, timeout=240)
