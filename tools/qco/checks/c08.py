"""C08: failed decompressor calls leave it unchanged; the call protocol is enforced."""
from .. import common as C
from .. import gen as G
from .. import streams as S
from .. import dstream as D

OPS = ["H", "M", "B", "S", "N", "F", "I", "D"]

def is_failure(body):
    return body.startswith("err ") or body == "none"

def history(rng, f, nops, corrupt=None):
    """random interleaving of writes and calls; returns list of op tokens"""
    raw = bytes.fromhex(f["hex"])
    if corrupt is not None:
        raw = corrupt
    ops = []
    pos = 0
    for _ in range(nops):
        r = rng.below(100)
        if r < 22 and pos < len(raw):
            k = rng.choice([1, 1, 2, 3, 5, 8, 16, 64, len(raw)])
            ops.append("W" + raw[pos:pos + k].hex())
            pos += k
        elif r < 30 and pos < len(raw):
            ops.append("W" + raw[pos:].hex())
            pos = len(raw)
        else:
            ops.append(rng.choice(["H", "M", "M", "B", "B", "S", "N", "N", "N", "F", "D"]))
    return ops

def with_probes(ops):
    out = ["G"]
    for o in ops:
        out += [o, "G"]
    return out

def run(ctx):
    rng = ctx.rng
    ctx.rule = ("dops stream: random interleavings of write/header/chunk_metadata/chunk_body/skip_chunk_body/next/"
                "free_compressed_memory/simple_decompress over valid files and corrupted variants (bit flips in metadata, body, "
                "padding and size fields), at every amount of available data, with the Debug rendering hashed before and after "
                "every call. Decisive: (a) a call answering an error or none leaves the Debug rendering and bit_idx identical; "
                "(b) the same history with the failed calls removed gives identical answers for all other calls (twin run); "
                "(c) out-of-order calls answer InvalidArgument; (d) a call that failed for lack of data succeeds once all bytes "
                "are written and returns what it returns when they were there from the start. non-trivial = a history with at "
                "least one failed call")
    files = D.make_files(ctx, 30 if ctx.quick else 150, small=True) + D.make_files(ctx, 14 if ctx.quick else 70)
    hist = []
    for f in files:
        raw = bytes.fromhex(f["hex"])
        variants = [None]
        for _ in range(3 if ctx.quick else 10):
            b = bytearray(raw)
            where = rng.choice(["any", "sizes", "tail", "meta"])
            if where == "sizes" and len(b) > 14:
                i = rng.range(7, 13)
            elif where == "tail":
                i = len(b) - 1 - rng.below(min(3, len(b)))
            elif where == "meta" and len(b) > 20:
                i = rng.range(14, min(len(b) - 1, 40))
            else:
                i = rng.below(len(b))
            b[i] ^= 1 << rng.below(8)
            variants.append(bytes(b))
        # the one-padding-bit and zeroed-size variants
        if len(raw) > 16:
            b = bytearray(raw); b[-2] |= 1; variants.append(bytes(b))
            b = bytearray(raw); b[10:14] = b"\0\0\0\0"; variants.append(bytes(b))
        for v in variants:
            for _ in range(6 if ctx.quick else 25):
                lim = rng.choice([1, 2, 10, 30, 100000])
                hist.append((f, lim, history(rng, f, rng.range(4, 25), corrupt=v), v is not None))
    lines = ["dops %s %d %s" % (f["dt"], lim, " ".join(with_probes(ops))) for (f, lim, ops, _) in hist]
    ans = C.harness(lines, timeout=2400)
    D.compare_dops(ctx, lines, ans, 'dops(history)')
    twin_lines, twin_info = [], []
    for (f, lim, ops, corrupted), line, a in zip(hist, lines, ans):
        toks = D.split_tokens(a)
        failed = []
        bad = None
        if any(b.startswith("panic") or b in ("died", "timeout") for b, _ in toks):
            # panics are C07's business; here they also break "returns an error value"
            ctx.case(line[:300], ["panic"])
            ctx.violation("a decompressor call panicked", line, "a value or an error", a[-300:])
            continue
        # toks: G, (op, G)*
        res = []
        for k, op in enumerate(ops):
            before = toks[2 * k]
            body, idx = toks[2 * k + 1]
            after = toks[2 * k + 2]
            res.append((op, body, idx))
            if op[0] != "W" and op not in ("F", "I") and is_failure(body):
                failed.append(k)
                if before[0] != after[0] or before[1] != idx:
                    bad = "call %d (%s -> %s) changed the decompressor: debug %s -> %s, bit_idx %d -> %d" % (k, op, body, before[0][4:12], after[0][4:12], before[1], idx)
                    break
        tags = ["failed-call"] if failed else []
        if corrupted:
            tags.append("corrupt")
        ctx.case(line[:300] if len(line) > 300 else line, tags)
        ctx.count("failed-calls", len(failed))
        for (op, body, _) in res:
            if body.startswith("err "):
                ctx.count("kind:" + body[4:])
        if bad:
            ctx.violation("failed call is not atomic: " + bad, line, "state unchanged", a[:400])
            continue
        kept = [op for k, op in enumerate(ops) if k not in failed]
        if failed and kept:
            twin_lines.append("dops %s %d %s" % (f["dt"], lim, " ".join(kept)))
            twin_info.append((line, [r for k, r in enumerate(res) if k not in failed]))
    for tl, (line, want), a in zip(twin_lines, twin_info, C.harness(twin_lines, timeout=2400)):
        got = D.split_tokens(a)
        w = [(b, i) for (_, b, i) in want]
        if got != w:
            k = next((j for j in range(min(len(got), len(w))) if got[j] != w[j]), min(len(got), len(w)))
            ctx.violation("after a failed call later calls behave differently than in a twin that never made it (first difference at kept op %d)" % k,
                          line, str(w[k:k + 2])[:300], str(got[k:k + 2])[:300])
    # (c) protocol: out-of-order calls on a valid complete file
    f = files[0]
    proto = [
        ("H H", 1, "err InvalidArgument"), ("M", 0, "err InvalidArgument"), ("B", 0, "err InvalidArgument"), ("S", 0, "err InvalidArgument"),
        ("H B", 1, "err InvalidArgument"), ("H S", 1, "err InvalidArgument"), ("H M M", 2, "err InvalidArgument"), ("H M H", 2, "err InvalidArgument"),
    ]
    pl = []
    for f in files[:10]:
        for ops, k, want in proto:
            pl.append(("dops %s 10 W%s %s" % (f["dt"], f["hex"], ops), k, want, f))
        pl.append(("dops %s 100000 W%s R H" % (f["dt"], f["hex"]), 1, "err InvalidArgument", f))
        pl.append(("dops %s 100000 W%s R M" % (f["dt"], f["hex"]), 1, "err InvalidArgument", f))
        pl.append(("dops %s 100000 W%s R B" % (f["dt"], f["hex"]), 1, "err InvalidArgument", f))
        pl.append(("dops %s 100000 W%s R S" % (f["dt"], f["hex"]), 1, "err InvalidArgument", f))
        pl.append(("dops %s 100000 W%s R D" % (f["dt"], f["hex"]), 1, "err InvalidArgument", f))
    for (l, k, want, f), a in zip(pl, C.harness([p[0] for p in pl])):
        ctx.case(l[:200], ["protocol"])
        toks = D.split_tokens(a)
        n0 = f["chunks"][0] if f.get("chunks") else None
        if len(toks) <= k + 1 or toks[k + 1][0] != want:
            # "H M M" on a file whose first chunk is legitimately followed by another chunk is still inside a body
            ctx.violation("out-of-order call not rejected with InvalidArgument", l, want, a[:300])
    # (d) retry succeeds: call with a strict prefix fails for lack of data, then all bytes arrive
    rl = []
    for f in files[:12]:
        nb = len(f["hex"]) // 2
        for _ in range(6 if ctx.quick else 30):
            c = rng.range(0, nb - 1)
            a_, b_ = f["hex"][:2 * c], f["hex"][2 * c:]
            rl.append(("dops %s 100000 W%s D W%s D" % (f["dt"], a_, b_), "dops %s 100000 W%s D" % (f["dt"], f["hex"])))
    ra = C.harness([x for p in rl for x in p], timeout=1200)
    for i, (l1, l2) in enumerate(rl):
        a1, a2 = D.split_tokens(ra[2 * i]), D.split_tokens(ra[2 * i + 1])
        ctx.case(l1[:200], ["retry"])
        if a1[1][0] != "err InsufficientData" or a1[3][0] != a2[1][0]:
            ctx.violation("a call that failed for lack of data does not succeed identically once the bytes arrive", l1, a2[1][0][:200], ra[2 * i][:400])
