"""C09: the compressor enforces its call protocol and is unchanged by failed calls."""
from .. import common as C
from .. import gen as G
from .. import streams as S
from .. import dstream as D

def history(rng, dt, quick):
    """random call sequence with valid and invalid arguments; returns (ops, chunk value lists)"""
    ops = []
    n = rng.range(2, 12)
    for _ in range(n):
        r = rng.below(100)
        if r < 18:
            ops.append("H")
        elif r < 55:
            xs, _ = G.gen_seq(rng, dt, rng.choice([1, 2, 5, 30, 200]))
            ops.append("C" + G.hexlist(xs))
        elif r < 62:
            ops.append("E")
        elif r < 75:
            ops.append("F")
        elif r < 90:
            ops.append("D")
        else:
            ops.append("Z")
    return ops

def accepted_language(ops, level, order):
    """reference protocol automaton: which calls must be accepted"""
    hdr = ftr = False
    out = []
    for o in ops:
        k = o[0]
        if k == "H":
            ok = (not hdr) and (not ftr) and order <= 7
            hdr = hdr or ok
        elif k in "CEX":
            ok = hdr and not ftr and k == "C" and level <= 12
            if k == "X":
                ok = hdr and not ftr and int(o[1:]) <= (1 << 24) - 1 and int(o[1:]) > 0 and level <= 12
        elif k == "F":
            ok = hdr and not ftr
            ftr = ftr or ok
        else:
            ok = None
        out.append(ok)
    return out

def run(ctx):
    rng = ctx.rng
    ctx.rule = ("cops stream: random call sequences header/chunk/empty chunk/footer/drain_bytes/byte_size with valid and invalid "
                "configurations (levels 0..13, delta orders 0..8), incl. an oversized chunk of 2^24 numbers; decisive: exactly the "
                "calls of the language header chunk* footer are accepted, every rejection is InvalidArgument (never a panic), a "
                "rejected call leaves byte_size unchanged and adds no bytes, the concatenation of all drained bytes is the same "
                "for every drain placement and decodes (real decoder and Lean spec decoder) to exactly the accepted chunks; the "
                "Lean compressor model re-encodes the accepted chunks from the observed metadata and must reproduce the bytes. "
                "non-trivial = a history with at least one rejected call or an intermediate drain")
    hist = []
    for _ in range(1500 if ctx.quick else 12000):
        dt = rng.choice(S.ALL_DT)
        level = rng.choice([0, 3, 8, 12, 12, 13, 13])
        order = rng.choice([0, 0, 1, 3, 7, 8, 8])
        gcds = rng.below(2)
        hist.append((dt, level, order, gcds, history(rng, dt, ctx.quick)))
    # oversized / maximal chunks
    hist.append(("bool", 8, 0, 1, ["H", "X%d" % (1 << 24), "Z", "F", "D"]))
    hist.append(("bool", 13, 0, 1, ["H", "X%d" % ((1 << 24) - 1), "Z", "F", "D"]))
    # oversized chunks under delta encoding: the limit is on the chunk's length, whatever the delta order
    for od in (1, 3, 7):
        hist.append(("bool", 8, od, 1, ["H", "X%d" % ((1 << 24) - 1 + od), "Z", "X%d" % (1 << 24), "Z", "C1,0,1", "F", "D"]))
    hist.append(("i16", 5, 2, 0, ["H", "X%d" % ((1 << 24) + 1), "Z", "F", "D"]))
    if not ctx.quick:
        hist.append(("bool", 8, 0, 1, ["H", "X%d" % ((1 << 24) - 1), "Z", "F", "D"]))
    lines = ["cops %s %d %d %d %s" % (dt, lv, od, g, " ".join(ops)) for (dt, lv, od, g, ops) in hist]
    ans = C.harness(lines, timeout=1800, mem_kb=16 * 1024 * 1024)
    # the Lean compressor model on the same histories, chunk training answers taken from the observed metadata
    if ctx.model_ok:
        mlines, midx = [], []
        for i, ((dt, lv, od, g, ops), a) in enumerate(zip(hist, ans)):
            if any(o[0] == "X" for o in ops) or "panic" in a:
                continue
            toks = D.split_tokens(a)
            mops = []
            for op, (body, _) in zip(ops, toks):
                if op[0] == "C":
                    mops.append(op + "#" + (body[len("ok meta "):].replace(" ", "~") if body.startswith("ok meta ") else "-"))
                else:
                    mops.append(op)
            mlines.append("cops %s %d %d %d %s" % (dt, lv, od, g, " ".join(mops)))
            midx.append(i)
        for i, m in zip(midx, C.driver(mlines)):
            ctx.count("model-compared")
            ta, tm = D.split_tokens(ans[i]), D.split_tokens(m)
            ta = [("ok meta ?", k) if (b.startswith("ok meta") and hist[i][4][j] == "E") else (b, k) for j, (b, k) in enumerate(ta)]
            if ta != tm:
                j = next((j for j in range(min(len(ta), len(tm))) if ta[j] != tm[j]), min(len(ta), len(tm)))
                ctx.disagree("cops", lines[i][:400], "op %d: %s" % (j, str(tm[j:j + 1])[:300]), "op %d: %s" % (j, str(ta[j:j + 1])[:300]))
        # layer CL: the LITERAL compressor model (Qco.CompLit over the word-level BitWriter, proved to refine the abstract
        # one in C09l) on the same histories; its training oracle answers the observed prefix list as it stands
        for i, m in zip(midx, C.driver(["l" + ml for ml in mlines])):
            ctx.count("literal-model-compared")
            ta, tm = D.split_tokens(ans[i]), D.split_tokens(m)
            ta = [("ok meta ?", k) if (b.startswith("ok meta") and hist[i][4][j] == "E") else (b, k) for j, (b, k) in enumerate(ta)]
            if m in ("timeout", "died"):
                continue
            if ta != tm:
                j = next((j for j in range(min(len(ta), len(tm))) if ta[j] != tm[j]), min(len(ta), len(tm)))
                ctx.disagree("lcops", lines[i][:400], "op %d: %s" % (j, str(tm[j:j + 1])[:300]), "op %d: %s" % (j, str(ta[j:j + 1])[:300]),
                             "literal Compressor model (layer CL) differs from the real Compressor")
    dec_lines, dec_info = [], []
    for (dt, lv, od, g, ops), line, a in zip(hist, lines, ans):
        toks = D.split_tokens(a)
        want = accepted_language(ops, lv, od)
        tags = []
        bad = []
        if any(b.startswith("panic") or b in ("died", "timeout") for b, _ in toks):
            ctx.case(line[:300], ["panic"])
            ctx.violation("a compressor call panicked", line, "ok or err InvalidArgument", a[-300:])
            continue
        size = 0
        out_bytes = ""
        chunks = []
        for k, (op, (body, sz)) in enumerate(zip(ops, toks)):
            if want[k] is True and not body.startswith("ok"):
                bad.append("call %d (%s) should be accepted: %s" % (k, op[:12], body[:40]))
            if want[k] is False:
                tags.append("rejected")
                if body != "err InvalidArgument":
                    bad.append("call %d (%s) should be rejected with InvalidArgument: %s" % (k, op[:12], body[:40]))
                if sz != size:
                    bad.append("rejected call %d (%s) changed byte_size %d -> %d" % (k, op[:12], size, sz))
            if op == "D":
                out_bytes += body[len("bytes "):] if body.startswith("bytes ") else ""
                tags.append("drain")
            if op.startswith("C") and body.startswith("ok"):
                chunks.append(G.parse_hexlist(op[1:]))
            size = sz
        ctx.case(line if len(line) < 300 else line[:300], sorted(set(tags)))
        ctx.count("level:%d" % lv); ctx.count("order:%d" % od)
        if bad:
            ctx.violation("compressor protocol / failed-call atomicity broken: " + "; ".join(bad[:4]), line, "header chunk* footer; rejected calls change nothing", a[:500])
            continue
        # complete files must decode to exactly the accepted chunks; drained bytes only (pending bytes are not output)
        full = "H" in ops and "F" in ops and ops[-1] == "D" and all(o != "F" or True for o in ops)
        if want.count(True) and "D" in ops and any(o == "F" and w for o, w in zip(ops, want)) and ops.index("D") >= 0:
            # everything written before the last drain has been output
            last_d = max(i for i, o in enumerate(ops) if o == "D")
            if all(not (w and i > last_d) for i, (o, w) in enumerate(zip(ops, want)) if o in ("H", "F") or o[0] == "C"):
                n_acc = [G.parse_hexlist(o[1:]) for o, w in zip(ops, want) if o[0] == "C" and w]
                dec_lines.append("dops %s 100000 W%s H %s M" % (dt, out_bytes, " ".join(["M", "B"] * len(n_acc))))
                dec_info.append((line, n_acc, out_bytes, dt))
    dans = C.harness(dec_lines, timeout=1200)
    # the model decodes the small files only (a 2^24-1 chunk is an implementation-only case)
    small = [k for k, i in enumerate(dec_info) if len(i[2]) < 400000 and sum(len(ch) for ch in i[1]) < 200000]
    mres = dict(zip(small, C.driver(["dec %s %s" % (dec_info[k][3], dec_info[k][2]) for k in small], timeout=600))) if ctx.model_ok else {}
    mans = [mres.get(k) for k in range(len(dec_info))]
    for (line, chunks, hx, dt), a, m in zip(dec_info, dans, mans):
        toks = [b for b, _ in D.split_tokens(a)]
        bodies = [t for t in toks if t.startswith("ok vals=")]
        want = ["ok vals=" + ",".join("%x" % x for x in ch) for ch in chunks]
        if bodies != want or toks[-1] != "ok none":
            ctx.violation("the file assembled across drains does not contain exactly the accepted chunks", line, str(want)[:300], a[:400])
        if m is not None and not (m.startswith("ok ") and " rest=0 " in m):
            ctx.disagree("dec(cops)", line[:300], m[:200], "decodes")
    # drain placement invariance: same calls with/without intermediate drains
    inv = []
    for _ in range(120 if ctx.quick else 1000):
        dt = rng.choice(S.ALL_DT)
        cs = [G.hexlist(G.gen_seq(rng, dt, rng.choice([1, 7, 100]))[0]) for _ in range(rng.range(1, 4))]
        base = ["H"] + ["C" + c for c in cs] + ["F"]
        var = []
        for o in base:
            var.append(o)
            if rng.chance(1, 2):
                var.append(rng.choice(["D", "Z"]))
        cfg = "%s %d %d %d" % (dt, rng.choice([0, 5, 8, 12]), rng.choice([0, 1, 4]), rng.below(2))
        inv.append(("cops %s %s D" % (cfg, " ".join(base)), "cops %s %s D" % (cfg, " ".join(var))))
    ia = C.harness([x for p in inv for x in p])
    for i, (l1, l2) in enumerate(inv):
        b1 = "".join(b[6:] for b, _ in D.split_tokens(ia[2 * i]) if b.startswith("bytes "))
        b2 = "".join(b[6:] for b, _ in D.split_tokens(ia[2 * i + 1]) if b.startswith("bytes "))
        ctx.case(l2[:300], ["drain"])
        if b1 != b2:
            ctx.violation("output depends on when pending bytes are drained", l2, b1[:300], b2[:300])
