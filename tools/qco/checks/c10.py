"""C10: chunk metadata tells the truth about the chunk."""
from .. import common as C
from .. import gen as G
from .. import streams as S
from .. import dstream as D

FIELDS = ["n", "bounds", "disj", "cover", "counts", "congr", "tree", "leaves", "moments", "emptyiff", "us"]

def cases(ctx):
    rng = ctx.rng
    out = []
    n_rand = 1500 if ctx.quick else 12000
    for dt in S.ALL_DT:
        out.append(S.enc_case(rng, dt=dt, kind="dups"))          # duplicates at quantile boundaries
        out.append(S.enc_case(rng, dt=dt, kind="lattice"))
        out.append(S.enc_case(rng, dt=dt, kind="cluster", level=rng.choice([2, 4, 8])))
    for _ in range(n_rand):
        out.append(S.enc_case(rng))
    for _ in range(15 if ctx.quick else 150):
        out.append(S.enc_case(rng, n=rng.choice([1001, 2000, 3000]), kind="sparse"))
    for n in ([1, 2, 3, 4, 5, 7, 8, 9, 15, 16, 17, 31, 32, 33, 63, 64, 65] if ctx.quick else range(1, 200)):
        out.append(S.enc_case(rng, n=n, nchunks=1))
    if not ctx.quick:
        for _ in range(20):
            out.append(S.enc_case(rng, n=rng.choice([20000, 50000]), level=rng.choice([8, 12]), nchunks=1))
    out += budget_cases(rng, 3 if ctx.quick else 12)
    out += singles_cases(rng, 40 if ctx.quick else 400)
    return out

def singles_cases(rng, count):
    """a handful of distinct values, some repeated hundreds of times, gaps of 1, g, multiples of g or huge, at level 12
    with GCDs on: every raw range is single-valued, so whether divisors get folded at all is decided by the neighbour scan of
    use_gcd_prefix_optimize, and the optimiser merges singles into ranges whose divisor must be the exact GCD"""
    out = []
    for _ in range(count):
        dt = rng.choice([d for d in S.ALL_DT if C.DTYPES[d][2] not in ("bool", "float")])
        m = rng.range(2, 7)
        g = rng.choice([2, 3, 10, 1000, 4096, 99991])
        v, vals = rng.choice([0, 7, 1000]), []
        for _i in range(m):
            vals.append(v)
            v += rng.choice([1, 1, g, 2 * g, g * rng.range(1, 50), 1])
        xs = []
        for x in vals:
            xs += [G.from_signed_val(dt, x)] * rng.choice([1, 1, 2, 5, 200])
        for a in range(len(xs) - 1, 0, -1):
            b = rng.below(a + 1)
            xs[a], xs[b] = xs[b], xs[a]
        out.append({"dt": dt, "level": rng.choice([12, 12, 8, 4]), "order": 0, "gcds": 1, "chunks": [xs], "kinds": ["singles"], "drain": 0})
    return out

def budget_cases(rng, count):
    """more well-separated clusters than the level allows leaves, with n not a multiple of 2^level and large enough
    (>= 2^14) for the level to be effective: 2^level + extra clusters of floor(n / 2^level) consecutive values each,
    2^40 apart (nothing the optimiser would merge). The '<= 2^level leaves' conjunct of C10 is decided on these."""
    out = []
    for i in range(count):
        dt = rng.choice(["i64", "u64", "micros", "i128"])
        level = [1, 2, 8, 3, 5, 4, 6, 7][i % 8]
        k = 1 << level
        n = (1 << 14) + rng.range(1, k)                 # 1 <= n mod 2^level < 2^level
        w = n // k
        xs, v = [], 0
        while len(xs) < n:
            for j in range(min(w, n - len(xs))):
                xs.append(G.from_signed_val(dt, v + j))
            v += 1 << 40
        if rng.chance(1, 2):
            for a in range(len(xs) - 1, 0, -1):
                b = rng.below(a + 1)
                xs[a], xs[b] = xs[b], xs[a]
        out.append({"dt": dt, "level": level, "order": 0, "gcds": rng.below(2), "chunks": [xs], "kinds": ["budget"], "drain": 0})
    return out

def run(ctx):
    ctx.rule = ("enc stream; on every ChunkMetadata observed (returned by Compressor::chunk and parsed back from the bytes by the "
                "Lean decoder) the decidable C10 predicate is evaluated by the model against the chunk's numbers (or deltas): "
                "n = length, lower<=upper, pairwise disjoint, cover, count = members, congruence mod divisor, complete "
                "prefix-free tree, <= 2^level leaves, moments = initial differences, empty table iff no numbers, body size = "
                "exact byte length of the spec-encoded numbers; returned == parsed metadata modulo the divisor of single-valued "
                "ranges. Stream floatfns: choose_max_n_prefixes, the run-length arm of push_pref (1001 / 0.8 thresholds) and "
                "choose_run_len_jumpstart against Train.chooseMaxNPrefixes / usesRunLen / jumpstart through the guarded hook. "
                "non-trivial = chunk with >1 prefix, run-length, GCD > 1 or delta")
    if not ctx.model_ok:
        return
    res = S.run_enc(ctx, cases(ctx))
    for r in res:
        c = r["case"]
        line = S.compress_line(c)
        tags = set()
        for ch in r["chunks"]:
            tags.update(t for t in ch.get("tags", "").split(",") if t and t in ("multi", "runlen", "gcd", "delta"))
        ctx.case(line, sorted(tags))
        ctx.count("dtype:" + c["dt"]); ctx.count("level:%d" % c["level"])
        if r["bytes"] is None or r["model"] is None or not r["model"].startswith("ok "):
            if r["bytes"] is not None:
                ctx.disagree("enc", line, str(r["model"]), "bytes", "spec decoder rejects the writer's bytes")
                # the property's first clause with the library's OWN reader: metadata parsed back from the bytes (chunk by
                # chunk, skipping the bodies) against the metadata Compressor::chunk returned
                walk = C.harness(["dops %s 100000 W%s H %s M" % (c["dt"], r["bytes"], " ".join(["M", "S"] * len(r["metas"])))])[0]
                parsed = []
                for b, _ in D.split_tokens(walk):
                    if b.startswith("ok meta "):
                        parsed.append(S.parse_meta(b[len("ok meta "):]))
                    elif b.startswith("err") or b.startswith("panic"):
                        break
                for i, (ret, par) in enumerate(zip(r["metas"], parsed)):
                    if ret["n"] != par["n"] or ret["body"] != par["body"] or not S.meta_equal_mod_single(ret, par):
                        ctx.violation("chunk metadata misdescribes the chunk: the metadata returned by Compressor::chunk differs from the "
                                      "one the library's reader parses back (chunk %d: n %s vs %s, body size %s vs %s)"
                                      % (i, ret["n"], par["n"], ret["body"], par["body"]), line, "equal metadata", walk[:400])
                        break
            continue
        bad = []
        unexplained = []
        for i, ch in enumerate(r["chunks"]):
            for f in FIELDS:
                if ch.get(f) != "1":
                    bad.append("chunk %d: %s" % (i, f))
            if ch.get("explains", "ok") != "ok" and "divisor" in ch["explains"]:
                # a divisor other than the one the model folds is still truthful metadata as far as C10 goes (congruence is
                # judged above); whether it is the *exact* GCD is C18's business, where the same reason is decisive
                ctx.count("divisor-deviations-left-to-C18")
            elif ch.get("explains", "ok") != "ok":
                # structural reachability: the observed table must be what the training model can produce for SOME
                # merge/Huffman oracle (quantile cuts at value boundaries, consecutive merges, folded divisors, run-length
                # rule). A failure here is a correspondence break unless a C10 conjunct also fails.
                unexplained.append("chunk %d: %s" % (i, ch["explains"]))
            if ch.get("grouped") == "1":
                bb = int(ch["bodybits"])
                if (bb + 7) // 8 != int(ch["bodybytes"]):
                    bad.append("chunk %d: body size %s bytes vs %d bits encoded" % (i, ch["bodybytes"], bb))
            else:
                bad.append("chunk %d: a number lies in no range" % i)
            ctx.count("nprefs<=%d" % (1 << max(0, (int(ch["nprefs"]) - 1).bit_length())))
            # informational (never decisive): does the LITERAL training model (layer TL) with the library's own f64
            # formulas and first-minimum heap tie-breaking reproduce this table?  exact / ranges (codes differ) / differs
            ctx.count("literal-training:" + ch.get("lit", "?"))
        dm = r.get("dec_metas", [])
        if len(dm) != len(r["metas"]) or not all(S.meta_equal_mod_single(a, b) for a, b in zip(r["metas"], dm)):
            bad.append("returned ChunkMetadata differs from the parsed one")
        for m, ch in zip(r["metas"], c["chunks"]):
            if m["n"] != len(ch):
                bad.append("returned n != chunk length")
        if unexplained:
            ctx.count("unexplained-tables", len(unexplained))
            ctx.disagree("enc(explains)", line, "; ".join(unexplained[:3]), r["impl"][:400], "observed prefix table is not reachable by the training model under any oracle")
        else:
            ctx.count("explained-tables", len(r["chunks"]))
        if bad:
            ctx.violation("chunk metadata misdescribes the chunk: " + "; ".join(bad[:6]), line, "all C10 conjuncts hold",
                          r["impl"][:600] + " :: " + r["model"][:800], kind="impl-failing-input")
    # the f64-driven sizing decisions of training against the integer functions of the training model
    from .. import floatstream as F
    F.run(ctx, {"sizing"})
