"""C11: chunks are self-contained, deterministic and randomly accessible."""
from .. import common as C
from .. import gen as G
from .. import streams as S
from .. import dstream as D

def run(ctx):
    rng = ctx.rng
    ctx.rule = ("(a) the same chunk compressed first / last / alone, with and without intermediate drains, in 16 threads after "
                "different histories, and in a second process: the chunk's bytes must be identical (ties the purity of the "
                "model's training argument to the real training); (b) header + every sub-sequence (and some permutations) of a "
                "file's chunks + footer decoded by the real decoder and by the Lean decoder: exactly those chunks; (c) random "
                "skip/decode choices per chunk through chunk_metadata/skip_chunk_body/chunk_body, also after part of a body was "
                "streamed: decoded chunks yield their own numbers and every skip lands on the next chunk; all answers and bit "
                "positions compared with the Lean operational model. non-trivial = >= 2 chunks or a skip")
    # (a) determinism / history independence
    cases = []
    for _ in range(60 if ctx.quick else 500):
        dt = rng.choice(S.ALL_DT)
        cfg = (rng.choice([0, 4, 8, 12]), rng.choice([0, 0, 1, 3]), rng.below(2))
        xs = G.gen_seq(rng, dt, rng.choice([1, 5, 50, 300, 1200]))[0]
        others = [G.gen_seq(rng, dt, rng.choice([1, 20, 200]))[0] for _ in range(2)]
        cases.append((dt, cfg, xs, others))
    # earlier chunks of nearly the same size (same power-of-two bracket, a little smaller or larger) at high levels,
    # clustered data: anything remembered from the previous chunk's size or table would show here
    for _ in range(40 if ctx.quick else 400):
        dt = rng.choice([d for d in S.ALL_DT if d != "bool"])
        cfg = (rng.choice([9, 10, 11, 12, 12]), rng.choice([0, 0, 1]), rng.below(2))
        n = rng.choice([3, 40, 70, 90, 120, 200, 300, 500])
        lo = 1 << (n.bit_length() - 1)
        sizes = [rng.range(lo, n), rng.range(lo, min(2 * lo - 1, n + 20))]
        xs = G.gen_seq(rng, dt, n, "cluster")[0]
        others = [G.gen_seq(rng, dt, m, rng.choice(["cluster", "dups", "small"]))[0] for m in sizes]
        cases.append((dt, cfg, xs, others))
    lines = []
    for dt, (lv, od, g), xs, oth in cases:
        hx, a, b = G.hexlist(xs), G.hexlist(oth[0]), G.hexlist(oth[1])
        pre = "cops %s %d %d %d " % (dt, lv, od, g)
        lines += [pre + "H D C%s D" % hx,                                   # alone, drained before
                  pre + "H C%s C%s D C%s D" % (a, b, hx),                   # last, after two other chunks
                  pre + "H D C%s D C%s D C%s D" % (hx, a, b),               # first
                  pre + "H C%s Z C%s D" % (a, hx),                          # no drain in between (split by sizes)
                  "mt %s %d %d %d 16 %s" % (dt, lv, od, g, hx)]
    ans = C.harness(lines, timeout=1200)
    ans2 = C.harness(lines[4::5], timeout=1200)     # a second process
    for i, (dt, cfg, xs, oth) in enumerate(cases):
        a = ans[5 * i: 5 * i + 5]
        ctx.case(lines[5 * i + 1][:300], ["history"])
        ctx.count("dtype:" + dt)
        try:
            alone = D.split_tokens(a[0])[3][0][len("bytes "):]
            last = D.split_tokens(a[1])[5][0][len("bytes "):]
            first = D.split_tokens(a[2])[3][0][len("bytes "):]
            t3 = D.split_tokens(a[3])
            size_after_a = t3[2][1]
            nodrain = t3[4][0][len("bytes "):][2 * size_after_a:]
            mt = S.parse_kv(a[4]); mt2 = S.parse_kv(ans2[i])
        except Exception:
            ctx.violation("compressing a valid chunk failed", lines[5 * i], "ok", str(a)[:400])
            continue
        variants = {"last": last, "first": first, "nodrain": nodrain, "threads": mt.get("bytes"), "second-process": mt2.get("bytes")}
        for k, v in variants.items():
            if v != alone:
                ctx.violation("a chunk's bytes depend on its history (%s vs alone)" % k, lines[5 * i + (1 if k == "last" else 0)], alone[:300], str(v)[:300])
        if mt.get("same") != "1" or mt2.get("same") != "1":
            ctx.violation("a chunk's bytes differ between threads", lines[5 * i + 4], "same=1", a[4][:200])
    # (b) sub-sequences, (c) skipping
    files = [f for f in D.make_files(ctx, 60 if ctx.quick else 300) if f.get("chunks") and len(f["chunks"]) >= 2]
    sub_lines, sub_info, skip_lines, skip_info = [], [], [], []
    for f in files:
        raw = f["hex"]
        # chunk boundaries via the real chunk API positions
        probe = C.harness(["dops %s 100000 W%s H %s M" % (f["dt"], raw, " ".join(["M", "S"] * len(f["chunks"])))])[0]
        toks = D.split_tokens(probe)
        starts = [toks[1][1] // 8] + [toks[2 + 2 * k + 1][1] // 8 for k in range(len(f["chunks"]))]
        if toks[-1][0] != "ok none":
            ctx.violation("skipping every chunk does not land on the footer", "dops … " + f["desc"], "ok none", probe[-200:])
            continue
        header = raw[:2 * starts[0]]
        chunks_hex = [raw[2 * starts[k]:2 * starts[k + 1]] for k in range(len(f["chunks"]))]
        n = len(chunks_hex)
        subsets = [[i for i in range(n) if (m >> i) & 1] for m in range(1 << n)]
        subsets += [list(reversed(range(n))), [0, 0] if n else []]
        for sub in subsets:
            hx = header + "".join(chunks_hex[i] for i in sub) + "2e"
            sub_lines.append("dops %s 100000 W%s H %s M" % (f["dt"], hx, " ".join(["M", "B"] * len(sub))))
            sub_info.append((f, sub, hx))
        for _ in range(4 if ctx.quick else 12):
            ops = ["H"]
            choice = []
            lim = rng.choice([1, 3, 40])
            for k in range(n):
                c = rng.choice(["S", "B", "NS", "NB"])
                if len(f["chunks"][k]) <= lim:
                    c = c[-1]            # one batch would already finish the chunk
                fr = "F" if rng.chance(1, 3) else ""                       # free_compressed_memory between the calls
                fr2 = "f" if (c[0] == "N" and rng.chance(1, 4)) else ""
                choice.append(c + fr + fr2)
                ops += ["M"] + (["F"] if fr else []) + (["N"] + (["F"] if fr2 else []) + [c[1]] if c[0] == "N" else [c])
            ops.append("M")
            skip_lines.append("dops %s %d W%s %s" % (f["dt"], lim, raw, " ".join(ops)))
            skip_info.append((f, choice))
    sa = C.harness(sub_lines, timeout=1200)
    ma = C.driver(["dec %s %s" % (i[0]["dt"], i[2]) for i in sub_info]) if ctx.model_ok else [None] * len(sub_info)
    for l, (f, sub, hx), a, m in zip(sub_lines, sub_info, sa, ma):
        ctx.case("subsequence %s of %s" % (sub, f["desc"]), ["multi"])
        toks = [b for b, _ in D.split_tokens(a)]
        want = ["ok vals=" + ",".join("%x" % x for x in f["chunks"][i]) for i in sub]
        if [t for t in toks if t.startswith("ok vals=")] != want or toks[-1] != "ok none":
            ctx.violation("header + sub-sequence %s of the chunks + footer is not a valid file holding exactly those chunks" % sub, l, str(want)[:300], a[:400])
        if m is not None:
            got = [G.parse_hexlist(S.parse_kv(p).get("vals", "")) for p in m.split(" | ")[1:] if p.strip()] if m.startswith("ok ") else None
            if got != [f["chunks"][i] for i in sub] or " rest=0 " not in m:
                ctx.disagree("dec(subsequence)", l[:300], m[:200], "those chunks")
    ka = C.harness(skip_lines, timeout=1200)
    for l, (f, choice), a in zip(skip_lines, skip_info, ka):
        ctx.case("skip/decode %s of %s" % (choice, f["desc"]), ["skip"])
        toks = D.split_tokens(a)
        if any(b.startswith("panic") for b, _ in toks) or toks[-1][0] != "ok none":
            ctx.violation("skipping chunk bodies does not land on the next chunk / footer", l, "… ok none", a[-300:])
            continue
        # decoded chunks yield exactly their own numbers
        j = 2
        for k, c in enumerate(choice):
            j += 1                                   # M
            if "F" in c:
                j += 1                               # free_compressed_memory after the metadata
            c = c.replace("F", "")
            got = []
            if c[0] == "N":
                b, _ = toks[j]; j += 1
                got += G.parse_hexlist(b[5:]) if b.startswith("nums ") else []
                if "f" in c:
                    j += 1                           # free_compressed_memory after the first batch
            c = c.replace("f", "")
            b, _ = toks[j]; j += 1
            if c[-1] == "B":
                got += G.parse_hexlist(b[len("ok vals="):]) if b.startswith("ok vals=") else [None]
                if got != f["chunks"][k]:
                    ctx.violation("a decoded chunk does not yield exactly its own numbers after skipping others", l, str(f["chunks"][k])[:200], a[:400])
                    break
            elif b != "ok":
                ctx.violation("skip_chunk_body failed on a complete file", l, "ok", a[:400])
                break
    D.compare_dops(ctx, skip_lines, ka, "dops(skip)")
