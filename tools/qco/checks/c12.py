"""C12: number<->integer maps are order-preserving bijections; the type tag is checked."""
from .. import common as C
from .. import gen as G

def run(ctx):
    rng = ctx.rng
    ctx.rule = ("map stream: for every data type, boundary-dense patterns (type extremes, 2^j+-{0,1,2}, +-0.0, inf, NaN "
                "payloads, subnormals), all 2^16 patterns of the 16-bit types, plus random patterns; each line is run "
                "through the real NumberLike methods and through the Lean maps and compared token by token; direct "
                "oracles: exact inverses, strict monotonicity against an independently computed natural order, "
                "header-byte distinctness and cross-type decoding rejected. non-trivial = a pattern at a boundary, a "
                "negative/sign-flipped value, a NaN/inf/subnormal, or a cross-type pair")
    nrand = 3000 if ctx.quick else 200000
    lines = []
    meta = []
    for dt, (P, W, kind, pps) in C.DTYPES.items():
        pats = list(G.boundary_patterns(dt))
        nb = len(pats)
        if W == 16:
            pats = list(range(1 << 16))
        else:
            pats += [G.random_pattern(rng, dt) for _ in range(nrand)]
        pats = sorted(set(G.valid_pattern(dt, p) for p in pats))
        bset = set(G.boundary_patterns(dt))
        for p in pats:
            lines.append("map %s %x" % (dt, p))
            meta.append((dt, p, p in bset))
        # unsigned-domain direction
        us = [0, 1, (1 << W) - 1, 1 << (W - 1), (1 << (W - 1)) - 1] + [rng.bits(W) for _ in range(200)]
        if kind == "bool":
            us = [0, 1]
        if kind == "ts96":
            us = [G.valid_pattern(dt, u) ^ (1 << 127) for u in us]
        for u in us:
            lines.append("mapu %s %x" % (dt, u))
            meta.append((dt, u, False))
        # raw bytes incl. rejected ones for the 96-bit timestamps and non-canonical bools
        if kind == "ts96":
            top = 2 * pps * 2**63
            for raw in [0, 1, top - 1, top, top + 1, (1 << 96) - 1, rng.bits(96), rng.bits(94)]:
                lines.append("rawbytes %s %024x" % (dt, raw))
                meta.append((dt, raw, True))
        if kind == "bool":
            for raw in [0, 1, 2, 128, 255]:
                lines.append("rawbytes %s %02x" % (dt, raw))
                meta.append((dt, raw, True))
    impl = C.harness(lines)
    model = C.driver(lines) if ctx.model_ok else [None] * len(lines)
    per_dt = {}
    for line, (dt, p, isb), a, b in zip(lines, meta, impl, model):
        tags = []
        if isb:
            tags.append("boundary")
        P, W, kind, pps = C.DTYPES[dt]
        if line.startswith("map ") and kind in ("int", "float", "ts96") and p >> (W - 1):
            tags.append("negative")
        ctx.case(line, tags)
        ctx.count("dtype:" + dt)
        if a.startswith("panic") or a in ("died", "timeout"):
            ctx.violation("map operation panicked", line, "a value", a)
            continue
        if b is not None and a != b:
            ctx.disagree("map", line, b, a)
        if line.startswith("map "):
            f = dict(t.split("=", 1) for t in a.split(" "))
            x = "%x" % p
            if f["fu"] != x or f["fs"] != x or f["fb"] != x:
                ctx.violation("to/from unsigned, signed or bytes is not an exact inverse", line, "fu=fs=fb=" + x, a)
            if len(f["bytes"]) != P // 4:
                ctx.violation("to_bytes has the wrong width", line, "%d hex digits" % (P // 4), a)
            per_dt.setdefault(dt, []).append((G.key(dt, p), int(f["u"], 16)))
        elif line.startswith("mapu "):
            f = dict(t.split("=", 1) for t in a.split(" "))
            if int(f["u"], 16) != (p if kind != "bool" else (1 if p else 0)):
                ctx.violation("to_unsigned(from_unsigned(u)) != u", line, "%x" % p, a)
    # strict monotonicity against the natural order
    for dt, pairs in per_dt.items():
        pairs.sort()
        for (k1, u1), (k2, u2) in zip(pairs, pairs[1:]):
            if k1 < k2 and not u1 < u2:
                ctx.violation("to_unsigned is not strictly increasing", "map %s (keys %d < %d)" % (dt, k1, k2), "u1 < u2", "%x >= %x" % (u1, u2))
                break
        ctx.count("monotone-pairs", len(pairs) - 1)
    # header bytes and cross-type decoding
    files = {}
    req = ["compress %s 3 0 1 0 %s" % (dt, G.hexlist([G.valid_pattern(dt, v) for v in (1, 2, 3, 5)])) for dt in C.DTYPES]
    for dt, a in zip(C.DTYPES, C.harness(req)):
        if not a.startswith("ok bytes="):
            ctx.violation("compressing a tiny file failed", "compress " + dt, "ok", a)
            continue
        files[dt] = a.split(" ")[1][len("bytes="):]
    hb = {dt: files[dt][8:10] for dt in files}
    if len(set(hb.values())) != len(hb):
        ctx.violation("two data types share a header byte", "header bytes", "15 distinct", str(hb))
    lines = []
    pairs = []
    for d1 in files:
        for d2 in files:
            if d1 != d2:
                for ops in ("D", "H", "N"):
                    lines.append("dops %s 100 W%s %s" % (d2, files[d1], ops))
                    pairs.append((d1, d2, ops))
    for line, (d1, d2, ops), a in zip(lines, pairs, C.harness(lines)):
        ctx.case(line if len(line) < 200 else line[:200], ["cross-type"])
        last = a.split(" ; ")[-1]
        if not last.startswith("err "):
            ctx.violation("a file written as %s is not rejected when decoded as %s (%s)" % (d1, d2, ops), line, "err", a)
    if ctx.model_ok:
        mlines = ["dec %s %s" % (d2, files[d1]) for (d1, d2, ops) in pairs if ops == "D"]
        for l, r in zip(mlines, C.driver(mlines)):
            if r != "corrupt":
                ctx.disagree("dec(cross-type)", l, r, "err")
