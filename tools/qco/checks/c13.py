"""C13: automatic configuration is total and its output round-trips."""
from .. import common as C
from .. import gen as G
from .. import streams as S

def run(ctx):
    rng = ctx.rng
    ctx.rule = ("auto stream: for every data type, lengths 0..9, 999, 1000, 1001, 1500 and random, every level 0..12, sequences "
                "with trends of polynomial degree 0..3, noise, sparse, constant, degree 9..11 polynomials and slow sines, and heads of "
                "1000..2100 numbers (constant / trending) followed by tails of 1..1700 numbers of a different nature: auto_compressor_config / auto_compress / "
                "auto_decompress run under catch_unwind; decisive: no panic, returned level = requested level, delta order in "
                "0..=7, auto round trip equal bit for bit; the trial sizes reproduced through the public Compressor API are fed "
                "to the Lean model of the chooser (first local minimum) and the chosen order compared. non-trivial = length "
                "<= 7 (shorter than a candidate order) or a chosen order >= 1")
    lines, info = [], []
    lens = [0, 1, 2, 3, 4, 5, 6, 7, 8, 9, 999, 1000, 1001, 1500]
    for dt in S.ALL_DT:
        for n in (lens if not ctx.quick else [0, 1, 2, 3, 5, 7, 8, rng.choice([999, 1000, 1001, 1500])]):
            for level in ([0, 6, 8, 12] if ctx.quick else range(13)):
                if ctx.quick and n > 9 and level not in (8,):
                    continue
                kind = rng.choice(["poly", "smooth", "uniform", "sparse", "const", "small"])
                xs, _ = G.gen_seq(rng, dt, n, kind) if n else ([], kind)
                lines.append("auto %s %d %s" % (dt, level, G.hexlist(xs)))
                info.append((dt, n, level, kind))
    # very smooth sequences: every delta order up to 7 strictly helps (degree >= 9 polynomials, slow large sines),
    # i.e. the inputs for which the chooser reaches the last candidate
    import math
    for dt in ("i64", "u64", "i128", "u128", "nanos", "micros", "i32", "f64"):
        P, W, kind, pps = C.DTYPES[dt]
        for level in ([0, 8, 12] if ctx.quick else range(13)):
            deg = rng.choice([9, 10, 11])
            npts = rng.choice([120, 200]) if W >= 64 else 40
            poly = [math.comb(i, deg) for i in range(npts)]
            amp = 4 * 10**18 if W >= 64 else 10**9
            sine = [int(math.sin(0.01 * i) * amp) for i in range(1500)]
            for name, seq in (("poly%d" % deg, poly), ("sine", sine)):
                xs = [G.from_signed_val(dt, v) for v in seq]
                lines.append("auto %s %d %s" % (dt, level, G.hexlist(xs)))
                info.append((dt, len(xs), level, name))
    # head/tail structure around the sampling window (the chooser looks at the first AUTO_DELTA_LIMIT = 1000 numbers):
    # constant or trending heads of 1000..2100 numbers followed by short or long tails of a different nature
    for dt in (S.ALL_DT if not ctx.quick else [rng.choice(S.ALL_DT) for _ in range(6)]):
        for _ in range(2 if ctx.quick else 8):
            nh = rng.choice([1000, 1001, 1200, 1500, 2000, 2100])
            nt = rng.choice([1, 2, 300, 450, 999, 1000, 1700])
            hk = rng.choice(["const", "const", "poly", "small"])
            tk = rng.choice(["uniform", "poly", "small", "smooth"])
            head, _ = G.gen_seq(rng, dt, nh, hk)
            tail, _ = G.gen_seq(rng, dt, nt, tk)
            xs = head + tail
            level = rng.choice([0, 6, 8, 12])
            lines.append("auto %s %d %s" % (dt, level, G.hexlist(xs)))
            info.append((dt, len(xs), level, "head-%s+tail-%s" % (hk, tk)))
    # narrow types at sample lengths around the multiples of their unsigned type's range (bool: u8, 16-bit types),
    # first element below the last: any arithmetic on the length carried out in T::Unsigned wraps exactly here
    for dt, step in (("bool", 256), ("bool", 256), ("i16", 65536), ("u16", 65536)):
        for nn in ([step - 1, step, step + 1, step + 2, 2 * step + 1, 3 * step + 1] if step == 256 else [999, 1000, 1001]):
            P, W, kind, pps = C.DTYPES[dt]
            if kind == "bool":
                xs = [0] * (nn - 1) + [1]
                variants = [xs, [0] + [rng.below(2) for _ in range(nn - 2)] + [1]]
            else:
                variants = [[G.from_signed_val(dt, i - 500) for i in range(nn)]]
            for xs in variants:
                level = rng.choice([0, 6, 8, 12])
                lines.append("auto %s %d %s" % (dt, level, G.hexlist(xs)))
                info.append((dt, len(xs), level, "narrow-type-length"))
    ans = C.harness(lines, timeout=1800)
    mlines, midx = [], []
    for i, (line, (dt, n, level, kind), a) in enumerate(zip(lines, info, ans)):
        kv = S.parse_kv(a)
        tags = []
        if n <= 7:
            tags.append("short")
        if kv.get("order", "0") not in ("0",):
            tags.append("order>=1")
        ctx.case(line if len(line) < 300 else line[:300], tags)
        ctx.count("dtype:" + dt); ctx.count("n:%d" % n)
        if not a.startswith("ok "):
            ctx.violation("automatic configuration / compression is not total (n=%d, level=%d)" % (n, level), line, "ok …", a[:300])
            continue
        bad = []
        if int(kv["level"]) != level:
            bad.append("level %s != requested %d" % (kv["level"], level))
        if not (0 <= int(kv["order"]) <= 7):
            bad.append("delta order %s outside 0..=7" % kv["order"])
        if kv["rt"] != "1":
            bad.append("auto_decompress(auto_compress(x)) != x")
        if bad:
            ctx.violation("automatic configuration contract broken: " + "; ".join(bad), line, "level kept, order in 0..=7, round trip", a[:300])
        if ctx.model_ok and "x" not in kv["sizes"]:
            mlines.append("auto %s" % kv["sizes"].replace(",", " "))
            midx.append((i, kv["order"]))
    # inputs longer than one default chunk (DEFAULT_CHUNK_SIZE = 1 000 000): auto_compress writes several chunks; lengths
    # around the multiples of the chunk size, implementation only (generated inside the harness)
    big = []
    for n in ([1000001, 2000002] if ctx.quick else [999999, 1000000, 1000001, 1500001, 2000000, 2000002, 3000001, 4000003]):
        dt = rng.choice(["i32", "u32", "i64", "f64", "i16", "micros", "bool"])
        big.append("bigauto %s %d %s %d %d" % (dt, rng.choice([0, 4, 6, 8]), rng.choice(["uniform", "smooth", "sparse"]), n, ctx.seed + n))
    for line, a in zip(big, C.harness(big, timeout=1800, mem_kb=8 * 1024 * 1024)):
        kv = S.parse_kv(a)
        ctx.case(line, ["multi-chunk"])
        ctx.count("n:>1e6")
        lv = int(line.split(" ")[2])
        if not a.startswith("ok "):
            ctx.violation("automatic configuration / compression is not total (long input)", line, "ok …", a[:300])
        elif kv.get("rt") != "1" or kv.get("len") != kv.get("n") or int(kv["level"]) != lv or not (0 <= int(kv["order"]) <= 7):
            ctx.violation("automatic configuration contract broken on an input longer than one chunk: round trip %s, decoded %s of %s numbers, "
                          "level %s (requested %d), order %s" % (kv.get("rt"), kv.get("len"), kv.get("n"), kv.get("level"), lv, kv.get("order")),
                          line, "level kept, order in 0..=7, round trip", a[:300])
    if mlines:
        for (i, order), m in zip(midx, C.driver(mlines)):
            if m != order:
                ctx.disagree("auto(pickOrder)", lines[i][:200] + " sizes-> " + mlines[midx.index((i, order))], m, order)
