"""C14: compressed size is bounded (W+4 bits per number + bounded metadata)."""
from .. import common as C
from .. import gen as G
from .. import streams as S

def cases(ctx):
    rng = ctx.rng
    out = []
    kinds = ["uniform", "extremes", "cluster", "sparse", "dups", "small", "lattice", "width", "smooth"]
    for dt in S.ALL_DT:
        for kind in (kinds if not ctx.quick else [rng.choice(kinds), "uniform", "extremes"]):
            for level in ([0, 8, 12] if not ctx.quick else [rng.choice([0, 3, 8, 12])]):
                out.append(S.enc_case(rng, dt=dt, kind=kind, level=level, n=rng.choice([1, 2, 7, 64, 300, 1500]), nchunks=1))
    # adversarial: alternating extremes, thousands of tiny clusters at level 12, short dominant runs
    for dt in (S.ALL_DT if not ctx.quick else [rng.choice(S.ALL_DT) for _ in range(5)]):
        P, W, kind, pps = C.DTYPES[dt]
        b = G.boundary_patterns(dt)
        n = 2000 if ctx.quick else 6000
        alt = [G.valid_pattern(dt, b[0] if i % 2 else b[-1]) for i in range(n)]
        out.append({"dt": dt, "level": 12, "order": rng.choice([0, 1]), "gcds": 1, "chunks": [alt], "kinds": ["alternating"], "drain": 0})
        if kind != "bool":
            tiny = [G.from_signed_val(dt, (i % 700) * 1000003 + rng.below(2)) for i in range(n)]
            out.append({"dt": dt, "level": 12, "order": 0, "gcds": rng.below(2), "chunks": [tiny], "kinds": ["tiny-clusters"], "drain": 0})
        runs = []
        while len(runs) < n:
            runs += [G.valid_pattern(dt, 1)] * rng.range(1, 12) + [G.random_pattern(rng, dt)]
        out.append({"dt": dt, "level": 8, "order": 0, "gcds": 1, "chunks": [runs[:n]], "kinds": ["short-runs"], "drain": 0})
    # spikes with two-sided outliers at the levels that give exactly two quantiles: the run-length range then holds
    # the dominant value and the outliers below it (its frequent value is not its lower bound)
    for dt in (S.ALL_DT if not ctx.quick else [rng.choice([d for d in S.ALL_DT if d != "bool"]) for _ in range(6)]):
        if dt == "bool":
            continue
        for (n, level) in ((20000, 1), (5000, 2), (3000, 3), (1001, 4)):
            if ctx.quick and rng.chance(1, 2):
                continue
            center = G.key(dt, G.random_pattern(rng, dt)) // 2
            b = rng.range(1, max(1, n // 40))
            xs = [G.from_signed_val(dt, center)] * (n - 2 * b - rng.below(3))
            lows = [G.from_signed_val(dt, center - 1 - rng.below(1 << rng.range(1, 30))) for _ in range(b)]
            highs = [G.from_signed_val(dt, center + 1 + rng.below(1 << rng.range(1, 30))) for _ in range(n - len(xs) - b)]
            for v in lows + highs:
                xs.insert(rng.below(len(xs) + 1), v)
            out.append({"dt": dt, "level": level, "order": 0, "gcds": rng.below(2), "chunks": [xs], "kinds": ["two-sided-spike"], "drain": 0})
    # a dominant value just above the run-length threshold (80-85 %) broken into the shortest possible runs by isolated
    # other values, the dominant value being the largest, the smallest or a middle value of the chunk: every run then
    # costs a code plus the varint, so a jumpstart that is too large shows at once; for bool (W = 1) the bound of
    # W + 4 = 5 bits per number is tight
    pd = [("bool", hi, per) for hi in (0, 1) for per in (5, 6)] * (1 if ctx.quick else 3) + \
         [(rng.choice([d for d in S.ALL_DT if d != "bool"]), rng.below(3), rng.choice([5, 5, 6, 7])) for _ in range(4 if ctx.quick else 30)]
    for dt, where, period in pd:                                # 4 of 5, 5 of 6, 6 of 7 dominant
        n = rng.choice([1001, 1005, 2000, 5000])
        if dt == "bool":
            dom, others = (1, [0]) if where else (0, [1])
        else:
            c = G.key(dt, G.random_pattern(rng, dt)) // 4
            dom = G.from_signed_val(dt, c)
            lo = [G.from_signed_val(dt, c - 1 - rng.below(50)) for _ in range(8)]
            hi = [G.from_signed_val(dt, c + 1 + rng.below(50)) for _ in range(8)]
            others = hi if where == 0 else lo if where == 1 else lo + hi
        xs = [dom if (i % period) != period - 1 else rng.choice(others) for i in range(n)]
        if xs.count(dom) * 5 < 4 * n:
            xs[-1] = dom
        out.append({"dt": dt, "level": rng.choice([4, 8, 12]), "order": 0, "gcds": rng.below(2),
                    "chunks": [xs], "kinds": ["periodic-dominant"], "drain": 0})
    # two chunks over ONE value set with inverted mixtures (chunk 0: almost only the small cluster, chunk 1: almost only
    # the wide values): a table, code or weight carried over from the previous chunk costs chunk 1 more than W + 4 bits
    for _ in range(2 if ctx.quick else 12):
        dt = rng.choice(["u32", "i32", "u64", "i64", "f32", "micros"])
        P, W, kind, pps = C.DTYPES[dt]
        # seven far-apart clusters with geometric weights (their codes get 1, 2, ... 7 bits) and 100 values spread over
        # half the type's range (rare in chunk 0: a long code; almost everything in chunk 1)
        clusters = [[G.from_signed_val(dt, (j << 20) + v) for v in range(64)] for j in range(7)]
        span = 1 << (W - 1)
        wide = [G.from_signed_val(dt, (1 << 24) + (i * (span - (1 << 25))) // 100 + rng.below(1000)) for i in range(100)]
        def small_draw():
            j = 0
            while j < 6 and rng.chance(1, 2):
                j += 1
            return rng.choice(clusters[j])
        def mix(n, share_wide):
            xs = [(rng.choice(wide) if rng.below(1000) < share_wide else small_draw()) for _ in range(n)]
            return [v for cl in clusters for v in cl] + wide + xs            # every value occurs in both chunks
        out.append({"dt": dt, "level": rng.choice([8, 8, 6]), "order": 0, "gcds": rng.below(2),
                    "chunks": [mix(20000, 1), mix(20000 if ctx.quick else 60000, 998)], "kinds": ["inverted-mixtures"], "drain": 0})
    # an extreme spread of range weights in one chunk: one lone smallest value next to a long run of a single value,
    # dozens of heavily repeated values, and a bulk spread over the type's range (anything that caps, quantises or clamps
    # Huffman weights changes the codes here; the per-chunk huffopt tie sees it)
    for _ in range(2 if ctx.quick else 10):
        dt = rng.choice(["u32", "i64", "u64", "i32"])
        P, W, kind, pps = C.DTYPES[dt]
        bulk = [G.from_signed_val(dt, (1 << 20) + rng.below((1 << (W - 2)))) for _ in range(40000)]
        spikes = [1000 + rng.below(1000000) for _ in range(30)]
        xs = list(bulk)
        for v in spikes:
            xs += [G.from_signed_val(dt, v)] * 250
        xs += [G.from_signed_val(dt, 0)] + [G.from_signed_val(dt, 500)] * 1500
        for a in range(len(xs) - 1, 0, -1):
            b = rng.below(a + 1)
            xs[a], xs[b] = xs[b], xs[a]
        out.append({"dt": dt, "level": 12, "order": 0, "gcds": rng.below(2), "chunks": [xs], "kinds": ["weight-spread"], "drain": 0})
    for _ in range(800 if ctx.quick else 8000):
        out.append(S.enc_case(rng))
    # a nearly full-range uniform bulk plus hundreds of tight clusters at level 12: one merged range holds most numbers and
    # must get a short code although it was merged from many buckets (a wrong Huffman weight shows as a size violation here)
    for _ in range(1 if ctx.quick else 6):
        out.append(bulk_cluster_case(rng, rng.choice([4, 5, 6])))
    return out

def bulk_cluster_case(rng, b, dt=None, m=None):
    """4096*b numbers at level 12 (4096 buckets of b): a uniform bulk over the lower 15/16 of the type's range and m
    clusters of exactly b consecutive values above it, so that every cluster is one bucket and the bulk merges into one
    wide range"""
    dt = dt or rng.choice(["u32", "i32", "f32", "u64", "i64", "f64", "micros", "nanos"])
    P, W, kind, pps = C.DTYPES[dt]
    m = m or rng.choice([128, 256, 384, 512])
    lo = 0 if kind == "uint" else -(1 << (W - 1))
    span = 1 << W
    top = lo + span - (span >> 4)
    nb = (4096 - m) * b
    step = (top - lo) // nb
    xs = [G.from_signed_val(dt, lo + i * step + rng.below(step)) for i in range(nb)]
    for c in range(m):
        base = top + (span >> 12) + c * (span >> 15)
        xs += [G.from_signed_val(dt, base + j) for j in range(b)]
    for i in range(len(xs) - 1, 0, -1):
        j = rng.below(i + 1)
        xs[i], xs[j] = xs[j], xs[i]
    return {"dt": dt, "level": 12, "order": 0, "gcds": rng.below(2), "chunks": [xs], "kinds": ["bulk+clusters"], "drain": 0}

def run(ctx):
    ctx.explanation = ('metadata/offset/varint size theorems are unconditional; the body bound is a theorem: C14h.body_bound for tables without a '
                       'run-length prefix (disjoint ranges + truthful counts + codes costing Huffman\'s cost => body <= n(W+1)+7 bits; Huffman '
                       'optimality and cost-invariance under tie-breaking proved in Lemmas/HuffmanOpt) and C18s.c14_sparse for tables with a '
                       'single-valued run-length prefix (=> body <= n(W+4) for W >= 9, n(W+5) for W = 8; the prefix\'s code has <= 2 bits by '
                       'HuffCode.heavy_length_le_two); the hypotheses are evaluated per chunk (disj, counts, huffopt, jlen, heavy) and the exact '
                       'sizes compared; not covered by a theorem: a multi-valued run-length range (offsets inside runs), W = 1 (bool) with '
                       'run-length; known finding: bool delta moments take one byte each')
    ctx.rule = ("enc stream on adversarial distributions (uniform full range, alternating extremes, thousands of tiny clusters at "
                "level 12, short dominant runs, type extremes, every dtype): the model computes the exact body bits and the exact "
                "metadata bits from the decoded syntax tree (equal to the real sizes because the spec re-encoding reproduces the "
                "bytes) and evaluates: body <= n_coded*(W+4) bits, file overhead <= 8 bytes, chunk overhead <= 12+(order+1)*W/8 "
                "bytes, per stored prefix <= (67+3W)/8+1 bytes; and per chunk `huffopt`: sum count*len(code) equals the Huffman cost "
                "of the weights (count; for the run-length prefix the f64 estimate ceil(f(1-f)n) +-1) computed by the model's "
                "huffCostW (= huffCost, proved). non-trivial = multi-prefix or > 64 numbers")
    if not ctx.model_ok:
        return
    worstbox = [0.0]
    judge(ctx, S.run_enc(ctx, cases(ctx)), worstbox)
    if ctx.disagreements and not ctx.violations:
        # a tie of the size theorems is broken (huffopt / re-encoding): look for a concrete size violation on the inputs
        # where a bad code or weight costs most — bigger bulk+cluster chunks over several types
        C.log("[C14] a tie is broken: searching bulk+cluster inputs for a concrete size violation")
        extra = [bulk_cluster_case(ctx.rng, b, dt, m) for (b, dt, m) in
                 ((8, "u32", 256), (16, "u32", 256), (12, "i64", 512), (16, "f32", 384))]
        judge(ctx, S.run_enc(ctx, extra), worstbox)
    if (ctx.disagreements and not ctx.violations) or not ctx.quick:
        # ... and one chunk of millions of numbers with an extreme spread of range weights (implementation only, sizes
        # from the harness): a dominant wide range that loses its short code costs more than W + 4 bits per number
        big = ["bigspread u32 12 15000000 600 2100 20000 %d" % ctx.seed, "bigspread i64 12 6000000 300 2100 20000 %d" % (ctx.seed + 1)]
        for line, a in zip(big, C.harness(big, timeout=1800, mem_kb=24 * 1024 * 1024)):
            ctx.case(line, ["big"])
            kv = S.parse_kv(a)
            if not a.startswith("ok "):
                ctx.violation("compressing a valid chunk failed", line, "ok", a[:200])
                continue
            W = C.DTYPES[line.split(" ")[1]][1]
            n, body = int(kv["n"]), int(kv["body"])
            worstbox[0] = max(worstbox[0], body * 8 / n - W)
            if body * 8 - 7 > n * (W + 4):
                ctx.violation("size bound exceeded: body %d bytes = %.3f bits per number > W+4=%d (n=%d, %s ranges, longest code %s bits)"
                              % (body, body * 8 / n, W + 4, n, kv.get("nprefs"), kv.get("maxcode")), line, "body <= n(W+4) bits", a)
    ctx.extra["worst_body_bits_per_number_minus_W"] = round(worstbox[0], 3)

def judge(ctx, res, worstbox):
    worst = worstbox[0]
    for r in res:
        c = r["case"]
        line = S.compress_line(c)
        big = any(len(ch) > 64 for ch in c["chunks"])
        tags = set(["big"] if big else [])
        for ch in r["chunks"]:
            tags.update(t for t in ch.get("tags", "").split(",") if t == "multi")
        ctx.case(line, sorted(tags))
        ctx.count("dtype:" + c["dt"])
        for k in c["kinds"]:
            ctx.count("kind:" + k)
        if r["bytes"] is None or r["model"] is None or not r["model"].startswith("ok "):
            continue
        tied = r["head"].get("reenc") == "1"
        if not tied:
            # the model's greedy re-encoding differs from the writer's bytes: the exact bit counts are not tied, so the
            # bounds are judged on the REAL sizes (body byte size from the file, which includes <= 7 padding bits)
            ctx.disagree("enc", line, r["model"][:300], "bytes", "spec re-encoding differs: exact sizes not tied")
        P, W, kind, pps = C.DTYPES[c["dt"]]
        Wp = 1 if kind == "bool" else W
        total = len(r["bytes"]) // 2
        chunk_bytes = 0
        bad = []
        only_bool_moments = True
        for i, ch in enumerate(r["chunks"]):
            nus, bodybits, bodybytes = int(ch["nus"]), int(ch["bodybits"]), int(ch["bodybytes"])
            # the hypothesis `hcodes` of C14h.body_bound, per chunk: the real codes cost exactly Huffman's cost for the
            # weights (C14h/HuffmanOpt: every tie-breaking of make_huffman_code has that cost, and it is minimal)
            if "huffopt" in ch:
                ctx.count("huffopt:" + ch["huffopt"] + ("-runlen" if "runlen" in ch.get("tags", "").split(",") else ""))
                if "runlen" in ch.get("tags", "").split(",") and int(ch["nprefs"]) >= 2 and ch["huffopt"] == "1" and \
                        not (ch.get("jlen") in ("1", "2") and ch.get("heavy") == "1"):
                    ctx.disagree("sparse-hyp", line, "jlen in 1..2 and heavy=1", "jlen=%s heavy=%s huffE=%s" % (ch.get("jlen"), ch.get("heavy"), ch.get("huffE")),
                                 "hypotheses of C18s.c14_sparse do not hold for this chunk with a run-length prefix")
                if ch["huffopt"] == "0":
                    ctx.disagree("huffopt", line, "sum count*len(code) == huffCost(weights)",
                                 "chunk %d: the codes in the file cost more or less than the Huffman cost of their weights" % i,
                                 "hypothesis hcodes of C14h.body_bound does not hold for this chunk")
            if not tied:
                bodybits = max(0, bodybytes * 8 - 7)
            metabits, prefbits, nprefs = int(ch["metabits"]), int(ch["prefbits"]), int(ch["nprefs"])
            chunk_bytes += metabits // 8 + bodybytes
            if nus:
                worst = max(worst, bodybits / nus - Wp)
            if bodybits > nus * (Wp + 4):
                only_bool_moments = False
                bad.append("chunk %d: body %d bits > %d numbers * (W+4=%d)" % (i, bodybits, nus, Wp + 4))
            per_pref = (67 + 3 * Wp) // 8 + 1
            if prefbits > 67 + 3 * Wp:
                only_bool_moments = False
                bad.append("chunk %d: a prefix takes %d bits > 67+3W=%d" % (i, prefbits, 67 + 3 * Wp))
            over = metabits // 8 - nprefs * per_pref
            lim = 12 + (c["order"] + 1) * Wp // 8
            if over > lim:
                # a bool delta moment is stored as a whole byte: with 8 bits per moment the same bound holds?
                if not (kind == "bool" and c["order"] >= 1 and over <= 12 + (c["order"] + 1)):
                    only_bool_moments = False
                bad.append("chunk %d: metadata %d bytes with %d prefixes exceeds 12+(order+1)*W/8=%d plus %d per prefix" % (i, metabits // 8, nprefs, lim, per_pref))
        if total - chunk_bytes > 8:
            only_bool_moments = False
            bad.append("file overhead %d bytes > 8" % (total - chunk_bytes))
        if bad:
            ctx.violation("size bound exceeded: " + "; ".join(bad[:4]), line, "bounds of C14", r["model"][:600],
                          klass="bool-delta-moment-bytes" if only_bool_moments else None)
    worstbox[0] = max(worstbox[0], worst)
