"""C15: timestamp <-> SystemTime conversions are exact (or floor) and range-checked."""
from .. import common as C

B = 10**9
I64MIN, I64MAX = -(1 << 63), (1 << 63) - 1

def st_of_instant(t):
    """instant in ns -> (sign, secs, nanos) as duration_since shows it"""
    if t >= 0:
        return "+", t // B, t % B
    d = -t
    return "-", d // B, d % B

def instants(rng, quick):
    out = set()
    for s in [0, 1, -1, 2, -2, 1500000000, -1500000000, I64MAX // B, I64MIN // B, I64MAX // B + 1, I64MIN // B - 1,
              I64MAX // 10**6, I64MIN // 10**6, I64MAX // 10**6 + 1, I64MIN // 10**6 - 1, I64MAX, I64MIN, I64MAX - 1, I64MIN + 1,
              9223372036, -9223372036, 9223372037, -9223372037, 9223372036854, -9223372036854, 9223372036855, -9223372036855]:
        for n in [0, 1, 999, 1000, 1001, 999999, 1000000, 999999999, 500000000, 854775807, 854775808, 145224192, 145224193]:
            out.add(s * B + n)
            out.add(s * B - n)
    for _ in range(2000 if quick else 100000):
        e = rng.range(0, 93)
        v = rng.bits(e) if e else 0
        out.add(v if rng.below(2) else -v)
    # representable SystemTimes only: secs within i64 (Linux)
    lo, hi = I64MIN * B, I64MAX * B + B - 1
    return sorted(t for t in out if lo <= t <= hi)

def run(ctx):
    rng = ctx.rng
    ctx.rule = ("ts stream: SystemTimes around the epoch, +-1 s, sub-second parts 0/1/999/10^6-1/10^9-1, exact-second boundaries "
                "before the epoch, the 64-bit nanosecond and microsecond limits +-1, the platform extremes (+-2^63 s), random "
                "magnitudes 2^0..2^93 ns; both directions for all four timestamp types; part counts at and beyond the 96-bit "
                "documented range. Decisive (implementation): no panic; nanosecond types return the same instant, microsecond "
                "types the instant rounded down to a microsecond; outside a 64-bit type's range the answer is InvalidArgument; "
                "96-bit parts outside the documented range are rejected by new/validate/TryFrom. Every line is also evaluated "
                "by the Lean step model and compared. non-trivial = pre-epoch, sub-second part, or within 2 s of a range limit")
    lines, info = [], []
    for t in instants(rng, ctx.quick):
        sg, s, n = st_of_instant(t)
        for ty in ("nanos", "micros", "nanos96", "micros96"):
            for op in ("fromst", "rt"):
                lines.append("ts %s %s %s %d %d" % (ty, op, sg, s, n))
                info.append((ty, op, t))
    parts = set()
    for pps in (10**9, 10**6):
        mx, mn = pps * (1 << 63) - 1, -pps * (1 << 63)
        for p in [0, 1, -1, pps, -pps, pps - 1, -pps + 1, mx, mn, mx + 1, mn - 1, mx - 1, mn + 1, I64MAX, I64MIN, I64MAX + 1, I64MIN - 1, (1 << 126), -(1 << 126)]:
            parts.add(p)
    for _ in range(300 if ctx.quick else 20000):
        e = rng.range(0, 95)
        v = rng.bits(e) if e else 0
        parts.add(v if rng.below(2) else -v)
    for p in sorted(parts):
        for ty in ("nanos", "micros"):
            if I64MIN <= p <= I64MAX:
                lines.append("ts %s tost %d" % (ty, p)); info.append((ty, "tost", p))
        for ty in ("nanos96", "micros96"):
            lines.append("ts %s tost %d" % (ty, p)); info.append((ty, "tost", p))
            lines.append("ts %s validate %d" % (ty, p)); info.append((ty, "validate", p))
    impl = C.harness(lines)
    model = C.driver(lines) if ctx.model_ok else [None] * len(lines)
    for line, (ty, op, v), a, m in zip(lines, info, impl, model):
        pps = 10**9 if ty.startswith("nanos") else 10**6
        nspp = B // pps
        is96 = ty.endswith("96")
        tags = []
        if op in ("fromst", "rt"):
            if v < 0: tags.append("pre-epoch")
            if v % B: tags.append("subsec")
            if min(abs(v - I64MAX), abs(v - I64MIN), abs(v // 1000 - I64MAX), abs(v // 1000 - I64MIN)) < 2 * B: tags.append("near-limit")
        else:
            if abs(v) > (1 << 62): tags.append("near-limit")
        ctx.case(line, tags)
        ctx.count("type:" + ty); ctx.count("op:" + op)
        if a.startswith("panic") or a in ("died", "timeout"):
            ctx.violation("timestamp conversion panicked", line, "a value or an error value", a[:200])
            continue
        if m is not None and a != m:
            ctx.disagree("ts", line, m, a)
        # direct oracle
        if op == "fromst":
            p = v // nspp
            if is96 or I64MIN <= p <= I64MAX:
                want = "ok %d" % p
            else:
                want = "err InvalidArgument"
            if a != want:
                ctx.violation("SystemTime -> timestamp is not exact/floor or not range-checked", line, want, a)
        elif op == "rt":
            p = v // nspp
            if is96 or I64MIN <= p <= I64MAX:
                want = "ok %s %d %d" % st_of_instant(p * nspp)
            else:
                want = "err InvalidArgument"
            if a != want:
                ctx.violation("SystemTime -> timestamp -> SystemTime is not the same instant (nanos) / its floor (micros)", line, want, a)
        elif op == "tost":
            mx, mn = pps * (1 << 63) - 1, -pps * (1 << 63)
            if is96 and not (mn <= v <= mx):
                want = "err InvalidArgument"
            else:
                want = "ok %s %d %d" % st_of_instant(v * nspp)
            if a != want:
                ctx.violation("timestamp -> SystemTime is not exact / out-of-range value not rejected", line, want, a)
        elif op == "validate":
            mx, mn = pps * (1 << 63) - 1, -pps * (1 << 63)
            ok = mn <= v <= mx
            want = "validate=%s new=%s tryfrom=%s" % ("ok" if ok else "err:Corruption", "ok" if ok else "err:InvalidArgument", "ok" if ok else "err:Corruption")
            if a != want:
                ctx.violation("96-bit timestamp outside its documented range is not rejected consistently", line, want, a)
