"""C16: unknown flag bits are refused with a compatibility error by every entry point."""
from .. import common as C
from .. import gen as G
from .. import streams as S

def flag_sections(rng, first, quick):
    """(section bytes, has_unknown) variants of a file's flag section; first = original flag byte"""
    out = []
    base7 = first >> 1           # 7 flag bits of the first byte
    # bit 6 of the first byte
    out.append((bytes([((base7 | 1) << 1)]), True))
    # continuation bytes: every single unknown position over up to 4 extra bytes
    for nb in (1, 2, 3, 4):
        for pos in range(7 * nb):
            groups = [base7] + [0] * nb
            groups[1 + pos // 7] |= 1 << (6 - pos % 7)
            out.append((enc(groups), True))
        out.append((enc([base7] + [0] * nb), False))       # cleared variant: all unknown bits zero
    # bit 6 of the first byte together with EMPTY continuation bytes (the unknown bit is in the first byte, the
    # multi-byte path is taken)
    for nb in (1, 2, 3, 4, 8):
        out.append((enc([base7 | 1] + [0] * nb), True))
    # long flag sections: many empty continuation bytes, then nothing / an unknown bit in the last one
    for nb in (5, 7, 8, 9, 10, 64, 1000):
        out.append((enc([base7] + [0] * nb), False))
        out.append((enc([base7] + [0] * (nb - 1) + [1 << rng.below(7)]), True))
    for _ in range(20 if quick else 300):
        nb = rng.range(1, 4)
        groups = [base7 | (rng.below(2))] + [rng.below(128) for _ in range(nb)]
        unknown = (groups[0] & 1) or any(groups[1:])
        out.append((enc(groups), bool(unknown)))
    return out

def enc(groups):
    bs = []
    for i, g in enumerate(groups):
        bs.append((g << 1) | (1 if i + 1 < len(groups) else 0))
    return bytes(bs)

def run(ctx):
    rng = ctx.rng
    ctx.rule = ("valid files of every data type - written by the current compressor, the 8 shipped assets of releases 0.4-0.10, and "
                "syntax trees with all 16 combinations of the known flag fields encoded by the spec encoder - whose flag section is rewritten: bit 6 of the first byte, every single unknown "
                "position over 1..4 continuation bytes, random subsets; each variant is given to header(), the iterator, "
                "simple_decompress and chunk-wise decoding: every entry point must answer Compatibility; the variant with "
                "all unknown bits clear must decode to the original numbers; kinds compared with the Lean decoder. "
                "non-trivial = a variant with a continuation byte or an unknown bit")
    dts = S.ALL_DT if not ctx.quick else S.ALL_DT
    req = []
    for dt in dts:
        order = rng.choice([0, 1, 2])
        c = S.enc_case(rng, dt=dt, n=rng.choice([5, 40]), order=order, nchunks=1)
        req.append(c)
    files = C.harness([S.compress_line(c) for c in req])
    lines, info = [], []
    for c, a in zip(req, files):
        if not a.startswith("ok bytes="):
            continue
        hx = a.split(" ")[1][len("bytes="):]
        raw = bytes.fromhex(hx)
        vals = S.flat(c["chunks"])
        for sec, unknown in flag_sections(rng, raw[5], ctx.quick):
            b = raw[:5] + sec + raw[6:]
            for ops in ("H", "N", "D", "H M"):
                lines.append("dops %s 1000 W%s %s" % (c["dt"], b.hex(), ops))
                info.append((c["dt"], b.hex(), unknown, ops, vals))
    # files of OTHER writers: the shipped assets (0.4 .. 0.10: flag bytes with the first bits clear) and syntax trees
    # with every combination of the four known flag fields, encoded by the spec encoder. A reader that takes a
    # short cut for "old" flag bytes must still refuse unknown bits in them.
    others = [(dt, bytes.fromhex(hx), vals, "asset:" + name) for (name, dt, hx, vals) in S.assets()]
    if ctx.model_ok:
        from . import c03
        alines, adt = [], []
        for use5 in (0, 1):
            for minc in (0, 1):
                for g in (0, 1):
                    for order in (0, rng.choice([1, 2, 7])):
                        dt = rng.choice(S.ALL_DT)
                        fl = (use5, order, minc, g)
                        alines.append("ast %s %d,%d,%d,%d %s" % (dt, use5, order, minc, g, c03.gen_chunk(rng, dt, fl, True)))
                        adt.append(dt)
        for dt, a in zip(adt, C.driver(alines)):
            if a.startswith("ok bytes=") and " self=1 " in a:
                vals = []
                for part in a.split(" | ")[1:]:
                    vals += G.parse_hexlist(S.parse_kv(part).get("vals", ""))
                others.append((dt, bytes.fromhex(a.split(" ")[1][len("bytes="):]), vals, "ast"))
    for dt, raw, vals, desc in others:
        ctx.count("base:" + desc.split(":")[0])
        for sec, unknown in flag_sections(rng, raw[5], True):
            b = raw[:5] + sec + raw[6:]
            for ops in ("H", "N", "D", "H M"):
                lines.append("dops %s 1000 W%s %s" % (dt, b.hex(), ops))
                info.append((dt, b.hex(), unknown, ops, vals))
    ans = C.harness(lines)
    mreq = sorted(set((dt, hx) for (dt, hx, _, _, _) in info))
    mans = dict(zip(mreq, C.driver(["dec %s %s" % m for m in mreq]))) if ctx.model_ok else {}
    for line, (dt, hx, unknown, ops, vals), a in zip(lines, info, ans):
        ctx.case(line, ["unknown-bit" if unknown else "cleared-continuation"])
        ctx.count("dtype:" + dt)
        last = a.split(" ; ")[-1].rsplit("@", 1)[0]
        first_call = a.split(" ; ")[1].rsplit("@", 1)[0]
        if unknown:
            if first_call != "err Compatibility":
                ctx.violation("unknown flag bit not refused with a compatibility error (%s)" % ops, line, "err Compatibility", a[:300])
        else:
            if ops == "D":
                want = "ok vals=" + ",".join("%x" % x for x in vals)
                if last != want:
                    ctx.violation("file with cleared unknown bits does not decode to the original numbers", line, want[:300], a[:300])
            elif first_call.startswith("err"):
                ctx.violation("file with cleared unknown bits is refused", line, "ok", a[:300])
        m = mans.get((dt, hx))
        if m is not None and ops == "D":
            mk = "compat" if m == "compat" else ("ok" if m.startswith("ok ") else m)
            ik = "compat" if last == "err Compatibility" else ("ok" if last.startswith("ok") else last)
            if mk != ik:
                ctx.disagree("dec(flags)", line, m[:200], a[:200])
