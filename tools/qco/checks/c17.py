"""C17: CLI compress -> decompress reproduces the column; inspect reports what the library reports (partial)."""
import os, re, shutil, subprocess
from .. import common as C
from .. import gen as G
from .. import streams as S
from .. import dstream as D

CLI_TARGET = os.path.join(C.BUILD, "cli-target")
QC = os.path.join(CLI_TARGET, "release", "qcompress")
WORK = os.path.join(C.BUILD, "cli-work")
CLI_DT = ["i16", "i32", "i64", "u16", "u32", "u64", "f32", "f64", "micros", "nanos"]
CLI_NAME = {"micros": "timestampmicros", "nanos": "timestampnanos"}

PQGEN_DIR = os.path.join(C.VERIF, "pqgen")
PQGEN = os.path.join(CLI_TARGET, "release", "qco_pqgen")

def build_cli():
    rc, out = C.sh(["cargo", "build", "--release", "-p", "q_compress_cli", "--offline"], cwd=C.REPO, timeout=3000,
                   env={"CARGO_TARGET_DIR": CLI_TARGET})
    return rc == 0, out

def build_pqgen():
    """the Parquet writer used to feed the CLI's Parquet input path: same arrow/parquet versions and features as the
    CLI (lock file copied from /repo), same target directory, so the compiled dependencies are shared"""
    try:
        shutil.copy(os.path.join(C.REPO, "Cargo.lock"), os.path.join(PQGEN_DIR, "Cargo.lock"))
    except Exception:
        pass
    rc, out = C.sh(["cargo", "build", "--release", "--offline"], cwd=PQGEN_DIR, timeout=3000, env={"CARGO_TARGET_DIR": CLI_TARGET})
    return rc == 0 and os.path.exists(PQGEN), out

def pq_value(dt, x):
    """stdin line of qco_pqgen for the value pattern x"""
    P, W, kind, pps = C.DTYPES[dt]
    if kind == "float":
        return "%x" % x
    if kind == "uint":
        return str(x)
    return str(x - (1 << W) if x >> (W - 1) else x)

def fmt_value(dt, x):
    """text of the value pattern x as the CSV cell"""
    P, W, kind, pps = C.DTYPES[dt]
    if kind == "uint":
        return str(x)
    if kind == "int" and pps == 0:
        return str(x - (1 << W) if x >> (W - 1) else x)
    if kind == "float":
        import struct
        v = struct.unpack(">f" if W == 32 else ">d", x.to_bytes(W // 8, "big"))[0]
        return repr(v) if W == 64 else repr(struct.unpack(">f", struct.pack(">f", v))[0])
    # timestamps: RFC3339 with fractional seconds, UTC
    import datetime
    parts = x - (1 << 64) if x >> 63 else x
    secs, frac = divmod(parts, pps)
    base = datetime.datetime(1970, 1, 1) + datetime.timedelta(seconds=secs)
    digits = 9 if pps == 10**9 else 6
    return base.strftime("%Y-%m-%dT%H:%M:%S") + "." + str(frac).rjust(digits, "0")

def num_of_text(dt, s):
    P, W, kind, pps = C.DTYPES[dt]
    if kind == "float":
        import struct
        v = float(s)
        return struct.unpack(">f", struct.pack(">f", v))[0] if W == 32 else v
    if pps:
        import datetime
        m = re.match(r"(\d+-\d+-\d+T\d+:\d+:\d+)(?:\.(\d+))?", s)
        base = datetime.datetime.strptime(m.group(1), "%Y-%m-%dT%H:%M:%S")
        secs = int((base - datetime.datetime(1970, 1, 1)).total_seconds())
        frac = (m.group(2) or "0").ljust(9, "0")[:9]
        return secs * 10**9 + int(frac)
    return int(s)

def column(rng, dt, n):
    P, W, kind, pps = C.DTYPES[dt]
    kindsel = rng.choice(["small", "cluster", "lattice", "sparse", "smooth", "dups", "poly", "uniform"])
    xs, _ = G.gen_seq(rng, dt, n, kindsel)
    if kind == "float":
        # finite values only (CSV text layer); NaN/inf are not numbers a CSV column holds portably
        e = 8 if W == 32 else 11
        m = W - 1 - e
        xs = [x for x in xs if ((x >> m) & ((1 << e) - 1)) != (1 << e) - 1] or [0]
    if pps:
        # years 1700..2250 so that every layer can print them
        lo, hi = -8520336000, 8835868800
        if rng.chance(2, 3):
            lo = 0          # on or after the epoch (see the known finding about pre-epoch fractional seconds)
        out = []
        for x in xs:
            p = x - (1 << 64) if x >> 63 else x
            s = lo + (p // pps) % (hi - lo)
            out.append((s * pps + p % pps) % (1 << 64))
        xs = out
    return xs

def run_cli(args, timeout=120):
    p = subprocess.run([QC] + args, stdout=subprocess.PIPE, stderr=subprocess.PIPE, text=True, timeout=timeout, cwd=WORK)
    return p.returncode, p.stdout, p.stderr

def run(ctx):
    ctx.explanation = ("partial: theorems cover the CLI's own glue (re-chunking, --limit, inspect arithmetic) composed with C01; Arrow CSV/Parquet parsing, number/timestamp formatting and option handling are exercised by differential runs of the real binary only (every third case enters through a Parquet file written by /verif/pqgen with the CLI's own arrow/parquet versions); known finding: Arrow's CSV writer panics on pre-epoch fractional timestamps")
    rng = ctx.rng
    ctx.rule = ("cli stream: CSV and Parquet columns of i16/i32/i64/u16/u32/u64/f32/f64 and both 64-bit timestamp types, 1..3000 rows, through "
                "/repo's qcompress binary (built from the working tree): compress with chunk sizes 1..>rows, levels, explicit and "
                "automatic delta order, --disable-gcds; decompress [--limit k]; inspect. Decisive: stdout parsed numerically "
                "equals the column (its first k values); inspect's data type, total n, chunk count and byte sizes equal what the "
                "library reports for the file (metadata walk through the harness) and the Lean glue model's predicted chunk "
                "shapes. NOT covered by any theorem: Arrow CSV parsing, number formatting (stated as partial). non-trivial = "
                ">= 2 chunks or a limit below the row count")
    ok, out = build_cli()
    if not ok:
        ctx.tie_break("cli-build", out[-1500:])
        return
    have_pq, pqout = build_pqgen()
    if not have_pq:
        ctx.notes.append("Parquet writer (pqgen) did not build; Parquet input not exercised in this run: " + pqout[-300:])
    shutil.rmtree(WORK, ignore_errors=True)
    os.makedirs(WORK, exist_ok=True)
    ncases = 120 if ctx.quick else 1200
    for ci in range(ncases):
        dt = CLI_DT[ci % len(CLI_DT)]
        n = rng.choice([1, 2, 3, 7, 50, 333, 1000, 1001, 2000, 3000, 4100])
        xs = column(rng, dt, n)
        n = len(xs)
        # chunk sizes below, at and above the row count; above 1000 both multiples and non-multiples of 1000
        cs = rng.choice([1, 2, 3, 10, 100, 1000, n, n + 1, 1000000]) if n <= 400 else rng.choice([100, 999, 1000, 1001, 1500, 2500, n - 1, n, n + 1, 1000000])
        if ci % 40 == 7 or (not ctx.quick and ci % 40 == 27):
            # more than 1000 chunks (chunk size 1 or 2): anything capped or listed per chunk shows in inspect
            n = rng.choice([1001, 1500, 2500]); xs = column(rng, dt, n); n = len(xs); cs = 1 if n <= 1500 else rng.choice([1, 2])
        level = rng.choice([0, 3, 8, 12])
        order = rng.choice([None, None, 0, 1, 2, 5])
        nogcd = rng.chance(1, 3)
        qco = "c%d.qco" % ci
        use_pq = have_pq and ci % 3 == 2
        if use_pq:
            # Parquet input: the column goes in as binary values (no text layer on the way in), row groups cut anywhere
            csvp = os.path.join(WORK, "c%d.parquet" % ci)
            rg = rng.choice([1, 7, 100, 1000, max(1, n - 1), n, n + 1, 1 << 20])
            pr = subprocess.run([PQGEN, csvp, dt, str(rg)], input="\n".join(pq_value(dt, x) for x in xs) + "\n", text=True,
                                stdout=subprocess.PIPE, stderr=subprocess.STDOUT, timeout=120)
            if pr.returncode != 0:
                ctx.notes.append("pqgen failed: " + pr.stdout[-200:])
                continue
            ctx.count("input:parquet"); ctx.count("parquet-row-group:%s" % ("1" if rg == 1 else "<n" if rg < n else ">=n"))
            args = ["compress", "--parquet", csvp] + (["--col-name", "a"] if rng.chance(1, 2) else ["--col-idx", "1"]) + \
                   (["--dtype", CLI_NAME.get(dt, dt)] if rng.chance(1, 2) else []) + ["--chunk-size", str(cs), "--level", str(level), "--overwrite"]
        else:
            ctx.count("input:csv")
            csvp = os.path.join(WORK, "c%d.csv" % ci)
            with open(csvp, "w") as f:
                f.write("x,a,y\n")
                for i, x in enumerate(xs):
                    f.write("%d,%s,zz\n" % (i, fmt_value(dt, x)))
            args = ["compress", "--csv", csvp, "--col-name", "a", "--dtype", CLI_NAME.get(dt, dt), "--chunk-size", str(cs), "--level", str(level), "--overwrite"]
        if order is not None:
            args += ["--delta-order", str(order)]
        if nogcd:
            args += ["--disable-gcds"]
        args.append(qco)
        desc = "qcompress " + " ".join(a if a != csvp else "<%s %s n=%d>" % ("parquet" if use_pq else "csv", dt, n) for a in args)
        nchunks = (n + cs - 1) // cs
        k = rng.choice([None, 0, 1, n - 1, n, n + 5, rng.below(n + 1)])
        tags = (["multi-chunk"] if nchunks > 1 else []) + (["limit"] if k is not None and k < n else [])
        ctx.case(desc + (" ; decompress --limit %s" % k), tags)
        ctx.count("dtype:" + dt)
        rc, so, se = run_cli(args)
        if rc != 0:
            ctx.violation("qcompress compress failed on a valid column", desc, "exit 0", (se or so)[-400:])
            continue
        want = [num_of_text(dt, fmt_value(dt, x)) for x in xs]
        for lim in ([None] if k is None else [None, k]):
            dargs = ["decompress"] + (["--limit", str(lim)] if lim is not None else []) + [qco]
            rc, so, se = run_cli(dargs)
            if rc != 0:
                pps_ = C.DTYPES[dt][3]
                pre = pps_ and any(((x - (1 << 64) if x >> 63 else x) < 0 and (x % pps_) != 0) for x in xs) and "out-of-range datetime" in (se + so)
                ctx.violation("qcompress decompress failed", desc + " ; " + " ".join(dargs), "exit 0", (se or so)[-400:],
                              klass="cli-arrow-preepoch-subsec" if pre else None)
                continue
            try:
                got = [num_of_text(dt, l.strip()) for l in so.split("\n") if l.strip()]
            except Exception as e:
                ctx.violation("qcompress decompress printed something that is not a number", desc, "numbers", so[:300])
                continue
            exp = want if lim is None else want[:lim]
            if got != exp:
                j = next((j for j in range(min(len(got), len(exp))) if got[j] != exp[j]), min(len(got), len(exp)))
                ctx.violation("CLI compress -> decompress%s does not reproduce the column (first difference at row %d)" % ("" if lim is None else " --limit %d" % lim, j),
                              desc, str(exp[j:j + 3]) + " (%d rows)" % len(exp), str(got[j:j + 3]) + " (%d rows)" % len(got))
        # inspect vs the library's own metadata walk vs the glue model
        rc, so, se = run_cli(["inspect", qco])
        raw = open(os.path.join(WORK, qco), "rb").read().hex()
        walk = C.harness(["dops %s 100000 W%s H %s m" % (dt, raw, " ".join(["M", "S"] * nchunks))])[0]
        toks = D.split_tokens(walk)
        metas = [S.parse_meta(b[len("ok meta "):]) for b, _ in toks if b.startswith("ok meta ")]
        starts = [toks[1][1] // 8] + [toks[2 + 2 * i + 1][1] // 8 for i in range(len(metas))]
        body = sum(m["body"] for m in metas)
        meta_bytes = (starts[-1] - starts[0] - body) if metas else 0
        exp = {"data type": CLI_NAME.get(dt, dt), "number of chunks": str(len(metas)), "total n": str(sum(m["n"] for m in metas)),
               "header size": str(starts[0]), "chunk metadata size": str(meta_bytes), "chunk body size": str(body), "footer size": "1",
               "unknown trailing bytes": "0"}
        got = dict(re.findall(r"^\s*([a-z ]+): ([^\s(]+)", so, re.M))
        bad = [(k_, v, got.get(k_)) for k_, v in exp.items() if got.get(k_, "").lower() != v.lower()]
        if rc != 0 or bad or toks[-1][0] != "ok none":
            ctx.violation("qcompress inspect disagrees with the library's metadata walk", desc + " ; inspect", str(exp), (so + se)[:500] + " :: " + str(bad))
        if ctx.model_ok:
            # reader batches have chunk_size rows: model the batch list and predict the chunk shapes
            batches = [cs] * (n // cs) + ([n % cs] if n % cs else [])
            m = C.driver(["cli rechunk %d %s" % (cs, " ".join(map(str, batches)))])[0]
            if m.split() != [str(x["n"]) for x in metas]:
                ctx.disagree("cli(rechunk)", desc, m, str([x["n"] for x in metas]))
    shutil.rmtree(WORK, ignore_errors=True)
