"""C18: advertised features take effect: exact GCDs, sparse run-length, delta."""
from .. import common as C
from .. import gen as G
from .. import streams as S

def s_add(dt, a, b):
    P, W, kind, pps = C.DTYPES[dt]
    return (a ^ b) if kind == "bool" else (a + b) % (1 << W)

def from_s(dt, s):
    P, W, kind, pps = C.DTYPES[dt]
    return (s + (1 << (W - 1))) % (1 << W) if kind == "uint" else s

def vanishing_seq(rng, dt, d, n):
    """a sequence whose d-th wrapping differences all vanish: integrate zero deltas from random moments"""
    P, W, kind, pps = C.DTYPES[dt]
    if kind == "bool":
        mom = [rng.below(2) for _ in range(d)]
    elif kind == "ts96":
        mom = [rng.below(1000) for _ in range(d)]
        mom[0] = rng.below(10**15)
    else:
        mom = [rng.choice([0, 1, 5, (1 << W) - 3, rng.bits(W) >> rng.range(0, W - 1)]) for _ in range(d)]
    out = []
    for _ in range(n):
        out.append(from_s(dt, mom[0]))
        for o in range(d - 1):
            mom[o] = s_add(dt, mom[o], mom[o + 1])
    return out

def cases(ctx):
    rng = ctx.rng
    out = []
    ints = [dt for dt in S.ALL_DT if C.DTYPES[dt][2] in ("int", "uint")]
    # (1) lattices: per-range and common divisors, merged ranges, divisors near 2^49
    for _ in range(400 if ctx.quick else 4000):
        dt = rng.choice(S.ALL_DT)
        out.append(("gcd", S.enc_case(rng, dt=dt, kind="lattice", gcds=1, order=0, level=rng.choice([0, 2, 5, 8, 12]), nchunks=1)))
    for dt in ("u64", "i64", "u128", "i128"):
        for e in (48, 49, 50, 52, 53, 60):
            w = (1 << e) + 1
            a, b = 1000, 1 << 62
            xs = [G.from_signed_val(dt, v) for v in [a, a + w, b, b + w] * 2]
            out.append(("gcd", {"dt": dt, "level": 8, "order": 0, "gcds": 1, "chunks": [xs], "kinds": ["gcd-near-2^%d" % e], "drain": 0}))
            xs = [G.from_signed_val(dt, v) for v in [a, a + w, a + 3 * w, a + w]]
            out.append(("gcd", {"dt": dt, "level": 8, "order": 0, "gcds": 1, "chunks": [xs], "kinds": ["gcd-near-2^%d" % e], "drain": 0}))
    # floats incl. NaN payloads: single-valued NaN ranges next to each other get merged at high levels
    for _ in range(40 if ctx.quick else 400):
        dt = rng.choice(["f32", "f64"])
        W = C.DTYPES[dt][1]
        e = 8 if W == 32 else 11
        m = W - 1 - e
        inf = ((1 << e) - 1) << m
        pool = []
        for _k in range(rng.range(2, 6)):
            s_ = rng.choice([0, 1 << (W - 1)])
            pool.append(s_ | inf | rng.choice([1, (1 << m) - 1, 1 << (m - 1), rng.bits(m) | 1]))
        if rng.chance(1, 2):
            pool.append(rng.bits(W))
        xs = [rng.choice(pool) for _ in range(rng.choice([2, 3, 5, 20, 200]))]
        out.append(("gcd", {"dt": dt, "level": rng.choice([8, 10, 12]), "order": 0, "gcds": 1, "chunks": [xs], "kinds": ["nan-payloads"], "drain": 0}))
    # (2) sparse chunks
    for _ in range(120 if ctx.quick else 1200):
        dt = rng.choice(S.ALL_DT)
        P, W, kind, pps = C.DTYPES[dt]
        n = rng.choice([2000, 2001, 2500, 4000] if ctx.quick else [2000, 2001, 3000, 5000, 20000])
        frac = rng.choice([900, 901, 950, 990, 999])      # per mille of the dominant value (>= 90%)
        dom = G.valid_pattern(dt, rng.choice([0, 1, 7, G.random_pattern(rng, dt)]))
        n_other = n - (n * frac + 999) // 1000
        n_other = max(1, min(n_other, n // 10))
        others = []
        while len(others) < n_other:
            v = G.random_pattern(rng, dt) if kind != "bool" else 1 - dom
            if v != dom:
                others.append(v)
        # arrangements: scattered singles (many runs), clustered, at the ends
        arr = rng.choice(["scatter", "cluster", "ends", "alternate"])
        xs = [dom] * (n - n_other)
        if arr == "scatter":
            for v in others:
                xs.insert(rng.below(len(xs) + 1), v)
        elif arr == "cluster":
            pos = rng.below(len(xs) + 1)
            xs[pos:pos] = others
        elif arr == "ends":
            xs = others[: n_other // 2] + xs + others[n_other // 2:]
        else:
            ys = []
            oi = 0
            step = max(2, len(xs) // max(1, n_other))
            for i, v in enumerate(xs):
                ys.append(v)
                if i % step == step - 1 and oi < len(others):
                    ys.append(others[oi]); oi += 1
            xs = ys + others[oi:]
        out.append(("sparse", {"dt": dt, "level": rng.choice([8, 9, 10, 12]), "order": 0, "gcds": rng.below(2), "chunks": [xs], "kinds": ["sparse-" + arr], "drain": 0}))
    # (1b) a handful of distinct single values with lattice gaps (see C10's singles family): merged ranges must record the
    # exact GCD although no raw range carries a divisor
    from . import c10
    for c in c10.singles_cases(rng, 60 if ctx.quick else 600):
        out.append(("gcd", c))
    # (3) vanishing d-th differences
    for _ in range(200 if ctx.quick else 2500):
        dt = rng.choice(S.ALL_DT)
        d = rng.range(1, 7)
        n = rng.choice([1, 2, d, d + 1, d + 2, 10, 100, 1000, 1001, 1001 + d, 1500, 2000, 3000])   # also above MIN_N_TO_USE_RUN_LEN
        xs = vanishing_seq(rng, dt, d, n)
        out.append(("delta", {"dt": dt, "level": rng.choice([0, 4, 8, 12]), "order": d, "gcds": rng.below(2), "chunks": [xs], "kinds": ["vanishing-%d" % d], "drain": 0}))
    return out

def run(ctx):
    ctx.explanation = ("all three parts are theorems now: (1) exact GCD meaning (C18, C10t) and - C18g - the literal pair_gcd / gcd(sorted) / fold_prefix_gcds_left loops proved equal to Nat.gcd / the training model; (2) C18s.c18_sparse: for a table with a single-valued run-length prefix, disjoint ranges, truthful counts, codes costing Huffman's cost for the weights with any weight E of the run-length prefix and that prefix's code of 1..2 bits (HuffCode.heavy_length_le_two: forced whenever others < 2E), the body takes <= (W+8)*others + 52*runs bits; its hypotheses are evaluated per chunk (huffopt, jlen, heavy, disj, counts) and the exact sizes compared; (3) vanishing differences => metadata only. Remaining assumption: the f64 estimate E of the number of runs is not modelled (any E with others < 2E works)")
    ctx.rule = ("enc stream on (1) lattices a+g*i incl. two lattices per chunk, merged ranges and divisors 2^e+1 near the float "
                "rounding edge, (2) chunks of >= 2000 numbers with a 90-99.9% dominant value in scattered/clustered/end/alternating "
                "arrangements at level >= 8, (3) sequences whose d-th wrapping differences vanish (integrated from random moments, "
                "d = 1..7, every dtype incl. bool/float/timestamps). The model evaluates: exactness of every recorded divisor "
                "(or 1 exactly where it does not fit the format's field), jumpstart on the dominant value's own single-valued "
                "range, exact body bits <= (W+8)*others + 52*runs, one empty-code prefix and an empty body for (3). "
                "non-trivial = a chunk with a divisor > 1, a run-length prefix, or delta order >= 1")
    if not ctx.model_ok:
        return
    cs = cases(ctx)
    res = S.run_enc(ctx, [c for _, c in cs])
    for (what, c), r in zip(cs, res):
        line = S.compress_line(c)
        tags = set()
        for ch in r["chunks"]:
            tags.update(t for t in ch.get("tags", "").split(",") if t in ("gcd", "runlen", "delta"))
        ctx.case(line, sorted(tags))
        ctx.count("part:" + what); ctx.count("dtype:" + c["dt"])
        if r["bytes"] is None:
            ctx.violation("compressing a valid input failed", line, "ok", r["impl"][:300])
            continue
        if r["model"] is None or not r["model"].startswith("ok ") or r["head"].get("reenc") != "1":
            ctx.disagree("enc", line, str(r["model"])[:300], "bytes", "spec decoding / re-encoding of the writer's bytes fails")
            continue
        P, W, kind, pps = C.DTYPES[c["dt"]]
        Wp = 1 if kind == "bool" else W
        for ch in r["chunks"]:
            if ch.get("gcdexact") == "1" and "divisor" in ch.get("explains", "ok"):
                ctx.disagree("enc(explains)", line, ch["explains"], r["impl"][:300], "recorded divisor differs from the training model's although it is exact")
            if ch.get("gcdexact") != "1":
                ctx.violation("recorded divisor of a multi-valued range is not the exact GCD (nor a justified 1)", line, "gcdexact=1", r["impl"][:500] + " :: " + r["model"][:400])
            if what == "sparse":
                n, dom, runs, others, bodybits = int(ch["nus"]), int(ch["dom"]), int(ch["runs"]), int(ch["others"]), int(ch["bodybits"])
                if n >= 2000 and dom * 10 >= 9 * n and dom != n and c["level"] >= 8:
                    ctx.count("sparse-premises-met")
                    if ch.get("domjump") != "1":
                        ctx.violation("dominant value (>= 90%) did not get its own run-length range", line, "domjump=1", r["impl"][:500])
                    # hypotheses of C18s.sparse_body_bound / c18_sparse, per chunk: codes cost Huffman's cost for the weights
                    # with SOME weight E of the run-length prefix (huffopt), that prefix's code has 1..2 bits (jlen; justified
                    # by HuffCode.heavy_length_le_two since others < 2E: heavy), table shape (disj, counts: WFc conjuncts)
                    if "huffopt" in ch:
                        hyp = ch["huffopt"] == "1" and ch.get("jlen") in ("1", "2") and ch.get("heavy") == "1"
                        ctx.count("sparse-hypotheses:" + ("hold" if hyp else "fail"))
                        if not hyp and ch.get("domjump") == "1" and int(ch["nprefs"]) >= 2:
                            ctx.disagree("sparse-hyp", line, "huffopt=1 jlen in 1..2 heavy=1",
                                         "huffopt=%s jlen=%s heavy=%s huffE=%s" % (ch.get("huffopt"), ch.get("jlen"), ch.get("heavy"), ch.get("huffE")),
                                         "hypotheses of C18s.sparse_body_bound do not hold for this chunk")
                    if bodybits > (Wp + 8) * others + 52 * runs:
                        ctx.violation("sparse chunk costs more than (W+8)*others + 52*runs bits", line,
                                      "<= %d" % ((Wp + 8) * others + 52 * runs), "bodybits=%d others=%d runs=%d" % (bodybits, others, runs))
            if what == "delta":
                if ch.get("allequal") == "1" and int(ch["nus"]) > 0:
                    ctx.count("vanishing-premises-met")
                    if ch["nprefs"] != "1" or ch["maxcode"] != "0" or ch["bodybits"] != "0" or ch["bodybytes"] != "0":
                        ctx.violation("vanishing differences do not compress to metadata only", line, "one empty-code prefix, empty body", r["model"][:500])
                elif int(ch["nus"]) > 0:
                    ctx.tie_break("generator", "vanishing-difference generator produced non-vanishing deltas: " + line[:200])
                elif ch["bodybytes"] != "0":
                    ctx.violation("chunk with n <= order has a non-empty body", line, "body 0", r["model"][:300])
