"""Shared machinery of the checks: builds, process plumbing, PRNG, audit, evidence, verdicts."""
import shutil, hashlib, json, os, re, resource, subprocess, sys, time

VERIF = os.path.dirname(os.path.dirname(os.path.dirname(os.path.abspath(__file__))))
REPO = os.environ.get("QCO_REPO", "/repo")
LEAN = os.path.join(VERIF, "lean")
BUILD = os.path.join(VERIF, "build")
TMP = os.path.join(BUILD, "tmp")
HARNESS_DIR = os.path.join(VERIF, "harness")
HARNESS = os.path.join(BUILD, "harness-target", "release", "qco_harness")
DRIVER = os.path.join(LEAN, ".lake", "build", "bin", "qcodrv")
EVIDENCE = os.path.join(VERIF, "evidence")
REPLAYS = os.path.join(VERIF, "replays")
ALLOWED_AXIOMS = {"propext", "Classical.choice", "Quot.sound"}

DTYPES = {
    # name: (P, W, kind, pps)
    "i16": (16, 16, "int", 0), "i32": (32, 32, "int", 0), "i64": (64, 64, "int", 0), "i128": (128, 128, "int", 0),
    "u16": (16, 16, "uint", 0), "u32": (32, 32, "uint", 0), "u64": (64, 64, "uint", 0), "u128": (128, 128, "uint", 0),
    "f32": (32, 32, "float", 0), "f64": (64, 64, "float", 0), "bool": (8, 8, "bool", 0),
    "nanos": (64, 64, "int", 10**9), "micros": (64, 64, "int", 10**6),
    "nanos96": (96, 128, "ts96", 10**9), "micros96": (96, 128, "ts96", 10**6),
}

def log(*a):
    print(*a, flush=True)

# ------------------------------------------------------------------------------------------
# PRNG: one SplitMix64 state, every random choice derives from VERIF_SEED

class Rng:
    def __init__(self, seed):
        self.s = seed & 0xFFFFFFFFFFFFFFFF
    def next(self):
        self.s = (self.s + 0x9E3779B97F4A7C15) & 0xFFFFFFFFFFFFFFFF
        z = self.s
        z = ((z ^ (z >> 30)) * 0xBF58476D1CE4E5B9) & 0xFFFFFFFFFFFFFFFF
        z = ((z ^ (z >> 27)) * 0x94D049BB133111EB) & 0xFFFFFFFFFFFFFFFF
        return z ^ (z >> 31)
    def below(self, n):
        return self.next() % n if n > 0 else 0
    def range(self, a, b):
        """inclusive"""
        return a + self.below(b - a + 1)
    def choice(self, xs):
        return xs[self.below(len(xs))]
    def bits(self, w):
        v = 0
        for _ in range((w + 63) // 64):
            v = (v << 64) | self.next()
        return v & ((1 << w) - 1)
    def chance(self, num, den):
        return self.below(den) < num
    def fork(self, tag):
        h = hashlib.sha256(("%d:%s" % (self.s, tag)).encode()).digest()
        return Rng(int.from_bytes(h[:8], "big"))

def seed_from_env():
    try:
        return int(os.environ.get("VERIF_SEED", "1"))
    except ValueError:
        return 1

# ------------------------------------------------------------------------------------------
# builds

def sh(cmd, cwd=None, timeout=3600, env=None):
    e = dict(os.environ)
    e["CARGO_NET_OFFLINE"] = "true"
    if env:
        e.update(env)
    p = subprocess.run(cmd, cwd=cwd, shell=isinstance(cmd, str), stdout=subprocess.PIPE, stderr=subprocess.STDOUT,
                       timeout=timeout, env=e, text=True, errors="replace")
    return p.returncode, p.stdout

def extract_constants():
    rc, out = sh([sys.executable, os.path.join(VERIF, "tools", "extract_constants.py")])
    return rc == 0, out.strip()

def lake_build(targets):
    rc, out = sh(["lake", "build"] + targets, cwd=LEAN, timeout=3000)
    return rc == 0, out

HOOKS_OK = True
HOOKS_ERR = ""

def build_harness():
    """the harness against /repo's working tree, with the guarded hooks on. If the hooks do not compile against the
    working tree (they call crate-private functions whose signatures a change may have altered) the harness is built
    without them: every public-API stream and oracle still runs, the hook streams answer `no-hooks` (a broken tie)."""
    global HOOKS_OK, HOOKS_ERR
    os.makedirs(BUILD, exist_ok=True)
    rc, out = sh(["cargo", "build", "--release", "--offline"], cwd=HARNESS_DIR, timeout=3000,
                 env={"CARGO_TARGET_DIR": os.path.join(BUILD, "harness-target"),
                      "RUSTFLAGS": "--cfg mwlon_quantile_compression_verif"})
    HOOKS_OK = rc == 0
    if rc != 0:
        HOOKS_ERR = out
        rc, out2 = sh(["cargo", "build", "--release", "--offline"], cwd=HARNESS_DIR, timeout=3000,
                      env={"CARGO_TARGET_DIR": os.path.join(BUILD, "harness-target-nohooks")})
        if rc == 0:
            src = os.path.join(BUILD, "harness-target-nohooks", "release", "qco_harness")
            dst = os.path.join(BUILD, "harness-target", "release", "qco_harness")
            os.makedirs(os.path.dirname(dst), exist_ok=True)
            shutil.copy2(src, dst)
        else:
            out = out + "\n--- without hooks ---\n" + out2
    return rc == 0, out

# ------------------------------------------------------------------------------------------
# running the two sides on request lines

def _limits(mem_kb):
    def f():
        if mem_kb:
            resource.setrlimit(resource.RLIMIT_AS, (mem_kb * 1024, mem_kb * 1024))
        try:
            resource.setrlimit(resource.RLIMIT_STACK, (resource.RLIM_INFINITY, resource.RLIM_INFINITY))
        except Exception:
            try:
                resource.setrlimit(resource.RLIMIT_STACK, (1 << 30, 1 << 30))
            except Exception:
                pass
    return f

def _cpu_ticks(pid):
    try:
        f = open("/proc/%d/stat" % pid).read().rsplit(")", 1)[1].split()
        return int(f[11]) + int(f[12])
    except Exception:
        return None

def _run_watched(exe, inp, timeout, mem_kb, stall=90):
    """run the executable on the input; returns (stdout text, gave_up). Gives up at the wall-clock timeout, or when the
    process has been alive without consuming any CPU time and without producing output for `stall` seconds (the Lean
    runtime's stack-overflow handler can deadlock instead of exiting: such a process would otherwise sit until the timeout)"""
    import threading
    p = subprocess.Popen([exe], stdin=subprocess.PIPE, stdout=subprocess.PIPE, stderr=subprocess.DEVNULL, preexec_fn=_limits(mem_kb))
    chunks = []
    def feed():
        try:
            p.stdin.write(inp.encode()); p.stdin.close()
        except Exception:
            pass
    def drain():
        try:
            while True:
                b = p.stdout.read1(1 << 16)
                if not b:
                    break
                chunks.append(b)
        except Exception:
            pass
    tf = threading.Thread(target=feed, daemon=True); td = threading.Thread(target=drain, daemon=True)
    tf.start(); td.start()
    t0 = time.time()
    last_ticks, last_len, last_change = None, -1, time.time()
    gave_up = False
    while True:
        if p.poll() is not None:
            break
        now = time.time()
        if now - t0 > timeout:
            gave_up = True
            break
        ticks, ln = _cpu_ticks(p.pid), len(chunks)
        if ticks != last_ticks or ln != last_len:
            last_ticks, last_len, last_change = ticks, ln, now
        elif now - last_change > stall:
            gave_up = True
            break
        time.sleep(0.05 if now - t0 < 2 else 0.5)
    if gave_up:
        try:
            p.kill()
        except Exception:
            pass
    try:
        p.wait(timeout=30)
    except Exception:
        pass
    td.join(timeout=30)
    return b"".join(chunks).decode(errors="replace"), gave_up

def run_lines(exe, lines, timeout=600, mem_kb=8 * 1024 * 1024, per_line_timeout=None):
    """Feed request lines to a line-protocol executable; return one answer per line.
    If the process dies or times out, the line it was working on is answered `died` / `timeout`
    and the rest is re-run in a fresh process (so one bad case never hides the others)."""
    answers = []
    todo = list(lines)
    os.makedirs(TMP, exist_ok=True)
    while todo:
        inp = "\n".join(todo) + "\n"
        t0 = time.time()
        raw, timed_out = _run_watched(exe, inp, timeout, mem_kb)
        out = raw.split("\n")
        if out and out[-1] == "":
            out.pop()
        # a partial last line is dropped
        if raw and not raw.endswith("\n") and out:
            out.pop()
        got = out[:len(todo)]
        answers.extend(got)
        if len(got) >= len(todo):
            break
        answers.append("timeout" if timed_out else "died")
        todo = todo[len(got) + 1:]
    return answers

def run_parallel(exe, lines, jobs=None, **kw):
    """split the request lines over several processes (answers stay in order)"""
    lines = list(lines)
    jobs = jobs or int(os.environ.get("QCO_JOBS", "14"))
    if len(lines) < 64 or jobs <= 1:
        return run_lines(exe, lines, **kw)
    from concurrent.futures import ThreadPoolExecutor
    # contiguous blocks, balanced by total request size
    total = sum(len(l) + 50 for l in lines)
    target = total / jobs
    blocks, cur, acc = [], [], 0
    for l in lines:
        cur.append(l); acc += len(l) + 50
        if acc >= target and len(blocks) < jobs - 1:
            blocks.append(cur); cur, acc = [], 0
    if cur:
        blocks.append(cur)
    with ThreadPoolExecutor(max_workers=len(blocks)) as ex:
        outs = list(ex.map(lambda b: run_lines(exe, b, **kw), blocks))
    return [a for o in outs for a in o]

def harness(lines, **kw):
    return run_parallel(HARNESS, lines, **kw)

def driver(lines, **kw):
    return run_parallel(DRIVER, lines, **kw)

# ------------------------------------------------------------------------------------------
# audit of the property theorems

def property_modules(pid):
    """Qco/Properties/Cxx.lean plus continuation files Cxx<letter>.lean (same namespace Qco.Cxx)"""
    d = os.path.join(LEAN, "Qco", "Properties")
    out = []
    for f in sorted(os.listdir(d)) if os.path.isdir(d) else []:
        if re.fullmatch(re.escape(pid) + r"[a-z]?\.lean", f):
            out.append(f[:-5])
    return out

def extra_audit(pid):
    p = os.path.join(VERIF, "tools", "extra_audit.json")
    if not os.path.exists(p):
        return [], []
    e = json.load(open(p)).get(pid, {})
    return e.get("imports", []), e.get("theorems", [])

def property_theorems(pid):
    thms = list(extra_audit(pid)[1])
    for mod in property_modules(pid):
        src = open(os.path.join(LEAN, "Qco", "Properties", mod + ".lean")).read()
        src_nc = re.sub(r"/-.*?-/", "", src, flags=re.S)
        # namespace: `namespace Qco` then `namespace Cxx` (continuation files use the property's namespace)
        m = re.findall(r"^namespace\s+([A-Za-z0-9_.]+)", src_nc, re.M)
        ns = ".".join(m[:2]) if len(m) >= 2 else "Qco." + pid
        thms += [ns + "." + t.group(1) for t in re.finditer(r"^theorem\s+([A-Za-z0-9_'.]+)", src_nc, re.M)]
    return thms

FORBIDDEN = re.compile(r"\bsorry\b|\badmit\b|^\s*axiom\s|native_decide|implemented_by|\bunsafe\s|maxHeartbeats\s+0|bv_decide", re.M)

def grep_forbidden():
    """sorry/admit/axiom/native_decide/... anywhere in the Lean sources, outside comments"""
    hits = []
    for root, _, files in os.walk(LEAN):
        if ".lake" in root:
            continue
        for f in files:
            if not f.endswith(".lean"):
                continue
            p = os.path.join(root, f)
            s = open(p).read()
            s = re.sub(r"/-.*?-/", lambda m: "\n" * m.group(0).count("\n"), s, flags=re.S)
            s = re.sub(r"--[^\n]*", "", s)
            for m in FORBIDDEN.finditer(s):
                hits.append("%s:%d:%s" % (os.path.relpath(p, LEAN), s.count("\n", 0, m.start()) + 1, m.group(0).strip()))
    return hits

def audit(pid):
    """returns (obligations, discharged, details, checker_cmd)"""
    thms = property_theorems(pid)
    os.makedirs(os.path.join(LEAN, "Audit"), exist_ok=True)
    apath = os.path.join(LEAN, "Audit", pid + ".lean")
    with open(apath, "w") as f:
        for mod in property_modules(pid):
            f.write("import Qco.Properties.%s\n" % mod)
        for imp in extra_audit(pid)[0]:
            f.write("import %s\n" % imp)
        for t in thms:
            f.write("#print axioms %s\n" % t)
    rc, out = sh(["lake", "env", "lean", os.path.join("Audit", pid + ".lean")], cwd=LEAN, timeout=1200)
    details = {}
    for m in re.finditer(r"^'(\S+)' depends on axioms: \[([^\]]*)\]", out, re.S | re.M):
        details[m.group(1)] = sorted(a.strip() for a in m.group(2).replace("\n", " ").split(",") if a.strip())
    for m in re.finditer(r"^'(\S+)' does not depend on any axioms", out, re.M):
        details[m.group(1)] = []
    discharged = [t for t in thms if t in details and set(details[t]) <= ALLOWED_AXIOMS]
    cmd = "cd lean && lake build Qco.Properties.%s && lake env lean Audit/%s.lean" % (pid, pid)
    return thms, discharged, details, cmd, (out if rc != 0 else "")

# ------------------------------------------------------------------------------------------
# evidence / verdict

def sha(s):
    return hashlib.sha256(s.encode()).hexdigest()[:16]

def write_replay(pid, obj):
    os.makedirs(REPLAYS, exist_ok=True)
    body = json.dumps(obj, indent=1, sort_keys=True)
    path = os.path.join(REPLAYS, "%s-%s.json" % (pid, sha(body)))
    with open(path, "w") as f:
        f.write(body + "\n")
    return path

def load_known_findings():
    p = os.path.join(VERIF, "known_findings.json")
    if not os.path.exists(p):
        return []
    return json.load(open(p)).get("entries", [])

def validate_evidence(ev):
    try:
        import jsonschema
        schema = json.load(open("/root/.vp/EVIDENCE.schema.json"))
        jsonschema.validate(ev, schema)
        return None
    except ImportError:
        try:
            p = subprocess.run(["python3-vt", "-c", "import json,sys,jsonschema; jsonschema.validate(json.load(sys.stdin), json.load(open('/root/.vp/EVIDENCE.schema.json')))"],
                               input=json.dumps(ev), text=True, capture_output=True, timeout=60)
            return None if p.returncode == 0 else p.stderr[-500:]
        except Exception:
            return None
    except Exception as e:
        return str(e)[:500]

def write_evidence(pid, ev):
    os.makedirs(EVIDENCE, exist_ok=True)
    err = validate_evidence(ev)
    if err:
        log("EVIDENCE-SCHEMA-ERROR: " + err)
    with open(os.path.join(EVIDENCE, pid + ".json"), "w") as f:
        json.dump(ev, f, indent=1, sort_keys=True)
        f.write("\n")
