"""Per-run context: collects cases, disagreements, violations; decides the verdict; writes evidence."""
import json, os
from . import common as C

TRUSTED_BASE = [
    "Lean 4.33.0 kernel (lake build); thorough tier re-checks the property module with leanchecker",
    "axioms per theorem as printed by #print axioms (allowed: propext, Classical.choice, Quot.sound); no sorry/admit/native_decide/bv_decide/user axioms (grep + audit)",
    "tools/extract_constants.py (translator: constant items evaluated by rustc, data-type table / defaults / flag layout asked of the compiled library; its output is compared with the frozen constants by a kernel-checked decide)",
    "the correspondence check: Rust harness on the real library (path dependency on /repo/q_compress, overflow checks + debug assertions on, guarded hooks of /repo compiled in; hooks-off fallback build when they do not compile) vs the compiled Lean model driver; differential testing, bounded by generator quality",
    "literal (statement-level) Lean models proved equal to the abstract models the property theorems speak about, each tied to the Rust text it follows by its own stream: BitWords/BitReader/BitWriter (bwords/bread/bwrite), HuffmanTable, NumDecompressor incl. fast path (numdec, ndbounds), body writer + CompressionTable (bodywrite), chunk metadata / flags I/O, GCD loops, make_huffman_code, Compressor + delta encoding (lcops), train_prefixes (explains on every table, lit=), Decompressor / ChunkBodyDecompressor / validate_prefix_tree (ldops)",
    "modelled rather than verified: std SystemTime/Duration arithmetic; BinaryHeap (any least element) and sort_unstable (the sorted list); f64 log2/ceil/floor (never reasoned about: parameters/oracles gb, EstOk, FloatsAgree, CostFinite, whose hypotheses stream floatfns compares with the code value by value); the 15 NumberLike impls as bit-pattern maps (map stream); auto_delta_encoding_order and the CLI handlers as glue models; Arrow/Parquet/CSV and structopt in the CLI; allocation behaviour",
]

class Ctx:
    def __init__(self, pid, tier, seed):
        self.pid, self.tier, self.seed = pid, tier, seed
        self.rng = C.Rng(seed).fork(pid)
        self.quick = tier != "thorough"
        self.violations = []       # failing inputs shown against the implementation (or model witnesses)
        self.breaks = []           # proof / tie / correspondence breaks
        self.known_printed = []
        self.evaluations = 0
        self.nontrivial = set()
        self.samples = []
        self.dist = {}
        self.disagreements = 0
        self.notes = []
        self.obligations, self.discharged, self.axioms, self.checker_cmd = [], [], {}, ""
        self.model_ok = True
        self.impl_ok = True
        self.explanation = ""
        self.rule = ""
        self.extra = {}
        self.known = [e for e in C.load_known_findings() if e.get("property") == pid]

    # -- bookkeeping ---------------------------------------------------------------------
    def count(self, key, n=1):
        self.dist[key] = self.dist.get(key, 0) + n

    def case(self, line, tags=()):
        """register one explored case; `tags` = the non-trivial branch tags it hit"""
        self.evaluations += 1
        for t in tags:
            self.count("tag:" + t)
        if tags:
            self.nontrivial.add(C.sha(line))
        if len(self.samples) < 6 and (tags or self.evaluations < 3):
            self.samples.append(line if len(line) < 400 else line[:400] + "…")

    # -- outcomes ------------------------------------------------------------------------
    def proof_break(self, what, detail):
        self.breaks.append({"kind": "proof-break", "what": what, "detail": detail})

    def tie_break(self, what, detail):
        self.breaks.append({"kind": "tie-break", "what": what, "detail": detail})

    def disagree(self, stream, request, model, impl, note=""):
        """model and implementation differ on something a property constrains"""
        self.disagreements += 1
        if len([b for b in self.breaks if b["kind"] == "correspondence-break"]) < 5:
            self.breaks.append({"kind": "correspondence-break", "what": stream, "request": clip(request),
                                "model": clip(model), "impl": clip(impl), "note": note})

    def violation(self, what, request, expected, observed, kind="impl-failing-input", klass=None):
        """a concrete failing input shown against the real code.
        `klass`: a decidable class of cases the check itself established for this failure (used only to
        attribute it to a `callsite` entry of known_findings.json)"""
        key = request
        for e in self.known:
            m = e.get("match", {})
            hit = (m.get("kind") in (None, "input", "history") and m.get("request") == key) or \
                  (m.get("kind") == "callsite" and klass is not None and m.get("class") == klass)
            if hit and e.get("status") == "known":
                line = "KNOWN-FINDING: property=%s %s" % (self.pid, e.get("what", what))
                if line not in self.known_printed:
                    self.known_printed.append(line)
                    C.log(line)
                return
        self.violations.append({"property": self.pid, "kind": kind, "what": what, "request": request,
                                "expected": clip(expected, 2000), "observed": clip(observed, 2000), "seed": self.seed,
                                "replay_cmd": "echo '<request>' | %s   (or the model driver %s for model-side requests)" % (C.HARNESS, C.DRIVER)})

    def replay_known(self):
        """corpus first: every recorded finding of this property is replayed explicitly.
        fixed entries must pass (else the defect is back: ordinary violation); known entries that
        still fail print KNOWN-FINDING and are otherwise ignored."""
        import re
        es = [e for e in self.known if e.get("match", {}).get("request") and e["match"].get("ok_regex")]
        if not es:
            return
        ans = C.harness([e["match"]["request"] for e in es], timeout=900, mem_kb=24 * 1024 * 1024)
        for e, a in zip(es, ans):
            self.case(e["match"]["request"], ["corpus"])
            ok = re.search(e["match"]["ok_regex"], a) is not None
            if ok:
                continue
            if e.get("status") == "known":
                line = "KNOWN-FINDING: property=%s %s" % (self.pid, e.get("what", ""))
                if line not in self.known_printed:
                    self.known_printed.append(line)
                    C.log(line)
            else:
                self.violations.append({"property": self.pid, "kind": "impl-failing-input", "what": "a defect recorded as fixed is back: " + e.get("what", ""),
                                        "request": e["match"]["request"], "expected": "answer matching /%s/" % e["match"]["ok_regex"],
                                        "observed": clip(a, 2000), "seed": self.seed})

    # -- verdict -------------------------------------------------------------------------
    def finish(self, wall):
        rc = 0
        printed = 0
        if self.violations:
            rc = 1
            for v in self.violations[:3]:
                v = dict(v)
                v["breaks"] = self.breaks[:3]
                path = C.write_replay(self.pid, v)
                C.log("VIOLATION property=%s replay=%s" % (self.pid, path))
                printed += 1
        elif self.breaks:
            rc = 1
            obj = {"property": self.pid, "kind": self.breaks[0]["kind"], "what": "no concrete failing input was found; "
                   "the named theorem / correspondence stream no longer checks", "breaks": self.breaks[:5], "seed": self.seed}
            path = C.write_replay(self.pid, obj)
            C.log("VIOLATION property=%s replay=%s no-failing-input-found" % (self.pid, path))
        ev = {
            "property_id": self.pid, "tier": "quick" if self.quick else "thorough", "seed": self.seed, "level": "proof",
            "coverage": {
                "obligations": len(self.obligations), "discharged": len(self.discharged),
                "checker_cmd": self.checker_cmd or "cd lean && lake build Qco.Properties.%s" % self.pid,
                "trusted_base": TRUSTED_BASE + ["axioms used: " + json.dumps(self.axioms, sort_keys=True)],
                "evaluations": self.evaluations, "distinct_nontrivial": len(self.nontrivial),
                "rule": self.rule, "samples": self.samples + [{"theorems": self.obligations}],
                "disagreements_checked": self.disagreements,
                "distribution": self.dist, "explanation": self.explanation, "notes": self.notes,
            },
            "assumptions": TRUSTED_BASE,
            "wall_s": round(wall, 2), "violations": len(self.violations) + (1 if (self.breaks and not self.violations) else 0),
        }
        ev["coverage"].update(self.extra)
        C.write_evidence(self.pid, ev)
        C.log("[%s] tier=%s seed=%d theorems=%d/%d cases=%d nontrivial=%d disagreements=%d violations=%d breaks=%d wall=%.1fs" % (
            self.pid, ev["tier"], self.seed, len(self.discharged), len(self.obligations), self.evaluations,
            len(self.nontrivial), self.disagreements, len(self.violations), len(self.breaks), wall))
        return rc

def clip(s, n=600):
    s = str(s)
    return s if len(s) <= n else s[:n] + "…(%d chars)" % len(s)
