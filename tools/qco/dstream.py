"""Decompressor-side streams: files to decode, canonical item sequences, op-history helpers."""
from . import common as C
from . import gen as G
from . import streams as S

def make_files(ctx, count, small=False, kinds=None):
    """valid files from the real compressor (all dtypes; sparse, dense, delta, multi-chunk, GCD) plus the shipped
    legacy assets; each: dict(dt, hex, chunks=[vals...], desc)"""
    rng = ctx.rng
    cases = []
    for i in range(count):
        dt = S.ALL_DT[i % len(S.ALL_DT)] if i < len(S.ALL_DT) else rng.choice(S.ALL_DT)
        kind = rng.choice(kinds or ["uniform", "sparse", "sparse", "cluster", "lattice", "smooth", "dups", "small", "const", "extremes", "width"])
        if small:
            n = rng.choice([1, 2, 3, 7, 20, 60])
        else:
            n = rng.choice([1, 5, 40, 150, 400, 1100, 1500]) if kind != "sparse" else rng.choice([50, 400, 1100, 1500, 3000])
        c = S.enc_case(rng, dt=dt, n=None if False else n, kind=kind, nchunks=rng.choice([1, 1, 2, 3]), level=rng.choice([0, 2, 6, 8, 12]))
        cases.append(c)
    # run-length prefixes whose range holds several values (k > 0): only low effective levels with a dominant
    # multi-value cluster produce them; a run can then be interrupted in the middle of its offsets
    if not small:
        for _ in range(max(2, count // 8)):
            dt = rng.choice([d for d in S.ALL_DT if C.DTYPES[d][2] != "bool"])
            n = rng.choice([1200, 2000, 4000])
            base = rng.choice([100, 5000, 70000])
            width = rng.choice([2, 4, 7])
            frac = rng.choice([82, 85, 90, 95])
            xs = []
            lowshare = rng.choice([5, 10, 15])
            for _i in range(n):
                r = rng.below(100)
                if r < lowshare:
                    xs.append(G.from_signed_val(dt, base))
                elif r < frac:
                    xs.append(G.from_signed_val(dt, base + width - 1))
                else:
                    xs.append(G.from_signed_val(dt, base + 100000 + rng.below(1 << 17)))
            cases.append({"dt": dt, "level": rng.choice([3, 3, 4]), "order": 0, "gcds": rng.below(2), "chunks": [xs], "kinds": ["wide-run"], "drain": 0})
    # sibling chunks: consecutive chunks whose prefix tables agree in codes, bounds and jumpstarts but not in divisors
    # (same [min, max] on different lattices, evenly spread so that low levels give one or two ranges), next to an exact
    # repetition of a chunk: anything a decoder keeps from the previous chunk's table shows here
    for _ in range(max(3, count // 10)):
        dt = rng.choice([d for d in S.ALL_DT if C.DTYPES[d][2] != "bool"])
        base = rng.choice([0, 7, 1000, 123456])
        steps = rng.choice([(2, 1), (1, 2), (3, 1), (6, 4), (10, 5), (1, 7)])
        m = rng.choice([2, 6, 12, 60])
        span = steps[0] * steps[1] * m
        def lattice(g, extra=0):
            k = span // g
            idx = list(range(k + 1))
            if extra:
                idx = idx + [rng.below(k + 1) for _ in range(extra)]
                for i in range(len(idx) - 1, 0, -1):
                    j = rng.below(i + 1)
                    idx[i], idx[j] = idx[j], idx[i]
            return [G.from_signed_val(dt, base + g * i) for i in idx]
        a, b = lattice(steps[0], rng.choice([0, 3])), lattice(steps[1], rng.choice([0, 3]))
        chunks = rng.choice([[a, b], [a, b, a], [b, a, b], [a, a, b], [a, lattice(steps[0] * steps[1]), b]])
        cases.append({"dt": dt, "level": rng.choice([0, 0, 1, 2]), "order": 0, "gcds": 1, "chunks": chunks, "kinds": ["sibling"], "drain": 0})
    # constant d-th differences at delta order d: every coded delta is the same value, the body is empty (zero bits per
    # number) although n - d numbers are pending; evenly spaced, quadratic, cubic sequences, also above 1001 numbers
    for _ in range(max(3, count // 10)):
        dt = rng.choice([d for d in S.ALL_DT if C.DTYPES[d][2] not in ("bool",)])
        d = rng.choice([1, 1, 2, 3])
        n = rng.choice([3, 7, 40, 150]) if small else rng.choice([3, 40, 150, 400, 1100, 2500])
        a = [rng.range(-50, 50) for _ in range(d + 1)]
        if a[d] == 0:
            a[d] = rng.choice([1, 3, -2])
        base = rng.choice([0, 1000, 1 << 20])
        xs = [G.from_signed_val(dt, base + sum(a[k] * (i ** k) for k in range(d + 1))) for i in range(n)]
        chunks = [xs] if rng.chance(1, 2) else [xs, xs[: max(1, n // 2)]]
        cases.append({"dt": dt, "level": rng.choice([0, 4, 8]), "order": d, "gcds": rng.below(2), "chunks": chunks, "kinds": ["const-delta"], "drain": 0})
    ans = C.harness([S.compress_line(c) for c in cases], timeout=600)
    files = []
    for c, a in zip(cases, ans):
        if a.startswith("ok bytes="):
            files.append({"dt": c["dt"], "hex": a.split(" ")[1][len("bytes="):], "chunks": c["chunks"], "order": c["order"],
                          "desc": "%s/%s/l%d/o%d/g%d" % (c["dt"], "+".join(c["kinds"]), c["level"], c["order"], c["gcds"])})
    for (name, dt, hx, vals) in S.assets():
        files.append({"dt": dt, "hex": hx, "chunks": None, "flat": vals, "order": None, "desc": "asset:" + name})
    return files

def split_tokens(ans):
    """'a@1 ; b@2' -> [('a', 1), ('b', 2)]"""
    out = []
    for t in ans.split(" ; "):
        body, _, idx = t.rpartition("@")
        try:
            out.append((body, int(idx)))
        except ValueError:
            out.append((t, -1))
    return out

def drained_items(body):
    """'drained x , y' -> ['x', 'y']"""
    if body == "drained":
        return []
    assert body.startswith("drained "), body
    return body[len("drained "):].split(" , ")

def canon(items):
    """canonical item sequence: consecutive `nums` batches of a chunk concatenated"""
    out = []
    for it in items:
        if it.startswith("nums ") and out and out[-1].startswith("nums "):
            out[-1] = out[-1] + "," + it[5:]
        else:
            out.append(it)
    return out

def nums_of(item):
    return G.parse_hexlist(item[5:]) if item.startswith("nums ") else None

def expected_items_from_whole(ctx_file, whole_items):
    return canon(whole_items)

def canon_tok(dt, body):
    """canonicalise one answer token for model/implementation comparison"""
    if body.startswith("dbg "):
        return "dbg"
    if C.DTYPES[dt][2] == "ts96" and "err " in body:
        # Timestamp96::from_bytes reports an out-of-range raw value as InvalidArgument; the model's parser has one
        # kind for rejected bytes. For the two 96-bit types Corruption and InvalidArgument are therefore identified.
        return body.replace("err InvalidArgument", "err Corruption|InvalidArgument").replace("err Corruption", "err Corruption|InvalidArgument").replace("|InvalidArgument|InvalidArgument", "|InvalidArgument")
    return body

def compare_dops(ctx, lines, impl_answers, stream="dops", sample=None, timeout=2400):
    """run the same op histories on the Lean operational model and compare token by token"""
    if not ctx.model_ok:
        return 0
    idx = list(range(len(lines))) if sample is None else sample
    mans = C.driver([lines[i] for i in idx], timeout=timeout)
    nd = 0
    for i, m in zip(idx, mans):
        dt = lines[i].split(" ")[1]
        a = impl_answers[i]
        ta = [(canon_tok(dt, b), k) for b, k in split_tokens(a)]
        tm = [(canon_tok(dt, b), k) for b, k in split_tokens(m)]
        if m in ("timeout", "died"):
            ctx.count("model-skipped(" + m + ")")
            continue
        ctx.count("model-compared")
        if ta != tm:
            j = next((j for j in range(min(len(ta), len(tm))) if ta[j] != tm[j]), min(len(ta), len(tm)))
            ctx.disagree(stream, lines[i], "op %d: %s" % (j, str(tm[j:j + 1])[:400]), "op %d: %s" % (j, str(ta[j:j + 1])[:400]))
            nd += 1
    nd += compare_ldops(ctx, lines, impl_answers, idx, stream, timeout)
    return nd

LIT_MAX_LINE = 60000      # the literal model walks 64-bit word lists; very long histories are left to the abstract model

def compare_ldops(ctx, lines, impl_answers, idx, stream, timeout):
    """layer DL: the same op histories on the LITERAL Decompressor model (Qco.DecompLit: BitWords/BitReader words,
    literal metadata parser, literal NumDecompressor, literal ChunkBodyDecompressor/Decompressor glue — proved to refine
    the abstract operational model in C08d), compared token by token with the real Decompressor"""
    pick = [i for i in idx if lines[i].startswith("dops ") and len(lines[i]) <= LIT_MAX_LINE]
    if len(pick) > 1500:
        step = len(pick) / 1500.0
        pick = [pick[int(k * step)] for k in range(1500)]
    if not pick:
        return 0
    lans = C.driver(["l" + lines[i] for i in pick], timeout=timeout)
    nd = 0
    for i, m in zip(pick, lans):
        if m in ("timeout", "died") or m.startswith("bad-"):
            ctx.count("literal-model-skipped(" + m[:8] + ")")
            continue
        dt = lines[i].split(" ")[1]
        ta = [(canon_tok(dt, b), k) for b, k in split_tokens(impl_answers[i])]
        tm = [(canon_tok(dt, b), k) for b, k in split_tokens(m)]
        ctx.count("literal-model-compared")
        if ta != tm:
            j = next((j for j in range(min(len(ta), len(tm))) if ta[j] != tm[j]), min(len(ta), len(tm)))
            ctx.disagree("l" + stream, lines[i], "op %d: %s" % (j, str(tm[j:j + 1])[:400]), "op %d: %s" % (j, str(ta[j:j + 1])[:400]),
                         "literal Decompressor model (layer DL) differs from the real Decompressor")
            nd += 1
    return nd
