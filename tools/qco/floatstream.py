"""Stream `floatfns`: the places where the library computes with f64 what the model computes with integers.

  kinfo      Prefix::k_info (k, only_k_bits_lower, only_k_bits_upper)   vs  Prefix.info  (k = floor(log2(range/gcd + 1)))
  gcdbits    gcd_bits_required                                         vs  the driver's gb (hardware floats; theorems take gb
             as a parameter) — where it departs from the integer ceil(log2 range) is counted, not judged
  countbits  Flags::bits_to_encode_count                               vs  clog2 (n + 1) / 24
  jumpstart  choose_run_len_jumpstart (jumpstart; weight)              vs  Train.jumpstart; weight within 1 of ceil(c(n-c)/n)
  runlen     the run-length arm of push_pref, observed through the public API (a chunk of `count` zeros and n - count
             far-apart values at level 12: does the zeros' range carry a jumpstart)   vs  Train.usesRunLen (+ jumpstart)
  maxn       choose_max_n_prefixes                                     vs  Train.chooseMaxNPrefixes

through the guarded hook `q_compress::verif::float_fns_script`. Arguments are boundary-dense: every power of two +-{0,1,2}
of every width, the f64 rounding zone (>= 2^49) with neighbours at the rounding granularity, the 0.8 / 1001 thresholds,
exhaustive small domains. A difference is a broken tie: the integer function a theorem speaks about is not what the code
computes there."""
from . import common as C

UBS = [16, 32, 64, 128]

def _around(rng, ub):
    top = (1 << ub) - 1
    xs = set([0, 1, 2, 3, top, top - 1, top - 2])
    for j in range(1, ub + 1):
        p = 1 << j
        for d in (-2, -1, 0, 1, 2):
            xs.add(p + d)
        if j >= 49:
            g = 1 << (j - 52) if j > 52 else 1      # f64 spacing just below 2^j is 2^(j-53)
            for d in (g, 2 * g, g // 2, 3 * g, g + 1):
                xs.add(p - d); xs.add(p + d)
            xs.add(p - (1 << (j - 49)))
    for _ in range(40):
        xs.add(rng.below(1 << rng.range(1, ub)))
    return sorted(x for x in xs if 0 <= x <= top)

def kinfo_lines(rng, quick):
    out = []
    for ub in UBS:
        top = (1 << ub) - 1
        diffs = _around(rng, ub)
        if quick:
            diffs = [d for i, d in enumerate(diffs) if i % 2 == 0 or d > (1 << 48)]
        for diff in diffs:
            for gcd in (1, 3, 1 << 5, rng.range(1, 1 << rng.range(1, ub))):
                if diff * gcd > top:
                    continue
                span = diff * gcd + (rng.below(gcd) if gcd > 1 and rng.chance(1, 3) and diff * gcd + gcd <= top else 0)
                lower = rng.below(top - span + 1) if rng.chance(1, 2) else 0
                out.append(("kinfo", "floatfns kinfo %d %x %x %x" % (ub, lower, lower + span, gcd)))
                if gcd != 1 and quick:
                    break
    return out

def gcdbits_lines(rng, quick):
    out = []
    for ub in UBS:
        for r in _around(rng, ub):
            out.append(("gcdbits", "floatfns gcdbits %d %x" % (ub, r)))
    return out

def countbits_lines(rng, quick):
    ns = set(range(0, 70))
    for e in range(1, 25):
        for d in (-2, -1, 0, 1):
            ns.add((1 << e) + d)
    for _ in range(60):
        ns.add(rng.below(1 << 24))
    return [("countbits", "floatfns countbits %d %d" % (n, u)) for n in sorted(x for x in ns if 0 <= x <= (1 << 24) - 1) for u in (0, 1)]

def sizing_lines(rng, quick):
    out = []
    # choose_max_n_prefixes: every level, n at the powers of two and exhaustively small
    ns = set(range(1, 300 if quick else 5000))
    for e in range(1, 25):
        for d in (-1, 0, 1):
            ns.add((1 << e) + d)
    ns = sorted(n for n in ns if 1 <= n <= (1 << 24) - 1)
    for level in range(0, 13):
        for n in ns:
            if quick and n > 300 and level not in (0, 1, 6, 8, 12):
                continue
            out.append(("maxn", "floatfns maxn %d %d" % (level, n)))
    # run-length arm and jumpstart: the 1001 / 0.8 thresholds, exact fifths, powers of two of the non-frequency
    nn = [999, 1000, 1001, 1002, 1005, 1024, 1250, 2000, 2048, 3000, 4096, 5000, 10000, 65536, 100000, 1 << 20]
    if not quick:
        nn += list(range(1001, 1100)) + [12345, 99999, (1 << 22) + 3]
    big = [(1 << 24) - 1]
    for n in nn + big:
        cs = set([1, n // 2, n - 2, n - 1, n])
        t = (4 * n + 4) // 5
        for d in range(-3, 4):
            cs.add(t + d)
        for j in range(1, 25):
            if n >> j:
                cs.add(n - (n >> j)); cs.add(n - (n >> j) - 1); cs.add(n - (n >> j) + 1)
        for _ in range(6 if quick else 40):
            cs.add(rng.range(t, n))
        for c in sorted(x for x in cs if 1 <= x <= n):
            if n <= 100000:     # observed through the public API (a real chunk of n numbers is compressed)
                out.append(("runlen", "floatfns runlen %d %d" % (c, n)))
            if 5 * c >= 4 * n and c < n:
                out.append(("jumpstart", "floatfns jumpstart %d %d" % (c, n)))
    return out

def run(ctx, kinds):
    """kinds: subset of {kinfo, gcdbits, countbits, sizing}"""
    rng = ctx.rng.fork("floatfns")
    items = []
    if "kinfo" in kinds:
        items += kinfo_lines(rng, ctx.quick)
    if "gcdbits" in kinds:
        items += gcdbits_lines(rng, ctx.quick)
    if "countbits" in kinds:
        items += countbits_lines(rng, ctx.quick)
    if "sizing" in kinds:
        items += sizing_lines(rng, ctx.quick)
    lines = [l for _, l in items]
    imp = C.harness(lines, timeout=900)
    mod = C.driver(lines, timeout=900)
    for (kind, line), a, m in zip(items, imp, mod):
        ctx.case(line, ["floatfns"])
        ctx.count("floatfns:" + kind)
        if a in ("no-hooks", "bad-op") or a.startswith("bad"):
            ctx.tie_break("hooks", "the harness was built without the float_fns_script hook (%s)" % a)
            return
        if m in ("timeout", "died") or a in ("timeout", "died"):
            continue
        if a.startswith("panic"):
            ctx.disagree("floatfns", line, m, a, "the library's helper panics where the integer model answers")
            continue
        if kind == "gcdbits":
            gb, ig = m.split(" ")
            if a != gb:
                ctx.disagree("floatfns", line, m, a, "gcd_bits_required differs from the driver's field-width function gb")
            if a != ig:
                ctx.count("gcdbits-float-differs-from-integer-clog2")
        elif kind == "jumpstart":
            ja, wa = a.split(" ")
            jm, wm = m.split(" ")
            if ja != jm:
                ctx.disagree("floatfns", line, m, a, "choose_run_len_jumpstart's jumpstart differs from the integer model")
            if abs(int(wa) - int(wm)) > 1:
                ctx.disagree("floatfns", line, m, a, "run-length weight is not within 1 of ceil(count*(n-count)/n)")
            ctx.count("jumpstart-weight-exact" if wa == wm else "jumpstart-weight-off-by-one")
        else:
            if a != m:
                ctx.disagree("floatfns", line, m, a, "the library's f64 computation differs from the integer function of the model")
