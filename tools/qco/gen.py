"""Generators: boundary-dense numeric patterns and structured sequences, all from one PRNG."""
from .common import DTYPES, Rng

def mask(w):
    return (1 << w) - 1

def valid_pattern(dt, x):
    """clamp a W-bit pattern to a valid value of the type"""
    P, W, kind, pps = DTYPES[dt]
    if kind == "bool":
        return x & 1
    if kind == "ts96":
        # parts in [MIN, MAX]
        lo, hi = -pps * 2**63, pps * 2**63 - 1
        parts = x if x < 2**127 else x - 2**128
        span = hi - lo + 1
        parts = lo + (parts - lo) % span
        return parts % 2**128
    return x & mask(W)

def boundary_patterns(dt):
    """type extremes, sign boundaries, +-0.0, inf, NaN payloads, subnormals, powers of two +-2"""
    P, W, kind, pps = DTYPES[dt]
    out = set()
    if kind == "bool":
        return [0, 1]
    if kind == "ts96":
        lo, hi = -pps * 2**63, pps * 2**63 - 1
        for v in [lo, lo + 1, hi, hi - 1, 0, 1, -1, pps, -pps, pps - 1, -pps + 1, 10**18, -10**18]:
            out.add(v % 2**128)
        for j in range(0, 93):
            for dlt in (-2, -1, 0, 1, 2):
                for sg in (1, -1):
                    v = sg * (2**j + dlt)
                    if lo <= v <= hi:
                        out.add(v % 2**128)
        return sorted(out)
    M = 1 << W
    for j in range(0, W + 1):
        for dlt in (-2, -1, 0, 1, 2):
            out.add((2**j + dlt) % M)
            out.add((-(2**j) + dlt) % M)
    if kind == "float":
        e = 8 if W == 32 else 11
        m = W - 1 - e
        inf = ((1 << e) - 1) << m
        for s in (0, 1 << (W - 1)):
            for v in [0, 1, 2, (1 << m) - 1, 1 << m, (1 << m) + 1, inf - 1, inf, inf + 1, inf | (1 << (m - 1)),
                      inf | ((1 << m) - 1), inf | 1, ((1 << (e - 1)) - 1) << m]:
                out.add(s | v)
    return sorted(out)

def key(dt, x):
    """natural order of the type, computed independently of the model (for the monotonicity oracle)"""
    P, W, kind, pps = DTYPES[dt]
    if kind in ("uint", "bool"):
        return x
    if kind in ("int", "ts96"):
        return x if x < (1 << (W - 1)) else x - (1 << W)
    if kind == "float":
        H = 1 << (W - 1)
        return x if x < H else -(x - H) - 1

def random_pattern(rng, dt):
    P, W, kind, pps = DTYPES[dt]
    return valid_pattern(dt, rng.bits(W))

# ------------------------------------------------------------------------------------------
# sequences (lists of value patterns)

def from_signed_val(dt, v):
    """pattern of the value whose natural-order integer is v (ints/timestamps), or nearest valid"""
    P, W, kind, pps = DTYPES[dt]
    if kind == "bool":
        return v & 1
    if kind == "float":
        # spread over floats by order: inverse of key
        H = 1 << (W - 1)
        v = max(-(H), min(H - 1, v))
        return v if v >= 0 else (-(v + 1)) + H
    if kind == "uint":
        return v % (1 << W)
    return valid_pattern(dt, v % (1 << W))

def seq_kinds():
    return ["uniform", "small", "cluster", "lattice", "sparse", "smooth", "extremes", "width", "const", "dups", "poly"]

def gen_seq(rng, dt, n, kind=None):
    """a structured sequence of n valid patterns; returns (patterns, kind)"""
    P, W, K, pps = DTYPES[dt]
    kind = kind or rng.choice(seq_kinds())
    xs = []
    if K == "bool":
        if kind in ("sparse", "const", "smooth"):
            dom = rng.below(2)
            p = rng.choice([1, 5, 50, 200])
            xs = [dom ^ (1 if rng.below(1000) < p else 0) for _ in range(n)]
            if kind == "const":
                xs = [dom] * n
        else:
            xs = [rng.below(2) for _ in range(n)]
        return xs, kind
    if kind == "uniform":
        xs = [random_pattern(rng, dt) for _ in range(n)]
    elif kind == "small":
        r = rng.choice([1, 2, 3, 10, 100, 1000, 70000])
        base = rng.choice([0, -r // 2, 12345])
        xs = [from_signed_val(dt, base + rng.below(r)) for _ in range(n)]
    elif kind == "cluster":
        k = rng.range(1, 12)
        centers = [key(dt, random_pattern(rng, dt)) for _ in range(k)]
        widths = [rng.choice([1, 2, 5, 16, 17, 1000, 2**20 + 1]) for _ in range(k)]
        for _ in range(n):
            i = rng.below(k)
            xs.append(from_signed_val(dt, centers[i] + rng.below(widths[i])))
    elif kind == "lattice":
        g = rng.choice([2, 3, 7, 10, 100, 1000, 2**10, 2**20 + 1, 12345])
        a = rng.choice([0, 5, -77, 10**6])
        m = rng.choice([2, 3, 17, 1000, 100000])
        xs = [from_signed_val(dt, a + g * rng.below(m)) for _ in range(n)]
        if rng.chance(1, 3):
            # a second lattice far away with another divisor
            g2 = rng.choice([4, 9, 50, 2**12])
            b = a + g * m + rng.choice([10**5, 2**30])
            for i in range(n):
                if rng.chance(1, 2):
                    xs[i] = from_signed_val(dt, b + g2 * rng.below(m))
    elif kind == "sparse":
        dom = from_signed_val(dt, rng.choice([0, 1, -1, 42]))
        p = rng.choice([1, 3, 10, 50, 100, 150])   # per mille of other values
        oth = rng.choice([1, 2, 3, 1000])
        xs = [dom if rng.below(1000) >= p else from_signed_val(dt, rng.choice([7, 8, 9, -5]) + rng.below(oth) * 3) for _ in range(n)]
    elif kind == "smooth":
        v = key(dt, random_pattern(rng, dt)) // 4
        step = rng.choice([0, 1, 3, 1000, -7])
        for i in range(n):
            xs.append(from_signed_val(dt, v))
            v += step + (rng.below(3) - 1 if rng.chance(1, 2) else 0)
    elif kind == "extremes":
        b = boundary_patterns(dt)
        xs = [valid_pattern(dt, rng.choice(b)) for _ in range(n)]
    elif kind == "width":
        # a range whose width sits next to a power of two
        j = rng.range(0, W)
        wd = max(0, (1 << j) + rng.choice([-2, -1, 0, 1]))
        lo_k = rng.choice([0, -(1 << (W - 1)) if K != "uint" else 0, 1000])
        if K == "uint":
            lo_k = rng.choice([0, 1000])
        cand = [lo_k, lo_k + wd] + [lo_k + rng.below(wd + 1) for _ in range(max(0, n - 2))]
        xs = [from_signed_val(dt, c) for c in cand[:n]]
    elif kind == "const":
        v = random_pattern(rng, dt)
        xs = [v] * n
    elif kind == "dups":
        k = rng.range(1, 6)
        vals = [random_pattern(rng, dt) for _ in range(k)]
        xs = [rng.choice(vals) for _ in range(n)]
    elif kind == "poly":
        deg = rng.range(0, 3)
        co = [rng.range(-5, 5) for _ in range(deg + 1)]
        a0 = rng.choice([0, 1000, -1000])
        xs = [from_signed_val(dt, a0 + sum(c * i**e for e, c in enumerate(co))) for i in range(n)]
    return [valid_pattern(dt, x) for x in xs], kind

def hexlist(xs):
    return ",".join("%x" % x for x in xs) if xs else "-"

def parse_hexlist(s):
    if s in ("", "-"):
        return []
    return [int(t, 16) for t in s.split(",")]
