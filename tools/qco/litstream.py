"""Literal-model streams (layers W and N): the statement-level Lean models of the chunk body writer
(`trained_compress_chunk_nums`, Qco/Op/BodyWriter.lean) and of `NumDecompressor` (`decompress_unsigneds_limited_dirty`
with its unchecked fast path, Qco/Op/NumDec.lean) against the real code through the guarded hooks
`q_compress::verif::body_writer_script` / `num_decompressor_script`. Everything is compared string for string."""
from . import common as C

UBS = [16, 32, 64, 128]

def random_codes(rng, m, max_depth=14):
    """a complete prefix-free tree with m leaves (random shape)"""
    leaves = [""]
    while len(leaves) < m:
        cand = [i for i, c in enumerate(leaves) if len(c) < max_depth]
        if not cand:
            break
        # bias: sometimes always split the deepest leaf (long codes cross the 6-bit stride of the lookup table)
        i = cand[rng.below(len(cand))] if rng.chance(2, 3) else max(cand, key=lambda j: len(leaves[j]))
        c = leaves.pop(i)
        leaves += [c + "0", c + "1"]
    for i in range(len(leaves) - 1, 0, -1):
        j = rng.below(i + 1)
        leaves[i], leaves[j] = leaves[j], leaves[i]
    return leaves

def random_table(rng, ub, m=None):
    """m disjoint ranges inside [0, 2^ub) with divisors, at most one run-length prefix, a complete code tree"""
    top = 1 << ub
    if m is None and rng.chance(1, 5):
        # dyadic tilings: full-width range (k = U::BITS), halves, and ranges of 2^k, 2^k + 1, 2^k - 1 offsets
        # (the boundaries of the "extra most significant bit" rule)
        shape = rng.below(4)
        if shape == 0:
            return [[rng.range(1, 400), 0, top - 1, "", None, 1]]
        if shape == 1:
            h = top >> 1
            cs = random_codes(rng, 2)
            return [[rng.range(1, 400), 0, h - 1, cs[0], None, 1], [rng.range(1, 400), h, top - 1, cs[1], None, 1]]
        k = rng.below(ub)
        size = max(1, (1 << k) + rng.choice([-1, 0, 1]))
        lo = rng.below(top - size + 1)
        cs = random_codes(rng, 3)
        out = []
        if lo > 0:
            out.append([rng.range(1, 400), 0, lo - 1, None, None, 1])
        out.append([rng.range(1, 400), lo, lo + size - 1, None, None, 1])
        if lo + size < top:
            out.append([rng.range(1, 400), lo + size, top - 1, None, None, 1])
        cs = random_codes(rng, len(out))
        for p, c in zip(out, cs):
            p[3] = c
        return out
    m = m or rng.choice([1, 2, 2, 3, 4, 5, 8, 12, 20, 70])
    codes = random_codes(rng, m)
    m = len(codes)
    top = 1 << ub
    style = rng.below(4)
    pts = set()
    while len(pts) < 2 * m:
        if style == 0:
            pts.add(rng.below(top))
        elif style == 1:
            pts.add(rng.below(min(top, 1 << 12)))
        elif style == 2:
            pts.add(min(top - 1, (1 << rng.below(ub)) + rng.below(1 << rng.below(ub))))
        else:
            pts.add(top - 1 - rng.below(min(top, 1 << 14)))
        if len(pts) < 2 * m and top <= 4 * m:
            break
    pts = sorted(pts)
    ps = []
    jump_at = rng.below(m) if rng.chance(1, 2) else None
    for i in range(m):
        if 2 * i + 1 >= len(pts):
            break
        lo, hi = pts[2 * i], pts[2 * i + 1]
        if rng.chance(1, 4):
            hi = lo
        if i == 0 and rng.chance(1, 8):
            lo = 0
        if i == m - 1 and rng.chance(1, 8):
            hi = top - 1
        g = 1
        if hi > lo and rng.chance(1, 3):
            g = rng.choice([2, 3, 5, 10, 16, 1000, rng.range(2, 40)])
            hi = lo + g * ((hi - lo) // g)
            if hi == lo:
                g = 1
        jump = None
        if jump_at == i:
            jump = rng.choice([0, 1, 2, 3, 5, 8, 13, 24])
            if rng.chance(2, 3):
                hi, g = lo, 1
        ps.append([rng.range(1, 400), lo, hi, codes[i], jump, g])
    # the codes must still be a complete tree: if ranges ran out, fall back to one prefix
    if len(ps) != len(codes):
        ps = [[rng.range(1, 400), pts[0], pts[-1], "", None, 1]]
    return ps

def ptok(p):
    return "%d:%x:%x:%s:%s:%x" % (p[0], p[1], p[2], p[3], "-" if p[4] is None else str(p[4]), p[5])

def draw_us(rng, ps, n, ub):
    us = []
    while len(us) < n:
        p = ps[rng.below(len(ps))]
        r = (p[2] - p[1]) // p[5]
        pick = rng.choice([0, r, rng.below(r + 1), rng.below(r + 1), min(r, (1 << max(0, r.bit_length() - 1)) - 1 + rng.below(3))])
        v = p[1] + p[5] * pick
        reps = 1
        if p[4] is not None:
            reps = rng.choice([1, 1, 2, 5, 40, 1 << p[4], (1 << p[4]) + 1, 300])
        for _ in range(reps):
            us.append(v if (p[2] == p[1] or rng.chance(2, 3)) else p[1] + p[5] * rng.below(r + 1))
    return us[:n]

def bits_to_hex(bits):
    return "".join("%02x" % int(bits[i:i + 8], 2) for i in range(0, len(bits), 8)) if bits else ""

def run_bodywrite(ctx, ncases):
    """layer W: literal writer vs real writer; returns the (ub, ps, us, bits) of the successful cases"""
    rng = ctx.rng
    lines, cases = [], []
    for _ in range(ncases):
        ub = rng.choice(UBS)
        ps = random_table(rng, ub)
        n = rng.choice([0, 1, 2, 7, 40, 200, 700])
        us = draw_us(rng, ps, n, ub)
        kind = "covered"
        if us and rng.chance(1, 12):
            # a number outside every range (when there is room): InvalidArgument, the writer's only error
            holes = [v for v in (ps[0][1] - 1, ps[-1][2] + 1, ps[0][2] + 1) if 0 <= v < (1 << ub) and not any(p[1] <= v <= p[2] for p in ps)]
            if holes:
                us[rng.below(len(us))] = holes[0]
                kind = "uncovered"
        if ps and rng.chance(1, 10) and any(p[5] > 1 for p in ps):
            # a number inside a range but off its lattice (the writer divides and truncates)
            p = [q for q in ps if q[5] > 1][0]
            us.append(p[1] + 1)
            kind = "off-lattice"
        lines.append("bodywrite %d %s %s" % (ub, ",".join("%x" % u for u in us) if us else "-", " ".join(ptok(p) for p in ps)))
        cases.append((ub, ps, us, kind))
    # the boundaries of the "extra most significant bit" rule with many numbers at the ends of the range: a range of
    # exactly 2^k, 2^k + 1 or 2^k - 1 offsets (k_range = 2^k - 1, 2^k, 2^k - 2), alone or next to a second range, 64+
    # numbers mostly at the two extremes (k + 1 bits each). The worst-case bit bounds that gate the unchecked fast path
    # (max_bits_read / max_bits_overshot) are tight on exactly these, and the numdec sessions below truncate them.
    for _ in range(max(12, ncases // 8)):
        ub = rng.choice(UBS)
        k = rng.choice([1, 2, 3, 5, 8, 13, ub - 2, ub - 1])
        kr = (1 << k) + rng.choice([-2, -1, 0, 0, 0, 1])
        g = rng.choice([1, 1, 3]) if (kr * 3 + 8) < (1 << ub) else 1
        lo = rng.below((1 << ub) - kr * g - 4) if rng.chance(1, 2) else 0
        ps = [[rng.range(1, 400), lo, lo + kr * g, "", None, g]]
        if rng.chance(1, 3) and lo + kr * g + 3 < (1 << ub):
            ps = [[ps[0][0], lo, lo + kr * g, "0", None, g], [5, lo + kr * g + 2, lo + kr * g + 2, "1", None, 1]]
        n = rng.choice([40, 64, 100, 300])
        us = []
        for _i in range(n):
            p = ps[0] if rng.chance(9, 10) else ps[-1]
            r = (p[2] - p[1]) // p[5]
            us.append(p[1] + p[5] * rng.choice([0, r, 0, r, rng.below(r + 1)]))
        lines.append("bodywrite %d %s %s" % (ub, ",".join("%x" % u for u in us), " ".join(ptok(p) for p in ps)))
        cases.append((ub, ps, us, "msb-edge"))
    imp = C.harness(lines, timeout=600)
    mod = C.driver(lines, timeout=600)
    good = []
    for line, (ub, ps, us, kind), a, m in zip(lines, cases, imp, mod):
        tags = ["multi"] if len(ps) > 1 else []
        if any(p[4] is not None for p in ps):
            tags.append("runlen")
        ctx.case(line[:300], tags)
        ctx.count("bodywrite:" + kind); ctx.count("bodywrite-ub:%d" % ub)
        if a == "no-hooks":
            ctx.tie_break("hooks", "the harness was built without the verification hooks")
            return good
        if m in ("timeout", "died") or a in ("timeout", "died"):
            continue
        ca = "panic" if a.startswith("panic") else a
        if ca != m:
            ctx.disagree("bodywrite", line[:2000], m[:300], a[:300], "literal body writer (layer W) differs from trained_compress_chunk_nums")
        elif a.startswith("ok "):
            good.append((ub, ps, us, a[3:]))
    return good

def run_ndbounds(ctx, count):
    """`NumDecompressor::new`: the worst-case bit bounds per number block (max_bits_read / max_bits_overshot maximised
    over the table) that decide when the unchecked path may run, and the GCD switch, value by value against the literal
    model's `newDec` (whose `fast_guard_sound` is the theorem that these bounds are enough), on random and hostile tables:
    counts of 0..2 or huge, ranges of exactly 2^k / 2^k +- 1 offsets, jumpstarts 0..24 on wide ranges, divisors."""
    rng = ctx.rng
    lines = []
    for _ in range(count):
        ub = rng.choice(UBS)
        ps = random_table(rng, ub)
        for p in ps:
            if rng.chance(1, 3):
                p[0] = rng.choice([0, 1, 2, (1 << 24) - 1, rng.below(1 << 24)])
            if p[4] is None and rng.chance(1, 6):
                p[4] = rng.choice([0, 1, 7, 24])
            if rng.chance(1, 5) and p[2] > p[1]:
                k = rng.below(ub)
                size = (1 << k) + rng.choice([-1, 0, 1])
                if size >= 1 and p[1] + size * p[5] < (1 << ub) and (p is ps[-1] or p[1] + size * p[5] < ps[ps.index(p) + 1][1]):
                    p[2] = p[1] + size * p[5]
        lines.append("ndbounds %d %d %s" % (ub, rng.choice([0, 1, 30, 5000, (1 << 24) - 1]), " ".join(ptok(p) for p in ps)))
    imp = C.harness(lines, timeout=300)
    mod = C.driver(lines, timeout=300)
    for line, a, m in zip(lines, imp, mod):
        ctx.case(line[:300], ["ndbounds"])
        ctx.count("ndbounds:" + a.split(" ")[0].split(":")[0])
        if a == "no-hooks" or a.startswith("bad"):
            ctx.tie_break("hooks", "the harness was built without the num_decompressor_bounds_script hook (%s)" % a)
            return
        if m in ("timeout", "died") or a in ("timeout", "died"):
            continue
        if a != m:
            ctx.disagree("ndbounds", line[:2000], m, a, "NumDecompressor::new's bit bounds differ from the literal model's (the bounds fast_guard_sound is about)")

def numdec_line(ub, n, nproc, inc, limit, eoi, bit_idx, hexbytes, ps):
    return "numdec %d %d %d %s %d %d %d %s %s" % (ub, n, nproc, "-" if inc is None else "%d:%d" % inc, limit, 1 if eoi else 0, bit_idx,
                                               hexbytes or "-", " ".join(ptok(p) for p in ps))

def parse_kv(a):
    out = {"status": a.split(" ")[0]}
    for t in a.split(" ")[1:]:
        if "=" in t:
            k, v = t.split("=", 1)
            out[k] = v
    return out

def run_numdec(ctx, good, nrandom, rounds=5):
    """layer N: literal NumDecompressor (dirty batch, fast path included) vs the real one, chained over several calls"""
    rng = ctx.rng
    sessions = []
    for (ub, ps, us, bits) in good:
        if not us:
            continue
        hx = bits_to_hex(bits)
        edge = len(us) >= 40 and len(ps) <= 2 and all(p[4] is None for p in ps)
        for _ in range(5 if edge else 2):
            data, kind = hx, "valid"
            if rng.chance(2 if edge else 1, 3) and len(hx) > 2:
                data, kind = hx[:2 * rng.below(len(hx) // 2)], "truncated"
            elif rng.chance(1, 6):
                data, kind = hx + "".join("%02x" % rng.below(256) for _ in range(rng.range(1, 12))), "trailing"
            sessions.append({"ub": ub, "ps": ps, "n": len(us), "hex": data, "kind": kind})
    for _ in range(nrandom):
        ub = rng.choice(UBS)
        ps = random_table(rng, ub)
        nb = rng.choice([0, 1, 3, 8, 9, 40, 200, 600])
        if len(ps) > 1 and rng.chance(1, 10):
            ps = ps[:-1]   # an incomplete code tree: NumDecompressor::new must refuse it
        sessions.append({"ub": ub, "ps": ps, "n": rng.choice([1, 5, 29, 30, 31, 64, 400, 5000]),
                         "hex": "".join("%02x" % rng.choice([0, 0xff, rng.below(256), rng.below(256)]) for _ in range(nb)), "kind": "random"})
    for s in sessions:
        s.update(nproc=0, inc=None, bit=rng.choice([0, 0, 0, 8]) if s["kind"] == "random" and len(s["hex"]) >= 2 else 0, done=False)
    for rnd in range(rounds):
        live = [s for s in sessions if not s["done"]]
        if not live:
            break
        lines = []
        for s in live:
            limit = rng.choice([1, 2, 7, 29, 30, 31, 64, 1000, 1 << 24])
            eoi = rng.chance(1, 2)
            s["last"] = (limit, eoi)
            lines.append(numdec_line(s["ub"], s["n"], s["nproc"], s["inc"], limit, eoi, s["bit"], s["hex"], s["ps"]))
        imp = C.harness(lines, timeout=600)
        mod = C.driver(lines, timeout=600)
        for s, line, a, m in zip(live, lines, imp, mod):
            tags = ["chained"] if rnd else []
            kv = parse_kv(a)
            if kv.get("n", "0") not in ("0",) and int(kv["n"]) >= 30:
                tags.append("fast-path-sized")
            ctx.case(line[:300], tags)
            ctx.count("numdec:" + s["kind"]); ctx.count("numdec-status:" + kv["status"].split(":")[-1][:20])
            if a == "no-hooks":
                ctx.tie_break("hooks", "the harness was built without the verification hooks")
                return
            if m in ("timeout", "died") or a in ("timeout", "died"):
                s["done"] = True
                continue
            ca = "panic" if a.startswith("panic") else a
            cm = "panic" if m.startswith("panic") else m
            if ca != cm:
                ctx.disagree("numdec", line[:2000], m[:300], a[:300], "literal NumDecompressor (layer N) differs from decompress_unsigneds_limited_dirty")
                s["done"] = True
                continue
            if kv["status"] != "ok":
                s["done"] = True
                continue
            got = int(kv["n"])
            s["nproc"] += got
            s["bit"] = int(kv["bit_idx"])
            inc = kv["inc"]
            if inc == "none":
                s["inc"] = None
            else:
                lo, reps = inc.split(":")
                idx = [i for i, p in enumerate(s["ps"]) if p[1] == int(lo, 16) and p[4] is not None]
                s["inc"] = (idx[0], int(reps)) if idx else None
                if not idx:
                    s["done"] = True
            if s["nproc"] >= s["n"] or (got == 0 and kv.get("finished") == "false"):
                s["done"] = True
