"""Correspondence streams shared by several properties."""
from . import common as C
from . import gen as G

ALL_DT = list(C.DTYPES)

def enc_case(rng, dt=None, n=None, level=None, order=None, gcds=None, kind=None, nchunks=None):
    dt = dt or rng.choice(ALL_DT)
    if level is None:
        level = rng.choice([0, 1, 2, 3, 5, 6, 8, 8, 8, 10, 12])
    if order is None:
        order = rng.choice([0, 0, 0, 1, 1, 2, 3, 5, 7])
    if gcds is None:
        gcds = rng.choice([1, 1, 0])
    if nchunks is None:
        nchunks = rng.choice([1, 1, 1, 2, 3])
    chunks = []
    kinds = []
    for _ in range(nchunks):
        nn = n if n is not None else rng.choice([1, 2, 3, 5, 8, 17, 33, 100, 257, 1000, 1001, 1500, 2500])
        xs, k = G.gen_seq(rng, dt, nn, kind)
        chunks.append(xs)
        kinds.append(k)
    return {"dt": dt, "level": level, "order": order, "gcds": gcds, "chunks": chunks, "kinds": kinds, "drain": rng.below(2)}

def compress_line(c):
    return "compress %s %d %d %d %d %s" % (c["dt"], c["level"], c["order"], c["gcds"], c.get("drain", 0),
                                          " ".join(G.hexlist(ch) for ch in c["chunks"]))

def enc_line(c, hexbytes):
    return "enc %s %d %d %d %d %s %s" % (c["dt"], c["level"], c["order"], c["gcds"], len(c["chunks"]),
                                         " ".join(G.hexlist(ch) for ch in c["chunks"]), hexbytes)

def parse_kv(s):
    out = {}
    for t in s.split(" "):
        if "=" in t:
            k, v = t.split("=", 1)
            out[k] = v
    return out

def parse_meta(s):
    """'n=.. body=.. moments=.. [common=..] prefixes=..' -> dict (prefixes as tuples)"""
    kv = parse_kv(s)
    prefs = []
    if kv.get("prefixes"):
        for p in kv["prefixes"].split(";"):
            cnt, lo, hi, code, jump, g = p.split(":")
            prefs.append((int(cnt), int(lo, 16), int(hi, 16), code, jump, int(g, 16)))
    return {"n": int(kv["n"]), "body": int(kv["body"]), "moments": kv.get("moments", ""), "prefixes": prefs,
            "vals": kv.get("vals")}

def meta_equal_mod_single(a, b):
    """returned metadata == parsed metadata; the divisor of a single-valued range is not significant"""
    if (a["n"], a["body"], a["moments"]) != (b["n"], b["body"], b["moments"]) or len(a["prefixes"]) != len(b["prefixes"]):
        return False
    for p, q in zip(a["prefixes"], b["prefixes"]):
        if p[:5] != q[:5]:
            return False
        if p[1] != p[2] and p[5] != q[5]:
            return False
    return True

def run_enc(ctx, cases):
    """compress with the real library, analyse the bytes with the model; returns per-case results"""
    imp = C.harness([compress_line(c) for c in cases], timeout=1200)
    res = []
    mlines, midx = [], []
    for i, (c, a) in enumerate(zip(cases, imp)):
        r = {"case": c, "impl": a, "bytes": None, "metas": [], "model": None, "chunks": []}
        if a.startswith("ok bytes="):
            parts = a.split(" | ")
            r["bytes"] = parts[0][len("ok bytes="):]
            r["metas"] = [parse_meta(p) for p in parts[1:]]
            if ctx.model_ok:
                mlines.append(enc_line(c, r["bytes"]))
                midx.append(i)
        res.append(r)
    if mlines:
        mo = C.driver(mlines, timeout=2400)
        dl = C.driver(["dec %s %s" % (res[i]["case"]["dt"], res[i]["bytes"]) for i in midx], timeout=2400)
        for i, m, dd in zip(midx, mo, dl):
            res[i]["model"] = m
            res[i]["dec"] = dd
            if m.startswith("ok "):
                parts = m.split(" | ")
                res[i]["head"] = parse_kv(parts[0])
                res[i]["chunks"] = [parse_kv(p) for p in parts[1:]]
            if dd.startswith("ok "):
                parts = dd.split(" | ")
                res[i]["dec_metas"] = [parse_meta(p) for p in parts[1:]]
    return res

def impl_decode_lines(dt, hexbytes, limit=100000):
    """the four read modes of the real decoder on complete bytes"""
    return [
        "dops %s %d W%s D" % (dt, limit, hexbytes),
    ]

def flat(chunks):
    return [x for ch in chunks for x in ch]

# ------------------------------------------------------------------------------------------
# shipped asset files (bytes written by releases 0.4, 0.6, 0.9, 0.10)

import os
ASSET_DT = {"v0.4_i64_empty": "i64", "v0.4_bool_sparse_2k": "bool", "v0.4_i32_2k": "i32", "v0.4_f32_2k": "f32",
            "v0.6_timestamp_deltas_2k": "micros96", "v0.9_dispersed_shorts": "u16", "v0.10_varied_gcds": "f32",
            "v0.10_same_gcds": "i32"}

def raw_to_pattern(dt, raw):
    P, W, kind, pps = C.DTYPES[dt]
    if kind == "bool":
        return 1 if raw else 0
    if kind == "ts96":
        return (raw - pps * 2**63) % 2**128
    return raw

def assets():
    out = []
    d = os.path.join(C.REPO, "q_compress", "assets")
    for name, dt in sorted(ASSET_DT.items()):
        try:
            qco = open(os.path.join(d, name + ".qco"), "rb").read()
            raw = open(os.path.join(d, name + ".bin"), "rb").read()
        except OSError:
            continue
        P = C.DTYPES[dt][0] // 8
        vals = [raw_to_pattern(dt, int.from_bytes(raw[i:i + P], "big")) for i in range(0, len(raw), P)]
        out.append((name, dt, qco.hex(), vals))
    return out
