#!/usr/bin/env python3
"""Replays a violation file: re-runs its request line on the implementation harness (and the model driver)."""
import json, os, sys
sys.path.insert(0, os.path.dirname(os.path.abspath(__file__)))
from qco import common as C

def main():
    obj = json.load(open(sys.argv[1]))
    print(json.dumps({k: v for k, v in obj.items() if k not in ("request",)}, indent=1)[:3000])
    req = obj.get("request")
    if not req:
        return
    C.build_harness()
    print("request:", req[:500])
    print("implementation:", C.harness([req])[0][:2000])
    if os.path.exists(C.DRIVER):
        print("model:", C.driver([req])[0][:2000])

if __name__ == "__main__":
    main()
