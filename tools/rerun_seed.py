#!/usr/bin/env python3
"""Re-run checks against a kept seeded change after the checks were strengthened and record the outcome (with a note
saying what had to be strengthened) in seeded/<name>/meta.json.   usage: rerun_seed.py <name> "<note>" <check> [<check> ...]"""
import json, os, subprocess, sys, time
V = os.path.dirname(os.path.dirname(os.path.abspath(__file__)))
REPO = "/repo"

def sh(cmd, cwd=None, timeout=3600):
    p = subprocess.run(cmd, cwd=cwd, shell=True, stdout=subprocess.PIPE, stderr=subprocess.STDOUT, text=True, timeout=timeout)
    return p.returncode, p.stdout

def main():
    name, note, checks = sys.argv[1], sys.argv[2], sys.argv[3:]
    dst = os.path.join(V, "seeded", name)
    meta = json.load(open(os.path.join(dst, "meta.json")))
    rc, out = sh("git -C %s status --short | grep -v '^??' | head" % REPO)
    if out.strip():
        print("refusing: repo has local modifications:", out); sys.exit(3)
    rc, out = sh("git -C %s apply %s" % (REPO, os.path.join(dst, "patch.diff")))
    if rc != 0:
        print("patch does not apply:", out); sys.exit(3)
    try:
        for c in checks:
            t = time.time()
            rc, out = sh("%s tools/run_check.py %s quick" % (sys.executable, c), cwd=V)
            viol = [l for l in out.split("\n") if l.startswith("VIOLATION")]
            summary = [l for l in out.split("\n") if l.startswith("[%s] tier" % c)]
            detail = ""
            if viol:
                rp = viol[0].split("replay=")[1].split(" ")[0]
                try:
                    o = json.load(open(rp)); detail = (o.get("what", "") + " :: " + str(o.get("request", ""))[:200])
                except Exception:
                    pass
            entry = {"check": c, "tier": "quick", "exit": rc, "caught": rc != 0, "violation_lines": viol[:3], "what": detail[:600],
                     "summary": summary[-1] if summary else out[-300:], "wall_s": round(time.time() - t, 1)}
            old = [r for r in meta["ran"] if r["check"] == c]
            if old and not old[0].get("caught"):
                entry["first_run"] = {k: old[0].get(k) for k in ("exit", "caught", "summary")}
            if old and old[0].get("caught") and "no-failing-input-found" in " ".join(old[0].get("violation_lines", [])):
                entry["first_run"] = {"caught": True, "only": "no-failing-input-found"}
            if note and c == checks[0]:
                entry["note"] = note
            meta["ran"] = [r for r in meta["ran"] if r["check"] != c] + [entry]
            print("  check %s: exit=%d caught=%s %s %s" % (c, rc, rc != 0, "nfi" if viol and "no-failing-input-found" in viol[0] else "", detail[:140]))
    finally:
        sh("git -C %s checkout -- ." % REPO)
    json.dump(meta, open(os.path.join(dst, "meta.json"), "w"), indent=1)

if __name__ == "__main__":
    main()
