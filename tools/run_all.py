#!/usr/bin/env python3
"""Run every claimed check (quick or thorough) and summarise; used before committing evidence."""
import json, os, subprocess, sys, time
V = os.path.dirname(os.path.dirname(os.path.abspath(__file__)))
tier = sys.argv[1] if len(sys.argv) > 1 else "quick"
only = sys.argv[2:]
m = json.load(open(os.path.join(V, "MANIFEST.json")))
bad = 0
for c in m["checks"]:
    pid = c["property_id"]
    if only and pid not in only:
        continue
    t = time.time()
    p = subprocess.run([sys.executable, os.path.join(V, "tools", "run_check.py"), pid, tier], cwd=V, stdout=subprocess.PIPE, stderr=subprocess.STDOUT, text=True)
    last = [l for l in p.stdout.split("\n") if l.startswith("[%s] tier" % pid)]
    viol = [l for l in p.stdout.split("\n") if l.startswith("VIOLATION") or l.startswith("EVIDENCE-SCHEMA")]
    print("%s rc=%d %.0fs %s %s" % (pid, p.returncode, time.time() - t, last[-1] if last else p.stdout[-300:], " ".join(viol)), flush=True)
    bad += p.returncode != 0
sys.exit(1 if bad else 0)
