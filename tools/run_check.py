#!/usr/bin/env python3
"""Orchestrator: `run_check.py <property id> <quick|thorough>` (DESIGN.md section 4).
exit 0 = the property held on everything explored; exit 1 + `VIOLATION property=<id> replay=<path>`."""
import importlib, json, os, sys, time, traceback

sys.path.insert(0, os.path.dirname(os.path.abspath(__file__)))
from qco import common as C
from qco.ctx import Ctx

def main():
    if len(sys.argv) < 3:
        print("usage: run_check.py <Cxx> <quick|thorough> [--replay file]")
        sys.exit(2)
    pid, tier = sys.argv[1], sys.argv[2]
    tier = os.environ.get("VERIF_TIER", tier) if tier not in ("quick", "thorough") else tier
    seed = C.seed_from_env()
    t0 = time.time()
    ctx = Ctx(pid, tier, seed)

    # 0. harness against the working tree (the translator asks the compiled library for the data-type table, defaults
    #    and flag layout; a failure is recorded below, the translator then falls back to the source text)
    ok_h, out_h = C.build_harness()

    # 1. translator: constants from /repo's working tree
    ok, msg = C.extract_constants()
    C.log("[%s] %s" % (pid, msg))
    if not ok:
        ctx.tie_break("extract_constants", msg)

    # 2. proofs: the property module and the model driver
    ok_drv, out_drv = C.lake_build(["qcodrv"])
    if not ok_drv:
        ctx.tie_break("driver-build", tail(out_drv))
    ok_prop, out_prop = C.lake_build((["Qco.Properties." + m for m in C.property_modules(pid)] or ["Qco.Properties." + pid]) + C.extra_audit(pid)[0])
    if not ok_prop:
        ctx.proof_break("lake build Qco.Properties.%s" % pid, tail(out_prop))

    # 3. audit
    thms, discharged, details, checker_cmd, audit_err = (C.property_theorems(pid), [], {}, "", "")
    if ok_prop:
        thms, discharged, details, checker_cmd, audit_err = C.audit(pid)
        bad = [t for t in thms if t not in discharged]
        if bad:
            ctx.proof_break("axiom audit", "theorems outside the allowed axioms or missing: %s %s" % (bad, audit_err[-800:]))
        hits = C.grep_forbidden()
        if hits:
            ctx.proof_break("forbidden-constructs", "; ".join(hits[:10]))
        if tier == "thorough":
            rc, out = C.sh(["lake", "env", "leanchecker", "Qco.Properties." + pid], cwd=C.LEAN, timeout=3000)
            ctx.notes.append("leanchecker rc=%d" % rc)
            if rc != 0:
                ctx.proof_break("leanchecker", tail(out))
    ctx.obligations = thms
    ctx.discharged = discharged
    ctx.axioms = details
    ctx.checker_cmd = checker_cmd
    ctx.model_ok = ok_drv

    # 4. harness against the working tree (built in step 0)
    if ok_h and not C.HOOKS_OK:
        ctx.tie_break("hooks-build", "the guarded verification hooks do not compile against the working tree; the harness was built "
                      "without them: public-API streams and oracles run, the hook streams (word-level reader/writer scripts, body "
                      "writer, NumDecompressor, f64 helpers) are not evaluated\n" + tail(C.HOOKS_ERR))
    if not ok_h:
        ctx.tie_break("harness-build", tail(out_h))
        ctx.impl_ok = False

    # 5. streams and direct oracles
    try:
        mod = importlib.import_module("qco.checks." + pid.lower())
        if ctx.impl_ok:
            ctx.replay_known()
            mod.run(ctx)
    except Exception:
        ctx.tie_break("check-crashed", traceback.format_exc()[-1500:])

    # 6. verdict + 7. evidence
    rc = ctx.finish(time.time() - t0)
    sys.exit(rc)

def tail(s, n=1500):
    lines = [l for l in s.split("\n") if "error" in l.lower() or "unsolved" in l.lower()]
    t = "\n".join(lines[:12])
    return (t + "\n...\n" + s[-n:]) if t else s[-n:]

if __name__ == "__main__":
    main()
