#!/usr/bin/env python3
"""Rewrites the seeded-changes table in DESIGN.md from seeded/*/meta.json."""
import glob, json, os, re
V = os.path.dirname(os.path.dirname(os.path.abspath(__file__)))
rows = []
for mp in sorted(glob.glob(os.path.join(V, "seeded", "*", "meta.json"))):
    m = json.load(open(mp))
    name = os.path.basename(os.path.dirname(mp))
    caught = [r["check"] for r in m.get("ran", []) if r.get("caught")]
    missed = [r["check"] for r in m.get("ran", []) if not r.get("caught") and r["check"] not in caught]
    notes = [r.get("note", "") for r in m.get("ran", []) if r.get("note")]
    first = next((r for r in m.get("ran", []) if r.get("caught") and r.get("what")), None)
    needs = (m.get("needs_to_manifest", "") or "").replace("\n", " ")
    needs = re.sub(r"\s+", " ", needs)[:0]
    rows.append("| `%s` | %s | %s | %s | %s |" % (name, m["property"], ", ".join(sorted(set(caught))) or "—", ", ".join(sorted(set(missed))) or "—",
                (notes[0] if notes else (first["what"].split(" :: ")[0][:140] if first else "")).replace("|", "/")))
table = "| seeded change (`seeded/<name>/`) | breaks | caught by (quick tier) | ran but did not flag | how / what had to be strengthened |\n|---|---|---|---|---|\n" + "\n".join(rows)
p = os.path.join(V, "DESIGN.md")
s = open(p).read()
if "SEEDED_TABLE_PLACEHOLDER" in s:
    s = s.replace("SEEDED_TABLE_PLACEHOLDER", "<!-- SEEDED-TABLE-BEGIN -->\n<!-- SEEDED-TABLE-END -->")
s = re.sub(r"<!-- SEEDED-TABLE-BEGIN -->.*?<!-- SEEDED-TABLE-END -->", "<!-- SEEDED-TABLE-BEGIN -->\n" + table + "\n<!-- SEEDED-TABLE-END -->", s, flags=re.S)
open(p, "w").write(s)
print(table)
