#!/usr/bin/env python3
"""setup_cmd: build everything from files on disk only (offline)."""
import os, sys
sys.path.insert(0, os.path.dirname(os.path.abspath(__file__)))
from qco import common as C

def main():
    ok4, out = C.build_harness(); print(out[-1000:])   # first: the translator asks the compiled library
    ok, msg = C.extract_constants(); print(msg)
    ok2, out = C.lake_build([]); print(out[-2000:])
    ok3, out = C.lake_build(["qcodrv"]); print(out[-500:])
    sys.exit(0 if (ok and ok2 and ok3 and ok4) else 1)

if __name__ == "__main__":
    main()
