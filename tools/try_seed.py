#!/usr/bin/env python3
"""Confirm a seeded change in its scratch worktree, keep it under /verif/seeded/<name>/, run checks against it
(applied to /repo, reverted straight afterwards) and record which checks catch it.
usage: try_seed.py <worktree> <name> <property> [checks to run ...]"""
import json, os, shutil, subprocess, sys, time
V = os.path.dirname(os.path.dirname(os.path.abspath(__file__)))
REPO = os.environ.get("QCO_REPO", "/repo")  # a scratch clone when the real tree is busy with a background run

def sh(cmd, cwd=None, timeout=3600):
    p = subprocess.run(cmd, cwd=cwd, shell=True, stdout=subprocess.PIPE, stderr=subprocess.STDOUT, text=True, timeout=timeout,
                       env=dict(os.environ, CARGO_NET_OFFLINE="true"))
    return p.returncode, p.stdout

def main():
    wt, name, pid = sys.argv[1], sys.argv[2], sys.argv[3]
    checks = sys.argv[4:] or [pid]
    demo = "demo_" + pid.lower()
    patch = os.path.join(wt, "patch.diff")
    meta = {"property": pid, "name": name, "confirmed": {}, "ran": []}
    # 1. confirm in the scratch worktree
    rc, out = sh("git diff --stat -- q_compress/src q_compress_cli/src", cwd=wt)
    if not out.strip():
        rc, out = sh("git apply patch.diff", cwd=wt)
    rc, out = sh("git diff -- q_compress/src q_compress_cli/src > /tmp/_seed.diff; cmp /tmp/_seed.diff patch.diff || cp /tmp/_seed.diff patch.diff", cwd=wt)
    rc, out = sh("cargo test --workspace --no-fail-fast --offline 2>&1 | grep -E '^test result|FAILED|panicked'", cwd=wt)
    tests_ok = "FAILED" not in out and "panicked" not in out and out.count("test result: ok") >= 3
    meta["confirmed"]["tests_pass_with_change"] = tests_ok
    meta["confirmed"]["test_summary"] = out.strip().split("\n")
    shdemo = os.path.exists(os.path.join(wt, demo + ".sh"))
    run_demo = ("bash ./%s.sh" % demo) if shdemo else ("cargo run --offline --release --example %s --features timestamps_96" % demo)
    rc_with, out_with = sh("bash -c '%s > /tmp/_demo.out 2>&1; echo rc=$?; tail -8 /tmp/_demo.out'" % run_demo, cwd=wt)
    sh("git apply -R patch.diff", cwd=wt)   # not `git stash`: the stash is shared by all worktrees of a repository
    rc_wo, out_wo = sh("bash -c '%s > /tmp/_demo.out 2>&1; echo rc=$?; tail -4 /tmp/_demo.out'" % run_demo, cwd=wt)
    sh("git apply patch.diff", cwd=wt)
    meta["confirmed"]["demo_with_change"] = out_with.strip().split("\n")[:10]
    meta["confirmed"]["demo_without_change"] = out_wo.strip().split("\n")[:6]
    fails_with = "rc=0" not in out_with.split("\n")[0]
    passes_without = "rc=0" in out_wo.split("\n")[0]
    meta["confirmed"]["demo_fails_with_change"] = fails_with
    meta["confirmed"]["demo_passes_without_change"] = passes_without
    print("confirm: tests_ok=%s demo_fails_with=%s demo_passes_without=%s" % (tests_ok, fails_with, passes_without))
    if not (tests_ok and fails_with and passes_without):
        print("NOT CONFIRMED", json.dumps(meta, indent=1)[:2000])
        sys.exit(2)
    # 2. keep
    dst = os.path.join(V, "seeded", name)
    os.makedirs(dst, exist_ok=True)
    shutil.copy(patch, os.path.join(dst, "patch.diff"))
    if shdemo:
        shutil.copy(os.path.join(wt, demo + ".sh"), os.path.join(dst, demo + ".sh"))
    else:
        shutil.copy(os.path.join(wt, "q_compress", "examples", demo + ".rs"), os.path.join(dst, demo + ".rs"))
    if os.path.exists(os.path.join(wt, "NOTES.md")):
        shutil.copy(os.path.join(wt, "NOTES.md"), os.path.join(dst, "NOTES.md"))
        meta["needs_to_manifest"] = open(os.path.join(wt, "NOTES.md")).read()[:1500]
    # 3. run the checks against it
    rc, out = sh("git -C %s status --short | grep -v '^??' | head" % REPO, cwd=V)
    if out.strip():
        print("refusing: repo has local modifications:", out); sys.exit(3)
    rc, out = sh("git -C %s apply %s" % (REPO, os.path.join(dst, "patch.diff")))
    if rc != 0:
        print("patch does not apply to /repo:", out); sys.exit(3)
    try:
        for c in checks:
            t = time.time()
            rc, out = sh("%s tools/run_check.py %s quick" % (sys.executable, c), cwd=V, timeout=3000)
            viol = [l for l in out.split("\n") if l.startswith("VIOLATION")]
            summary = [l for l in out.split("\n") if l.startswith("[%s] tier" % c)]
            detail = ""
            if viol:
                rp = viol[0].split("replay=")[1].split(" ")[0]
                try:
                    o = json.load(open(rp)); detail = (o.get("what", "") + " :: " + str(o.get("request", ""))[:200])
                except Exception:
                    pass
            meta["ran"].append({"check": c, "tier": "quick", "exit": rc, "caught": rc != 0, "violation_lines": viol[:3], "what": detail[:600],
                                "summary": summary[-1] if summary else out[-300:], "wall_s": round(time.time() - t, 1)})
            print("  check %s: exit=%d caught=%s %s" % (c, rc, rc != 0, detail[:160]))
    finally:
        sh("git -C %s checkout -- ." % REPO)
        rc, out = sh("git -C %s status --short | grep -v '^??' | head" % REPO)
        print("  /repo restored:", "clean" if not out.strip() else out)
    json.dump(meta, open(os.path.join(dst, "meta.json"), "w"), indent=1)
    # restore evidence of the unchanged tree for the checks that were run
    for c in checks:
        sh("%s tools/run_check.py %s quick" % (sys.executable, c), cwd=V, timeout=3000)

if __name__ == "__main__":
    main()
